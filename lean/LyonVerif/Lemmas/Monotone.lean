/-
  Helper lemmas for the C02 growth item (`Props/C02b.lean`): the doubling loop of `flush_side`,
  the basic tessellator fed with fresh (not necessarily increasing) ids, `Adv.vertex` cut into
  pieces, the invariant of the two-level scheme, and the orientation of the basic tessellator's
  triangles over an ordered field.
-/
import LyonVerif.Props.C02
import LyonVerif.Lemmas.Field

set_option linter.unusedSectionVars false
set_option linter.unusedVariables false
set_option linter.unusedSimpArgs false

geom_all Lyon.Mono

namespace Lyon.C02b
open Lyon Lyon.Mono Lyon.C02

/-! ## `flush_side`'s doubling loop -/

/-- number of triangles of one level -/
theorem flushLevel_length (ev : Array Nat) (len step : Nat) (right : Bool) (hs : 1 ≤ step)
    (hlt : step * 2 < len) :
    (flushLevel ev len step right).length = (len - 1) / step - (len - 1) / (2 * step) := by
  have hq2 : (len - 1) / (2 * step) = (len - 1) / step / 2 := by
    rw [Nat.div_div_eq_div_mul, Nat.mul_comm]
  have hm1 : 1 ≤ (len - 1) / (2 * step) := by
    rw [Nat.le_div_iff_mul_le (by omega)]; omega
  -- the extra triangle exists iff the number of steps is odd
  have hcond : ∀ m, m = (len - 1) / (2 * step) → 1 ≤ m →
      (((if (m == 0) = true then 0 else (m - 1) * 2 * step + step + step) + step < len) ↔
        2 * m + 1 ≤ (len - 1) / step) := by
    intro m _ hm
    have h0 : (m == 0) = false := by simp; omega
    rw [h0]
    simp only [Bool.false_eq_true, if_false]
    rw [Nat.le_div_iff_mul_le (by omega)]
    obtain ⟨m', rfl⟩ : ∃ m', m = m' + 1 := ⟨m - 1, by omega⟩
    have e1 : (m' + 1 - 1) * 2 * step = m' * (2 * step) := by
      rw [Nat.add_sub_cancel, Nat.mul_assoc]
    have e2 : (2 * (m' + 1) + 1) * step = m' * (2 * step) + 3 * step := by
      rw [Nat.add_mul, Nat.mul_add, Nat.add_mul, Nat.mul_comm 2 m', Nat.mul_assoc]; omega
    rw [e1, e2]
    omega
  unfold flushLevel
  simp only [List.length_append, List.length_map, List.length_range]
  have hc := hcond _ rfl hm1
  by_cases hx : 2 * ((len - 1) / (2 * step)) + 1 ≤ (len - 1) / step
  · rw [if_pos (hc.mpr hx)]
    simp only [List.length_cons, List.length_nil]
    omega
  · rw [if_neg (fun h => hx (hc.mp h))]
    simp only [List.length_nil]
    omega

theorem flushLevels_length (ev : Array Nat) (len : Nat) (right : Bool) (fuel step : Nat)
    (hs : 1 ≤ step) (hf : len ≤ step + fuel) :
    (flushLevels ev len right fuel step).length = (len - 1) / step - 1 := by
  induction fuel generalizing step with
  | zero =>
    simp only [flushLevels, List.length_nil]
    have : (len - 1) / step = 0 := Nat.div_eq_of_lt (by omega)
    omega
  | succ fuel ih =>
    simp only [flushLevels]
    split
    · rename_i hlt
      rw [List.length_append, flushLevel_length ev len step right hs hlt, ih (step * 2) (by omega) (by omega)]
      have hq2 : (len - 1) / (2 * step) = (len - 1) / step / 2 := by
        rw [Nat.div_div_eq_div_mul, Nat.mul_comm]
      have hm1 : 1 ≤ (len - 1) / (2 * step) := by
        rw [Nat.le_div_iff_mul_le (by omega)]; omega
      rw [Nat.mul_comm step 2]
      omega
    · rename_i hge
      have : (len - 1) / step < 2 := by
        rw [Nat.div_lt_iff_lt_mul (by omega)]; omega
      simp only [List.length_nil]
      omega

/-- **`flush_side` emits `len − 2` triangles** for a chain of `len` buffered ids. -/
theorem flushLevels_count (ev : Array Nat) (len : Nat) (right : Bool) :
    (flushLevels ev len right (len + 1) 1).length = len - 2 := by
  rw [flushLevels_length ev len right (len + 1) 1 (by omega) (by omega), Nat.div_one]
  omega


/-- `t` is a triangle on three chain entries with increasing indices `a < b < c < len`, listed in
increasing order on the left side and in an odd permutation of it on the right side (both shapes
`flush_side` uses: `(b, a, c)` in its main loop, `(a, c, b)` for the leftover triangle). -/
def ChainTri (ev : Array Nat) (len : Nat) (right : Bool) (t : Tri) : Prop :=
  ∃ a b c, a < b ∧ b < c ∧ c < len ∧
    (if right then t = (ev.getD b 0, ev.getD a 0, ev.getD c 0) ∨ t = (ev.getD a 0, ev.getD c 0, ev.getD b 0)
     else t = (ev.getD a 0, ev.getD b 0, ev.getD c 0))

theorem flushLevel_chainTri (ev : Array Nat) (len step : Nat) (right : Bool) (hs : 1 ≤ step)
    (hlt : step * 2 < len) : ∀ t ∈ flushLevel ev len step right, ChainTri ev len right t := by
  have hm1 : 1 ≤ (len - 1) / (2 * step) := by
    rw [Nat.le_div_iff_mul_le (by omega)]; omega
  have hle : (len - 1) / (2 * step) * (2 * step) ≤ len - 1 := Nat.div_mul_le_self _ _
  intro t ht
  unfold flushLevel at ht
  simp only [List.mem_append, List.mem_map, List.mem_range] at ht
  rcases ht with ⟨i, hi, rfl⟩ | ht
  · refine ⟨i * 2 * step, i * 2 * step + step, i * 2 * step + step + step, by omega, by omega, ?_, ?_⟩
    · have : (i + 1) * (2 * step) ≤ (len - 1) / (2 * step) * (2 * step) := Nat.mul_le_mul_right _ hi
      have e : (i + 1) * (2 * step) = i * 2 * step + step + step := by
        rw [Nat.add_mul, Nat.mul_assoc]; omega
      omega
    · cases right <;> simp
  · obtain ⟨m', hm'⟩ : ∃ m', (len - 1) / (2 * step) = m' + 1 := ⟨(len - 1) / (2 * step) - 1, by omega⟩
    rw [hm'] at ht
    have h0 : (m' + 1 == 0) = false := by simp
    simp only [h0, Bool.false_eq_true, if_false, Nat.add_sub_cancel] at ht
    split at ht
    · rename_i hlt2
      simp only [List.mem_singleton] at ht
      refine ⟨0, m' * 2 * step + step + step, m' * 2 * step + step + step + step, by omega, by omega, hlt2, ?_⟩
      cases right <;> simp [ht]
    · simp at ht

theorem flushLevels_chainTri (ev : Array Nat) (len : Nat) (right : Bool) (fuel step : Nat) (hs : 1 ≤ step) :
    ∀ t ∈ flushLevels ev len right fuel step, ChainTri ev len right t := by
  induction fuel generalizing step with
  | zero => intro t ht; simp [flushLevels] at ht
  | succ fuel ih =>
    intro t ht
    simp only [flushLevels] at ht
    split at ht
    · rename_i hlt
      rcases List.mem_append.mp ht with h | h
      · exact flushLevel_chainTri ev len step right hs hlt t h
      · exact ih (step * 2) (by omega) t h
    · simp at ht

/-- **every triangle of `flush_side` uses three different chain positions** `a < b < c < len`. -/
theorem flushLevels_ids (ev : Array Nat) (len : Nat) (right : Bool) :
    ∀ t ∈ flushLevels ev len right (len + 1) 1, ChainTri ev len right t :=
  flushLevels_chainTri ev len right (len + 1) 1 (by omega)

/-- with pairwise distinct buffered ids the three ids of a chain triangle are distinct -/
theorem chainTri_distinct (l : List Nat) (right : Bool) (hnd : l.Nodup) (t : Tri)
    (h : ChainTri l.toArray l.length right t) : TriDistinct t := by
  obtain ⟨a, b, c, hab, hbc, hc, h⟩ := h
  have g : ∀ i, i < l.length → l.toArray.getD i 0 = l[i]! := by
    intro i hi; simp [Array.getD, hi]
  have inj : ∀ i j, i < j → j < l.length → l[i]! ≠ l[j]! := by
    intro i j hij hj
    have hi : i < l.length := by omega
    simp only [getElem!_pos, hi, hj]
    exact (List.pairwise_iff_getElem.mp hnd) i j hi hj hij
  rw [g a (by omega), g b (by omega), g c hc] at h
  have h1 := inj a b hab (by omega)
  have h2 := inj b c hbc hc
  have h3 := inj a c (by omega) hc
  cases right
  · simp only [Bool.false_eq_true, if_false] at h
    subst h; exact ⟨h1, h2, h3⟩
  · simp only [if_true] at h
    rcases h with h | h <;> subst h
    · exact ⟨h1.symm, h3, h2⟩
    · exact ⟨h3, h2.symm, h1⟩


/-- A small integer scalar, used only to evaluate the models in `decide`d examples (`x / y` is
integer division; decimal literals `m·10^-e` are truncated, so scale coordinates by 10). -/
structure ZS where
  v : Int
deriving DecidableEq, Repr

instance : Scalar ZS where
  add a b := ⟨a.v + b.v⟩
  sub a b := ⟨a.v - b.v⟩
  mul a b := ⟨a.v * b.v⟩
  div a b := ⟨a.v / b.v⟩
  neg a := ⟨-a.v⟩
  lt a b := a.v < b.v
  le a b := a.v ≤ b.v
  beq a b := a.v == b.v
  ofNat n := ⟨n⟩
  ofSci m e := ⟨m / 10 ^ e⟩
  dlt := fun a b => inferInstanceAs (Decidable (a.v < b.v))
  dle := fun a b => inferInstanceAs (Decidable (a.v ≤ b.v))
  abs a := ⟨a.v.natAbs⟩
  min a b := if a.v ≤ b.v then a else b
  max a b := if a.v ≤ b.v then b else a

variable {α : Type} [Scalar α]

/-! ## the basic tessellator fed with a FRESH id (not necessarily the largest so far) -/

theorem fanTris_distinct' (cur : MV α) (l : List (MV α))
    (hnd : (l.map (·.id)).Nodup) (hfresh : cur.id ∉ l.map (·.id)) : ∀ t ∈ fanTris cur l, TriDistinct t := by
  induction l with
  | nil => intro t ht; simp [fanTris] at ht
  | cons a r ih =>
    cases r with
    | nil => intro t ht; simp [fanTris] at ht
    | cons b r' =>
      intro t ht
      simp only [fanTris, List.mem_cons] at ht
      simp only [List.map_cons, List.nodup_cons, List.mem_cons, not_or] at hnd hfresh
      rcases ht with ht | ht
      · subst ht
        simp only [fanTri, TriDistinct]
        split
        · exact ⟨hnd.1.1, fun h => hfresh.2.1 h.symm, fun h => hfresh.1 h.symm⟩
        · exact ⟨fun h => hnd.1.1 h.symm, fun h => hfresh.1 h.symm, fun h => hfresh.2.1 h.symm⟩
      · apply ih
        · simp only [List.map_cons, List.nodup_cons, List.mem_cons, not_or]
          exact hnd.2
        · simp only [List.map_cons, List.mem_cons, not_or]
          exact hfresh.2
        · exact ht

theorem popLoop_spec' (cur lp : MV α) (st : List (MV α)) (hlp : lp.id ≠ cur.id)
    (hnot : lp.id ∉ st.map (·.id)) (hnd : (st.map (·.id)).Nodup) (hfresh : cur.id ∉ st.map (·.id)) :
    (((popLoop cur lp st).1.map (·.id)).Nodup) ∧ (∀ v ∈ (popLoop cur lp st).1, v.id ∈ lp.id :: st.map (·.id))
      ∧ ∀ t ∈ (popLoop cur lp st).2, TriDistinct t := by
  induction st generalizing lp with
  | nil => simp [popLoop]
  | cons top rest ih =>
    simp only [List.map_cons, List.nodup_cons, List.mem_cons, not_or] at hnd hfresh hnot
    simp only [popLoop]
    split
    · have := ih top (fun h => hfresh.1 h.symm) hnd.1 hnd.2 hfresh.2
      refine ⟨this.1, ?_, ?_⟩
      · intro v hv
        have := this.2.1 v hv
        simp only [List.map_cons, List.mem_cons] at this ⊢
        exact Or.inr this
      · intro t ht
        simp only [List.mem_cons] at ht
        rcases ht with ht | ht
        · subst ht
          simp only [earTri, TriDistinct]
          split
          · exact ⟨fun h => hnot.1 h.symm, hlp, fun h => hfresh.1 h.symm⟩
          · exact ⟨hnot.1, fun h => hfresh.1 h.symm, hlp⟩
        · exact this.2.2 t ht
    · refine ⟨?_, ?_, by simp⟩
      · simp only [List.map_cons, List.nodup_cons, List.mem_cons, not_or]
        exact ⟨hnot, hnd⟩
      · intro v hv
        simp only [List.mem_cons] at hv
        simp only [List.map_cons, List.mem_cons]
        rcases hv with hv | hv | hv
        · subst hv; exact Or.inl rfl
        · subst hv; exact Or.inr (Or.inl rfl)
        · exact Or.inr (Or.inr (List.mem_map.mpr ⟨v, hv, rfl⟩))

theorem vertex_fresh (s : Basic α) (cur : MV α) (htop : ∃ rest, s.stack = s.previous :: rest)
    (hnd : (s.stack.map (·.id)).Nodup) (htri : ∀ t ∈ s.tris, TriDistinct t)
    (hfresh : cur.id ∉ s.stack.map (·.id)) :
    (∃ rest, (s.vertex cur).stack = (s.vertex cur).previous :: rest) ∧
    ((s.vertex cur).stack.map (·.id)).Nodup ∧ (∀ t ∈ (s.vertex cur).tris, TriDistinct t) ∧
    (∀ v ∈ (s.vertex cur).stack, v.id = cur.id ∨ v.id ∈ s.stack.map (·.id)) ∧
    (s.vertex cur).tris.length + (s.vertex cur).stack.length = s.tris.length + s.stack.length + 1 := by
  obtain ⟨rest, hst⟩ := htop
  have hcnt := (vertex_countInv s cur (s.tris.length + s.stack.length) ⟨by simp [hst], rfl⟩).2
  refine ⟨?_, ?_, ?_, ?_, hcnt⟩
  all_goals
    unfold Basic.vertex
    split
  · exact ⟨_, rfl⟩
  · rw [hst]; exact ⟨_, rfl⟩
  · have : s.previous.id ∈ s.stack.map (·.id) := by rw [hst]; simp
    simp only [List.map_cons, List.map_nil, List.nodup_cons, List.mem_cons, List.not_mem_nil, or_false,
      not_false_eq_true, List.nodup_nil, and_true]
    intro h; exact hfresh (h ▸ this)
  · rw [hst] at hnd hfresh ⊢
    simp only [List.map_cons, List.nodup_cons, List.mem_cons, not_or] at hnd hfresh
    have sp := popLoop_spec' cur s.previous rest (fun h => hfresh.1 h.symm) hnd.1 hnd.2 hfresh.2
    simp only [List.map_cons, List.nodup_cons]
    refine ⟨?_, sp.1⟩
    intro hmem
    obtain ⟨v, hv, hvid⟩ := List.mem_map.mp hmem
    have := sp.2.1 v hv
    simp only [List.mem_cons] at this
    rcases this with h | h
    · exact hfresh.1 (hvid ▸ h)
    · exact hfresh.2 (hvid ▸ h)
  · intro t ht
    rcases List.mem_append.mp ht with h | h
    · exact htri t h
    · refine fanTris_distinct' cur s.stack.reverse ?_ ?_ t h
      · rw [List.map_reverse]
        unfold List.Nodup at hnd ⊢
        rw [List.pairwise_reverse]
        exact hnd.imp (fun h => fun e => h e.symm)
      · rw [List.map_reverse]; simpa using hfresh
  · rw [hst] at hnd hfresh ⊢
    simp only [List.map_cons, List.nodup_cons, List.mem_cons, not_or] at hnd hfresh
    have sp := popLoop_spec' cur s.previous rest (fun h => hfresh.1 h.symm) hnd.1 hnd.2 hfresh.2
    intro t ht
    rcases List.mem_append.mp ht with h | h
    · exact htri t h
    · exact sp.2.2 t h
  · intro v hv
    simp only [List.mem_cons, List.not_mem_nil, or_false] at hv
    rcases hv with hv | hv
    · exact Or.inl (hv ▸ rfl)
    · subst hv; right; rw [hst]; simp
  · rw [hst] at hnd hfresh ⊢
    simp only [List.map_cons, List.nodup_cons, List.mem_cons, not_or] at hnd hfresh
    have sp := popLoop_spec' cur s.previous rest (fun h => hfresh.1 h.symm) hnd.1 hnd.2 hfresh.2
    intro v hv
    simp only [List.mem_cons] at hv
    rcases hv with hv | hv
    · exact Or.inl (hv ▸ rfl)
    · right
      have := sp.2.1 v hv
      simpa using this


/-! ## `Adv.vertex` / `Adv.end_` cut into named pieces (definitionally the same functions) -/

def outwardTurn (sideEv : SideEv α) (p : P α) (l close : Bool) : Bool :=
  if !close && decide (sideEv.events.length ≥ 2) then
    decide ((sideEv.prev - sideEv.last.pos).cross (p - sideEv.last.pos) * (if l then Scalar.one else -Scalar.one) < Scalar.zero)
  else false

abbrev Trip (α : Type) := Basic α × SideEv α × SideEv α

def flushOpp (tess : Basic α) (sideEv oppEv : SideEv α) (l : Bool) : Trip α :=
  match (flushSide oppEv l).2.2 with
  | some mv => (((tess.pushTris (flushSide oppEv l).2.1).vertex mv), { sideEv with consRefX := sideEv.refPt.x }, (flushSide oppEv l).1)
  | none => (tess, sideEv, oppEv)

def flushOwn (tess : Basic α) (sideEv oppEv : SideEv α) (l : Bool) : Trip α :=
  match (flushSide sideEv (!l)).2.2 with
  | some mv => (((tess.pushTris (flushSide sideEv (!l)).2.1).vertex mv), (flushSide sideEv (!l)).1, { oppEv with consRefX := oppEv.refPt.x })
  | none => (tess, sideEv, oppEv)

def stepSides (tess : Basic α) (sideEv oppEv : SideEv α) (dx : α) (p : P α) (id : Nat) (l : Bool) : Trip α :=
  let close : Bool := decide (dx < (p.y - sideEv.refPt.y) * Scalar.ofSci 1 1)
  let r1 := if isAfter sideEv.last.pos oppEv.last.pos then flushOpp tess sideEv oppEv l else (tess, sideEv, oppEv)
  let r := if outwardTurn sideEv p l close || close then flushOwn r1.1 r1.2.1 r1.2.2 l else (tess, sideEv, oppEv)
  (r.1, r.2.1.push ⟨p, id, l⟩, r.2.2)

def updRef (st : Adv α) (pos : P α) (isLeft : Bool) : Adv α :=
    if isLeft then
      let rx := Scalar.max st.left.refPt.x pos.x
      { st with left := { st.left with refPt := ⟨rx, st.left.refPt.y⟩, consRefX := Scalar.max st.left.consRefX rx } }
    else
      let rx := Scalar.min st.right.refPt.x pos.x
      { st with right := { st.right with refPt := ⟨rx, st.right.refPt.y⟩, consRefX := Scalar.min st.right.consRefX rx } }

def vertex' (st : Adv α) (p : P α) (id : Nat) (l : Bool) : Adv α :=
  let st := updRef st p l
  let dx := st.right.consRefX - st.left.consRefX
  let r := stepSides st.tess (if l then st.left else st.right) (if l then st.right else st.left) dx p id l
  if l then ⟨r.1, r.2.1, r.2.2⟩ else ⟨r.1, r.2.2, r.2.1⟩

theorem vertex_eq (st : Adv α) (p : P α) (id : Nat) (l : Bool) : st.vertex p id l = vertex' st p id l := by
  cases l <;> rfl

def endCore (tess : Basic α) (fa fb : List Tri × Option (MV α)) (pos : P α) (id : Nat) : Basic α :=
  let tess := (tess.pushTris (if fa.2.isSome then fa.1 else [])).pushTris (if fb.2.isSome then fb.1 else [])
  let tess := match fa.2, fb.2 with
    | some v, none => tess.vertex v
    | none, some v => tess.vertex v
    | some v1, some v2 =>
      if isAfter v1.pos v2.pos then (tess.vertex v2).vertex v1 else (tess.vertex v1).vertex v2
    | none, none => tess
  tess.end_ pos id

theorem end_eq (st : Adv α) (pos : P α) (id : Nat) :
    st.end_ pos id = endCore st.tess (flushSide st.left false).2 (flushSide st.right true).2 pos id := rfl

/-- the two outcomes of `flush_side` -/
theorem flushSide_cases (s : SideEv α) (r : Bool) :
    (s.events.length < 2 ∧ flushSide s r = (s, [], none)) ∨
    (2 ≤ s.events.length ∧ (flushSide s r).1.events = [s.last.id] ∧ (flushSide s r).1.last = s.last ∧
      (flushSide s r).2.1 = flushLevels s.events.toArray s.events.length r (s.events.length + 1) 1 ∧
      (flushSide s r).2.2 = some s.last) := by
  unfold flushSide
  by_cases h : s.events.length < 2
  · left; simp [h]
  · right; simp [h]; omega

/-! ## the invariant of the two-level scheme

`k` vertices have been fed, with ids `0 … k−1`.  Every id is in exactly one place: in the inner
stack-tessellator (possibly already consumed by it), or pending in the tail of one side's buffered
chain.  The HEAD of a chain is the vertex the chain hangs from (already forwarded).  The count:
`triangles + inner stack + pending = k`. -/
structure InvL (tess : Basic α) (ea : List Nat) (la : Nat) (eb : List Nat) (lb : Nat) (k off : Nat) : Prop where
  top : ∃ rest, tess.stack = tess.previous :: rest
  snd : (tess.stack.map (·.id)).Nodup
  tri : ∀ t ∈ tess.tris, TriDistinct t
  nda : ea.Nodup
  ndb : eb.Nodup
  lasta : ea.getLast? = some la
  lastb : eb.getLast? = some lb
  taila : ∀ x ∈ ea.tail, x ∉ eb ∧ x ∉ tess.stack.map (·.id)
  tailb : ∀ x ∈ eb.tail, x ∉ ea ∧ x ∉ tess.stack.map (·.id)
  lta : ∀ x ∈ ea, x < k
  ltb : ∀ x ∈ eb, x < k
  lts : ∀ v ∈ tess.stack, v.id < k
  cnt : tess.tris.length + tess.stack.length + (ea.length - 1) + (eb.length - 1) = k + off

theorem InvL.symm {tess : Basic α} {ea eb : List Nat} {la lb k off : Nat} (h : InvL tess ea la eb lb k off) :
    InvL tess eb lb ea la k off :=
  { top := h.top, snd := h.snd, tri := h.tri, nda := h.ndb, ndb := h.nda, lasta := h.lastb, lastb := h.lasta,
    taila := h.tailb, tailb := h.taila, lta := h.ltb, ltb := h.lta, lts := h.lts,
    cnt := by have := h.cnt; omega }

theorem getLast_mem_tail (l : List Nat) (x : Nat) (h : l.getLast? = some x) (hl : 2 ≤ l.length) : x ∈ l.tail := by
  match l, hl with
  | a :: b :: r, _ =>
    simp only [List.tail_cons]
    rw [List.getLast?_cons_cons] at h
    exact List.mem_of_getLast? h

/-- flushing side `a` (≥ 2 buffered ids): its `len − 2` chain triangles go out, its last vertex is
forwarded to the inner tessellator, the chain restarts from that vertex. -/
theorem InvL.flushFwd {tess : Basic α} {ea eb : List Nat} {la lb k off : Nat} (h : InvL tess ea la eb lb k off)
    (hl : 2 ≤ ea.length) (tr : List Tri) (d : Nat) (htr : tr.length + d = ea.length - 2) (hdo : d ≤ off)
    (hd : ∀ t ∈ tr, TriDistinct t) (mv : MV α) (hmv : mv.id = la) :
    InvL ((tess.pushTris tr).vertex mv) [la] la eb lb k (off - d) := by
  have hmem : la ∈ ea.tail := getLast_mem_tail ea la h.lasta hl
  have hla : la ∈ ea := List.mem_of_mem_tail hmem
  have hf := h.taila la hmem
  have vf := vertex_fresh (tess.pushTris tr) mv h.top h.snd
    (by intro t ht
        rcases List.mem_append.mp ht with g | g
        · exact h.tri t g
        · exact hd t g)
    (by rw [hmv]; exact hf.2)
  obtain ⟨v1, v2, v3, v4, v5⟩ := vf
  have hsub : ∀ x ∈ ((tess.pushTris tr).vertex mv).stack.map (·.id), x = la ∨ x ∈ tess.stack.map (·.id) := by
    intro x hx
    obtain ⟨v, hv, rfl⟩ := List.mem_map.mp hx
    rcases v4 v hv with g | g
    · exact Or.inl (g.trans hmv)
    · exact Or.inr g
  refine { top := v1, snd := v2, tri := v3, nda := by simp, ndb := h.ndb, lasta := rfl, lastb := h.lastb,
           taila := by simp, tailb := ?_, lta := ?_, ltb := h.ltb, lts := ?_, cnt := ?_ }
  · intro x hx
    have g := h.tailb x hx
    have hne : x ≠ la := fun e => g.1 (e ▸ hla)
    refine ⟨by simpa using hne, ?_⟩
    intro hx'
    rcases hsub x hx' with e | e
    · exact hne e
    · exact g.2 e
  · intro x hx
    simp only [List.mem_singleton] at hx
    exact hx ▸ h.lta la hla
  · intro v hv
    rcases hsub v.id (List.mem_map.mpr ⟨v, hv, rfl⟩) with e | e
    · rw [e]; exact h.lta la hla
    · obtain ⟨w, hw, hwid⟩ := List.mem_map.mp e
      rw [← hwid]; exact h.lts w hw
  · have := h.cnt
    have e1 : (tess.pushTris tr).tris.length = tess.tris.length + tr.length := by
      simp [Basic.pushTris]
    have e2 : (tess.pushTris tr).stack = tess.stack := rfl
    rw [e1, e2] at v5
    simp only [List.length_cons, List.length_nil]
    omega

/-- buffering the next vertex (id `k`) on side `a` -/
theorem InvL.push {tess : Basic α} {ea eb : List Nat} {la lb k : Nat} (h : InvL tess ea la eb lb k 0) :
    InvL tess (ea ++ [k]) k eb lb (k + 1) 0 := by
  have hne : ea ≠ [] := by intro e; have := h.lasta; simp [e] at this
  have hlen : 1 ≤ ea.length := by
    cases ea with
    | nil => exact absurd rfl hne
    | cons a r => simp
  have hka : k ∉ ea := fun g => Nat.lt_irrefl _ (h.lta k g)
  have hkb : k ∉ eb := fun g => Nat.lt_irrefl _ (h.ltb k g)
  have hks : k ∉ tess.stack.map (·.id) := by
    intro g
    obtain ⟨w, hw, hwid⟩ := List.mem_map.mp g
    have := h.lts w hw
    omega
  refine { top := h.top, snd := h.snd, tri := h.tri, nda := ?_, ndb := h.ndb, lasta := by simp, lastb := h.lastb,
           taila := ?_, tailb := ?_, lta := ?_, ltb := ?_, lts := ?_, cnt := ?_ }
  · rw [List.nodup_append]
    refine ⟨h.nda, by simp, ?_⟩
    intro a ha b hb
    simp only [List.mem_singleton] at hb
    subst hb
    intro e; exact hka (e ▸ ha)
  · intro x hx
    rw [List.tail_append_of_ne_nil hne, List.mem_append, List.mem_singleton] at hx
    rcases hx with g | g
    · exact h.taila x g
    · subst g; exact ⟨hkb, hks⟩
  · intro x hx
    have g := h.tailb x hx
    refine ⟨?_, g.2⟩
    rw [List.mem_append, List.mem_singleton]
    rintro (e | e)
    · exact g.1 e
    · have := h.ltb x (List.mem_of_mem_tail hx); omega
  · intro x hx
    rw [List.mem_append, List.mem_singleton] at hx
    rcases hx with g | g
    · have := h.lta x g; omega
    · omega
  · intro x hx; have := h.ltb x hx; omega
  · intro v hv; have := h.lts v hv; omega
  · have := h.cnt
    simp only [List.length_append, List.length_cons, List.length_nil]
    omega

/-- the invariant on a triple (inner tessellator, one side, the other side) -/
def Inv3 (x : Trip α) (k : Nat) : Prop := InvL x.1 x.2.1.events x.2.1.last.id x.2.2.events x.2.2.last.id k 0

theorem flushSide_tris_distinct (s : SideEv α) (r : Bool) (hnd : s.events.Nodup) :
    ∀ t ∈ flushLevels s.events.toArray s.events.length r (s.events.length + 1) 1, TriDistinct t :=
  fun t ht => chainTri_distinct s.events r hnd t (flushLevels_ids _ _ r t ht)

theorem flushOwn_inv (tess : Basic α) (a b : SideEv α) (l : Bool) (k : Nat) (h : Inv3 (tess, a, b) k) :
    Inv3 (flushOwn tess a b l) k := by
  unfold flushOwn
  rcases flushSide_cases a (!l) with ⟨_, e⟩ | ⟨hl, e1, e2, e3, e4⟩
  · rw [e]; exact h
  · rw [e4]
    simp only [Inv3, e1, e2, e3]
    exact InvL.flushFwd h hl _ 0 (flushLevels_count _ _ _) (Nat.le_refl 0) (flushSide_tris_distinct a _ h.nda) a.last rfl

theorem flushOpp_inv (tess : Basic α) (a b : SideEv α) (l : Bool) (k : Nat) (h : Inv3 (tess, a, b) k) :
    Inv3 (flushOpp tess a b l) k := by
  unfold flushOpp
  rcases flushSide_cases b l with ⟨_, e⟩ | ⟨hl, e1, e2, e3, e4⟩
  · rw [e]; exact h
  · rw [e4]
    simp only [Inv3, e1, e2, e3]
    exact (InvL.flushFwd (InvL.symm h) hl _ 0 (flushLevels_count _ _ _) (Nat.le_refl 0) (flushSide_tris_distinct b _ h.ndb) b.last rfl).symm

theorem stepSides_inv (tess : Basic α) (a b : SideEv α) (dx : α) (p : P α) (l : Bool) (k : Nat)
    (h : Inv3 (tess, a, b) k) : Inv3 (stepSides tess a b dx p k l) (k + 1) := by
  dsimp only [stepSides]
  have h1 : Inv3 (if isAfter a.last.pos b.last.pos then flushOpp tess a b l else (tess, a, b)) k := by
    split
    · exact flushOpp_inv tess a b l k h
    · exact h
  generalize (if isAfter a.last.pos b.last.pos then flushOpp tess a b l else (tess, a, b)) = r1 at h1 ⊢
  have h2 : Inv3 (if (outwardTurn a p l (decide (dx < (p.y - a.refPt.y) * Scalar.ofSci 1 1)) ||
      decide (dx < (p.y - a.refPt.y) * Scalar.ofSci 1 1)) = true then flushOwn r1.1 r1.2.1 r1.2.2 l else (tess, a, b)) k := by
    split
    · exact flushOwn_inv _ _ _ l k h1
    · exact h
  generalize (if (outwardTurn a p l (decide (dx < (p.y - a.refPt.y) * Scalar.ofSci 1 1)) ||
      decide (dx < (p.y - a.refPt.y) * Scalar.ofSci 1 1)) = true then flushOwn r1.1 r1.2.1 r1.2.2 l else (tess, a, b)) = r at h2 ⊢
  exact InvL.push h2

/-- the invariant on a whole `Adv` state -/
def AInv (st : Adv α) (k : Nat) : Prop := Inv3 (st.tess, st.left, st.right) k

theorem begin_inv (old : Adv α) (p : P α) : AInv (Adv.begin old p 0) 1 := by
  refine { top := ⟨[], rfl⟩, snd := by simp [Adv.begin, Basic.begin], tri := by simp [Adv.begin, Basic.begin],
           nda := by simp [Adv.begin], ndb := by simp [Adv.begin], lasta := rfl, lastb := rfl,
           taila := by simp [Adv.begin], tailb := by simp [Adv.begin], lta := by simp [Adv.begin],
           ltb := by simp [Adv.begin], lts := by simp [Adv.begin, Basic.begin], cnt := by simp [Adv.begin, Basic.begin] }

theorem vertex_inv (st : Adv α) (p : P α) (l : Bool) (k : Nat) (h : AInv st k) :
    AInv (st.vertex p k l) (k + 1) := by
  rw [vertex_eq]
  cases l
  · have hu : Inv3 ((updRef st p false).tess, (updRef st p false).right, (updRef st p false).left) k :=
      InvL.symm h
    have := stepSides_inv _ _ _ ((updRef st p false).right.consRefX - (updRef st p false).left.consRefX) p false k hu
    exact InvL.symm this
  · have hu : Inv3 ((updRef st p true).tess, (updRef st p true).left, (updRef st p true).right) k := h
    exact stepSides_inv _ _ _ ((updRef st p true).right.consRefX - (updRef st p true).left.consRefX) p true k hu


@[simp] theorem pushTris_nil (s : Basic α) : s.pushTris [] = s := by
  cases s; simp [Basic.pushTris]

/-- triangles pushed ahead of the vertex they belong to (as `end` does) -/
theorem InvL.pushTris {tess : Basic α} {ea eb : List Nat} {la lb k off : Nat} (h : InvL tess ea la eb lb k off)
    (tr : List Tri) (hd : ∀ t ∈ tr, TriDistinct t) : InvL (tess.pushTris tr) ea la eb lb k (off + tr.length) :=
  { top := h.top, snd := h.snd, nda := h.nda, ndb := h.ndb, lasta := h.lasta, lastb := h.lastb,
    taila := h.taila, tailb := h.tailb, lta := h.lta, ltb := h.ltb, lts := h.lts,
    tri := by
      intro t ht
      rcases List.mem_append.mp ht with g | g
      · exact h.tri t g
      · exact hd t g
    cnt := by
      have := h.cnt
      have e1 : (tess.pushTris tr).tris.length = tess.tris.length + tr.length := by simp [Basic.pushTris]
      have e2 : (tess.pushTris tr).stack = tess.stack := rfl
      rw [e1, e2]; omega }

/-- with nothing pending on either side, `end` of the inner tessellator closes the piece -/
theorem InvL.finish {tess : Basic α} {ea eb : List Nat} {la lb k : Nat} (h : InvL tess ea la eb lb k 0)
    (ha : ea.length < 2) (hb : eb.length < 2) (pos : P α) :
    (tess.end_ pos k).tris.length = k - 1 ∧ ∀ t ∈ (tess.end_ pos k).tris, TriDistinct t := by
  obtain ⟨rest, hst⟩ := h.top
  constructor
  · apply end_count
    refine ⟨by simp [hst], ?_⟩
    have := h.cnt; omega
  · have hfresh : k ∉ tess.stack.map (·.id) := by
      intro g
      obtain ⟨w, hw, hwid⟩ := List.mem_map.mp g
      have := h.lts w hw
      omega
    exact (vertex_fresh tess ⟨pos, k, !tess.previous.left⟩ h.top h.snd h.tri hfresh).2.2.1

theorem end_inv (st : Adv α) (pos : P α) (k : Nat) (h : AInv st k) :
    (st.end_ pos k).tris.length = k - 1 ∧ ∀ t ∈ (st.end_ pos k).tris, TriDistinct t := by
  rw [end_eq]
  unfold endCore
  have h0 : InvL st.tess st.left.events st.left.last.id st.right.events st.right.last.id k 0 := h
  rcases flushSide_cases st.left false with ⟨ha, ea⟩ | ⟨ha, _, _, a3, a4⟩ <;>
  rcases flushSide_cases st.right true with ⟨hb, eb⟩ | ⟨hb, _, _, b3, b4⟩
  · simp only [ea, eb, Option.isSome_none, Bool.false_eq_true, if_false, pushTris_nil]
    exact h0.finish ha hb pos
  · simp only [ea, b3, b4, Option.isSome_none, Option.isSome_some, Bool.false_eq_true, if_false, if_true, pushTris_nil]
    have := h0.symm.flushFwd hb _ 0 (flushLevels_count _ _ true) (Nat.le_refl 0)
      (flushSide_tris_distinct st.right _ h0.ndb) st.right.last rfl
    exact this.symm.finish ha (by simp) pos
  · simp only [eb, a3, a4, Option.isSome_none, Option.isSome_some, Bool.false_eq_true, if_false, if_true, pushTris_nil]
    have := h0.flushFwd ha _ 0 (flushLevels_count _ _ false) (Nat.le_refl 0)
      (flushSide_tris_distinct st.left _ h0.nda) st.left.last rfl
    exact this.finish (by simp) hb pos
  · simp only [a3, a4, b3, b4, Option.isSome_some, if_true]
    have h1 := (h0.pushTris _ (flushSide_tris_distinct st.left false h0.nda)).pushTris _
      (flushSide_tris_distinct st.right true h0.ndb)
    rw [flushLevels_count, flushLevels_count] at h1
    split
    · have h2 := h1.symm.flushFwd hb [] (st.right.events.length - 2) (by simp) (by omega) (by simp) st.right.last rfl
      rw [pushTris_nil] at h2
      have h3 := h2.symm.flushFwd ha [] (st.left.events.length - 2) (by simp) (by omega) (by simp) st.left.last rfl
      rw [pushTris_nil] at h3
      rw [show 0 + (st.left.events.length - 2) + (st.right.events.length - 2) - (st.right.events.length - 2)
        - (st.left.events.length - 2) = 0 by omega] at h3
      exact h3.finish (by simp) (by simp) pos
    · have h2 := h1.flushFwd ha [] (st.left.events.length - 2) (by simp) (by omega) (by simp) st.left.last rfl
      rw [pushTris_nil] at h2
      have h3 := h2.symm.flushFwd hb [] (st.right.events.length - 2) (by simp) (by omega) (by simp) st.right.last rfl
      rw [pushTris_nil] at h3
      rw [show 0 + (st.left.events.length - 2) + (st.right.events.length - 2) - (st.left.events.length - 2)
        - (st.right.events.length - 2) = 0 by omega] at h3
      exact h3.finish (by simp) (by simp) pos


/-- ids `k, k+1, …` are assigned in feeding order -/
def afeed (s : Adv α) : Nat → List (P α × Bool) → Adv α
  | _, [] => s
  | k, (p, l) :: r => afeed (s.vertex p k l) (k + 1) r

theorem foldl_zipIdx_eq_afeed (vs : List (P α × Bool)) (s : Adv α) (k : Nat) :
    (vs.zipIdx k).foldl (fun s (pi : (P α × Bool) × Nat) => s.vertex pi.1.1 (pi.2 + 1) pi.1.2) s
      = afeed s (k + 1) vs := by
  induction vs generalizing s k with
  | nil => rfl
  | cons v r ih =>
    obtain ⟨p, l⟩ := v
    simp only [List.zipIdx_cons, List.foldl_cons, afeed]
    exact ih _ (k + 1)

theorem afeed_inv (vs : List (P α × Bool)) (s : Adv α) (k : Nat) (h : AInv s k) :
    AInv (afeed s k vs) (k + vs.length) := by
  induction vs generalizing s k with
  | nil => simpa [afeed] using h
  | cons v r ih =>
    obtain ⟨p, l⟩ := v
    have := ih (s.vertex p k l) (k + 1) (vertex_inv s p l k h)
    simp only [afeed, List.length_cons]
    rwa [show k + (r.length + 1) = k + 1 + r.length by omega]

theorem run_spec (seq : List (P α × Bool)) :
    (2 ≤ seq.length → (Adv.run seq).length = seq.length - 2) ∧ ∀ t ∈ Adv.run seq, TriDistinct t := by
  match seq with
  | [] => simp [Adv.run]
  | [_] => simp [Adv.run]
  | (p0, b0) :: v1 :: rest =>
    simp only [Adv.run, foldl_zipIdx_eq_afeed]
    have h := afeed_inv (List.take ((v1 :: rest).length - 1) (v1 :: rest)) (Adv.begin Adv.new p0 0) (0 + 1)
      (begin_inv Adv.new p0)
    have hlen : 0 + 1 + (List.take ((v1 :: rest).length - 1) (v1 :: rest)).length = (v1 :: rest).length := by
      simp only [List.length_take, List.length_cons]; omega
    rw [hlen] at h
    have e := end_inv _ (((v1 :: rest).getLast?.map (·.1)).getD p0) _ h
    refine ⟨fun _ => ?_, e.2⟩
    rw [e.1]
    simp only [List.length_cons]
    omega

/-! ## orientation of the basic tessellator's triangles (ordered field) -/

section Geometry
variable {K : Type} [Field K] [LinearOrder K] [IsStrictOrderedRing K]

/-- the quantity of lyon's own (commented-out) assertion in `push_triangle(a, b, c)`:
`(a − b) × (c − b)`, twice the signed area of `(a, b, c)` in the emitted order (positive =
counter-clockwise on a y-down screen). -/
noncomputable def wind (a b c : P K) : K := (a - b).cross (c - b)

theorem wind_swap (a b c : P K) : wind b a c = -wind a b c := by
  simp only [wind]; geom_ring

/-- the vertex record carries the position registered for its id -/
def Good (pos : Nat → P K) (v : MV K) : Prop := v.pos = pos v.id

/-- triangle `t` (ids) is non-negatively oriented in its emitted order -/
def TriWind (pos : Nat → P K) (t : Tri) : Prop := 0 ≤ wind (pos t.1) (pos t.2.1) (pos t.2.2)

theorem fanTri_cases (cur a b : MV K) :
    (fanTri cur a b = (a.id, b.id, cur.id) ∧ 0 ≤ wind a.pos b.pos cur.pos) ∨
    (fanTri cur a b = (b.id, a.id, cur.id) ∧ 0 < wind b.pos a.pos cur.pos) := by
  unfold fanTri
  by_cases h : Scalar.zero ≤ (a.pos - b.pos).cross (cur.pos - b.pos)
  · left
    rw [if_pos h]
    exact ⟨rfl, by simpa [wind, geom] using h⟩
  · right
    rw [if_neg h]
    refine ⟨rfl, ?_⟩
    rw [wind_swap]
    have : ¬ (0 ≤ wind a.pos b.pos cur.pos) := by simpa [wind, geom] using h
    linarith [not_le.mp this]

theorem earTri_cases (cur lp top : MV K) (h : earConvex cur lp top = true) :
    (cur.left = true ∧ earTri cur lp top = (top.id, lp.id, cur.id) ∧ 0 ≤ wind top.pos lp.pos cur.pos) ∨
    (cur.left = false ∧ earTri cur lp top = (lp.id, top.id, cur.id) ∧ 0 ≤ wind lp.pos top.pos cur.pos) := by
  unfold earConvex at h
  unfold earTri
  cases hl : cur.left
  · right
    simp only [hl, Bool.false_eq_true, if_false, decide_eq_true_eq, true_and] at h ⊢
    have e : wind lp.pos top.pos cur.pos = (cur.pos - lp.pos).cross (top.pos - lp.pos) := by
      simp only [wind]; geom_ring
    rw [e]; simpa [geom] using h
  · left
    simp only [hl, if_true, decide_eq_true_eq, true_and] at h ⊢
    have e : wind top.pos lp.pos cur.pos = (cur.pos - top.pos).cross (lp.pos - top.pos) := by
      simp only [wind]; geom_ring
    rw [e]; simpa [geom] using h


theorem fanTri_wind (pos : Nat → P K) (cur a b : MV K) (hc : Good pos cur) (ha : Good pos a) (hb : Good pos b) :
    TriWind pos (fanTri cur a b) := by
  unfold Good at hc ha hb
  rcases fanTri_cases cur a b with ⟨e, h⟩ | ⟨e, h⟩
  · rw [e]; simp only [TriWind]; rw [← hc, ← ha, ← hb]; exact h
  · rw [e]; simp only [TriWind]; rw [← hc, ← ha, ← hb]; exact le_of_lt h

theorem fanTris_wind (pos : Nat → P K) (cur : MV K) (l : List (MV K)) (hc : Good pos cur)
    (hl : ∀ v ∈ l, Good pos v) : ∀ t ∈ fanTris cur l, TriWind pos t := by
  induction l with
  | nil => intro t ht; simp [fanTris] at ht
  | cons a r ih =>
    cases r with
    | nil => intro t ht; simp [fanTris] at ht
    | cons b r' =>
      intro t ht
      simp only [fanTris, List.mem_cons] at ht
      rcases ht with ht | ht
      · subst ht
        exact fanTri_wind pos cur a b hc (hl a (by simp)) (hl b (by simp))
      · exact ih (fun v hv => hl v (List.mem_cons_of_mem _ hv)) t ht

theorem earTri_wind (pos : Nat → P K) (cur lp top : MV K) (hc : Good pos cur) (hlp : Good pos lp)
    (ht : Good pos top) (h : earConvex cur lp top = true) : TriWind pos (earTri cur lp top) := by
  unfold Good at hc hlp ht
  rcases earTri_cases cur lp top h with ⟨_, e, g⟩ | ⟨_, e, g⟩
  · rw [e]; simp only [TriWind]; rw [← hc, ← hlp, ← ht]; exact g
  · rw [e]; simp only [TriWind]; rw [← hc, ← hlp, ← ht]; exact g

theorem popLoop_wind (pos : Nat → P K) (cur lp : MV K) (st : List (MV K)) (hc : Good pos cur)
    (hlp : Good pos lp) (hst : ∀ v ∈ st, Good pos v) :
    (∀ v ∈ (popLoop cur lp st).1, Good pos v) ∧ ∀ t ∈ (popLoop cur lp st).2, TriWind pos t := by
  induction st generalizing lp with
  | nil => simp [popLoop, hlp]
  | cons top rest ih =>
    have htop := hst top (by simp)
    have hrest : ∀ v ∈ rest, Good pos v := fun v hv => hst v (List.mem_cons_of_mem _ hv)
    simp only [popLoop]
    split
    · rename_i hconv
      have := ih top htop hrest
      refine ⟨this.1, ?_⟩
      intro t ht
      simp only [List.mem_cons] at ht
      rcases ht with ht | ht
      · subst ht; exact earTri_wind pos cur lp top hc hlp htop hconv
      · exact this.2 t ht
    · refine ⟨?_, by simp⟩
      intro v hv
      simp only [List.mem_cons] at hv
      rcases hv with hv | hv | hv
      · subst hv; exact hlp
      · subst hv; exact htop
      · exact hrest v hv

/-- positions consistent with ids, all triangles so far non-negatively oriented -/
def GInv (pos : Nat → P K) (s : Basic K) : Prop :=
  (∀ v ∈ s.stack, Good pos v) ∧ Good pos s.previous ∧ ∀ t ∈ s.tris, TriWind pos t

theorem vertex_gInv (pos : Nat → P K) (s : Basic K) (cur : MV K) (h : GInv pos s) (hc : Good pos cur) :
    GInv pos (s.vertex cur) := by
  obtain ⟨hs, hp, ht⟩ := h
  unfold Basic.vertex
  split
  · refine ⟨?_, hc, ?_⟩
    · intro v hv
      simp only [List.mem_cons, List.not_mem_nil, or_false] at hv
      rcases hv with hv | hv <;> subst hv <;> assumption
    · intro t h
      rcases List.mem_append.mp h with g | g
      · exact ht t g
      · exact fanTris_wind pos cur _ hc (fun v hv => hs v (List.mem_reverse.mp hv)) t g
  · cases hst : s.stack with
    | nil =>
      refine ⟨?_, hc, ht⟩
      intro v hv
      simp only [List.mem_cons, List.not_mem_nil, or_false] at hv
      subst hv; exact hc
    | cons top rest =>
      rw [hst] at hs
      have sp := popLoop_wind pos cur top rest hc (hs top (by simp)) (fun v hv => hs v (List.mem_cons_of_mem _ hv))
      refine ⟨?_, hc, ?_⟩
      · intro v hv
        simp only [List.mem_cons] at hv
        rcases hv with hv | hv
        · subst hv; exact hc
        · exact sp.1 v hv
      · intro t h
        rcases List.mem_append.mp h with g | g
        · exact ht t g
        · exact sp.2 t g

theorem feed_gInv (pos : Nat → P K) (vs : List (P K × Bool)) (s : Basic K) (k : Nat)
    (hpos : ∀ i (h : i < vs.length), pos (k + i) = vs[i].1) (h : GInv pos s) : GInv pos (feed s k vs) := by
  induction vs generalizing s k with
  | nil => simpa [feed] using h
  | cons v r ih =>
    obtain ⟨p, l⟩ := v
    simp only [feed]
    apply ih
    · intro i hi
      have := hpos (i + 1) (by simp only [List.length_cons]; omega)
      simp only [List.getElem_cons_succ] at this
      rw [← this]; congr 1; omega
    · apply vertex_gInv pos s _ h
      have := hpos 0 (by simp)
      simpa [Good] using this.symm

/-- position of vertex `i` of a fed sequence -/
def posOf (seq : List (P K × Bool)) (i : Nat) : P K :=
  match seq[i]? with
  | some v => v.1
  | none => ⟨0, 0⟩

theorem run_gInv (seq : List (P K × Bool)) : ∀ t ∈ Basic.run seq, TriWind (posOf seq) t := by
  match seq with
  | [] => intro t ht; simp [Basic.run] at ht
  | [_] => intro t ht; simp [Basic.run] at ht
  | (p0, b0) :: v1 :: rest =>
    simp only [Basic.run, foldl_zipIdx_eq_feed]
    intro t ht
    have h0 : GInv (posOf ((p0, b0) :: v1 :: rest)) (Basic.begin p0 0) := by
      simp [GInv, Basic.begin, Good, posOf]
    have h := feed_gInv (posOf ((p0, b0) :: v1 :: rest)) (List.take ((v1 :: rest).length - 1) (v1 :: rest))
      (Basic.begin p0 0) (0 + 1) (by
        intro i hi
        simp only [List.length_take, List.length_cons] at hi
        simp only [posOf, List.getElem_take]
        rw [show 0 + 1 + i = i + 1 by omega, List.getElem?_cons_succ,
          List.getElem?_eq_getElem (by simp only [List.length_cons]; omega)]) h0
    simp only [Basic.end_] at ht
    refine (vertex_gInv _ _ _ h ?_).2.2 t ht
    simp only [Good, posOf, List.length_cons, List.getElem?_cons_succ]
    rw [List.getLast?_eq_getElem?]
    simp only [List.length_cons, Nat.add_sub_cancel]
    rw [List.getElem?_eq_getElem (by simp only [List.length_cons]; omega)]
    rfl

end Geometry

end Lyon.C02b
