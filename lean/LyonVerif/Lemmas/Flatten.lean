/-
  Helper definitions and lemmas for the flattening theorems of Props/C09.lean (polyline
  predicates, loop invariants of the quadratic / cubic / arc flattening loops).
  About the model of Model/Geom/Flatten.lean; reusable by other properties.
-/
import LyonVerif.Model.Geom.Flatten
import LyonVerif.Lemmas.Field

set_option linter.unusedSectionVars false
set_option linter.unusedVariables false

geom_all Lyon.Seg
geom_all Lyon.Quad
geom_all Lyon.Cubic
geom_all Lyon.Arc

namespace Lyon.Flat
open Lyon Scalar

/-! ## Polyline predicates -/

section defs
variable {α : Type}

/-- the segments form a chain starting at point `p` and parameter `t`: every `from` is the
previous `to` (the first one is `p`), every range starts where the previous one ended
(the first one at `t`). -/
def Chain (p : P α) (t : α) : List (FlatSeg α) → Prop
  | [] => True
  | s :: r => s.a = p ∧ s.t0 = t ∧ Chain s.b s.t1 r

/-- end point of the last segment (`p` for the empty list) -/
def lastPt (p : P α) : List (FlatSeg α) → P α
  | [] => p
  | s :: r => lastPt s.b r

/-- end parameter of the last segment (`t` for the empty list) -/
def lastT (t : α) : List (FlatSeg α) → α
  | [] => t
  | s :: r => lastT s.t1 r

/-- every segment but the last ends at `f` of its end parameter -/
def InteriorOn (f : α → P α) : List (FlatSeg α) → Prop
  | [] => True
  | [_] => True
  | s :: r => s.b = f s.t1 ∧ InteriorOn f r

theorem chain_append {p : P α} {t : α} {l r : List (FlatSeg α)} (hl : Chain p t l)
    (hr : Chain (lastPt p l) (lastT t l) r) : Chain p t (l ++ r) := by
  induction l generalizing p t with
  | nil => simpa [lastPt, lastT] using hr
  | cons s l ih => exact ⟨hl.1, hl.2.1, ih hl.2.2 hr⟩

theorem lastPt_append (p : P α) (l r : List (FlatSeg α)) : lastPt p (l ++ r) = lastPt (lastPt p l) r := by
  induction l generalizing p with
  | nil => rfl
  | cons s l ih => exact ih s.b

theorem lastT_append (t : α) (l r : List (FlatSeg α)) : lastT t (l ++ r) = lastT (lastT t l) r := by
  induction l generalizing t with
  | nil => rfl
  | cons s l ih => exact ih s.t1
end defs
section quad_any
variable {α : Type} [Scalar α] [Transc α] [FlatConst α]

/-- the loop of `for_each_flattened_with_t`, any number of iterations, any state -/
theorem quad_loop_structure (q : Quad α) (p : FlatParams α) (n : Nat) (i : α) (frm : P α) (tFrom : α) :
    Chain frm tFrom (q.flatLoop p n i frm tFrom)
    ∧ lastPt frm (q.flatLoop p n i frm tFrom) = q.b
    ∧ lastT tFrom (q.flatLoop p n i frm tFrom) = one
    ∧ InteriorOn q.sample (q.flatLoop p n i frm tFrom)
    ∧ (q.flatLoop p n i frm tFrom).length = n + 1 := by
  induction n generalizing i frm tFrom with
  | zero => simp [Quad.flatLoop, Chain, lastPt, lastT, InteriorOn]
  | succ n ih =>
    obtain ⟨h1, h2, h3, h4, h5⟩ := ih (i + one) (q.sample (p.tAt i)) (p.tAt i)
    refine ⟨⟨rfl, rfl, h1⟩, h2, h3, ?_, by simp [Quad.flatLoop, h5]⟩
    cases hl : q.flatLoop p n (i + one) (q.sample (p.tAt i)) (p.tAt i) with
    | nil => simp [hl] at h5
    | cons s r =>
      simp only [Quad.flatLoop, hl]
      exact ⟨rfl, by simpa [hl] using h4⟩

/-- everything `quad_loop_structure` gives, for the public entry point -/
theorem quad_flat_structure (q : Quad α) (tol : α) (l : List (FlatSeg α))
    (h : q.forEachFlattenedWithT tol = some l) :
    l ≠ [] ∧ Chain q.a zero l ∧ lastPt q.a l = q.b ∧ lastT zero l = one ∧ InteriorOn q.sample l := by
  simp only [Quad.forEachFlattenedWithT, Option.map_eq_some_iff] at h
  obtain ⟨c, _, rfl⟩ := h
  obtain ⟨h1, h2, h3, h4, h5⟩ := quad_loop_structure q (FlatParams.new q tol) (c - 1) one q.a zero
  refine ⟨?_, h1, h2, h3, h4⟩
  intro hn
  rw [Quad.flatWith] at hn
  rw [hn] at h5
  simp at h5

end quad_any

section arc_any
variable {α : Type} [Scalar α] [Transc α] [FlatConst α]

theorem arc_loop_structure (a : Arc α) (tol : α) (f : Nat) (iter : Arc α) (t0 : α) (frm : P α) :
    Chain frm t0 (a.flatLoop tol f iter t0 frm)
    ∧ lastPt frm (a.flatLoop tol f iter t0 frm) = a.toPt
    ∧ lastT t0 (a.flatLoop tol f iter t0 frm) = one
    ∧ a.flatLoop tol f iter t0 frm ≠ [] := by
  induction f generalizing iter t0 frm with
  | zero => simp [Arc.flatLoop, Chain, lastPt, lastT]
  | succ f ih =>
    unfold Arc.flatLoop
    by_cases hs : one ≤ iter.flatteningStep tol
    · simp [hs, Chain, lastPt, lastT]
    · simp only [hs, if_false]
      obtain ⟨h1, h2, h3, _⟩ := ih (iter.afterSplit (iter.flatteningStep tol))
        (t0 + iter.flatteningStep tol * (one - t0)) (iter.afterSplit (iter.flatteningStep tol)).fromPt
      exact ⟨⟨rfl, rfl, h1⟩, h2, h3, by simp⟩

end arc_any

variable {K : Type} [Field K] [LinearOrder K] [IsStrictOrderedRing K]

theorem quad_sample_zero (q : Quad K) : q.sample 0 = q.a := by
  cases q with | mk a c b => cases a; cases c; cases b; geom_ring
theorem quad_sample_one (q : Quad K) : q.sample 1 = q.b := by
  cases q with | mk a c b => cases a; cases c; cases b; geom_ring
theorem cubic_sample_zero (c : Cubic K) : c.sample 0 = c.a := by
  cases c with | mk a c1 c2 b => cases a; cases c1; cases c2; cases b; geom_ring
theorem cubic_sample_one (c : Cubic K) : c.sample 1 = c.b := by
  cases c with | mk a c1 c2 b => cases a; cases c1; cases c2; cases b; geom_ring

theorem chord_factor (s : K) : s * (1 - s) ≤ 1 / 4 := by
  nlinarith [sq_nonneg (s - 1 / 2)]

section cubic
variable [Transc K] [FlatConst K]

theorem one_beq_one : ((one : K) == one) = true := (sc_beq _ _).mpr rfl

/-- each quadratic of `for_each_quadratic_bezier_with_t` goes from `sample t0` to `sample t1`;
consecutive ones share parameter and point; the last one ends at parameter 1 -/
def QuadChain (c : Cubic K) : K → List (Quad K × K × K) → Prop
  | _, [] => True
  | t, (q, t0, t1) :: r => t0 = t ∧ q.a = c.sample t0 ∧ q.b = c.sample t1 ∧ QuadChain c t1 r

def lastR1 : K → List (Quad K × K × K) → K
  | t, [] => t
  | _, (_, _, t1) :: r => lastR1 t1 r

theorem cubic_quads_structure (c : Cubic K) (step : K) (n : Nat) (t0 : K) :
    QuadChain c t0 (c.quadsLoop step n t0) ∧ lastR1 t0 (c.quadsLoop step n t0) = one
    ∧ (c.quadsLoop step n t0).length = n + 1 := by
  induction n generalizing t0 with
  | zero =>
    refine ⟨⟨rfl, ?_, ?_, trivial⟩, rfl, rfl⟩ <;> simp [Cubic.splitRange, Cubic.toQuadratic]
  | succ n ih =>
    obtain ⟨h1, h2, h3⟩ := ih (t0 + step)
    refine ⟨⟨rfl, ?_, ?_, h1⟩, h2, by simp [Cubic.quadsLoop, h3]⟩ <;>
      simp [Cubic.splitRange, Cubic.toQuadratic]

/-- `rerange` keeps the points, threads the parameters, and (for the last quadratic, whose own
last range ends at 1) ends at exactly 1 -/
theorem rerange_structure (r0 len : K) (lastQuad : Bool) (l : List (FlatSeg K)) (p : P K) (t tFrom : K)
    (hc : Chain p t l) :
    Chain p tFrom (Cubic.rerange r0 len lastQuad l tFrom).1
    ∧ lastPt p (Cubic.rerange r0 len lastQuad l tFrom).1 = lastPt p l
    ∧ lastT tFrom (Cubic.rerange r0 len lastQuad l tFrom).1 = (Cubic.rerange r0 len lastQuad l tFrom).2
    ∧ ((Cubic.rerange r0 len lastQuad l tFrom).1 = [] ↔ l = [])
    ∧ (lastQuad = true → l ≠ [] → lastT t l = one → (Cubic.rerange r0 len lastQuad l tFrom).2 = one) := by
  induction l generalizing p t tFrom with
  | nil => simp [Cubic.rerange, Chain, lastPt, lastT]
  | cons s l ih =>
    obtain ⟨ha, ht, hrest⟩ := hc
    set tn := (if (lastQuad && (s.t1 == one)) = true then one else s.t1 * len + r0) with htn
    obtain ⟨h1, h2, h3, h4, h5⟩ := ih s.b s.t1 tn hrest
    refine ⟨⟨ha, rfl, h1⟩, h2, h3, by simp [Cubic.rerange], ?_⟩
    intro hq _ hlast
    cases l with
    | nil =>
      simp only [lastT] at hlast
      simp [Cubic.rerange, hq, hlast]
    | cons s' l' =>
      exact h5 hq (by simp) hlast

theorem flatQuadsT_cons (tol : K) (q : Quad K) (r0 r1 : K) (rest : List (Quad K × K × K)) (tFrom : K)
    (l : List (FlatSeg K)) (h : Cubic.flatQuadsT tol ((q, r0, r1) :: rest) tFrom = some l) :
    ∃ lq lr, q.forEachFlattenedWithT tol = some lq
      ∧ Cubic.flatQuadsT tol rest (Cubic.rerange r0 (r1 - r0) (r1 == one) lq tFrom).2 = some lr
      ∧ l = (Cubic.rerange r0 (r1 - r0) (r1 == one) lq tFrom).1 ++ lr := by
  unfold Cubic.flatQuadsT at h
  split at h
  · cases h
  · rename_i lq hq
    cases hr : Cubic.flatQuadsT tol rest (Cubic.rerange r0 (r1 - r0) (r1 == one) lq tFrom).2 with
    | none => simp only [hr] at h; cases h
    | some lr =>
      simp only [hr, Option.some.injEq] at h
      exact ⟨lq, lr, hq, hr, h.symm⟩

/-- the nested loops of `for_each_flattened_with_t` over a chain of quadratics -/
theorem cubic_flat_structure (c : Cubic K) (tol : K) (qs : List (Quad K × K × K)) (t tFrom : K)
    (hq : QuadChain c t qs) (hne : qs ≠ []) (hl1 : lastR1 t qs = one)
    (l : List (FlatSeg K)) (h : Cubic.flatQuadsT tol qs tFrom = some l) :
    l ≠ [] ∧ Chain (c.sample t) tFrom l ∧ lastPt (c.sample t) l = c.sample one ∧ lastT tFrom l = one := by
  induction qs generalizing t tFrom l with
  | nil => exact absurd rfl hne
  | cons x rest ih =>
    obtain ⟨q, r0, r1⟩ := x
    obtain ⟨h0, hqa, hqb, hrest⟩ := hq
    subst h0
    obtain ⟨lq, lr, hf, hr, rfl⟩ := flatQuadsT_cons tol q r0 r1 rest tFrom l h
    obtain ⟨lne, lch, llast, lt, _⟩ := quad_flat_structure q tol lq hf
    obtain ⟨g1, g2, g3, g4, g5⟩ := rerange_structure r0 (r1 - r0) (r1 == one) lq q.a zero tFrom lch
    have gne : (Cubic.rerange r0 (r1 - r0) (r1 == one) lq tFrom).1 ≠ [] := fun hh => lne (g4.mp hh)
    rw [llast] at g2
    rw [hqa] at g1 g2
    rw [hqb] at g2
    cases rest with
    | nil =>
      have hlr : lr = [] := by
        unfold Cubic.flatQuadsT at hr
        exact (Option.some.inj hr).symm
      subst hlr
      have hr1 : r1 = one := hl1
      subst hr1
      rw [List.append_nil]
      exact ⟨gne, g1, g2, by rw [g3]; exact g5 one_beq_one lne lt⟩
    | cons y rest' =>
      obtain ⟨m1, m2, m3, m4⟩ := ih r1 _ hrest (by simp) hl1 lr hr
      refine ⟨fun hh => gne (List.append_eq_nil_iff.mp hh).1, chain_append g1 ?_, ?_, ?_⟩
      · rw [g2, g3]; exact m2
      · rw [lastPt_append, g2]; exact m3
      · rw [lastT_append, g3]; exact m4

end cubic

section arc
variable [Transc K] [FlatConst K]

/-- invariant of the arc loop: the remaining arc is the original one from parameter `t0` on -/
def ArcInv (a iter : Arc K) (t0 : K) : Prop :=
  iter.center = a.center ∧ iter.radii = a.radii ∧ iter.xrot = a.xrot
  ∧ iter.start = a.start + a.sweep * t0 ∧ iter.sweep = a.sweep * (1 - t0)

theorem arc_inv_step (a iter : Arc K) (t0 step : K) (h : ArcInv a iter t0) :
    ArcInv a (iter.afterSplit step) (t0 + step * (one - t0))
    ∧ (iter.afterSplit step).fromPt = a.sample (t0 + step * (one - t0)) := by
  obtain ⟨h1, h2, h3, h4, h5⟩ := h
  have o : (one : K) = 1 := sc_one
  have z : (zero : K) = 0 := sc_zero
  refine ⟨⟨h1, h2, h3, ?_, ?_⟩, ?_⟩
  · simp only [Arc.afterSplit, h4, h5, o]; ring
  · simp only [Arc.afterSplit, h4, h5, o]; ring
  · simp only [Arc.fromPt, Arc.sample, Arc.afterSplit, Arc.getAngle, h1, h2, h3, h4, h5, o, z]
    congr 2; ring

/-- **flat_vertices_on_curve (arc)**: every interior vertex is `sample` of its parameter. -/
theorem arc_loop_vertices (a : Arc K) (tol : K) (f : Nat) (iter : Arc K) (t0 : K) (frm : P K)
    (h : ArcInv a iter t0) : InteriorOn a.sample (a.flatLoop tol f iter t0 frm) := by
  induction f generalizing iter t0 frm with
  | zero => simp [Arc.flatLoop, InteriorOn]
  | succ f ih =>
    unfold Arc.flatLoop
    by_cases hs : one ≤ iter.flatteningStep tol
    · rw [if_pos hs]; trivial
    · simp only [hs, if_false]
      obtain ⟨hi, hp⟩ := arc_inv_step a iter t0 (iter.flatteningStep tol) h
      have := ih (iter.afterSplit (iter.flatteningStep tol)) _ (iter.afterSplit (iter.flatteningStep tol)).fromPt hi
      obtain ⟨_, _, _, hne⟩ := arc_loop_structure a tol f (iter.afterSplit (iter.flatteningStep tol))
        (t0 + iter.flatteningStep tol * (one - t0)) (iter.afterSplit (iter.flatteningStep tol)).fromPt
      cases hl : a.flatLoop tol f (iter.afterSplit (iter.flatteningStep tol))
          (t0 + iter.flatteningStep tol * (one - t0)) (iter.afterSplit (iter.flatteningStep tol)).fromPt with
      | nil => exact absurd hl hne
      | cons s r =>
        rw [hl] at this
        exact ⟨hp, this⟩

end arc

/-- a toy instance of the non-field functions, used only to show that the hypothesis
`… = some l` of the structural theorems is satisfiable on a concrete curve -/
@[instance_reducible] def toyTransc : Transc ℚ :=
  { sqrt := fun x => Max.max x 0, cbrt := id, sin := id, cos := id, tan := id, acos := id,
    atan2 := fun a _ => a, pow := fun a _ => a, log2 := id, ln := id, floor := id, ceil := id,
    toNat := fun _ => 0, fmod := fun a _ => a, eps := 0, pi := 3, isNaN := fun _ => false,
    isFinite := fun _ => true }
@[instance_reducible] def toyConst : FlatConst ℚ := ⟨1 / 10000, fun m e => (m : ℚ) / 10 ^ e, (67 / 100) ^ 4⟩


/-! ### Extra invariants -/

section more_any
variable {α : Type} [Scalar α] [Transc α] [FlatConst α]

/-- the state of the arc iterator after `n` calls of `next` -/
def arcIterRun : Nat → ArcIter α → ArcIter α
  | 0, s => s
  | n+1, s => arcIterRun n s.next.2

theorem arc_iter_next_to (s : ArcIter α) : s.next.2.to = s.to := by
  unfold ArcIter.next ArcIter.step
  by_cases hd : s.done = true
  · simp [hd]
  · by_cases he : one ≤ s.arc.flatteningStep s.tolerance <;> simp [hd, he]

theorem arc_iter_run_to (n : Nat) (s : ArcIter α) : (arcIterRun n s).to = s.to := by
  induction n generalizing s with
  | zero => rfl
  | succ n ih => rw [arcIterRun, ih, arc_iter_next_to]

end more_any

section more_field
variable {K : Type} [Field K] [LinearOrder K] [IsStrictOrderedRing K] [Transc K] [FlatConst K]

/-- every segment's end points are `f` at the ends of its parameter range -/
def EndsOn (f : K → P K) (l : List (FlatSeg K)) : Prop := ∀ s ∈ l, s.a = f s.t0 ∧ s.b = f s.t1

theorem quad_loop_ends_on (q : Quad K) (p : FlatParams K) (n : Nat) (i : K) (frm : P K) (tFrom : K)
    (hf : frm = q.sample tFrom) : EndsOn q.sample (q.flatLoop p n i frm tFrom) := by
  induction n generalizing i frm tFrom with
  | zero =>
    intro s hs
    simp only [Quad.flatLoop, List.mem_singleton] at hs
    subst hs
    exact ⟨hf, by rw [show (one : K) = 1 from sc_one, quad_sample_one]⟩
  | succ n ih =>
    intro s hs
    simp only [Quad.flatLoop, List.mem_cons] at hs
    rcases hs with rfl | hs
    · exact ⟨hf, rfl⟩
    · exact ih _ _ _ rfl s hs

theorem quad_flat_ends_on (q : Quad K) (tol : K) (l : List (FlatSeg K))
    (h : q.forEachFlattenedWithT tol = some l) : EndsOn q.sample l := by
  simp only [Quad.forEachFlattenedWithT, Option.map_eq_some_iff] at h
  obtain ⟨c, _, rfl⟩ := h
  exact quad_loop_ends_on q _ _ _ _ _ (by rw [show (zero : K) = 0 from sc_zero, quad_sample_zero])

end more_field

end Lyon.Flat
