/-
  NO-PANIC, part 6: `process_events`, `initialize_events`, `tessellator_loop`, `tessellate_impl`,
  `tessellate`: which panic messages the modelled sweep can end in.
-/
import Lean.Elab.Tactic
import LyonVerif.Lemmas.SweepSafeRecover

set_option linter.unusedSectionVars false
set_option linter.unusedVariables false
set_option linter.unusedSimpArgs false
set_option mvcgen.warning false

namespace Lyon.SweepSafe
open Lyon Lyon.Scalar Lyon.Mono Lyon.Sweep Lyon.EQ
open Std.Do

variable {α : Type} [Scalar α] [Wide α]
variable {tol : α} {n : Nat} {A : List String}

open Lean Elab Tactic Meta in
/-- `note_safe h`: the most recent hypothesis of the form `Safe _ _` is added to the context as `h` -/
elab "note_safe " h:ident : tactic => do
  let g ← getMainGoal
  g.withContext do
    let lctx ← getLCtx
    let decls := (lctx.decls.toList.filterMap id).reverse
    for d in decls do
      if d.isImplementationDetail then continue
      let ty ← whnfR (← instantiateMVars d.type)
      if ty.isAppOf ``Safe then
        let g1 ← g.assert h.getId d.type d.toExpr
        let (_, g2) ← g1.intro1P
        replaceMainGoal [g2]
        return
    throwError "note_safe: no hypothesis `Safe _ _`"

/-- what `process_edges_below` / `update_active_edges` need to know about the scan result -/
def Fit (tol : α) (s : St α) (sc : Scan) : Prop :=
  sc.aboveEnd ≤ s.active.size ∧ (sc.splitEvent = true → 1 ≤ sc.aboveStart) ∧
  (HorizAgree tol → sc.aboveStart ≤ sc.aboveEnd)

theorem of_scan_ok {s : St α} {scan : Scan} (h : scanActiveEdges s = .ok scan) : ScanOk s scan := by
  have h1 := scanActiveEdges_spec s
  rw [h] at h1
  have h2 : (Except.ok scan : Except IErr Scan) = pure scan := rfl
  rw [h2] at h1
  simpa [Triple, WP.pure] using h1


theorem core_of_safe {s : St α} (h : Safe tol s) : Core tol s.active.size [] s :=
  ⟨(safe_iff.mp h).1, (safe_iff.mp h).2, rfl⟩

theorem ScanOk.frame {s s' : St α} {scan : Scan} (h : ScanOk s scan) (h1 : s'.active.size = s.active.size)
    (h2 : s'.tolerance = s.tolerance) : ScanOk s' scan :=
  ⟨h.start_le, h1 ▸ h.end_le, h1 ▸ h.split_lt, h1 ▸ h.merge_lt, h2 ▸ h.merge_room, h.split_pos, h.ends_inc⟩

theorem fit_above {s s' : St α} {scan : Scan} (h : ScanOk s scan) (htol : s.tolerance = tol)
    (hn : s'.active.size = s.active.size) : Fit tol s' (aboveResult scan) := by
  unfold aboveResult
  split
  · rename_i hm
    refine ⟨hn ▸ h.end_le, fun h' => Nat.le_succ_of_le (h.split_pos h'), ?_⟩
    intro hH
    have := h.merge_room (htol ▸ hH) hm
    dsimp only
    omega
  · exact ⟨hn ▸ h.end_le, h.split_pos, fun _ => h.start_le⟩

/-- `process_edges_above`, with the active-list length read off the state -/
theorem processEdgesAbove_safeS (hA : mSpanIdx ∈ A) (scan : Scan) :
    ⦃fun s => ⌜Safe tol s ∧ ScanOk s scan⌝⦄ (processEdgesAbove scan : SM α Scan)
    ⦃safePost A fun sc s => Safe tol s ∧ Fit tol s sc⦄ := by
  intro s hs
  have h := processEdgesAbove_safe (tol := tol) (n := s.active.size) (A := A) hA s scan hs.2 rfl
  have h1 := h s (core_of_safe hs.1)
  refine (wp (processEdgesAbove scan : SM α Scan)).mono _ _ ?_ s h1
  refine ⟨fun sc s' hs' => ?_, fun e s' hs' => hs', trivial⟩
  obtain ⟨hc, hsc⟩ := hs'
  refine ⟨⟨_, hc⟩, ?_⟩
  rw [hsc]
  exact fit_above hs.2 (safe_iff.mp hs.1).2 hc.2.2

theorem processEdgesBelow_safeS (h1A : mEdgeIdx ∈ A) (h2A : mSpanIdx ∈ A) (h3A : mSpanIns ∈ A) (scan : Scan) :
    ⦃fun s => ⌜Safe tol s ∧ Fit tol s scan⌝⦄ (processEdgesBelow scan : SM α Unit)
    ⦃safePost A fun _ s => Safe tol s ∧ Fit tol s scan⦄ := by
  intro s hs
  have h := processEdgesBelow_safe (tol := tol) (n := s.active.size) (A := A) h1A h2A h3A scan hs.2.2.1
  have h1 := h s (core_of_safe hs.1)
  refine (wp (processEdgesBelow scan : SM α Unit)).mono _ _ ?_ s h1
  refine ⟨fun _ s' hs' => ?_, fun e s' hs' => hs', trivial⟩
  exact ⟨⟨_, hs'⟩, hs'.2.2 ▸ hs.2.1, hs.2.2.1, hs.2.2.2⟩

theorem updateActiveEdges_safeS (hUp : NextUpOk α ∨ mAssert ∈ A) (hH : HorizAgree tol ∨ mSplice ∈ A)
    (scan : Scan) :
    ⦃fun s => ⌜Safe tol s ∧ Fit tol s scan⌝⦄ (updateActiveEdges scan : SM α Unit)
    ⦃safePost A fun _ s => Safe tol s⦄ := by
  intro s hs
  have h := updateActiveEdges_safe (tol := tol) (n := s.active.size) (A := A) hUp hH scan hs.2.1 hs.2.2.2
  exact h s (core_of_safe hs.1)

/-- the hypotheses on the list `A` of panic messages under which the sweep's failures are `Allowed A` -/
structure Covers (tol : α) (A : List String) : Prop where
  spanIdx : mSpanIdx ∈ A
  spanIns : mSpanIns ∈ A
  edgeIdx : mEdgeIdx ∈ A
  nan : NoNaN α ∨ mNaN ∈ A
  up : NextUpOk α ∨ mAssert ∈ A
  horiz : HorizAgree tol ∨ mSplice ∈ A

set_option maxHeartbeats 1000000 in
/-- `process_events` (scan, edges above, edges below, active-edge update): no `mSub`, no `mNaN` -/
theorem processEvents_safe (h1A : mSpanIdx ∈ A) (h2A : mSpanIns ∈ A) (h3A : mEdgeIdx ∈ A)
    (hUp : NextUpOk α ∨ mAssert ∈ A) (hH : HorizAgree tol ∨ mSplice ∈ A) :
    ⦃fun s => ⌜Safe tol s⌝⦄ (processEvents : SM α (Option IErr)) ⦃safePost A fun _ s => Safe tol s⦄ := by
  unfold processEvents
  strip_mdata
  have h2 := processEdgesAbove_safeS (α := α) (tol := tol) (A := A) h1A
  have h3 := processEdgesBelow_safeS (α := α) (tol := tol) (A := A) h3A h1A h2A
  have h4 := updateActiveEdges_safeS (α := α) (tol := tol) (A := A) hUp hH
  mvcgen [mark, h2, h3, h4]
  all_goals
    have hx := ‹scanActiveEdges _ = Except.ok _›
    note_safe hS
    exact ⟨Safe.frame hS rfl rfl, ScanOk.frame (of_scan_ok hx) rfl rfl⟩


theorem initializeEvents_safe :
    ⦃fun s => ⌜Safe tol s⌝⦄ (initializeEvents : SM α Unit) ⦃safePost A fun _ s => Safe tol s⦄ := by
  unfold initializeEvents
  strip_mdata
  mvcgen
  all_goals first
    | exact allowed_err _
    | exact allowed_fuel
    | (note_safe hS; exact Safe.frame hS rfl rfl)

theorem tessellatorLoop_safe (hA : Covers tol A) : ∀ f : Nat,
    ⦃fun s => ⌜Safe tol s⌝⦄ (tessellatorLoop f : SM α Unit) ⦃safePost A fun _ s => Safe tol s⦄
  | 0 => by
    unfold tessellatorLoop
    mvcgen
    exact allowed_fuel
  | f+1 => by
    have ih := tessellatorLoop_safe hA f
    have h1 := initializeEvents_safe (α := α) (tol := tol) (A := A)
    have h2 := processEvents_safe (α := α) (tol := tol) (A := A) hA.spanIdx hA.spanIns hA.edgeIdx hA.up hA.horiz
    have h3 := recoverFromError_safe (α := α) (tol := tol) (A := A) hA.nan
    unfold tessellatorLoop
    strip_mdata
    mvcgen [mark, ih, h1, h2, h3]
    all_goals first
      | assumption
      | exact allowed_err _
      | exact allowed_fuel
      | (note_safe hS; exact Safe.frame hS rfl rfl)

/-- a triple as a statement about the run: outcome and final state -/
theorem run_of_triple2 {β : Type} {x : SM α β} {P : St α → Prop} {I : β → St α → Prop} {E : Fail → St α → Prop}
    (h : ⦃fun s => ⌜P s⌝⦄ x ⦃post⟨fun r s => ⌜I r s⌝, fun f s => ⌜E f s⌝⟩⦄) (s : St α) (hs : P s) :
    match (x.run.run s : Except Fail β × St α) with
    | (.ok r, s') => I r s'
    | (.error f, s') => E f s' := by
  have h1 := h s hs
  have h2 : (wp⟦(x.run.run s : Id (Except Fail β × St α))⟧ (PostCond.noThrow fun r =>
      ⌜match r with
        | (.ok r, s') => I r s'
        | (.error f, s') => E f s'⌝)).down := by
    rw [WP.StateT_run, WP.ExceptT_run]
    exact h1
  exact h2


theorem safe_of_empty {t : α} (s : St α) (h1 : s.spans = #[]) (h2 : s.tolerance = t) : Safe t s :=
  safe_iff.mpr ⟨by intro k hk; simp [h1] at hk, h2⟩

theorem loop_allowed {t : α} (hA : Covers t A) (N : Nat) (s0 : St α) (h0 : Safe t s0) (f : Fail)
    (hf : ((tessellatorLoop N).run.run s0).1 = .error f) : Allowed A f := by
  have h := run_of_triple2 (tessellatorLoop_safe (α := α) (tol := t) (A := A) hA N) s0 h0
  revert hf h
  generalize (tessellatorLoop N).run.run s0 = r
  obtain ⟨res, s1⟩ := r
  intro hf h
  cases res with
  | error f' => cases hf; exact h
  | ok u => cases hf

/-- `tessellate_impl` on ANY event queue: a failure is `Allowed A` -/
theorem tessellateImpl_allowed (q : Queue α) (rule : Slab.Rule) (horizontal : Bool) (tol : α) (handleIx : Bool)
    (hA : Covers (tol * half) A) (f : Fail)
    (hf : (tessellateImpl q rule horizontal tol handleIx).1 = some f) : Allowed A f := by
  unfold tessellateImpl at hf
  split at hf
  · cases hf; exact allowed_err _
  · dsimp only at hf
    split at hf
    · rename_i f' heq
      cases hf
      exact loop_allowed hA _ _ (safe_of_empty _ rfl rfl) _ heq
    · cases hf

/-- the whole modelled `FillTessellator` on polygonal input -/
theorem tessellate_allowed (entry : Entry) (rule : Slab.Rule) (horizontal : Bool) (tol : α) (handleIx : Bool)
    (subs : List (SubPath α)) (hA : Covers (tol * half) A) (f : Fail)
    (hf : (tessellate entry rule horizontal tol handleIx subs).1 = some f) : Allowed A f := by
  unfold tessellate at hf
  dsimp only at hf
  split at hf
  · cases hf; exact allowed_unmodelled _
  · exact tessellateImpl_allowed _ _ _ _ _ hA f hf

end Lyon.SweepSafe
