/-
  `insert_into_sorted_list` keeps the `next_event` list sorted (pointer level, ordered fields): the walk of
  `Queue.insertLoop` from a node `prev` whose position is before `p` links the fresh event `idx` (position `p`)
  into the list - as a new node between two nodes, at the end, or as a sibling of a node at `p` - and the list
  from `prev` stays `SortedFrom`, contains `p`, and keeps all its positions.
-/
import LyonVerif.Lemmas.SweepQueueOrd

set_option linter.unusedSectionVars false
set_option linter.unusedVariables false
set_option linter.unusedSimpArgs false

namespace Lyon.SweepSpan
open Lyon Lyon.Scalar Lyon.Sweep Lyon.EQ Lyon.SweepPos

section field
variable {K : Type} [Field K] [LinearOrder K] [IsStrictOrderedRing K]

/-! ### the raw array after a link update -/

theorem getD_modify (evs : Array (Event K)) (i j : Nat) (f : Event K → Event K) (d : Event K) :
    (evs.modify i f).getD j d = if i = j ∧ j < evs.size then f (evs.getD j d) else evs.getD j d := by
  simp only [Array.getD_eq_getD_getElem?, Array.getElem?_modify]
  by_cases h : i = j
  · subst h
    by_cases h2 : i < evs.size
    · simp [h2]
    · simp [h2]
  · simp [h]

theorem epos_setNextEvent (evs : Array (Event K)) (id nx j : Nat) :
    epos (Queue.setNextEvent evs id nx) j = epos evs j := by
  unfold epos Queue.setNextEvent
  rw [getD_modify]
  split <;> rfl

theorem enext_setNextEvent (evs : Array (Event K)) (id nx j : Nat) :
    enext (Queue.setNextEvent evs id nx) j = if id = j ∧ j < evs.size then nx else enext evs j := by
  unfold enext Queue.setNextEvent
  rw [getD_modify]
  split <;> rfl

theorem epos_setNextSibling (evs : Array (Event K)) (id nx j : Nat) :
    epos (Queue.setNextSibling evs id nx) j = epos evs j := by
  unfold epos Queue.setNextSibling
  rw [getD_modify]
  split <;> rfl

theorem enext_setNextSibling (evs : Array (Event K)) (id nx j : Nat) :
    enext (Queue.setNextSibling evs id nx) j = enext evs j := by
  unfold enext Queue.setNextSibling
  rw [getD_modify]
  split <;> rfl

/-! ### the sweep order -/

theorem cmp_lt_iff (a b : P K) : comparePositions a b = .lt ↔ a.y < b.y ∨ (a.y = b.y ∧ a.x < b.x) := by
  unfold comparePositions
  constructor
  · intro h
    split at h
    · cases h
    · split at h
      · rename_i h2; exact Or.inl h2
      · split at h
        · cases h
        · split at h
          · rename_i h1 h2 h3 h4
            exact Or.inr ⟨le_antisymm (not_lt.mp h1) (not_lt.mp h2), h4⟩
          · cases h
  · intro h
    rcases h with h | ⟨h1, h2⟩
    · rw [if_neg (not_lt.mpr (le_of_lt h)), if_pos h]
    · rw [if_neg (by rw [h1]; exact lt_irrefl _), if_neg (by rw [h1]; exact lt_irrefl _),
        if_neg (not_lt.mpr (le_of_lt h2)), if_pos h2]

theorem cmp_lt_trans {a b c : P K} (h1 : comparePositions a b = .lt) (h2 : comparePositions b c = .lt) :
    comparePositions a c = .lt := by
  rw [cmp_lt_iff] at *
  rcases h1 with h1 | ⟨e1, h1⟩ <;> rcases h2 with h2 | ⟨e2, h2⟩
  · exact Or.inl (lt_trans h1 h2)
  · exact Or.inl (e2 ▸ h1)
  · exact Or.inl (e1 ▸ h2)
  · exact Or.inr ⟨e1.trans e2, lt_trans h1 h2⟩

theorem cmp_lt_irrefl (a : P K) : comparePositions a a ≠ .lt := by
  rw [Ne, cmp_lt_iff]
  intro h
  rcases h with h | ⟨_, h⟩ <;> exact lt_irrefl _ h

/-! ### nodes of the list -/

/-- `j` is a node of the `next_event` list from `i` -/
inductive NodeIn (evs : Array (Event K)) : Nat → Nat → Prop
  | here (i : Nat) (hi : i ≠ INVALID) : NodeIn evs i i
  | next (i j : Nat) (hi : i ≠ INVALID) (h : NodeIn evs (enext evs i) j) : NodeIn evs i j

theorem NodeIn.valid {evs : Array (Event K)} {i j : Nat} (h : NodeIn evs i j) : i ≠ INVALID := by
  cases h <;> assumption

theorem node_eq_or_lt {evs : Array (Event K)} {i j : Nat} (hn : NodeIn evs i j) (hs : SortedFrom evs i) :
    i = j ∨ comparePositions (epos evs i) (epos evs j) = .lt := by
  induction hn with
  | here i hi => exact Or.inl rfl
  | next i j hi h ih =>
    cases hs with
    | nil => exact absurd rfl hi
    | cons _ _ hs' hlt =>
      right
      rcases ih hs' with e | e
      · rw [← e]; exact hlt h.valid
      · exact cmp_lt_trans (hlt h.valid) e

/-- a node is not in the list that starts at its successor -/
theorem not_node_tail {evs : Array (Event K)} {i : Nat} (hs : SortedFrom evs i) (hi : i ≠ INVALID) :
    ¬ NodeIn evs (enext evs i) i := by
  intro hn
  cases hs with
  | nil => exact absurd rfl hi
  | cons _ _ hs' hlt =>
    rcases node_eq_or_lt hn hs' with e | e
    · have := hlt hn.valid
      rw [e] at this
      exact cmp_lt_irrefl _ this
    · exact cmp_lt_irrefl _ (cmp_lt_trans (hlt hn.valid) e)

/-- the list only depends on the positions and on the `next_event` links of its own nodes -/
theorem sorted_frame {evs evs' : Array (Event K)} (hpos : ∀ j, epos evs' j = epos evs j) {i : Nat}
    (hs : SortedFrom evs i) (hn : ∀ j, NodeIn evs i j → enext evs' j = enext evs j) : SortedFrom evs' i := by
  induction hs with
  | nil => exact .nil
  | cons i hi hs' hlt ih =>
    have e : enext evs' i = enext evs i := hn i (.here i hi)
    refine .cons i hi ?_ ?_
    · rw [e]; exact ih (fun j hj => hn j (.next i j hi hj))
    · rw [e, hpos, hpos]; exact hlt

theorem inchain_frame {evs evs' : Array (Event K)} (hpos : ∀ j, epos evs' j = epos evs j) {i : Nat} {p : P K}
    (hc : InChain evs i p) (hn : ∀ j, NodeIn evs i j → enext evs' j = enext evs j) : InChain evs' i p := by
  induction hc with
  | here i hi => rw [← hpos]; exact .here i hi
  | next i p hi h ih =>
    have e : enext evs' i = enext evs i := hn i (.here i hi)
    refine .next i p hi ?_
    rw [e]; exact ih (fun j hj => hn j (.next i j hi hj))

/-! ### the tests of the walk -/

theorem srcAfter_lt {a b : P K} (h : Sources.isAfter a b = true) : comparePositions b a = .lt := by
  unfold Sources.isAfter at h
  simp only [Bool.or_eq_true, Bool.and_eq_true, decide_eq_true_eq] at h
  rw [cmp_lt_iff]
  rcases h with h | ⟨h1, h2⟩
  · exact Or.inl h
  · exact Or.inr ⟨((sc_beq _ _).mp h1).symm, h2⟩

theorem beq_pos {a b : P K} (h : (a == b) = true) : a = b := by
  have h' : (a.x == b.x && a.y == b.y) = true := h
  simp only [Bool.and_eq_true] at h'
  cases a; cases b
  simp only [P.mk.injEq]
  exact ⟨(sc_beq _ _).mp h'.1, (sc_beq _ _).mp h'.2⟩

theorem lt_of_not_beq_not_after {a b : P K} (h1 : ¬ (a == b) = true) (h2 : ¬ Sources.isAfter a b = true) :
    comparePositions a b = .lt := by
  rw [cmp_lt_iff]
  unfold Sources.isAfter at h2
  simp only [Bool.or_eq_true, Bool.and_eq_true, decide_eq_true_eq, not_or, not_and, not_lt] at h2
  have h1' : ¬ (a.x = b.x ∧ a.y = b.y) := by
    intro h
    apply h1
    show (a.x == b.x && a.y == b.y) = true
    simp only [Bool.and_eq_true]
    exact ⟨(sc_beq _ _).mpr h.1, (sc_beq _ _).mpr h.2⟩
  rcases lt_or_eq_of_le h2.1 with h | h
  · exact Or.inl h
  · have hx := h2.2 ((sc_beq _ _).mpr h)
    rcases lt_or_eq_of_le hx with hx' | hx'
    · exact Or.inr ⟨h, hx'⟩
    · exact absurd ⟨hx', h⟩ h1'

/-- what the walk guarantees about the list from `prev` -/
structure InsRes (evs evs' : Array (Event K)) (prev idx : Nat) (p : P K) : Prop where
  sorted : SortedFrom evs' prev
  has : InChain evs' prev p
  keep : ∀ q, InChain evs prev q → InChain evs' prev q
  pos : ∀ j, epos evs' j = epos evs j
  frame : ∀ j, j ≠ idx → ¬ NodeIn evs prev j → enext evs' j = enext evs j

/-- **the walk of `insert_into_sorted_list`** from a node `prev` before `p` whose successor is `current` -/
theorem insertLoop_sorted (idx : Nat) (p : P K) (hidx : idx ≠ INVALID) : ∀ (f : Nat) (evs : Array (Event K))
    (prev current : Nat) (evs' : Array (Event K)),
    Queue.insertLoop idx p f evs prev current = some evs' →
    current = enext evs prev → SortedFrom evs prev → prev ≠ INVALID →
    comparePositions (epos evs prev) p = .lt → epos evs idx = p → enext evs idx = INVALID → idx < evs.size →
    (∀ j, NodeIn evs prev j → j ≠ idx ∧ j < evs.size) → InsRes evs evs' prev idx p
  | 0, _, _, _, _, e, _, _, _, _, _, _, _, _ => by simp [Queue.insertLoop] at e
  | f+1, evs, prev, current, evs', e, hcur, hs, hprev, hpl, hip, hin, his, hnodes => by
    have hpn := hnodes prev (.here prev hprev)
    have htail : SortedFrom evs current := hcur ▸ hs.tail hprev
    have hsub : ∀ j, NodeIn evs current j → NodeIn evs prev j := fun j hj => .next prev j hprev (hcur ▸ hj)
    have hprev_not : ¬ NodeIn evs current prev := hcur ▸ not_node_tail hs hprev
    simp only [Queue.insertLoop] at e
    by_cases hc0 : (current == INVALID) = true
    · -- end of the list: `prev → idx`
      rw [if_pos hc0] at e
      cases e
      have hci : current = INVALID := by simpa using hc0
      have e1 : enext (Queue.setNextEvent evs prev idx) prev = idx := by
        rw [enext_setNextEvent, if_pos ⟨rfl, hpn.2⟩]
      have e2 : enext (Queue.setNextEvent evs prev idx) idx = INVALID := by
        rw [enext_setNextEvent, if_neg (fun h => hpn.1 h.1), hin]
      refine ⟨?_, ?_, ?_, fun j => epos_setNextEvent _ _ _ _, ?_⟩
      · refine .cons prev hprev ?_ ?_
        · rw [e1]
          exact .cons idx hidx (by rw [e2]; exact .nil) (fun h => absurd e2 h)
        · intro _
          rw [e1, epos_setNextEvent, epos_setNextEvent, hip]; exact hpl
      · refine .next prev p hprev ?_
        rw [e1]
        have := InChain.here (evs := Queue.setNextEvent evs prev idx) idx hidx
        rw [epos_setNextEvent, hip] at this
        exact this
      · intro q hq
        cases hq with
        | here _ _ =>
          have := InChain.here (evs := Queue.setNextEvent evs prev idx) prev hprev
          rw [epos_setNextEvent] at this
          exact this
        | next _ _ _ h => exact absurd (hcur ▸ hci) h.valid
      · intro j hj hnj
        rw [enext_setNextEvent, if_neg]
        intro h
        exact hnj (h.1 ▸ .here prev hprev)
    · rw [if_neg hc0] at e
      have hcv : current ≠ INVALID := by simpa using hc0
      have hcn := hnodes current (hsub current (.here current hcv))
      by_cases hp : ((evs.getD current Event.dflt).pos == p) = true
      · -- an event at `p` exists: `idx` becomes its sibling; no `next_event` link changes
        rw [if_pos hp] at e
        cases e
        have hposc : epos evs current = p := beq_pos hp
        have hpos : ∀ j, epos (Queue.setNextSibling (Queue.setNextSibling evs idx
            (evs.getD current Event.dflt).nextSibling) current idx) j = epos evs j := fun j => by
          rw [epos_setNextSibling, epos_setNextSibling]
        have hnx : ∀ j, enext (Queue.setNextSibling (Queue.setNextSibling evs idx
            (evs.getD current Event.dflt).nextSibling) current idx) j = enext evs j := fun j => by
          rw [enext_setNextSibling, enext_setNextSibling]
        refine ⟨sorted_frame hpos hs (fun j _ => hnx j), ?_, fun q hq => inchain_frame hpos hq (fun j _ => hnx j),
          hpos, fun j _ _ => hnx j⟩
        refine inchain_frame hpos ?_ (fun j _ => hnx j)
        refine .next prev p hprev ?_
        rw [← hcur, ← hposc]
        exact .here current hcv
      · rw [if_neg hp] at e
        by_cases ha : Sources.isAfter (evs.getD current Event.dflt).pos p = true
        · -- `prev → idx → current`
          rw [if_pos ha] at e
          cases e
          have hlt2 : comparePositions p (epos evs current) = .lt := srcAfter_lt ha
          have hpos : ∀ j, epos (Queue.setNextEvent (Queue.setNextEvent evs prev idx) idx current) j = epos evs j :=
            fun j => by rw [epos_setNextEvent, epos_setNextEvent]
          have hsz : (Queue.setNextEvent evs prev idx).size = evs.size := by simp [Queue.setNextEvent]
          have hnx : ∀ j, j ≠ idx → j ≠ prev →
              enext (Queue.setNextEvent (Queue.setNextEvent evs prev idx) idx current) j = enext evs j := by
            intro j h1 h2
            rw [enext_setNextEvent, if_neg (fun h => h1 h.1.symm), enext_setNextEvent, if_neg (fun h => h2 h.1.symm)]
          have e1 : enext (Queue.setNextEvent (Queue.setNextEvent evs prev idx) idx current) prev = idx := by
            rw [enext_setNextEvent, if_neg (fun h => hpn.1 h.1.symm), enext_setNextEvent, if_pos ⟨rfl, hpn.2⟩]
          have e2 : enext (Queue.setNextEvent (Queue.setNextEvent evs prev idx) idx current) idx = current := by
            rw [enext_setNextEvent, if_pos ⟨rfl, by rw [hsz]; exact his⟩]
          have hframe : ∀ j, NodeIn evs current j →
              enext (Queue.setNextEvent (Queue.setNextEvent evs prev idx) idx current) j = enext evs j :=
            fun j hj => hnx j (hnodes j (hsub j hj)).1 (fun h => hprev_not (h ▸ hj))
          have hsc := sorted_frame hpos htail hframe
          refine ⟨?_, ?_, ?_, hpos, ?_⟩
          · refine .cons prev hprev ?_ ?_
            · rw [e1]
              refine .cons idx hidx (by rw [e2]; exact hsc) ?_
              intro _
              rw [e2, hpos, hpos, hip]; exact hlt2
            · intro _
              rw [e1, hpos, hpos, hip]; exact hpl
          · refine .next prev p hprev ?_
            rw [e1]
            have := InChain.here (evs := Queue.setNextEvent (Queue.setNextEvent evs prev idx) idx current) idx hidx
            rw [hpos, hip] at this
            exact this
          · intro q hq
            cases hq with
            | here _ _ =>
              have := InChain.here (evs := Queue.setNextEvent (Queue.setNextEvent evs prev idx) idx current) prev hprev
              rw [hpos] at this
              exact this
            | next _ _ _ h =>
              refine .next prev q hprev ?_
              rw [e1]
              refine .next idx q hidx ?_
              rw [e2]
              exact inchain_frame hpos (hcur ▸ h) hframe
          · intro j hj hnj
            exact hnx j hj (fun h => hnj (by rw [h]; exact .here prev hprev))
        · -- walk on
          rw [if_neg ha] at e
          have hlt : comparePositions (epos evs current) p = .lt := lt_of_not_beq_not_after hp ha
          have ih := insertLoop_sorted idx p hidx f evs current _ evs' e rfl htail hcv hlt hip hin his
            (fun j hj => hnodes j (hsub j hj))
          have e1 : enext evs' prev = current := by
            rw [ih.frame prev hpn.1 hprev_not, ← hcur]
          refine ⟨?_, ?_, ?_, ih.pos, ?_⟩
          · refine .cons prev hprev (by rw [e1]; exact ih.sorted) ?_
            intro _
            rw [e1, ih.pos, ih.pos]
            cases hs with
            | nil => exact absurd rfl hprev
            | cons _ _ _ hlt0 => rw [hcur]; exact hlt0 (hcur ▸ hcv)
          · exact .next prev p hprev (by rw [e1]; exact ih.has)
          · intro q hq
            cases hq with
            | here _ _ =>
              have := InChain.here (evs := evs') prev hprev
              rw [ih.pos] at this
              exact this
            | next _ _ _ h => exact .next prev q hprev (by rw [e1]; exact ih.keep q (hcur ▸ h))
          · intro j hj hnj
            exact ih.frame j hj (fun h => hnj (hsub j h))

/-! ### `insert_sorted(position, data, after)` as the sweep calls it -/

theorem sorted_frame_nodes {evs evs' : Array (Event K)} {i : Nat} (hs : SortedFrom evs i)
    (hn : ∀ j, NodeIn evs i j → enext evs' j = enext evs j ∧ epos evs' j = epos evs j) : SortedFrom evs' i := by
  induction hs with
  | nil => exact .nil
  | cons i hi hs' hlt ih =>
    have e := hn i (.here i hi)
    refine .cons i hi ?_ ?_
    · rw [e.1]; exact ih (fun j hj => hn j (.next i j hi hj))
    · intro hv
      rw [e.1] at hv ⊢
      rw [e.2, (hn _ (.next i _ hi (.here _ hv))).2]
      exact hlt hv

theorem inchain_frame_nodes {evs evs' : Array (Event K)} {i : Nat} {p : P K} (hc : InChain evs i p)
    (hn : ∀ j, NodeIn evs i j → enext evs' j = enext evs j ∧ epos evs' j = epos evs j) : InChain evs' i p := by
  induction hc with
  | here i hi => rw [← (hn i (.here i hi)).2]; exact .here i hi
  | next i p hi h ih =>
    refine .next i p hi ?_
    rw [(hn i (.here i hi)).1]; exact ih (fun j hj => hn j (.next i j hi hj))

/-- the nodes of the list in an array that agrees with `evs` on the `next_event` links of the (finite) list -/
theorem nodeIn_of_frame {evs evs' : Array (Event K)} {i : Nat} (hs : SortedFrom evs i)
    (hn : ∀ j, NodeIn evs i j → enext evs' j = enext evs j) : ∀ k, NodeIn evs' i k → NodeIn evs i k := by
  induction hs with
  | nil => intro k hk; exact absurd rfl hk.valid
  | cons i hi hs' hlt ih =>
    intro k hk
    cases hk with
    | here _ _ => exact .here i hi
    | next _ _ _ h =>
      rw [hn i (.here i hi)] at h
      exact .next i k hi (ih (fun j hj => hn j (.next i j hi hj)) k h)

/-- the first step of the walk: it starts AT `after` (`prev = current = after`), a node before `p` -/
theorem insertLoop_start (idx : Nat) (p : P K) (hidx : idx ≠ INVALID) (f : Nat) (evs : Array (Event K))
    (after : Nat) (evs' : Array (Event K)) (e : Queue.insertLoop idx p (f + 1) evs after after = some evs')
    (hs : SortedFrom evs after) (hav : after ≠ INVALID) (hpl : comparePositions (epos evs after) p = .lt)
    (hip : epos evs idx = p) (hin : enext evs idx = INVALID) (his : idx < evs.size)
    (hnodes : ∀ j, NodeIn evs after j → j ≠ idx ∧ j < evs.size) : InsRes evs evs' after idx p := by
  simp only [Queue.insertLoop] at e
  rw [if_neg (by simpa using hav)] at e
  have h1 : ¬ ((evs.getD after Event.dflt).pos == p) = true := by
    intro h
    have : epos evs after = p := beq_pos h
    rw [this] at hpl
    exact cmp_lt_irrefl _ hpl
  have h2 : ¬ Sources.isAfter (evs.getD after Event.dflt).pos p = true := by
    intro h
    exact cmp_lt_irrefl _ (cmp_lt_trans hpl (srcAfter_lt h))
  rw [if_neg h1, if_neg h2] at e
  exact insertLoop_sorted idx p hidx f evs after _ evs' e rfl hs hav hpl hip hin his hnodes

/-- **`insert_sorted` keeps the list from `after` sorted**: for an event `after` of a sorted `next_event` list
whose position is before `p` in sweep order (what `assert!(is_after(intersection, current))` and the order of two
pending ends guarantee at the call sites), the list from `after` in the new queue is sorted, contains `p` and
keeps all its positions - unless the walk ran out of fuel (`none`: reported by the model as `fuel_out`) -/
theorem insertSorted_sorted (q : Queue K) (p : P K) (d : EdgeData K) (after : Nat) (hav : after ≠ INVALID)
    (hs : SortedFrom q.events after) (hpl : comparePositions (q.position after) p = .lt)
    (hnodes : ∀ j, NodeIn q.events after j → j < q.events.size) (hsz : q.events.size ≠ INVALID)
    (evs' : Array (Event K))
    (e : Queue.insertLoop q.events.size p (q.pushUnsorted p d).fuel (q.pushUnsorted p d).events after after = some evs') :
    SortedFrom evs' after ∧ InChain evs' after p ∧ ∀ r, InChain q.events after r → InChain evs' after r := by
  have hpush : ∀ j, j < q.events.size →
      enext (q.pushUnsorted p d).events j = enext q.events j ∧ epos (q.pushUnsorted p d).events j = epos q.events j := by
    intro j hj
    unfold enext epos Queue.pushUnsorted
    simp [Array.getD_eq_getD_getElem?, Array.getElem?_push, Nat.ne_of_lt hj, hj]
  have hnew : epos (q.pushUnsorted p d).events q.events.size = p ∧
      enext (q.pushUnsorted p d).events q.events.size = INVALID := by
    unfold enext epos Queue.pushUnsorted
    simp [Array.getD_eq_getD_getElem?, Array.getElem?_push]
  have hs' : SortedFrom (q.pushUnsorted p d).events after :=
    sorted_frame_nodes hs (fun j hj => hpush j (hnodes j hj))
  have hfuel : (q.pushUnsorted p d).fuel = (2 * (q.pushUnsorted p d).events.size + 7) + 1 := rfl
  rw [hfuel] at e
  have hnodes' : ∀ j, NodeIn (q.pushUnsorted p d).events after j → j ≠ q.events.size ∧ j < (q.pushUnsorted p d).events.size := by
    intro j hj
    have := hnodes j (nodeIn_of_frame hs (fun k hk => (hpush k (hnodes k hk)).1) j hj)
    exact ⟨Nat.ne_of_lt this, by simp [Queue.pushUnsorted]; omega⟩
  have r := insertLoop_start q.events.size p hsz _ _ after evs' e hs' hav
    (by rw [(hpush after (hnodes after (.here after hav))).2]; exact hpl) hnew.1 hnew.2
    (by simp [Queue.pushUnsorted]) hnodes'
  exact ⟨r.sorted, r.has, fun r' hr' => r.keep r' (inchain_frame_nodes hr' (fun j hj => hpush j (hnodes j hj)))⟩

/-- the nodes of a list in a structurally well-formed array are valid indices -/
theorem nodes_lt {evs : Array (Event K)} (hl : SweepRep.LinksOk evs) {i j : Nat} (hn : NodeIn evs i j)
    (hi : SweepRep.Link evs.size i) : j < evs.size := by
  induction hn with
  | here i hv => exact hi.resolve_left hv
  | next i j hv h ih => exact ih (SweepRep.getD_links hl i).2

/-- `insert_sibling` (an event at a position that is already in the list) and `push_unlinked` do not touch the
`next_event` links or the positions of the old events: a sorted list stays sorted, with the same positions -/
theorem insertSibling_sorted (q : Queue K) (sib : Nat) (p : P K) (d : EdgeData K) (i : Nat)
    (hs : SortedFrom q.events i) (hnodes : ∀ j, NodeIn q.events i j → j < q.events.size) :
    SortedFrom (q.insertSibling sib p d).events i ∧
    ∀ r, InChain q.events i r → InChain (q.insertSibling sib p d).events i r := by
  have hf : ∀ j, j < q.events.size →
      enext (q.insertSibling sib p d).events j = enext q.events j ∧
      epos (q.insertSibling sib p d).events j = epos q.events j := by
    intro j hj
    unfold Queue.insertSibling
    dsimp only
    rw [enext_setNextSibling, epos_setNextSibling]
    unfold enext epos
    simp [Array.getD_eq_getD_getElem?, Array.getElem?_push, Nat.ne_of_lt hj, hj]
  exact ⟨sorted_frame_nodes hs (fun j hj => hf j (hnodes j hj)),
    fun r hr => inchain_frame_nodes hr (fun j hj => hf j (hnodes j hj))⟩

theorem pushUnlinked_sorted (q : Queue K) (p : P K) (d : EdgeData K) (i : Nat)
    (hs : SortedFrom q.events i) (hnodes : ∀ j, NodeIn q.events i j → j < q.events.size) :
    SortedFrom (q.pushUnlinked p d).1.events i ∧
    ∀ r, InChain q.events i r → InChain (q.pushUnlinked p d).1.events i r := by
  have hf : ∀ j, j < q.events.size →
      enext (q.pushUnlinked p d).1.events j = enext q.events j ∧
      epos (q.pushUnlinked p d).1.events j = epos q.events j := by
    intro j hj
    unfold enext epos Queue.pushUnlinked Queue.pushUnsorted
    simp [Array.getD_eq_getD_getElem?, Array.getElem?_push, Nat.ne_of_lt hj, hj]
  exact ⟨sorted_frame_nodes hs (fun j hj => hf j (hnodes j hj)),
    fun r hr => inchain_frame_nodes hr (fun j hj => hf j (hnodes j hj))⟩

/-- advancing to the next event: the list from the successor is sorted, and the vertex just left is before it -/
theorem sorted_advance {evs : Array (Event K)} {i : Nat} (hs : SortedFrom evs i) (hi : i ≠ INVALID) :
    SortedFrom evs (enext evs i) ∧
    (enext evs i ≠ INVALID → (epos evs i).y ≤ (epos evs (enext evs i)).y) := by
  cases hs with
  | nil => exact absurd rfl hi
  | cons _ _ hs' hlt => exact ⟨hs', fun h => cmp_lt_y (hlt h)⟩

end field

end Lyon.SweepSpan
