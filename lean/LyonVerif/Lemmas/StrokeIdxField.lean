/-
  Index validity for the complete stroker model, part 6: the two arithmetic facts (`Reg`) over a
  linearly ordered field (exact arithmetic; `sqrt`, the trigonometric functions, `asin`, `is_nan`,
  the line intersection `ix` stay arbitrary).

  * `skipApart_field`: a skipped join moves away from the point before it
    (`|c-a|² = |a-b|² + |b-c|² + 2 (b-a)·(c-b)`).
  * `reg_field_fixed`: fixed width, `line_join ≠ MiterClip`: every endpoint that has been the middle
    of a step has side points symmetric about its position (`pos.next + neg.next = 2·position`),
    `flattened_step` places the join's two points symmetrically as well, hence the two dot products
    it tests add up to `2·|prev_edge|² ≥ 0` and are never both negative: no skip.
    (`MiterClip` moves the `next` point of the front side to the clip line: the symmetry is lost and
    with it this argument; see `Props/C05c.lean`.)
-/
import LyonVerif.Lemmas.StrokeIdxCls
import LyonVerif.Lemmas.Field
import Mathlib.Tactic.Linarith
import Mathlib.Tactic.LinearCombination
import Mathlib.Tactic.Positivity

set_option linter.unusedSectionVars false
set_option linter.unusedVariables false

namespace Lyon.C05c
open Lyon Scalar Lyon.Stroke Lyon.Stroke.Full Lyon.C05 Lyon.C05b

/-! ## the geometry of `flattened_step`, any scalar type -/

section
variable {α : Type} [Scalar α] [Transc α]

/-- `flattened_step` puts the join's two points at `position ± N·half_width`, and answers "skip"
only if both dot products are negative -/
theorem flattenedStep_geo (prev join next : EP α) (d : VData α) (o : Out α) :
    ∃ N : P α,
      ((flattenedStep prev join next d o).join.position = join.position
        ∧ (flattenedStep prev join next d o).join.pos.next = join.position + N.smul d.halfWidth
        ∧ (flattenedStep prev join next d o).join.neg.next = join.position - N.smul d.halfWidth)
      ∧ ((flattenedStep prev join next d o).skip = true →
          (join.position - prev.position).dot (join.position + N.smul d.halfWidth - prev.pos.next) < zero
          ∧ (join.position - prev.position).dot (join.position - N.smul d.halfWidth - prev.neg.next) < zero) := by
  unfold flattenedStep
  simp only []
  refine ⟨computeNormal ((join.position - prev.position).sdiv (len (join.position - prev.position)))
    ((next.position - join.position).sdiv (len (next.position - join.position))), ?_⟩
  split_ifs <;>
    first
    | exact ⟨⟨rfl, rfl, rfl⟩, fun _ => by assumption⟩
    | exact ⟨⟨rfl, rfl, rfl⟩, fun h' => by cases h'⟩

end

/-! ## ordered fields -/

section Field
variable {K : Type} [Field K] [LinearOrder K] [IsStrictOrderedRing K]

theorem tooClose_false_iff (thr : K) (a b : P K) :
    pointsAreTooClose thr a b = false ↔ thr ≤ (a.x - b.x) * (a.x - b.x) + (a.y - b.y) * (a.y - b.y) := by
  unfold pointsAreTooClose
  rw [decide_eq_false_iff_not]
  simp only [geom, not_lt]

/-- a skipped join moves away (exact arithmetic) -/
theorem skipApart_field (thr : K) : SkipApart thr := by
  intro a b c h1 h2 h3
  rw [tooClose_false_iff] at h1 h2 ⊢
  have h3' : 0 < (b.x - a.x) * (c.x - b.x) + (b.y - a.y) * (c.y - b.y) := by
    have := h3
    simp only [geom, Nat.cast_zero] at this
    exact this
  nlinarith [mul_self_nonneg (b.x - c.x), mul_self_nonneg (b.y - c.y)]

/-- side points symmetric about the position -/
def Sym (pos a b : P K) : Prop := a.x + b.x = pos.x + pos.x ∧ a.y + b.y = pos.y + pos.y

variable [Transc K] [Asin K] [FlatConst K]

/-- `line_join ≠ MiterClip` for every endpoint -/
def NoClip : Bool → LineJoin → Prop := fun _ lj => lj ≠ .miterClip

theorem noClip_miter : ∀ (f : Bool) (lj : LineJoin), NoClip f lj → NoClip f .miter := by
  intro _ _ _; unfold NoClip; decide

theorem reg_field_fixed (e : Env K) (store : Nat → List K) (ids : List Nat) (hfw : e.o.varWidth = false) :
    Reg e (stdCls e store ids NoClip noClip_miter) Sym where
  first := by
    intro first next
    unfold GE Sym firstEdgeSetup
    simp only [geom]
    constructor <;> ring
  joinFw := by
    intro prev join next vhw hF
    have hlj : join.lineJoin ≠ .miterClip := hF.2
    have hb : (join.lineJoin == Lyon.StrokeQuad.Join.miterClip) = false := by
      cases h : join.lineJoin <;> simp_all
    unfold GE Sym joinSidesFw frontFix
    simp only [hb]
    split_ifs <;> first | contradiction | (simp only [geom]; constructor <;> ring)
  flat := by
    intro prev join next d o
    obtain ⟨N, ⟨h1, h2, h3⟩, _⟩ := flattenedStep_geo prev join next d o
    unfold GE Sym
    rw [h1, h2, h3]
    simp only [geom]
    constructor <;> ring
  noskip := by
    intro _ prev join next d o hG _ _
    obtain ⟨N, _, hs⟩ := flattenedStep_geo prev { join with lineJoin := .miter } next d o
    by_contra hne
    have hsk : (flattenedStep prev { join with lineJoin := .miter } next d o).skip = true := by
      simpa using hne
    obtain ⟨d0, d1⟩ := hs hsk
    obtain ⟨hx, hy⟩ := hG
    simp only [geom, Nat.cast_zero] at d0 d1
    have key : (join.position.x - prev.position.x) * (join.position.x + N.x * d.halfWidth - prev.pos.next.x)
        + (join.position.y - prev.position.y) * (join.position.y + N.y * d.halfWidth - prev.pos.next.y)
        + ((join.position.x - prev.position.x) * (join.position.x - N.x * d.halfWidth - prev.neg.next.x)
        + (join.position.y - prev.position.y) * (join.position.y - N.y * d.halfWidth - prev.neg.next.y))
        = 2 * ((join.position.x - prev.position.x) * (join.position.x - prev.position.x)
          + (join.position.y - prev.position.y) * (join.position.y - prev.position.y)) := by
      linear_combination (-(join.position.x - prev.position.x)) * hx - (join.position.y - prev.position.y) * hy
    nlinarith [mul_self_nonneg (join.position.x - prev.position.x), mul_self_nonneg (join.position.y - prev.position.y)]
  vw := by intro h; rw [hfw] at h; cases h

end Field

end Lyon.C05c
