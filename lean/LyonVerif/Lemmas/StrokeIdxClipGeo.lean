/-
  Index validity for the complete stroker model, part 8: the arithmetic facts `LinkReg`
  (`Lemmas/StrokeIdxClipRun.lean`) over a linearly ordered field, `LineJoin::MiterClip` included.

  * `SLink thr p a b q` (strong link): `a + b − 2p = −s·(q − p)` with `s ≥ 0` and `|q − p|² ≥ thr`:
    the two `next` side points of an endpoint at `p` are symmetric about `p` up to a shift BACKWARDS
    along the edge towards the following point `q`.  `WLink`: `(q − p)·(a + b − 2p) ≤ 0`.
  * `linkLaw_field`: `SLink → WLink`, and `SLink` towards `q` gives `WLink` towards every `q'` within
    merge distance of `q` (Cauchy–Schwarz; used by the position fix-up of `close`).
  * `noskip_field`: under `WLink`, the two dot products `flattened_step` tests add up to
    `2·|prev_edge|² − prev_edge·(a + b − 2p) ≥ 0`: never both negative, no skip.
  * `joinFw_field`: `compute_join_side_positions_fixed_width` establishes `SLink` — trivially
    (`s = 0`) except for the clipped front side of a `MiterClip` join, where
    `get_clip_intersections` puts the `next` point on the side line at `b + lam·nt`, `lam ≤ 0`
    (`clip_core`, `normal_tau`, `clip_behind`): with `N = ±(perp(nt) + τ·nt)` the miter normal of the
    front side, `lam·(N·nt) = hw·(miter_limit·|N| − 1) > 0` and `N·nt < 0` (the outer miter leans
    backwards along the next edge).
    Hypotheses (`ClipHyp`): `sqrt x ≥ 0`, `sqrt x · sqrt x = x` for `x ≥ 0`; the intersection routine
    is `Line::intersection` with determinant guard `eps ≥ 0` (exact, no f64 round trip);
    `line_width ≥ 0` (for a negative width the picture is point-reflected and the clipped point lies
    ahead); `miter_limit ≥ 1` (for a smaller limit the clip line cuts the side line AHEAD of the join
    and `flattened_step` does skip: observed on the real tessellator); merge threshold `> 0`.
    When the guard fires (`clip_fallback`) the side point stays where it is since /repo fix ede203df
    (before it lyon fell back to the UNSCALED normal and the theorem needed `line_width > 2·eps`).
-/
import LyonVerif.Lemmas.StrokeIdxClipRun
import LyonVerif.Lemmas.StrokeIdxField
import LyonVerif.Props.C05
import Mathlib.Tactic.Linarith
import Mathlib.Tactic.LinearCombination
import Mathlib.Tactic.Positivity
import Mathlib.Tactic.FieldSimp

set_option linter.unusedSectionVars false
set_option linter.unusedVariables false

namespace Lyon.C05c
open Lyon Scalar Lyon.Stroke Lyon.Stroke.Full Lyon.C05 Lyon.C05b
open Lyon.StrokeQuad (Ix clipIntersections lineIntersection lineIxPoint)

/-! ## where the fixed-width join leaves its `next` side points (any scalar type) -/

section
variable {α : Type} [Scalar α] [Transc α]

/-- where `compute_join_side_positions_fixed_width` leaves the two `next` side points: at
`join ± perp(next_tangent)·half_width`, except for the FRONT side of a clipped `MiterClip` join
(no fold, miter limit exceeded), which moves to the clip line -/
theorem joinSidesFw_nexts (ix : Ix α) (prev join next : EP α) (ml vhw : α) :
    let g := fwGeo prev join next ml vhw
    let j := join.position
    let n0 := (perp g.pt).smul vhw
    let n1 := (perp g.nt).smul vhw
    ((joinSidesFw ix prev join next ml vhw).pos.next = j + n1
      ∧ (joinSidesFw ix prev join next ml vhw).neg.next = j - n1)
    ∨ (g.unclipped = false ∧ join.lineJoin = .miterClip ∧
        ((g.frontNeg = true ∧ (joinSidesFw ix prev join next ml vhw).pos.next = j + n1
            ∧ (joinSidesFw ix prev join next ml vhw).neg.next
              = j + (clipIntersections ix ((j - n0) - j) ((j - n1) - j) g.frontNormal (ml * vhw)).2)
        ∨ (g.frontNeg = false ∧ (joinSidesFw ix prev join next ml vhw).neg.next = j - n1
            ∧ (joinSidesFw ix prev join next ml vhw).pos.next
              = j + (clipIntersections ix ((j + n0) - j) ((j + n1) - j) g.frontNormal (ml * vhw)).2))) := by
  intro g j n0 n1
  unfold joinSidesFw frontFix
  simp only []
  by_cases hfold : (fwGeo prev join next ml vhw).fold = true
  · left; simp only [hfold, if_true]; exact ⟨rfl, rfl⟩
  · simp only [hfold]
    by_cases hu : (fwGeo prev join next ml vhw).unclipped = true
    · left
      simp only [hu, if_true]
      split_ifs <;> exact ⟨rfl, rfl⟩
    · have hu' : (fwGeo prev join next ml vhw).unclipped = false := by simpa using hu
      by_cases hlj : (join.lineJoin == Lyon.StrokeQuad.Join.miterClip) = true
      · right
        have hlj' : join.lineJoin = .miterClip := by
          cases h : join.lineJoin <;> simp_all
        refine ⟨hu', hlj', ?_⟩
        by_cases hf : (fwGeo prev join next ml vhw).frontNeg = true
        · left
          simp only [hu, hlj, hf, if_true]
          exact ⟨hf, rfl, rfl⟩
        · right
          have hf' : (fwGeo prev join next ml vhw).frontNeg = false := by simpa using hf
          simp only [hu, hlj, hf, if_true]
          exact ⟨hf', rfl, rfl⟩
      · left
        simp only [hu, hlj]
        split_ifs <;> exact ⟨rfl, rfl⟩

end

/-! ## ordered fields -/

section Field
variable {K : Type} [Field K] [LinearOrder K] [IsStrictOrderedRing K]

/-- strong link -/
def SLink (thr : K) (p a b q : P K) : Prop :=
  ∃ s : K, 0 ≤ s ∧ a.x + b.x - p.x - p.x = -(s * (q.x - p.x)) ∧ a.y + b.y - p.y - p.y = -(s * (q.y - p.y))
    ∧ thr ≤ (q.x - p.x) * (q.x - p.x) + (q.y - p.y) * (q.y - p.y)

/-- weak link -/
def WLink (p a b q : P K) : Prop :=
  (q.x - p.x) * (a.x + b.x - p.x - p.x) + (q.y - p.y) * (a.y + b.y - p.y - p.y) ≤ 0

theorem tooClose_true_iff (thr : K) (a b : P K) :
    pointsAreTooClose thr a b = true ↔ (a.x - b.x) * (a.x - b.x) + (a.y - b.y) * (a.y - b.y) < thr := by
  unfold pointsAreTooClose
  rw [decide_eq_true_iff]
  simp only [geom]

theorem linkLaw_field (thr : K) : LinkLaw thr (SLink thr) WLink where
  weaken := by
    intro p a b q ⟨s, hs, hx, hy, _⟩
    unfold WLink
    rw [hx, hy]
    have e : (q.x - p.x) * -(s * (q.x - p.x)) + (q.y - p.y) * -(s * (q.y - p.y))
        = -(s * ((q.x - p.x) * (q.x - p.x) + (q.y - p.y) * (q.y - p.y))) := by ring
    rw [e]
    have := mul_nonneg hs (add_nonneg (mul_self_nonneg (q.x - p.x)) (mul_self_nonneg (q.y - p.y)))
    linarith
  fix := by
    intro p a b q q' ⟨s, hs, hx, hy, hfar⟩ hclose
    rw [tooClose_true_iff] at hclose
    unfold WLink
    rw [hx, hy]
    -- E = q - p, D = q' - q; E'·E = |E|² + D·E ≥ 0 because |D|² < thr ≤ |E|²
    set ex := q.x - p.x with hex
    set ey := q.y - p.y with hey
    set dx := q'.x - q.x with hdx
    set dy := q'.y - q.y with hdy
    have hD : dx * dx + dy * dy < ex * ex + ey * ey := by
      have : dx * dx + dy * dy = (q.x - q'.x) * (q.x - q'.x) + (q.y - q'.y) * (q.y - q'.y) := by
        simp only [hdx, hdy]; ring
      linarith
    have key : 0 ≤ (ex + dx) * ex + (ey + dy) * ey := by
      by_contra hneg
      have hneg' := not_le.mp hneg
      -- t := -(D·E) > |E|² ≥ 0
      have hE : 0 ≤ ex * ex + ey * ey := add_nonneg (mul_self_nonneg _) (mul_self_nonneg _)
      have ht : ex * ex + ey * ey < -(dx * ex + dy * ey) := by linarith
      have hsq : (ex * ex + ey * ey) * (ex * ex + ey * ey) < (dx * ex + dy * ey) * (dx * ex + dy * ey) := by
        have := mul_self_lt_mul_self hE ht
        have e : -(dx * ex + dy * ey) * -(dx * ex + dy * ey) = (dx * ex + dy * ey) * (dx * ex + dy * ey) := by ring
        rw [e] at this; exact this
      have hcs : (dx * ex + dy * ey) * (dx * ex + dy * ey) ≤ (dx * dx + dy * dy) * (ex * ex + ey * ey) := by
        have e : (dx * dx + dy * dy) * (ex * ex + ey * ey)
            = (dx * ex + dy * ey) * (dx * ex + dy * ey) + (dx * ey - dy * ex) * (dx * ey - dy * ex) := by ring
        rw [e]; linarith [mul_self_nonneg (dx * ey - dy * ex)]
      have hlt : (ex * ex + ey * ey) * (ex * ex + ey * ey) < (dx * dx + dy * dy) * (ex * ex + ey * ey) :=
        lt_of_lt_of_le hsq hcs
      have := lt_of_mul_lt_mul_right hlt hE
      linarith
    have e1 : q'.x - p.x = ex + dx := by simp only [hex, hdx]; ring
    have e2 : q'.y - p.y = ey + dy := by simp only [hey, hdy]; ring
    rw [e1, e2]
    have e : (ex + dx) * -(s * ex) + (ey + dy) * -(s * ey) = -(s * ((ex + dx) * ex + (ey + dy) * ey)) := by ring
    rw [e]
    have := mul_nonneg hs key
    linarith

variable [Transc K]

/-- under the weak link `flattened_step` does not answer "skip": the two dot products it tests add up
to `2·|prev_edge|² − prev_edge·(pos.next + neg.next − 2·position) ≥ 0` -/
theorem noskip_field (prev join next : EP K) (d : VData K) (o : Out K)
    (hW : LK WLink prev join.position) : (flattenedStep prev join next d o).skip = false := by
  obtain ⟨N, _, hs⟩ := flattenedStep_geo prev join next d o
  by_contra hne
  have hsk : (flattenedStep prev join next d o).skip = true := by simpa using hne
  obtain ⟨d0, d1⟩ := hs hsk
  unfold LK WLink at hW
  simp only [geom, Nat.cast_zero] at d0 d1
  have key : (join.position.x - prev.position.x) * (join.position.x + N.x * d.halfWidth - prev.pos.next.x)
      + (join.position.y - prev.position.y) * (join.position.y + N.y * d.halfWidth - prev.pos.next.y)
      + ((join.position.x - prev.position.x) * (join.position.x - N.x * d.halfWidth - prev.neg.next.x)
      + (join.position.y - prev.position.y) * (join.position.y - N.y * d.halfWidth - prev.neg.next.y))
      = 2 * ((join.position.x - prev.position.x) * (join.position.x - prev.position.x)
        + (join.position.y - prev.position.y) * (join.position.y - prev.position.y))
        - ((join.position.x - prev.position.x) * (prev.pos.next.x + prev.neg.next.x - prev.position.x - prev.position.x)
          + (join.position.y - prev.position.y) * (prev.pos.next.y + prev.neg.next.y - prev.position.y - prev.position.y)) := by
    ring
  have := add_nonneg (mul_self_nonneg (join.position.x - prev.position.x)) (mul_self_nonneg (join.position.y - prev.position.y))
  linarith

/-- symmetric side points are linked (with `s = 0`) to every point that is kept apart -/
theorem slink_of_sym (thr : K) (p a b q : P K) (h : Sym p a b)
    (hfar : pointsAreTooClose thr p q = false) : SLink thr p a b q := by
  obtain ⟨hx, hy⟩ := h
  rw [tooClose_false_iff] at hfar
  refine ⟨0, le_refl _, by linear_combination hx, by linear_combination hy, ?_⟩
  have e : (q.x - p.x) * (q.x - p.x) + (q.y - p.y) * (q.y - p.y)
      = (p.x - q.x) * (p.x - q.x) + (p.y - q.y) * (p.y - q.y) := by ring
  rw [e]; exact hfar

theorem first_field (thr : K) (first next : EP K)
    (hfar : pointsAreTooClose thr first.position next.position = false) :
    LK (SLink thr) (firstEdgeSetup first next).1 next.position := by
  apply slink_of_sym _ _ _ _ _ ?_ hfar
  unfold Sym firstEdgeSetup
  simp only [geom]
  constructor <;> ring

theorem flat_field (thr : K) (prev join next : EP K) (d : VData K) (o : Out K)
    (hfar : pointsAreTooClose thr join.position next.position = false) :
    LK (SLink thr) (flattenedStep prev join next d o).join next.position := by
  obtain ⟨N, ⟨h1, h2, h3⟩, _⟩ := flattenedStep_geo prev join next d o
  unfold LK
  rw [h1, h2, h3]
  apply slink_of_sym _ _ _ _ _ ?_ hfar
  unfold Sym
  simp only [geom]
  constructor <;> ring

/-! ## the clipped front side of a `MiterClip` join -/

/-- the point `Line::intersection` computes lies on both lines (as `Lyon.C06.ix_on_both_lines`) -/
theorem ixPoint_on_lines (p1 v1 p2 v2 : P K) (hdet : v1.cross v2 ≠ 0) :
    (lineIxPoint p1 v1 p2 v2 - p1).cross v1 = 0 ∧ (lineIxPoint p1 v1 p2 v2 - p2).cross v2 = 0 := by
  simp only [geom] at hdet
  have hi : 1 / (v1.x * v2.y - v1.y * v2.x) * (v1.x * v2.y - v1.y * v2.x) = 1 := by field_simp
  constructor <;> simp only [lineIxPoint, geom, Nat.cast_one]
  · generalize (1:K) / (v1.x * v2.y - v1.y * v2.x) = i at hi ⊢
    linear_combination (p1.x * v1.y - p1.y * v1.x) * hi
  · generalize (1:K) / (v1.x * v2.y - v1.y * v2.x) = i at hi ⊢
    linear_combination (p2.x * v2.y - p2.y * v2.x) * hi


/-- `get_clip_intersections`, second point: the clip line (through `normalize(N)·k`, orthogonal to
`N`) meets the side line through `b = m·perp(nt)` along the unit vector `nt` at `b + lam·nt` with
`lam·(N·nt) = k·|N| − b·N` -/
theorem clip_core (eps : K) (heps : 0 ≤ eps) (a N nt : P K) (m k : K)
    (hunit : nt.x * nt.x + nt.y * nt.y = 1) (hm : m ≠ 0)
    (hL0 : 0 < Transc.sqrt N.sqLen) (hL : Transc.sqrt N.sqLen * Transc.sqrt N.sqLen = N.sqLen)
    (hdet : eps < |m * (N.x * nt.x + N.y * nt.y)|) :
    ∃ lam : K,
      (clipIntersections (lineIntersection eps) a ⟨-(m * nt.y), m * nt.x⟩ N k).2
        = ⟨-(m * nt.y) + lam * nt.x, m * nt.x + lam * nt.y⟩
      ∧ lam * (N.x * nt.x + N.y * nt.y) = k * Transc.sqrt N.sqLen - m * (-(nt.y) * N.x + nt.x * N.y) := by
  set b : P K := ⟨-(m * nt.y), m * nt.x⟩ with hb
  have hc : (perp N).cross (perp b) = m * (N.x * nt.x + N.y * nt.y) := by
    simp only [perp, hb, geom]; ring
  have hne : (perp N).cross (perp b) ≠ 0 := by
    rw [hc]; intro h; rw [h, abs_zero] at hdet; exact absurd hdet (not_lt.mpr heps)
  have hguard : ¬ Scalar.abs ((perp N).cross (perp b)) ≤ eps := by
    rw [hc]; show ¬ |_| ≤ eps; exact not_le.mpr hdet
  unfold clipIntersections lineIntersection
  simp only []
  rw [if_neg hguard]
  simp only [Option.getD_some]
  obtain ⟨h1, h2⟩ := ixPoint_on_lines ((Stroke.normalize N).smul k) (perp N) b (perp b) hne
  generalize lineIxPoint ((Stroke.normalize N).smul k) (perp N) b (perp b) = X at h1 h2
  set L := Transc.sqrt N.sqLen with hLdef
  have hLne : L ≠ 0 := ne_of_gt hL0
  simp only [perp, Stroke.normalize, hb, geom] at h1 h2
  have hLs : Transc.sqrt (N.x * N.x + N.y * N.y) = L := by rw [hLdef]; simp only [geom]
  rw [hLs] at h1
  have h2' : -(X.x - -(m * nt.y)) * nt.y + (X.y - m * nt.x) * nt.x = 0 := by
    have : m * (-(X.x - -(m * nt.y)) * nt.y + (X.y - m * nt.x) * nt.x) = 0 := by linear_combination h2
    rcases mul_eq_zero.mp this with h | h
    · exact absurd h hm
    · exact h
  have hpx : X.x = -(m * nt.y) + ((X.x - -(m * nt.y)) * nt.x + (X.y - m * nt.x) * nt.y) * nt.x := by
    linear_combination (-(X.x - -(m * nt.y))) * hunit - nt.y * h2'
  have hpy : X.y = m * nt.x + ((X.x - -(m * nt.y)) * nt.x + (X.y - m * nt.x) * nt.y) * nt.y := by
    linear_combination (-(X.y - m * nt.x)) * hunit + nt.x * h2'
  refine ⟨(X.x - -(m * nt.y)) * nt.x + (X.y - m * nt.x) * nt.y, P.ext' hpx hpy, ?_⟩
  have hL' : L * L = N.x * N.x + N.y * N.y := by rw [hL]; simp only [geom]
  have hcp : N.x / L * k * N.x + N.y / L * k * N.y = k * L := by
    field_simp
    linear_combination (-k) * hL'
  generalize (X.x - -(m * nt.y)) * nt.x + (X.y - m * nt.x) * nt.y = lam at hpx hpy ⊢
  have hXN : X.x * N.x + X.y * N.y = k * L := by linear_combination h1 + hcp
  rw [hpx, hpy] at hXN
  linear_combination hXN

/-- `get_clip_intersections`, second point, when `Line::intersection` answers `None` (determinant
within the guard): the side point stays where it is (/repo fix ede203df) -/
theorem clip_fallback (eps : K) (a N nt : P K) (m k : K)
    (hdet : |m * (N.x * nt.x + N.y * nt.y)| ≤ eps) :
    (clipIntersections (lineIntersection eps) a ⟨-(m * nt.y), m * nt.x⟩ N k).2 = ⟨-(m * nt.y), m * nt.x⟩ := by
  have hc : (perp N).cross (perp (⟨-(m * nt.y), m * nt.x⟩ : P K)) = m * (N.x * nt.x + N.y * nt.y) := by
    simp only [perp, geom]; ring
  have hguard : Scalar.abs ((perp N).cross (perp (⟨-(m * nt.y), m * nt.x⟩ : P K))) ≤ eps := by
    rw [hc]; exact hdet
  unfold clipIntersections lineIntersection
  simp only []
  rw [if_pos hguard]
  rfl

/-- `compute_normal` of two unit tangents whose miter exceeds a limit `≥ 1`: the miter normal is
`perp(nt) + τ·nt` with `τ² > 3`, and `τ` has the sign of the turn `pt × nt` (the OUTER miter leans
backwards along the next edge) -/
theorem normal_tau (hs0 : ∀ x : K, 0 ≤ x → 0 ≤ Transc.sqrt x)
    (hs : ∀ x : K, 0 ≤ x → Transc.sqrt x * Transc.sqrt x = x)
    (ml : K) (hml : 1 ≤ ml) (pt nt : P K) (hpt : pt.sqLen = 1) (hnt : nt.sqLen = 1)
    (hex : (computeNormal pt nt).sqLen > ml * ml * 4) :
    ∃ tau : K, computeNormal pt nt = ⟨-nt.y + tau * nt.x, nt.x + tau * nt.y⟩
      ∧ 3 < tau * tau ∧ (computeNormal pt nt).sqLen = 1 + tau * tau
      ∧ (pt.cross nt ≥ 0 → 0 < tau) ∧ (pt.cross nt < 0 → tau < 0) := by
  have hml2 : 4 ≤ ml * ml * 4 := by nlinarith
  have hg : ¬ (pt + nt).sqLen < normalEpsilon := by
    intro h
    rw [compute_normal_opposite pt nt h] at hex
    simp only [geom] at hex
    linarith
  have hnn : (0 : K) ≤ (pt + nt).sqLen := by
    simp only [geom]; exact add_nonneg (mul_self_nonneg _) (mul_self_nonneg _)
  obtain ⟨m1, m2, m3⟩ := compute_normal_miter pt nt hpt hnt hg (hs0 _ hnn) (hs _ hnn)
  generalize computeNormal pt nt = nrm at hex m1 m2 m3 ⊢
  obtain ⟨u, v⟩ := nrm
  obtain ⟨a, b⟩ := pt
  obtain ⟨c, d⟩ := nt
  simp only [perp, geom] at hpt hnt hex m1 m2 m3 ⊢
  have hu : u = -d + (u * c + v * d) * c := by linear_combination (-u) * hnt - d * m2
  have hv : v = c + (u * c + v * d) * d := by linear_combination (-v) * hnt + c * m2
  generalize u * c + v * d = tau at hu hv
  subst hu hv
  have hsq : (-d + tau * c) * (-d + tau * c) + (c + tau * d) * (c + tau * d) = 1 + tau * tau := by
    linear_combination (1 + tau * tau) * hnt
  rw [hsq] at hex m3
  have h3 : 3 < tau * tau := by linarith
  have hchi : tau * (a * d - b * c) = 1 - (a * c + b * d) := by linear_combination m1
  have hpos : 0 < tau * (a * d - b * c) := by
    by_contra hle
    have hle' := not_lt.mp hle
    have hD : 1 ≤ a * c + b * d := by linarith
    nlinarith
  refine ⟨tau, rfl, h3, hsq, ?_, ?_⟩
  · intro hchi0
    by_contra hneg
    have hneg' := not_lt.mp hneg
    have : tau * (a * d - b * c) ≤ 0 := mul_nonpos_of_nonpos_of_nonneg hneg' hchi0
    linarith
  · intro hchi0
    by_contra hneg
    have hneg' := not_lt.mp hneg
    have : tau * (a * d - b * c) ≤ 0 := mul_nonpos_of_nonneg_of_nonpos hneg' (le_of_lt hchi0)
    linarith

/-- the clipped `next` point of the front side of a `MiterClip` join lies BEHIND the unclipped one
along the next edge: `front.next − join = b + lam·nt`, `lam ≤ 0`, where `b = ±perp(nt)·hw` is the
unclipped offset (`sg = −1`: the front side is the negative one, left turn; `sg = 1`: positive) -/
theorem clip_behind (hs0 : ∀ x : K, 0 ≤ x → 0 ≤ Transc.sqrt x)
    (hs : ∀ x : K, 0 ≤ x → Transc.sqrt x * Transc.sqrt x = x)
    (eps hw ml : K) (heps : 0 ≤ eps) (hhw : 0 ≤ hw) (hml : 1 ≤ ml)
    (pt nt : P K) (hpt : pt.sqLen = 1) (hnt : nt.sqLen = 1) (a : P K) (sg : K)
    (hsg : (sg = -1 ∧ pt.cross nt ≥ 0) ∨ (sg = 1 ∧ pt.cross nt < 0))
    (hex : (computeNormal pt nt).sqLen > ml * ml * 4) :
    ∃ lam : K, lam ≤ 0 ∧
      (clipIntersections (lineIntersection eps) a ⟨-(sg * hw * nt.y), sg * hw * nt.x⟩
          ((computeNormal pt nt).smul sg) (ml * hw)).2
        = ⟨-(sg * hw * nt.y) + lam * nt.x, sg * hw * nt.x + lam * nt.y⟩ := by
  obtain ⟨tau, hn, h3, hsq, hp, hq⟩ := normal_tau hs0 hs ml hml pt nt hpt hnt hex
  have hunit : nt.x * nt.x + nt.y * nt.y = 1 := by simpa only [geom] using hnt
  set N : P K := (computeNormal pt nt).smul sg with hN
  by_cases hdet : eps < |sg * hw * (N.x * nt.x + N.y * nt.y)|
  swap
  · -- no intersection: the side point is left alone
    refine ⟨0, le_refl _, ?_⟩
    rw [clip_fallback eps a N nt (sg * hw) (ml * hw) (not_lt.mp hdet)]
    apply P.ext' <;> simp only [geom] <;> ring
  have hhw0 : 0 < hw := by
    rcases eq_or_lt_of_le hhw with h | h
    · exfalso
      rw [← h] at hdet
      simp only [mul_zero, zero_mul, abs_zero] at hdet
      exact absurd hdet (not_lt.mpr heps)
    · exact h
  have hsg2 : sg * sg = 1 := by rcases hsg with ⟨h, _⟩ | ⟨h, _⟩ <;> rw [h] <;> norm_num
  have hsgt : sg * tau < 0 := by
    rcases hsg with ⟨h, hc⟩ | ⟨h, hc⟩
    · rw [h]; have := hp hc; linarith
    · rw [h]; have := hq hc; linarith
  have hm : sg * hw ≠ 0 := by
    intro h
    have : sg * (sg * hw) = 0 := by rw [h]; ring
    have e : sg * (sg * hw) = hw := by linear_combination hw * hsg2
    rw [e] at this; linarith
  have hNx : N.x = (-nt.y + tau * nt.x) * sg := by rw [hN, hn]; rfl
  have hNy : N.y = (nt.x + tau * nt.y) * sg := by rw [hN, hn]; rfl
  have hNsq : N.sqLen = 1 + tau * tau := by
    simp only [geom, hNx, hNy]
    linear_combination (1 + tau * tau) * hsg2 + (sg * sg) * (1 + tau * tau) * hunit
  have hNnn : (0 : K) ≤ N.sqLen := by rw [hNsq]; nlinarith [mul_self_nonneg tau]
  have hL := hs _ hNnn
  have hL0' := hs0 _ hNnn
  have hL0 : 0 < Transc.sqrt N.sqLen := by
    rcases eq_or_lt_of_le hL0' with h | h
    · rw [← h, hNsq] at hL; nlinarith [mul_self_nonneg tau]
    · exact h
  have hrho : N.x * nt.x + N.y * nt.y = sg * tau := by
    rw [hNx, hNy]; linear_combination (sg * tau) * hunit
  obtain ⟨lam, h1, h2⟩ := clip_core eps heps a N nt (sg * hw) (ml * hw) hunit hm hL0 hL hdet
  refine ⟨lam, ?_, h1⟩
  rw [hrho] at h2
  have e2 : sg * hw * (-nt.y * N.x + nt.x * N.y) = hw := by
    rw [hNx, hNy]; linear_combination hw * hsg2 + (sg * sg * hw) * hunit
  rw [e2] at h2
  set L := Transc.sqrt N.sqLen with hLdef
  have hL2 : 2 < L := by
    rw [hNsq] at hL
    by_contra hle
    have hle' := not_lt.mp hle
    nlinarith
  have hposr : 0 < ml * hw * L - hw := by
    have : hw * 1 < hw * (ml * L) := by
      apply mul_lt_mul_of_pos_left _ hhw0
      nlinarith
    linarith
  by_contra hlam
  have hlam' := not_le.mp hlam
  have : lam * (sg * tau) < 0 := mul_neg_of_pos_of_neg hlam' hsgt
  linarith

theorem computeNormal_zero_left (v : P K) : (computeNormal (⟨0, 0⟩ : P K) v).sqLen = 0 := by
  unfold computeNormal computeNormalTail
  simp only []
  have h0 : ∀ n : P K, Scalar.abs (n.dot (perp (⟨0, 0⟩ : P K))) < normalEpsilon := by
    intro n
    rw [normalEpsilon_eq]
    simp only [perp, geom]
    norm_num
  split_ifs with h1 h2
  · simp only [geom, Nat.cast_zero]; ring
  · simp only [perp, geom]; ring
  · exact absurd (h0 _) h2

/-- the hypotheses under which (R1) holds with `LineJoin::MiterClip` and a fixed width: the laws of
`sqrt`, the exact line intersection with lyon's determinant guard `eps`, a non-negative line width,
`miter_limit ≥ 1`, a positive merge threshold -/
structure ClipHyp (e : Env K) (eps : K) : Prop where
  sqrt_nonneg : ∀ x : K, 0 ≤ x → 0 ≤ Transc.sqrt x
  sqrt_sq : ∀ x : K, 0 ≤ x → Transc.sqrt x * Transc.sqrt x = x
  ix_eq : e.ix = lineIntersection eps
  eps_nonneg : 0 ≤ eps
  width : 0 ≤ e.o.lineWidth
  limit : 1 ≤ e.o.miterLimit
  thr_pos : 0 < e.thr

theorem sdiv_unit (hs0 : ∀ x : K, 0 ≤ x → 0 ≤ Transc.sqrt x)
    (hs : ∀ x : K, 0 ≤ x → Transc.sqrt x * Transc.sqrt x = x) (v : P K) (hv : 0 < v.sqLen) :
    0 < len v ∧ (v.sdiv (len v)).sqLen = 1 := by
  have h1 := hs0 _ (le_of_lt hv)
  have h2 := hs _ (le_of_lt hv)
  unfold len
  set l := Transc.sqrt v.sqLen with hl
  have hl0 : 0 < l := by
    rcases eq_or_lt_of_le h1 with h | h
    · rw [← h] at h2; linarith
    · exact h
  refine ⟨hl0, ?_⟩
  have hne : l ≠ 0 := ne_of_gt hl0
  simp only [geom] at h2 ⊢
  field_simp
  linear_combination -h2

theorem joinFw_field {e : Env K} {eps : K} (h : ClipHyp e eps) (prev join next : EP K)
    (hhw : join.halfWidth = e.o.lineWidth * half)
    (hfar : pointsAreTooClose e.thr join.position next.position = false) :
    LK (SLink e.thr) (joinSidesFw e.ix prev join next e.o.miterLimit join.halfWidth) next.position := by
  unfold LK
  rw [(joinSidesFw_upd e.ix prev join next e.o.miterLimit join.halfWidth).pos]
  have hhalf : (half : K) = 1 / 2 := sc_half
  have hw_eps : 0 ≤ join.halfWidth := by rw [hhw, hhalf]; linarith [h.width]
  rcases joinSidesFw_nexts e.ix prev join next e.o.miterLimit join.halfWidth with ⟨h1, h2⟩ | ⟨hu, hlj, hcase⟩
  · rw [h1, h2]
    apply slink_of_sym _ _ _ _ _ ?_ hfar
    unfold Sym
    simp only [geom]
    constructor <;> ring
  · -- the clipped front side
    have hfar' := (tooClose_false_iff _ _ _).mp hfar
    set g := fwGeo prev join next e.o.miterLimit join.halfWidth with hg
    set E : P K := next.position - join.position with hE
    have hEsq : 0 < E.sqLen := by
      have : E.sqLen = (join.position.x - next.position.x) * (join.position.x - next.position.x)
          + (join.position.y - next.position.y) * (join.position.y - next.position.y) := by
        simp only [hE, geom]; ring
      rw [this]; exact lt_of_lt_of_le h.thr_pos hfar'
    obtain ⟨hnl, hnt⟩ := sdiv_unit h.sqrt_nonneg h.sqrt_sq E hEsq
    have egnt : g.nt = E.sdiv (len E) := rfl
    have egnormal : g.normal = computeNormal g.pt g.nt := rfl
    have egfn : g.frontNormal = if g.frontNeg then -g.normal else g.normal := rfl
    have egneg : g.frontNeg = decide (g.pt.cross g.nt ≥ zero) := rfl
    have egun : g.unclipped = ((join.lineJoin == .miter || join.lineJoin == .miterClip)
        && !miterLimitIsExceeded g.frontNormal e.o.miterLimit) := rfl
    have hexc : g.normal.sqLen > e.o.miterLimit * e.o.miterLimit * 4 := by
      rw [egun, hlj] at hu
      have : miterLimitIsExceeded g.frontNormal e.o.miterLimit = true := by
        cases hx : miterLimitIsExceeded g.frontNormal e.o.miterLimit
        · rw [hx] at hu; simp at hu
        · rfl
      unfold miterLimitIsExceeded at this
      rw [decide_eq_true_iff] at this
      have e2 : g.frontNormal.sqLen = g.normal.sqLen := by
        rw [egfn]; split_ifs <;> (simp only [geom]; try ring)
      rw [e2] at this
      simpa only [geom, Nat.cast_ofNat] using this
    -- the previous edge is not degenerate (else the normal is 0 and no limit is exceeded)
    have hml2 : (0 : K) ≤ e.o.miterLimit * e.o.miterLimit * 4 := by nlinarith [h.limit]
    set E0 : P K := join.position - prev.position with hE0
    have egpt : g.pt = E0.sdiv (len E0) := rfl
    have hE0sq : 0 < E0.sqLen := by
      have hnn : (0 : K) ≤ E0.sqLen := by simp only [geom]; exact add_nonneg (mul_self_nonneg _) (mul_self_nonneg _)
      rcases eq_or_lt_of_le hnn with hz | hz
      · exfalso
        have hx : E0.x = 0 := by
          have := hz; simp only [geom] at this
          nlinarith [mul_self_nonneg E0.x, mul_self_nonneg E0.y]
        have hy : E0.y = 0 := by
          have := hz; simp only [geom] at this
          nlinarith [mul_self_nonneg E0.x, mul_self_nonneg E0.y]
        have : g.pt = ⟨0, 0⟩ := by
          rw [egpt]; apply P.ext' <;> simp only [geom, hx, hy, zero_div]
        rw [egnormal, this, computeNormal_zero_left] at hexc
        linarith
      · exact hz
    obtain ⟨_, hpt⟩ := sdiv_unit h.sqrt_nonneg h.sqrt_sq E0 hE0sq
    rw [← egpt] at hpt
    rw [← egnt] at hnt
    rw [egnormal] at hexc
    -- both cases: w = lam·nt
    have key : ∃ lam : K, lam ≤ 0 ∧
        (joinSidesFw e.ix prev join next e.o.miterLimit join.halfWidth).pos.next.x
          + (joinSidesFw e.ix prev join next e.o.miterLimit join.halfWidth).neg.next.x
          - join.position.x - join.position.x = lam * g.nt.x
        ∧ (joinSidesFw e.ix prev join next e.o.miterLimit join.halfWidth).pos.next.y
          + (joinSidesFw e.ix prev join next e.o.miterLimit join.halfWidth).neg.next.y
          - join.position.y - join.position.y = lam * g.nt.y := by
      rcases hcase with ⟨hf, hp, hn⟩ | ⟨hf, hn, hp⟩
      · have hchi : g.pt.cross g.nt ≥ 0 := by
          rw [egneg, decide_eq_true_iff] at hf; simpa only [geom, Nat.cast_zero] using hf
        obtain ⟨lam, hl0, hc⟩ := clip_behind h.sqrt_nonneg h.sqrt_sq eps join.halfWidth e.o.miterLimit
          h.eps_nonneg hw_eps h.limit g.pt g.nt hpt hnt
          ((join.position - (perp g.pt).smul join.halfWidth) - join.position) (-1) (Or.inl ⟨rfl, hchi⟩) hexc
        have eN : g.frontNormal = (computeNormal g.pt g.nt).smul (-1) := by
          rw [egfn, hf, egnormal]; simp only [if_true]
          apply P.ext' <;> simp only [geom] <;> ring
        have eb : (join.position - (perp g.nt).smul join.halfWidth) - join.position
            = ⟨-(-1 * join.halfWidth * g.nt.y), -1 * join.halfWidth * g.nt.x⟩ := by
          apply P.ext' <;> simp only [perp, geom] <;> ring
        rw [hp, hn, h.ix_eq, eN, eb, hc]
        refine ⟨lam, hl0, ?_, ?_⟩ <;> simp only [perp, geom] <;> ring
      · have hchi : g.pt.cross g.nt < 0 := by
          rw [egneg, decide_eq_false_iff_not] at hf
          have := not_le.mp hf; simpa only [geom, Nat.cast_zero] using this
        obtain ⟨lam, hl0, hc⟩ := clip_behind h.sqrt_nonneg h.sqrt_sq eps join.halfWidth e.o.miterLimit
          h.eps_nonneg hw_eps h.limit g.pt g.nt hpt hnt
          ((join.position + (perp g.pt).smul join.halfWidth) - join.position) 1 (Or.inr ⟨rfl, hchi⟩) hexc
        have eN : g.frontNormal = (computeNormal g.pt g.nt).smul 1 := by
          rw [egfn, hf, egnormal]; simp only [Bool.false_eq_true, if_false]
          apply P.ext' <;> simp only [geom] <;> ring
        have eb : (join.position + (perp g.nt).smul join.halfWidth) - join.position
            = ⟨-(1 * join.halfWidth * g.nt.y), 1 * join.halfWidth * g.nt.x⟩ := by
          apply P.ext' <;> simp only [perp, geom] <;> ring
        rw [hp, hn, h.ix_eq, eN, eb, hc]
        refine ⟨lam, hl0, ?_, ?_⟩ <;> simp only [perp, geom] <;> ring
    obtain ⟨lam, hl0, kx, ky⟩ := key
    have hne : len E ≠ 0 := ne_of_gt hnl
    refine ⟨-lam / len E, ?_, ?_, ?_, ?_⟩
    · exact div_nonneg (by linarith) (le_of_lt hnl)
    · rw [kx, egnt]
      simp only [hE, geom]
      field_simp
    · rw [ky, egnt]
      simp only [hE, geom]
      field_simp
    · have : (next.position.x - join.position.x) * (next.position.x - join.position.x)
          + (next.position.y - join.position.y) * (next.position.y - join.position.y)
          = (join.position.x - next.position.x) * (join.position.x - next.position.x)
          + (join.position.y - next.position.y) * (join.position.y - next.position.y) := by ring
      rw [this]; exact hfar'

/-! ## the instance of `LinkReg` -/

variable [Asin K] [FlatConst K]

/-- **(R1) with `LineJoin::MiterClip`** (and every other join), fixed width, over an ordered field
under `ClipHyp`: the arithmetic facts of the linked window invariant -/
theorem linkReg_field {e : Env K} {eps : K} (h : ClipHyp e eps) (store : Nat → List K) (ids : List Nat)
    (hfw : e.o.varWidth = false) :
    LinkReg e (stdCls e store ids (fun _ _ => True) (fun _ _ h => h)) (SLink e.thr) WLink where
  law := linkLaw_field e.thr
  first := first_field e.thr
  joinFw := fun prev join next hF hfar => joinFw_field h prev join next (hF.1.2.1 hfw) hfar
  flat := flat_field e.thr
  noskip := fun prev join next d o hW _ => noskip_field prev join next d o hW

end Field

end Lyon.C05c
