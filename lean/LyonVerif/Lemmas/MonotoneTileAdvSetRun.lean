/-
  C02 growth 4 (`Props/C02g.lean`), part 5: every state the advanced monotone tessellator reaches
  on a valid sweep sequence has both buffered chains sorted, locally convex (`CInv`), made of
  consecutive vertices of their side (`SideChain`) and chord-clear (`adv_state_facts`); in general
  position the chains are strictly convex, so `flush_side` applied to either of them tiles its chain
  polygon (`adv_state_fan_tiles`).
-/
import LyonVerif.Lemmas.MonotoneTileAdvSetChain

set_option linter.unusedSectionVars false
set_option linter.unusedVariables false
set_option linter.unusedSimpArgs false

namespace Lyon.C02f
open Lyon Lyon.Mono Lyon.C02 Lyon.C02c

section Geometry
variable {K : Type} [Field K] [LinearOrder K] [IsStrictOrderedRing K]

variable (seq : List (P K × Bool))

/-- the state after `i` middle vertices -/
noncomputable def advState (i : Nat) : Adv K := afeed (Adv.begin Adv.new (posOf seq 0) 0) 1 ((midsOf seq).take i)

theorem adv_state_facts (hval : SweepValid seq) (h2 : 2 ≤ seq.length) (i : Nat) :
    ZA seq (1 + ((midsOf seq).take i).length) (advState seq i) ∧
    CInv (posOf seq) true (advState seq i).left ∧ CInv (posOf seq) false (advState seq i).right ∧
    1 + ((midsOf seq).take i).length + 1 ≤ seq.length := by
  have hlen : ((midsOf seq).take i).length ≤ seq.length - 2 := by
    simp only [midsOf, List.length_take, List.length_tail]
    omega
  have hvs : ∀ j (hj : j < ((midsOf seq).take i).length), seq[1 + j]? = some ((midsOf seq).take i)[j] := by
    intro j hj
    simp only [midsOf, List.length_take, List.length_tail] at hj
    simp only [midsOf, List.getElem_take, List.getElem_tail]
    have hj' : j + 1 < seq.length := by omega
    rw [show 1 + j = j + 1 by omega]
    exact List.getElem?_eq_getElem hj'
  have hz := afeed_z seq hval ((midsOf seq).take i) (Adv.begin Adv.new (posOf seq 0) 0) 1 hvs (by omega)
    (begin_z seq _ rfl)
  have hn := afeed_n (posOf seq) ((midsOf seq).take i) (Adv.begin Adv.new (posOf seq 0) 0) 1
    (by intro j hj; simp only [posOf, hvs j hj])
    (by intro a b hb ha; exact valid_after hval hb (by omega))
    (begin_n _ Adv.new (posOf seq 0) rfl)
  exact ⟨hz, hn.1.2.1, hn.1.2.2, by omega⟩

/-- general position of the sequence gives general position of every chain of its ids -/
theorem chainGeneral_of (hnc : NoCollinear seq) {l : Bool} {k : Nat} {s : SideEv K} (h : SideChain seq l k s)
    (hk : k ≤ seq.length) : ChainGeneral (posOf seq) s.events := by
  intro a b d hab hbd hd
  have hget : ∀ i, i < s.events.length → s.events.getD i 0 ∈ s.events ∧
      ∀ j, i < j → j < s.events.length → s.events.getD i 0 < s.events.getD j 0 := by
    intro i hi
    have e : s.events.getD i 0 = s.events[i] := by simp [List.getD_eq_getElem?_getD, hi]
    refine ⟨by rw [e]; exact List.getElem_mem hi, ?_⟩
    intro j hij hj
    have e' : s.events.getD j 0 = s.events[j] := by simp [List.getD_eq_getElem?_getD, hj]
    rw [e, e']
    exact (List.pairwise_iff_getElem.mp h.inc) i j hi hj hij
  obtain ⟨ma, la⟩ := hget a (by omega)
  obtain ⟨mb, lb⟩ := hget b (by omega)
  obtain ⟨md, _⟩ := hget d hd
  have h1 := la b hab (by omega)
  have h2 := lb d hbd hd
  simp only [evPos]
  exact hnc _ (by have := h.lt _ ma; omega) _ (by have := h.lt _ mb; omega) _ (by have := h.lt _ md; omega)
    (by omega) (by omega) (by omega)

/-- **in every reached state `flush_side` would tile the chain polygon of either side** -/
theorem adv_state_fan_tiles (hval : SweepValid seq) (hnc : NoCollinear seq) (h2 : 2 ≤ seq.length) (i : Nat)
    (l : Bool) (s : SideEv K) (hs : s = (if l then (advState seq i).left else (advState seq i).right)) :
    Tiles (InPoly l ((List.range s.events.length).map (evPos (posOf seq) s.events))
        [evPos (posOf seq) s.events 0, evPos (posOf seq) s.events (s.events.length - 1)])
      (TriIn (posOf seq)) (TriInC (posOf seq))
      (flushLevels s.events.toArray s.events.length (!l) (s.events.length + 1) 1) (fun _ => False) := by
  obtain ⟨hz, hcl, hcr, hk⟩ := adv_state_facts seq hval h2 i
  cases l
  · simp only [Bool.false_eq_true, if_false] at hs
    subst hs
    exact flush_side_fan_tiles hcr (chainGeneral_of seq hnc hz.cb (by omega))
  · simp only [if_true] at hs
    subst hs
    exact flush_side_fan_tiles hcl (chainGeneral_of seq hnc hz.ca (by omega))

end Geometry

end Lyon.C02f
