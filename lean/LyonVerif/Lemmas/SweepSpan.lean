/-
  The sweep invariant `ActiveSpan` (ordered fields): every active edge spans the current vertex in y
  (`from.y ≤ cur.y ≤ to.y`; merge vertices exempt), every pending edge ends at or below it - and what it
  buys: under it the two split branches of the sweep (`split_edge`, coverage bit 5; the split of
  `merge_coincident_edges`, bit 7) compute parameters in `[0,1]`, so they keep every stored parameter
  in `[0,1]` (`UInv`).  Hoare triples on the model's step functions, success and failure.
-/
import LyonVerif.Lemmas.SweepPosSplit

set_option linter.unusedSectionVars false
set_option linter.unusedVariables false
set_option linter.unusedSimpArgs false
set_option mvcgen.warning false

namespace Lyon.SweepSpan
open Lyon Lyon.Scalar Lyon.Sweep Lyon.EQ Lyon.SweepPos
open Std.Do

section field
variable {K : Type} [Field K] [LinearOrder K] [IsStrictOrderedRing K]

/-! ### pure facts -/

theorem cmp_gt_y {a b : P K} (h : comparePositions a b = .gt) : b.y ≤ a.y := by
  unfold comparePositions at h
  split at h
  · rename_i h1; exact le_of_lt h1
  · split at h
    · cases h
    · rename_i h1 h2; exact le_of_not_gt h2

theorem cmp_lt_y {a b : P K} (h : comparePositions a b = .lt) : a.y ≤ b.y := by
  unfold comparePositions at h
  split at h
  · cases h
  · split at h
    · rename_i h1 h2; exact le_of_lt h2
    · rename_i h1 h2; exact le_of_not_gt h1

/-- a parameter in `[0,1]` -/
def U (t : K) : Prop := 0 ≤ t ∧ t ≤ 1

theorem U_zero : U (Scalar.zero : K) := by rw [C07.zero_K]; exact ⟨le_refl _, zero_le_one⟩

/-- the repaired `split_edge` parameter for an edge that spans the vertex in y: NO non-degeneracy needed -/
theorem splitAt_unit (a b c : P K) (hya : a.y ≤ c.y) (hyb : c.y ≤ b.y) : U (Sources.splitTAtVertex a b c) := by
  by_cases hne : a = b
  · subst hne
    rw [splitTAtVertex_def, if_neg (by simp)]
    unfold Sources.solveTForY
    rw [if_pos (by rw [C07.zero_K]; exact (sc_beq _ _).mpr (sub_self _))]
    exact U_zero
  · exact splitTAtVertex_unit a b c hne hya hyb

/-- the guarded split parameter of `merge_coincident_edges`: NO non-degeneracy needed -/
theorem merge_unit (cur long short : P K) (hg : endsWithin (long - cur) (short - cur)) (hy0 : cur.y ≤ short.y)
    (hy1 : short.y ≤ long.y) : U (Sources.splitT cur long short) := by
  by_cases hne : cur = long
  · subst hne
    unfold Sources.splitT
    rw [if_neg (by simp)]
    unfold Sources.solveTForY
    rw [if_pos (by rw [C07.zero_K]; exact (sc_beq _ _).mpr (sub_self _))]
    exact U_zero
  · exact merge_guard_unit cur long short hne hg hy0 hy1

theorem remap_U {t s e : K} (ht : U t) (hs : U s) (he : U e) : U (Sources.remapT t s e) :=
  C07b.split_records_range 0 1 t s e ht hs he

/-! ### the invariants -/

variable [w : Wide K]

/-- one active edge spans the vertex `cur` in y (merge vertices exempt) -/
def SpanA (cur : P K) (e : ActiveEdge K) : Prop := e.isMerge = false → e.from_.y ≤ cur.y ∧ cur.y ≤ e.to.y

/-- **`ActiveSpan`**: every active edge starts at or above the current vertex and ends at or below it,
every pending edge ends at or below it -/
def ASpan (s : St K) : Prop :=
  (∀ e ∈ s.active, SpanA s.curPos e) ∧ (∀ b ∈ s.below, s.curPos.y ≤ b.to.y)

/-- every record listed with an emitted vertex has its parameters in `[0,1]` -/
def OutU (out : Array (Emit K)) : Prop :=
  ∀ pos recs, Emit.vertex pos recs ∈ out → ∀ r ∈ recs, U r.2.t0 ∧ U r.2.t1

/-- every stored parameter is in `[0,1]`: the records of the queue, the active and the pending edges, the
records already emitted -/
def UInv (s : St K) : Prop :=
  (∀ d ∈ s.q.edgeData, U d.t0 ∧ U d.t1) ∧ (∀ e ∈ s.active, U e.rangeEnd) ∧ (∀ b ∈ s.below, U b.rangeEnd) ∧ OutU s.out

def Inv (s : St K) : Prop := ASpan s ∧ UInv s

theorem ed_U {q : Queue K} (h : ∀ d ∈ q.edgeData, U d.t0 ∧ U d.t1) (i : Nat) : U (q.ed i).t0 ∧ U (q.ed i).t1 := by
  unfold Queue.ed Array.getD
  split
  · exact h _ (Array.getElem_mem _)
  · exact ⟨U_zero, U_zero⟩

abbrev keeps {β : Type} : PostCond β (.except Fail (.arg (St K) .pure)) :=
  post⟨fun _ s => ⌜Inv s⌝, fun _ s => ⌜Inv s⌝⟩

open Lyon.SweepRep in
/-- **`split_edge` under `ActiveSpan`**: the parameter is in `[0,1]`, so every stored parameter stays in
`[0,1]`; the upper part ends at the vertex, the lower part is pending from it -/
theorem splitEdge_inv (ei : Nat) :
    ⦃fun s => ⌜Inv s ∧ ∀ e, s.active[ei]? = some e → e.isMerge = false⌝⦄ (splitEdge ei : SM K Unit) ⦃keeps⦄ := by
  unfold splitEdge
  mvcgen
  · rename_i s h hlt _ _ _ _ _ _ _
    obtain ⟨⟨⟨ha, hb⟩, hq, hua, hub, ho⟩, hm⟩ := h
    have hmem : s.active[ei] ∈ s.active := Array.getElem_mem hlt
    have hsp := ha _ hmem (hm _ (by simp [hlt]))
    refine ⟨⟨?_, ?_⟩, ?_, ?_, ?_, ho⟩
    · exact all_set ha ei _ (fun _ => ⟨hsp.1, le_refl _⟩)
    · exact all_push hb _ hsp.2
    · show ∀ d ∈ (s.q.edgeData.push _), _
      refine all_push hq _ ⟨?_, (ed_U hq _).2⟩
      exact remap_U (splitAt_unit _ _ _ hsp.1 hsp.2) (ed_U hq _).1 (hua _ hmem)
    · exact all_set hua ei _ (show U s.active[ei].rangeEnd from hua _ hmem)
    · exact all_push hub _ (hua _ hmem)
  · exact (by assumption : Inv _ ∧ _).1

theorem insertIntoSortedList_edgeData (q : Queue K) (idx : Nat) (p : P K) (after : Nat) :
    (q.insertIntoSortedList idx p after).edgeData = q.edgeData := by
  unfold Queue.insertIntoSortedList
  split <;> rfl

theorem insertSorted_edgeData (q : Queue K) (p : P K) (d : EdgeData K) (after : Nat) :
    (q.insertSorted p d after).1.edgeData = q.edgeData.push d := by
  unfold Queue.insertSorted
  rw [insertIntoSortedList_edgeData]
  rfl

/-- the guard of the repaired `handle_coincident_edges_below` for the pair `below[aIdx], below[bIdx]` -/
def Guard (s : St K) (aIdx bIdx : Nat) : Prop :=
  ∀ a b, s.below[aIdx]? = some a → s.below[bIdx]? = some b →
    (comparePositions a.to b.to = .gt → endsWithin (a.to - s.curPos) (b.to - s.curPos)) ∧
    (comparePositions a.to b.to = .lt → endsWithin (b.to - s.curPos) (a.to - s.curPos))

open Lyon.SweepRep in
/-- **`merge_coincident_edges` under `ActiveSpan` and the guard**: the split parameter is in `[0,1]` -/
theorem mergeCoincidentEdges_inv (aIdx bIdx : Nat) (hab : aIdx < bIdx) :
    ⦃fun s => ⌜Inv s ∧ Guard s aIdx bIdx⌝⦄ (mergeCoincidentEdges aIdx bIdx : SM K Unit) ⦃keeps⦄ := by
  unfold mergeCoincidentEdges
  mvcgen
  case vc3 => exact (by assumption : Inv _ ∧ _).1
  case vc1 =>
    rename_i s h a b hb' ha' c lowerIdx upperIdx split lower upper below1 sp below hs
    obtain ⟨⟨⟨hA, hB⟩, hq, hua, hub, ho⟩, hg⟩ := h
    have hma : a ∈ s.below := Array.mem_of_getElem? ha'
    have hmb : b ∈ s.below := Array.mem_of_getElem? hb'
    have hup : upper = a ∨ upper = b := by
      show (if (upperIdx == aIdx) = true then a else b) = a ∨ (if (upperIdx == aIdx) = true then a else b) = b
      split <;> simp
    have hupm : upper ∈ s.below := by rcases hup with e | e <;> rw [e] <;> assumption
    refine ⟨⟨hA, ?_⟩, hq, hua, ?_, ho⟩
    · exact all_erase (all_set hB upperIdx { upper with winding := upper.winding + lower.winding } (show s.curPos.y ≤ upper.to.y from hB _ hupm)) lowerIdx
    · exact all_erase (all_set hub upperIdx { upper with winding := upper.winding + lower.winding } (show U upper.rangeEnd from hub _ hupm)) lowerIdx

  case vc2 =>
    rename_i s h a b hb' ha' c lowerIdx upperIdx split lower upper below1 sp below hs src t tR d
    obtain ⟨⟨⟨hA, hB⟩, hq, hua, hub, ho⟩, hg⟩ := h
    have hma : a ∈ s.below := Array.mem_of_getElem? ha'
    have hmb : b ∈ s.below := Array.mem_of_getElem? hb'
    have hne : (bIdx == aIdx) = false := by simp; omega
    have hcases : (lower = a ∧ upper = b ∧ comparePositions a.to b.to = .gt) ∨
        (lower = b ∧ upper = a ∧ comparePositions a.to b.to = .lt) := by
      cases hc : comparePositions a.to b.to
      · right; simp +zetaDelta [hc, hne]
      · exfalso; simp +zetaDelta [hc] at hs
      · left; simp +zetaDelta [hc, hne]
    have hlm : lower ∈ s.below := by rcases hcases with e | e <;> rw [e.1] <;> assumption
    have hupm : upper ∈ s.below := by rcases hcases with e | e <;> rw [e.2.1] <;> assumption
    have ht : U t := by
      show U (Sources.splitT s.curPos lower.to upper.to)
      rcases hcases with ⟨e1, e2, e3⟩ | ⟨e1, e2, e3⟩
      · rw [e1, e2]
        exact merge_unit _ _ _ ((hg a b ha' hb').1 e3) (hB _ hmb) (cmp_gt_y e3)
      · rw [e1, e2]
        exact merge_unit _ _ _ ((hg a b ha' hb').2 e3) (hB _ hma) (cmp_lt_y e3)
    refine ⟨⟨hA, ?_⟩, ?_, hua, ?_, ho⟩
    · exact all_erase (all_set hB upperIdx { upper with winding := upper.winding + lower.winding } (show s.curPos.y ≤ upper.to.y from hB _ hupm)) lowerIdx
    · show ∀ d' ∈ (s.q.insertSorted sp d s.curEvent).1.edgeData, _
      rw [insertSorted_edgeData]
      exact all_push hq _ ⟨remap_U ht (ed_U hq _).1 (hub _ hlm), hub _ hlm⟩
    · exact all_erase (all_set hub upperIdx { upper with winding := upper.winding + lower.winding } (show U upper.rangeEnd from hub _ hupm)) lowerIdx

/-- **`handle_coincident_edges_below` under `ActiveSpan`**: the guard it computes is the one the merge needs -/
theorem handleCoincidentEdgesBelow_inv :
    ⦃fun s => ⌜Inv s⌝⦄ (handleCoincidentEdgesBelow : SM K Unit) ⦃keeps⦄ := by
  unfold handleCoincidentEdgesBelow
  have h1 := fun (a b : Nat) (hab : a < b) => mergeCoincidentEdges_inv (K := K) a b hab
  mvcgen [h1] invariants
  · post⟨fun _ s => ⌜Inv s⌝, fun _ s => ⌜Inv s⌝⟩
  with skip
  case vc2 => omega
  case vc3 =>
    rename_i s hI a b hb' ha' aS bS close gt shortTo longTo v endsClose sv ew hc
    refine ⟨hI, ?_⟩
    intro a2 b2 ha2 hb2
    have ea : a2 = a := by rw [ha'] at ha2; exact (Option.some.inj ha2).symm
    have eb : b2 = b := by rw [hb'] at hb2; exact (Option.some.inj hb2).symm
    subst ea eb
    have hew : ew = true := by
      simp only [Bool.and_eq_true] at hc
      exact hc.2
    have hmod := (endsWithin_iff_model v sv).mp hew
    constructor
    · intro hgt
      have : gt = true := by simp +zetaDelta [hgt]
      simpa +zetaDelta [this] using hmod
    · intro hlt
      have : gt = false := by simp +zetaDelta [hlt]
      simpa +zetaDelta [this] using hmod

/-! ### functions that do not touch the edges -/

theorem Inv.frame {s s' : St K} (h : Inv s) (h1 : s'.q.edgeData = s.q.edgeData) (h2 : s'.active = s.active)
    (h3 : s'.below = s.below) (h4 : s'.curPos = s.curPos) (h5 : s'.out = s.out) : Inv s' := by
  obtain ⟨⟨ha, hb⟩, hq, hua, hub, ho⟩ := h
  exact ⟨⟨by rw [h2, h4]; exact ha, by rw [h3, h4]; exact hb⟩, by rw [h1]; exact hq, by rw [h2]; exact hua,
    by rw [h3]; exact hub, by rw [h5]; exact ho⟩

theorem mark_inv (b : Nat) : ⦃fun s => ⌜Inv s⌝⦄ (mark b : SM K Unit) ⦃keeps⦄ := by
  unfold mark
  mvcgen

theorem OutU.tris {out : Array (Emit K)} (h : OutU out) (tris : List Mono.Tri) :
    OutU (tris.foldl (fun o t => o.push (.tri t.1 t.2.1 t.2.2)) out) :=
  fun pos recs hm => h pos recs (SweepRep.tris_vertex_mem tris hm)

theorem emitTris_inv (tris : List Mono.Tri) : ⦃fun s => ⌜Inv s⌝⦄ (emitTris tris : SM K Unit) ⦃keeps⦄ := by
  unfold emitTris
  mvcgen
  have h := ‹Inv _›
  obtain ⟨hs, hq, hua, hub, ho⟩ := h
  exact ⟨hs, hq, hua, hub, ho.tris tris⟩

theorem spanVertex_inv (i : Int) (pos : P K) (id : Nat) (l : Bool) :
    ⦃fun s => ⌜Inv s⌝⦄ (spanVertex i pos id l : SM K Unit) ⦃keeps⦄ := by
  unfold spanVertex
  mvcgen

theorem beginSpan_inv (i : Int) (pos : P K) (id : Nat) :
    ⦃fun s => ⌜Inv s⌝⦄ (beginSpan i pos id : SM K Unit) ⦃keeps⦄ := by
  unfold beginSpan
  mvcgen

theorem endSpan_inv (i : Int) (pos : P K) (id : Nat) :
    ⦃fun s => ⌜Inv s⌝⦄ (endSpan i pos id : SM K Unit) ⦃keeps⦄ := by
  unfold endSpan
  have h1 := emitTris_inv (K := K)
  mvcgen [h1]

open Lyon.SweepRep in
theorem sortEdgesBelow_inv : ⦃fun s => ⌜Inv s⌝⦄ (sortEdgesBelow : SM K Unit) ⦃keeps⦄ := by
  unfold sortEdgesBelow
  mvcgen
  · rename_i s h _ _ _ _
    obtain ⟨⟨ha, hb⟩, hq, hua, hub, ho⟩ := h
    exact ⟨⟨ha, all_insertionSort hb _⟩, hq, hua, all_insertionSort hub _, ho⟩

/-! ### `process_edges_above` -/

/-- the edges at the indices `L` are no merge vertices (true of `scan.edges_to_split`: the scan skips
merge vertices before it tests an edge) -/
def NM (s : St K) (L : Array Nat) : Prop := ∀ ei ∈ L, ∀ e, s.active[ei]? = some e → e.isMerge = false

def InvN (L : Array Nat) (s : St K) : Prop := Inv s ∧ NM s L

abbrev keepsN {β : Type} (L : Array Nat) : PostCond β (.except Fail (.arg (St K) .pure)) :=
  post⟨fun _ s => ⌜InvN L s⌝, fun _ s => ⌜Inv s⌝⟩

theorem spanVertex_invN (L : Array Nat) (i : Int) (pos : P K) (id : Nat) (l : Bool) :
    ⦃fun s => ⌜InvN L s⌝⦄ (spanVertex i pos id l : SM K Unit) ⦃keepsN L⦄ := by
  unfold spanVertex
  mvcgen
  all_goals exact (by assumption : InvN L _).1

theorem emitTris_invN (L : Array Nat) (tris : List Mono.Tri) :
    ⦃fun s => ⌜InvN L s⌝⦄ (emitTris tris : SM K Unit) ⦃keepsN L⦄ := by
  unfold emitTris
  mvcgen
  have h := ‹InvN L _›
  obtain ⟨⟨hs, hq, hua, hub, ho⟩, hn⟩ := h
  exact ⟨⟨hs, hq, hua, hub, ho.tris tris⟩, hn⟩

theorem endSpan_invN (L : Array Nat) (i : Int) (pos : P K) (id : Nat) :
    ⦃fun s => ⌜InvN L s⌝⦄ (endSpan i pos id : SM K Unit) ⦃keepsN L⦄ := by
  unfold endSpan
  have h1 := emitTris_invN (K := K) L
  mvcgen [h1]
  all_goals exact (by assumption : InvN L _).1

open Lyon.SweepRep in
theorem splitEdge_invN (L : Array Nat) (ei : Nat) (hei : ei ∈ L) :
    ⦃fun s => ⌜InvN L s⌝⦄ (splitEdge ei : SM K Unit) ⦃keepsN L⦄ := by
  unfold splitEdge
  mvcgen
  · rename_i s h hlt _ _ _ _ _ _ _
    obtain ⟨⟨⟨ha, hb⟩, hq, hua, hub, ho⟩, hm⟩ := h
    have hmem : s.active[ei] ∈ s.active := Array.getElem_mem hlt
    have hnm : s.active[ei].isMerge = false := hm ei hei _ (by simp [hlt])
    have hsp := ha _ hmem hnm
    refine ⟨⟨⟨?_, ?_⟩, ?_, ?_, ?_, ho⟩, ?_⟩
    · exact all_set ha ei _ (fun _ => ⟨hsp.1, le_refl _⟩)
    · exact all_push hb _ hsp.2
    · show ∀ d ∈ (s.q.edgeData.push _), _
      refine all_push hq _ ⟨?_, (ed_U hq _).2⟩
      exact remap_U (splitAt_unit _ _ _ hsp.1 hsp.2) (ed_U hq _).1 (hua _ hmem)
    · exact all_set hua ei _ (show U s.active[ei].rangeEnd from hua _ hmem)
    · exact all_push hub _ (hua _ hmem)
    · intro k hk e' he'
      have he2 : (s.active.setIfInBounds ei { s.active[ei] with «to» := s.curPos })[k]? = some e' := he'
      rw [Array.getElem?_setIfInBounds] at he2
      split at he2
      · cases he2; exact hnm
      · exact hm k hk e' he2
  · exact (by assumption : InvN L _).1

open Lyon.SweepRep in
/-- **`process_edges_above` keeps `ActiveSpan` and the parameter range** (the edges to split are no merge vertices) -/
theorem processEdgesAbove_inv (scan : Scan) :
    ⦃fun s => ⌜InvN scan.edgesToSplit s⌝⦄ (processEdgesAbove scan : SM K Scan) ⦃keeps⦄ := by
  unfold processEdgesAbove
  have h1 := spanVertex_invN (K := K) scan.edgesToSplit
  have h2 := endSpan_invN (K := K) scan.edgesToSplit
  have h3 := fun ei hei => splitEdge_invN (K := K) scan.edgesToSplit ei hei
  mvcgen [h1, h2, h3] invariants
  · post⟨fun _ s => ⌜InvN scan.edgesToSplit s⌝, fun _ s => ⌜Inv s⌝⟩
  · post⟨fun _ s => ⌜InvN scan.edgesToSplit s⌝, fun _ s => ⌜Inv s⌝⟩
  · post⟨fun _ s => ⌜InvN scan.edgesToSplit s⌝, fun _ s => ⌜Inv s⌝⟩
  with skip
  case vc9 =>
    rename_i hsp _ _ _
    exact Array.mem_toList_iff.mp (by rw [hsp]; simp)
  case vc14 =>
    rename_i s h hlt e e'
    obtain ⟨⟨⟨ha, hb⟩, hq, hua, hub, ho⟩, _⟩ := h
    have hmem : s.active[scan.aboveStart] ∈ s.active := Array.getElem_mem hlt
    refine ⟨⟨all_set ha _ _ (fun hm => by cases hm), hb⟩, hq, all_set hua _ _ (show U s.active[scan.aboveStart].rangeEnd from hua _ hmem), hub, ho⟩
  case vc15 => exact (by assumption : InvN _ _).1
  case vc16 => exact (by assumption : InvN _ _).1

/-! ### `process_edges_below` -/

theorem splitEvent_inv (leftEdge : Nat) (leftSpan : Int) :
    ⦃fun s => ⌜Inv s⌝⦄ (splitEvent leftEdge leftSpan : SM K Unit) ⦃keeps⦄ := by
  unfold splitEvent
  have h1 := spanVertex_inv (K := K)
  have h2 := beginSpan_inv (K := K)
  mvcgen [h1, h2]

theorem processEdgesBelow_inv (scan : Scan) :
    ⦃fun s => ⌜Inv s⌝⦄ (processEdgesBelow scan : SM K Unit) ⦃keeps⦄ := by
  unfold processEdgesBelow
  have h1 := sortEdgesBelow_inv (K := K)
  have h2 := handleCoincidentEdgesBelow_inv (K := K)
  have h3 := splitEvent_inv (K := K)
  have h4 := beginSpan_inv (K := K)
  mvcgen [h1, h2, h3, h4] invariants
  · post⟨fun _ s => ⌜Inv s⌝, fun _ s => ⌜Inv s⌝⟩
  · post⟨fun _ s => ⌜Inv s⌝, fun _ s => ⌜Inv s⌝⟩

/-! ### `process_intersection`: pure comparisons of stored coordinates -/

theorem isAfter_y {a b : P K} (h : Mono.isAfter a b = true) : b.y ≤ a.y := by
  unfold Mono.isAfter at h
  simp only [Bool.or_eq_true, Bool.and_eq_true, decide_eq_true_eq] at h
  rcases h with h | h
  · exact le_of_lt h
  · exact le_of_eq ((sc_beq _ _).mp h.1).symm

theorem beq_y {a b : P K} (h : (a == b) = true) : a.y = b.y := by
  have h' : (a.x == b.x && a.y == b.y) = true := h
  simp only [Bool.and_eq_true] at h'
  exact (sc_beq _ _).mp h'.2

/-- every record of the queue has its parameters in `[0,1]` -/
def QU (q : Queue K) : Prop := ∀ d ∈ q.edgeData, U d.t0 ∧ U d.t1

open Lyon.SweepRep in
theorem QU.insertSorted {q : Queue K} (h : QU q) (p : P K) {d : EdgeData K} (hd : U d.t0 ∧ U d.t1) (after : Nat) :
    QU (q.insertSorted p d after).1 := by
  unfold QU; rw [insertSorted_edgeData]; exact all_push h _ hd

open Lyon.SweepRep in
theorem QU.insertSibling {q : Queue K} (h : QU q) (sib : Nat) (p : P K) {d : EdgeData K} (hd : U d.t0 ∧ U d.t1) :
    QU (q.insertSibling sib p d) := by
  unfold QU Queue.insertSibling; exact all_push h _ hd

open Lyon.SweepRep in
theorem QU.vertexEvent {q : Queue K} (h : QU q) (p : P K) {t : K} (ht : U t) (f g after : Nat) :
    QU (q.vertexEventOnEdgeSorted p t f g after) := by
  unfold QU Queue.vertexEventOnEdgeSorted
  rw [insertIntoSortedList_edgeData]
  exact all_push h _ ⟨ht, ht⟩

theorem QU.modifyT0 {q : Queue K} (h : QU q) (i : Nat) {r : K} (hr : U r) :
    QU { q with edgeData := q.edgeData.modify i (fun d => { d with t0 := r }) } := by
  intro d hd
  have hd' : d ∈ q.edgeData.modify i (fun d => { d with t0 := r }) := hd
  rcases Array.mem_iff_getElem.mp hd' with ⟨k, hk, rfl⟩
  rw [Array.getElem_modify]
  have hk' : k < q.edgeData.size := by simpa using hk
  split
  · exact ⟨hr, (h _ (Array.getElem_mem hk')).2⟩
  · exact h _ (Array.getElem_mem hk')

theorem ip_y {cur a b c : P K} {p q : Prop} [Decidable p] [Decidable q] (ha : cur.y ≤ a.y) (hb : cur.y ≤ b.y)
    (hc : cur.y ≤ c.y) : cur.y ≤ (if p then a else if q then b else c).y := by
  split
  · exact ha
  · split
    · exact hb
    · exact hc

open Lyon.SweepRep in
theorem pi_fin {s s' : St K} (h : Inv s) {Q : Queue K} {aei : Nat} {AE : ActiveEdge K} {X : P K} {r : K}
    (hQ : QU Q) (hAE : SpanA s.curPos AE ∧ U AE.rangeEnd) (hEB : s.curPos.y ≤ X.y ∧ U r)
    (e1 : s'.q = Q) (e2 : s'.active = s.active.setIfInBounds aei AE) (e3 : s'.below = s.below)
    (e4 : s'.curPos = s.curPos) (e5 : s'.out = s.out) : Inv s' ∧ s'.curPos.y ≤ X.y ∧ U r := by
  obtain ⟨⟨ha, hb⟩, hq, hua, hub, ho⟩ := h
  refine ⟨⟨⟨?_, ?_⟩, ?_, ?_, ?_, by rw [e5]; exact ho⟩, by rw [e4]; exact hEB.1, hEB.2⟩
  · rw [e2, e4]; exact all_set ha _ _ hAE.1
  · rw [e3, e4]; exact hb
  · rw [e1]; exact hQ
  · rw [e2]; exact all_set hua _ _ hAE.2
  · rw [e3]; exact hub

end field

end Lyon.SweepSpan
