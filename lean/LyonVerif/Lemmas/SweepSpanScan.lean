/-
  What the scan guarantees about `edges_to_split` (any scalar type): every index it records names an
  active edge that is no merge vertex (merge vertices are skipped before `is_edge_connecting` is asked).
-/
import LyonVerif.Lemmas.SweepSafeScan

set_option linter.unusedSectionVars false
set_option linter.unusedVariables false
set_option linter.unusedSimpArgs false
set_option mvcgen.warning false

namespace Lyon.SweepSpanScan
open Lyon Lyon.Scalar Lyon.Mono Lyon.Sweep Lyon.EQ Lyon.SweepSafe
open Std.Do

variable {α : Type} [Scalar α] [Wide α]

/-- the edges at the indices `L` are no merge vertices -/
def NMs (s : St α) (L : Array Nat) : Prop := ∀ ei ∈ L, ∀ e, s.active[ei]? = some e → e.isMerge = false

theorem NMs.empty (s : St α) : NMs s #[] := by intro ei h; simp at h

theorem NMs.push {s : St α} {L : Array Nat} (h : NMs s L) {i : Nat} (hi : ∀ e, s.active[i]? = some e → e.isMerge = false) :
    NMs s (L.push i) := by
  intro ei hm
  rcases Array.mem_push.mp hm with hm | hm
  · exact h ei hm
  · rw [hm]; exact hi

theorem extract_at {a : Array (ActiveEdge α)} {i : Nat} {pref suff : List (ActiveEdge α)} {cur : ActiveEdge α}
    (h : (a.extract i a.size).toList = pref ++ cur :: suff) : a[i + pref.length]? = some cur := by
  have h1 : (a.extract i a.size)[pref.length]? = some cur := by
    rw [← Array.getElem?_toList, h]; simp
  rw [Array.getElem?_extract] at h1
  split at h1
  · exact h1
  · cases h1

/-- second pass: the loop state is `(idx, w, scan, firstConnecting)` -/
def N2 (s : St α) (idx0 : Nat) (pref suff : List (ActiveEdge α)) (b : Nat × WindingState × Scan × Bool) : Prop :=
  (suff ≠ [] → b.1 = idx0 + pref.length) ∧ NMs s b.2.2.1.edgesToSplit

def invN2 (s : St α) (r : Bool × Nat × WindingState × Bool) :
    Invariant (s.active.extract r.2.1).toList (Nat × WindingState × Scan × Bool) (.except IErr .pure) :=
  post⟨fun c => ⌜N2 s r.2.1 c.1.prefix c.1.suffix c.2⌝, fun _ => ⌜True⌝⟩

theorem N2_edges {s : St α} {i : Nat} {pref suff : List (ActiveEdge α)} {cur : ActiveEdge α}
    {b : Nat × WindingState × Scan × Bool} {L : Array Nat} (h : N2 s i pref (cur :: suff) b)
    (hsp : (s.active.extract i s.active.size).toList = pref ++ cur :: suff)
    (e2 : L = b.2.2.1.edgesToSplit ∨ (L = b.2.2.1.edgesToSplit.push b.1 ∧ cur.isMerge = false)) : NMs s L := by
  rcases e2 with e | ⟨e, hm⟩
  · rw [e]; exact h.2
  · rw [e]
    apply h.2.push
    intro e' he'
    rw [h.1 (by simp), extract_at hsp] at he'
    cases he'
    exact hm

theorem N2_next {s : St α} {i : Nat} {pref suff : List (ActiveEdge α)} {cur : ActiveEdge α}
    {b b' : Nat × WindingState × Scan × Bool} (h : N2 s i pref (cur :: suff) b)
    (hsp : (s.active.extract i s.active.size).toList = pref ++ cur :: suff) (e1 : b'.1 = b.1 + 1)
    (e2 : b'.2.2.1.edgesToSplit = b.2.2.1.edgesToSplit ∨
      (b'.2.2.1.edgesToSplit = b.2.2.1.edgesToSplit.push b.1 ∧ cur.isMerge = false)) :
    N2 s i (pref ++ [cur]) suff b' := by
  refine ⟨fun _ => ?_, N2_edges h hsp e2⟩
  rw [e1, h.1 (by simp), List.length_append, List.length_singleton]
  omega

theorem N2_stop {s : St α} {i : Nat} {pref suff pref' : List (ActiveEdge α)} {cur : ActiveEdge α}
    {b b' : Nat × WindingState × Scan × Bool} (h : N2 s i pref (cur :: suff) b)
    (hsp : (s.active.extract i s.active.size).toList = pref ++ cur :: suff)
    (e2 : b'.2.2.1.edgesToSplit = b.2.2.1.edgesToSplit ∨
      (b'.2.2.1.edgesToSplit = b.2.2.1.edgesToSplit.push b.1 ∧ cur.isMerge = false)) :
    N2 s i pref' [] b' :=
  ⟨fun hh => absurd rfl hh, N2_edges h hsp e2⟩

theorem N2_init {s : St α} {i : Nat} {suff : List (ActiveEdge α)} {b : Nat × WindingState × Scan × Bool}
    (e1 : b.1 = i) (e2 : b.2.2.1.edgesToSplit = #[]) : N2 s i [] suff b :=
  ⟨fun _ => by simp [e1], by rw [e2]; exact NMs.empty s⟩

theorem N2_nm {s : St α} {i : Nat} {pref suff : List (ActiveEdge α)} {b : Nat × WindingState × Scan × Bool}
    (h : N2 s i pref suff b) : NMs s b.2.2.1.edgesToSplit := h.2

theorem nm_of_eq {s : St α} {L L' : Array Nat} (h : NMs s L) (e : L' = L) : NMs s L' := e ▸ h

theorem not_true_false {b : Bool} (h : ¬ b = true) : b = false := by simpa using h

theorem scanActiveEdges_nm (s : St α) :
    ⦃⌜True⌝⦄ (scanActiveEdges s : Except IErr Scan)
    ⦃post⟨fun scan => ⌜NMs s scan.edgesToSplit⌝, fun _ => ⌜True⌝⟩⦄ := by
  unfold scanActiveEdges
  strip_mdata
  have h1 := fun (cur : P α) (edges : Array (ActiveEdge α)) (start : Nat) =>
    triv_spec (checkRemainingEdges cur edges start)
  have h2 := fun (cur : P α) (t : α) (e : ActiveEdge α) => self_spec (isEdgeConnecting cur t e)
  mvcgen [h1, h2]
  fix_throw
  case inv1 => exact post⟨fun _ => ⌜True⌝, fun _ => ⌜True⌝⟩
  case inv2 => exact invN2 s (by assumption)
  case inv3 => exact invN2 s (by assumption)
  case inv4 => exact invN2 s (by assumption)
  all_goals (clear h1 h2)
  all_goals first
    | trivial
    | exact N2_next (by assumption) (by assumption) rfl (Or.inl rfl)
    | exact N2_next (by assumption) (by assumption) rfl (Or.inr ⟨rfl, not_true_false (by assumption)⟩)
    | exact N2_stop (by assumption) (by assumption) (Or.inl rfl)
    | exact N2_stop (by assumption) (by assumption) (Or.inr ⟨rfl, not_true_false (by assumption)⟩)
    | exact N2_init rfl rfl
    | exact nm_of_eq (N2_nm (by assumption)) rfl
    | exact NMs.empty s
    | skip

theorem scan_nm {s : St α} {scan : Scan} (h : scanActiveEdges s = .ok scan) : NMs s scan.edgesToSplit := by
  have h1 := scanActiveEdges_nm s
  rw [h] at h1
  have h2 : (Except.ok scan : Except IErr Scan) = pure scan := rfl
  rw [h2] at h1
  simpa [Triple, WP.pure] using h1

end Lyon.SweepSpanScan
