/-
  C14 helper lemmas for the views of a transformed stored path that need the reversal
  specification (`Lemmas/PathReversed.lean`): reversal commutes with a point map.
  (Separate from `AdaptersStored.lean`, which C16 imports without `PathReversed`.)  Mathlib-free.
-/
import LyonVerif.Lemmas.AdaptersStored
import LyonVerif.Lemmas.PathReversed

namespace Lyon.Adapt
open Lyon Lyon.Path

set_option linter.unusedSimpArgs false

theorem revGo_map {π π' : Type} (h : π → π') (evs : List (Event π)) (nc : Bool) (fst : Option π) :
    revGo (evs.map (mapEvent h)) nc (fst.map h) = (revGo evs nc fst).map (mapEvent h) := by
  induction evs generalizing nc fst with
  | nil => rfl
  | cons e r ih =>
    cases e with
    | begin a =>
      have := ih false none
      cases fst <;> simp_all [revGo, mapEvent]
    | line a b => simpa [revGo, mapEvent] using ih nc fst
    | quad a c b => simpa [revGo, mapEvent] using ih nc fst
    | cubic a c d b => simpa [revGo, mapEvent] using ih nc fst
    | end_ l f cl => simpa [revGo, mapEvent] using ih cl (some l)

/-- reversal commutes with a point map -/
theorem reverseEvents_map {π π' : Type} (h : π → π') (evs : List (Event π)) :
    reverseEvents (evs.map (mapEvent h)) = (reverseEvents evs).map (mapEvent h) := by
  simpa [reverseEvents, List.map_reverse] using revGo_map h evs.reverse false none

end Lyon.Adapt
