/-
  C06c, part 1: the emission shape of a CLOSED fixed-width polygon `pt 0 … pt (n-1)` (`n ≥ 3` points,
  `begin, line_to …, end(true)`), `StrokeBuilderImpl::close`: two more steps through the first two points
  (`pt n = pt 0`, `pt (n+1) = pt 1`), the two vertices `close` re-creates at the first point and the quad of the
  first edge.  No caps.
-/
import LyonVerif.Lemmas.StrokeCoverRun

set_option linter.unusedSectionVars false
set_option linter.unusedVariables false

namespace Lyon.C06b
open Lyon Scalar Lyon.Stroke Lyon.Stroke.Full Lyon.C05 Lyon.C05b Lyon.C05c

section
variable {K : Type} [Field K] [LinearOrder K] [IsStrictOrderedRing K] [Transc K]

/-- `close`'s two vertices at `p0` and the edge quad towards `s`, spelled out -/
theorem closeVertices_unfold (p0 : EP K) (adv : K) (o : Out K) :
    closeVertices p0 adv o
      = ({ p0 with pos := { p0.pos with nextVertex := o.nextId }, neg := { p0.neg with nextVertex := o.nextId + 1 } },
         (o.addVertex (capV p0.src p0.position p0.halfWidth adv .positive (sNext p0.pos))).addVertex
           (capV p0.src p0.position p0.halfWidth adv .negative (sNext p0.neg))) := rfl

/-- the vertices `close` re-creates sit at the `next` side points of the join at the first point; the quad of
the first edge, towards the second point `s` (whose `prev` vertices sit at `X`, `Y`), is emitted -/
theorem closeVertices_em (p0 s : EP K) (adv : K) (o : Out K)
    (hn : o.nextId = o.verts.length) (hw0 : p0.halfWidth ≠ 0)
    (hf1 : p0.foldPos = false) (hf2 : p0.foldNeg = false) (hs1 : s.foldPos = false) (hs2 : s.foldNeg = false)
    (X Y : P K) (hX : PosAt o s.pos.prevVertex X) (hY : PosAt o s.neg.prevVertex Y)
    (hne : s.pos.prevVertex ≠ s.neg.prevVertex) :
    let o' := (closeVertices p0 adv o).2.addTris (addEdgeTriangles (closeVertices p0 adv o).1.ids s.ids)
    Ext o o'
    ∧ EmTri o' (sNext p0.neg, sNext p0.pos, X) ∧ EmTri o' (sNext p0.neg, X, Y)
    ∧ (∀ t ∈ o'.tris, t ∈ o.tris ∨ TriIn o' [sNext p0.neg, sNext p0.pos, X, Y] t) := by
  intro o'
  have ho' : o' = ((o.addVertex (capV p0.src p0.position p0.halfWidth adv .positive (sNext p0.pos))).addVertex
      (capV p0.src p0.position p0.halfWidth adv .negative (sNext p0.neg))).addTris
      (addEdgeTriangles { p0.ids with posNext := o.nextId, negNext := o.nextId + 1 } s.ids) := rfl
  rw [ho']
  generalize sNext p0.pos = xp
  generalize sNext p0.neg = xn
  have hn1 : (o.addVertex (capV p0.src p0.position p0.halfWidth adv .positive xp)).nextId
      = (o.addVertex (capV p0.src p0.position p0.halfWidth adv .positive xp)).verts.length := by
    simp [Out.addVertex, hn]
  have hx2 : Ext o ((o.addVertex (capV p0.src p0.position p0.halfWidth adv .positive xp)).addVertex
      (capV p0.src p0.position p0.halfWidth adv .negative xn)) := (Ext.addVertex _ _).trans (Ext.addVertex _ _)
  have hx3 : Ext o (((o.addVertex (capV p0.src p0.position p0.halfWidth adv .positive xp)).addVertex
      (capV p0.src p0.position p0.halfWidth adv .negative xn)).addTris
      (addEdgeTriangles { p0.ids with posNext := o.nextId, negNext := o.nextId + 1 } s.ids)) :=
    hx2.trans (Ext.addTris _ _)
  have p1' := ((posAt_new o (capV p0.src p0.position p0.halfWidth adv .positive xp) hn).ext
    (Ext.addVertex _ (capV p0.src p0.position p0.halfWidth adv .negative xn))).ext (Ext.addTris _
    (addEdgeTriangles { p0.ids with posNext := o.nextId, negNext := o.nextId + 1 } s.ids))
  have p2' := (posAt_new (o.addVertex (capV p0.src p0.position p0.halfWidth adv .positive xp))
    (capV p0.src p0.position p0.halfWidth adv .negative xn) hn1).ext (Ext.addTris _
    (addEdgeTriangles { p0.ids with posNext := o.nextId, negNext := o.nextId + 1 } s.ids))
  rw [capV_position _ _ _ _ _ _ hw0] at p1' p2'
  have hid : (o.addVertex (capV p0.src p0.position p0.halfWidth adv .positive xp)).nextId = o.nextId + 1 := rfl
  rw [hid] at p2'
  have hXlt := posAt_lt hX
  have hYlt := posAt_lt hY
  have he := edgeTris_eq ({ p0.ids with posNext := o.nextId, negNext := o.nextId + 1 } : JoinIds) s.ids hf1 hf2 hs1 hs2
    (by show o.nextId + 1 ≠ s.pos.prevVertex; omega) (by show o.nextId + 1 ≠ o.nextId; omega)
    (by show o.nextId ≠ s.pos.prevVertex; omega) (by show o.nextId + 1 ≠ s.neg.prevVertex; omega) hne
  refine ⟨hx3, ⟨(o.nextId + 1, o.nextId, s.pos.prevVertex), ?_, p2', p1', hX.ext hx3⟩,
    ⟨(o.nextId + 1, s.pos.prevVertex, s.neg.prevVertex), ?_, p2', hX.ext hx3, hY.ext hx3⟩, ?_⟩
  · show _ ∈ o.tris ++ _
    rw [he]; simp [EP.ids]
  · show _ ∈ o.tris ++ _
    rw [he]; simp [EP.ids]
  · intro t ht
    have ht' : t ∈ o.tris ++ addEdgeTriangles { p0.ids with posNext := o.nextId, negNext := o.nextId + 1 } s.ids := ht
    rw [he] at ht'
    rcases List.mem_append.mp ht' with h | h
    · exact Or.inl h
    · right
      simp only [List.mem_cons, List.mem_nil_iff, or_false] at h
      rcases h with rfl | rfl
      · exact ⟨_, _, _, p2', p1', hX.ext hx3, by simp, by simp, by simp⟩
      · exact ⟨_, _, _, p2', hX.ext hx3, hY.ext hx3, by simp, by simp, by simp⟩

/-- **what the run emits for a closed polygon** with points `pt 0 … pt m` (`pt (m+1) = pt 0`,
`pt (m+2) = pt 1`): the edge quads between consecutive joins `1 … m+1`, the quad of the first edge between
the join at `pt (m+1) = pt 0` and the join at `pt 1`, the join triangles of the joins `1 … m+1`; nothing else -/
structure EmittedC (e : Env K) (pt : Nat → P K) (m : Nat) (o : Out K) : Prop where
  quads : ∀ i, 1 ≤ i → i ≤ m → EmQuadJ o (jEP e pt i) (jEP e pt (i + 1))
  closing : EmQuadJ o (jEP e pt (m + 1)) (jEP e pt 1)
  joins : ∀ i, 1 ≤ i → i ≤ m + 1 → EmJoin o (jEP e pt i)
  only : ∀ t ∈ o.tris,
    (∃ i, 1 ≤ i ∧ i ≤ m ∧ TriIn o (quadSet (jEP e pt i) (jEP e pt (i + 1))) t)
    ∨ (∃ i, 1 ≤ i ∧ i ≤ m + 1 ∧ TriIn o (joinSet (jEP e pt i)) t)
    ∨ (∃ i, 1 ≤ i ∧ i ≤ m + 1 ∧ TriFan o (joinSet (jEP e pt i)) (pt i) (e.hwFw * e.hwFw) t)
    ∨ TriIn o (quadSet (jEP e pt (m + 1)) (jEP e pt 1)) t

/-- `close` after the `line_to` loop -/
theorem close_emitted {e : Env K} (hj : RoundOK e) (hw0 : e.hwFw ≠ 0) {pt : Nat → P K} {m : Nat}
    (hm : 2 ≤ m) (hp0 : pt (m + 1) = pt 0) (hp1 : pt (m + 1 + 1) = pt 1)
    {st : St K} {a b : EP K} (hI : CInv e pt m st a b)
    (hfar1 : pointsAreTooClose e.thr (pt m) (pt (m + 1)) = false)
    (hnf1 : noFoldAt e (pt (m - 1)) (pt m) (pt (m + 1)))
    (hfar2 : pointsAreTooClose e.thr (pt (m + 1)) (pt (m + 1 + 1)) = false)
    (hnf2 : noFoldAt e (pt m) (pt (m + 1)) (pt (m + 1 + 1))) :
    EmittedC e pt m (close (fwStep e) st).out := by
  obtain ⟨f1, hf, gf, gp, pf1, pf2⟩ := hI.first2 hm
  have hcnt : st.buf.count = 3 := by rw [hI.cnt, if_neg (by omega)]
  obtain ⟨_, _, _, ef, _, _, sf⟩ := hI.t.full (by omega)
  rw [hf] at ef
  simp only [List.cons.injEq, and_true] at ef
  obtain ⟨rfl, rfl⟩ := ef
  -- first step: through the first point
  obtain ⟨b', hI1, hfir1, hext1, hadd1⟩ := fwStep_cinv_gen hj hw0 hI ({ fPt e pt with advancement := nan } : EP K)
    (by rw [hp0]; rfl) ⟨rfl, rfl, rfl, rfl, rfl⟩ rfl rfl hfar1 hnf1
  have hfirsts1 := hfir1 hcnt
  unfold close
  simp only [hf]
  generalize hr1 : fwStep e st ({ fPt e pt with advancement := nan } : EP K) = r1 at hI1 hfirsts1 hext1 hadd1
  obtain ⟨st1, added⟩ := r1
  simp only at hI1 hfirsts1 hext1 hadd1
  subst hadd1
  simp only [if_true]
  -- second step: the join at the first point, towards the second point `f1`
  have hcnt1 : st1.buf.count = 3 := by rw [hI1.cnt, if_neg (by omega)]
  have hlast := hI1.t.wf.lastTwo_last _ _ hI1.t.two
  have hf1pos : f1.position = pt (m + 1 + 1) := by rw [gp, hp1]
  have hfar' : pointsAreTooClose e.thr ({ fPt e pt with advancement := nan } : EP K).position f1.position = false := by
    rw [hI1.bpos, hf1pos]; exact hfar2
  have hclose : st1.tooClose e.thr f1.position = false := by rw [tooClose_eq hlast]; exact hfar'
  have hnf' : noFoldAt e b'.position ({ fPt e pt with advancement := nan } : EP K).position f1.position := by
    rw [hI1.apos, hI1.bpos, hf1pos]; exact hnf2
  obtain ⟨ga, pa1, pa2⟩ := hI1.ageo (by omega)
  simp only [Nat.add_sub_cancel] at ga pa1 pa2
  have hprev : st1.buf.count > 2 → Sides2 st1.out.nextId b'.ids
      ∧ PosAt st1.out b'.neg.nextVertex (sNext b'.neg) ∧ PosAt st1.out b'.pos.nextVertex (sNext b'.pos) := by
    intro h3
    exact ⟨(hI1.t.full h3).1, by rw [geo_sNext_neg ga]; exact pa1, by rw [geo_sNext_pos ga]; exact pa2⟩
  obtain ⟨j2, o', ej, hS⟩ := fwJoin_shape hj st1 b' _ f1 hI1.t.fresh hI1.t.bfp hI1.t.bfn hnf' hw0 hI1.next hprev
  have hgeo1 : EP.geo (joinSidesFw e.ix b' ({ fPt e pt with advancement := nan } : EP K) f1 e.o.miterLimit e.hwFw)
      = EP.geo (jEP e pt (m + 1)) := by
    unfold jEP
    exact joinSidesFw_geo_congr e.ix _ _ (by rw [hI1.apos]; rfl) (by rw [hI1.bpos]; rfl) rfl (by rw [hf1pos]; rfl) rfl rfl
  generalize hj1 : joinSidesFw e.ix b' ({ fPt e pt with advancement := nan } : EP K) f1 e.o.miterLimit e.hwFw = j1 at hS hgeo1
  have hgeo2 : EP.geo j2 = EP.geo (jEP e pt (m + 1)) := by
    rw [← hgeo1]
    simp only [EP.geo, sgeo, hS.gPos.1, hS.gPos.2.1, hS.gPos.2.2, hS.gNeg.1, hS.gNeg.2.1, hS.gNeg.2.2]
  have hstep2 : fwStep e st1 f1 = ((commitSt st1 b' j2 o').push f1, true) := by
    rw [fwStep_eq_join hclose hI1.t.two, ej]
  rw [hstep2]
  simp only []
  -- the window after the second step
  have hc2 := WF.lastTwo_count _ _ hI1.t.two
  obtain ⟨bb1, hb1, hwf1, hc1, hl1, _⟩ := hI1.t.wf.replaceLast (by omega) j2
  obtain ⟨bb2, hb2, hwf2, _, _, hlt2⟩ := hwf1.push f1
  have hst3 : (commitSt st1 b' j2 o').push f1
      = { st1 with buf := bb2, out := o', firsts := if st1.buf.count == 2 then [b', j2] else st1.firsts } := by
    simp [commitSt, St.push, St.setLast, hb1, hb2]
  rw [hst3]
  simp only [hlt2 _ hl1]
  -- the vertices `close` re-creates and the quad of the first edge
  have hj2w : j2.halfWidth ≠ 0 := by
    rw [hS.hw, ← hj1, joinSidesFw_hw]; exact hw0
  obtain ⟨f1', hf', gf', gp', pf1', pf2'⟩ := hI1.first2 (by omega)
  rw [hfirsts1, hf] at hf'
  simp only [List.cons.injEq, and_true] at hf'
  obtain ⟨_, rfl⟩ := hf'
  obtain ⟨s1, s2, sg, s4, s5⟩ := sf
  obtain ⟨x1, x2, x3, x4⟩ := closeVertices_em j2 f1 (fPt e pt).advancement o' hS.next hj2w hS.sides.1 hS.sides.2.1
    s1 s2 _ _ (pf1'.ext hS.ext) (pf2'.ext hS.ext) s5
  rw [geo_sNext_neg hgeo2, geo_sNext_pos hgeo2] at x2 x4
  rw [geo_sNext_neg hgeo2] at x3
  have hx := hS.ext.trans x1
  refine ⟨?_, ⟨x2, x3⟩, ?_, ?_⟩
  · intro i h1 h2
    by_cases hi : i + 1 < m + 1
    · exact (hI1.quads i h1 hi).ext hx
    · have him : i = m := by omega
      subst him
      obtain ⟨q1, q2⟩ := hS.edge (by omega)
      unfold EmQuadJ
      rw [← geo_sNext_neg ga, ← geo_sNext_pos ga, ← geo_sPrev_pos hgeo1, ← geo_sPrev_neg hgeo1]
      exact ⟨q1.ext x1, q2.ext x1⟩
  · intro i h1 h2
    by_cases hi : i < m + 1
    · exact (hI1.joins i h1 hi).ext hx
    · have him : i = m + 1 := by omega
      subst him
      obtain ⟨g1, g2, g3⟩ := geo_pos hgeo1
      obtain ⟨g4, g5, g6⟩ := geo_neg hgeo1
      refine ⟨fun h1 h2 => ?_, fun h1 h2 => ?_⟩
      · have := hS.joinNeg (by rw [g3]; exact h1) (by rw [g6]; exact h2)
        rw [g4, g5, geo_sPrev_pos hgeo1] at this; exact this.ext x1
      · have := hS.joinPos (by rw [g6]; exact h1) (by rw [g3]; exact h2)
        rw [g1, g2, geo_sPrev_neg hgeo1] at this; exact this.ext x1
  · intro t ht
    rcases x4 t ht with h | h
    · obtain ⟨ts, ets, hts⟩ := hS.trisNew
      rw [ets] at h
      rcases List.mem_append.mp h with h | h
      · rcases hI1.only t h with ⟨i, a1, a2, a3⟩ | ⟨i, a1, a2, a3⟩ | ⟨i, a1, a2, a3⟩
        · exact Or.inl ⟨i, a1, by omega, a3.ext hx⟩
        · exact Or.inr (Or.inl ⟨i, a1, by omega, a3.ext hx⟩)
        · exact Or.inr (Or.inr (Or.inl ⟨i, a1, by omega, a3.ext hx⟩))
      · rcases hts t h with ⟨h3, hq⟩ | hq | hq
        · refine Or.inl ⟨m, by omega, le_refl _, ?_⟩
          unfold quadSet
          rw [← geo_sNext_neg ga, ← geo_sNext_pos ga, ← geo_sPrev_pos hgeo1, ← geo_sPrev_neg hgeo1]
          exact hq.ext x1
        · refine Or.inr (Or.inl ⟨m + 1, by omega, le_refl _, ?_⟩)
          unfold joinSet
          rw [← geo_sPrev_neg hgeo1, ← geo_sNext_neg hgeo1, ← geo_sPrev_pos hgeo1, ← geo_sNext_pos hgeo1]
          exact hq.ext x1
        · refine Or.inr (Or.inr (Or.inl ⟨m + 1, by omega, le_refl _, ?_⟩))
          unfold joinSet
          rw [← geo_sPrev_neg hgeo1, ← geo_sNext_neg hgeo1, ← geo_sPrev_pos hgeo1, ← geo_sNext_pos hgeo1]
          have hpj : j1.position = pt (m + 1) := by
            rw [← hj1]
            rw [(joinSidesFw_singles e.ix b' _ f1 e.o.miterLimit e.hwFw hI1.t.fresh.ps hI1.t.fresh.ns).2.1]; exact hI1.bpos
          have hwj : j1.halfWidth = e.hwFw := by
            rw [← hj1, joinSidesFw_hw]; exact hI1.t.fresh.hw
          rw [hpj, hwj] at hq
          exact hq.ext x1
    · exact Or.inr (Or.inr (Or.inr h))

end

section Run
variable {K : Type} [Field K] [LinearOrder K] [IsStrictOrderedRing K] [Transc K] [Asin K] [FlatConst K]

/-- the events of the closed polygon `pt 0, …, pt m` (`m ≥ 2`): `begin, line_to × m, end(true)` -/
def polyEvsC (pt : Nat → P K) (m : Nat) : List (IdEv K) :=
  IdEv.begin 0 (pt 0) :: IdEv.line 1 (pt 1) :: (lineEvs (restPts pt 2 (m - 1)) ++ [IdEv.end_ true])

/-- **emission shape of the complete model on a closed polygon** (fixed width, non-round join, no merged
points, no folding join; `pt` continued periodically: `pt (m+1) = pt 0`, `pt (m+2) = pt 1`) -/
theorem run_emitted_closed (e : Env K) (store : Nat → List K) (hfw : e.o.varWidth = false)
    (hj : RoundOK e) (hw0 : e.hwFw ≠ 0)
    (pt : Nat → P K) (m : Nat) (hm : 2 ≤ m) (hp0 : pt (m + 1) = pt 0) (hp1 : pt (m + 1 + 1) = pt 1)
    (hfar : ∀ i, i ≤ m + 1 → pointsAreTooClose e.thr (pt i) (pt (i + 1)) = false)
    (hnf : ∀ i, 1 ≤ i → i ≤ m + 1 → noFoldAt e (pt (i - 1)) (pt i) (pt (i + 1))) :
    EmittedC e pt m (runEvents e store (polyEvsC pt m)).st.out := by
  obtain ⟨st2, e2, hwf2, hab, hc2, hout⟩ := run_two_points_x e store hfw 0 1 (pt 0) (pt 1) (hfar 0 (by omega))
  have hI1 : CInv e pt 1 st2 (fPt e pt) (secondPt e 0 1 (pt 0) (pt 1)) := by
    refine ⟨⟨hwf2, hab, ⟨rfl, rfl, rfl, rfl, rfl⟩, rfl, rfl, fun _ => ⟨rfl, rfl⟩, fun h => by omega⟩, by rw [hout]; rfl, rfl, rfl, le_refl _, by simp [hc2], fun _ => rfl,
      fun h => by omega, fun h => by omega, fun i h1 h2 => by omega, fun i h1 h2 => by omega,
      fun t ht => by rw [hout] at ht; simp [Out.empty] at ht⟩
  obtain ⟨a', b', hI⟩ := feed_cinv hj hw0 (m - 1) 1 st2 _ _ hI1 (fun i h1 h2 => hfar i (by omega))
    (fun i h1 h2 => hnf i h1 (by omega))
  have hm' : 1 + (m - 1) = m := by omega
  rw [hm'] at hI
  unfold polyEvsC runEvents
  have hsplit : (IdEv.begin 0 (pt 0) :: IdEv.line 1 (pt 1) :: (lineEvs (restPts pt 2 (m - 1)) ++ [IdEv.end_ true]))
      = [IdEv.begin 0 (pt 0), IdEv.line 1 (pt 1)] ++ (lineEvs (restPts pt 2 (m - 1)) ++ [IdEv.end_ true]) := rfl
  rw [hsplit, List.foldl_append, e2, List.foldl_append]
  obtain ⟨r1, r2⟩ := runLines hfw store (restPts pt 2 (m - 1)) ⟨st2, 1, pt 1, false⟩ rfl
  generalize (lineEvs (restPts pt 2 (m - 1))).foldl (fun r ev => if r.panicked then r else runEvent e store r ev)
    ⟨st2, 1, pt 1, false⟩ = rr at r1 r2
  simp only [List.foldl_cons, List.foldl_nil]
  rw [if_neg (by simp [r2])]
  show EmittedC e pt m (endSub e e.step rr.st true).out
  rw [r1, step_fixed hfw]
  set st' := (restPts pt 2 (m - 1)).foldl (fun s q => (fwStep e s (linePt e q)).1) st2 with hst'
  have hI' : CInv e pt m { st' with mayNeedEmptyCap := st'.mayNeedEmptyCap || (true && st'.buf.count == 1) } a' b' :=
    ⟨⟨hI.t.wf, hI.t.two, hI.t.fresh, hI.t.bfp, hI.t.bfn, hI.t.first, hI.t.full⟩, hI.next, hI.apos, hI.bpos,
      hI.k1, hI.cnt, hI.first1, hI.first2, hI.ageo, hI.quads, hI.joins, hI.only⟩
  have hcnt : st'.buf.count = 3 := by
    have := hI.cnt; rw [if_neg (by omega)] at this; exact this
  have := close_emitted hj hw0 hm hp0 hp1 hI' (hfar m (by omega)) (hnf m (by omega) (by omega))
    (hfar (m + 1) (by omega)) (hnf (m + 1) (by omega) (by omega))
  unfold endSub
  simp only [Bool.true_and, hcnt, show (3 > 2) from by omega, decide_true, if_true]
  simp only [Bool.true_and, hcnt] at this
  exact this

end Run


end Lyon.C06b
