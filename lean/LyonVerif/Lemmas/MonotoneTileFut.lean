/-
  C02 growth 3 (`Props/C02f.lean`), part 6: the not-yet-fed part of the two chains of a sweep
  sequence (`futIds`, `fut`) and the REMAINING POLYGON of a state of the basic monotone
  tessellator (`region`).

  `futIds seq τ k` — ids `j ≥ k` of the middle vertices on chain `τ`, followed by the id of the
  bottom vertex (which belongs to both chains).  The remaining polygon of a state `s` reached after
  `k` vertices, stack on side `c`:
    chain on side `c`  : the stack, bottom first, then `fut seq c k`;
    chain on side `!c` : the stack's bottom entry (the last vertex of that chain), then `fut seq (!c) k`.
-/
import LyonVerif.Lemmas.MonotoneTilePop

set_option linter.unusedSectionVars false
set_option linter.unusedVariables false
set_option linter.unusedSimpArgs false

namespace Lyon.C02f
open Lyon Lyon.Mono Lyon.C02 Lyon.C02c

section Geometry
variable {K : Type} [Field K] [LinearOrder K] [IsStrictOrderedRing K]

def futAux (τ : Bool) : List (P K × Bool) → Nat → List Nat
  | [], _ => []
  | [_], k => [k]
  | v :: w :: r, k => if v.2 = τ then k :: futAux τ (w :: r) (k + 1) else futAux τ (w :: r) (k + 1)

/-- ids of the vertices of chain `τ` from entry `k` on (the bottom vertex belongs to both chains) -/
def futIds (seq : List (P K × Bool)) (τ : Bool) (k : Nat) : List Nat := futAux τ (seq.drop k) k

/-- their positions -/
def fut (seq : List (P K × Bool)) (τ : Bool) (k : Nat) : List (P K) := (futIds seq τ k).map (posOf seq)

variable (seq : List (P K × Bool)) (τ : Bool)

theorem sideAt_eq {k : Nat} (hk : k < seq.length) : sideAt seq k = seq[k].2 := by
  simp [sideAt, List.getElem?_eq_getElem hk]

theorem futIds_last {k : Nat} (hk : k + 1 = seq.length) : futIds seq τ k = [k] := by
  have h1 : k < seq.length := by omega
  unfold futIds
  rw [List.drop_eq_getElem_cons h1, List.drop_eq_nil_of_le (by omega)]
  rfl

theorem futIds_end {k : Nat} (hk : seq.length ≤ k) : futIds seq τ k = [] := by
  unfold futIds
  rw [List.drop_eq_nil_of_le hk]
  rfl

theorem futIds_step {k : Nat} (hk : k + 1 < seq.length) :
    futIds seq τ k = if sideAt seq k = τ then k :: futIds seq τ (k + 1) else futIds seq τ (k + 1) := by
  have h1 : k < seq.length := by omega
  unfold futIds
  rw [List.drop_eq_getElem_cons h1, List.drop_eq_getElem_cons hk, sideAt_eq seq h1]
  simp only [futAux]

theorem futIds_same {k : Nat} (hk : k + 1 < seq.length) (h : sideAt seq k = τ) :
    futIds seq τ k = k :: futIds seq τ (k + 1) := by rw [futIds_step seq τ hk, if_pos h]

theorem futIds_other {k : Nat} (hk : k + 1 < seq.length) (h : sideAt seq k ≠ τ) :
    futIds seq τ k = futIds seq τ (k + 1) := by rw [futIds_step seq τ hk, if_neg h]

/-- the head of the future chain: the next vertex of chain `τ` (or the bottom vertex), everything
before it is on the other chain -/
theorem futIds_head (n : Nat) : ∀ k, k < seq.length → seq.length - k = n →
    ∃ f rest, futIds seq τ k = f :: rest ∧ k ≤ f ∧ f < seq.length ∧
      (∀ j, k ≤ j → j < f → sideAt seq j = !τ) ∧ (f + 1 = seq.length ∨ sideAt seq f = τ) ∧
      (∀ j ∈ rest, f < j ∧ j < seq.length) ∧ rest.Pairwise (· < ·) := by
  induction n with
  | zero => intro k hk hn; omega
  | succ n ih =>
    intro k hk hn
    by_cases hl : k + 1 = seq.length
    · exact ⟨k, [], futIds_last seq τ hl, le_refl _, hk, fun j h1 h2 => by omega, Or.inl hl, by simp, by simp⟩
    · have hk1 : k + 1 < seq.length := by omega
      obtain ⟨f, rest, e, h1, h2, h3, h4, h5, h6⟩ := ih (k + 1) hk1 (by omega)
      by_cases hs : sideAt seq k = τ
      · refine ⟨k, f :: rest, by rw [futIds_same seq τ hk1 hs, e], le_refl _, hk, fun j h1 h2 => by omega, Or.inr hs, ?_, ?_⟩
        · intro j hj
          rcases List.mem_cons.mp hj with g | g
          · rw [g]; exact ⟨by omega, h2⟩
          · exact ⟨by have := (h5 j g).1; omega, (h5 j g).2⟩
        · exact List.Pairwise.cons (fun j hj => (h5 j hj).1) h6
      · refine ⟨f, rest, by rw [futIds_other seq τ hk1 hs, e], by omega, h2, ?_, h4, h5, h6⟩
        intro j hj1 hj2
        by_cases ej : j = k
        · rw [ej]; revert hs; cases sideAt seq k <;> cases τ <;> simp
        · exact h3 j (by omega) hj2

/-- ids strictly increasing and in range ⟹ positions strictly increasing in sweep order -/
theorem sortedP_ids (hval : SweepValid seq) (l : List Nat) (hl : l.Pairwise (· < ·)) (hb : ∀ j ∈ l, j < seq.length) :
    SortedP (l.map (posOf seq)) := by
  unfold SortedP
  rw [List.pairwise_map]
  refine hl.imp_of_mem ?_
  intro a b ha hb' hab
  exact valid_after hval hab (hb b hb')

/-- the future chain from `k` on, with any earlier vertex in front, is sorted -/
theorem fut_sorted (hval : SweepValid seq) (i k : Nat) (hik : i < k) (hk : k < seq.length) :
    SortedP (posOf seq i :: fut seq τ k) := by
  obtain ⟨f, rest, e, h1, h2, _, _, h5, h6⟩ := futIds_head seq τ _ k hk rfl
  have := sortedP_ids seq hval (i :: f :: rest)
    (List.Pairwise.cons (fun j hj => by
        rcases List.mem_cons.mp hj with g | g
        · omega
        · have := (h5 j g).1; omega)
      (List.Pairwise.cons (fun j hj => (h5 j hj).1) h6))
    (fun j hj => by
      rcases List.mem_cons.mp hj with g | g
      · omega
      · rcases List.mem_cons.mp g with g | g
        · omega
        · exact (h5 j g).2)
  simpa [fut, e] using this

/-! ## the remaining polygon of a state -/

/-- the open region that is not yet triangulated in state `s` (`k` vertices fed) -/
def region (s : Basic K) (k : Nat) : P K → Prop :=
  InPoly s.previous.left ((s.stack.map (·.pos)).reverse ++ fut seq s.previous.left k)
    (botPos s :: fut seq (!s.previous.left) k)

end Geometry

end Lyon.C02f
