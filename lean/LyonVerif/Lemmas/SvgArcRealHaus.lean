/-
  C13 — the second Hausdorff direction in the unit-circle frame (helper lemmas for `Props/C13c.lean`):
  every ray between the end rays of a piece of the unit circle meets the Bézier piece, at a radius in
  `[1, 1.0032]` (quadratic, step ≤ 45°) resp. `[0.998, 1]` (cubic, step ≤ 90°):
  `quad_unit_covers_real`, `cubic_unit_covers_real` (from `radial_hit`, the radius bounds of
  `Props/C13.lean` / `Props/C13b.lean` and the sector property of `Lemmas/SvgArcRealDirR.lean`);
  `ellMap_radial_sqDist` (distance of the images of `e` and `l·e`), `arc_angle_in_piece` (the arc's
  angle at `s` lies in piece `j = min(⌊s·n⌋, n−1)`).
-/
import LyonVerif.Lemmas.SvgArcRealDirR
import LyonVerif.Props.C13b

set_option linter.unusedSectionVars false
set_option linter.unusedVariables false
set_option linter.unusedSimpArgs false

namespace Lyon.C13
open Lyon Scalar ArcConv

/-- squared radius of a point of a quadratic piece of the unit circle -/
theorem quad_unit_radius_real (arc : Arc ℝ) (a1 d t : ℝ) (hd : |d| ≤ Real.pi / 4) (ht0 : 0 ≤ t) (ht1 : t ≤ 1) :
    (1 : ℝ) ^ 2 ≤ ((quadAt (unitArc arc) a1 d).sample t).x * ((quadAt (unitArc arc) a1 d).sample t).x
        + ((quadAt (unitArc arc) a1 d).sample t).y * ((quadAt (unitArc arc) a1 d).sample t).y
    ∧ ((quadAt (unitArc arc) a1 d).sample t).x * ((quadAt (unitArc arc) a1 d).sample t).x
        + ((quadAt (unitArc arc) a1 d).sample t).y * ((quadAt (unitArc arc) a1 d).sample t).y
      ≤ (10032 / 10000 : ℝ) ^ 2 := by
  obtain ⟨lo, hi⟩ := quad_arc_deviation_circle_real (unitArc arc) 1 a1 d t rfl zero_le_one hd ht0 ht1
  have hsq : sqDist ((quadAt (unitArc arc) a1 d).sample t) (unitArc arc).center
      = ((quadAt (unitArc arc) a1 d).sample t).x * ((quadAt (unitArc arc) a1 d).sample t).x
        + ((quadAt (unitArc arc) a1 d).sample t).y * ((quadAt (unitArc arc) a1 d).sample t).y := by
    simp [sqDist, unitArc]
  rw [hsq] at lo hi
  rw [Real.one_le_sqrt] at lo
  rw [Real.sqrt_le_left (by norm_num)] at hi
  exact ⟨by linarith, by linarith⟩

/-- squared radius of a point of a cubic piece of the unit circle -/
theorem cubic_unit_radius_real (arc : Arc ℝ) (a1 d t : ℝ) (hd : |d| ≤ Real.pi / 2) (ht0 : 0 ≤ t) (ht1 : t ≤ 1) :
    (998 / 1000 : ℝ) ^ 2 ≤ ((cubicAt (unitArc arc) a1 d).sample t).x * ((cubicAt (unitArc arc) a1 d).sample t).x
        + ((cubicAt (unitArc arc) a1 d).sample t).y * ((cubicAt (unitArc arc) a1 d).sample t).y
    ∧ ((cubicAt (unitArc arc) a1 d).sample t).x * ((cubicAt (unitArc arc) a1 d).sample t).x
        + ((cubicAt (unitArc arc) a1 d).sample t).y * ((cubicAt (unitArc arc) a1 d).sample t).y
      ≤ (1 : ℝ) ^ 2 := by
  obtain ⟨lo, hi⟩ := cubic_arc_deviation_circle_real (unitArc arc) 1 a1 d t rfl zero_le_one hd ht0 ht1
  have hsq : sqDist ((cubicAt (unitArc arc) a1 d).sample t) (unitArc arc).center
      = ((cubicAt (unitArc arc) a1 d).sample t).x * ((cubicAt (unitArc arc) a1 d).sample t).x
        + ((cubicAt (unitArc arc) a1 d).sample t).y * ((cubicAt (unitArc arc) a1 d).sample t).y := by
    simp [sqDist, unitArc]
  rw [hsq] at lo hi
  rw [Real.le_sqrt' (by norm_num)] at lo
  rw [Real.sqrt_le_left (by norm_num)] at hi
  exact ⟨by linarith, by linarith⟩

/-- the direction of a step: `σ = ±1` with `σ·d ≥ 0` -/
theorem exists_dir (d : ℝ) : ∃ σ : ℝ, (σ = 1 ∨ σ = -1) ∧ 0 ≤ σ * d := by
  rcases le_total 0 d with h | h
  · exact ⟨1, Or.inl rfl, by linarith⟩
  · exact ⟨-1, Or.inr rfl, by linarith⟩

/-- every ray between the end rays of a quadratic piece of the unit circle (step ≤ 45°) meets the
piece at a radius in `[1, 1.0032]` -/
theorem quad_unit_covers_real (arc : Arc ℝ) (a1 d u : ℝ) (hd : |d| ≤ Real.pi / 4)
    (hu0 : 0 ≤ u) (hu1 : u ≤ 1) :
    ∃ t l : ℝ, 0 ≤ t ∧ t ≤ 1
      ∧ (quadAt (unitArc arc) a1 d).sample t = ⟨l * Real.cos (a1 + u * d), l * Real.sin (a1 + u * d)⟩
      ∧ 1 ≤ l ∧ l ≤ 10032 / 10000 := by
  have hpi := Real.pi_pos
  obtain ⟨σ, hσ, hσd⟩ := exists_dir d
  obtain ⟨e0, e1⟩ := quad_unit_ends_real arc a1 d
  obtain ⟨cx, cy⟩ := quad_sample_continuous (quadAt (unitArc arc) a1 d)
  obtain ⟨t, l, t0, t1, hx, hy, l0, l1⟩ := radial_hit
    (fun t => ((quadAt (unitArc arc) a1 d).sample t).x) (fun t => ((quadAt (unitArc arc) a1 d).sample t).y)
    cx cy a1 d σ 1 (10032 / 10000) u hσ (by linarith) hσd one_pos (le_refl _) (by norm_num)
    ⟨by simp only [e0], by simp only [e0]⟩ ⟨by simp only [e1], by simp only [e1]⟩
    (fun t h0 h1 => quad_unit_radius_real arc a1 d t hd h0 h1)
    (fun t h0 h1 => ⟨quad_unit_dir_real arc a1 d σ 0 t hσ hd hσd (le_refl _) h0 h1,
      quad_unit_dir_real arc a1 d σ t 1 hσ hd hσd h0 h1 (le_refl _)⟩) hu0 hu1
  exact ⟨t, l, t0, t1, P.ext' hx hy, l0, l1⟩

/-- every ray between the end rays of a cubic piece of the unit circle (step ≤ 90°) meets the piece
at a radius in `[0.998, 1]` -/
theorem cubic_unit_covers_real (arc : Arc ℝ) (a1 d u : ℝ) (hd : |d| ≤ Real.pi / 2)
    (hu0 : 0 ≤ u) (hu1 : u ≤ 1) :
    ∃ t l : ℝ, 0 ≤ t ∧ t ≤ 1
      ∧ (cubicAt (unitArc arc) a1 d).sample t = ⟨l * Real.cos (a1 + u * d), l * Real.sin (a1 + u * d)⟩
      ∧ 998 / 1000 ≤ l ∧ l ≤ 1 := by
  obtain ⟨σ, hσ, hσd⟩ := exists_dir d
  obtain ⟨e0, e1⟩ := cubic_unit_ends_real arc a1 d
  obtain ⟨cx, cy⟩ := cubic_sample_continuous (cubicAt (unitArc arc) a1 d)
  obtain ⟨t, l, t0, t1, hx, hy, l0, l1⟩ := radial_hit
    (fun t => ((cubicAt (unitArc arc) a1 d).sample t).x) (fun t => ((cubicAt (unitArc arc) a1 d).sample t).y)
    cx cy a1 d σ (998 / 1000) 1 u hσ hd hσd (by norm_num) (by norm_num) (le_refl _)
    ⟨by simp only [e0], by simp only [e0]⟩ ⟨by simp only [e1], by simp only [e1]⟩
    (fun t h0 h1 => cubic_unit_radius_real arc a1 d t hd h0 h1)
    (fun t h0 h1 => ⟨cubic_unit_dir_real arc a1 d σ 0 t hσ hd hσd (le_refl _) h0 h1,
      cubic_unit_dir_real arc a1 d σ t 1 hσ hd hσd h0 h1 (le_refl _)⟩) hu0 hu1
  exact ⟨t, l, t0, t1, P.ext' hx hy, l0, l1⟩

/-- distance between the `ellMap` images of `e` and `l·e`, `e` on the unit circle -/
theorem ellMap_radial_sqDist (arc : Arc ℝ) (θ l k : ℝ) (hk : |1 - l| ≤ k) :
    sqDist (ellMap arc ⟨Real.cos θ, Real.sin θ⟩) (ellMap arc ⟨l * Real.cos θ, l * Real.sin θ⟩)
      ≤ (Max.max |arc.radii.x| |arc.radii.y| * k) * (Max.max |arc.radii.x| |arc.radii.y| * k) := by
  have hm := ellMap_sqDist_le arc ⟨Real.cos θ, Real.sin θ⟩ ⟨l * Real.cos θ, l * Real.sin θ⟩
    (Max.max |arc.radii.x| |arc.radii.y|) (exactTrig_real.cos_sq_add_sin_sq _)
    (le_max_left _ _) (le_max_right _ _)
  have hd : sqDist (⟨Real.cos θ, Real.sin θ⟩ : P ℝ) ⟨l * Real.cos θ, l * Real.sin θ⟩ = (1 - l) * (1 - l) := by
    have := Real.cos_sq_add_sin_sq θ
    simp only [sqDist]
    linear_combination ((1 - l) * (1 - l)) * this
  rw [hd] at hm
  have hk0 : 0 ≤ k := le_trans (abs_nonneg _) hk
  have h2 : (1 - l) * (1 - l) ≤ k * k := by
    rw [← abs_mul_abs_self (1 - l)]; exact mul_self_le_mul_self (abs_nonneg _) hk
  nlinarith [mul_le_mul_of_nonneg_left h2 (mul_self_nonneg (Max.max |arc.radii.x| |arc.radii.y|))]

/-- for `|sweep| ≤ 2π` and `n > 0` steps (`ns = n` the float count, `step = sweep/n`): the arc's
angle at `s ∈ [0,1]` is `angleAt j + u·step` for some piece index `j < n` and `u ∈ [0,1]` -/
theorem arc_angle_in_piece (arc : Arc ℝ) (ns : ℝ) (n : Nat) (hn : 0 < n) (hcast : (n : ℝ) = ns)
    (hsw : |arc.sweep| ≤ 2 * Real.pi) (s : ℝ) (hs0 : 0 ≤ s) (hs1 : s ≤ 1) :
    ∃ (j : Nat) (u : ℝ), j < n ∧ 0 ≤ u ∧ u ≤ 1
      ∧ arc.getAngle s = angleAt arc (stepOf arc ns) j + u * stepOf arc ns := by
  have hnpos : (0 : ℝ) < (n : ℝ) := by exact_mod_cast hn
  have he : effSweep arc = |arc.sweep| := by
    rw [effSweep_real]; exact min_eq_left (by linarith)
  have hstep : stepOf arc ns * (n : ℝ) = arc.sweep := by
    simp only [stepOf, he, ← hcast]
    have := abs_mul_signum arc.sweep
    field_simp
    linarith
  have hsn0 : 0 ≤ s * n := by positivity
  have hsn1 : s * n ≤ n := by nlinarith
  refine ⟨min ⌊s * (n : ℝ)⌋₊ (n - 1), s * n - (min ⌊s * (n : ℝ)⌋₊ (n - 1) : Nat), ?_, ?_, ?_, ?_⟩
  · exact lt_of_le_of_lt (min_le_right _ _) (by omega)
  · have h1 : ((min ⌊s * (n : ℝ)⌋₊ (n - 1) : Nat) : ℝ) ≤ (⌊s * n⌋₊ : ℝ) := by
      exact_mod_cast min_le_left _ _
    have h2 := Nat.floor_le hsn0
    linarith
  · rcases Nat.le_total ⌊s * (n : ℝ)⌋₊ (n - 1) with h | h
    · rw [min_eq_left h]
      have := Nat.lt_floor_add_one (s * (n : ℝ))
      linarith
    · rw [min_eq_right h]
      have : ((n - 1 : Nat) : ℝ) = (n : ℝ) - 1 := by
        rw [Nat.cast_sub (by omega)]; simp
      rw [this]; linarith
  · simp only [Arc.getAngle, angleAt, ofNat_eq]
    rw [← hstep]; ring

end Lyon.C13
