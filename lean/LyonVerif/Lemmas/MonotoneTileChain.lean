/-
  C02 growth 3 (`Props/C02f.lean`), part 2: sweep-monotone chains, the region between two chains,
  and the bookkeeping relation `Tiles`.

  * `ChainIn c C q` — `q` lies strictly on the INNER side of the chain `C` (a list of points,
    strictly increasing in sweep order) of side `c`: the unique edge `a → b` of `C` with
    `a ≤ q < b` in sweep order has `sg c · wind a b q > 0`.  (The sweep order is the lexicographic
    `(y, x)` order, so horizontal edges need no special case.)
  * `InPoly c C O q = ChainIn c C q ∧ ChainIn (!c) O q` — the open region between a chain on side
    `c` and a chain on the other side.
  * `Tiles R I Ic ts R'` — the tiles `ts` (open point sets `I t`, closed `Ic t`) lie inside the
    region `R`, are pairwise disjoint, are disjoint from the smaller region `R' ⊆ R`, and every
    point of `R` is in `R'` or in a closed tile.  Closed under concatenation (`Tiles.trans`),
    reversal, framing by a disjoint region and replacing the regions by equivalent ones.
  * `ear_tiles` — cutting the ear `(x, y, z)` off a chain `A ++ x :: y :: z :: B` (convex at `y`,
    the opposite chain's edge spanning `[x, z]` weakly beyond the three vertices) is one `Tiles` step.
-/
import LyonVerif.Lemmas.MonotoneTileGeom

set_option linter.unusedSectionVars false
set_option linter.unusedVariables false
set_option linter.unusedSimpArgs false

namespace Lyon.C02f
open Lyon Lyon.Mono Lyon.C02 Lyon.C02c

section Geometry
variable {K : Type} [Field K] [LinearOrder K] [IsStrictOrderedRing K]

/-! ## chains -/

/-- strictly increasing in sweep order -/
def SortedP (l : List (P K)) : Prop := l.Pairwise (fun a b => After b a)

/-- `q` is strictly on the inner side of the sweep-monotone chain of side `c` -/
def ChainIn (c : Bool) : List (P K) → P K → Prop
  | a :: b :: r, q => (Span a b q ∧ 0 < sg c * wind a b q) ∨ ChainIn c (b :: r) q
  | _, _ => False

theorem chainIn_cons2 (c : Bool) (a b : P K) (r : List (P K)) (q : P K) :
    ChainIn c (a :: b :: r) q ↔ (Span a b q ∧ 0 < sg c * wind a b q) ∨ ChainIn c (b :: r) q := Iff.rfl

@[simp] theorem chainIn_nil (c : Bool) (q : P K) : ¬ ChainIn c [] q := id
@[simp] theorem chainIn_single (c : Bool) (a q : P K) : ¬ ChainIn c [a] q := id

theorem chainIn_append (c : Bool) (l1 : List (P K)) (x : P K) (l2 : List (P K)) (q : P K) :
    ChainIn c (l1 ++ x :: l2) q ↔ ChainIn c (l1 ++ [x]) q ∨ ChainIn c (x :: l2) q := by
  induction l1 with
  | nil => simp
  | cons a r ih =>
    cases r with
    | nil =>
      simp only [List.cons_append, List.nil_append, chainIn_cons2]
      constructor
      · rintro (h | h)
        · exact Or.inl (Or.inl h)
        · exact Or.inr h
      · rintro ((h | h) | h)
        · exact Or.inl h
        · exact absurd h (chainIn_single c x q)
        · exact Or.inr h
    | cons b r' =>
      simp only [List.cons_append, chainIn_cons2] at ih ⊢
      rw [ih, or_assoc]

theorem chainIn_lower (c : Bool) (a : P K) (l : List (P K)) (q : P K) (hs : SortedP (a :: l))
    (h : ChainIn c (a :: l) q) : AfterEq q a := by
  induction l generalizing a with
  | nil => exact absurd h (chainIn_single c a q)
  | cons b r ih =>
    rcases h with ⟨h, _⟩ | h
    · exact h.1
    · have hb := ih b (List.Pairwise.of_cons hs) h
      have hab : After b a := List.rel_of_pairwise_cons hs (by simp)
      exact Or.inr (afterEq_trans_after hb hab)

theorem chainIn_upper (c : Bool) (l : List (P K)) (q z : P K) (hs : SortedP l) (hz : l.getLast? = some z)
    (h : ChainIn c l q) : After z q := by
  induction l with
  | nil => exact absurd h (chainIn_nil c q)
  | cons a r ih =>
    cases r with
    | nil => exact absurd h (chainIn_single c a q)
    | cons b r' =>
      rw [List.getLast?_cons_cons] at hz
      rcases h with ⟨h, _⟩ | h
      · have hzb : AfterEq z b := by
          have hs' : SortedP (b :: r') := List.Pairwise.of_cons hs
          cases r' with
          | nil => simp at hz; exact Or.inl hz.symm
          | cons c' r'' =>
            right
            exact List.rel_of_pairwise_cons hs' (List.mem_of_getLast? (by rw [List.getLast?_cons_cons] at hz; exact hz))
        rcases hzb with e | e
        · rw [e]; exact h.2
        · exact after_trans e h.2
      · exact ih (List.Pairwise.of_cons hs) hz h

/-- the open region between a chain `C` on side `c` and a chain `O` on the other side -/
def InPoly (c : Bool) (C O : List (P K)) (q : P K) : Prop := ChainIn c C q ∧ ChainIn (!c) O q

theorem inPoly_swap (c : Bool) (C O : List (P K)) (q : P K) : InPoly (!c) O C q ↔ InPoly c C O q := by
  simp only [InPoly, Bool.not_not]; exact and_comm

/-! ## closed triangles -/

def InTriC (a b c q : P K) : Prop := 0 ≤ wind a b q ∧ 0 ≤ wind b c q ∧ 0 ≤ wind c a q

def InTriSC (σ : Bool) (x y z q : P K) : Prop :=
  0 ≤ sg σ * wind x y q ∧ 0 ≤ sg σ * wind y z q ∧ 0 ≤ sg σ * wind z x q

theorem inTriSC_true (x y z q : P K) : InTriSC true x y z q ↔ InTriC x y z q := by
  simp [InTriSC, InTriC, sg]

theorem inTriSC_false (x y z q : P K) : InTriSC false x y z q ↔ InTriC y x z q := by
  simp only [InTriSC, InTriC, sg, Bool.false_eq_true, if_false, neg_one_mul]
  rw [wind_swap x y q, wind_swap z x q, wind_swap y z q]
  constructor
  · rintro ⟨h1, h2, h3⟩; exact ⟨by linarith, by linarith, by linarith⟩
  · rintro ⟨h1, h2, h3⟩; exact ⟨by linarith, by linarith, by linarith⟩

/-! ## the bookkeeping relation -/

/-- tiles `ts` cut the region `R` down to `R'` -/
structure Tiles {T : Type} (R : P K → Prop) (I Ic : T → P K → Prop) (ts : List T) (R' : P K → Prop) : Prop where
  /-- every tile lies inside `R` -/
  inside : ∀ t ∈ ts, ∀ q, I t q → R q
  /-- what remains is part of `R` -/
  sub : ∀ q, R' q → R q
  /-- no tile meets what remains -/
  apart : ∀ t ∈ ts, ∀ q, I t q → ¬ R' q
  /-- the tiles are pairwise disjoint -/
  disj : ts.Pairwise (fun t t' => ∀ q, ¬ (I t q ∧ I t' q))
  /-- every point of `R` is in what remains or in a closed tile -/
  cover : ∀ q, R q → R' q ∨ ∃ t ∈ ts, Ic t q

namespace Tiles
variable {T : Type} {R R' R'' : P K → Prop} {I Ic : T → P K → Prop} {ts ts' : List T}

theorem refl (R : P K → Prop) (I Ic : T → P K → Prop) : Tiles R I Ic [] R :=
  ⟨by simp, fun _ h => h, by simp, List.Pairwise.nil, fun _ h => Or.inl h⟩

theorem trans (h1 : Tiles R I Ic ts R') (h2 : Tiles R' I Ic ts' R'') : Tiles R I Ic (ts ++ ts') R'' := by
  refine ⟨?_, fun q h => h1.sub q (h2.sub q h), ?_, ?_, ?_⟩
  · intro t ht q hq
    rcases List.mem_append.mp ht with g | g
    · exact h1.inside t g q hq
    · exact h1.sub q (h2.inside t g q hq)
  · intro t ht q hq hr
    rcases List.mem_append.mp ht with g | g
    · exact h1.apart t g q hq (h2.sub q hr)
    · exact h2.apart t g q hq hr
  · rw [List.pairwise_append]
    refine ⟨h1.disj, h2.disj, ?_⟩
    intro a ha b hb q ⟨qa, qb⟩
    exact h1.apart a ha q qa (h2.inside b hb q qb)
  · intro q hq
    rcases h1.cover q hq with g | ⟨t, ht, g⟩
    · rcases h2.cover q g with g' | ⟨t, ht, g'⟩
      · exact Or.inl g'
      · exact Or.inr ⟨t, List.mem_append_right _ ht, g'⟩
    · exact Or.inr ⟨t, List.mem_append_left _ ht, g⟩

theorem reverse (h : Tiles R I Ic ts R') : Tiles R I Ic ts.reverse R' := by
  refine ⟨fun t ht => h.inside t (List.mem_reverse.mp ht), h.sub, fun t ht => h.apart t (List.mem_reverse.mp ht), ?_, ?_⟩
  · rw [List.pairwise_reverse]
    exact h.disj.imp (fun hab q ⟨qa, qb⟩ => hab q ⟨qb, qa⟩)
  · intro q hq
    rcases h.cover q hq with g | ⟨t, ht, g⟩
    · exact Or.inl g
    · exact Or.inr ⟨t, List.mem_reverse.mpr ht, g⟩

/-- add a region `X` disjoint from `R` on both sides -/
theorem frame (h : Tiles R I Ic ts R') (X : P K → Prop) (hx : ∀ q, R q → ¬ X q) :
    Tiles (fun q => R q ∨ X q) I Ic ts (fun q => R' q ∨ X q) := by
  refine ⟨fun t ht q hq => Or.inl (h.inside t ht q hq), ?_, ?_, h.disj, ?_⟩
  · rintro q (g | g)
    · exact Or.inl (h.sub q g)
    · exact Or.inr g
  · rintro t ht q hq (g | g)
    · exact h.apart t ht q hq g
    · exact hx q (h.inside t ht q hq) g
  · rintro q (g | g)
    · rcases h.cover q g with g' | g'
      · exact Or.inl (Or.inl g')
      · exact Or.inr g'
    · exact Or.inl (Or.inr g)

/-- replace the regions: `R ⊆ R₀ ⊆ R ∪ closed tiles`, `R' = R₁` -/
theorem rebase {R0 R1 : P K → Prop} (h : Tiles R I Ic ts R') (h0 : ∀ q, R q → R0 q)
    (h0c : ∀ q, R0 q → R q ∨ ∃ t ∈ ts, Ic t q) (h1 : ∀ q, R1 q ↔ R' q) : Tiles R0 I Ic ts R1 := by
  refine ⟨fun t ht q hq => h0 q (h.inside t ht q hq), fun q hq => h0 q (h.sub q ((h1 q).mp hq)),
    fun t ht q hq hr => h.apart t ht q hq ((h1 q).mp hr), h.disj, ?_⟩
  intro q hq
  rcases h0c q hq with g | g
  · rcases h.cover q g with g' | g'
    · exact Or.inl ((h1 q).mpr g')
    · exact Or.inr g'
  · exact Or.inr g

/-- change the tile type along a map that preserves the point sets -/
theorem map {T' : Type} {I' Ic' : T' → P K → Prop} (f : T → T') (h : Tiles R I Ic ts R')
    (hI : ∀ t ∈ ts, ∀ q, I' (f t) q ↔ I t q) (hIc : ∀ t ∈ ts, ∀ q, Ic t q → Ic' (f t) q) :
    Tiles R I' Ic' (ts.map f) R' := by
  refine ⟨?_, h.sub, ?_, ?_, ?_⟩
  · intro t' ht' q hq
    obtain ⟨t, ht, rfl⟩ := List.mem_map.mp ht'
    exact h.inside t ht q ((hI t ht q).mp hq)
  · intro t' ht' q hq
    obtain ⟨t, ht, rfl⟩ := List.mem_map.mp ht'
    exact h.apart t ht q ((hI t ht q).mp hq)
  · rw [List.pairwise_map]
    refine h.disj.imp_of_mem ?_
    intro a b ha hb hab q ⟨qa, qb⟩
    exact hab q ⟨(hI a ha q).mp qa, (hI b hb q).mp qb⟩
  · intro q hq
    rcases h.cover q hq with g | ⟨t, ht, g⟩
    · exact Or.inl g
    · exact Or.inr ⟨f t, List.mem_map_of_mem ht, hIc t ht q g⟩

end Tiles

/-! ## cutting an ear off a chain -/

/-- two more turn lemmas, for the covering half: inside the chain `x → y → z` before `y` means
inside of `y → z` as well … -/
theorem turn_cover_xy (c : Bool) {x y z q : P K} (hyx : After y x) (hzy : After z y) (hyq : After y q)
    (h1 : 0 < sg c * wind x y z) (h2 : 0 < sg c * wind x y q) : 0 < sg c * wind y z q := by
  have hu := after_hv hyx
  have hv := after_hv hzy
  have hp := after_hv hyq
  have e1 : wind x y z = (z - y).cross (y - x) := by simp only [wind]; geom_ring
  have e2 : wind x y q = (y - x).cross (y - q) := wind_cross_b x y q
  have e3 : wind y z q = (z - y).cross (y - q) := by simp only [wind]; geom_ring
  rw [e1] at h1; rw [e2] at h2; rw [e3]
  cases c
  · simp only [sg, Bool.false_eq_true, if_false, neg_one_mul] at h1 h2 ⊢
    have a1 : 0 < (y - x).cross (z - y) := by rw [cross_flip]; linarith
    have a2 : 0 < (y - q).cross (y - x) := by rw [cross_flip]; linarith
    have := cross_trans hp hu hv a2 a1
    rw [cross_flip] at this; linarith
  · simp only [sg, if_true, one_mul] at h1 h2 ⊢
    exact cross_trans hv hu hp h1 h2

/-- … and inside of `y → z` at or after `y` means inside of `x → y` -/
theorem turn_cover_yz (c : Bool) {x y z q : P K} (hyx : After y x) (hzy : After z y) (hqy : AfterEq q y)
    (h1 : 0 < sg c * wind x y z) (h2 : 0 < sg c * wind y z q) : 0 < sg c * wind x y q := by
  rcases hqy with e | hqy
  · rw [e, wind_self_left] at h2; simp at h2
  have hu := after_hv hyx
  have hv := after_hv hzy
  have hr := after_hv hqy
  have e1 : wind x y z = (z - y).cross (y - x) := by simp only [wind]; geom_ring
  have e2 : wind y z q = (q - y).cross (z - y) := wind_cross_a y z q
  have e3 : wind x y q = (q - y).cross (y - x) := by simp only [wind]; geom_ring
  rw [e1] at h1; rw [e2] at h2; rw [e3]
  cases c
  · simp only [sg, Bool.false_eq_true, if_false, neg_one_mul] at h1 h2 ⊢
    have a1 : 0 < (y - x).cross (z - y) := by rw [cross_flip]; linarith
    have a2 : 0 < (z - y).cross (q - y) := by rw [cross_flip]; linarith
    have := cross_trans hu hv hr a1 a2
    rw [cross_flip] at this; linarith
  · simp only [sg, if_true, one_mul] at h1 h2 ⊢
    exact cross_trans hr hv hu h2 h1

variable (c : Bool) (A B : List (P K)) {x y z : P K}

/-- what remains after the cut is inside the chain before the cut -/
theorem ear_chain_sub (hyx : After y x) (hzy : After z y) (hconv : 0 < sg c * wind x y z) (q : P K)
    (h : ChainIn c (A ++ x :: z :: B) q) : ChainIn c (A ++ x :: y :: z :: B) q := by
  rw [chainIn_append] at h ⊢
  rcases h with h | h
  · exact Or.inl h
  right
  rcases h with ⟨⟨hqx, hzq⟩, hin⟩ | h
  · have hzx := after_trans hzy hyx
    rcases after_total y q with g | g | g
    · exact Or.inl ⟨⟨hqx, g⟩, turn_from_x c hyx hzx hqx hconv hin⟩
    · exact Or.inr (Or.inl ⟨⟨Or.inl g.symm, hzq⟩, turn_to_z c hzx hzy hzq hconv hin⟩)
    · exact Or.inr (Or.inl ⟨⟨Or.inr g, hzq⟩, turn_to_z c hzx hzy hzq hconv hin⟩)
  · exact Or.inr (Or.inr h)

/-- the ear is inside the chain -/
theorem ear_chain_tri (hyx : After y x) (hzy : After z y) (q : P K) (h : InTriS c x y z q) :
    ChainIn c (A ++ x :: y :: z :: B) q := by
  obtain ⟨hqx, hzq⟩ := inTriS_after hyx hzy h
  rw [chainIn_append]
  right
  rcases after_total y q with g | g | g
  · exact Or.inl ⟨⟨Or.inr hqx, g⟩, h.1⟩
  · exact Or.inr (Or.inl ⟨⟨Or.inl g.symm, hzq⟩, h.2.1⟩)
  · exact Or.inr (Or.inl ⟨⟨Or.inr g, hzq⟩, h.2.1⟩)

/-- the ear does not meet what remains -/
theorem ear_chain_apart (hyx : After y x) (hzy : After z y) (hA : SortedP (A ++ [x])) (hB : SortedP (z :: B))
    (q : P K) (h : InTriS c x y z q) : ¬ ChainIn c (A ++ x :: z :: B) q := by
  obtain ⟨hqx, hzq⟩ := inTriS_after hyx hzy h
  rw [chainIn_append]
  rintro (g | ⟨_, g⟩ | g)
  · have := chainIn_upper c (A ++ [x]) q x hA (by simp) g
    exact after_asymm this hqx
  · have := h.2.2
    rw [wind_swap, mul_neg] at this
    linarith
  · have := chainIn_lower c z B q hB g
    exact not_after_of_afterEq this hzq

/-- every point inside the chain is inside what remains or in the closed ear -/
theorem ear_chain_cover (hyx : After y x) (hzy : After z y) (hconv : 0 < sg c * wind x y z) (q : P K)
    (h : ChainIn c (A ++ x :: y :: z :: B) q) : ChainIn c (A ++ x :: z :: B) q ∨ InTriSC c x y z q := by
  rw [chainIn_append] at h
  rw [chainIn_append]
  have hzx := after_trans hzy hyx
  rcases h with h | ⟨⟨hqx, hyq⟩, hin⟩ | ⟨⟨hqy, hzq⟩, hin⟩ | h
  · exact Or.inl (Or.inl h)
  · by_cases g : 0 < sg c * wind x z q
    · exact Or.inl (Or.inr (Or.inl ⟨⟨hqx, after_trans hzy hyq⟩, g⟩))
    · right
      refine ⟨hin.le, (turn_cover_xy c hyx hzy hyq hconv hin).le, ?_⟩
      rw [wind_swap, mul_neg]; linarith [not_lt.mp g]
  · by_cases g : 0 < sg c * wind x z q
    · exact Or.inl (Or.inr (Or.inl ⟨⟨Or.inr (afterEq_trans_after hqy hyx), hzq⟩, g⟩))
    · right
      refine ⟨(turn_cover_yz c hyx hzy hqy hconv hin).le, hin.le, ?_⟩
      rw [wind_swap, mul_neg]; linarith [not_lt.mp g]
  · exact Or.inl (Or.inr (Or.inr h))

/-- **one ear cut**: chain `A ++ x :: y :: z :: B` on side `c`, strictly convex at `y`; the
opposite chain `o₁ :: o₂ :: O` has its first edge spanning `[x, z]` with `x, z` weakly and `y`
strictly on its inner side.  Then the open triangle `(x, y, z)` lies in the region, the region with
`y` removed from the chain is a sub-region disjoint from it, and together with the closed triangle
it covers the region. -/
theorem ear_tiles {o1 o2 : P K} (O : List (P K)) (hyx : After y x) (hzy : After z y)
    (hconv : 0 < sg c * wind x y z) (hA : SortedP (A ++ [x])) (hB : SortedP (z :: B))
    (hxo : AfterEq x o1) (hzo : AfterEq o2 z)
    (hx : 0 ≤ sg (!c) * wind o1 o2 x) (hy : 0 < sg (!c) * wind o1 o2 y) (hz : 0 ≤ sg (!c) * wind o1 o2 z) :
    Tiles (InPoly c (A ++ x :: y :: z :: B) (o1 :: o2 :: O)) (fun (_ : Unit) => InTriS c x y z)
      (fun _ => InTriSC c x y z) [()] (InPoly c (A ++ x :: z :: B) (o1 :: o2 :: O)) := by
  refine ⟨?_, ?_, ?_, by simp, ?_⟩
  · intro _ _ q hq
    refine ⟨ear_chain_tri c A B hyx hzy q hq, Or.inl ⟨⟨?_, ?_⟩, inTriS_side hq hx hy hz⟩⟩
    · exact Or.inr (after_trans_afterEq (inTriS_after hyx hzy hq).1 hxo)
    · exact afterEq_trans_after hzo (inTriS_after hyx hzy hq).2
  · rintro q ⟨h1, h2⟩
    exact ⟨ear_chain_sub c A B hyx hzy hconv q h1, h2⟩
  · rintro _ _ q hq ⟨h1, _⟩
    exact ear_chain_apart c A B hyx hzy hA hB q hq h1
  · rintro q ⟨h1, h2⟩
    rcases ear_chain_cover c A B hyx hzy hconv q h1 with g | g
    · exact Or.inl ⟨g, h2⟩
    · exact Or.inr ⟨(), by simp, g⟩

end Geometry

end Lyon.C02f
