/-
  C13 — real-number helper lemmas for `Props/C13b.lean`:
  * `cubic_half_angle_real`: half-angle data of a step `|δ| ≤ π/2` over ℝ, the relation
    `3α² + 4scα = 4s²` for lyon's `α = cubicAlpha δ`, and `β² ≤ 0.003996` (`cubic_beta_bound`);
  * `emitted_pieces_real`: every piece emitted for a real arc is `quadAt` / `cubicAt` at some start
    angle with lyon's step, which is at most 45° / 90° (`step_bounds_real`).
-/
import LyonVerif.Lemmas.SvgArcRealCubic
import LyonVerif.Lemmas.SvgArcReal

set_option linter.unusedSectionVars false
set_option linter.unusedVariables false
set_option linter.unusedSimpArgs false

namespace Lyon.C13
open Lyon Scalar ArcConv Real

/-- half-angle data of a step `|δ| ≤ π/2`, the relation for lyon's `α`, and the size of `β` -/
theorem cubic_half_angle_real (d : ℝ) (hd : |d| ≤ Real.pi / 2) :
    Real.cos (d / 2) * Real.cos (d / 2) + Real.sin (d / 2) * Real.sin (d / 2) = 1
    ∧ Real.cos d = 1 - 2 * (Real.sin (d / 2) * Real.sin (d / 2))
    ∧ Real.sin d = 2 * (Real.sin (d / 2) * Real.cos (d / 2))
    ∧ 3 * (cubicAlpha d * cubicAlpha d) + 4 * (Real.sin (d / 2) * Real.cos (d / 2)) * cubicAlpha d
        = 4 * (Real.sin (d / 2) * Real.sin (d / 2))
    ∧ (Real.sin (d / 2) / 2 - 3 * cubicAlpha d * Real.cos (d / 2) / 4)
        * (Real.sin (d / 2) / 2 - 3 * cubicAlpha d * Real.cos (d / 2) / 4) ≤ 3996 / 1000000 := by
  have hpi := Real.pi_pos
  obtain ⟨hl, hu⟩ := abs_le.mp hd
  have hsc := Real.sin_sq_add_cos_sq (d / 2)
  have hcp : 0 < Real.cos (d / 2) :=
    Real.cos_pos_of_mem_Ioo ⟨by linarith, by linarith⟩
  have h2 : Real.cos d = 2 * Real.cos (d / 2) ^ 2 - 1 := by
    have := Real.cos_two_mul (d / 2)
    rwa [show 2 * (d / 2) = d by ring] at this
  have h1 : Real.sin d = 2 * Real.sin (d / 2) * Real.cos (d / 2) := by
    have := Real.sin_two_mul (d / 2)
    rwa [show 2 * (d / 2) = d by ring] at this
  have hh : (Scalar.half : ℝ) = 1 / 2 := sc_half
  have htan : Transc.tan (d * Scalar.half) * Real.cos (d / 2) = Real.sin (d / 2) := by
    rw [transc_tan_real, hh, show d * (1 / 2 : ℝ) = d / 2 by ring, Real.tan_eq_sin_div_cos,
      div_mul_cancel₀ _ (ne_of_gt hcp)]
  have hunit : Real.cos (d / 2) * Real.cos (d / 2) + Real.sin (d / 2) * Real.sin (d / 2) = 1 := by
    nlinarith
  have hsin' : Transc.sin d = 2 * (Real.sin (d / 2) * Real.cos (d / 2)) := by
    rw [transc_sin_real, h1]; ring
  have hA : Transc.sqrt (4 + 3 * Transc.tan (d * Scalar.half) * Transc.tan (d * Scalar.half))
        * Transc.sqrt (4 + 3 * Transc.tan (d * Scalar.half) * Transc.tan (d * Scalar.half))
        = 4 + 3 * Transc.tan (d * Scalar.half) * Transc.tan (d * Scalar.half) := by
    rw [transc_sqrt_real]
    apply Real.mul_self_sqrt
    nlinarith [mul_self_nonneg (Transc.tan (d * Scalar.half) : ℝ)]
  obtain ⟨eα, hrel⟩ := cubicAlpha_rel d (Real.cos (d / 2)) (Real.sin (d / 2)) hunit hsin' htan hA
  refine ⟨hunit, by nlinarith, by rw [h1]; ring, hrel, ?_⟩
  -- the size of β
  have hA0 : 0 ≤ Transc.sqrt (4 + 3 * Transc.tan (d * Scalar.half) * Transc.tan (d * Scalar.half)) := by
    rw [transc_sqrt_real]; exact Real.sqrt_nonneg _
  rw [eα]
  -- c² ≥ 1/2
  have hc4 : Real.cos (Real.pi / 4) ≤ Real.cos |d / 2| :=
    Real.cos_le_cos_of_nonneg_of_le_pi (abs_nonneg _) (by linarith)
      (by rw [abs_le]; constructor <;> linarith)
  rw [Real.cos_abs, Real.cos_pi_div_four] at hc4
  have hX : 1 / 2 ≤ Real.cos (d / 2) * Real.cos (d / 2) := by
    have h2s : Real.sqrt 2 * Real.sqrt 2 = 2 := Real.mul_self_sqrt (by norm_num)
    have h0 : 0 ≤ Real.sqrt 2 / 2 := by positivity
    nlinarith [mul_self_le_mul_self h0 hc4]
  exact cubic_beta_bound (Real.sin (d / 2)) (Real.cos (d / 2)) _ _ hunit htan hA hA0 hX

/-- every emitted quadratic is `quadAt` at some start angle with lyon's step, `|step| ≤ π/4`;
every emitted cubic is `cubicAt` with `|step| ≤ π/2` -/
theorem emitted_pieces_real (arc : Arc ℝ) :
    (∀ x ∈ quadsWithT arc, ∃ a1, x.1 = quadAt arc a1 (stepQ arc))
    ∧ (∀ x ∈ cubics arc, ∃ a1, x = cubicAt arc a1 (stepC arc))
    ∧ |stepQ arc| ≤ Real.pi / 4 ∧ |stepC arc| ≤ Real.pi / 2 := by
  obtain ⟨b1, b2⟩ := step_bounds_real arc
  refine ⟨?_, ?_, b1, b2⟩
  · intro x hx
    rw [quads_closed_form, List.mem_map] at hx
    obtain ⟨j, _, rfl⟩ := hx
    exact ⟨_, quadPiece_eq_quadAt arc _ j⟩
  · intro x hx
    rw [cubics_closed_form, List.mem_map] at hx
    obtain ⟨j, _, rfl⟩ := hx
    exact ⟨_, cubicPiece_eq_cubicAt arc _ j⟩

end Lyon.C13
