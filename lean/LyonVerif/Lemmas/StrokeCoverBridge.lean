/-
  C06c, part 5: the join geometry of the COMPLETE stroker model (`StrokeFull.joinSidesFw`,
  `compute_join_side_positions_fixed_width` inside `StrokeBuilderImpl`) IS the component model of
  `Model/Tess/StrokeQuad.lean` (`joinSidesT`) that `Props/C06.lean` reasons about — for every scalar type
  (floats included), on an endpoint as `begin` / `line_to` create it.
-/
import LyonVerif.Model.Tess.StrokeFull
import Mathlib.Tactic.SplitIfs

set_option linter.unusedSectionVars false
set_option linter.unusedVariables false

namespace Lyon.C06b
open Lyon Scalar Lyon.Stroke Lyon.Stroke.Full
open Lyon.StrokeQuad (joinSidesT frontSide clipSide foldTest Side2 JoinSides)

section
variable {α : Type} [Scalar α] [Transc α]

theorem joinSidesFw_eq_joinSidesT (ix : Lyon.StrokeQuad.Ix α) (prev join next : EP α) (ml hw : α)
    (hps : join.pos.single = none) (hns : join.neg.single = none)
    (hfp : join.foldPos = false) (hfn : join.foldNeg = false) :
    (joinSidesFw ix prev join next ml hw).pos.prev
        = (joinSidesT ix (fwGeo prev join next ml hw).pt (fwGeo prev join next ml hw).nt (fwGeo prev join next ml hw).pl
            (fwGeo prev join next ml hw).nl join.position hw ml join.lineJoin).pos.prev
    ∧ (joinSidesFw ix prev join next ml hw).pos.next
        = (joinSidesT ix (fwGeo prev join next ml hw).pt (fwGeo prev join next ml hw).nt (fwGeo prev join next ml hw).pl
            (fwGeo prev join next ml hw).nl join.position hw ml join.lineJoin).pos.next
    ∧ (joinSidesFw ix prev join next ml hw).pos.single
        = (joinSidesT ix (fwGeo prev join next ml hw).pt (fwGeo prev join next ml hw).nt (fwGeo prev join next ml hw).pl
            (fwGeo prev join next ml hw).nl join.position hw ml join.lineJoin).pos.single
    ∧ (joinSidesFw ix prev join next ml hw).neg.prev
        = (joinSidesT ix (fwGeo prev join next ml hw).pt (fwGeo prev join next ml hw).nt (fwGeo prev join next ml hw).pl
            (fwGeo prev join next ml hw).nl join.position hw ml join.lineJoin).neg.prev
    ∧ (joinSidesFw ix prev join next ml hw).neg.next
        = (joinSidesT ix (fwGeo prev join next ml hw).pt (fwGeo prev join next ml hw).nt (fwGeo prev join next ml hw).pl
            (fwGeo prev join next ml hw).nl join.position hw ml join.lineJoin).neg.next
    ∧ (joinSidesFw ix prev join next ml hw).neg.single
        = (joinSidesT ix (fwGeo prev join next ml hw).pt (fwGeo prev join next ml hw).nt (fwGeo prev join next ml hw).pl
            (fwGeo prev join next ml hw).nl join.position hw ml join.lineJoin).neg.single
    ∧ (joinSidesFw ix prev join next ml hw).foldPos
        = (joinSidesT ix (fwGeo prev join next ml hw).pt (fwGeo prev join next ml hw).nt (fwGeo prev join next ml hw).pl
            (fwGeo prev join next ml hw).nl join.position hw ml join.lineJoin).foldPos
    ∧ (joinSidesFw ix prev join next ml hw).foldNeg
        = (joinSidesT ix (fwGeo prev join next ml hw).pt (fwGeo prev join next ml hw).nt (fwGeo prev join next ml hw).pl
            (fwGeo prev join next ml hw).nl join.position hw ml join.lineJoin).foldNeg := by
  unfold joinSidesFw joinSidesT frontFix frontSide clipSide foldTest fwGeo Side2.setSingle
  cases hlj : join.lineJoin <;> simp [hps, hns, hfp, hfn, Lyon.StrokeQuad.foldEpsilon] <;> split_ifs <;> simp_all

end

end Lyon.C06b
