/-
  `EventQueue::sort` and the order of the list it builds (pointer level, ordered fields):
  * `sort_pos`: the merge sort only rewrites links - every event keeps its position;
  * `sorted_of_heads`: a `next_event` list whose enumeration `heads` (not cut off by the fuel) has pairwise
    increasing positions is `SortedFrom`;
  * `sort_sorted_of_spec`: when the linked lists of `q.sort` enumerate the list-level specification `Spec.sort`
    (`merge_sort_sorted_perm`, `Props/Sweep.lean`; the model's `tessellate` CHECKS this on every run and reports
    `unmodelled sort-spec-mismatch` otherwise) the list from `first` is `SortedFrom`.
-/
import LyonVerif.Lemmas.SweepQueueOrdInsert
import LyonVerif.Lemmas.SweepQueueOrdLoop
import LyonVerif.Props.Sweep

set_option linter.unusedSectionVars false
set_option linter.unusedVariables false
set_option linter.unusedSimpArgs false

namespace Lyon.SweepSpan
open Lyon Lyon.Scalar Lyon.Sweep Lyon.EQ Lyon.SweepPos

section field
variable {K : Type} [Field K] [LinearOrder K] [IsStrictOrderedRing K]

/-! ### the merge sort keeps the positions -/

def SamePos (evs' evs : Array (Event K)) : Prop := ∀ j, epos evs' j = epos evs j

theorem SamePos.refl (evs : Array (Event K)) : SamePos evs evs := fun _ => rfl
theorem SamePos.trans {a b c : Array (Event K)} (h1 : SamePos a b) (h2 : SamePos b c) : SamePos a c :=
  fun j => (h1 j).trans (h2 j)
theorem samePos_ne (evs : Array (Event K)) (i n : Nat) : SamePos (Queue.setNextEvent evs i n) evs :=
  fun j => epos_setNextEvent evs i n j
theorem samePos_ns (evs : Array (Event K)) (i n : Nat) : SamePos (Queue.setNextSibling evs i n) evs :=
  fun j => epos_setNextSibling evs i n j

theorem mergeLoop_pos : ∀ (f : Nat) (evs : Array (Event K)) (a b : Nat) (first : Bool) (head prev : Nat),
    SamePos (Queue.mergeLoop f evs a b first head prev).1 evs
  | 0, evs, a, b, first, head, prev => by
    simp only [Queue.mergeLoop]; exact SamePos.refl _
  | f+1, evs, a, b, first, head, prev => by
    simp only [Queue.mergeLoop]
    by_cases ha0 : (a == INVALID) = true
    · rw [if_pos ha0]
      cases first
      · exact samePos_ne _ _ _
      · exact SamePos.refl _
    · rw [if_neg ha0]
      by_cases hb0 : (b == INVALID) = true
      · rw [if_pos hb0]
        cases first
        · exact samePos_ne _ _ _
        · exact SamePos.refl _
      · rw [if_neg hb0]
        generalize Queue.findLastSibling evs (evs.size + 1) a = ls
        generalize evs.getD a Event.dflt = ea
        generalize evs.getD b Event.dflt = eb
        cases comparePositions ea.pos eb.pos
        · dsimp only
          cases first
          · exact (mergeLoop_pos f _ _ _ _ _ _).trans (samePos_ne _ _ _)
          · exact mergeLoop_pos f _ _ _ _ _ _
        · dsimp only
          exact (mergeLoop_pos f _ _ _ _ _ _).trans (samePos_ns _ _ _)
        · dsimp only
          cases first
          · exact (mergeLoop_pos f _ _ _ _ _ _).trans (samePos_ne _ _ _)
          · exact mergeLoop_pos f _ _ _ _ _ _

theorem merge_pos (evs : Array (Event K)) (a b : Nat) : SamePos (Queue.merge evs a b).1 evs := by
  unfold Queue.merge
  split
  · exact SamePos.refl _
  · split
    · exact SamePos.refl _
    · exact mergeLoop_pos _ _ _ _ _ _ _

theorem mergeSort_pos : ∀ (k : Nat) (evs : Array (Event K)) (s e : Nat), e - s ≤ k →
    SamePos (Queue.mergeSort evs s e).1 evs
  | 0, evs, s, e, hk => by
    rw [Queue.mergeSort]
    dsimp only
    split
    · exact SamePos.refl _
    · split
      · exact SamePos.refl _
      · omega
  | k+1, evs, s, e, hk => by
    rw [Queue.mergeSort]
    dsimp only
    split
    · exact SamePos.refl _
    · split
      · exact SamePos.refl _
      · exact (merge_pos _ _ _).trans ((mergeSort_pos k _ _ _ (by omega)).trans (mergeSort_pos k _ _ _ (by omega)))

/-- **`sort` keeps every position** -/
theorem sort_pos (q : Queue K) (i : Nat) : q.sort.position i = q.position i := by
  unfold Queue.sort
  split
  · rfl
  · exact mergeSort_pos q.events.size q.events 0 q.events.size (by omega) i

/-! ### from the enumeration to the pointer-level predicate -/

theorem heads_valid (q : Queue K) : ∀ (f id : Nat), ∀ h ∈ q.heads f id, h ≠ INVALID
  | 0, id, h, hm => by simp [Queue.heads] at hm
  | f+1, id, h, hm => by
    simp only [Queue.heads] at hm
    split at hm
    · simp at hm
    · rename_i hid
      rcases List.mem_cons.mp hm with e | e
      · rw [e]; simpa using hid
      · exact heads_valid q f _ h e

theorem siblings_head (q : Queue K) (f id : Nat) (hid : id ≠ INVALID) : (q.siblings (f + 1) id).headD 0 = id := by
  simp [Queue.siblings, hid]

/-- a `next_event` list whose complete enumeration has pairwise increasing positions is sorted -/
theorem sorted_of_heads (q : Queue K) : ∀ (f id : Nat), (q.heads f id).length < f →
    (q.heads f id).Pairwise (fun a b => comparePositions (q.position a) (q.position b) = .lt) →
    SortedFrom q.events id
  | 0, id, hl, _ => by omega
  | f+1, id, hl, hp => by
    simp only [Queue.heads] at hl hp
    by_cases hid : (id == INVALID) = true
    · have : id = INVALID := by simpa using hid
      rw [this]; exact .nil
    · rw [if_neg hid] at hl hp
      have hv : id ≠ INVALID := by simpa using hid
      simp only [List.length_cons] at hl
      rw [List.pairwise_cons] at hp
      have ih := sorted_of_heads q f (q.nextId id) (by omega) hp.2
      refine .cons id hv ih ?_
      intro hnx
      have hnx' : q.nextId id ≠ INVALID := hnx
      apply hp.1
      cases f with
      | zero => omega
      | succ f' =>
        simp only [Queue.heads]
        rw [if_neg (by simpa using hnx')]
        exact List.mem_cons_self

theorem length_le_flatten {γ : Type} : ∀ (l : List (List γ)), (∀ g ∈ l, g ≠ []) → l.length ≤ l.flatten.length
  | [], _ => by simp
  | g :: l, h => by
    have := length_le_flatten l (fun g' hg' => h g' (List.mem_cons_of_mem _ hg'))
    have hg : 0 < g.length := List.length_pos_iff.mpr (h g List.mem_cons_self)
    simp only [List.length_cons, List.flatten_cons, List.length_append]
    omega

/-- **`sort` builds a sorted list whenever its linked lists enumerate the list-level specification** (the check
`q.groups != Spec.sort ..` of the model's `tessellate`) -/
theorem sort_sorted_of_spec (q0 : Queue K) (hq0 : SweepRep.QOk q0)
    (hg : q0.sort.groups = Spec.sort q0.position q0.events.size) :
    SortedFrom q0.sort.events q0.sort.first := by
  have hsz := (SweepRep.qok_sort hq0).2.2
  obtain ⟨hperm, hpw, hne, _⟩ := SweepProps.merge_sort_sorted_perm q0.position q0.events.size
  rw [← hg] at hperm hpw hne
  unfold Queue.groups at hperm hpw hne
  have hlen : (q0.sort.heads q0.sort.fuel q0.sort.first).length ≤ q0.events.size := by
    have h1 := length_le_flatten _ (fun g hg' => (hne g hg').1)
    rw [List.length_map] at h1
    have h2 := hperm.length_eq
    rw [List.length_range] at h2
    omega
  have hfuel : q0.sort.fuel = (2 * q0.sort.events.size + 7) + 1 := rfl
  apply sorted_of_heads q0.sort q0.sort.fuel q0.sort.first
  · omega
  · rw [List.pairwise_map] at hpw
    refine hpw.imp_of_mem ?_
    intro a b ha hb hab
    have hva := heads_valid _ _ _ a ha
    have hvb := heads_valid _ _ _ b hb
    rw [hfuel] at hab
    unfold Lyon.SweepProps.key at hab
    rw [siblings_head _ _ _ hva, siblings_head _ _ _ hvb] at hab
    rw [sort_pos, sort_pos]
    exact hab

variable [w : Wide K]

/-- **the queue-order invariant holds of the start state of a run** whose sorted queue passed the model's
specification check - up to `down` for the first event (the edge records of its sibling events point down the
sweep: a property of the queue BUILDER, not proved here) -/
theorem qord_start (q0 : Queue K) (hq0 : SweepRep.QOk q0)
    (hg : q0.sort.groups = Spec.sort q0.position q0.events.size) (rule : Slab.Rule) (horizontal : Bool) (tol : K)
    (handleIx : Bool)
    (hdown : ∀ i ∈ q0.sort.siblings q0.sort.fuel q0.sort.firstId, (q0.sort.ed i).isEdge = true →
      (q0.sort.position q0.sort.firstId).y ≤ (q0.sort.ed i).to.y) :
    QOrd (startSt q0.sort rule horizontal tol handleIx) :=
  ⟨sort_sorted_of_spec q0 hq0 hg, Or.inl rfl, fun e he => by simp [startSt] at he, rfl, hdown⟩

end field

end Lyon.SweepSpan
