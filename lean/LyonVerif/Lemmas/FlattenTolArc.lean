/-
  Helper lemmas for the tolerance clause of ARC flattening (Props/C09b.lean):

  * `TrigLaws`: exactly the laws of `sin`/`cos`/`acos`/`π` the proofs use (discharged for the real
    functions in Props/C09Real.lean);
  * `unit_chord_core`: pure algebra on a circle of radius `R` — a point at angular offset `δ` from
    the middle of a chord of half-angle `h` has a chord point within the sagitta `R(1 − cos h)`;
  * `arc_chord_diff`: the difference between an (elliptic, rotated) arc point and a point of a chord
    between two arc points, in terms of the unit-circle coordinates (the rotation is an isometry,
    the centre cancels, the radii scale the coordinates);
  * `arc_loop_tol`: invariant of the loop of `Arc::for_each_flattened_with_t`: every emitted
    segment's end points are `sample(t0)`, `sample(t1)`, its range lies in [0,1] and spans an angle
    of at most `flattening_step`'s `2·acos((R − tol)/R)`; the ranges cover [0,1].
-/
import LyonVerif.Model.Geom.Flatten
import LyonVerif.Lemmas.Field
import LyonVerif.Lemmas.Flatten

set_option linter.unusedSectionVars false
set_option linter.unusedVariables false

namespace Lyon.Flat
open Lyon Scalar

variable {K : Type} [Field K] [LinearOrder K] [IsStrictOrderedRing K]

/-- The laws of the trigonometric functions used by the arc tolerance theorems. All of them hold
for Mathlib's real functions (`real_trig_laws` in Props/C09Real.lean); `le_cos_acos` is the form of
`cos (acos x) = x` that is also true left of the domain (`Real.arccos x = π` for `x < −1`). -/
structure TrigLaws (K : Type) [Field K] [LinearOrder K] [IsStrictOrderedRing K] [Transc K] : Prop where
  cos_sq_add_sin_sq : ∀ x : K, Transc.cos x * Transc.cos x + Transc.sin x * Transc.sin x = 1
  cos_add : ∀ x y : K, Transc.cos (x + y) = Transc.cos x * Transc.cos y - Transc.sin x * Transc.sin y
  sin_add : ∀ x y : K, Transc.sin (x + y) = Transc.sin x * Transc.cos y + Transc.cos x * Transc.sin y
  cos_neg : ∀ x : K, Transc.cos (-x) = Transc.cos x
  sin_neg : ∀ x : K, Transc.sin (-x) = -Transc.sin x
  /-- `cos` is antitone on `[0, π]` -/
  cos_antitone : ∀ x y : K, 0 ≤ x → x ≤ y → y ≤ Transc.pi → Transc.cos y ≤ Transc.cos x
  acos_nonneg : ∀ x : K, 0 ≤ Transc.acos x
  acos_le_pi : ∀ x : K, Transc.acos x ≤ Transc.pi
  le_cos_acos : ∀ x : K, x ≤ 1 → x ≤ Transc.cos (Transc.acos x)

/-! ## Pure algebra: a chord of a circle -/

/-- On the circle of radius `R`, in the frame of the chord's mid-angle `m` (`cm, sm` = cos/sin of
`m`, `ch, sh` of the half-angle `h`, `cd, sd` of the offset `δ` of the arc point): if
`cos h ≤ cos δ` whenever `cos h ≥ 0`, some point of the chord from angle `m − h` to `m + h` is
within the sagitta `R(1 − cos h) ≤ tol` of the arc point at `m + δ`.
(`cos h ≥ 0`: the foot of the perpendicular lies on the chord; `cos h < 0`: the chord's midpoint.) -/
theorem unit_chord_core (R tol cm sm cd sd ch sh : K)
    (hm : cm * cm + sm * sm = 1) (hd : cd * cd + sd * sd = 1) (hh : ch * ch + sh * sh = 1)
    (hR : 0 ≤ R) (hcd : 0 ≤ ch → ch ≤ cd) (hsag : R * (1 - ch) ≤ tol) :
    ∃ s : K, 0 ≤ s ∧ s ≤ 1 ∧
      R * R * ((cm * cd - sm * sd - ((1 - s) * (cm * ch + sm * sh) + s * (cm * ch - sm * sh))) ^ 2
        + (sm * cd + cm * sd - ((1 - s) * (sm * ch - cm * sh) + s * (sm * ch + cm * sh))) ^ 2)
      ≤ tol * tol := by
  have key : ∀ s : K,
      (cm * cd - sm * sd - ((1 - s) * (cm * ch + sm * sh) + s * (cm * ch - sm * sh))) ^ 2
        + (sm * cd + cm * sd - ((1 - s) * (sm * ch - cm * sh) + s * (sm * ch + cm * sh))) ^ 2
      = (cd - ch) ^ 2 + (sd - (2 * s - 1) * sh) ^ 2 := by
    intro s
    linear_combination ((cd - ch) ^ 2 + (sd - (2 * s - 1) * sh) ^ 2) * hm
  have hch1 : ch ≤ 1 := by nlinarith [mul_self_nonneg sh, mul_self_nonneg (ch - 1)]
  have hcd1 : cd ≤ 1 := by nlinarith [mul_self_nonneg sd, mul_self_nonneg (cd - 1)]
  have hsag0 : 0 ≤ R * (1 - ch) := mul_nonneg hR (by linarith)
  have hfin : R * R * ((1 - ch) ^ 2) ≤ tol * tol := by
    have := mul_self_le_mul_self hsag0 hsag
    calc R * R * ((1 - ch) ^ 2) = R * (1 - ch) * (R * (1 - ch)) := by ring
      _ ≤ tol * tol := this
  have hRR : 0 ≤ R * R := mul_self_nonneg R
  rcases le_or_gt 0 ch with hc | hc
  · -- the foot of the perpendicular
    have hle := hcd hc
    have hsq : sd * sd ≤ sh * sh := by nlinarith
    have hbound : R * R * ((cd - ch) ^ 2) ≤ tol * tol := by
      have h1 : (cd - ch) ^ 2 ≤ (1 - ch) ^ 2 := by nlinarith
      exact le_trans (mul_le_mul_of_nonneg_left h1 hRR) hfin
    by_cases hs0 : sh = 0
    · have hsd : sd = 0 := by
        have : sd * sd ≤ 0 := by rw [hs0] at hsq; simpa using hsq
        exact mul_self_eq_zero.mp (le_antisymm this (mul_self_nonneg sd))
      refine ⟨0, le_refl _, zero_le_one, ?_⟩
      rw [key, hs0, hsd]
      simpa using hbound
    · have hshp : 0 < sh * sh := lt_of_le_of_ne (mul_self_nonneg sh) (Ne.symm (mul_self_ne_zero.mpr hs0))
      have hq : (sd / sh) * (sd / sh) ≤ 1 := by
        rw [div_mul_div_comm, div_le_one hshp]; exact hsq
      have hq1 : sd / sh ≤ 1 := by nlinarith [mul_self_nonneg (sd / sh - 1)]
      have hq2 : -1 ≤ sd / sh := by nlinarith [mul_self_nonneg (sd / sh + 1)]
      refine ⟨(1 + sd / sh) / 2, by linarith, by linarith, ?_⟩
      rw [key]
      have e : (2 * ((1 + sd / sh) / 2) - 1) * sh = sd := by field_simp; ring
      rw [e]
      simpa using hbound
  · -- the chord's midpoint
    refine ⟨1 / 2, by norm_num, by norm_num, ?_⟩
    rw [key]
    have e : (cd - ch) ^ 2 + (sd - (2 * (1 / 2 : K) - 1) * sh) ^ 2 = 1 - 2 * cd * ch + ch * ch := by
      linear_combination hd
    rw [e]
    have h1 : 1 - 2 * cd * ch + ch * ch ≤ (1 - ch) ^ 2 := by nlinarith
    exact le_trans (mul_le_mul_of_nonneg_left h1 hRR) hfin

section trig
variable [Transc K]

theorem TrigLaws.cos_abs (L : TrigLaws K) (x : K) : Transc.cos |x| = Transc.cos x := by
  rcases abs_cases x with ⟨h, _⟩ | ⟨h, _⟩
  · rw [h]
  · rw [h, L.cos_neg]

/-- `cos` is antitone in `|·|` on `[−π, π]` -/
theorem TrigLaws.cos_le_of_abs_le (L : TrigLaws K) (x y : K) (hxy : |x| ≤ |y|) (hy : |y| ≤ Transc.pi) :
    Transc.cos y ≤ Transc.cos x := by
  rw [← L.cos_abs x, ← L.cos_abs y]
  exact L.cos_antitone _ _ (abs_nonneg x) hxy hy

/-- the sagitta of a chord of half-angle `|h| ≤ acos((R − tol)/R)` is within `tol` -/
theorem TrigLaws.sagitta (L : TrigLaws K) (R tol h : K) (hR : 0 < R) (ht : 0 ≤ tol)
    (hh : |h| ≤ Transc.acos ((R - tol) / R)) : R * (1 - Transc.cos h) ≤ tol := by
  have hx1 : (R - tol) / R ≤ 1 := by rw [div_le_one hR]; linarith
  have h1 := L.le_cos_acos _ hx1
  have h2 := L.cos_antitone |h| _ (abs_nonneg h) hh (L.acos_le_pi _)
  rw [L.cos_abs] at h2
  have h3 : (R - tol) / R ≤ Transc.cos h := le_trans h1 h2
  have h4 : R * ((R - tol) / R) = R - tol := by field_simp
  nlinarith [mul_le_mul_of_nonneg_left h3 (le_of_lt hR)]

/-- The unit-circle coordinates of the difference between the arc point at parameter `t` and the
point at relative position `s` of the chord over `[t0, t1]`. -/
noncomputable def chordX (a : Arc K) (t0 t1 t s : K) : K :=
  Transc.cos (a.getAngle t) - ((1 - s) * Transc.cos (a.getAngle t0) + s * Transc.cos (a.getAngle t1))
noncomputable def chordY (a : Arc K) (t0 t1 t s : K) : K :=
  Transc.sin (a.getAngle t) - ((1 - s) * Transc.sin (a.getAngle t0) + s * Transc.sin (a.getAngle t1))

/-- the rotation by `x_rotation` is an isometry, the centre cancels, the radii scale -/
theorem arc_chord_diff (a : Arc K) (t0 t1 t s : K)
    (hφ : Transc.cos a.xrot * Transc.cos a.xrot + Transc.sin a.xrot * Transc.sin a.xrot = 1) :
    (a.sample t - (a.sample t0).lerp (a.sample t1) s).sqLen
      = a.radii.x * a.radii.x * (chordX a t0 t1 t s) ^ 2 + a.radii.y * a.radii.y * (chordY a t0 t1 t s) ^ 2 := by
  simp only [chordX, chordY, geom, Nat.cast_one]
  linear_combination
    (a.radii.x * a.radii.x * (Transc.cos (a.start + a.sweep * t)
        - ((1 - s) * Transc.cos (a.start + a.sweep * t0) + s * Transc.cos (a.start + a.sweep * t1))) ^ 2
     + a.radii.y * a.radii.y * (Transc.sin (a.start + a.sweep * t)
        - ((1 - s) * Transc.sin (a.start + a.sweep * t0) + s * Transc.sin (a.start + a.sweep * t1))) ^ 2) * hφ

/-- every point of the arc is at most the largest radius away from the centre … -/
theorem arc_sample_center (a : Arc K) (t : K)
    (hφ : Transc.cos a.xrot * Transc.cos a.xrot + Transc.sin a.xrot * Transc.sin a.xrot = 1) :
    (a.sample t - a.center).sqLen
      = a.radii.x * a.radii.x * (Transc.cos (a.getAngle t) * Transc.cos (a.getAngle t))
        + a.radii.y * a.radii.y * (Transc.sin (a.getAngle t) * Transc.sin (a.getAngle t)) := by
  simp only [geom]
  linear_combination
    (a.radii.x * a.radii.x * (Transc.cos (a.start + a.sweep * t) * Transc.cos (a.start + a.sweep * t))
     + a.radii.y * a.radii.y * (Transc.sin (a.start + a.sweep * t) * Transc.sin (a.start + a.sweep * t))) * hφ

/-- **the chord lemma on the unit circle, through the trigonometric laws**: for `t ∈ [t0, t1]`
whose angular span `|sweep|·(t1 − t0)` is at most `2·acos((R − tol)/R)`, some `s ∈ [0,1]` puts the
chord point within `tol/R` of the arc point (in unit-circle coordinates, scaled by `R`). -/
theorem unit_chord_trig (L : TrigLaws K) (a : Arc K) (R tol t0 t1 t : K) (hR : 0 < R) (ht : 0 ≤ tol)
    (h0 : t0 ≤ t) (h1 : t ≤ t1)
    (hspan : |a.sweep| * (t1 - t0) ≤ 2 * Transc.acos ((R - tol) / R)) :
    ∃ s : K, 0 ≤ s ∧ s ≤ 1 ∧
      R * R * ((chordX a t0 t1 t s) ^ 2 + (chordY a t0 t1 t s) ^ 2) ≤ tol * tol := by
  set m : K := a.start + a.sweep * ((t0 + t1) / 2) with hm
  set h : K := a.sweep * ((t1 - t0) / 2) with hh
  set d : K := a.sweep * (t - (t0 + t1) / 2) with hd
  have eT : a.getAngle t = m + d := by simp only [Arc.getAngle, hm, hd]; ring
  have e0 : a.getAngle t0 = m + -h := by simp only [Arc.getAngle, hm, hh]; ring
  have e1 : a.getAngle t1 = m + h := by simp only [Arc.getAngle, hm, hh]; ring
  have habs_h : |h| = |a.sweep| * (t1 - t0) / 2 := by
    rw [hh, abs_mul, abs_of_nonneg (by linarith : (0:K) ≤ (t1 - t0) / 2)]; ring
  have hhA : |h| ≤ Transc.acos ((R - tol) / R) := by rw [habs_h]; linarith
  have hdh : |d| ≤ |h| := by
    rw [hd, hh, abs_mul, abs_mul]
    apply mul_le_mul_of_nonneg_left _ (abs_nonneg _)
    rw [abs_of_nonneg (by linarith : (0:K) ≤ (t1 - t0) / 2), abs_le]
    constructor <;> linarith
  have hcd : Transc.cos h ≤ Transc.cos d :=
    L.cos_le_of_abs_le d h hdh (le_trans hhA (L.acos_le_pi _))
  obtain ⟨s, hs0, hs1, hs⟩ := unit_chord_core R tol (Transc.cos m) (Transc.sin m) (Transc.cos d) (Transc.sin d)
    (Transc.cos h) (Transc.sin h) (L.cos_sq_add_sin_sq m) (L.cos_sq_add_sin_sq d) (L.cos_sq_add_sin_sq h)
    (le_of_lt hR) (fun _ => hcd) (L.sagitta R tol h hR ht hhA)
  refine ⟨s, hs0, hs1, ?_⟩
  simp only [chordX, chordY, eT, e0, e1, L.cos_add, L.sin_add, L.cos_neg, L.sin_neg]
  have e : ∀ x y : K, x - -y = x + y := fun x y => by ring
  have e' : ∀ x y : K, x * -y = -(x * y) := fun x y => by ring
  simp only [e', sub_neg_eq_add, ← sub_eq_add_neg]
  exact hs

end trig

/-! ## The loop of `Arc::for_each_flattened_with_t` -/

section loop
variable [Transc K] [FlatConst K]

/-- `2·acos((R − tol)/R)` of `flattening_step`, `R` the largest radius -/
noncomputable def arcAng (a : Arc K) (tol : K) : K :=
  two * Transc.acos ((Scalar.max (Scalar.abs a.radii.x) (Scalar.abs a.radii.y) - tol)
    / Scalar.max (Scalar.abs a.radii.x) (Scalar.abs a.radii.y))

/-- what the loop guarantees for each emitted segment -/
def ArcSegOK (a : Arc K) (ang : K) (sg : FlatSeg K) : Prop :=
  sg.a = a.sample sg.t0 ∧ sg.b = a.sample sg.t1 ∧ 0 ≤ sg.t0 ∧ sg.t0 ≤ sg.t1 ∧ sg.t1 ≤ 1
  ∧ |a.sweep| * (sg.t1 - sg.t0) ≤ ang

theorem arc_step_eq (a iter : Arc K) (tol t0 : K) (h : ArcInv a iter t0) (h1 : t0 ≤ 1) :
    iter.flatteningStep tol
      = if Min.min (arcAng a tol / (|a.sweep| * (1 - t0))) 1 < FlatConst.epsilon then 1
        else Min.min (arcAng a tol / (|a.sweep| * (1 - t0))) 1 := by
  obtain ⟨_, hr, _, _, hs⟩ := h
  have e : |iter.sweep| = |a.sweep| * (1 - t0) := by
    rw [hs, abs_mul, abs_of_nonneg (by linarith : (0:K) ≤ 1 - t0)]
  by_cases hb : Min.min (arcAng a tol / (|a.sweep| * (1 - t0))) 1 < FlatConst.epsilon
  · rw [if_pos hb]
    simp only [arcAng] at hb
    simp only [Arc.flatteningStep, hr, sc_abs, sc_min, sc_one, e]
    exact if_pos hb
  · rw [if_neg hb]
    simp only [arcAng] at hb ⊢
    simp only [Arc.flatteningStep, hr, sc_abs, sc_min, sc_one, e]
    exact if_neg hb

/-- **invariant of the flattening loop** (any radii): if the loop ends by its own `break` (the
list is no longer than the fuel — what the driver checks) and the `EPSILON` guard of
`flattening_step` does not fire on the whole arc (`ε·|sweep| ≤ 2·acos(…)`; `ε ≤ 1`), every emitted
segment runs from `sample t0` to `sample t1` with `0 ≤ t0 ≤ t1 ≤ 1` over an angle of at most
`2·acos((R − tol)/R)`, and the ranges cover `[t0, 1]`. -/
theorem arc_loop_tol (a : Arc K) (tol : K) (hang0 : 0 ≤ arcAng a tol)
    (heps1 : (FlatConst.epsilon : K) ≤ 1) (heps : FlatConst.epsilon * |a.sweep| ≤ arcAng a tol)
    (f : Nat) (iter : Arc K) (t0 : K) (frm : P K)
    (hinv : ArcInv a iter t0) (h0 : 0 ≤ t0) (h1 : t0 ≤ 1) (hfrm : frm = a.sample t0)
    (hlen : (a.flatLoop tol f iter t0 frm).length ≤ f) :
    (∀ sg ∈ a.flatLoop tol f iter t0 frm, ArcSegOK a (arcAng a tol) sg)
    ∧ (∀ t, t0 ≤ t → t ≤ 1 → ∃ sg ∈ a.flatLoop tol f iter t0 frm, sg.t0 ≤ t ∧ t ≤ sg.t1) := by
  induction f generalizing iter t0 frm with
  | zero => simp [Arc.flatLoop] at hlen
  | succ f ih =>
    have o : (one : K) = 1 := sc_one
    have hstep := arc_step_eq a iter tol t0 hinv h1
    set W : K := |a.sweep| * (1 - t0) with hW
    have hW0 : 0 ≤ W := mul_nonneg (abs_nonneg _) (by linarith)
    have hq0 : 0 ≤ arcAng a tol / W := div_nonneg hang0 hW0
    have hWle : W ≤ |a.sweep| := by
      have := mul_le_mul_of_nonneg_left (by linarith : 1 - t0 ≤ 1) (abs_nonneg a.sweep)
      simpa [hW] using this
    unfold Arc.flatLoop at hlen ⊢
    by_cases hs : one ≤ iter.flatteningStep tol
    · -- the final segment: the remaining angle is at most the step
      rw [if_pos hs] at hlen ⊢
      have hspan : W ≤ arcAng a tol := by
        rw [hstep, o] at hs
        by_cases hW' : W = 0
        · rw [hW']; exact hang0
        have hWp : 0 < W := lt_of_le_of_ne hW0 (Ne.symm hW')
        by_cases hb : Min.min (arcAng a tol / W) 1 < FlatConst.epsilon
        · -- the EPSILON guard would fire: excluded by `heps`
          exfalso
          have h2 : arcAng a tol / W < FlatConst.epsilon := by
            rcases min_lt_iff.mp hb with h | h
            · exact h
            · exact absurd h (not_lt.mpr heps1)
          rw [div_lt_iff₀ hWp] at h2
          have hep : (0 : K) ≤ FlatConst.epsilon := le_of_lt (lt_of_le_of_lt hq0 (by
            rw [div_lt_iff₀ hWp]; exact h2))
          have : FlatConst.epsilon * W ≤ FlatConst.epsilon * |a.sweep| := mul_le_mul_of_nonneg_left hWle hep
          linarith
        · rw [if_neg hb] at hs
          have : 1 ≤ arcAng a tol / W := le_trans hs (min_le_left _ _)
          rw [le_div_iff₀ hWp] at this
          linarith
      refine ⟨?_, ?_⟩
      · intro sg hsg
        simp only [List.mem_singleton] at hsg
        subst hsg
        refine ⟨hfrm, ?_, h0, ?_, ?_, ?_⟩
        · simp only [Arc.toPt]
        · simpa [o] using h1
        · simp [o]
        · simpa [o, hW] using hspan
      · intro t ht0 ht1
        exact ⟨_, List.mem_singleton.mpr rfl, ht0, by simpa [o] using ht1⟩
    · rw [if_neg hs] at hlen ⊢
      simp only [List.length_cons, Nat.add_le_add_iff_right] at hlen
      set st : K := iter.flatteningStep tol with hst
      have hst1 : st < 1 := by rw [← o]; exact not_le.mp hs
      have hst_eq : st = Min.min (arcAng a tol / W) 1 := by
        rw [hstep]
        by_cases hb : Min.min (arcAng a tol / W) 1 < FlatConst.epsilon
        · exfalso; rw [hstep, if_pos hb] at hst1; exact lt_irrefl _ hst1
        · rw [if_neg hb]
      have hst0 : 0 ≤ st := by rw [hst_eq]; exact le_min hq0 zero_le_one
      have hstq : st = arcAng a tol / W := by
        rw [hst_eq]; apply min_eq_left
        by_contra hc
        rw [hst_eq, min_eq_right (le_of_lt (not_le.mp hc))] at hst1
        exact lt_irrefl _ hst1
      obtain ⟨hi, hp⟩ := arc_inv_step a iter t0 st hinv
      rw [o] at hi hp
      have ht1a : t0 ≤ t0 + st * (1 - t0) := by nlinarith
      have ht1b : t0 + st * (1 - t0) ≤ 1 := by nlinarith
      have hspan : |a.sweep| * (t0 + st * (1 - t0) - t0) ≤ arcAng a tol := by
        have e : |a.sweep| * (t0 + st * (1 - t0) - t0) = W * st := by rw [hW]; ring
        rw [e, hstq]
        by_cases hW' : W = 0
        · rw [hW']; simpa using hang0
        · rw [mul_div_cancel₀ _ hW']
      obtain ⟨ih1, ih2⟩ := ih (iter.afterSplit st) (t0 + st * (1 - t0)) (iter.afterSplit st).fromPt hi
        (le_trans h0 ht1a) ht1b hp (by simpa [o] using hlen)
      simp only [o]
      refine ⟨?_, ?_⟩
      · intro sg hsg
        rcases List.mem_cons.mp hsg with rfl | hsg
        · exact ⟨hfrm, hp, h0, ht1a, ht1b, hspan⟩
        · exact ih1 sg hsg
      · intro t ht0 ht1
        rcases le_or_gt t (t0 + st * (1 - t0)) with hle | hgt
        · exact ⟨_, List.mem_cons_self, ht0, hle⟩
        · obtain ⟨sg, hsg, h3, h4⟩ := ih2 t (le_of_lt hgt) ht1
          exact ⟨sg, List.mem_cons_of_mem _ hsg, h3, h4⟩

/-- **the loop terminates within the fuel**: each non-final step consumes exactly the angle
`2·acos(…)` of the remaining sweep, so with `remaining angle ≤ f · 2·acos(…)` the loop ends by its
own `break` after at most `f` segments (`0 < ε` excludes the field-only case `x/0 = 0`). -/
theorem arc_loop_length (a : Arc K) (tol : K) (hang0 : 0 ≤ arcAng a tol)
    (heps0 : (0 : K) < FlatConst.epsilon)
    (f : Nat) (iter : Arc K) (t0 : K) (frm : P K)
    (hinv : ArcInv a iter t0) (h1 : t0 ≤ 1) (hf : 1 ≤ f)
    (hW : |a.sweep| * (1 - t0) ≤ f * arcAng a tol) :
    (a.flatLoop tol f iter t0 frm).length ≤ f := by
  induction f generalizing iter t0 frm with
  | zero => omega
  | succ f ih =>
    have o : (one : K) = 1 := sc_one
    have hstep := arc_step_eq a iter tol t0 hinv h1
    set W : K := |a.sweep| * (1 - t0) with hWdef
    have hW0 : 0 ≤ W := mul_nonneg (abs_nonneg _) (by linarith)
    unfold Arc.flatLoop
    by_cases hs : one ≤ iter.flatteningStep tol
    · rw [if_pos hs]; simp
    · rw [if_neg hs]
      simp only [List.length_cons, Nat.add_le_add_iff_right]
      set st : K := iter.flatteningStep tol with hst
      have hst1 : st < 1 := by rw [← o]; exact not_le.mp hs
      have hnb : ¬ Min.min (arcAng a tol / W) 1 < FlatConst.epsilon := by
        intro hb; rw [hstep, if_pos hb] at hst1; exact lt_irrefl _ hst1
      have hst_eq : st = Min.min (arcAng a tol / W) 1 := by rw [hstep, if_neg hnb]
      have hstq : st = arcAng a tol / W := by
        rw [hst_eq]; apply min_eq_left
        by_contra hc
        rw [hst_eq, min_eq_right (le_of_lt (not_le.mp hc))] at hst1
        exact lt_irrefl _ hst1
      have hstpos : 0 < st := lt_of_lt_of_le heps0 (by rw [hst_eq]; exact not_lt.mp hnb)
      have hWp : 0 < W := by
        rcases lt_or_eq_of_le hW0 with h | h
        · exact h
        · exfalso; rw [hstq, ← h, div_zero] at hstpos; exact lt_irrefl _ hstpos
      have hangp : 0 < arcAng a tol := by
        rw [hstq] at hstpos
        rcases lt_or_eq_of_le hang0 with h | h
        · exact h
        · exfalso; rw [← h, zero_div] at hstpos; exact lt_irrefl _ hstpos
      have hlt : arcAng a tol < W := by
        rw [hstq, div_lt_one hWp] at hst1; exact hst1
      obtain ⟨hi, _⟩ := arc_inv_step a iter t0 st hinv
      rw [o] at hi
      have hWst : W * st = arcAng a tol := by rw [hstq, mul_div_cancel₀ _ (ne_of_gt hWp)]
      have hW' : |a.sweep| * (1 - (t0 + st * (1 - t0))) = W - arcAng a tol := by
        rw [← hWst, hWdef]; ring
      have hf1 : 1 ≤ f := by
        rcases Nat.eq_zero_or_pos f with h | h
        · exfalso; subst h; push_cast at hW; linarith
        · exact h
      have hle : |a.sweep| * (1 - (t0 + st * (1 - t0))) ≤ f * arcAng a tol := by
        rw [hW']; push_cast at hW; linarith
      have ht1b : t0 + st * (1 - t0) ≤ 1 := by nlinarith
      have := ih (iter.afterSplit st) (t0 + st * (1 - t0)) (iter.afterSplit st).fromPt hi ht1b hf1 hle
      simpa [o] using this

theorem arc_inv_init (a : Arc K) : ArcInv a a 0 := by
  refine ⟨rfl, rfl, rfl, ?_, ?_⟩ <;> ring

end loop

end Lyon.Flat
