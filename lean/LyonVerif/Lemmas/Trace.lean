/-
  Shared lemmas about the protocol trace language (`Model/Path/Trace.lean`): the protocol state
  over concatenated call lists.  Core Lean only (no Mathlib), so any `Lemmas/*` or `Props/*`
  file may import it.
-/
import LyonVerif.Model.Path.Trace

namespace Lyon.Path

variable {π A : Type}

/-- the protocol state after `l1 ++ l2` is the state after `l2` started from the state after
`l1` (or `none` as soon as a call is out of place) -/
theorem nestState_append (b : Bool) (l1 l2 : List (Call π A)) :
    nestState b (l1 ++ l2) = (nestState b l1).bind (fun b' => nestState b' l2) := by
  induction l1 generalizing b with
  | nil => simp [nestState]
  | cons c r ih => cases b <;> cases c <;> simp [nestState, ih]

theorem nestState_append_of {b b1 b2 : Bool} {l1 l2 : List (Call π A)}
    (h1 : nestState b l1 = some b1) (h2 : nestState b1 l2 = some b2) :
    nestState b (l1 ++ l2) = some b2 := by
  simp [nestState_append, h1, h2]

/-- `WellNested` of a concatenation of two well-nested programs -/
theorem wellNested_append {l1 l2 : List (Call π A)} (h1 : WellNested l1) (h2 : WellNested l2) :
    WellNested (l1 ++ l2) := by
  have a := (wellNestedFrom_iff_nestState false l1).1 h1
  have b := (wellNestedFrom_iff_nestState false l2).1 h2
  exact (wellNestedFrom_iff_nestState false _).2 (nestState_append_of a b)

end Lyon.Path
