/-
  C02 growth (`Props/C02c.lean`), part 9: the signed-area potential of the ADVANCED monotone
  tessellator, for EVERY (position, side) sequence.

  `Phi = G(inner tessellator) ± (chain polygon of side a − chain polygon of side b
          + quadrilateral (head a, last a, last b, head b))`
  i.e. emitted area + area of everything fed but not yet triangulated.  Buffering a vertex adds
  exactly `wind(lastLeft, p, lastRight)` (`push_pot`); `flush_side` moves the chain polygon's area
  into emitted triangles exactly (`flush_area`) and forwards one vertex to the inner tessellator,
  which can only add a non-negative excess (`fwd_pot`, from `vertex_area`).  Hence
  `Σ wind(Adv.run seq) ≥ shoelace(polygon)` for every sequence (`adv_run_area`).
-/
import LyonVerif.Lemmas.MonotoneAdvArea

set_option linter.unusedSectionVars false
set_option linter.unusedVariables false
set_option linter.unusedSimpArgs false

namespace Lyon.C02c
open Lyon Lyon.Mono Lyon.C02

section Geometry
variable {K : Type} [Field K] [LinearOrder K] [IsStrictOrderedRing K]

/-! ## the polygon of a buffered chain -/

/-- position of the `i`-th buffered id -/
def evPos (pos : Nat → P K) (ev : List Nat) (i : Nat) : P K := pos (ev.getD i 0)

/-- `wind`-area of the closed polygon of a buffered chain (ids `ev`, oldest first) -/
noncomputable def chainPoly (pos : Nat → P K) (ev : List Nat) : K := closedE (evPos pos ev) 1 ev.length

theorem chainPoly_eq (pos : Nat → P K) (ev : List Nat) :
    chainPoly pos ev = closedE (fun i => pos (ev.toArray.getD i 0)) 1 ev.length := by
  unfold chainPoly
  congr 1
  funext i
  simp [evPos, List.getD_eq_getElem?_getD]

theorem closedE_one (q : Nat → P K) (len : Nat) :
    closedE q 1 len = pathE q 1 (len - 1) + E (q (len - 1)) (q 0) := by
  simp [closedE]

theorem pathE_congr (q q' : Nat → P K) (m : Nat) (h : ∀ i, i ≤ m → q i = q' i) : pathE q 1 m = pathE q' 1 m := by
  induction m with
  | zero => rfl
  | succ m ih =>
    simp only [pathE, Nat.mul_one]
    rw [ih (fun i hi => h i (by omega)), h m (by omega), h (m + 1) (by omega)]

theorem chainPoly_single (pos : Nat → P K) (x : Nat) : chainPoly pos [x] = 0 := by
  simp [chainPoly, closedE, pathE, E_self]

/-- appending one id to a non-empty chain -/
theorem chainPoly_push (pos : Nat → P K) (ev : List Nat) (x : Nat) (hne : ev ≠ []) :
    chainPoly pos (ev ++ [x]) = chainPoly pos ev - E (evPos pos ev (ev.length - 1)) (evPos pos ev 0)
      + E (evPos pos ev (ev.length - 1)) (pos x) + E (pos x) (evPos pos ev 0) := by
  have hlen : 1 ≤ ev.length := by
    cases ev with
    | nil => exact absurd rfl hne
    | cons a r => simp
  have hq : ∀ i, i < ev.length → evPos pos (ev ++ [x]) i = evPos pos ev i := by
    intro i hi
    simp [evPos, List.getD_eq_getElem?_getD, List.getElem?_append_left hi]
  have hx : evPos pos (ev ++ [x]) ev.length = pos x := by
    simp [evPos, List.getD_eq_getElem?_getD]
  simp only [chainPoly, closedE_one, List.length_append, List.length_cons, List.length_nil]
  rw [show ev.length + (0 + 1) - 1 = (ev.length - 1) + 1 by omega]
  simp only [pathE, Nat.mul_one]
  rw [show ev.length - 1 + 1 = ev.length by omega, hx, hq 0 (by omega), hq (ev.length - 1) (by omega),
    pathE_congr (evPos pos (ev ++ [x])) (evPos pos ev) (ev.length - 1) (fun i hi => hq i (by omega))]
  ring

theorem evPos_last (pos : Nat → P K) (ev : List Nat) (x : Nat) (h : ev.getLast? = some x) :
    evPos pos ev (ev.length - 1) = pos x := by
  rw [List.getLast?_eq_getElem?] at h
  simp [evPos, List.getD_eq_getElem?_getD, h]

/-! ## the potential -/

/-- `wind`-area of the closed quadrilateral `a b c d` -/
noncomputable def quad (a b c d : P K) : K := E a b + E b c + E c d + E d a

/-- emitted + pending area; `l`: side `a` is the left one -/
noncomputable def Phi (pos : Nat → P K) (tess : Basic K) (l : Bool) (ea : List Nat) (la : P K)
    (eb : List Nat) (lb : P K) : K :=
  G pos tess + sg l * (chainPoly pos ea - chainPoly pos eb + quad (evPos pos ea 0) la lb (evPos pos eb 0))

structure PInvL (pos : Nat → P K) (tess : Basic K) (l : Bool) (ea : List Nat) (la : MV K)
    (eb : List Nat) (lb : MV K) : Prop where
  binv : BInv pos tess
  nea : ea ≠ []
  neb : eb ≠ []
  lasta : ea.getLast? = some la.id
  lastb : eb.getLast? = some lb.id
  gooda : Good pos la
  goodb : Good pos lb
  sidea : la.left = l
  sideb : lb.left = !l
  heada : evPos pos ea 0 = (if l then lastL tess else lastR tess)
  headb : evPos pos eb 0 = (if l then lastR tess else lastL tess)

theorem PInvL.symm {pos : Nat → P K} {tess : Basic K} {l : Bool} {ea eb : List Nat} {la lb : MV K}
    (h : PInvL pos tess l ea la eb lb) : PInvL pos tess (!l) eb lb ea la :=
  { binv := h.binv, nea := h.neb, neb := h.nea, lasta := h.lastb, lastb := h.lasta, gooda := h.goodb,
    goodb := h.gooda, sidea := h.sideb, sideb := by rw [h.sidea]; simp,
    heada := by rw [h.headb]; cases l <;> rfl, headb := by rw [h.heada]; cases l <;> rfl }

theorem Phi_symm (pos : Nat → P K) (tess : Basic K) (l : Bool) (ea eb : List Nat) (la lb : P K) :
    Phi pos tess (!l) eb lb ea la = Phi pos tess l ea la eb lb := by
  simp only [Phi, quad]
  rw [E_anti (evPos pos eb 0) lb, E_anti lb la, E_anti la (evPos pos ea 0), E_anti (evPos pos ea 0) (evPos pos eb 0)]
  cases l <;> simp only [sg, Bool.not_true, Bool.not_false, if_true, Bool.false_eq_true, if_false] <;> ring

/-- the outer polygon's last left / right vertex -/
def outL (l : Bool) (la lb : P K) : P K := if l then la else lb
def outR (l : Bool) (la lb : P K) : P K := if l then lb else la

/-- **buffering a vertex** on side `a` adds exactly the triangle `(lastLeft, p, lastRight)` -/
theorem push_pot {pos : Nat → P K} {tess : Basic K} {l : Bool} {ea eb : List Nat} {la lb : MV K}
    (h : PInvL pos tess l ea la eb lb) (cur : MV K) (hc : Good pos cur) (hl : cur.left = l) :
    PInvL pos tess l (ea ++ [cur.id]) cur eb lb ∧
      Phi pos tess l (ea ++ [cur.id]) cur.pos eb lb.pos =
        Phi pos tess l ea la.pos eb lb.pos + wind (outL l la.pos lb.pos) cur.pos (outR l la.pos lb.pos) := by
  have hlen : 1 ≤ ea.length := by
    cases ea with
    | nil => exact absurd rfl h.nea
    | cons a r => simp
  have h0 : evPos pos (ea ++ [cur.id]) 0 = evPos pos ea 0 := by
    cases ea with
    | nil => exact absurd rfl h.nea
    | cons a r => simp [evPos]
  constructor
  · exact { binv := h.binv, nea := by simp, neb := h.neb, lasta := by simp, lastb := h.lastb, gooda := hc,
            goodb := h.goodb, sidea := hl, sideb := h.sideb, heada := by rw [h0]; exact h.heada, headb := h.headb }
  · have hla : evPos pos ea (ea.length - 1) = la.pos := by
      rw [evPos_last pos ea la.id h.lasta]; exact h.gooda.symm
    have hcp : pos cur.id = cur.pos := hc.symm
    simp only [Phi, chainPoly_push pos ea cur.id h.nea, h0, hla, hcp, quad, outL, outR, wind_eq]
    rw [E_anti (evPos pos ea 0) la.pos, E_anti (evPos pos ea 0) cur.pos]
    cases l
    · simp only [sg, Bool.false_eq_true, if_false]
      rw [E_anti cur.pos lb.pos, E_anti lb.pos la.pos, E_anti la.pos cur.pos]; ring
    · simp only [sg, if_true]
      rw [E_anti lb.pos la.pos]; ring

/-- triangles pushed straight into the inner tessellator -/
theorem pushTris_pot {pos : Nat → P K} {tess : Basic K} {l : Bool} {ea eb : List Nat} {la lb : MV K}
    (h : PInvL pos tess l ea la eb lb) (tr : List Tri) :
    PInvL pos (tess.pushTris tr) l ea la eb lb ∧
      Phi pos (tess.pushTris tr) l ea la.pos eb lb.pos = Phi pos tess l ea la.pos eb lb.pos + sumW pos tr := by
  constructor
  · exact { h with binv := h.binv }
  · simp only [Phi, G, Basic.pushTris, sumW_append, botPos]; ring

/-- **forwarding the last vertex of side `a`** to the inner tessellator (the chain restarts from
it): the potential loses the chain polygon's area and gains a non-negative excess -/
theorem fwd_pot {pos : Nat → P K} {tess : Basic K} {l : Bool} {ea eb : List Nat} {la lb : MV K}
    (h : PInvL pos tess l ea la eb lb) :
    PInvL pos (tess.vertex la) l [la.id] la eb lb ∧
      Phi pos tess l ea la.pos eb lb.pos ≤
        Phi pos (tess.vertex la) l [la.id] la.pos eb lb.pos + sg l * chainPoly pos ea := by
  obtain ⟨v1, v2, v3, v4, _⟩ := vertex_area pos tess la h.binv h.gooda
  have hs := h.sidea
  have hh : evPos pos [la.id] 0 = la.pos := by simp [evPos]; exact h.gooda.symm
  constructor
  · refine { binv := v1, nea := by simp, neb := h.neb, lasta := rfl, lastb := h.lastb, gooda := h.gooda,
             goodb := h.goodb, sidea := h.sidea, sideb := h.sideb, heada := ?_, headb := ?_ }
    · rw [hh, v2, v3, hs]; cases l <;> simp
    · rw [h.headb, v2, v3, hs]; cases l <;> simp
  · have ha := h.heada
    have hb := h.headb
    simp only [Phi, chainPoly_single, hh, quad, E_self]
    rw [ha, hb]
    rw [wind_eq] at v4
    generalize lastL tess = l0 at v4 ⊢
    generalize lastR tess = r0 at v4 ⊢
    cases l
    · simp only [sg, Bool.false_eq_true, if_false]
      rw [E_anti r0 la.pos, E_anti l0 r0] at v4
      linarith
    · simp only [sg, if_true]
      rw [E_anti r0 la.pos] at v4
      linarith

/-- `flush_side` on side `a` (its `right` flag is `!l`): a no-op, or chain triangles + forward -/
theorem flush_pot {pos : Nat → P K} {tess : Basic K} {l : Bool} {a b : SideEv K}
    (h : PInvL pos tess l a.events a.last b.events b.last) (hl2 : 2 ≤ a.events.length) :
    PInvL pos ((tess.pushTris (flushLevels a.events.toArray a.events.length (!l) (a.events.length + 1) 1)).vertex a.last)
        l [a.last.id] a.last b.events b.last ∧
      Phi pos tess l a.events a.last.pos b.events b.last.pos ≤
        Phi pos ((tess.pushTris (flushLevels a.events.toArray a.events.length (!l) (a.events.length + 1) 1)).vertex a.last)
          l [a.last.id] a.last.pos b.events b.last.pos := by
  obtain ⟨p1, p2⟩ := pushTris_pot h (flushLevels a.events.toArray a.events.length (!l) (a.events.length + 1) 1)
  obtain ⟨f1, f2⟩ := fwd_pot p1
  refine ⟨f1, ?_⟩
  rw [p2, flush_area, ← chainPoly_eq] at f2
  have : sgF (!l) = (sg l : K) := by cases l <;> simp [sgF, sg]
  rw [this] at f2
  linarith

end Geometry

end Lyon.C02c
