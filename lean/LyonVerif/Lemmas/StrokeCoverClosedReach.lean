/-
  C06c, part 4: reach for closed polygons — every emitted triangle stays within `w/2·√(1 + M²)` of the segment
  of an edge, `M = outK e pt 0 k` the largest outward shift of that edge's quad corners (`0` with a Bevel join,
  at most `|tan(θ/2)|` with a Miter join).
-/
import LyonVerif.Lemmas.StrokeCoverClosedAsm
import LyonVerif.Lemmas.StrokeCoverReach

set_option linter.unusedSectionVars false
set_option linter.unusedVariables false

namespace Lyon.C06b
open Lyon Scalar Lyon.Stroke Lyon.Stroke.Full Lyon.C05 Lyon.C05b Lyon.C05c Lyon.C06
open Lyon.StrokeQuad (lineIntersection)

section
variable {K : Type} [Field K] [LinearOrder K] [IsStrictOrderedRing K] [Transc K]

/-- the four corners of the quad of an inner edge are within the reach of its segment -/
theorem corners_near_in {e : Env K} {eps : K} (h : CoverHyp e eps) {pt : Nat → P K} (i : Nat)
    (hsq : 0 < (pt (i + 1 + 1) - pt (i + 1)).sqLen)
    (hlen : e.hwFw * (|jtau pt i| + |jtau pt (i + 1)| + 1) ≤ eL pt (i + 1)) :
    ∀ p ∈ cornerList e pt 0 (i + 1), NearSeg (pt (i + 1)) (eT pt (i + 1)) (eL pt (i + 1)) (reachSq e pt 0 (i + 1)) p := by
  obtain ⟨hL, hunit, hd⟩ := edge_eq h.sqrt_nonneg h.sqrt_sq pt (i + 1) hsq
  obtain ⟨o0, o1, o2, o3, o4⟩ := outK_bounds e pt 0 (i + 1)
  obtain ⟨b1, b2, b3, b4⟩ := inner_bounds e pt i
  have hw := h.hw
  have t0 := abs_nonneg (jtau pt i)
  have t1 := abs_nonneg (jtau pt (i + 1))
  have hD : 0 ≤ e.hwFw * outK e pt 0 (i + 1) := mul_nonneg (le_of_lt hw) o0
  have hj : pt (i + 1 + 1) = pt (i + 1) + (eT pt (i + 1)).smul (eL pt (i + 1)) := by
    rw [← hd]; apply P.ext' <;> simp only [geom] <;> ring
  have hwT0 : e.hwFw * |jtau pt i| ≤ eL pt (i + 1) := by nlinarith [mul_nonneg (le_of_lt hw) t1]
  have hwT1 : e.hwFw * |jtau pt (i + 1)| ≤ eL pt (i + 1) := by nlinarith [mul_nonneg (le_of_lt hw) t0]
  intro p hp
  simp only [cornerList, List.mem_cons, List.mem_nil_iff, or_false] at hp
  rcases hp with rfl | rfl | rfl | rfl
  · have e1 : pt (i + 1) - (perp (eT pt (i + 1))).smul e.hwFw + (eT pt (i + 1)).smul (e.hwFw * sA0 e pt (i + 1))
        = pt (i + 1) + (perp (eT pt (i + 1))).smul (-e.hwFw) + (eT pt (i + 1)).smul (e.hwFw * sA0 e pt (i + 1)) := by
      apply P.ext' <;> simp only [geom] <;> ring
    rw [e1]
    refine near_pt _ _ _ e.hwFw _ _ _ (le_of_lt hL) hunit (by ring) hD ?_ ?_
    · have := mul_le_mul_of_nonneg_left o1 (le_of_lt hw); linarith
    · have := mul_le_mul_of_nonneg_left b1 (le_of_lt hw); linarith
  · refine near_pt _ _ _ e.hwFw _ _ _ (le_of_lt hL) hunit rfl hD ?_ ?_
    · have := mul_le_mul_of_nonneg_left o2 (le_of_lt hw); linarith
    · have := mul_le_mul_of_nonneg_left b2 (le_of_lt hw); linarith
  · have e1 : pt (i + 1 + 1) + (perp (eT pt (i + 1))).smul e.hwFw + (eT pt (i + 1)).smul (e.hwFw * sB1 e pt 0 (i + 1))
        = pt (i + 1) + (perp (eT pt (i + 1))).smul e.hwFw + (eT pt (i + 1)).smul (eL pt (i + 1) + e.hwFw * sB1 e pt 0 (i + 1)) := by
      rw [hj]; apply P.ext' <;> simp only [geom] <;> ring
    rw [e1]
    refine near_pt _ _ _ e.hwFw _ _ _ (le_of_lt hL) hunit rfl hD ?_ ?_
    · have := mul_le_mul_of_nonneg_left b4 (le_of_lt hw); linarith
    · have := mul_le_mul_of_nonneg_left o4 (le_of_lt hw); linarith
  · have e1 : pt (i + 1 + 1) - (perp (eT pt (i + 1))).smul e.hwFw + (eT pt (i + 1)).smul (e.hwFw * sB0 e pt 0 (i + 1))
        = pt (i + 1) + (perp (eT pt (i + 1))).smul (-e.hwFw) + (eT pt (i + 1)).smul (eL pt (i + 1) + e.hwFw * sB0 e pt 0 (i + 1)) := by
      rw [hj]; apply P.ext' <;> simp only [geom] <;> ring
    rw [e1]
    refine near_pt _ _ _ e.hwFw _ _ _ (le_of_lt hL) hunit (by ring) hD ?_ ?_
    · have := mul_le_mul_of_nonneg_left b3 (le_of_lt hw); linarith
    · have := mul_le_mul_of_nonneg_left o3 (le_of_lt hw); linarith

/-- the corner set of an inner quad in closed form -/
theorem quadSet_in {e : Env K} {pt : Nat → P K} (i : Nat)
    (Ja : JClosed e pt i (psAt e pt (i + 1)) (nsAt e pt (i + 1)) (lamAt e pt (i + 1)))
    (Jb : JClosed e pt (i + 1) (psAt e pt (i + 1 + 1)) (nsAt e pt (i + 1 + 1)) (lamAt e pt (i + 1 + 1))) :
    quadSet (jEP e pt (i + 1)) (jEP e pt (i + 1 + 1)) = cornerList e pt 0 (i + 1) := by
  unfold quadSet cornerList
  rw [Ja.sNegNext, Ja.sPosNext, Jb.sPosPrev, Jb.sNegPrev]
  simp only [sA0, sA1, sB0, sB1, if_neg (Nat.succ_ne_zero i), if_neg (Nat.succ_ne_zero (i + 1)), Nat.add_sub_cancel]

/-- the vertices of the join at the end of an inner edge are within the reach of that edge -/
theorem joinSet_near_in {e : Env K} {eps : K} (h : CoverHyp e eps) {pt : Nat → P K} (i : Nat)
    (hsq : 0 < (pt (i + 1 + 1) - pt (i + 1)).sqLen) (hsq1 : 0 < (pt (i + 1 + 1 + 1) - pt (i + 1 + 1)).sqLen)
    (hlen : e.hwFw * (|jtau pt i| + |jtau pt (i + 1)| + 1) ≤ eL pt (i + 1))
    (J : JClosed e pt (i + 1) (psAt e pt (i + 1 + 1)) (nsAt e pt (i + 1 + 1)) (lamAt e pt (i + 1 + 1))) :
    ∀ p ∈ joinSet (jEP e pt (i + 1 + 1)), NearSeg (pt (i + 1)) (eT pt (i + 1)) (eL pt (i + 1)) (reachSq e pt 0 (i + 1)) p := by
  have hc := corners_near_in h i hsq hlen
  obtain ⟨hL, hunit, hd⟩ := edge_eq h.sqrt_nonneg h.sqrt_sq pt (i + 1) hsq
  obtain ⟨_, hunit1, _⟩ := edge_eq h.sqrt_nonneg h.sqrt_sq pt (i + 1 + 1) hsq1
  have hj : pt (i + 1 + 1) = pt (i + 1) + (eT pt (i + 1)).smul (eL pt (i + 1)) := by
    rw [← hd]; apply P.ext' <;> simp only [geom] <;> ring
  have hpn : NearSeg (pt (i + 1)) (eT pt (i + 1)) (eL pt (i + 1)) (reachSq e pt 0 (i + 1)) (sPrev (jEP e pt (i + 1 + 1)).neg) := by
    apply hc
    rw [J.sNegPrev]
    simp only [cornerList, sB0, if_neg (Nat.succ_ne_zero (i + 1)), List.mem_cons, List.mem_nil_iff, or_false]
    right; right; right; trivial
  have hpp : NearSeg (pt (i + 1)) (eT pt (i + 1)) (eL pt (i + 1)) (reachSq e pt 0 (i + 1)) (sPrev (jEP e pt (i + 1 + 1)).pos) := by
    apply hc
    rw [J.sPosPrev]
    simp only [cornerList, sB1, if_neg (Nat.succ_ne_zero (i + 1)), List.mem_cons, List.mem_nil_iff, or_false]
    right; right; left; trivial
  obtain ⟨o0, _, _, o3, o4⟩ := outK_bounds e pt 0 (i + 1)
  have hL0 := lamAt_nonneg e pt (i + 1 + 1)
  have hnl : ¬ (i + 1 + 1 = 0) := Nat.succ_ne_zero _
  have hround : ∀ c z : K, c * c = e.hwFw * e.hwFw →
      z * z ≤ (e.hwFw * outK e pt 0 (i + 1)) * (e.hwFw * outK e pt 0 (i + 1)) →
      NearSeg (pt (i + 1)) (eT pt (i + 1)) (eL pt (i + 1)) (reachSq e pt 0 (i + 1))
        (pt (i + 1 + 1) + (perp (eT pt (i + 1 + 1))).smul c + (eT pt (i + 1 + 1)).smul z) := by
    intro c z hcc hz
    refine ⟨eL pt (i + 1), le_of_lt hL, le_refl _, ?_⟩
    rw [← hj]
    have : ((pt (i + 1 + 1) + (perp (eT pt (i + 1 + 1))).smul c + (eT pt (i + 1 + 1)).smul z) - pt (i + 1 + 1)).sqLen
        = e.hwFw * e.hwFw + z * z := by
      simp only [perp, geom] at hunit1 ⊢
      linear_combination (c * c + z * z) * hunit1 + hcc
    rw [this]
    unfold reachSq
    linarith
  have hzb : ∀ L : K, 0 ≤ L → L ≤ outK e pt 0 (i + 1) →
      (e.hwFw * -L) * (e.hwFw * -L) ≤ (e.hwFw * outK e pt 0 (i + 1)) * (e.hwFw * outK e pt 0 (i + 1)) := by
    intro L h0 h1
    have hw := h.hw
    have : e.hwFw * L ≤ e.hwFw * outK e pt 0 (i + 1) := mul_le_mul_of_nonneg_left h1 (le_of_lt hw)
    have h2 : 0 ≤ e.hwFw * L := mul_nonneg (le_of_lt hw) h0
    nlinarith
  intro p hp
  simp only [joinSet, List.mem_cons, List.mem_nil_iff, or_false] at hp
  rcases hp with rfl | rfl | rfl | rfl
  · exact hpn
  · cases hns : (jEP e pt (i + 1 + 1)).neg.single with
    | some v =>
      have : sNext (jEP e pt (i + 1 + 1)).neg = sPrev (jEP e pt (i + 1 + 1)).neg := by simp [sNext, sPrev, hns]
      rw [this]; exact hpn
    | none =>
      have hnsf : nsAt e pt (i + 1 + 1) = false := by
        have := J.nsingle; rw [hns] at this; exact this.symm
      have hle : lamAt e pt (i + 1 + 1) ≤ outK e pt 0 (i + 1) := by
        have : sB0 e pt 0 (i + 1) = lamAt e pt (i + 1 + 1) := by simp only [sB0, if_neg hnl, hnsf, Bool.false_eq_true, if_false]
        rw [← this]; exact o3
      have : sNext (jEP e pt (i + 1 + 1)).neg
          = pt (i + 1 + 1) + (perp (eT pt (i + 1 + 1))).smul (-e.hwFw) + (eT pt (i + 1 + 1)).smul (e.hwFw * -lamAt e pt (i + 1 + 1)) := by
        simp only [sNext, hns, Option.getD_none, J.negNext, hnsf, Bool.false_eq_true, if_false]
        apply P.ext' <;> simp only [geom] <;> ring
      rw [this]; exact hround _ _ (by ring) (hzb _ hL0 hle)
  · exact hpp
  · cases hps : (jEP e pt (i + 1 + 1)).pos.single with
    | some v =>
      have : sNext (jEP e pt (i + 1 + 1)).pos = sPrev (jEP e pt (i + 1 + 1)).pos := by simp [sNext, sPrev, hps]
      rw [this]; exact hpp
    | none =>
      have hpsf : psAt e pt (i + 1 + 1) = false := by
        have := J.psingle; rw [hps] at this; exact this.symm
      have hle : lamAt e pt (i + 1 + 1) ≤ outK e pt 0 (i + 1) := by
        have : sB1 e pt 0 (i + 1) = lamAt e pt (i + 1 + 1) := by simp only [sB1, if_neg hnl, hpsf, Bool.false_eq_true, if_false]
        rw [← this]; exact o4
      have : sNext (jEP e pt (i + 1 + 1)).pos
          = pt (i + 1 + 1) + (perp (eT pt (i + 1 + 1))).smul e.hwFw + (eT pt (i + 1 + 1)).smul (e.hwFw * -lamAt e pt (i + 1 + 1)) := by
        simp only [sNext, hps, Option.getD_none, J.posNext, hpsf, Bool.false_eq_true, if_false]
      rw [this]; exact hround _ _ rfl (hzb _ hL0 hle)

theorem quadSet_congr {J J' G G' : EP K} (h : EP.geo J = EP.geo G) (h' : EP.geo J' = EP.geo G') :
    quadSet J J' = quadSet G G' := by
  unfold quadSet
  rw [geo_sNext_neg h, geo_sNext_pos h, geo_sPrev_pos h', geo_sPrev_neg h']

theorem joinSet_congr {J G : EP K} (h : EP.geo J = EP.geo G) : joinSet J = joinSet G := by
  unfold joinSet
  rw [geo_sPrev_neg h, geo_sNext_neg h, geo_sPrev_pos h, geo_sNext_pos h]

/-- **closed polygons: every emitted triangle stays within the reach of the segment of an edge** `k ≥ 1` -/
theorem tri_reach_closed {e : Env K} {eps : K} (h : CoverHyp e eps) {pt : Nat → P K} {m : Nat}
    (hper : ∀ i, pt (i + (m + 1)) = pt i) (hr : RegimeC e eps pt m) {o : Out K} (hE : EmittedC e pt m o)
    (t : Stroke.Tri) (ht : t ∈ o.tris) :
    ∃ k, ∃ v1 v2 v3 : VData K, o.verts[t.1]? = some v1 ∧ o.verts[t.2.1]? = some v2 ∧ o.verts[t.2.2]? = some v3
      ∧ ∀ q, InTri q (v1.read.position, v2.read.position, v3.read.position) →
          NearSeg (pt (k + 1)) (eT pt (k + 1)) (eL pt (k + 1)) (reachSq e pt 0 (k + 1)) q := by
  obtain ⟨hsq, hjc, hlen⟩ := regimeC_all h hper hr
  have hquad : ∀ i, ∀ t, TriIn o (quadSet (jEP e pt (i + 1)) (jEP e pt (i + 1 + 1))) t →
      ∃ v1 v2 v3 : VData K, o.verts[t.1]? = some v1 ∧ o.verts[t.2.1]? = some v2 ∧ o.verts[t.2.2]? = some v3
        ∧ ∀ q, InTri q (v1.read.position, v2.read.position, v3.read.position) →
          NearSeg (pt (i + 1)) (eT pt (i + 1)) (eL pt (i + 1)) (reachSq e pt 0 (i + 1)) q := by
    intro i t hT
    rw [quadSet_in i (hjc i) (hjc (i + 1))] at hT
    exact triIn_near hT _ _ _ _ (corners_near_in h i (hsq (i + 1)) (hlen i))
  rcases hE.only t ht with ⟨i, h1, h2, hT⟩ | ⟨i, h1, h2, hT⟩ | ⟨i, h1, h2, hT⟩ | hT
  · obtain ⟨i', rfl⟩ : ∃ i', i = i' + 1 := ⟨i - 1, by omega⟩
    exact ⟨i', hquad i' t hT⟩
  rotate_left
  · -- a fan triangle of a round join: the same assignment
    have hJ : ∀ i', ∀ t, TriFan o (joinSet (jEP e pt (i' + 1 + 1))) (pt (i' + 1 + 1)) (e.hwFw * e.hwFw) t →
        ∃ v1 v2 v3 : VData K, o.verts[t.1]? = some v1 ∧ o.verts[t.2.1]? = some v2 ∧ o.verts[t.2.2]? = some v3
          ∧ ∀ q, InTri q (v1.read.position, v2.read.position, v3.read.position) →
            NearSeg (pt (i' + 1)) (eT pt (i' + 1)) (eL pt (i' + 1)) (reachSq e pt 0 (i' + 1)) q := by
      intro i' t hT
      exact triFan_near hT _ _ _ _ (joinSet_near_in h i' (hsq (i' + 1)) (hsq (i' + 1 + 1)) (hlen i') (hjc (i' + 1)))
        (circle_near h 0 (i' + 1) (hsq (i' + 1)))
    by_cases hi1 : i = 1
    · subst hi1
      have g : EP.geo (jEP e pt (m + 1 + 1)) = EP.geo (jEP e pt 1) := by
        rw [show m + 1 + 1 = 0 + 1 + (m + 1) by omega]; exact jEP_per hper e 0
      have gp : pt (m + 1 + 1) = pt 1 := by
        rw [show m + 1 + 1 = 1 + (m + 1) by omega]; exact hper 1
      rw [← joinSet_congr g, ← gp] at hT
      exact ⟨m, hJ m t hT⟩
    · obtain ⟨i', rfl⟩ : ∃ i', i = i' + 1 + 1 := ⟨i - 2, by omega⟩
      exact ⟨i', hJ i' t hT⟩
  rotate_left
  · -- a join triangle: assign it to the edge that ends at the join (one period later for the join at `pt 1`)
    have hJ : ∀ i', ∀ t, TriIn o (joinSet (jEP e pt (i' + 1 + 1))) t →
        ∃ v1 v2 v3 : VData K, o.verts[t.1]? = some v1 ∧ o.verts[t.2.1]? = some v2 ∧ o.verts[t.2.2]? = some v3
          ∧ ∀ q, InTri q (v1.read.position, v2.read.position, v3.read.position) →
            NearSeg (pt (i' + 1)) (eT pt (i' + 1)) (eL pt (i' + 1)) (reachSq e pt 0 (i' + 1)) q := by
      intro i' t hT
      exact triIn_near hT _ _ _ _ (joinSet_near_in h i' (hsq (i' + 1)) (hsq (i' + 1 + 1)) (hlen i') (hjc (i' + 1)))
    by_cases hi1 : i = 1
    · subst hi1
      have g : EP.geo (jEP e pt (m + 1 + 1)) = EP.geo (jEP e pt 1) := by
        rw [show m + 1 + 1 = 0 + 1 + (m + 1) by omega]; exact jEP_per hper e 0
      rw [← joinSet_congr g] at hT
      exact ⟨m, hJ m t hT⟩
    · obtain ⟨i', rfl⟩ : ∃ i', i = i' + 1 + 1 := ⟨i - 2, by omega⟩
      exact ⟨i', hJ i' t hT⟩
  · have g : EP.geo (jEP e pt (m + 1 + 1)) = EP.geo (jEP e pt 1) := by
      rw [show m + 1 + 1 = 0 + 1 + (m + 1) by omega]; exact jEP_per hper e 0
    rw [← quadSet_congr rfl g] at hT
    exact ⟨m, hquad m t hT⟩

/-- the outward shift of an inner edge: at most the half-turn tangent at its ends; `0` with a Bevel join -/
theorem outK_in_le (e : Env K) (pt : Nat → P K) (i : Nat) :
    outK e pt 0 (i + 1) ≤ Max.max |jtau pt i| |jtau pt (i + 1)| := by
  have t0 := abs_nonneg (jtau pt i)
  have t1 := abs_nonneg (jtau pt (i + 1))
  unfold outK
  simp only [sA0, sA1, sB0, sB1, if_neg (Nat.succ_ne_zero i), if_neg (Nat.succ_ne_zero (i + 1)), Nat.add_sub_cancel]
  refine max_le (le_trans t0 (le_max_left _ _)) (max_le ?_ (max_le ?_ (max_le ?_ ?_)))
  · refine le_trans ?_ (le_max_left _ _); split_ifs <;> simp [le_abs_self, lamAt_le e pt i]
  · refine le_trans ?_ (le_max_left _ _); split_ifs <;> simp [neg_le_abs, lamAt_le e pt i]
  · refine le_trans ?_ (le_max_right _ _); split_ifs <;> simp [le_abs_self, lamAt_le e pt (i + 1)]
  · refine le_trans ?_ (le_max_right _ _); split_ifs <;> simp [neg_le_abs, lamAt_le e pt (i + 1)]

theorem outK_in_bevel {e : Env K} {pt : Nat → P K} (i : Nat) (hb : e.o.join = .bevel ∨ e.o.join = .round)
    (Ja : JClosed e pt i (psAt e pt (i + 1)) (nsAt e pt (i + 1)) (lamAt e pt (i + 1)))
    (Jb : JClosed e pt (i + 1) (psAt e pt (i + 1 + 1)) (nsAt e pt (i + 1 + 1)) (lamAt e pt (i + 1 + 1))) :
    outK e pt 0 (i + 1) = 0 := by
  obtain ⟨a1, a2⟩ := bevel_shifts Ja hb
  obtain ⟨b1, b2⟩ := bevel_shifts Jb hb
  apply le_antisymm _ (outK_bounds e pt 0 (i + 1)).1
  unfold outK
  simp only [sA0, sA1, sB0, sB1, if_neg (Nat.succ_ne_zero i), if_neg (Nat.succ_ne_zero (i + 1)), Nat.add_sub_cancel]
  refine max_le (le_refl _) (max_le ?_ (max_le ?_ (max_le b1 b2)))
  · have : -(if nsAt e pt (i + 1) = true then -jtau pt i else -lamAt e pt (i + 1)) = (if nsAt e pt (i + 1) = true then jtau pt i else lamAt e pt (i + 1)) := by
      split_ifs <;> simp
    rw [this]; exact a1
  · have : -(if psAt e pt (i + 1) = true then jtau pt i else -lamAt e pt (i + 1)) = (if psAt e pt (i + 1) = true then -jtau pt i else lamAt e pt (i + 1)) := by
      split_ifs <;> simp
    rw [this]; exact a2

end

end Lyon.C06b
