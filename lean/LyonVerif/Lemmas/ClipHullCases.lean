/-
  Every output of `Clip.convexHull` is a valid hull of the cubic Bernstein polynomial with the
  given coefficients (`HullOK`): all four shapes (quadrilateral with one control point on each side,
  two triangles, quadrilateral with both control points on one side), flipped or not.
-/
import LyonVerif.Lemmas.ClipHull

set_option linter.unusedSectionVars false
set_option linter.unusedVariables false
set_option linter.unusedSimpArgs false

namespace Lyon.Clip
open Lyon Scalar
variable {K : Type} [Field K] [LinearOrder K] [IsStrictOrderedRing K]

/-- discharge one hull edge: the line through two control points bounds all four -/
macro "hull_edge" : tactic => `(tactic|
  (first
    | (apply edgeAbove_of_ctrl <;> dsimp only <;> first | linarith | norm_num)
    | (apply edgeBelow_of_ctrl <;> dsimp only <;> first | linarith | norm_num)))

macro "hull_shape" s:term "," e:term "," mt:term "," mb:term : tactic => `(tactic|
  exact ⟨$s, $e, $mt, $mb, rfl, rfl, rfl, rfl⟩)

section
variable (d0 d1 d2 d3 : K)

/-- `top = [p0, p1, p3]`, `bottom = [p0, p2, p3]` -/
theorem hull_q (h1 : 0 ≤ d1 - (2 * d0 + d3) / 3) (h2 : d2 - (d0 + 2 * d3) / 3 ≤ 0) :
    HullOK (bern d0 d1 d2 d3) [⟨0, d0⟩, ⟨1 / 3, d1⟩, ⟨1, d3⟩] [⟨0, d0⟩, ⟨2 / 3, d2⟩, ⟨1, d3⟩] := by
  refine ⟨⟨⟨0, d0⟩, ⟨1, d3⟩, [⟨1 / 3, d1⟩], [⟨2 / 3, d2⟩], rfl, rfl, rfl, rfl⟩, ?_, ?_⟩
  · simp only [List.isChain_cons_cons, List.isChain_singleton, and_true]
    exact ⟨by hull_edge, by hull_edge⟩
  · simp only [List.isChain_cons_cons, List.isChain_singleton, and_true]
    exact ⟨by hull_edge, by hull_edge⟩

/-- flipped: `top = [p0, p2, p3]`, `bottom = [p0, p1, p3]` -/
theorem hull_qf (h1 : d1 - (2 * d0 + d3) / 3 ≤ 0) (h2 : 0 ≤ d2 - (d0 + 2 * d3) / 3) :
    HullOK (bern d0 d1 d2 d3) [⟨0, d0⟩, ⟨2 / 3, d2⟩, ⟨1, d3⟩] [⟨0, d0⟩, ⟨1 / 3, d1⟩, ⟨1, d3⟩] := by
  refine ⟨⟨⟨0, d0⟩, ⟨1, d3⟩, [⟨2 / 3, d2⟩], [⟨1 / 3, d1⟩], rfl, rfl, rfl, rfl⟩, ?_, ?_⟩
  · simp only [List.isChain_cons_cons, List.isChain_singleton, and_true]
    exact ⟨by hull_edge, by hull_edge⟩
  · simp only [List.isChain_cons_cons, List.isChain_singleton, and_true]
    exact ⟨by hull_edge, by hull_edge⟩

/-- triangle on `p1`, above -/
theorem hull_t1 (h1 : 0 ≤ d1 - (2 * d0 + d3) / 3) (h2 : 0 ≤ d2 - (d0 + 2 * d3) / 3)
    (h : 2 * (d2 - (d0 + 2 * d3) / 3) ≤ d1 - (2 * d0 + d3) / 3) :
    HullOK (bern d0 d1 d2 d3) [⟨0, d0⟩, ⟨1 / 3, d1⟩, ⟨1, d3⟩] [⟨0, d0⟩, ⟨1, d3⟩] := by
  refine ⟨⟨⟨0, d0⟩, ⟨1, d3⟩, [⟨1 / 3, d1⟩], [], rfl, rfl, rfl, rfl⟩, ?_, ?_⟩
  · simp only [List.isChain_cons_cons, List.isChain_singleton, and_true]
    exact ⟨by hull_edge, by hull_edge⟩
  · simp only [List.isChain_cons_cons, List.isChain_singleton, and_true]
    hull_edge

/-- triangle on `p1`, below (flipped) -/
theorem hull_t1f (h1 : d1 - (2 * d0 + d3) / 3 ≤ 0) (h2 : d2 - (d0 + 2 * d3) / 3 ≤ 0)
    (h : d1 - (2 * d0 + d3) / 3 ≤ 2 * (d2 - (d0 + 2 * d3) / 3)) :
    HullOK (bern d0 d1 d2 d3) [⟨0, d0⟩, ⟨1, d3⟩] [⟨0, d0⟩, ⟨1 / 3, d1⟩, ⟨1, d3⟩] := by
  refine ⟨⟨⟨0, d0⟩, ⟨1, d3⟩, [], [⟨1 / 3, d1⟩], rfl, rfl, rfl, rfl⟩, ?_, ?_⟩
  · simp only [List.isChain_cons_cons, List.isChain_singleton, and_true]
    hull_edge
  · simp only [List.isChain_cons_cons, List.isChain_singleton, and_true]
    exact ⟨by hull_edge, by hull_edge⟩

/-- triangle on `p2`, above -/
theorem hull_t2 (h1 : 0 ≤ d1 - (2 * d0 + d3) / 3) (h2 : 0 ≤ d2 - (d0 + 2 * d3) / 3)
    (h : 2 * (d1 - (2 * d0 + d3) / 3) ≤ d2 - (d0 + 2 * d3) / 3) :
    HullOK (bern d0 d1 d2 d3) [⟨0, d0⟩, ⟨2 / 3, d2⟩, ⟨1, d3⟩] [⟨0, d0⟩, ⟨1, d3⟩] := by
  refine ⟨⟨⟨0, d0⟩, ⟨1, d3⟩, [⟨2 / 3, d2⟩], [], rfl, rfl, rfl, rfl⟩, ?_, ?_⟩
  · simp only [List.isChain_cons_cons, List.isChain_singleton, and_true]
    exact ⟨by hull_edge, by hull_edge⟩
  · simp only [List.isChain_cons_cons, List.isChain_singleton, and_true]
    hull_edge

/-- triangle on `p2`, below (flipped) -/
theorem hull_t2f (h1 : d1 - (2 * d0 + d3) / 3 ≤ 0) (h2 : d2 - (d0 + 2 * d3) / 3 ≤ 0)
    (h : d2 - (d0 + 2 * d3) / 3 ≤ 2 * (d1 - (2 * d0 + d3) / 3)) :
    HullOK (bern d0 d1 d2 d3) [⟨0, d0⟩, ⟨1, d3⟩] [⟨0, d0⟩, ⟨2 / 3, d2⟩, ⟨1, d3⟩] := by
  refine ⟨⟨⟨0, d0⟩, ⟨1, d3⟩, [], [⟨2 / 3, d2⟩], rfl, rfl, rfl, rfl⟩, ?_, ?_⟩
  · simp only [List.isChain_cons_cons, List.isChain_singleton, and_true]
    hull_edge
  · simp only [List.isChain_cons_cons, List.isChain_singleton, and_true]
    exact ⟨by hull_edge, by hull_edge⟩

/-- quadrilateral with both control points above the chord -/
theorem hull_4 (h1 : 0 ≤ d1 - (2 * d0 + d3) / 3) (h2 : 0 ≤ d2 - (d0 + 2 * d3) / 3)
    (ha : d1 - (2 * d0 + d3) / 3 ≤ 2 * (d2 - (d0 + 2 * d3) / 3))
    (hb : d2 - (d0 + 2 * d3) / 3 ≤ 2 * (d1 - (2 * d0 + d3) / 3)) :
    HullOK (bern d0 d1 d2 d3) [⟨0, d0⟩, ⟨1 / 3, d1⟩, ⟨2 / 3, d2⟩, ⟨1, d3⟩] [⟨0, d0⟩, ⟨1, d3⟩] := by
  refine ⟨⟨⟨0, d0⟩, ⟨1, d3⟩, [⟨1 / 3, d1⟩, ⟨2 / 3, d2⟩], [], rfl, rfl, rfl, rfl⟩, ?_, ?_⟩
  · simp only [List.isChain_cons_cons, List.isChain_singleton, and_true]
    exact ⟨by hull_edge, by hull_edge, by hull_edge⟩
  · simp only [List.isChain_cons_cons, List.isChain_singleton, and_true]
    hull_edge

/-- quadrilateral with both control points below the chord (flipped) -/
theorem hull_4f (h1 : d1 - (2 * d0 + d3) / 3 ≤ 0) (h2 : d2 - (d0 + 2 * d3) / 3 ≤ 0)
    (ha : 2 * (d2 - (d0 + 2 * d3) / 3) ≤ d1 - (2 * d0 + d3) / 3)
    (hb : 2 * (d1 - (2 * d0 + d3) / 3) ≤ d2 - (d0 + 2 * d3) / 3) :
    HullOK (bern d0 d1 d2 d3) [⟨0, d0⟩, ⟨1, d3⟩] [⟨0, d0⟩, ⟨1 / 3, d1⟩, ⟨2 / 3, d2⟩, ⟨1, d3⟩] := by
  refine ⟨⟨⟨0, d0⟩, ⟨1, d3⟩, [], [⟨1 / 3, d1⟩, ⟨2 / 3, d2⟩], rfl, rfl, rfl, rfl⟩, ?_, ?_⟩
  · simp only [List.isChain_cons_cons, List.isChain_singleton, and_true]
    hull_edge
  · simp only [List.isChain_cons_cons, List.isChain_singleton, and_true]
    exact ⟨by hull_edge, by hull_edge, by hull_edge⟩

theorem hullDist1_eq (d0 d1 d3 : K) : hullDist1 d0 d1 d3 = d1 - (2 * d0 + d3) / 3 := by
  simp only [hullDist1, ofNat_eq, Nat.cast_ofNat]

theorem hullDist2_eq (d0 d2 d3 : K) : hullDist2 d0 d2 d3 = d2 - (d0 + 2 * d3) / 3 := by
  simp only [hullDist2, ofNat_eq, Nat.cast_ofNat]

theorem hullUnflipped_eq :
    hullUnflipped d0 d1 d2 d3 =
      if (d1 - (2 * d0 + d3) / 3) * (d2 - (d0 + 2 * d3) / 3) < 0 then
        ([⟨0, d0⟩, ⟨1 / 3, d1⟩, ⟨1, d3⟩], [⟨0, d0⟩, ⟨2 / 3, d2⟩, ⟨1, d3⟩])
      else if |d1 - (2 * d0 + d3) / 3| ≥ 2 * |d2 - (d0 + 2 * d3) / 3| then
        ([⟨0, d0⟩, ⟨1 / 3, d1⟩, ⟨1, d3⟩], [⟨0, d0⟩, ⟨1, d3⟩])
      else if |d2 - (d0 + 2 * d3) / 3| ≥ 2 * |d1 - (2 * d0 + d3) / 3| then
        ([⟨0, d0⟩, ⟨2 / 3, d2⟩, ⟨1, d3⟩], [⟨0, d0⟩, ⟨1, d3⟩])
      else ([⟨0, d0⟩, ⟨1 / 3, d1⟩, ⟨2 / 3, d2⟩, ⟨1, d3⟩], [⟨0, d0⟩, ⟨1, d3⟩]) := by
  unfold hullUnflipped
  rw [hullDist1_eq, hullDist2_eq]
  simp only [ofNat_eq, Nat.cast_ofNat, Nat.cast_zero, Nat.cast_one, sc_abs]

/-- **every hull computed by `convex_hull_of_distance_curve` is a hull**: its `top` chain consists
of lines above, its `bottom` chain of lines below the cubic Bernstein polynomial of the four
distances, from `x = 0` to `x = 1` — in all branches, flipped or not. -/
theorem convexHull_ok :
    HullOK (bern d0 d1 d2 d3) (convexHull d0 d1 d2 d3).1 (convexHull d0 d1 d2 d3).2 := by
  unfold convexHull
  rw [hullUnflipped_eq, hullDist1_eq, hullDist2_eq]
  set D1 := d1 - (2 * d0 + d3) / 3 with hD1
  set D2 := d2 - (d0 + 2 * d3) / 3 with hD2
  have hz : (Scalar.zero : K) = 0 := by simp [Scalar.zero]
  rw [hz]
  by_cases hflip : D1 < 0 ∨ ((D1 == (0 : K)) = true ∧ D2 < 0)
  · rw [if_pos hflip]
    have hs : D1 ≤ 0 ∧ (D1 < 0 ∨ D2 < 0) := by
      rcases hflip with h | ⟨h, h'⟩
      · exact ⟨h.le, Or.inl h⟩
      · exact ⟨le_of_eq ((sc_beq _ _).mp h), Or.inr h'⟩
    by_cases hp : D1 * D2 < 0
    · rw [if_pos hp]
      have h2 : 0 ≤ D2 := by
        by_contra hc
        have : D2 < 0 := not_le.mp hc
        nlinarith [mul_nonneg_of_nonpos_of_nonpos hs.1 this.le]
      exact hull_qf d0 d1 d2 d3 hs.1 h2
    · rw [if_neg hp]
      have h2 : D2 ≤ 0 := by
        rcases hs.2 with h | h
        · by_contra hc
          have : 0 < D2 := not_le.mp hc
          exact hp (mul_neg_of_neg_of_pos h this)
        · exact h.le
      rw [abs_of_nonpos hs.1, abs_of_nonpos h2]
      by_cases ha : -D1 ≥ 2 * -D2
      · rw [if_pos ha]; exact hull_t1f d0 d1 d2 d3 hs.1 h2 (by linarith)
      · rw [if_neg ha]
        by_cases hb : -D2 ≥ 2 * -D1
        · rw [if_pos hb]; exact hull_t2f d0 d1 d2 d3 hs.1 h2 (by linarith)
        · rw [if_neg hb]
          exact hull_4f d0 d1 d2 d3 hs.1 h2 (by linarith [not_le.mp ha]) (by linarith [not_le.mp hb])
  · rw [if_neg hflip]
    have h1 : 0 ≤ D1 := not_lt.mp (fun h => hflip (Or.inl h))
    by_cases hp : D1 * D2 < 0
    · rw [if_pos hp]
      have h2 : D2 ≤ 0 := by
        by_contra hc
        have : 0 < D2 := not_le.mp hc
        nlinarith [mul_nonneg h1 this.le]
      exact hull_q d0 d1 d2 d3 h1 h2
    · rw [if_neg hp]
      have h2 : 0 ≤ D2 := by
        rcases eq_or_lt_of_le h1 with h | h
        · by_contra hc
          exact hflip (Or.inr ⟨(sc_beq _ _).mpr h.symm, not_le.mp hc⟩)
        · by_contra hc
          exact hp (mul_neg_of_pos_of_neg h (not_le.mp hc))
      rw [abs_of_nonneg h1, abs_of_nonneg h2]
      by_cases ha : D1 ≥ 2 * D2
      · rw [if_pos ha]; exact hull_t1 d0 d1 d2 d3 h1 h2 ha
      · rw [if_neg ha]
        by_cases hb : D2 ≥ 2 * D1
        · rw [if_pos hb]; exact hull_t2 d0 d1 d2 d3 h1 h2 hb
        · rw [if_neg hb]
          exact hull_4 d0 d1 d2 d3 h1 h2 (not_le.mp ha).le (not_le.mp hb).le

end

end Lyon.Clip
