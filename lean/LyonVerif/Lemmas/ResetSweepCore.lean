/-
  C08 on the sweep model, part 1: the simulation framework.

  Two runs of the same `SM` program are compared, one from a state `s`, one from a state `s'` that
  differs from `s` in what a used `FillTessellator` may still hold when the sweep starts:

  * `pool`  — ANY two lists of recycled monotone tessellators (different lengths, stale contents);
  * `spans` — the same length, and slot by slot either both dead or both alive with `AdvSim`-related
              tessellators (equal up to a `SideEvents::prev` that cannot be read yet);
  * `cov`   — the coverage bits (instrumentation).

  `StSim s s'` says exactly this; `Sim2 m m'` says that runs of `m` / `m'` from related states give
  the same result (value or failure) and related states again.  The rules of this file decompose
  a `do` block structurally (`bind`, `get`, `set`, `throw`, `if`, `for … in`); `sim_auto` applies them.
  Everything the geometry builder sees (`St.out`) is a field on which related states AGREE.
-/
import LyonVerif.Model.Tess.ResetSweep
import LyonVerif.Lemmas.Reset

set_option linter.unusedSectionVars false
set_option linter.unusedVariables false
set_option linter.unusedSimpArgs false

namespace Lyon.C08
open Lyon Lyon.Mono Lyon.Sweep Lyon.EQ

variable {α : Type} [Scalar α] [Wide α]

/-! ### the relation -/

/-- slot by slot: both dead, or both alive and `AdvSim` -/
def OSim : Option (Adv α) → Option (Adv α) → Prop
  | some a, some b => AdvSim a b
  | none, none => True
  | _, _ => False

theorem OSim.rfl' (a : Option (Adv α)) : OSim a a := by
  cases a with
  | none => trivial
  | some t => exact AdvSim.rfl' t

/-- two span lists: the same length, slot by slot `OSim` -/
inductive LSim : List (Option (Adv α)) → List (Option (Adv α)) → Prop
  | nil : LSim [] []
  | cons {x y : Option (Adv α)} {xs ys : List (Option (Adv α))} : OSim x y → LSim xs ys → LSim (x :: xs) (y :: ys)

theorem LSim.rfl' : ∀ (a : List (Option (Adv α))), LSim a a
  | [] => .nil
  | x :: r => .cons (OSim.rfl' x) (LSim.rfl' r)

theorem LSim.length {a b : List (Option (Adv α))} (h : LSim a b) : b.length = a.length := by
  induction h with
  | nil => rfl
  | cons _ _ ih => simp [ih]

theorem LSim.getElem? {a b : List (Option (Adv α))} (h : LSim a b) :
    ∀ i : Nat, OSim (a[i]?.getD none) (b[i]?.getD none) := by
  induction h with
  | nil => intro i; simp; trivial
  | cons hx _ ih =>
    intro i
    cases i with
    | zero => simpa using hx
    | succ j => simpa using ih j

theorem LSim.set {a b : List (Option (Adv α))} (h : LSim a b) {x y : Option (Adv α)} (hxy : OSim x y) :
    ∀ k, LSim (a.set k x) (b.set k y) := by
  induction h with
  | nil => intro k; exact .nil
  | cons hx hr ih =>
    intro k
    cases k with
    | zero => exact .cons hxy hr
    | succ j => exact .cons hx (ih j)

theorem LSim.append {a b c d : List (Option (Adv α))} (h1 : LSim a b) (h2 : LSim c d) : LSim (a ++ c) (b ++ d) := by
  induction h1 with
  | nil => exact h2
  | cons hx _ ih => exact .cons hx ih

theorem LSim.take {a b : List (Option (Adv α))} (h : LSim a b) : ∀ k, LSim (a.take k) (b.take k) := by
  induction h with
  | nil => intro k; simp; exact .nil
  | cons hx _ ih =>
    intro k
    cases k with
    | zero => exact .nil
    | succ j => exact .cons hx (ih j)

theorem LSim.drop {a b : List (Option (Adv α))} (h : LSim a b) : ∀ k, LSim (a.drop k) (b.drop k) := by
  induction h with
  | nil => intro k; simp; exact .nil
  | cons hx hr ih =>
    intro k
    cases k with
    | zero => exact .cons hx hr
    | succ j => exact ih j

theorem OSim.isSome {x y : Option (Adv α)} (h : OSim x y) : x.isSome = y.isSome := by
  cases x <;> cases y <;> first | rfl | exact h.elim

theorem LSim.filter {a b : List (Option (Adv α))} (h : LSim a b) :
    LSim (a.filter (·.isSome)) (b.filter (·.isSome)) := by
  induction h with
  | nil => exact .nil
  | cons hx _ ih =>
    simp only [List.filter_cons, ← hx.isSome]
    split
    · exact .cons hx ih
    · exact ih

theorem LSim.dropLast {a b : List (Option (Adv α))} (h : LSim a b) : LSim a.dropLast b.dropLast := by
  induction h with
  | nil => exact .nil
  | cons hx hr ih =>
    cases hr with
    | nil => exact .nil
    | cons hy hr' => exact .cons hx ih

def SpansSim (a b : Array (Option (Adv α))) : Prop := LSim a.toList b.toList

theorem SpansSim.rfl' (a : Array (Option (Adv α))) : SpansSim a a := LSim.rfl' _

theorem SpansSim.size {a b : Array (Option (Adv α))} (h : SpansSim a b) : b.size = a.size := by
  simpa using LSim.length h

theorem SpansSim.getD {a b : Array (Option (Adv α))} (h : SpansSim a b) (i : Nat) :
    OSim (a.getD i none) (b.getD i none) := by
  rw [Array.getD_eq_getD_getElem?, Array.getD_eq_getD_getElem?, ← Array.getElem?_toList, ← Array.getElem?_toList]
  exact LSim.getElem? h i

theorem SpansSim.setIfInBounds {a b : Array (Option (Adv α))} (h : SpansSim a b) {x y : Option (Adv α)} (hxy : OSim x y)
    (k : Nat) : SpansSim (a.setIfInBounds k x) (b.setIfInBounds k y) := by
  unfold SpansSim
  rw [Array.toList_setIfInBounds, Array.toList_setIfInBounds]
  exact LSim.set h hxy k

theorem SpansSim.insert {a b : Array (Option (Adv α))} (h : SpansSim a b) {x y : Option (Adv α)} (hxy : OSim x y)
    (k : Nat) :
    SpansSim ((a.extract 0 k).push x ++ a.extract k a.size) ((b.extract 0 k).push y ++ b.extract k a.size) := by
  unfold SpansSim
  simp only [Array.toList_append, Array.toList_push, Array.toList_extract, List.extract_eq_take_drop]
  exact LSim.append (LSim.append (LSim.take (LSim.drop h 0) _) (.cons hxy .nil)) (LSim.take (LSim.drop h k) _)

theorem SpansSim.filter {a b : Array (Option (Adv α))} (h : SpansSim a b) :
    SpansSim (a.filter (·.isSome)) (b.filter (·.isSome)) := by
  unfold SpansSim
  rw [Array.toList_filter, Array.toList_filter]
  exact LSim.filter h

theorem SpansSim.pop {a b : Array (Option (Adv α))} (h : SpansSim a b) : SpansSim a.pop b.pop := by
  unfold SpansSim
  rw [Array.toList_pop, Array.toList_pop]
  exact LSim.dropLast h

/-- replace the three fields related states may differ in -/
@[reducible] def with3 (s : St α) (sp : Array (Option (Adv α))) (pl : List (Adv α)) (c : Nat) : St α :=
  { s with spans := sp, pool := pl, cov := c }

def StSim (s s' : St α) : Prop := ∃ sp pl c, s' = with3 s sp pl c ∧ SpansSim s.spans sp

theorem StSim.rfl' (s : St α) : StSim s s := ⟨s.spans, s.pool, s.cov, rfl, SpansSim.rfl' _⟩

/-- related states with the same `spans` on the left side -/
theorem StSim.mk' (s : St α) (sp : Array (Option (Adv α))) (pl : List (Adv α)) (c : Nat) (h : SpansSim s.spans sp) :
    StSim s (with3 s sp pl c) := ⟨sp, pl, c, rfl, h⟩

/-! ### running an `SM` program -/

variable {β γ δ : Type}

def run (m : SM α β) (s : St α) : Except Fail β × St α := m.run.run s

def RSim (r r' : Except Fail β × St α) : Prop := r.1 = r'.1 ∧ StSim r.2 r'.2

structure Sim2 (m m' : SM α β) : Prop where
  out : ∀ s s', StSim s s' → RSim (run m s) (run m' s')

abbrev Sim (m : SM α β) : Prop := Sim2 m m

@[simp] theorem run_pure (a : β) (s : St α) : run (pure a : SM α β) s = (.ok a, s) := rfl
@[simp] theorem run_throw (e : Fail) (s : St α) : run (throw e : SM α β) s = (.error e, s) := rfl
@[simp] theorem run_get (s : St α) : run (get : SM α (St α)) s = (.ok s, s) := rfl
@[simp] theorem run_set (t s : St α) : run (set t : SM α PUnit) s = (.ok ⟨⟩, t) := rfl
@[simp] theorem run_modify (g : St α → St α) (s : St α) : run (modify g : SM α PUnit) s = (.ok ⟨⟩, g s) := rfl

theorem run_bind (m : SM α β) (f : β → SM α γ) (s : St α) :
    run (m >>= f) s = match run m s with
      | (.ok a, t) => run (f a) t
      | (.error e, t) => (.error e, t) := by
  unfold run
  rw [ExceptT.run_bind, StateT.run_bind]
  rcases h : StateT.run (ExceptT.run m) s with ⟨r, t⟩
  cases r <;> rfl

/-! ### structural rules -/

theorem sim_pure (a : β) : Sim2 (pure a : SM α β) (pure a) := ⟨fun s s' h => ⟨rfl, h⟩⟩

theorem sim_throw (e : Fail) : Sim2 (throw e : SM α β) (throw e) := ⟨fun s s' h => ⟨rfl, h⟩⟩

theorem sim_bind {m m' : SM α β} {f f' : β → SM α γ} (hm : Sim2 m m') (hf : ∀ a, Sim2 (f a) (f' a)) :
    Sim2 (m >>= f) (m' >>= f') := by
  refine ⟨fun s s' h => ?_⟩
  rw [run_bind, run_bind]
  obtain ⟨e1, e2⟩ := hm.out s s' h
  rcases h1 : run m s with ⟨r, t⟩
  rcases h2 : run m' s' with ⟨r', t'⟩
  rw [h1, h2] at e1 e2
  simp only at e1 e2
  subst e1
  cases r with
  | error e => exact ⟨rfl, e2⟩
  | ok a => exact (hf a).out t t' e2

/-- `let s ← get; …`: the continuation is entered with related states on the two sides -/
theorem sim_get_bind {f f' : St α → SM α β}
    (hf : ∀ s sp pl c, SpansSim s.spans sp → Sim2 (f s) (f' (with3 s sp pl c))) :
    Sim2 (get >>= f) (get >>= f') := by
  refine ⟨fun s s' h => ?_⟩
  rw [run_bind, run_bind]
  simp only [run_get]
  obtain ⟨sp, pl, c, rfl, hs⟩ := h
  exact (hf s sp pl c hs).out s _ ⟨sp, pl, c, rfl, hs⟩

theorem sim_set {t t' : St α} (h : StSim t t') : Sim2 (set t : SM α PUnit) (set t') :=
  ⟨fun _ _ _ => ⟨rfl, h⟩⟩

theorem sim_modify {g g' : St α → St α} (h : ∀ s s', StSim s s' → StSim (g s) (g' s')) :
    Sim2 (modify g : SM α PUnit) (modify g') :=
  ⟨fun s s' hs => ⟨rfl, h s s' hs⟩⟩

/-- (the two `Decidable` instances may differ syntactically: `dsimp` does not normalise instance
arguments, the right-hand side's still mentions `with3 s sp pl c`) -/
theorem sim_ite {c : Prop} {i1 i2 : Decidable c} {a a' b b' : SM α β} (ha : Sim2 a a') (hb : Sim2 b b') :
    Sim2 (@ite _ c i1 a b) (@ite _ c i2 a' b') := by
  by_cases hc : c
  · rw [if_pos hc, if_pos hc]; exact ha
  · rw [if_neg hc, if_neg hc]; exact hb

theorem sim_dite {c : Prop} {i1 i2 : Decidable c} {a a' : c → SM α β} {b b' : ¬ c → SM α β}
    (ha : ∀ h, Sim2 (a h) (a' h)) (hb : ∀ h, Sim2 (b h) (b' h)) :
    Sim2 (@dite _ c i1 a b) (@dite _ c i2 a' b') := by
  by_cases hc : c
  · rw [dif_pos hc, dif_pos hc]; exact ha _
  · rw [dif_neg hc, dif_neg hc]; exact hb _

/-! ### `for … in` -/

theorem sim_forIn_list {f f' : γ → δ → SM α (ForInStep δ)} (hf : ∀ x b, Sim2 (f x b) (f' x b)) (xs : List γ) :
    ∀ b : δ, Sim2 (forIn xs b f) (forIn xs b f') := by
  induction xs with
  | nil => intro b; simp only [List.forIn_nil]; exact sim_pure b
  | cons x r ih =>
    intro b
    simp only [List.forIn_cons]
    refine sim_bind (hf x b) ?_
    intro st
    cases st with
    | done b' => exact sim_pure b'
    | yield b' => exact ih b'

theorem sim_forIn_array {f f' : γ → δ → SM α (ForInStep δ)} (xs : Array γ) (b : δ)
    (hf : ∀ x b, Sim2 (f x b) (f' x b)) : Sim2 (forIn xs b f) (forIn xs b f') := by
  rw [← Array.forIn_toList, ← Array.forIn_toList]
  exact sim_forIn_list hf _ b

theorem sim_forIn_range {f f' : Nat → δ → SM α (ForInStep δ)} (r : Std.Legacy.Range) (b : δ)
    (hf : ∀ x b, Sim2 (f x b) (f' x b)) : Sim2 (forIn r b f) (forIn r b f') := by
  rw [Std.Legacy.Range.forIn_eq_forIn_range', Std.Legacy.Range.forIn_eq_forIn_range']
  exact sim_forIn_list hf _ b

/-! ### leaves -/

/-- the two sides write states that differ by `with3` only -/
theorem sim_set_with3 {t : St α} {sp : Array (Option (Adv α))} {pl : List (Adv α)} {c : Nat}
    (h : SpansSim t.spans sp) : Sim2 (set t : SM α PUnit) (set (with3 t sp pl c)) :=
  sim_set ⟨sp, pl, c, rfl, h⟩

/-! ### the decomposition tactic

`sim_call` is extended (by `macro_rules`) with every simulation lemma once it is proved;
`sim_step` applies one structural rule; after `let s ← get` the two sides are normalised so that they
read the same fields of the same `s` (the right-hand side's state is `with3 s sp pl c`). -/

syntax "sim_call" : tactic
macro_rules | `(tactic| sim_call) => `(tactic| fail "no simulation lemma applies")

macro "sim_step" : tactic => `(tactic| first
  | sim_call
  | with_reducible assumption
  | with_reducible exact sim_pure _
  | with_reducible exact sim_throw _
  | (apply sim_set_with3; assumption)
  | ((with_reducible refine sim_modify ?_); intro s s' hs; obtain ⟨sp, pl, c, e, h⟩ := hs; subst e; exact ⟨sp, pl, _, rfl, h⟩)
  | ((with_reducible refine sim_get_bind ?_); intro s sp pl c hsp; dsimp only [with3]; try simp only [SpansSim.size hsp])
  | (with_reducible refine sim_bind ?_ ?_)
  | intro _
  | (with_reducible refine sim_forIn_array _ _ ?_)
  | (with_reducible refine sim_forIn_range _ _ ?_)
  | (with_reducible apply sim_ite)
  | (with_reducible apply sim_dite)
  | split)

macro "sim_auto" : tactic => `(tactic| repeat' sim_step)

end Lyon.C08
