/-
  C14 helper lemmas about `Model/Path/Commands.lean`: what a program appends to the command
  array and the iterators on exactly such an array.  Mathlib-free.
-/
import LyonVerif.Model.Path.Commands
import LyonVerif.Model.Path.Store

set_option linter.unusedSectionVars false
set_option linter.unusedVariables false
set_option linter.unusedSimpArgs false

namespace Lyon.Path.Cmd
open Lyon.Path

/-- the command words a program appends; `pos` = current length of the array, `fi` =
`first_event_index` -/
def emitCmds {A : Type} : Nat → Nat → List (Call Nat A) → List Nat
  | _, _, [] => []
  | pos, _, .begin to _ :: r => BEGIN :: to :: emitCmds (pos + 2) pos r
  | pos, fi, .line to _ :: r => LINE :: to :: emitCmds (pos + 2) fi r
  | pos, fi, .quad c to _ :: r => QUADRATIC :: c :: to :: emitCmds (pos + 3) fi r
  | pos, fi, .cubic c1 c2 to _ :: r => CUBIC :: c1 :: c2 :: to :: emitCmds (pos + 4) fi r
  | pos, fi, .end_ cl :: r => (if cl then CLOSE else END) :: fi :: emitCmds (pos + 2) fi r

theorem run_emit {A : Type} (b : Builder) (prog : List (Call Nat A)) :
    (b.run prog).1.cmds = b.cmds ++ emitCmds b.cmds.length b.firstEventIndex prog := by
  induction prog generalizing b with
  | nil => simp [Builder.run, emitCmds]
  | cons c r ih =>
    obtain ⟨cmds, fi⟩ := b
    cases c <;> simp [Builder.run, Builder.call, ih, emitCmds]

theorem iterGo_emit {A : Type} (prog : List (Call Nat A)) (st : Option (Nat × Nat)) (pos fi prev first : Nat)
    (hn : wellNestedFrom st.isSome prog = true)
    (hst : ∀ f0 c0, st = some (f0, c0) → first = f0 ∧ prev = c0) :
    iterGo (emitCmds pos fi prog) prev first = some (specFrom st prog) := by
  induction prog generalizing st pos fi prev first with
  | nil => cases st <;> simp [emitCmds, iterGo, specFrom]
  | cons c r ih =>
    cases st with
    | none =>
      cases c with
      | begin to a =>
        have h := ih (some (to, to)) (pos + 2) pos to to (by simpa [wellNestedFrom] using hn)
          (by intro f0 c0 h; cases h; exact ⟨rfl, rfl⟩)
        simp [emitCmds, iterGo, BEGIN, h, specFrom]
      | _ => simp [wellNestedFrom] at hn
    | some fc =>
      obtain ⟨f0, c0⟩ := fc
      obtain ⟨rfl, rfl⟩ := hst f0 c0 rfl
      cases c with
      | begin to a => simp [wellNestedFrom] at hn
      | line to a =>
        have h := ih (some (first, to)) (pos + 2) fi to first (by simpa [wellNestedFrom] using hn)
          (by intro f0 c0 h; cases h; exact ⟨rfl, rfl⟩)
        simp [emitCmds, iterGo, BEGIN, LINE, h, specFrom]
      | quad k to a =>
        have h := ih (some (first, to)) (pos + 3) fi to first (by simpa [wellNestedFrom] using hn)
          (by intro f0 c0 h; cases h; exact ⟨rfl, rfl⟩)
        simp [emitCmds, iterGo, BEGIN, LINE, QUADRATIC, h, specFrom]
      | cubic k1 k2 to a =>
        have h := ih (some (first, to)) (pos + 4) fi to first (by simpa [wellNestedFrom] using hn)
          (by intro f0 c0 h; cases h; exact ⟨rfl, rfl⟩)
        simp [emitCmds, iterGo, BEGIN, LINE, QUADRATIC, CUBIC, h, specFrom]
      | end_ cl =>
        have h := ih none (pos + 2) fi first first (by simpa [wellNestedFrom] using hn)
          (by intro f0 c0 h; cases h)
        cases cl <;> simp [emitCmds, iterGo, BEGIN, LINE, QUADRATIC, CUBIC, CLOSE, END, h, specFrom]

theorem eventsGo_emit {A π : Type} (eps cps : List π) (prog : List (Call Nat A)) (st : Option (Nat × Nat))
    (pos fi prev first : Nat)
    (hn : wellNestedFrom st.isSome prog = true)
    (hst : ∀ f0 c0, st = some (f0, c0) → first = f0 ∧ prev = c0) :
    eventsGo eps cps (emitCmds pos fi prog) prev first
      = resolveAll (fun i => eps[i]?) (fun i => cps[i]?) (specFrom st prog) := by
  induction prog generalizing st pos fi prev first with
  | nil => cases st <;> simp [emitCmds, eventsGo, specFrom, resolveAll]
  | cons c r ih =>
    cases st with
    | none =>
      cases c with
      | begin to a =>
        have h := ih (some (to, to)) (pos + 2) pos to to (by simpa [wellNestedFrom] using hn)
          (by intro f0 c0 h; cases h; exact ⟨rfl, rfl⟩)
        simp [emitCmds, eventsGo, BEGIN, h, specFrom, resolveAll, resolveEvent]
        cases eps[to]? <;> simp
      | _ => simp [wellNestedFrom] at hn
    | some fc =>
      obtain ⟨f0, c0⟩ := fc
      obtain ⟨rfl, rfl⟩ := hst f0 c0 rfl
      cases c with
      | begin to a => simp [wellNestedFrom] at hn
      | line to a =>
        have h := ih (some (first, to)) (pos + 2) fi to first (by simpa [wellNestedFrom] using hn)
          (by intro f0 c0 h; cases h; exact ⟨rfl, rfl⟩)
        simp [emitCmds, eventsGo, BEGIN, LINE, h, specFrom, resolveAll, resolveEvent]
        cases eps[prev]? <;> cases eps[to]? <;> simp
      | quad k to a =>
        have h := ih (some (first, to)) (pos + 3) fi to first (by simpa [wellNestedFrom] using hn)
          (by intro f0 c0 h; cases h; exact ⟨rfl, rfl⟩)
        simp [emitCmds, eventsGo, BEGIN, LINE, QUADRATIC, h, specFrom, resolveAll, resolveEvent]
        cases eps[prev]? <;> cases cps[k]? <;> cases eps[to]? <;> simp
      | cubic k1 k2 to a =>
        have h := ih (some (first, to)) (pos + 4) fi to first (by simpa [wellNestedFrom] using hn)
          (by intro f0 c0 h; cases h; exact ⟨rfl, rfl⟩)
        simp [emitCmds, eventsGo, BEGIN, LINE, QUADRATIC, CUBIC, h, specFrom, resolveAll, resolveEvent]
        cases eps[prev]? <;> cases cps[k1]? <;> cases cps[k2]? <;> cases eps[to]? <;> simp
      | end_ cl =>
        have h := ih none (pos + 2) fi first first (by simpa [wellNestedFrom] using hn)
          (by intro f0 c0 h; cases h)
        cases cl <;>
          simp [emitCmds, eventsGo, BEGIN, LINE, QUADRATIC, CUBIC, CLOSE, END, h, specFrom, resolveAll,
            resolveEvent] <;>
          cases eps[prev]? <;> cases eps[first]? <;> simp



/-- the event ids a program is handed back: the position of each command's verb word -/
def emitIds {A : Type} : Nat → List (Call Nat A) → List Nat
  | _, [] => []
  | pos, .begin _ _ :: r => pos :: emitIds (pos + 2) r
  | pos, .line _ _ :: r => pos :: emitIds (pos + 2) r
  | pos, .quad _ _ _ :: r => pos :: emitIds (pos + 3) r
  | pos, .cubic _ _ _ _ :: r => pos :: emitIds (pos + 4) r
  | pos, .end_ _ :: r => pos :: emitIds (pos + 2) r

theorem run_ids {A : Type} (b : Builder) (prog : List (Call Nat A)) :
    (b.run prog).2 = emitIds b.cmds.length prog := by
  induction prog generalizing b with
  | nil => simp [Builder.run, emitIds]
  | cons c r ih =>
    obtain ⟨cmds, fi⟩ := b
    cases c <;> simp [Builder.run, Builder.call, ih, emitIds]

theorem get_pre {α : Type} (pre rest : List α) (k : Nat) :
    (pre ++ rest)[pre.length + k]? = rest[k]? := by
  rw [List.getElem?_append_right (by omega)]; simp

theorem mapM_event_emit {A : Type} (all : List Nat) (prog : List (Call Nat A)) (st : Option (Nat × Nat))
    (pre : List Nat) (fi : Nat)
    (hall : all = pre ++ emitCmds pre.length fi prog)
    (hn : wellNestedFrom st.isSome prog = true)
    (hst : ∀ f0 c0, st = some (f0, c0) →
      1 ≤ pre.length ∧ all[pre.length - 1]? = some c0 ∧ all[fi + 1]? = some f0) :
    (emitIds pre.length prog).mapM (event all) = some (specFrom st prog) := by
  induction prog generalizing st pre fi with
  | nil => cases st <;> simp [emitIds, specFrom]
  | cons c r ih =>
    have g0 : ∀ rest, all = pre ++ rest → all[pre.length]? = rest[0]? := by
      intro rest h; rw [h]; simpa using get_pre pre rest 0
    have gk : ∀ rest k, all = pre ++ rest → all[pre.length + k]? = rest[k]? := by
      intro rest k h; rw [h]; exact get_pre pre rest k
    cases st with
    | none =>
      cases c with
      | begin to a =>
        simp only [emitCmds] at hall
        have h := ih (some (to, to)) (pre ++ [BEGIN, to]) pre.length (by simpa using hall)
          (by simpa [wellNestedFrom] using hn)
          (by intro f0 c0 h; cases h
              refine ⟨by simp, ?_, ?_⟩
              · have := gk _ 1 hall; simpa using this
              · have := gk _ 1 hall; simpa using this)
        have e0 := g0 _ hall
        have e1 := gk _ 1 hall
        simp at e0 e1
        simp at h
        simp [emitIds, event, e0, e1, BEGIN, LINE, QUADRATIC, CUBIC, h, specFrom]
      | _ => simp [wellNestedFrom] at hn
    | some fc =>
      obtain ⟨f0, c0⟩ := fc
      obtain ⟨hpos, hprev, hfirst⟩ := hst f0 c0 rfl
      cases c with
      | begin to a => simp [wellNestedFrom] at hn
      | line to a =>
        simp only [emitCmds] at hall
        have e0 := g0 _ hall
        have e1 := gk _ 1 hall
        simp at e0 e1
        have h := ih (some (f0, to)) (pre ++ [LINE, to]) fi (by simpa using hall)
          (by simpa [wellNestedFrom] using hn)
          (by intro f0' c0' h; cases h
              exact ⟨by simp, by simpa using e1, hfirst⟩)
        simp at h
        simp [emitIds, event, event.csubC, e0, e1, hpos, hprev, BEGIN, LINE, QUADRATIC, CUBIC, h, specFrom]
      | quad k to a =>
        simp only [emitCmds] at hall
        have e0 := g0 _ hall
        have e1 := gk _ 1 hall
        have e2 := gk _ 2 hall
        simp at e0 e1 e2
        have h := ih (some (f0, to)) (pre ++ [QUADRATIC, k, to]) fi (by simpa using hall)
          (by simpa [wellNestedFrom] using hn)
          (by intro f0' c0' h; cases h
              exact ⟨by simp, by simpa using e2, hfirst⟩)
        simp at h
        simp [emitIds, event, event.csubC, e0, e1, e2, hpos, hprev, BEGIN, LINE, QUADRATIC, CUBIC, h, specFrom]
      | cubic k1 k2 to a =>
        simp only [emitCmds] at hall
        have e0 := g0 _ hall
        have e1 := gk _ 1 hall
        have e2 := gk _ 2 hall
        have e3 := gk _ 3 hall
        simp at e0 e1 e2 e3
        have h := ih (some (f0, to)) (pre ++ [CUBIC, k1, k2, to]) fi (by simpa using hall)
          (by simpa [wellNestedFrom] using hn)
          (by intro f0' c0' h; cases h
              exact ⟨by simp, by simpa using e3, hfirst⟩)
        simp at h
        simp [emitIds, event, event.csubC, e0, e1, e2, e3, hpos, hprev, BEGIN, LINE, QUADRATIC, CUBIC, h, specFrom]
      | end_ cl =>
        simp only [emitCmds] at hall
        have e0 := g0 _ hall
        have e1 := gk _ 1 hall
        simp at e0 e1
        have h := ih none (pre ++ [if cl then CLOSE else END, fi]) fi (by simpa using hall)
          (by simpa [wellNestedFrom] using hn)
          (by intro f0' c0' h; cases h)
        simp at h
        cases cl <;>
          simp [emitIds, event, event.csubC, e0, e1, hpos, hprev, hfirst, BEGIN, LINE, QUADRATIC, CUBIC,
            CLOSE, END, h, specFrom] at h ⊢ <;> exact h



/-! ### `next_event_id_in_path`, `next_event_id_in_sub_path` -/

theorem emitIds_head {A : Type} (pos : Nat) (r : List (Call Nat A)) :
    (emitIds pos r)[0]? = if r.isEmpty then none else some pos := by
  cases r with
  | nil => simp [emitIds]
  | cons c t => cases c <;> simp [emitIds]

theorem emitCmds_length_pos {A : Type} (pos fi : Nat) (r : List (Call Nat A)) :
    (emitCmds pos fi r).length = 0 ↔ r = [] := by
  cases r with
  | nil => simp [emitCmds]
  | cons c t => cases c <;> simp [emitCmds]

/-- `next_event_id_in_path` on the command array of a program: from the `j`-th event id to the
`j+1`-th, `None` after the last -/
theorem nextInPath_emit {A : Type} (all : List Nat) (prog : List (Call Nat A)) (pre : List Nat) (fi : Nat)
    (hall : all = pre ++ emitCmds pre.length fi prog) (j id : Nat)
    (hj : (emitIds pre.length prog)[j]? = some id) :
    nextEventIdInPath all id = some ((emitIds pre.length prog)[j + 1]?) := by
  induction prog generalizing pre fi j with
  | nil => simp [emitIds] at hj
  | cons c r ih =>
    cases j with
    | succ j =>
      cases c with
      | begin to a =>
        simp only [emitIds, List.getElem?_cons_succ] at hj ⊢
        have := ih (pre ++ [BEGIN, to]) pre.length (by simpa [emitCmds] using hall) j (by simpa using hj)
        simpa using this
      | line to a =>
        simp only [emitIds, List.getElem?_cons_succ] at hj ⊢
        have := ih (pre ++ [LINE, to]) fi (by simpa [emitCmds] using hall) j (by simpa using hj)
        simpa using this
      | quad k to a =>
        simp only [emitIds, List.getElem?_cons_succ] at hj ⊢
        have := ih (pre ++ [QUADRATIC, k, to]) fi (by simpa [emitCmds] using hall) j (by simpa using hj)
        simpa using this
      | cubic k1 k2 to a =>
        simp only [emitIds, List.getElem?_cons_succ] at hj ⊢
        have := ih (pre ++ [CUBIC, k1, k2, to]) fi (by simpa [emitCmds] using hall) j (by simpa using hj)
        simpa using this
      | end_ cl =>
        simp only [emitIds, List.getElem?_cons_succ] at hj ⊢
        have := ih (pre ++ [if cl then CLOSE else END, fi]) fi (by simpa [emitCmds] using hall) j (by simpa using hj)
        simpa using this
    | zero =>
      have hlen0 := emitCmds_length_pos (A := A)
      cases c with
      | begin to a =>
        simp [emitIds] at hj; subst hj
        have e0 : all[pre.length]? = some BEGIN := by rw [hall]; simp [emitCmds]
        have hl : all.length = pre.length + 2 + (emitCmds (pre.length + 2) pre.length r).length := by
          rw [hall]; simp [emitCmds]; omega
        simp only [nextEventIdInPath, e0, Option.map_some, emitIds, List.getElem?_cons_succ, emitIds_head]
        cases r with
        | nil => simp [hl, emitCmds, BEGIN, QUADRATIC, CUBIC]
        | cons c' t =>
          have : emitCmds (pre.length + 2) pre.length (c' :: t) ≠ [] := by cases c' <;> simp [emitCmds]
          simp [hl, this, BEGIN, QUADRATIC, CUBIC]
      | line to a =>
        simp [emitIds] at hj; subst hj
        have e0 : all[pre.length]? = some LINE := by rw [hall]; simp [emitCmds]
        have hl : all.length = pre.length + 2 + (emitCmds (pre.length + 2) fi r).length := by
          rw [hall]; simp [emitCmds]; omega
        simp only [nextEventIdInPath, e0, Option.map_some, emitIds, List.getElem?_cons_succ, emitIds_head]
        cases r with
        | nil => simp [hl, emitCmds, LINE, QUADRATIC, CUBIC]
        | cons c' t =>
          have : emitCmds (pre.length + 2) fi (c' :: t) ≠ [] := by cases c' <;> simp [emitCmds]
          simp [hl, this, LINE, QUADRATIC, CUBIC]
      | quad k to a =>
        simp [emitIds] at hj; subst hj
        have e0 : all[pre.length]? = some QUADRATIC := by rw [hall]; simp [emitCmds]
        have hl : all.length = pre.length + 3 + (emitCmds (pre.length + 3) fi r).length := by
          rw [hall]; simp [emitCmds]; omega
        simp only [nextEventIdInPath, e0, Option.map_some, emitIds, List.getElem?_cons_succ, emitIds_head]
        cases r with
        | nil => simp [hl, emitCmds, QUADRATIC, CUBIC]
        | cons c' t =>
          have : emitCmds (pre.length + 3) fi (c' :: t) ≠ [] := by cases c' <;> simp [emitCmds]
          simp [hl, this, QUADRATIC, CUBIC]
      | cubic k1 k2 to a =>
        simp [emitIds] at hj; subst hj
        have e0 : all[pre.length]? = some CUBIC := by rw [hall]; simp [emitCmds]
        have hl : all.length = pre.length + 4 + (emitCmds (pre.length + 4) fi r).length := by
          rw [hall]; simp [emitCmds]; omega
        simp only [nextEventIdInPath, e0, Option.map_some, emitIds, List.getElem?_cons_succ, emitIds_head]
        cases r with
        | nil => simp [hl, emitCmds, QUADRATIC, CUBIC]
        | cons c' t =>
          have : emitCmds (pre.length + 4) fi (c' :: t) ≠ [] := by cases c' <;> simp [emitCmds]
          simp [hl, this, QUADRATIC, CUBIC]
      | end_ cl =>
        simp [emitIds] at hj; subst hj
        have e0 : all[pre.length]? = some (if cl then CLOSE else END) := by rw [hall]; simp [emitCmds]
        have hl : all.length = pre.length + 2 + (emitCmds (pre.length + 2) fi r).length := by
          rw [hall]; simp [emitCmds]; omega
        simp only [nextEventIdInPath, e0, Option.map_some, emitIds, List.getElem?_cons_succ, emitIds_head]
        cases r with
        | nil => cases cl <;> simp [hl, emitCmds, CLOSE, END, QUADRATIC, CUBIC]
        | cons c' t =>
          have : emitCmds (pre.length + 2) fi (c' :: t) ≠ [] := by cases c' <;> simp [emitCmds]
          cases cl <;> simp [hl, this, CLOSE, END, QUADRATIC, CUBIC]


theorem walk_from (all ids : List Nat)
    (hnext : ∀ j id, ids[j]? = some id → nextEventIdInPath all id = some (ids[j + 1]?)) :
    ∀ k j id fuel, j + k = ids.length → 1 ≤ k → k ≤ fuel → ids[j]? = some id →
      walkIds all fuel id = some (ids.drop j) := by
  intro k
  induction k with
  | zero => intro j id fuel _ h; omega
  | succ k ih =>
    intro j id fuel hjk _ hf hid
    obtain ⟨f, rfl⟩ : ∃ f, fuel = f + 1 := ⟨fuel - 1, by omega⟩
    have hlt : j < ids.length := by omega
    have hdrop : ids.drop j = id :: ids.drop (j + 1) := by
      rw [List.drop_eq_getElem_cons hlt]
      have : ids[j]? = some ids[j] := List.getElem?_eq_getElem hlt
      rw [this] at hid; simp at hid; rw [hid]
    simp only [walkIds, hnext j id hid, Option.bind_some]
    by_cases hk : k = 0
    · subst hk
      have : ids[j + 1]? = none := by simp; omega
      have hd : ids.drop (j + 1) = [] := by simp; omega
      simp [this, hdrop, hd]
    · have hlt' : j + 1 < ids.length := by omega
      have hn : ids[j + 1]? = some ids[j + 1] := List.getElem?_eq_getElem hlt'
      have := ih (j + 1) ids[j + 1] f (by omega) (by omega) (by omega) hn
      simp [hn, this, hdrop]

theorem emitIds_length {A : Type} (pos : Nat) (prog : List (Call Nat A)) :
    (emitIds pos prog).length = prog.length := by
  induction prog generalizing pos with
  | nil => rfl
  | cons c r ih => cases c <;> simp [emitIds, ih]

theorem emitCmds_length_ge {A : Type} (pos fi : Nat) (prog : List (Call Nat A)) :
    prog.length ≤ (emitCmds pos fi prog).length := by
  induction prog generalizing pos fi with
  | nil => simp
  | cons c r ih =>
    cases c with
    | begin to a => have := ih (pos + 2) pos; simp [emitCmds]; omega
    | line to a => have := ih (pos + 2) fi; simp [emitCmds]; omega
    | quad k to a => have := ih (pos + 3) fi; simp [emitCmds]; omega
    | cubic k1 k2 to a => have := ih (pos + 4) fi; simp [emitCmds]; omega
    | end_ cl => have := ih (pos + 2) fi; simp [emitCmds]; omega

/-- what `next_event_id_in_sub_path` must answer for each event id: the next id, and at an End
the id of the sub-path's Begin (`b`) — the ids of a sub-path form a cycle -/
def cycleSpec {A : Type} : List Nat → List (Call Nat A) → Nat → List Nat
  | id :: ids, .begin _ _ :: r, _ => (ids.head?.getD 0) :: cycleSpec ids r id
  | _ :: ids, .end_ _ :: r, b => b :: cycleSpec ids r b
  | _ :: ids, _ :: r, b => (ids.head?.getD 0) :: cycleSpec ids r b
  | _, _, _ => []

theorem emitIds_head? {A : Type} (pos : Nat) (r : List (Call Nat A)) (hr : r ≠ []) :
    (emitIds pos r).head?.getD 0 = pos := by
  cases r with
  | nil => exact absurd rfl hr
  | cons c t => cases c <;> simp [emitIds]

theorem nextInSubPath_emit {A : Type} (all : List Nat) (prog : List (Call Nat A)) (inSub : Bool)
    (pre : List Nat) (fi : Nat)
    (hall : all = pre ++ emitCmds pre.length fi prog)
    (hn : wellNestedFrom inSub prog = true) :
    (emitIds pre.length prog).mapM (nextEventIdInSubPath all)
      = some (cycleSpec (emitIds pre.length prog) prog fi) := by
  induction prog generalizing inSub pre fi with
  | nil => simp [emitIds, cycleSpec]
  | cons c r ih =>
    have e0 : ∀ w rest, all = pre ++ (w :: rest) → all[pre.length]? = some w := by
      intro w rest h; rw [h]; simp
    have e1 : ∀ w v rest, all = pre ++ (w :: v :: rest) → all[pre.length + 1]? = some v := by
      intro w v rest h; rw [h]; simp
    cases inSub with
    | false =>
      cases c with
      | begin to a =>
        have hr : r ≠ [] := by intro h; subst h; simp [wellNestedFrom] at hn
        have h := ih true (pre ++ [BEGIN, to]) pre.length (by simpa [emitCmds] using hall)
          (by simpa [wellNestedFrom] using hn)
        simp at h
        simp [emitIds, cycleSpec, nextEventIdInSubPath, e0 _ _ (by simpa [emitCmds] using hall), BEGIN, LINE,
          h, emitIds_head? _ r hr]
      | _ => simp [wellNestedFrom] at hn
    | true =>
      cases c with
      | begin to a => simp [wellNestedFrom] at hn
      | line to a =>
        have hr : r ≠ [] := by intro h; subst h; simp [wellNestedFrom] at hn
        have h := ih true (pre ++ [LINE, to]) fi (by simpa [emitCmds] using hall)
          (by simpa [wellNestedFrom] using hn)
        simp at h
        simp [emitIds, cycleSpec, nextEventIdInSubPath, e0 _ _ (by simpa [emitCmds] using hall), BEGIN, LINE,
          h, emitIds_head? _ r hr]
      | quad k to a =>
        have hr : r ≠ [] := by intro h; subst h; simp [wellNestedFrom] at hn
        have h := ih true (pre ++ [QUADRATIC, k, to]) fi (by simpa [emitCmds] using hall)
          (by simpa [wellNestedFrom] using hn)
        simp at h
        simp [emitIds, cycleSpec, nextEventIdInSubPath, e0 _ _ (by simpa [emitCmds] using hall), BEGIN, LINE,
          QUADRATIC, h, emitIds_head? _ r hr]
      | cubic k1 k2 to a =>
        have hr : r ≠ [] := by intro h; subst h; simp [wellNestedFrom] at hn
        have h := ih true (pre ++ [CUBIC, k1, k2, to]) fi (by simpa [emitCmds] using hall)
          (by simpa [wellNestedFrom] using hn)
        simp at h
        simp [emitIds, cycleSpec, nextEventIdInSubPath, e0 _ _ (by simpa [emitCmds] using hall), BEGIN, LINE,
          QUADRATIC, CUBIC, h, emitIds_head? _ r hr]
      | end_ cl =>
        have h := ih false (pre ++ [if cl then CLOSE else END, fi]) fi (by simpa [emitCmds] using hall)
          (by simpa [wellNestedFrom] using hn)
        simp at h
        cases cl <;>
          simp [emitIds, cycleSpec, nextEventIdInSubPath, e0 _ _ (by simpa [emitCmds] using hall),
            e1 _ _ _ (by simpa [emitCmds] using hall), BEGIN, LINE, QUADRATIC, CUBIC, CLOSE, END] <;>
          simp [h]


end Lyon.Path.Cmd
