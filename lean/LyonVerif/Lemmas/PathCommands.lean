/-
  C14 helper lemmas about `Model/Path/Commands.lean`: what a program appends to the command
  array and the iterators on exactly such an array.  Mathlib-free.
-/
import LyonVerif.Model.Path.Commands
import LyonVerif.Model.Path.Store

set_option linter.unusedSectionVars false
set_option linter.unusedVariables false
set_option linter.unusedSimpArgs false

namespace Lyon.Path.Cmd
open Lyon.Path

/-- the command words a program appends; `pos` = current length of the array, `fi` =
`first_event_index` -/
def emitCmds {A : Type} : Nat → Nat → List (Call Nat A) → List Nat
  | _, _, [] => []
  | pos, _, .begin to _ :: r => BEGIN :: to :: emitCmds (pos + 2) pos r
  | pos, fi, .line to _ :: r => LINE :: to :: emitCmds (pos + 2) fi r
  | pos, fi, .quad c to _ :: r => QUADRATIC :: c :: to :: emitCmds (pos + 3) fi r
  | pos, fi, .cubic c1 c2 to _ :: r => CUBIC :: c1 :: c2 :: to :: emitCmds (pos + 4) fi r
  | pos, fi, .end_ cl :: r => (if cl then CLOSE else END) :: fi :: emitCmds (pos + 2) fi r

theorem run_emit {A : Type} (b : Builder) (prog : List (Call Nat A)) :
    (b.run prog).1.cmds = b.cmds ++ emitCmds b.cmds.length b.firstEventIndex prog := by
  induction prog generalizing b with
  | nil => simp [Builder.run, emitCmds]
  | cons c r ih =>
    obtain ⟨cmds, fi⟩ := b
    cases c <;> simp [Builder.run, Builder.call, ih, emitCmds]

theorem iterGo_emit {A : Type} (prog : List (Call Nat A)) (st : Option (Nat × Nat)) (pos fi prev first : Nat)
    (hn : wellNestedFrom st.isSome prog = true)
    (hst : ∀ f0 c0, st = some (f0, c0) → first = f0 ∧ prev = c0) :
    iterGo (emitCmds pos fi prog) prev first = some (specFrom st prog) := by
  induction prog generalizing st pos fi prev first with
  | nil => cases st <;> simp [emitCmds, iterGo, specFrom]
  | cons c r ih =>
    cases st with
    | none =>
      cases c with
      | begin to a =>
        have h := ih (some (to, to)) (pos + 2) pos to to (by simpa [wellNestedFrom] using hn)
          (by intro f0 c0 h; cases h; exact ⟨rfl, rfl⟩)
        simp [emitCmds, iterGo, BEGIN, h, specFrom]
      | _ => simp [wellNestedFrom] at hn
    | some fc =>
      obtain ⟨f0, c0⟩ := fc
      obtain ⟨rfl, rfl⟩ := hst f0 c0 rfl
      cases c with
      | begin to a => simp [wellNestedFrom] at hn
      | line to a =>
        have h := ih (some (first, to)) (pos + 2) fi to first (by simpa [wellNestedFrom] using hn)
          (by intro f0 c0 h; cases h; exact ⟨rfl, rfl⟩)
        simp [emitCmds, iterGo, BEGIN, LINE, h, specFrom]
      | quad k to a =>
        have h := ih (some (first, to)) (pos + 3) fi to first (by simpa [wellNestedFrom] using hn)
          (by intro f0 c0 h; cases h; exact ⟨rfl, rfl⟩)
        simp [emitCmds, iterGo, BEGIN, LINE, QUADRATIC, h, specFrom]
      | cubic k1 k2 to a =>
        have h := ih (some (first, to)) (pos + 4) fi to first (by simpa [wellNestedFrom] using hn)
          (by intro f0 c0 h; cases h; exact ⟨rfl, rfl⟩)
        simp [emitCmds, iterGo, BEGIN, LINE, QUADRATIC, CUBIC, h, specFrom]
      | end_ cl =>
        have h := ih none (pos + 2) fi first first (by simpa [wellNestedFrom] using hn)
          (by intro f0 c0 h; cases h)
        cases cl <;> simp [emitCmds, iterGo, BEGIN, LINE, QUADRATIC, CUBIC, CLOSE, END, h, specFrom]

theorem eventsGo_emit {A π : Type} (eps cps : List π) (prog : List (Call Nat A)) (st : Option (Nat × Nat))
    (pos fi prev first : Nat)
    (hn : wellNestedFrom st.isSome prog = true)
    (hst : ∀ f0 c0, st = some (f0, c0) → first = f0 ∧ prev = c0) :
    eventsGo eps cps (emitCmds pos fi prog) prev first
      = resolveAll (fun i => eps[i]?) (fun i => cps[i]?) (specFrom st prog) := by
  induction prog generalizing st pos fi prev first with
  | nil => cases st <;> simp [emitCmds, eventsGo, specFrom, resolveAll]
  | cons c r ih =>
    cases st with
    | none =>
      cases c with
      | begin to a =>
        have h := ih (some (to, to)) (pos + 2) pos to to (by simpa [wellNestedFrom] using hn)
          (by intro f0 c0 h; cases h; exact ⟨rfl, rfl⟩)
        simp [emitCmds, eventsGo, BEGIN, h, specFrom, resolveAll, resolveEvent]
        cases eps[to]? <;> simp
      | _ => simp [wellNestedFrom] at hn
    | some fc =>
      obtain ⟨f0, c0⟩ := fc
      obtain ⟨rfl, rfl⟩ := hst f0 c0 rfl
      cases c with
      | begin to a => simp [wellNestedFrom] at hn
      | line to a =>
        have h := ih (some (first, to)) (pos + 2) fi to first (by simpa [wellNestedFrom] using hn)
          (by intro f0 c0 h; cases h; exact ⟨rfl, rfl⟩)
        simp [emitCmds, eventsGo, BEGIN, LINE, h, specFrom, resolveAll, resolveEvent]
        cases eps[prev]? <;> cases eps[to]? <;> simp
      | quad k to a =>
        have h := ih (some (first, to)) (pos + 3) fi to first (by simpa [wellNestedFrom] using hn)
          (by intro f0 c0 h; cases h; exact ⟨rfl, rfl⟩)
        simp [emitCmds, eventsGo, BEGIN, LINE, QUADRATIC, h, specFrom, resolveAll, resolveEvent]
        cases eps[prev]? <;> cases cps[k]? <;> cases eps[to]? <;> simp
      | cubic k1 k2 to a =>
        have h := ih (some (first, to)) (pos + 4) fi to first (by simpa [wellNestedFrom] using hn)
          (by intro f0 c0 h; cases h; exact ⟨rfl, rfl⟩)
        simp [emitCmds, eventsGo, BEGIN, LINE, QUADRATIC, CUBIC, h, specFrom, resolveAll, resolveEvent]
        cases eps[prev]? <;> cases cps[k1]? <;> cases cps[k2]? <;> cases eps[to]? <;> simp
      | end_ cl =>
        have h := ih none (pos + 2) fi first first (by simpa [wellNestedFrom] using hn)
          (by intro f0 c0 h; cases h)
        cases cl <;>
          simp [emitCmds, eventsGo, BEGIN, LINE, QUADRATIC, CUBIC, CLOSE, END, h, specFrom, resolveAll,
            resolveEvent] <;>
          cases eps[prev]? <;> cases eps[first]? <;> simp



/-- the event ids a program is handed back: the position of each command's verb word -/
def emitIds {A : Type} : Nat → List (Call Nat A) → List Nat
  | _, [] => []
  | pos, .begin _ _ :: r => pos :: emitIds (pos + 2) r
  | pos, .line _ _ :: r => pos :: emitIds (pos + 2) r
  | pos, .quad _ _ _ :: r => pos :: emitIds (pos + 3) r
  | pos, .cubic _ _ _ _ :: r => pos :: emitIds (pos + 4) r
  | pos, .end_ _ :: r => pos :: emitIds (pos + 2) r

theorem run_ids {A : Type} (b : Builder) (prog : List (Call Nat A)) :
    (b.run prog).2 = emitIds b.cmds.length prog := by
  induction prog generalizing b with
  | nil => simp [Builder.run, emitIds]
  | cons c r ih =>
    obtain ⟨cmds, fi⟩ := b
    cases c <;> simp [Builder.run, Builder.call, ih, emitIds]

theorem get_pre {α : Type} (pre rest : List α) (k : Nat) :
    (pre ++ rest)[pre.length + k]? = rest[k]? := by
  rw [List.getElem?_append_right (by omega)]; simp

theorem mapM_event_emit {A : Type} (all : List Nat) (prog : List (Call Nat A)) (st : Option (Nat × Nat))
    (pre : List Nat) (fi : Nat)
    (hall : all = pre ++ emitCmds pre.length fi prog)
    (hn : wellNestedFrom st.isSome prog = true)
    (hst : ∀ f0 c0, st = some (f0, c0) →
      1 ≤ pre.length ∧ all[pre.length - 1]? = some c0 ∧ all[fi + 1]? = some f0) :
    (emitIds pre.length prog).mapM (event all) = some (specFrom st prog) := by
  induction prog generalizing st pre fi with
  | nil => cases st <;> simp [emitIds, specFrom]
  | cons c r ih =>
    have g0 : ∀ rest, all = pre ++ rest → all[pre.length]? = rest[0]? := by
      intro rest h; rw [h]; simpa using get_pre pre rest 0
    have gk : ∀ rest k, all = pre ++ rest → all[pre.length + k]? = rest[k]? := by
      intro rest k h; rw [h]; exact get_pre pre rest k
    cases st with
    | none =>
      cases c with
      | begin to a =>
        simp only [emitCmds] at hall
        have h := ih (some (to, to)) (pre ++ [BEGIN, to]) pre.length (by simpa using hall)
          (by simpa [wellNestedFrom] using hn)
          (by intro f0 c0 h; cases h
              refine ⟨by simp, ?_, ?_⟩
              · have := gk _ 1 hall; simpa using this
              · have := gk _ 1 hall; simpa using this)
        have e0 := g0 _ hall
        have e1 := gk _ 1 hall
        simp at e0 e1
        simp at h
        simp [emitIds, event, e0, e1, BEGIN, LINE, QUADRATIC, CUBIC, h, specFrom]
      | _ => simp [wellNestedFrom] at hn
    | some fc =>
      obtain ⟨f0, c0⟩ := fc
      obtain ⟨hpos, hprev, hfirst⟩ := hst f0 c0 rfl
      cases c with
      | begin to a => simp [wellNestedFrom] at hn
      | line to a =>
        simp only [emitCmds] at hall
        have e0 := g0 _ hall
        have e1 := gk _ 1 hall
        simp at e0 e1
        have h := ih (some (f0, to)) (pre ++ [LINE, to]) fi (by simpa using hall)
          (by simpa [wellNestedFrom] using hn)
          (by intro f0' c0' h; cases h
              exact ⟨by simp, by simpa using e1, hfirst⟩)
        simp at h
        simp [emitIds, event, event.csubC, e0, e1, hpos, hprev, BEGIN, LINE, QUADRATIC, CUBIC, h, specFrom]
      | quad k to a =>
        simp only [emitCmds] at hall
        have e0 := g0 _ hall
        have e1 := gk _ 1 hall
        have e2 := gk _ 2 hall
        simp at e0 e1 e2
        have h := ih (some (f0, to)) (pre ++ [QUADRATIC, k, to]) fi (by simpa using hall)
          (by simpa [wellNestedFrom] using hn)
          (by intro f0' c0' h; cases h
              exact ⟨by simp, by simpa using e2, hfirst⟩)
        simp at h
        simp [emitIds, event, event.csubC, e0, e1, e2, hpos, hprev, BEGIN, LINE, QUADRATIC, CUBIC, h, specFrom]
      | cubic k1 k2 to a =>
        simp only [emitCmds] at hall
        have e0 := g0 _ hall
        have e1 := gk _ 1 hall
        have e2 := gk _ 2 hall
        have e3 := gk _ 3 hall
        simp at e0 e1 e2 e3
        have h := ih (some (f0, to)) (pre ++ [CUBIC, k1, k2, to]) fi (by simpa using hall)
          (by simpa [wellNestedFrom] using hn)
          (by intro f0' c0' h; cases h
              exact ⟨by simp, by simpa using e3, hfirst⟩)
        simp at h
        simp [emitIds, event, event.csubC, e0, e1, e2, e3, hpos, hprev, BEGIN, LINE, QUADRATIC, CUBIC, h, specFrom]
      | end_ cl =>
        simp only [emitCmds] at hall
        have e0 := g0 _ hall
        have e1 := gk _ 1 hall
        simp at e0 e1
        have h := ih none (pre ++ [if cl then CLOSE else END, fi]) fi (by simpa using hall)
          (by simpa [wellNestedFrom] using hn)
          (by intro f0' c0' h; cases h)
        simp at h
        cases cl <;>
          simp [emitIds, event, event.csubC, e0, e1, hpos, hprev, hfirst, BEGIN, LINE, QUADRATIC, CUBIC,
            CLOSE, END, h, specFrom] at h ⊢ <;> exact h


end Lyon.Path.Cmd
