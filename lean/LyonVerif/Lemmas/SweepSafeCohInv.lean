/-
  SPAN / WINDING COHERENCE, part 3: the invariant `Coh` and the fold lemmas.

  `Coh s`: every span is live; the number of spans is the number of span-index increments of the
  winding fold over the whole active list (`= number of 'in' gaps`); the total winding is `out`;
  every merge vertex lies in an `in` region.
-/
import LyonVerif.Lemmas.SweepSafeCohScanSpec
import LyonVerif.Lemmas.SweepSafeLoop

set_option linter.unusedSectionVars false
set_option linter.unusedVariables false
set_option linter.unusedSimpArgs false
set_option mvcgen.warning false

namespace Lyon.SweepCoh
open Lyon Lyon.Scalar Lyon.Mono Lyon.Sweep Lyon.EQ Lyon.SweepSafe
open Std.Do

variable {α : Type} [Scalar α] [Wide α]

theorem wfold_eq_sfold (rule : Slab.Rule) (w : WindingState) (l : List (ActiveEdge α)) :
    wfold rule w l = sfold rule w (l.map sigOf) := by
  induction l generalizing w with
  | nil => rfl
  | cons e l ih =>
    simp only [wfold, sfold, List.foldl_cons, List.map_cons] at ih ⊢
    rw [ih]
    rfl

theorem sfold_append (rule : Slab.Rule) (w : WindingState) (l m : List (Bool × Int)) :
    sfold rule w (l ++ m) = sfold rule (sfold rule w l) m := by simp [sfold, List.foldl_append]

/-- well-formed winding state: `span_index ≥ -1`, `≥ 0` inside, `is_in` is the rule of the number -/
structure Good (rule : Slab.Rule) (w : WindingState) : Prop where
  ge : -1 ≤ w.spanIndex
  inn : w.isIn = true → 0 ≤ w.spanIndex
  canon : w.isIn = rule.isIn w.number

theorem isIn_zero (rule : Slab.Rule) : rule.isIn 0 = false := by
  cases rule <;> simp [Slab.Rule.isIn]

theorem good_new (rule : Slab.Rule) : Good rule WindingState.new :=
  ⟨by simp [WindingState.new], by simp [WindingState.new], by simp [WindingState.new, isIn_zero]⟩

theorem good_sstep {rule : Slab.Rule} {w : WindingState} (h : Good rule w) (x : Bool × Int) :
    Good rule (sstep rule w x) := by
  unfold sstep
  split
  · exact ⟨by dsimp only; have := h.ge; omega, fun _ => by dsimp only; have := h.ge; omega, h.canon⟩
  · unfold WindingState.update
    dsimp only
    refine ⟨?_, ?_, rfl⟩
    · have := h.ge; split <;> (dsimp only; omega)
    · intro hi; dsimp only at hi ⊢; rw [if_pos hi]; have := h.ge; omega

theorem good_sfold {rule : Slab.Rule} {w : WindingState} (h : Good rule w) (l : List (Bool × Int)) :
    Good rule (sfold rule w l) := by
  induction l generalizing w with
  | nil => exact h
  | cons x l ih => exact ih (good_sstep h x)

theorem sstep_si (rule : Slab.Rule) (w : WindingState) (x : Bool × Int) :
    (sstep rule w x).spanIndex = w.spanIndex + (if x.1 = true ∨ (sstep rule w x).isIn = true then 1 else 0) := by
  rcases x with ⟨m, k⟩
  cases m with
  | true => simp [sstep]
  | false =>
    simp only [sstep, Bool.false_eq_true, if_false, false_or, WindingState.update]
    by_cases h : rule.isIn (w.number + k) = true
    · simp [h]
    · simp [h]

theorem sfold_mono (rule : Slab.Rule) (w : WindingState) (l : List (Bool × Int)) :
    w.spanIndex ≤ (sfold rule w l).spanIndex := by
  induction l generalizing w with
  | nil => exact Int.le_refl _
  | cons x l ih =>
    have h1 := ih (sstep rule w x)
    have h2 := sstep_si rule w x
    simp only [sfold, List.foldl_cons] at h1 ⊢
    split at h2 <;> omega

/-- the fold from two states with the same winding number: same numbers, same `is_in`, same
span-index increments -/
theorem sfold_shift {rule : Slab.Rule} {w w' : WindingState} (hn : w.number = w'.number)
    (hi : w.isIn = w'.isIn) (l : List (Bool × Int)) :
    (sfold rule w l).number = (sfold rule w' l).number ∧ (sfold rule w l).isIn = (sfold rule w' l).isIn ∧
    (sfold rule w l).spanIndex - w.spanIndex = (sfold rule w' l).spanIndex - w'.spanIndex := by
  induction l generalizing w w' with
  | nil => exact ⟨hn, hi, by simp [sfold]⟩
  | cons x l ih =>
    have key : (sstep rule w x).number = (sstep rule w' x).number ∧
        (sstep rule w x).isIn = (sstep rule w' x).isIn ∧
        (sstep rule w x).spanIndex - w.spanIndex = (sstep rule w' x).spanIndex - w'.spanIndex := by
      unfold sstep
      rcases x with ⟨m, k⟩
      cases m with
      | true =>
        simp only [sstep, if_true]
        exact ⟨hn, hi, by omega⟩
      | false =>
        simp only [sstep, Bool.false_eq_true, if_false, WindingState.update]
        rw [hn]
        refine ⟨rfl, rfl, ?_⟩
        by_cases h : rule.isIn (w'.number + k) = true
        · simp only [h, if_true]; omega
        · simp [h]
    have := ih key.1 key.2.1
    simp only [sfold, List.foldl_cons] at this ⊢
    refine ⟨this.1, this.2.1, ?_⟩
    have k3 := key.2.2
    omega


theorem Wat_sfold (s : St α) (k : Nat) : Wat s k = sfold s.rule WindingState.new ((sigs s).take k) := by
  unfold Wat sigs
  rw [wfold_eq_sfold, List.map_take]

theorem Wat_good (s : St α) (k : Nat) : Good s.rule (Wat s k) := by
  rw [Wat_sfold]; exact good_sfold (good_new _) _

theorem Wat_split (s : St α) {k m : Nat} (h : k ≤ m) :
    Wat s m = sfold s.rule (Wat s k) (((sigs s).take m).drop k) := by
  rw [Wat_sfold, Wat_sfold, ← sfold_append]
  congr 1
  have : (sigs s).take k = ((sigs s).take m).take k := by
    rw [List.take_take, Nat.min_eq_left h]
  rw [this, List.take_append_drop]

theorem Wat_mono (s : St α) {k m : Nat} (h : k ≤ m) : (Wat s k).spanIndex ≤ (Wat s m).spanIndex := by
  rw [Wat_split s h]; exact sfold_mono _ _ _

theorem Wat_ge_size (s : St α) {k : Nat} (h : s.active.size ≤ k) : Wat s k = Wtot s := by
  unfold Wtot
  rw [Wat_sfold, Wat_sfold]
  have hl : (sigs s).length = s.active.size := by simp [sigs]
  rw [List.take_of_length_le (by omega), List.take_of_length_le (by omega)]

theorem Wat_le_tot (s : St α) (k : Nat) : (Wat s k).spanIndex ≤ (Wtot s).spanIndex := by
  by_cases h : k ≤ s.active.size
  · exact Wat_mono s h
  · rw [Wat_ge_size s (by omega)]; exact Int.le_refl _

/-- the coherence invariant -/
structure Coh (s : St α) : Prop where
  live : SomeExcept [] s.spans
  size : (s.spans.size : Int) = (Wtot s).spanIndex + 1
  out : (Wtot s).isIn = false
  merges : ∀ k e, s.active[k]? = some e → e.isMerge = true → (Wat s k).isIn = true
  /-- a merge vertex carries winding 0 -/
  mz : ∀ x ∈ sigs s, x.1 = true → x.2 = 0

theorem Wat_congr {s s' : St α} (h1 : s'.active = s.active) (h2 : s'.rule = s.rule) (k : Nat) :
    Wat s' k = Wat s k := by unfold Wat; rw [h1, h2]

theorem Coh.frame {s s' : St α} (h : Coh s) (h1 : s'.spans = s.spans) (h2 : s'.active = s.active)
    (h3 : s'.rule = s.rule) : Coh s' := by
  have hW : ∀ k, Wat s' k = Wat s k := Wat_congr h2 h3
  have hT : Wtot s' = Wtot s := by unfold Wtot; rw [hW, h2]
  exact ⟨h1 ▸ h.live, by rw [h1, hT]; exact h.size, by rw [hT]; exact h.out,
    fun k e hk hm => by rw [hW]; exact h.merges k e (h2 ▸ hk) hm,
    by unfold sigs; rw [h2]; exact h.mz⟩

/-- a span index read off an `in` gap of a coherent state is a valid index -/
theorem Coh.idx_ok {s : St α} (h : Coh s) {k : Nat} (hin : (Wat s k).isIn = true) :
    0 ≤ (Wat s k).spanIndex ∧ (Wat s k).spanIndex < (s.spans.size : Int) := by
  have h1 := (Wat_good s k).inn hin
  have h2 := Wat_le_tot s k
  have h3 := h.size
  omega

theorem spanIdx_some {i : Int} {m : Nat} (h0 : 0 ≤ i) (h1 : i < (m : Int)) : spanIdx i m = some i.toNat := by
  unfold spanIdx
  rw [if_pos ⟨h0, by omega⟩]

/-- increments of the span index over `[a, b)` = number of `in` gaps in `(a, b]`, when every merge
vertex in the range lies in an `in` region -/
theorem incr_eq_cnt (s : St α) (a : Nat) : ∀ (d : Nat), a + d ≤ s.active.size →
    (∀ k e, a ≤ k → k < a + d → s.active[k]? = some e → e.isMerge = true → (Wat s k).isIn = true) →
    (Wat s (a + d)).spanIndex - (Wat s a).spanIndex = (cntIn s a (a + d + 1) : Int)
  | 0, _, _ => by simp [cntIn_self]
  | d+1, hle, hm => by
    have ih := incr_eq_cnt s a d (by omega) (fun k e h1 h2 => hm k e h1 (by omega))
    have hlt : a + d < s.active.size := by omega
    have he : s.active[a + d]? = some s.active[a + d] := by simp [hlt]
    have hs := Wat_succ s (a + d) _ he
    have hc := cntIn_succ s a (a + d + 1)
    have e1 : a + (d + 1) = a + d + 1 := by omega
    rw [e1, hc, hs]
    have hstep : (wstep s.rule (Wat s (a + d)) s.active[a + d]).spanIndex = (Wat s (a + d)).spanIndex +
        (if (wstep s.rule (Wat s (a + d)) s.active[a + d]).isIn = true then 1 else 0) := by
      unfold wstep
      by_cases hmg : s.active[a + d].isMerge = true
      · have := hm (a + d) _ (by omega) (by omega) he hmg
        simp [hmg, this]
      · simp only [hmg]
        unfold WindingState.update
        by_cases hi : s.rule.isIn ((Wat s (a + d)).number + s.active[a + d].winding) = true
        · simp [hi]
        · simp [hi]
    rw [← hs] at hstep ⊢
    have : a < a + d + 1 := by omega
    simp only [this, true_and]
    rw [hstep]
    split <;> (push_cast; omega)

/-- the consequences of `HorizAgree` the coherence proofs use, as a property of the scan result -/
def ScanAgree (s : St α) (scan : Scan) : Prop :=
  (scan.mergeEvent = true → scan.aboveStart < scan.aboveEnd) ∧
  (scan.aboveStart = scan.aboveEnd → (Wat s scan.aboveStart).isIn = true → scan.splitEvent = true)

theorem scanAgree_of_horiz {s : St α} {scan : Scan} (hok : ScanOk s scan) (hsem : ScanSem s scan)
    (hH : HorizAgree s.tolerance) : ScanAgree s scan :=
  ⟨hok.merge_room hH, hsem.split_of_in hH⟩

theorem scanAgree_of_B {s : St α} {scan : Scan} (h : scanAgreeB s scan = true) : ScanAgree s scan := by
  unfold scanAgreeB at h
  simp only [Bool.and_eq_true, Bool.or_eq_true, Bool.not_eq_true', decide_eq_true_eq, Bool.and_eq_false_iff,
    decide_eq_false_iff_not] at h
  refine ⟨fun hm => ?_, fun hab hin => ?_⟩
  · rcases h.1 with h1 | h1
    · rw [hm] at h1; cases h1
    · exact h1
  · rcases h.2 with (h2 | h2) | h2
    · exact absurd hab h2
    · rw [hin] at h2; cases h2
    · exact h2

end Lyon.SweepCoh
