/-
  C03c — the recursion depth of `fill_circle` and the tolerance.

  `inner_radius_ge`: if the depth `n` satisfies `arc_len / step ≤ 2ⁿ` (what
  `(arc_len / step).ceil().log2().ceil()` is for; `arc_len = 0.5·π·r`,
  `step = circle_flattening_step(r, tolerance) = 2·√(2·t·r − t²)`, `t = min(tolerance, r)`), then the
  inscribed regular `4·2ⁿ`-gon has inner radius `r·cos(π/(4·2ⁿ)) ≥ r − t`: its sagitta is at most
  the tolerance.  Uses `sin x ≤ x`: the chord `2r·sin η` is shorter than the arc `2rη ≤ step`.
-/
import LyonVerif.Lemmas.CircleCoverTrig

set_option linter.unusedSectionVars false
set_option linter.unusedVariables false

namespace Lyon.C03c
open Lyon Lyon.Shapes Lyon.C03

variable {K : Type} [Field K] [LinearOrder K] [IsStrictOrderedRing K] [Transc K]

/-- half the angle of one side of the regular `4·2ⁿ`-gon -/
noncomputable def halfStep (K : Type) [Field K] [LinearOrder K] [IsStrictOrderedRing K] [Transc K] (n : Nat) : K :=
  (Transc.pi : K) / (4 * 2 ^ n)

theorem halfStep_pos (L : CircTrig K) (n : Nat) : 0 < halfStep K n := by
  have := L.pi_pos
  unfold halfStep; positivity

theorem halfStep_le (L : CircTrig K) (n : Nat) : halfStep K n ≤ (Transc.pi : K) / 4 := by
  have hpi := L.pi_pos
  have h1 : (1 : K) ≤ 2 ^ n := one_le_pow₀ (by norm_num)
  have hpos : (0 : K) < 4 * 2 ^ n := by positivity
  have e : halfStep K n * (4 * 2 ^ n) = Transc.pi := by unfold halfStep; field_simp
  have hη := halfStep_pos L n
  nlinarith

theorem halfStep_sin_pos (L : CircTrig K) (n : Nat) : 0 < Transc.sin (halfStep K n) := by
  have := halfStep_pos L n
  have := halfStep_le L n
  have := L.pi_pos
  exact L.sin_pos _ (by linarith) (by linarith)

theorem halfStep_cos_pos (L : CircTrig K) (n : Nat) : 0 < Transc.cos (halfStep K n) := by
  have := halfStep_pos L n
  have := halfStep_le L n
  have := L.pi_pos
  exact L.cos_pos _ (by linarith) (by linarith)

/-- **the sagitta of the polygon is at most the tolerance** when `arc_len / step ≤ 2ⁿ` -/
theorem inner_radius_ge (L : CircTrig K) (r tol : K) (n : Nat) (hr : 0 < r) (ht : 0 < tol)
    (hsq : ∀ x : K, 0 ≤ x → Transc.sqrt x * Transc.sqrt x = x) (hsq0 : ∀ x : K, 0 ≤ Transc.sqrt x)
    (hdepth : Scalar.half * Transc.pi * r / circleFlatteningStep r tol ≤ 2 ^ n) :
    r - min tol r ≤ r * Transc.cos (halfStep K n) := by
  set t := min tol r with htd
  have ht0 : 0 < t := lt_min ht hr
  have htr : t ≤ r := min_le_right _ _
  set X := 2 * t * r - t * t with hX
  have hXpos : 0 < X := by rw [hX]; nlinarith
  have hstep : circleFlatteningStep r tol = 2 * Transc.sqrt X := by
    simp only [circleFlatteningStep, sc_min, sc_two, ← htd, ← hX]
  set s := Transc.sqrt X with hs
  have hss : s * s = X := hsq X (le_of_lt hXpos)
  have hs0 : 0 < s := by
    rcases lt_or_eq_of_le (hsq0 X) with h | h
    · exact h
    · rw [← hs] at h; rw [← h] at hss; linarith
  rw [hstep, half_eq, div_le_iff₀ (by positivity)] at hdepth
  set η := halfStep K n with hη
  have hη0 := halfStep_pos L n
  have e : η * (4 * 2 ^ n) = Transc.pi := by rw [hη]; unfold halfStep; field_simp
  have h2n : (0 : K) < 2 ^ n := by positivity
  -- r·η ≤ √X
  have hrη : r * η ≤ s := by
    have : (r * η) * (2 * 2 ^ n) ≤ s * (2 * 2 ^ n) := by
      calc (r * η) * (2 * 2 ^ n) = 1 / 2 * (η * (4 * 2 ^ n)) * r := by ring
        _ = 1 / 2 * Transc.pi * r := by rw [e]
        _ ≤ 2 ^ n * (2 * s) := hdepth
        _ = s * (2 * 2 ^ n) := by ring
    exact le_of_mul_le_mul_right this (by positivity)
  have hsin := L.sin_le η (le_of_lt hη0)
  have hsin0 := halfStep_sin_pos L n
  have hcos0 := halfStep_cos_pos L n
  rw [← hη] at hsin0 hcos0
  have hrs : r * Transc.sin η ≤ s := le_trans (mul_le_mul_of_nonneg_left hsin (le_of_lt hr)) hrη
  have hrs0 : 0 ≤ r * Transc.sin η := by positivity
  have hsq2 : (r * Transc.sin η) * (r * Transc.sin η) ≤ X := by
    rw [← hss]; exact mul_self_le_mul_self hrs0 hrs
  have hpy := L.cos_sq_add_sin_sq η
  have hcos2 : (r - t) * (r - t) ≤ (r * Transc.cos η) * (r * Transc.cos η) := by
    have : (r * Transc.cos η) * (r * Transc.cos η) = r * r - (r * Transc.sin η) * (r * Transc.sin η) := by
      linear_combination (r * r) * hpy
    rw [this, hX] at *
    nlinarith
  by_contra hlt
  rw [not_le] at hlt
  have h0 : 0 ≤ r * Transc.cos η := by positivity
  have := mul_self_lt_mul_self h0 hlt
  linarith

end Lyon.C03c
