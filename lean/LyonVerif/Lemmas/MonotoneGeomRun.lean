/-
  C02 growth (`Props/C02c.lean`), part 7: the area and orientation facts assembled for the
  executable entry point `Basic.run` (the function the correspondence check runs).
-/
import LyonVerif.Lemmas.MonotoneGeomInv
import LyonVerif.Lemmas.MonotoneAdv

set_option linter.unusedSectionVars false
set_option linter.unusedVariables false
set_option linter.unusedSimpArgs false

namespace Lyon.C02c
open Lyon Lyon.Mono Lyon.C02

section Geometry
variable {K : Type} [Field K] [LinearOrder K] [IsStrictOrderedRing K]

/-- the run-level statement: `Σ wind(emitted) ≥ shoelace(polygon)`, with equality on valid sequences -/
theorem run_area (seq : List (P K × Bool)) (h2 : 2 ≤ seq.length) :
    shoelaceW (polygonOf seq) ≤ sumW (posOf seq) (Basic.run seq) ∧
      (SweepValid seq → sumW (posOf seq) (Basic.run seq) = shoelaceW (polygonOf seq)) := by
  match seq, h2 with
  | (p0, b0) :: v1 :: rest, _ =>
    have hlen : 0 + 1 + (List.take ((v1 :: rest).length - 1) (v1 :: rest)).length = (v1 :: rest).length := by
      simp only [List.length_take, List.length_cons]; omega
    have hpos : ∀ i (h : i < (List.take ((v1 :: rest).length - 1) (v1 :: rest)).length),
        ((p0, b0) :: v1 :: rest)[0 + 1 + i]? = some (List.take ((v1 :: rest).length - 1) (v1 :: rest))[i] := by
      intro i hi
      simp only [List.length_take, List.length_cons] at hi
      simp only [List.getElem_take]
      rw [show 0 + 1 + i = i + 1 by omega, List.getElem?_cons_succ,
        List.getElem?_eq_getElem (by simp only [List.length_cons]; omega)]
    have hpe : posOf ((p0, b0) :: v1 :: rest) (v1 :: rest).length = ((v1 :: rest).getLast?.map (·.1)).getD p0 := by
      simp only [posOf, List.length_cons, List.getElem?_cons_succ]
      rw [List.getLast?_eq_getElem?]
      simp only [List.length_cons, Nat.add_sub_cancel]
      rw [List.getElem?_eq_getElem (by simp only [List.length_cons]; omega)]
      rfl
    have hfa := feed_area (posOf ((p0, b0) :: v1 :: rest)) (List.take ((v1 :: rest).length - 1) (v1 :: rest))
      (Basic.begin p0 0) (0 + 1) (((v1 :: rest).getLast?.map (·.1)).getD p0) (v1 :: rest).length
      (by intro i hi; simp only [posOf, hpos i hi]) hpe (begin_bInv _ p0 (by simp [posOf]))
    rw [begin_G, begin_lastL, begin_lastR, polyAcc_eq_shoelace p0 b0 v1 rest, zero_add] at hfa
    simp only [Basic.run, foldl_zipIdx_eq_feed]
    refine ⟨hfa.1, fun hval => hfa.2 ?_⟩
    have := feed_noFlipRun ((p0, b0) :: v1 :: rest) hval (List.take ((v1 :: rest).length - 1) (v1 :: rest))
      (Basic.begin p0 0) (0 + 1) hpos (by rw [hlen]; simp) (begin_vInv _ p0 (by simp [posOf]))
    rw [hlen, hpe] at this
    exact this

/-- with no three vertices on a line, `wind ≥ 0` and three distinct valid ids give `wind > 0` -/
theorem run_strict (seq : List (P K × Bool)) (hc : NoCollinear seq) :
    ∀ t ∈ Basic.run seq, 0 < triW (posOf seq) t := by
  intro t ht
  have h1 : 0 ≤ triW (posOf seq) t := run_gInv seq t ht
  have h2 := run_ids_distinct seq t ht
  have h3 := basic_run_ids_lt seq t ht
  have h4 := hc t.1 h3.1 t.2.1 h3.2.1 t.2.2 h3.2.2 h2.1 h2.2.1 h2.2.2
  exact lt_of_le_of_ne h1 (Ne.symm h4)

end Geometry

end Lyon.C02c
