/-
  C14 helper lemmas, second part: the plain builder, concatenation, path buffers.  Mathlib-free.
-/
import LyonVerif.Lemmas.PathViews
import LyonVerif.Model.Path.Buffer

namespace Lyon.Path

variable {S : Type} [Inhabited S]
set_option linter.unusedSectionVars false
set_option linter.unusedVariables false
set_option linter.unusedSimpArgs false

/-! ### `NoAttributes<BuilderImpl>` -/

/-- a call as the plain builder sees it: attributes ignored -/
def noAttr {A : Type} : Call (Pt S) A → Call (Pt S) (List S)
  | .begin p _ => .begin p []
  | .line p _ => .line p []
  | .quad c p _ => .quad c p []
  | .cubic c1 c2 p _ => .cubic c1 c2 p []
  | .end_ cl => .end_ cl

theorem attrsOk_noAttr {A : Type} (prog : List (Call (Pt S) A)) :
    attrsOk 0 (prog.map noAttr) = true := by
  induction prog with
  | nil => rfl
  | cons c r ih => cases c <;> simp [noAttr, attrsOk, ih]

theorem wellNestedFrom_noAttr {A : Type} (s : Bool) (prog : List (Call (Pt S) A)) :
    wellNestedFrom s (prog.map noAttr) = wellNestedFrom s prog := by
  induction prog generalizing s with
  | nil => cases s <;> simp [wellNestedFrom]
  | cons c r ih => cases s <;> cases c <;> simp [wellNestedFrom, noAttr, ih]

theorem specFrom_noAttr {A : Type} (st : Option (Pt S × Pt S)) (prog : List (Call (Pt S) A)) :
    specFrom st (prog.map noAttr) = specFrom st prog := by
  induction prog generalizing st with
  | nil => cases st <;> simp [specFrom]
  | cons c r ih =>
    cases st with
    | none => cases c <;> simp [specFrom, noAttr, ih]
    | some fc => obtain ⟨f, c0⟩ := fc; cases c <;> simp [specFrom, noAttr, ih]

/-- with no attributes, `first_attributes` stays empty -/
theorem firstAfter_noAttr {A : Type} (f : Pt S) (prog : List (Call (Pt S) A)) :
    (firstAfter f [] (prog.map noAttr)).2 = [] := by
  induction prog generalizing f with
  | nil => rfl
  | cons c r ih => cases c <;> simp [firstAfter, noAttr, ih]

theorem plain_run_emit {A : Type} (b : BuilderImpl S) (prog : List (Call (Pt S) A)) :
    (b.run prog).1 =
      { points := b.points ++ emitPts b.first [] (prog.map noAttr),
        verbs := b.verbs ++ emitVerbs (prog.map noAttr),
        first := (firstAfter b.first [] (prog.map noAttr)).1 } := by
  induction prog generalizing b with
  | nil => simp [BuilderImpl.run, emitPts, emitVerbs, firstAfter]
  | cons c r ih =>
    obtain ⟨pts, vs, f⟩ := b
    cases c with
    | begin p a =>
      simp [BuilderImpl.run, BuilderImpl.call, BuilderImpl.begin, ih, noAttr, emitPts, emitVerbs,
        firstAfter, endpointPts, packAttrs]
    | line p a =>
      simp [BuilderImpl.run, BuilderImpl.call, BuilderImpl.lineTo, ih, noAttr, emitPts, emitVerbs,
        firstAfter, endpointPts, packAttrs]
    | quad k p a =>
      simp [BuilderImpl.run, BuilderImpl.call, BuilderImpl.quadraticBezierTo, ih, noAttr, emitPts,
        emitVerbs, firstAfter, endpointPts, packAttrs]
    | cubic k1 k2 p a =>
      simp [BuilderImpl.run, BuilderImpl.call, BuilderImpl.cubicBezierTo, ih, noAttr, emitPts,
        emitVerbs, firstAfter, endpointPts, packAttrs]
    | end_ cl =>
      cases cl <;>
      simp [BuilderImpl.run, BuilderImpl.call, BuilderImpl.end_, ih, noAttr, emitPts, emitVerbs,
        firstAfter, endpointPts, packAttrs]

/-! ### concatenation -/

/-- on a well-nested program the stored points do not depend on the builder's `first` state -/
theorem emitPts_indep (prog : Prog S) (hn : wellNestedFrom false prog = true) (f f' : Pt S)
    (fa fa' : List S) : emitPts f fa prog = emitPts f' fa' prog := by
  cases prog with
  | nil => rfl
  | cons c r => cases c <;> simp_all [wellNestedFrom, emitPts]

theorem emitVerbs_append (p q : Prog S) : emitVerbs (p ++ q) = emitVerbs p ++ emitVerbs q := by
  induction p with
  | nil => rfl
  | cons c r ih => cases c with
    | end_ cl => cases cl <;> simp [emitVerbs, ih]
    | _ => simp [emitVerbs, ih]

theorem emitPts_append (f : Pt S) (fa : List S) (p q : Prog S) :
    emitPts f fa (p ++ q) = emitPts f fa p ++ emitPts (firstAfter f fa p).1 (firstAfter f fa p).2 q := by
  induction p generalizing f fa with
  | nil => rfl
  | cons c r ih => cases c with
    | end_ cl => cases cl <;> simp [emitPts, firstAfter, ih]
    | _ => simp [emitPts, firstAfter, ih]

theorem wellNestedFrom_append (s : Bool) (p q : Prog S) (hp : wellNestedFrom s p = true)
    (hq : wellNestedFrom false q = true) : wellNestedFrom s (p ++ q) = true := by
  induction p generalizing s with
  | nil => cases s <;> simp_all [wellNestedFrom]
  | cons c r ih => cases s <;> cases c <;> simp_all [wellNestedFrom]

theorem attrsOk_append (n : Nat) (p q : Prog S) :
    attrsOk n (p ++ q) = (attrsOk n p && attrsOk n q) := by
  induction p with
  | nil => simp [attrsOk]
  | cons c r ih => cases c <;> simp [attrsOk, ih, Bool.and_assoc]

/-! ### slices -/

theorem sliceRange_mid {α : Type} (pre mid post : List α) :
    sliceRange (pre ++ mid ++ post) pre.length (pre.length + mid.length) = some mid := by
  simp [sliceRange, List.drop_append, List.take_append]

/-! ### ids handed back by the plain builder -/

theorem call_points_mono {A : Type} (b : BuilderImpl S) (c : Call (Pt S) A) :
    b.points.length ≤ (b.call c).1.points.length := by
  cases c with
  | end_ cl => cases cl <;> simp [BuilderImpl.call, BuilderImpl.end_]
  | _ => simp [BuilderImpl.call, BuilderImpl.begin, BuilderImpl.lineTo, BuilderImpl.quadraticBezierTo,
      BuilderImpl.cubicBezierTo] <;> omega

theorem run_ids_ge {A : Type} (b : BuilderImpl S) (prog : List (Call (Pt S) A)) (m : Nat)
    (hm : m ≤ b.points.length) : ∀ id ∈ (b.run prog).2, m ≤ id := by
  induction prog generalizing b with
  | nil => simp [BuilderImpl.run]
  | cons c r ih =>
    have hmono := call_points_mono b c
    have ih' := ih (b.call c).1 (by omega)
    intro id hid
    simp only [BuilderImpl.run] at hid
    cases c with
    | end_ cl => simp [BuilderImpl.call, consId] at hid; exact ih' id (by simpa [BuilderImpl.call] using hid)
    | begin p a =>
      simp [BuilderImpl.call, consId, BuilderImpl.begin] at hid
      rcases hid with h | h
      · omega
      · exact ih' id (by simpa [BuilderImpl.call, BuilderImpl.begin] using h)
    | line p a =>
      simp [BuilderImpl.call, consId, BuilderImpl.lineTo] at hid
      rcases hid with h | h
      · omega
      · exact ih' id (by simpa [BuilderImpl.call, BuilderImpl.lineTo] using h)
    | quad k p a =>
      simp [BuilderImpl.call, consId, BuilderImpl.quadraticBezierTo] at hid
      rcases hid with h | h
      · omega
      · exact ih' id (by simpa [BuilderImpl.call, BuilderImpl.quadraticBezierTo] using h)
    | cubic k1 k2 p a =>
      simp [BuilderImpl.call, consId, BuilderImpl.cubicBezierTo] at hid
      rcases hid with h | h
      · omega
      · exact ih' id (by simpa [BuilderImpl.call, BuilderImpl.cubicBezierTo] using h)

theorem adjustIds_total (m : Nat) (ids : List Nat) (h : ∀ id ∈ ids, m ≤ id) :
    adjustIds m ids = some (ids.map (· - m)) := by
  induction ids with
  | nil => rfl
  | cons i r ih =>
    have hi := h i (by simp)
    simp [adjustIds, adjustId, csub, hi, ih (fun id hid => h id (by simp [hid]))]


end Lyon.Path
