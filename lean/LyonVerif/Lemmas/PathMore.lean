/-
  C14 helper lemmas, second part: the plain builder, concatenation, path buffers.  Mathlib-free.
-/
import LyonVerif.Lemmas.PathViews
import LyonVerif.Model.Path.Buffer

namespace Lyon.Path

variable {S : Type} [Inhabited S]
set_option linter.unusedSectionVars false
set_option linter.unusedVariables false
set_option linter.unusedSimpArgs false

/-! ### `NoAttributes<BuilderImpl>` -/

/-- a call as the plain builder sees it: attributes ignored -/
def noAttr {A : Type} : Call (Pt S) A → Call (Pt S) (List S)
  | .begin p _ => .begin p []
  | .line p _ => .line p []
  | .quad c p _ => .quad c p []
  | .cubic c1 c2 p _ => .cubic c1 c2 p []
  | .end_ cl => .end_ cl

theorem attrsOk_noAttr {A : Type} (prog : List (Call (Pt S) A)) :
    attrsOk 0 (prog.map noAttr) = true := by
  induction prog with
  | nil => rfl
  | cons c r ih => cases c <;> simp [noAttr, attrsOk, ih]

theorem wellNestedFrom_noAttr {A : Type} (s : Bool) (prog : List (Call (Pt S) A)) :
    wellNestedFrom s (prog.map noAttr) = wellNestedFrom s prog := by
  induction prog generalizing s with
  | nil => cases s <;> simp [wellNestedFrom]
  | cons c r ih => cases s <;> cases c <;> simp [wellNestedFrom, noAttr, ih]

theorem specFrom_noAttr {A : Type} (st : Option (Pt S × Pt S)) (prog : List (Call (Pt S) A)) :
    specFrom st (prog.map noAttr) = specFrom st prog := by
  induction prog generalizing st with
  | nil => cases st <;> simp [specFrom]
  | cons c r ih =>
    cases st with
    | none => cases c <;> simp [specFrom, noAttr, ih]
    | some fc => obtain ⟨f, c0⟩ := fc; cases c <;> simp [specFrom, noAttr, ih]

/-- with no attributes, `first_attributes` stays empty -/
theorem firstAfter_noAttr {A : Type} (f : Pt S) (prog : List (Call (Pt S) A)) :
    (firstAfter f [] (prog.map noAttr)).2 = [] := by
  induction prog generalizing f with
  | nil => rfl
  | cons c r ih => cases c <;> simp [firstAfter, noAttr, ih]

theorem plain_run_emit {A : Type} (b : BuilderImpl S) (prog : List (Call (Pt S) A)) :
    (b.run prog).1 =
      { points := b.points ++ emitPts b.first [] (prog.map noAttr),
        verbs := b.verbs ++ emitVerbs (prog.map noAttr),
        first := (firstAfter b.first [] (prog.map noAttr)).1 } := by
  induction prog generalizing b with
  | nil => simp [BuilderImpl.run, emitPts, emitVerbs, firstAfter]
  | cons c r ih =>
    obtain ⟨pts, vs, f⟩ := b
    cases c with
    | begin p a =>
      simp [BuilderImpl.run, BuilderImpl.call, BuilderImpl.begin, ih, noAttr, emitPts, emitVerbs,
        firstAfter, endpointPts, packAttrs]
    | line p a =>
      simp [BuilderImpl.run, BuilderImpl.call, BuilderImpl.lineTo, ih, noAttr, emitPts, emitVerbs,
        firstAfter, endpointPts, packAttrs]
    | quad k p a =>
      simp [BuilderImpl.run, BuilderImpl.call, BuilderImpl.quadraticBezierTo, ih, noAttr, emitPts,
        emitVerbs, firstAfter, endpointPts, packAttrs]
    | cubic k1 k2 p a =>
      simp [BuilderImpl.run, BuilderImpl.call, BuilderImpl.cubicBezierTo, ih, noAttr, emitPts,
        emitVerbs, firstAfter, endpointPts, packAttrs]
    | end_ cl =>
      cases cl <;>
      simp [BuilderImpl.run, BuilderImpl.call, BuilderImpl.end_, ih, noAttr, emitPts, emitVerbs,
        firstAfter, endpointPts, packAttrs]

/-! ### concatenation -/

/-- on a well-nested program the stored points do not depend on the builder's `first` state -/
theorem emitPts_indep (prog : Prog S) (hn : wellNestedFrom false prog = true) (f f' : Pt S)
    (fa fa' : List S) : emitPts f fa prog = emitPts f' fa' prog := by
  cases prog with
  | nil => rfl
  | cons c r => cases c <;> simp_all [wellNestedFrom, emitPts]

theorem emitVerbs_append (p q : Prog S) : emitVerbs (p ++ q) = emitVerbs p ++ emitVerbs q := by
  induction p with
  | nil => rfl
  | cons c r ih => cases c with
    | end_ cl => cases cl <;> simp [emitVerbs, ih]
    | _ => simp [emitVerbs, ih]

theorem emitPts_append (f : Pt S) (fa : List S) (p q : Prog S) :
    emitPts f fa (p ++ q) = emitPts f fa p ++ emitPts (firstAfter f fa p).1 (firstAfter f fa p).2 q := by
  induction p generalizing f fa with
  | nil => rfl
  | cons c r ih => cases c with
    | end_ cl => cases cl <;> simp [emitPts, firstAfter, ih]
    | _ => simp [emitPts, firstAfter, ih]

theorem wellNestedFrom_append (s : Bool) (p q : Prog S) (hp : wellNestedFrom s p = true)
    (hq : wellNestedFrom false q = true) : wellNestedFrom s (p ++ q) = true := by
  induction p generalizing s with
  | nil => cases s <;> simp_all [wellNestedFrom]
  | cons c r ih => cases s <;> cases c <;> simp_all [wellNestedFrom]

theorem attrsOk_append (n : Nat) (p q : Prog S) :
    attrsOk n (p ++ q) = (attrsOk n p && attrsOk n q) := by
  induction p with
  | nil => simp [attrsOk]
  | cons c r ih => cases c <;> simp [attrsOk, ih, Bool.and_assoc]

/-! ### slices -/

theorem sliceRange_mid {α : Type} (pre mid post : List α) :
    sliceRange (pre ++ mid ++ post) pre.length (pre.length + mid.length) = some mid := by
  simp [sliceRange, List.drop_append, List.take_append]

/-! ### ids handed back by the plain builder -/

theorem call_points_mono {A : Type} (b : BuilderImpl S) (c : Call (Pt S) A) :
    b.points.length ≤ (b.call c).1.points.length := by
  cases c with
  | end_ cl => cases cl <;> simp [BuilderImpl.call, BuilderImpl.end_]
  | _ => simp [BuilderImpl.call, BuilderImpl.begin, BuilderImpl.lineTo, BuilderImpl.quadraticBezierTo,
      BuilderImpl.cubicBezierTo] <;> omega

theorem run_ids_ge {A : Type} (b : BuilderImpl S) (prog : List (Call (Pt S) A)) (m : Nat)
    (hm : m ≤ b.points.length) : ∀ id ∈ (b.run prog).2, m ≤ id := by
  induction prog generalizing b with
  | nil => simp [BuilderImpl.run]
  | cons c r ih =>
    have hmono := call_points_mono b c
    have ih' := ih (b.call c).1 (by omega)
    intro id hid
    simp only [BuilderImpl.run] at hid
    cases c with
    | end_ cl => simp [BuilderImpl.call, consId] at hid; exact ih' id (by simpa [BuilderImpl.call] using hid)
    | begin p a =>
      simp [BuilderImpl.call, consId, BuilderImpl.begin] at hid
      rcases hid with h | h
      · omega
      · exact ih' id (by simpa [BuilderImpl.call, BuilderImpl.begin] using h)
    | line p a =>
      simp [BuilderImpl.call, consId, BuilderImpl.lineTo] at hid
      rcases hid with h | h
      · omega
      · exact ih' id (by simpa [BuilderImpl.call, BuilderImpl.lineTo] using h)
    | quad k p a =>
      simp [BuilderImpl.call, consId, BuilderImpl.quadraticBezierTo] at hid
      rcases hid with h | h
      · omega
      · exact ih' id (by simpa [BuilderImpl.call, BuilderImpl.quadraticBezierTo] using h)
    | cubic k1 k2 p a =>
      simp [BuilderImpl.call, consId, BuilderImpl.cubicBezierTo] at hid
      rcases hid with h | h
      · omega
      · exact ih' id (by simpa [BuilderImpl.call, BuilderImpl.cubicBezierTo] using h)

theorem adjustIds_total (m : Nat) (ids : List Nat) (h : ∀ id ∈ ids, m ≤ id) :
    adjustIds m ids = some (ids.map (· - m)) := by
  induction ids with
  | nil => rfl
  | cons i r ih =>
    have hi := h i (by simp)
    simp [adjustIds, adjustId, csub, hi, ih (fun id hid => h id (by simp [hid]))]



/-! ### the endpoint ids handed back by the builders -/

/-- the endpoint ids a program is handed back: the index of each endpoint's position slot.
`pos` = current length of the point array, `es` = slots per endpoint -/
def emitEndpointIds (es : Nat) : Nat → Prog S → List Nat
  | _, [] => []
  | pos, .begin _ _ :: r => pos :: emitEndpointIds es (pos + es) r
  | pos, .line _ _ :: r => pos :: emitEndpointIds es (pos + es) r
  | pos, .quad _ _ _ :: r => (pos + 1) :: emitEndpointIds es (pos + 1 + es) r
  | pos, .cubic _ _ _ _ :: r => (pos + 2) :: emitEndpointIds es (pos + 2 + es) r
  | pos, .end_ true :: r => emitEndpointIds es (pos + es) r
  | pos, .end_ false :: r => emitEndpointIds es pos r

/-- the endpoints (position, attributes) a program hands to the builder, in call order -/
def progEndpoints : Prog S → List (APt S)
  | [] => []
  | .begin p a :: r => (p, a) :: progEndpoints r
  | .line p a :: r => (p, a) :: progEndpoints r
  | .quad _ p a :: r => (p, a) :: progEndpoints r
  | .cubic _ _ p a :: r => (p, a) :: progEndpoints r
  | .end_ _ :: r => progEndpoints r

theorem run_cons_snd (b : BuilderWithAttributes S) (c : Call (Pt S) (List S)) (r : Prog S) :
    (b.run (c :: r)).map (·.2) = (b.call c).bind fun s =>
      (BuilderWithAttributes.run s.1 r).map fun t => consId s.2 t.2 := by
  simp only [BuilderWithAttributes.run]
  cases b.call c with
  | none => rfl
  | some s => simp only [Option.bind_some, Option.map_map]; rfl

/-- the ids `BuilderWithAttributes` returns -/
theorem run_ids (b : BuilderWithAttributes S) (prog : Prog S)
    (ha : attrsOk b.numAttributes prog = true) (hfa : b.firstAttributes.length = b.numAttributes) :
    (b.run prog).map (·.2)
      = some (emitEndpointIds (attribStride b.numAttributes + 1) b.builder.points.length prog) := by
  induction prog generalizing b with
  | nil => simp [BuilderWithAttributes.run, emitEndpointIds]
  | cons c r ih =>
    obtain ⟨⟨pts, vs, f⟩, n, fa⟩ := b
    simp only at hfa ha
    rw [run_cons_snd]
    cases c with
    | begin p a =>
      simp only [attrsOk, Bool.and_eq_true, beq_iff_eq] at ha
      have h := ih ⟨⟨pts ++ [p] ++ packAttrs a, vs ++ [Verb.begin], p⟩, n, a⟩ ha.2 ha.1
      simp [packAttrs_length, ha.1] at h
      simp [BuilderWithAttributes.call, BuilderWithAttributes.begin, BuilderImpl.begin, pushAttributesImpl,
        ha.1, emitEndpointIds, consId, h, Nat.add_assoc, Nat.add_comm 1]
    | line p a =>
      simp only [attrsOk, Bool.and_eq_true, beq_iff_eq] at ha
      have h := ih ⟨⟨pts ++ [p] ++ packAttrs a, vs ++ [Verb.lineTo], f⟩, n, fa⟩ ha.2 hfa
      simp [packAttrs_length, ha.1] at h
      simp [BuilderWithAttributes.call, BuilderWithAttributes.lineTo, BuilderWithAttributes.withPoints,
        BuilderImpl.lineTo, pushAttributesImpl, ha.1, emitEndpointIds, consId, h, Nat.add_assoc, Nat.add_comm 1]
    | quad k p a =>
      simp only [attrsOk, Bool.and_eq_true, beq_iff_eq] at ha
      have h := ih ⟨⟨pts ++ [k] ++ [p] ++ packAttrs a, vs ++ [Verb.quadraticTo], f⟩, n, fa⟩ ha.2 hfa
      simp [packAttrs_length, ha.1] at h
      simp [BuilderWithAttributes.call, BuilderWithAttributes.quadraticBezierTo, BuilderWithAttributes.withPoints,
        BuilderImpl.quadraticBezierTo, pushAttributesImpl, ha.1, emitEndpointIds, consId, h, Nat.add_assoc,
        Nat.add_comm 1]
    | cubic k1 k2 p a =>
      simp only [attrsOk, Bool.and_eq_true, beq_iff_eq] at ha
      have h := ih ⟨⟨pts ++ [k1] ++ [k2] ++ [p] ++ packAttrs a, vs ++ [Verb.cubicTo], f⟩, n, fa⟩ ha.2 hfa
      simp [packAttrs_length, ha.1] at h
      have e : pts.length + (attribStride n + 1 + 1 + 1) = pts.length + (2 + (attribStride n + 1)) := by omega
      rw [e] at h
      simp [BuilderWithAttributes.call, BuilderWithAttributes.cubicBezierTo, BuilderWithAttributes.withPoints,
        BuilderImpl.cubicBezierTo, pushAttributesImpl, ha.1, emitEndpointIds, consId, h, Nat.add_assoc,
        Nat.add_comm 1]
    | end_ cl =>
      simp only [attrsOk] at ha
      cases cl with
      | true =>
        have h := ih ⟨⟨pts ++ [f] ++ packAttrs fa, vs ++ [Verb.close], f⟩, n, fa⟩ ha hfa
        simp [packAttrs_length, hfa] at h
        simp [BuilderWithAttributes.call, BuilderWithAttributes.end_, BuilderWithAttributes.withPoints,
          BuilderImpl.end_, pushAttributesImpl, hfa, emitEndpointIds, consId, h, Nat.add_assoc, Nat.add_comm 1]
      | false =>
        have h := ih ⟨⟨pts, vs ++ [Verb.end_], f⟩, n, fa⟩ ha hfa
        simp at h
        simp [BuilderWithAttributes.call, BuilderWithAttributes.end_, BuilderWithAttributes.withPoints,
          BuilderImpl.end_, emitEndpointIds, consId, h]

/-- every returned id resolves, in bounds, to the endpoint it was returned for — position through
`path[id]`, attributes through `path.attributes(id)` -/
theorem ids_resolve_emit (P : PathData S) (prog : Prog S) (f : Pt S) (fa : List S) (pre : List (Pt S))
    (hall : P.points = pre ++ emitPts f fa prog) (ha : attrsOk P.numAttributes prog = true)
    (hfa : fa.length = P.numAttributes) :
    (emitEndpointIds (attribStride P.numAttributes + 1) pre.length prog).mapM P.endpointA
      = some (progEndpoints prog) := by
  induction prog generalizing f fa pre with
  | nil => simp [emitEndpointIds, progEndpoints]
  | cons c r ih =>
    cases c with
    | begin p a =>
      simp only [attrsOk, Bool.and_eq_true, beq_iff_eq] at ha
      simp only [emitPts] at hall
      have hA := endpointA_at P pre _ p a hall ha.1
      have h := ih p a (pre ++ endpointPts p a) (by simpa using hall) ha.2 ha.1
      simp [endpointPts_length, ha.1] at h
      simp [emitEndpointIds, progEndpoints, hA, h]
    | line p a =>
      simp only [attrsOk, Bool.and_eq_true, beq_iff_eq] at ha
      simp only [emitPts] at hall
      have hA := endpointA_at P pre _ p a hall ha.1
      have h := ih f fa (pre ++ endpointPts p a) (by simpa using hall) ha.2 hfa
      simp [endpointPts_length, ha.1] at h
      simp [emitEndpointIds, progEndpoints, hA, h]
    | quad k p a =>
      simp only [attrsOk, Bool.and_eq_true, beq_iff_eq] at ha
      simp only [emitPts] at hall
      have hA := endpointA_at P (pre ++ [k]) _ p a (by simpa using hall) ha.1
      have h := ih f fa (pre ++ [k] ++ endpointPts p a) (by simpa using hall) ha.2 hfa
      simp [endpointPts_length, ha.1] at h hA
      have e : pre.length + (attribStride P.numAttributes + 1 + 1) = pre.length + (1 + (attribStride P.numAttributes + 1)) := by omega
      rw [e] at h
      simp [emitEndpointIds, progEndpoints, hA, h, Nat.add_assoc]
    | cubic k1 k2 p a =>
      simp only [attrsOk, Bool.and_eq_true, beq_iff_eq] at ha
      simp only [emitPts] at hall
      have hA := endpointA_at P (pre ++ [k1] ++ [k2]) _ p a (by simpa using hall) ha.1
      have h := ih f fa (pre ++ [k1] ++ [k2] ++ endpointPts p a) (by simpa using hall) ha.2 hfa
      simp [endpointPts_length, ha.1] at h hA
      have e : pre.length + (attribStride P.numAttributes + 1 + 1 + 1) = pre.length + (2 + (attribStride P.numAttributes + 1)) := by omega
      rw [e] at h
      simp [emitEndpointIds, progEndpoints, hA, h, Nat.add_assoc]
    | end_ cl =>
      simp only [attrsOk] at ha
      cases cl with
      | true =>
        simp only [emitPts] at hall
        have h := ih f fa (pre ++ endpointPts f fa) (by simpa using hall) ha hfa
        simp [endpointPts_length, hfa] at h
        simp [emitEndpointIds, progEndpoints, h]
      | false =>
        simp only [emitPts] at hall
        simpa [emitEndpointIds, progEndpoints] using ih f fa pre hall ha hfa


theorem plain_run_ids {A : Type} (b : BuilderImpl S) (prog : List (Call (Pt S) A)) :
    (b.run prog).2 = emitEndpointIds 1 b.points.length (prog.map noAttr) := by
  induction prog generalizing b with
  | nil => simp [BuilderImpl.run, emitEndpointIds]
  | cons c r ih =>
    obtain ⟨pts, vs, f⟩ := b
    cases c with
    | begin p a =>
      simp [BuilderImpl.run, BuilderImpl.call, BuilderImpl.begin, ih, noAttr, emitEndpointIds, consId]
    | line p a =>
      simp [BuilderImpl.run, BuilderImpl.call, BuilderImpl.lineTo, ih, noAttr, emitEndpointIds, consId]
    | quad k p a =>
      simp [BuilderImpl.run, BuilderImpl.call, BuilderImpl.quadraticBezierTo, ih, noAttr, emitEndpointIds,
        consId, Nat.add_assoc]
    | cubic k1 k2 p a =>
      simp [BuilderImpl.run, BuilderImpl.call, BuilderImpl.cubicBezierTo, ih, noAttr, emitEndpointIds,
        consId, Nat.add_assoc]
    | end_ cl =>
      cases cl <;> simp [BuilderImpl.run, BuilderImpl.call, BuilderImpl.end_, ih, noAttr, emitEndpointIds, consId]

end Lyon.Path
