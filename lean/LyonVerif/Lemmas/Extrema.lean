/-
  Helper lemmas and definitions for C11 (bounding boxes, extrema, monotone splits): the
  one-coordinate algebra of quadratic / cubic Béziers (`Quad1`, `Cubic1`), range lists, `Angle::positive`,
  box joins.  The property's theorems are in `Props/C11.lean`.
-/
import LyonVerif.Model.Geom.Extrema
import LyonVerif.Lemmas.Field
import Mathlib.Tactic.NormNum
import Mathlib.Data.Rat.Floor

set_option linter.unusedSectionVars false
set_option linter.unusedVariables false
set_option linter.unusedSimpArgs false
set_option linter.style.haveILetI false
set_option warn.classDefReducibility false

geom_all Lyon.Quad1
geom_all Lyon.Quad
geom_all Lyon.Cubic1
geom_all Lyon.Cubic
geom_all Lyon.Arc
geom_all Lyon.Xf

namespace Lyon.C11

open Lyon


variable {K : Type} [Field K] [LinearOrder K] [IsStrictOrderedRing K]


theorem q1_ev (a c b t : K) : Quad1.ev a c b t = a*(1-t)^2 + 2*c*(1-t)*t + b*t^2 := by
  geom_ring

theorem q1_div (a c b : K) : Quad1.div a c b = a - 2*c + b := by geom_ring

theorem bne_iff (a b : K) : ((a != b) = true) ↔ a ≠ b := by simp [bne]


theorem q1_localExt_some (a c b t : K) :
    Quad1.localExt a c b = some t ↔
      (a - 2*c + b ≠ 0 ∧ t = (a - c) / (a - 2*c + b) ∧ 0 < t ∧ t < 1) := by
  unfold Quad1.localExt
  rw [show Quad1.extT a c b = (a - c) / (a - 2*c + b) by simp [Quad1.extT, q1_div]]
  simp only [sc_beq, q1_div]
  simp only [Scalar.zero, Scalar.one, sc_zero, sc_one, gt_iff_lt]
  split_ifs with h0 h1
  · simp [h0]
  · constructor
    · intro h; cases h; exact ⟨h0, rfl, h1.1, h1.2⟩
    · rintro ⟨_, rfl, _, _⟩; rfl
  · constructor
    · intro h; cases h
    · rintro ⟨_, rfl, h2, h3⟩; exact absurd ⟨h2, h3⟩ h1


/-- facts about a reported local extremum: it is interior and `D·t = a - c` -/
theorem q1_localExt_facts {a c b t : K} (h : Quad1.localExt a c b = some t) :
    a - 2*c + b ≠ 0 ∧ (a - 2*c + b) * t = a - c ∧ 0 < t ∧ t < 1 := by
  obtain ⟨hD, rfl, h0, h1⟩ := (q1_localExt_some a c b t).1 h
  exact ⟨hD, by field_simp, h0, h1⟩


theorem q1_localExt_none {a c b : K} (h : Quad1.localExt a c b = none) (t : K)
    (ht : (a - 2*c + b) * t = a - c) (hD : a - 2*c + b ≠ 0) : t ≤ 0 ∨ 1 ≤ t := by
  by_contra hc
  rw [not_or, not_le, not_le] at hc
  have : Quad1.localExt a c b = some t := by
    rw [q1_localExt_some]
    exact ⟨hD, eq_div_of_mul_eq hD (by rw [mul_comm]; exact ht), hc.1, hc.2⟩
  rw [h] at this; cases this


/-! ### extremum parameters -/


theorem q1_endMax (a b : K) : Quad1.endMax a b = 0 ∧ b ≤ a ∨ Quad1.endMax a b = 1 ∧ a ≤ b := by
  unfold Quad1.endMax
  simp only [Scalar.zero, Scalar.one, sc_zero, sc_one, gt_iff_lt]
  split_ifs with h
  · left; exact ⟨rfl, le_of_lt h⟩
  · right; exact ⟨rfl, not_lt.1 h⟩


theorem q1_endMin (a b : K) : Quad1.endMin a b = 0 ∧ a ≤ b ∨ Quad1.endMin a b = 1 ∧ b ≤ a := by
  unfold Quad1.endMin
  simp only [Scalar.zero, Scalar.one, sc_zero, sc_one]
  split_ifs with h
  · left; exact ⟨rfl, le_of_lt h⟩
  · right; exact ⟨rfl, not_lt.1 h⟩


/-- values at the ends -/
theorem q1_ev0 (a c b : K) : Quad1.ev a c b 0 = a := by rw [q1_ev]; ring

theorem q1_ev1 (a c b : K) : Quad1.ev a c b 1 = b := by rw [q1_ev]; ring


/-- the key identity: `f u - f s = (u - s) (D (u + s) - 2 (a - c))` -/
theorem q1_diff (a c b s u : K) :
    Quad1.ev a c b u - Quad1.ev a c b s = (u - s) * ((a - 2*c + b) * (u + s) - 2 * (a - c)) := by
  rw [q1_ev, q1_ev]; ring


/-- upper bound by the larger end value when no interior maximum exists -/
theorem q1_le_ends_of {a c b : K} (t : K) (h0 : 0 ≤ t) (h1 : t ≤ 1)
    (h : 0 ≤ a - 2*c + b ∨ ∃ s, (a - 2*c + b) * s = a - c ∧ (s ≤ 0 ∨ 1 ≤ s)) :
    Quad1.ev a c b t ≤ max a b := by
  rcases le_or_gt 0 (a - 2*c + b) with hD | hD
  · have e : Quad1.ev a c b t = (1 - t) * a + t * b - (a - 2*c + b) * (t * (1 - t)) := by
      rw [q1_ev]; ring
    have h2 : 0 ≤ (a - 2*c + b) * (t * (1 - t)) := mul_nonneg hD (mul_nonneg h0 (by linarith))
    have ha : a ≤ max a b := le_max_left _ _
    have hb : b ≤ max a b := le_max_right _ _
    have : (1 - t) * a + t * b ≤ max a b := by
      have h3 : (1 - t) * a ≤ (1 - t) * max a b := mul_le_mul_of_nonneg_left ha (by linarith)
      have h4 : t * b ≤ t * max a b := mul_le_mul_of_nonneg_left hb h0
      linarith
    linarith
  · rcases h with h | ⟨s, hs, hs'⟩
    · exact absurd h (not_le.2 hD)
    · rcases hs' with hs' | hs'
      · -- f t - a = D t (t - 2 s) ≤ 0
        have e : Quad1.ev a c b t - a = (a - 2*c + b) * (t * (t - 2 * s)) := by
          rw [q1_ev]; linear_combination (2 * t) * hs
        have : 0 ≤ t * (t - 2 * s) := mul_nonneg h0 (by linarith)
        have : (a - 2*c + b) * (t * (t - 2 * s)) ≤ 0 := mul_nonpos_of_nonpos_of_nonneg (le_of_lt hD) this
        exact le_trans (by linarith) (le_max_left a b)
      · have e : Quad1.ev a c b t - b = (a - 2*c + b) * ((1 - t) * (2 * s - 1 - t)) := by
          rw [q1_ev]; linear_combination (2 * t - 2) * hs
        have : 0 ≤ (1 - t) * (2 * s - 1 - t) := mul_nonneg (by linarith) (by linarith)
        have : (a - 2*c + b) * ((1 - t) * (2 * s - 1 - t)) ≤ 0 := mul_nonpos_of_nonpos_of_nonneg (le_of_lt hD) this
        exact le_trans (by linarith) (le_max_right a b)


theorem q1_ev_endMax (a c b : K) : Quad1.ev a c b (Quad1.endMax a b) = max a b := by
  rcases q1_endMax a b with ⟨h, h'⟩ | ⟨h, h'⟩ <;> rw [h]
  · rw [q1_ev0, max_eq_left h']
  · rw [q1_ev1, max_eq_right h']


/-- `x_maximum_t` / `y_maximum_t`: the parameter lies in `[0,1]` and the coordinate is maximal
there over the whole of `[0,1]` -/
theorem q1_maxT (a c b : K) :
    (0 ≤ Quad1.maxT a c b ∧ Quad1.maxT a c b ≤ 1) ∧
    ∀ t, 0 ≤ t → t ≤ 1 → Quad1.ev a c b t ≤ Quad1.ev a c b (Quad1.maxT a c b) := by
  have hend : (0:K) ≤ Quad1.endMax a b ∧ Quad1.endMax a b ≤ 1 := by
    rcases q1_endMax a b with ⟨h, _⟩ | ⟨h, _⟩ <;> rw [h] <;> constructor <;> norm_num
  unfold Quad1.maxT
  rcases hx : Quad1.localExt a c b with _ | s
  · refine ⟨hend, fun t h0 h1 => ?_⟩
    dsimp only
    rw [q1_ev_endMax]
    apply q1_le_ends_of t h0 h1
    by_cases hD : a - 2*c + b = 0
    · left; rw [hD]
    · right
      exact ⟨(a - c) / (a - 2*c + b), by field_simp, q1_localExt_none hx _ (by field_simp) hD⟩
  · obtain ⟨hD, hs, hs0, hs1⟩ := q1_localExt_facts hx
    have ea : Quad1.ev a c b s - a = -((a - 2*c + b) * (s * s)) := by
      rw [q1_ev]; linear_combination (2 * s) * hs
    have eb : Quad1.ev a c b s - b = -((a - 2*c + b) * ((1 - s) * (1 - s))) := by
      rw [q1_ev]; linear_combination (2 * s - 2) * hs
    dsimp only
    split_ifs with hc
    · refine ⟨⟨le_of_lt hs0, le_of_lt hs1⟩, fun t h0 h1 => ?_⟩
      have hDneg : a - 2*c + b < 0 := by
        have : 0 < s * s := mul_pos hs0 hs0
        have h2 : 0 < -((a - 2*c + b) * (s * s)) := by rw [← ea]; linarith [hc.1]
        by_contra hcon
        have : 0 ≤ (a - 2*c + b) * (s * s) := mul_nonneg (not_lt.1 hcon) (le_of_lt this)
        linarith
      have e : Quad1.ev a c b t - Quad1.ev a c b s = (a - 2*c + b) * ((t - s) * (t - s)) := by
        rw [q1_diff]; linear_combination (2 * (t - s)) * hs
      have : (a - 2*c + b) * ((t - s) * (t - s)) ≤ 0 :=
        mul_nonpos_of_nonpos_of_nonneg (le_of_lt hDneg) (mul_self_nonneg _)
      linarith
    · refine ⟨hend, fun t h0 h1 => ?_⟩
      rw [q1_ev_endMax]
      apply q1_le_ends_of t h0 h1
      left
      by_contra hcon
      have hDneg : a - 2*c + b < 0 := not_le.1 hcon
      apply hc
      have p1 : 0 < s * s := mul_pos hs0 hs0
      have p2 : 0 < (1 - s) * (1 - s) := mul_pos (by linarith) (by linarith)
      have n1 : (a - 2*c + b) * (s * s) < 0 := mul_neg_of_neg_of_pos hDneg p1
      have n2 : (a - 2*c + b) * ((1 - s) * (1 - s)) < 0 := mul_neg_of_neg_of_pos hDneg p2
      constructor <;> [linarith; linarith]


theorem q1_localExt_neg (a c b : K) : Quad1.localExt (-a) (-c) (-b) = Quad1.localExt a c b := by
  apply Option.ext; intro t
  rw [q1_localExt_some, q1_localExt_some]
  have e1 : -a - 2 * -c + -b = -(a - 2*c + b) := by ring
  have e2 : -a - -c = -(a - c) := by ring
  rw [e1, e2, neg_div_neg_eq, neg_ne_zero]


theorem q1_ev_neg (a c b t : K) : Quad1.ev (-a) (-c) (-b) t = - Quad1.ev a c b t := by
  rw [q1_ev, q1_ev]; ring


theorem q1_minT_neg (a c b : K) : Quad1.minT a c b = Quad1.maxT (-a) (-c) (-b) := by
  unfold Quad1.minT Quad1.maxT
  rw [q1_localExt_neg]
  have e : Quad1.endMin a b = Quad1.endMax (-a) (-b) := by
    unfold Quad1.endMin Quad1.endMax; simp only [gt_iff_lt, neg_lt_neg_iff]
  rcases Quad1.localExt a c b with _ | s
  · exact e
  · dsimp only; rw [q1_ev_neg, e]; simp only [gt_iff_lt, neg_lt_neg_iff]


/-- `x_minimum_t` / `y_minimum_t`: in `[0,1]`, and the coordinate is minimal there over `[0,1]` -/
theorem q1_minT (a c b : K) :
    (0 ≤ Quad1.minT a c b ∧ Quad1.minT a c b ≤ 1) ∧
    ∀ t, 0 ≤ t → t ≤ 1 → Quad1.ev a c b (Quad1.minT a c b) ≤ Quad1.ev a c b t := by
  rw [q1_minT_neg]
  obtain ⟨h1, h2⟩ := q1_maxT (-a) (-c) (-b)
  refine ⟨h1, fun t h0 ht => ?_⟩
  have := h2 t h0 ht
  rw [q1_ev_neg, q1_ev_neg] at this
  linarith


/-- Bernstein / convex-hull bound: on `[0,1]` the coordinate stays between the smallest and the
largest control value -/
theorem q1_fast_range_contains (a c b t : K) (h0 : 0 ≤ t) (h1 : t ≤ 1) :
    (Quad1.fastRange a c b).1 ≤ Quad1.ev a c b t ∧ Quad1.ev a c b t ≤ (Quad1.fastRange a c b).2 := by
  simp only [Quad1.fastRange, sc_min, sc_max]
  have w0 : 0 ≤ (1 - t) ^ 2 := sq_nonneg _
  have w1 : 0 ≤ 2 * (1 - t) * t := mul_nonneg (mul_nonneg (by norm_num) (by linarith)) h0
  have w2 : 0 ≤ t ^ 2 := sq_nonneg _
  have e : ∀ m : K, Quad1.ev a c b t - m = (a - m) * (1 - t)^2 + (c - m) * (2 * (1 - t) * t) + (b - m) * t^2 := by
    intro m; rw [q1_ev]; ring
  constructor
  · have ha : min (min a c) b ≤ a := le_trans (min_le_left _ _) (min_le_left _ _)
    have hc : min (min a c) b ≤ c := le_trans (min_le_left _ _) (min_le_right _ _)
    have hb : min (min a c) b ≤ b := min_le_right _ _
    have := e (min (min a c) b)
    have p0 := mul_nonneg (sub_nonneg.2 ha) w0
    have p1 := mul_nonneg (sub_nonneg.2 hc) w1
    have p2 := mul_nonneg (sub_nonneg.2 hb) w2
    linarith
  · have ha : a ≤ max (max a c) b := le_trans (le_max_left _ _) (le_max_left _ _)
    have hc : c ≤ max (max a c) b := le_trans (le_max_right _ _) (le_max_left _ _)
    have hb : b ≤ max (max a c) b := le_max_right _ _
    have := e (max (max a c) b)
    have p0 := mul_nonneg (sub_nonneg.2 ha) w0
    have p1 := mul_nonneg (sub_nonneg.2 hc) w1
    have p2 := mul_nonneg (sub_nonneg.2 hb) w2
    linarith


/-- exact range: contains the coordinate for every `t ∈ [0,1]` -/
theorem q1_range_contains (a c b t : K) (h0 : 0 ≤ t) (h1 : t ≤ 1) :
    (Quad1.range a c b).1 ≤ Quad1.ev a c b t ∧ Quad1.ev a c b t ≤ (Quad1.range a c b).2 :=
  ⟨(q1_minT a c b).2 t h0 h1, (q1_maxT a c b).2 t h0 h1⟩


/-- fast range ⊇ exact range -/
theorem q1_fast_contains_exact (a c b : K) :
    (Quad1.fastRange a c b).1 ≤ (Quad1.range a c b).1 ∧ (Quad1.range a c b).2 ≤ (Quad1.fastRange a c b).2 :=
  ⟨(q1_fast_range_contains a c b _ (q1_minT a c b).1.1 (q1_minT a c b).1.2).1,
   (q1_fast_range_contains a c b _ (q1_maxT a c b).1.1 (q1_maxT a c b).1.2).2⟩


/-! ### monotone pieces (one coordinate) -/


/-- `f` is monotone (non-decreasing or non-increasing) on `[lo, hi]` -/
def MonoOn (f : K → K) (lo hi : K) : Prop :=
  (∀ s u, lo ≤ s → s ≤ u → u ≤ hi → f s ≤ f u) ∨ (∀ s u, lo ≤ s → s ≤ u → u ≤ hi → f u ≤ f s)


/-- half of the derivative: `f'(t) / 2 = D t - (a - c)` -/
def qd (a c b t : K) : K := (a - 2*c + b) * t - (a - c)


theorem qd_between {a c b lo hi s : K} (hs0 : lo ≤ s) (hs1 : s ≤ hi) :
    (0 ≤ qd a c b lo → 0 ≤ qd a c b hi → 0 ≤ qd a c b s) ∧
    (qd a c b lo ≤ 0 → qd a c b hi ≤ 0 → qd a c b s ≤ 0) := by
  unfold qd
  rcases le_total 0 (a - 2*c + b) with hD | hD
  · have h1 := mul_le_mul_of_nonneg_left hs0 hD
    have h2 := mul_le_mul_of_nonneg_left hs1 hD
    constructor <;> intro p q <;> linarith
  · have h1 := mul_le_mul_of_nonpos_left hs0 hD
    have h2 := mul_le_mul_of_nonpos_left hs1 hD
    constructor <;> intro p q <;> linarith


/-- the derivative has the same (weak) sign at both ends of a range free of interior extrema -/
theorem q1_sign_const {a c b lo hi : K} (h0 : 0 ≤ lo) (hlh : lo ≤ hi) (h1 : hi ≤ 1)
    (h : ∀ t, Quad1.localExt a c b = some t → t ≤ lo ∨ hi ≤ t) :
    (0 ≤ qd a c b lo ∧ 0 ≤ qd a c b hi) ∨ (qd a c b lo ≤ 0 ∧ qd a c b hi ≤ 0) := by
  by_cases hD : a - 2*c + b = 0
  · unfold qd; rw [hD]; simp only [zero_mul]
    rcases le_total 0 (0 - (a - c)) with p | p
    · left; exact ⟨p, p⟩
    · right; exact ⟨p, p⟩
  · have key : ∃ s, (a - 2*c + b) * s = a - c ∧ (s ≤ lo ∨ hi ≤ s) := by
      refine ⟨(a - c) / (a - 2*c + b), by field_simp, ?_⟩
      rcases hx : Quad1.localExt a c b with _ | s
      · rcases q1_localExt_none hx ((a - c) / (a - 2*c + b)) (by field_simp) hD with p | p
        · left; linarith
        · right; linarith
      · have := (q1_localExt_some a c b s).1 hx
        rw [← this.2.1]; exact h s hx
    obtain ⟨s, hs, hs'⟩ := key
    have e : ∀ t, qd a c b t = (a - 2*c + b) * (t - s) := by intro t; unfold qd; linear_combination hs
    rw [e, e]
    rcases lt_or_gt_of_ne hD with hneg | hpos
    · rcases hs' with p | p
      · right; exact ⟨mul_nonpos_of_nonpos_of_nonneg (le_of_lt hneg) (by linarith),
                       mul_nonpos_of_nonpos_of_nonneg (le_of_lt hneg) (by linarith)⟩
      · left; exact ⟨mul_nonneg_of_nonpos_of_nonpos (le_of_lt hneg) (by linarith),
                      mul_nonneg_of_nonpos_of_nonpos (le_of_lt hneg) (by linarith)⟩
    · rcases hs' with p | p
      · left; exact ⟨mul_nonneg (le_of_lt hpos) (by linarith), mul_nonneg (le_of_lt hpos) (by linarith)⟩
      · right; exact ⟨mul_nonpos_of_nonneg_of_nonpos (le_of_lt hpos) (by linarith),
                       mul_nonpos_of_nonneg_of_nonpos (le_of_lt hpos) (by linarith)⟩


theorem q1_mono_of_sign {a c b lo hi : K}
    (h : (0 ≤ qd a c b lo ∧ 0 ≤ qd a c b hi) ∨ (qd a c b lo ≤ 0 ∧ qd a c b hi ≤ 0)) :
    MonoOn (Quad1.ev a c b) lo hi := by
  have e : ∀ s u, Quad1.ev a c b u - Quad1.ev a c b s = (u - s) * (qd a c b u + qd a c b s) := by
    intro s u; rw [q1_diff]; unfold qd; ring
  rcases h with ⟨p, q⟩ | ⟨p, q⟩
  · left; intro s u h0 h1 h2
    have ps := (qd_between (a := a) (c := c) (b := b) h0 (le_trans h1 h2)).1 p q
    have pu := (qd_between (a := a) (c := c) (b := b) (le_trans h0 h1) h2).1 p q
    have := e s u
    have : 0 ≤ (u - s) * (qd a c b u + qd a c b s) := mul_nonneg (by linarith) (by linarith)
    linarith
  · right; intro s u h0 h1 h2
    have ps := (qd_between (a := a) (c := c) (b := b) h0 (le_trans h1 h2)).2 p q
    have pu := (qd_between (a := a) (c := c) (b := b) (le_trans h0 h1) h2).2 p q
    have := e s u
    have : (u - s) * (qd a c b u + qd a c b s) ≤ 0 := mul_nonpos_of_nonneg_of_nonpos (by linarith) (by linarith)
    linarith


/-- a coordinate is monotone on every sub-range of `[0,1]` that has no local extremum in its interior -/
theorem q1_mono {a c b lo hi : K} (h0 : 0 ≤ lo) (hlh : lo ≤ hi) (h1 : hi ≤ 1)
    (h : ∀ t, Quad1.localExt a c b = some t → t ≤ lo ∨ hi ≤ t) : MonoOn (Quad1.ev a c b) lo hi :=
  q1_mono_of_sign (q1_sign_const h0 hlh h1 h)


/-- one coordinate of `split_range(lo..hi)`: `(f lo, f lo + qd lo · (hi - lo), f hi)`; on a range
without interior extremum the control value lies between the end values, so lyon's clamp
`ctrl.max(min).min(max)` leaves it unchanged -/
theorem q1_clamp_noop {a c b lo hi : K} (h0 : 0 ≤ lo) (hlh : lo ≤ hi) (h1 : hi ≤ 1)
    (h : ∀ t, Quad1.localExt a c b = some t → t ≤ lo ∨ hi ≤ t) :
    clampTo (Quad1.ev a c b lo + qd a c b lo * (hi - lo))
      (Scalar.min (Quad1.ev a c b lo) (Quad1.ev a c b hi)) (Scalar.max (Quad1.ev a c b lo) (Quad1.ev a c b hi))
      = Quad1.ev a c b lo + qd a c b lo * (hi - lo) := by
  have e : Quad1.ev a c b hi - (Quad1.ev a c b lo + qd a c b lo * (hi - lo)) = qd a c b hi * (hi - lo) := by
    rw [q1_ev, q1_ev]; unfold qd; ring
  simp only [clampTo, sc_min, sc_max]
  have hd : 0 ≤ hi - lo := by linarith
  rcases q1_sign_const h0 hlh h1 h with ⟨p, q⟩ | ⟨p, q⟩
  · have a1 := mul_nonneg p hd
    have a2 := mul_nonneg q hd
    have le1 : Quad1.ev a c b lo ≤ Quad1.ev a c b hi := by linarith
    rw [min_eq_left le1, max_eq_right le1, max_eq_left (by linarith), min_eq_left (by linarith)]
  · have a1 := mul_nonpos_of_nonpos_of_nonneg p hd
    have a2 := mul_nonpos_of_nonpos_of_nonneg q hd
    have le1 : Quad1.ev a c b hi ≤ Quad1.ev a c b lo := by linarith
    rw [min_eq_right le1, max_eq_left le1, max_eq_left (by linarith), min_eq_left (by linarith)]


/-! ### ranges -/


/-- consecutive ranges `[(s, t₁), (t₁, t₂), …, (tₙ, e)]`, each of positive length -/
def Chain : K → List (K × K) → K → Prop
  | s, [], e => s = e
  | s, r :: rest, e => r.1 = s ∧ r.1 < r.2 ∧ Chain r.2 rest e


/-- what `monoRangesOf` guarantees once the two optional parameters are interior and ordered -/
theorem monoRangesOf_spec (t0 t1 : Option K)
    (h0 : ∀ s, t0 = some s → 0 < s ∧ s < 1) (h1 : ∀ s, t1 = some s → 0 < s ∧ s < 1)
    (hord : ∀ s t, t0 = some s → t1 = some t → s ≤ t) :
    Chain 0 (Quad.monoRangesOf t0 t1) 1 ∧
    ∀ r ∈ Quad.monoRangesOf t0 t1, 0 ≤ r.1 ∧ r.1 < r.2 ∧ r.2 ≤ 1 ∧
      ∀ s, (t0 = some s ∨ t1 = some s) → s ≤ r.1 ∨ r.2 ≤ s := by
  rcases t0 with _ | s <;> rcases t1 with _ | t
  · simp only [Quad.monoRangesOf, Chain, Scalar.zero, Scalar.one, sc_zero, sc_one]
    refine ⟨⟨trivial, by norm_num, trivial⟩, ?_⟩
    intro r hr
    simp only [List.mem_singleton] at hr
    subst hr
    refine ⟨le_refl _, by norm_num, le_refl _, ?_⟩
    intro s hs; rcases hs with hs | hs <;> cases hs
  · obtain ⟨p0, p1⟩ := h1 t rfl
    have hne : t ≠ 0 := ne_of_gt p0
    simp only [Quad.monoRangesOf, Scalar.zero, Scalar.one, sc_zero, sc_one, bne_iff, hne, ne_eq,
      not_false_eq_true, if_true, Chain]
    refine ⟨⟨trivial, p0, trivial, p1, trivial⟩, ?_⟩
    intro r hr
    simp only [List.mem_cons, List.mem_singleton, List.not_mem_nil, or_false] at hr
    rcases hr with rfl | rfl
    · refine ⟨le_refl _, p0, le_of_lt p1, ?_⟩
      intro s hs; rcases hs with hs | hs <;> cases hs
      right; exact le_refl _
    · refine ⟨le_of_lt p0, p1, le_refl _, ?_⟩
      intro s hs; rcases hs with hs | hs <;> cases hs
      left; exact le_refl _
  · obtain ⟨p0, p1⟩ := h0 s rfl
    simp only [Quad.monoRangesOf, Scalar.zero, Scalar.one, sc_zero, sc_one, Chain]
    refine ⟨⟨trivial, p0, trivial, p1, trivial⟩, ?_⟩
    intro r hr
    simp only [List.mem_cons, List.mem_singleton, List.not_mem_nil, or_false] at hr
    rcases hr with rfl | rfl
    · refine ⟨le_refl _, p0, le_of_lt p1, ?_⟩
      intro s hs; rcases hs with hs | hs <;> cases hs
      right; exact le_refl _
    · refine ⟨le_of_lt p0, p1, le_refl _, ?_⟩
      intro s hs; rcases hs with hs | hs <;> cases hs
      left; exact le_refl _
  · obtain ⟨p0, p1⟩ := h0 s rfl
    obtain ⟨q0, q1⟩ := h1 t rfl
    have hst : s ≤ t := hord s t rfl rfl
    by_cases hne : t = s
    · subst hne
      simp only [Quad.monoRangesOf, Scalar.zero, Scalar.one, sc_zero, sc_one, bne_self_eq_false,
        Bool.false_eq_true, if_false, Chain]
      refine ⟨⟨trivial, p0, trivial, p1, trivial⟩, ?_⟩
      intro r hr
      simp only [List.mem_cons, List.mem_singleton, List.not_mem_nil, or_false] at hr
      rcases hr with rfl | rfl
      · refine ⟨le_refl _, p0, le_of_lt p1, ?_⟩
        intro s hs; rcases hs with hs | hs <;> cases hs <;> (right; exact le_refl _)
      · refine ⟨le_of_lt p0, p1, le_refl _, ?_⟩
        intro s hs; rcases hs with hs | hs <;> cases hs <;> (left; exact le_refl _)
    · have hlt : s < t := lt_of_le_of_ne hst (Ne.symm hne)
      simp only [Quad.monoRangesOf, Scalar.zero, Scalar.one, sc_zero, sc_one, bne_iff, hne, ne_eq,
        not_false_eq_true, if_true, Chain]
      refine ⟨⟨trivial, p0, trivial, hlt, trivial, q1, trivial⟩, ?_⟩
      intro r hr
      simp only [List.mem_cons, List.mem_singleton, List.not_mem_nil, or_false] at hr
      rcases hr with rfl | rfl | rfl
      · refine ⟨le_refl _, p0, le_of_lt p1, ?_⟩
        intro s hs; rcases hs with hs | hs <;> cases hs
        · right; exact le_refl _
        · right; exact hst
      · refine ⟨le_of_lt p0, hlt, le_of_lt q1, ?_⟩
        intro s hs; rcases hs with hs | hs <;> cases hs
        · left; exact le_refl _
        · right; exact le_refl _
      · refine ⟨le_of_lt q0, q1, le_refl _, ?_⟩
        intro s hs; rcases hs with hs | hs <;> cases hs
        · left; exact hst
        · left; exact le_refl _


/-- a point is inside a box (closed) -/
def Box.Contains (b : Box K) (p : P K) : Prop :=
  b.min.x ≤ p.x ∧ p.x ≤ b.max.x ∧ b.min.y ≤ p.y ∧ p.y ≤ b.max.y


/-- box `a` is inside box `b` -/
def Box.Inside (a b : Box K) : Prop :=
  b.min.x ≤ a.min.x ∧ a.max.x ≤ b.max.x ∧ b.min.y ≤ a.min.y ∧ a.max.y ≤ b.max.y


theorem quad_sample_x (q : Quad K) (t : K) : (q.sample t).x = Quad1.ev q.a.x q.c.x q.b.x t := by
  geom_ring

theorem quad_sample_y (q : Quad K) (t : K) : (q.sample t).y = Quad1.ev q.a.y q.c.y q.b.y t := by
  geom_ring

/-- `Quad1.ev` is the body of lyon's `x()` / `y()` -/
theorem quad_x_eq (q : Quad K) (t : K) : q.x t = Quad1.ev q.a.x q.c.x q.b.x t := rfl

theorem quad_y_eq (q : Quad K) (t : K) : q.y t = Quad1.ev q.a.y q.c.y q.b.y t := rfl

theorem quad_dx_eq (q : Quad K) (t : K) : q.dx t = 2 * qd q.a.x q.c.x q.b.x t := by
  unfold qd; geom_ring

theorem quad_dy_eq (q : Quad K) (t : K) : q.dy t = 2 * qd q.a.y q.c.y q.b.y t := by
  unfold qd; geom_ring


/-- `for_each_monotonic_range` = `monoRangesOf` on the two optional extrema in increasing order -/
theorem quad_ranges_eq (q : Quad K) :
    ∃ t0 t1, q.monotonicRanges = Quad.monoRangesOf t0 t1 ∧
      (∀ s, t0 = some s → 0 < s ∧ s < 1) ∧ (∀ s, t1 = some s → 0 < s ∧ s < 1) ∧
      (∀ s t, t0 = some s → t1 = some t → s ≤ t) ∧
      (∀ s, (q.localXExtremumT = some s ∨ q.localYExtremumT = some s) ↔ (t0 = some s ∨ t1 = some s)) := by
  have fx : ∀ s, q.localXExtremumT = some s → 0 < s ∧ s < 1 := fun s h =>
    ⟨(q1_localExt_facts h).2.2.1, (q1_localExt_facts h).2.2.2⟩
  have fy : ∀ s, q.localYExtremumT = some s → 0 < s ∧ s < 1 := fun s h =>
    ⟨(q1_localExt_facts h).2.2.1, (q1_localExt_facts h).2.2.2⟩
  unfold Quad.monotonicRanges
  rcases hx : q.localXExtremumT with _ | tx <;> rcases hy : q.localYExtremumT with _ | ty
  · exact ⟨none, none, rfl, by simp, by simp, by simp, by simp⟩
  · exact ⟨none, some ty, rfl, by simp, fun s h => fy s (hy ▸ h), by simp, by simp⟩
  · exact ⟨some tx, none, rfl, fun s h => fx s (hx ▸ h), by simp, by simp, by simp⟩
  · dsimp only
    split_ifs with hc
    · refine ⟨some ty, some tx, rfl, fun s h => fy s (hy ▸ h), fun s h => fx s (hx ▸ h), ?_, ?_⟩
      · intro s t hs ht; cases hs; cases ht; exact le_of_lt hc
      · intro s; exact Or.comm
    · refine ⟨some tx, some ty, rfl, fun s h => fx s (hx ▸ h), fun s h => fy s (hy ▸ h), ?_, ?_⟩
      · intro s t hs ht; cases hs; cases ht; exact not_lt.1 hc
      · intro s; exact Iff.rfl


/-- every range reported by `for_each_monotonic_range` lies in `[0,1]` and has no x- or y-
extremum in its interior -/
theorem quad_ranges_good (q : Quad K) : ∀ r ∈ q.monotonicRanges,
    0 ≤ r.1 ∧ r.1 < r.2 ∧ r.2 ≤ 1 ∧
    (∀ s, q.localXExtremumT = some s → s ≤ r.1 ∨ r.2 ≤ s) ∧
    (∀ s, q.localYExtremumT = some s → s ≤ r.1 ∨ r.2 ≤ s) := by
  obtain ⟨t0, t1, e, h0, h1, ho, hiff⟩ := quad_ranges_eq q
  rw [e]
  intro r hr
  obtain ⟨a0, a1, a2, a3⟩ := (monoRangesOf_spec t0 t1 h0 h1 ho).2 r hr
  exact ⟨a0, a1, a2, fun s hs => a3 s ((hiff s).1 (Or.inl hs)), fun s hs => a3 s ((hiff s).1 (Or.inr hs))⟩


theorem quad_splitRange_ctrl (q : Quad K) (lo hi : K) :
    (q.splitRange lo hi).a = q.sample lo ∧ (q.splitRange lo hi).b = q.sample hi ∧
    (q.splitRange lo hi).c.x = Quad1.ev q.a.x q.c.x q.b.x lo + qd q.a.x q.c.x q.b.x lo * (hi - lo) ∧
    (q.splitRange lo hi).c.y = Quad1.ev q.a.y q.c.y q.b.y lo + qd q.a.y q.c.y q.b.y lo * (hi - lo) := by
  refine ⟨rfl, rfl, ?_, ?_⟩ <;> (unfold qd; geom_ring)


/-! ### the x- / y- only variants and `is_monotonic` -/


theorem rangesAt_spec (o : Option K) (h : ∀ s, o = some s → 0 < s ∧ s < 1) :
    Chain 0 (Quad.rangesAt o) 1 ∧
    ∀ r ∈ Quad.rangesAt o, 0 ≤ r.1 ∧ r.1 < r.2 ∧ r.2 ≤ 1 ∧ ∀ s, o = some s → s ≤ r.1 ∨ r.2 ≤ s := by
  rcases o with _ | t
  · simp only [Quad.rangesAt, Chain, Scalar.zero, Scalar.one, sc_zero, sc_one]
    refine ⟨⟨trivial, by norm_num, trivial⟩, ?_⟩
    intro r hr
    simp only [List.mem_singleton] at hr
    subst hr
    exact ⟨le_refl _, by norm_num, le_refl _, fun s hs => by cases hs⟩
  · obtain ⟨p0, p1⟩ := h t rfl
    simp only [Quad.rangesAt, Chain, Scalar.zero, Scalar.one, sc_zero, sc_one]
    refine ⟨⟨trivial, p0, trivial, p1, trivial⟩, ?_⟩
    intro r hr
    simp only [List.mem_cons, List.mem_singleton, List.not_mem_nil, or_false] at hr
    rcases hr with rfl | rfl
    · exact ⟨le_refl _, p0, le_of_lt p1, fun s hs => by cases hs; right; exact le_refl _⟩
    · exact ⟨le_of_lt p0, p1, le_refl _, fun s hs => by cases hs; left; exact le_refl _⟩


theorem quad_ext {p q : Quad K} (ha : p.a = q.a) (hc : p.c = q.c) (hb : p.b = q.b) : p = q := by
  cases p; cases q; simp_all


/-- `split(t)` and `split_range(0..t)`, `split_range(t..1)` are the same curves -/
theorem quad_split_eq_splitRange (q : Quad K) (t : K) :
    (q.split t).1 = q.splitRange 0 t ∧ (q.split t).2 = q.splitRange t 1 := by
  constructor <;> apply quad_ext <;> geom_ring


section arc

variable [Transc K]


/-- `2π` as `Angle::positive` computes it -/
abbrev tau : K := Transc.pi + Transc.pi


/-- the laws of `Angle::positive` (i.e. of `fmod` by `2π`) that the arc theorems use -/
structure AngleLaws (K : Type) [Field K] [LinearOrder K] [IsStrictOrderedRing K] [Transc K] : Prop where
  pi_gt : (3 : K) < Transc.pi
  pi_lt : Transc.pi < (4 : K)
  range : ∀ x : K, 0 ≤ Arc.positive x ∧ Arc.positive x < tau
  cong : ∀ x : K, ∃ k : ℤ, Arc.positive x = x + k * tau


theorem emin_eq (x y : K) : emin x y = min x y := by
  unfold emin; split_ifs with h
  · exact (min_eq_left h).symm
  · exact (min_eq_right (le_of_lt (not_le.1 h))).symm

theorem emax_eq (x y : K) : emax x y = max x y := by
  unfold emax; split_ifs with h
  · exact (max_eq_left h).symm
  · exact (max_eq_right (le_of_lt (not_le.1 h))).symm


theorem grow_eq (b : Box K) (p : P K) :
    b.grow p = ⟨⟨min p.x b.min.x, min p.y b.min.y⟩, ⟨max p.x b.max.x, max p.y b.max.y⟩⟩ := by
  unfold Box.grow
  congr 1
  · congr 1 <;> (split_ifs with h <;> simp [min_def, le_of_lt, h, not_le.2, not_lt.1])
  · congr 1 <;> (split_ifs with h <;> simp [max_def, le_of_lt, h, not_le.2, not_lt.1])


/-- the representative in `[0, 2π)` is unique -/
theorem positive_unique (L : AngleLaws K) (x y : K) (h0 : 0 ≤ y) (h1 : y < tau) (k : ℤ)
    (hy : y = x + k * tau) : Arc.positive x = y := by
  obtain ⟨k', hk'⟩ := L.cong x
  obtain ⟨r0, r1⟩ := L.range x
  have tpos : (0 : K) < tau := by have := L.pi_gt; unfold tau; linarith
  have e : y - Arc.positive x = ((k - k' : ℤ) : K) * tau := by rw [hy, hk']; push_cast; ring
  have hlt : |((k - k' : ℤ) : K)| < 1 := by
    have h2 : |y - Arc.positive x| < tau := by rw [abs_lt]; constructor <;> linarith
    rw [e, abs_mul, abs_of_pos tpos] at h2
    by_contra hc
    have := mul_le_mul_of_nonneg_right (not_lt.1 hc) (le_of_lt tpos)
    linarith
  have hz : k - k' = 0 := by
    have : |(k - k' : ℤ)| < 1 := by
      have h3 : ((|k - k'| : ℤ) : K) < ((1 : ℤ) : K) := by rw [Int.cast_abs, Int.cast_one]; exact hlt
      exact Int.cast_lt.1 h3
    exact Int.abs_lt_one_iff.1 this
  rw [hz] at e; simp only [Int.cast_zero, zero_mul] at e
  linarith


variable [Atan K]






end arc


theorem c1_ev (p0 p1 p2 p3 t : K) :
    Cubic1.ev p0 p1 p2 p3 t = p0*(1-t)^3 + 3*p1*(1-t)^2*t + 3*p2*(1-t)*t^2 + p3*t^3 := by
  geom_ring


theorem c1_ca (p0 p1 p2 p3 : K) : Cubic1.ca p0 p1 p2 p3 = 3 * (p3 + 3 * (p1 - p2) - p0) := by geom_ring

theorem c1_cb (p0 p1 p2 : K) : Cubic1.cb p0 p1 p2 = 6 * (p2 - 2 * p1 + p0) := by geom_ring

theorem c1_cc (p0 p1 : K) : Cubic1.cc p0 p1 = 3 * (p1 - p0) := by geom_ring


/-- the coefficients lyon computes are those of the derivative: `x'(t) = a t² + b t + c` -/
theorem cubic_dx_eq (c : Cubic K) (t : K) :
    c.dx t = Cubic1.ca c.a.x c.c1.x c.c2.x c.b.x * t^2 + Cubic1.cb c.a.x c.c1.x c.c2.x * t + Cubic1.cc c.a.x c.c1.x := by
  rw [c1_ca, c1_cb, c1_cc]; geom_ring

theorem cubic_dy_eq (c : Cubic K) (t : K) :
    c.dy t = Cubic1.ca c.a.y c.c1.y c.c2.y c.b.y * t^2 + Cubic1.cb c.a.y c.c1.y c.c2.y * t + Cubic1.cc c.a.y c.c1.y := by
  rw [c1_ca, c1_cb, c1_cc]; geom_ring

theorem cubic_sample_x (c : Cubic K) (t : K) : (c.sample t).x = Cubic1.ev c.a.x c.c1.x c.c2.x c.b.x t := by
  geom_ring

theorem cubic_sample_y (c : Cubic K) (t : K) : (c.sample t).y = Cubic1.ev c.a.y c.c1.y c.c2.y c.b.y t := by
  geom_ring

theorem cubic_x_eq (c : Cubic K) (t : K) : c.x t = Cubic1.ev c.a.x c.c1.x c.c2.x c.b.x t := rfl

theorem cubic_y_eq (c : Cubic K) (t : K) : c.y t = Cubic1.ev c.a.y c.c1.y c.c2.y c.b.y t := rfl


/-- Bernstein / convex-hull bound for one coordinate of a cubic -/
theorem c1_fast_range_contains (p0 p1 p2 p3 t : K) (h0 : 0 ≤ t) (h1 : t ≤ 1) :
    (Cubic1.fastRange p0 p1 p2 p3).1 ≤ Cubic1.ev p0 p1 p2 p3 t ∧
    Cubic1.ev p0 p1 p2 p3 t ≤ (Cubic1.fastRange p0 p1 p2 p3).2 := by
  simp only [Cubic1.fastRange, sc_min, sc_max]
  have u : 0 ≤ 1 - t := by linarith
  have w0 : 0 ≤ (1 - t) ^ 3 := pow_nonneg u 3
  have w1 : 0 ≤ 3 * (1 - t) ^ 2 * t := mul_nonneg (mul_nonneg (by norm_num) (pow_nonneg u 2)) h0
  have w2 : 0 ≤ 3 * (1 - t) * t ^ 2 := mul_nonneg (mul_nonneg (by norm_num) u) (pow_nonneg h0 2)
  have w3 : 0 ≤ t ^ 3 := pow_nonneg h0 3
  have e : ∀ m : K, Cubic1.ev p0 p1 p2 p3 t - m =
      (p0 - m) * (1 - t)^3 + (p1 - m) * (3 * (1 - t)^2 * t) + (p2 - m) * (3 * (1 - t) * t^2) + (p3 - m) * t^3 := by
    intro m; rw [c1_ev]; ring
  constructor
  · have h0' : min (min (min p0 p1) p2) p3 ≤ p0 :=
      le_trans (min_le_left _ _) (le_trans (min_le_left _ _) (min_le_left _ _))
    have h1' : min (min (min p0 p1) p2) p3 ≤ p1 :=
      le_trans (min_le_left _ _) (le_trans (min_le_left _ _) (min_le_right _ _))
    have h2' : min (min (min p0 p1) p2) p3 ≤ p2 := le_trans (min_le_left _ _) (min_le_right _ _)
    have h3' : min (min (min p0 p1) p2) p3 ≤ p3 := min_le_right _ _
    have := e (min (min (min p0 p1) p2) p3)
    have q0 := mul_nonneg (sub_nonneg.2 h0') w0
    have q1 := mul_nonneg (sub_nonneg.2 h1') w1
    have q2 := mul_nonneg (sub_nonneg.2 h2') w2
    have q3 := mul_nonneg (sub_nonneg.2 h3') w3
    linarith
  · have h0' : p0 ≤ max (max (max p0 p1) p2) p3 :=
      le_trans (le_trans (le_max_left _ _) (le_max_left _ _)) (le_max_left _ _)
    have h1' : p1 ≤ max (max (max p0 p1) p2) p3 :=
      le_trans (le_trans (le_max_right _ _) (le_max_left _ _)) (le_max_left _ _)
    have h2' : p2 ≤ max (max (max p0 p1) p2) p3 := le_trans (le_max_right _ _) (le_max_left _ _)
    have h3' : p3 ≤ max (max (max p0 p1) p2) p3 := le_max_right _ _
    have := e (max (max (max p0 p1) p2) p3)
    have q0 := mul_nonneg (sub_nonneg.2 h0') w0
    have q1 := mul_nonneg (sub_nonneg.2 h1') w1
    have q2 := mul_nonneg (sub_nonneg.2 h2') w2
    have q3 := mul_nonneg (sub_nonneg.2 h3') w3
    linarith


section roots

variable [Transc K]


theorem mem_keep (t s : K) : s ∈ Cubic1.keep t ↔ s = t ∧ 0 < t ∧ t < 1 := by
  unfold Cubic1.keep
  simp only [Scalar.zero, Scalar.one, sc_zero, sc_one, gt_iff_lt]
  split_ifs with h
  · simp only [List.mem_singleton]; exact ⟨fun e => ⟨e, h⟩, fun e => e.1⟩
  · simp only [List.not_mem_nil, false_iff]; intro e; exact h e.2


/-- raw membership in the two-root branch -/
theorem mem_twoRoots_raw (a b c s t : K) :
    t ∈ Cubic1.twoRoots a b c s ↔
      (t = Cubic1.rootQ b s / a ∨ t = c / Cubic1.rootQ b s) ∧ 0 < t ∧ t < 1 := by
  unfold Cubic1.twoRoots
  split_ifs <;> simp only [List.mem_append, mem_keep] <;> constructor
  · rintro (⟨rfl, h⟩ | ⟨rfl, h⟩)
    · exact ⟨Or.inr rfl, h⟩
    · exact ⟨Or.inl rfl, h⟩
  · rintro ⟨rfl | rfl, h⟩
    · exact Or.inr ⟨rfl, h⟩
    · exact Or.inl ⟨rfl, h⟩
  · rintro (⟨rfl, h⟩ | ⟨rfl, h⟩)
    · exact ⟨Or.inl rfl, h⟩
    · exact ⟨Or.inr rfl, h⟩
  · rintro ⟨rfl | rfl, h⟩
    · exact Or.inl ⟨rfl, h⟩
    · exact Or.inr ⟨rfl, h⟩

/-- over a field `signum` is `-1` on negatives and `1` elsewhere -/
theorem signum_field (b : K) : Cubic1.signum b = if b < 0 then -1 else 1 := by
  unfold Cubic1.signum
  simp only [Scalar.zero, Scalar.one, sc_zero, sc_one, sc_beq]
  split_ifs with h1 h2
  · rfl
  · exfalso; rw [h2.1, div_zero] at h2; exact lt_irrefl _ h2.2
  · rfl

/-- **The repaired root form gives the same two roots.**  With `s·s = b² − 4ac`, `s > 0`, `a ≠ 0`:
`q = −(b + sgn(b)·s)/2 ≠ 0` and `{q/a, c/q} = {(−b−s)/(2a), (−b+s)/(2a)}`. -/
theorem rootQ_roots (a b c s : K) (ha : a ≠ 0) (hs : s * s = b * b - 4 * a * c) (hpos : 0 < s) :
    Cubic1.rootQ b s ≠ 0 ∧
    ((Cubic1.rootQ b s / a = (-b - s) / (2 * a) ∧ c / Cubic1.rootQ b s = (-b + s) / (2 * a)) ∨
     (Cubic1.rootQ b s / a = (-b + s) / (2 * a) ∧ c / Cubic1.rootQ b s = (-b - s) / (2 * a))) := by
  have h2a : (2 * a) ≠ 0 := mul_ne_zero (by norm_num) ha
  unfold Cubic1.rootQ
  rw [signum_field]
  simp only [Scalar.two, sc_two]
  split_ifs with hb
  · -- b < 0: q = (-b + s)/2 > 0
    have hq : -(b + -1 * s) / 2 = (-b + s) / 2 := by ring
    rw [hq]
    have hq0 : (-b + s) / 2 ≠ 0 := by
      have : 0 < (-b + s) / 2 := by apply div_pos <;> linarith
      exact ne_of_gt this
    refine ⟨hq0, Or.inr ⟨?_, ?_⟩⟩
    · field_simp
    · rw [div_eq_div_iff hq0 h2a]; linear_combination (1/2 : K) * hs
  · have hb' : 0 ≤ b := not_lt.1 hb
    have hq : -(b + 1 * s) / 2 = (-b - s) / 2 := by ring
    rw [hq]
    have hq0 : (-b - s) / 2 ≠ 0 := by
      have : (-b - s) / 2 < 0 := by apply div_neg_of_neg_of_pos <;> linarith
      exact ne_of_lt this
    refine ⟨hq0, Or.inl ⟨?_, ?_⟩⟩
    · field_simp
    · rw [div_eq_div_iff hq0 h2a]; linear_combination (1/2 : K) * hs

theorem mem_twoRoots (a b c s t : K) (ha : a ≠ 0) (hs : s * s = b * b - 4 * a * c) (hpos : 0 < s) :
    t ∈ Cubic1.twoRoots a b c s ↔ (t = (-b - s) / (2 * a) ∨ t = (-b + s) / (2 * a)) ∧ 0 < t ∧ t < 1 := by
  rw [mem_twoRoots_raw]
  obtain ⟨_, ⟨e1, e2⟩ | ⟨e1, e2⟩⟩ := rootQ_roots a b c s ha hs hpos
  · rw [e1, e2]
  · rw [e1, e2]; constructor <;> rintro ⟨h | h, r⟩ <;> first | exact ⟨Or.inr h, r⟩ | exact ⟨Or.inl h, r⟩

/-- **The emitted parameters are exactly the roots of the derivative polynomial in `(0,1)`**
(for a derivative that is not identically zero), under the law `sqrt d · sqrt d = d` for `d ≥ 0`. -/
theorem c1_extremaOf_iff (hsq : ∀ d : K, 0 ≤ d → Transc.sqrt d * Transc.sqrt d = d)
    (hs0 : ∀ d : K, 0 ≤ d → 0 ≤ Transc.sqrt d)
    (a b c t : K) (hnz : a ≠ 0 ∨ b ≠ 0) :
    t ∈ Cubic1.extremaOf a b c ↔ (0 < t ∧ t < 1 ∧ a * t^2 + b * t + c = 0) := by
  unfold Cubic1.extremaOf
  simp only [sc_beq, bne_iff, Scalar.zero, Scalar.two, Scalar.four, sc_zero, sc_two, sc_four, Cubic1.disc]
  by_cases ha : a = 0
  · have hb : b ≠ 0 := by rcases hnz with h | h; exact absurd ha h; exact h
    rw [if_pos ha, if_pos hb, mem_keep]
    subst ha
    constructor
    · rintro ⟨rfl, h0, h1⟩; refine ⟨h0, h1, ?_⟩; field_simp; ring
    · rintro ⟨h0, h1, e⟩
      have : t = -c / b := by rw [eq_div_iff hb]; linear_combination e
      exact ⟨this, this ▸ h0, this ▸ h1⟩
  · rw [if_neg ha]
    have h2a : (2 * a) ≠ 0 := mul_ne_zero (by norm_num) ha
    -- completing the square: 4a (a t² + b t + c) = (2 a t + b)² - d
    have sqr : ∀ t : K, 4 * a * (a * t^2 + b * t + c) = (2 * a * t + b)^2 - (b * b - 4 * a * c) := by
      intro t; ring
    by_cases hd : b * b - 4 * a * c < 0
    · rw [if_pos hd]
      simp only [List.not_mem_nil, false_iff]
      rintro ⟨_, _, e⟩
      have := sqr t; rw [e, mul_zero] at this
      have : 0 ≤ (2 * a * t + b)^2 := sq_nonneg _
      linarith
    · rw [if_neg hd]
      by_cases hd0 : b * b - 4 * a * c = 0
      · rw [if_pos hd0, mem_keep]
        constructor
        · rintro ⟨rfl, h0, h1⟩
          refine ⟨h0, h1, ?_⟩
          have := sqr (-b / (2 * a))
          have e2 : 2 * a * (-b / (2 * a)) + b = 0 := by field_simp; ring
          rw [e2, hd0] at this
          have h4a : 4 * a ≠ 0 := mul_ne_zero (by norm_num) ha
          have : 4 * a * (a * (-b / (2 * a))^2 + b * (-b / (2 * a)) + c) = 0 := by rw [this]; ring
          exact (mul_eq_zero.1 this).resolve_left h4a
        · rintro ⟨h0, h1, e⟩
          have := sqr t; rw [e, mul_zero, hd0, sub_zero] at this
          have h3 : 2 * a * t + b = 0 := by
            have := this.symm; exact pow_eq_zero_iff (two_ne_zero) |>.1 this
          have : t = -b / (2 * a) := by rw [eq_div_iff h2a]; linear_combination h3
          exact ⟨this, this ▸ h0, this ▸ h1⟩
      · have hdn : 0 ≤ b * b - 4 * a * c := not_lt.1 hd
        have hs := hsq _ hdn
        have hspos : 0 < Transc.sqrt (b * b - 4 * a * c) := by
          rcases lt_or_eq_of_le (hs0 _ hdn) with h | h
          · exact h
          · exfalso; rw [← h, mul_zero] at hs; exact hd0 hs.symm
        rw [if_neg hd0, mem_twoRoots a b c _ t ha hs hspos]
        set s := Transc.sqrt (b * b - 4 * a * c) with hsdef
        constructor
        · rintro ⟨ht, h0, h1⟩
          refine ⟨h0, h1, ?_⟩
          have h4a : 4 * a ≠ 0 := mul_ne_zero (by norm_num) ha
          have key : (2 * a * t + b)^2 = s * s := by
            rcases ht with rfl | rfl
            · have : 2 * a * ((-b - s) / (2 * a)) + b = -s := by field_simp; ring
              rw [this]; ring
            · have : 2 * a * ((-b + s) / (2 * a)) + b = s := by field_simp; ring
              rw [this]; ring
          have := sqr t
          rw [key, hs, sub_self] at this
          exact (mul_eq_zero.1 this).resolve_left h4a
        · rintro ⟨h0, h1, e⟩
          refine ⟨?_, h0, h1⟩
          have := sqr t; rw [e, mul_zero] at this
          have key : (2 * a * t + b - s) * (2 * a * t + b + s) = 0 := by
            have : (2 * a * t + b)^2 = s * s := by rw [hs]; linarith
            linear_combination this
          rcases mul_eq_zero.1 key with h | h
          · right; rw [eq_div_iff h2a]; linear_combination h
          · left; rw [eq_div_iff h2a]; linear_combination h


/-- `for_each_local_{x,y}_extremum_t` emits its parameters in increasing order -/
theorem c1_extremaOf_sorted (a b c : K) : (Cubic1.extremaOf a b c).Pairwise (· ≤ ·) := by
  have hk : ∀ t : K, (Cubic1.keep t).Pairwise (· ≤ ·) := by
    intro t; unfold Cubic1.keep; split_ifs <;> simp
  unfold Cubic1.extremaOf
  split_ifs
  · exact hk _
  · exact List.Pairwise.nil
  · exact List.Pairwise.nil
  · exact hk _
  · unfold Cubic1.twoRoots
    split_ifs with h
    · rw [List.pairwise_append]
      refine ⟨hk _, hk _, ?_⟩
      intro x hx y hy
      rw [mem_keep] at hx hy
      rw [hx.1, hy.1]; exact le_of_lt h
    · rw [List.pairwise_append]
      refine ⟨hk _, hk _, ?_⟩
      intro x hx y hy
      rw [mem_keep] at hx hy
      rw [hx.1, hy.1]; exact not_lt.1 h


/-- every emitted parameter is interior -/
theorem c1_extremaOf_interior (a b c t : K) (h : t ∈ Cubic1.extremaOf a b c) : 0 < t ∧ t < 1 := by
  unfold Cubic1.extremaOf at h
  split_ifs at h
  · exact ((mem_keep _ _).1 h).1 ▸ ((mem_keep _ _).1 h).2
  · simp at h
  · simp at h
  · exact ((mem_keep _ _).1 h).1 ▸ ((mem_keep _ _).1 h).2
  · exact ((mem_twoRoots_raw _ _ _ _ _).1 h).2


end roots


/-! ### cubic: ranges partition `[0,1]` -/


section cubicranges

variable [Transc K]


theorem rangesAll_chain (l : List K) : ∀ t0 : K, (t0 :: l).Pairwise (· < ·) → (∀ t ∈ t0 :: l, t < 1) →
    Chain t0 (Cubic.rangesAll t0 l) 1 := by
  induction l with
  | nil =>
    intro t0 _ h1
    simp only [Cubic.rangesAll, Chain, Scalar.one, sc_one]
    exact ⟨trivial, h1 t0 (List.mem_singleton.2 rfl), trivial⟩
  | cons t r ih =>
    intro t0 hs h1
    simp only [Cubic.rangesAll, Chain]
    rw [List.pairwise_cons] at hs
    refine ⟨trivial, hs.1 t (List.mem_cons_self ..), ih t hs.2 (fun x hx => h1 x (List.mem_cons_of_mem _ hx))⟩


theorem rangesSkip_chain (l : List K) : ∀ t0 : K, (t0 :: l).Pairwise (· ≤ ·) → (∀ t ∈ t0 :: l, t < 1) →
    Chain t0 (Cubic.rangesSkip t0 l) 1 := by
  induction l with
  | nil =>
    intro t0 _ h1
    simp only [Cubic.rangesSkip, Chain, Scalar.one, sc_one]
    exact ⟨trivial, h1 t0 (List.mem_singleton.2 rfl), trivial⟩
  | cons t r ih =>
    intro t0 hs h1
    rw [List.pairwise_cons] at hs
    simp only [Cubic.rangesSkip, bne_iff]
    split_ifs with hne
    · simp only [Chain]
      exact ⟨trivial, lt_of_le_of_ne (hs.1 t (List.mem_cons_self ..)) (Ne.symm hne),
        ih t hs.2 (fun x hx => h1 x (List.mem_cons_of_mem _ hx))⟩
    · apply ih t0
      · rw [List.pairwise_cons]
        exact ⟨fun x hx => hs.1 x (List.mem_cons_of_mem _ hx), (List.pairwise_cons.1 hs.2).2⟩
      · intro x hx
        rcases List.mem_cons.1 hx with rfl | hx
        · exact h1 _ (List.mem_cons_self ..)
        · exact h1 x (List.mem_cons_of_mem _ (List.mem_cons_of_mem _ hx))


theorem mem_insertAsc (t x : K) (l : List K) : x ∈ Cubic.insertAsc t l ↔ x = t ∨ x ∈ l := by
  induction l with
  | nil => simp [Cubic.insertAsc]
  | cons h r ih =>
    simp only [Cubic.insertAsc]
    split_ifs
    · simp
    · simp only [List.mem_cons, ih]; tauto


theorem insertAsc_sorted (t : K) (l : List K) (hl : l.Pairwise (· ≤ ·)) :
    (Cubic.insertAsc t l).Pairwise (· ≤ ·) := by
  induction l with
  | nil => simp [Cubic.insertAsc]
  | cons h r ih =>
    rw [List.pairwise_cons] at hl
    simp only [Cubic.insertAsc]
    split_ifs with hlt
    · rw [List.pairwise_cons]
      refine ⟨?_, List.pairwise_cons.2 hl⟩
      intro x hx
      rcases List.mem_cons.1 hx with rfl | hx
      · exact le_of_lt hlt
      · exact le_trans (le_of_lt hlt) (hl.1 x hx)
    · rw [List.pairwise_cons]
      refine ⟨?_, ih hl.2⟩
      intro x hx
      rcases (mem_insertAsc t x r).1 hx with rfl | hx
      · exact not_lt.1 hlt
      · exact hl.1 x hx


theorem sortAsc_spec (l : List K) : (Cubic.sortAsc l).Pairwise (· ≤ ·) ∧ ∀ x, x ∈ Cubic.sortAsc l ↔ x ∈ l := by
  induction l with
  | nil => simp [Cubic.sortAsc]
  | cons h r ih =>
    have e : Cubic.sortAsc (h :: r) = Cubic.insertAsc h (Cubic.sortAsc r) := rfl
    rw [e]
    refine ⟨insertAsc_sorted h _ ih.1, fun x => ?_⟩
    rw [mem_insertAsc, ih.2, List.mem_cons]


/-- in the two-root branch the roots are distinct, so the emitted list is strictly increasing -/
theorem c1_extremaOf_strict (hsq : ∀ d : K, 0 ≤ d → Transc.sqrt d * Transc.sqrt d = d)
    (hs0 : ∀ d : K, 0 ≤ d → 0 ≤ Transc.sqrt d) (a b c : K) :
    (Cubic1.extremaOf a b c).Pairwise (· < ·) := by
  have hk : ∀ t : K, (Cubic1.keep t).Pairwise (· < ·) := by
    intro t; unfold Cubic1.keep; split_ifs <;> simp
  unfold Cubic1.extremaOf
  simp only [sc_beq, bne_iff, Scalar.zero, Scalar.two, Scalar.four, sc_zero, sc_two, sc_four, Cubic1.disc]
  split_ifs with ha hb hd hd0
  · exact hk _
  · exact List.Pairwise.nil
  · exact List.Pairwise.nil
  · exact hk _
  · have hdn := not_lt.1 hd
    have hs := hsq _ hdn
    have hspos : 0 < Transc.sqrt (b * b - 4 * a * c) := by
      rcases lt_or_eq_of_le (hs0 _ hdn) with h | h
      · exact h
      · exfalso; rw [← h, mul_zero] at hs; exact hd0 hs.symm
    have h2a : (2 * a) ≠ 0 := mul_ne_zero (by norm_num) ha
    have hne : Cubic1.rootQ b (Transc.sqrt (b * b - 4 * a * c)) / a ≠ c / Cubic1.rootQ b (Transc.sqrt (b * b - 4 * a * c)) := by
      intro h
      have hne' : (-b - Transc.sqrt (b * b - 4 * a * c)) / (2 * a) ≠ (-b + Transc.sqrt (b * b - 4 * a * c)) / (2 * a) := by
        intro h'
        rw [div_left_inj' h2a] at h'
        linarith
      obtain ⟨_, ⟨e1, e2⟩ | ⟨e1, e2⟩⟩ := rootQ_roots a b c _ ha hs hspos
      · rw [e1, e2] at h; exact hne' h
      · rw [e1, e2] at h; exact hne' h.symm
    unfold Cubic1.twoRoots
    split_ifs with h
    · rw [List.pairwise_append]
      refine ⟨hk _, hk _, ?_⟩
      intro x hx y hy
      rw [mem_keep] at hx hy
      rw [hx.1, hy.1]; exact h
    · rw [List.pairwise_append]
      refine ⟨hk _, hk _, ?_⟩
      intro x hx y hy
      rw [mem_keep] at hx hy
      rw [hx.1, hy.1]; exact lt_of_le_of_ne (not_lt.1 h) hne


/-! ### cubic: what the exact box is guaranteed to contain -/


theorem c1_ev0 (p0 p1 p2 p3 : K) : Cubic1.ev p0 p1 p2 p3 0 = p0 := by rw [c1_ev]; ring

theorem c1_ev1 (p0 p1 p2 p3 : K) : Cubic1.ev p0 p1 p2 p3 1 = p3 := by rw [c1_ev]; ring


theorem foldl_maxStep_spec (p0 p1 p2 p3 : K) (l : List K) : ∀ st : K × K,
    st.2 = Cubic1.ev p0 p1 p2 p3 st.1 →
    (l.foldl (Cubic1.maxStep p0 p1 p2 p3) st).2 = Cubic1.ev p0 p1 p2 p3 (l.foldl (Cubic1.maxStep p0 p1 p2 p3) st).1 ∧
    st.2 ≤ (l.foldl (Cubic1.maxStep p0 p1 p2 p3) st).2 ∧
    (∀ t ∈ l, Cubic1.ev p0 p1 p2 p3 t ≤ (l.foldl (Cubic1.maxStep p0 p1 p2 p3) st).2) ∧
    ((l.foldl (Cubic1.maxStep p0 p1 p2 p3) st).1 = st.1 ∨ (l.foldl (Cubic1.maxStep p0 p1 p2 p3) st).1 ∈ l) := by
  induction l with
  | nil => intro st h; exact ⟨h, le_refl _, fun t ht => by simp at ht, Or.inl rfl⟩
  | cons t r ih =>
    intro st h
    simp only [List.foldl_cons]
    have hstep : (Cubic1.maxStep p0 p1 p2 p3 st t).2 = Cubic1.ev p0 p1 p2 p3 (Cubic1.maxStep p0 p1 p2 p3 st t).1 ∧
        st.2 ≤ (Cubic1.maxStep p0 p1 p2 p3 st t).2 ∧ Cubic1.ev p0 p1 p2 p3 t ≤ (Cubic1.maxStep p0 p1 p2 p3 st t).2 ∧
        ((Cubic1.maxStep p0 p1 p2 p3 st t).1 = st.1 ∨ (Cubic1.maxStep p0 p1 p2 p3 st t).1 = t) := by
      unfold Cubic1.maxStep
      split_ifs with hc
      · exact ⟨rfl, le_of_lt hc, le_refl _, Or.inr rfl⟩
      · exact ⟨h, le_refl _, not_lt.1 hc, Or.inl rfl⟩
    obtain ⟨i1, i2, i3, i4⟩ := ih _ hstep.1
    refine ⟨i1, le_trans hstep.2.1 i2, ?_, ?_⟩
    · intro x hx
      rcases List.mem_cons.1 hx with rfl | hx
      · exact le_trans hstep.2.2.1 i2
      · exact i3 x hx
    · rcases i4 with i4 | i4
      · rcases hstep.2.2.2 with e | e
        · left; rw [i4, e]
        · right; rw [i4, e]; exact List.mem_cons_self ..
      · right; exact List.mem_cons_of_mem _ i4


theorem foldl_minStep_spec (p0 p1 p2 p3 : K) (l : List K) : ∀ st : K × K,
    st.2 = Cubic1.ev p0 p1 p2 p3 st.1 →
    (l.foldl (Cubic1.minStep p0 p1 p2 p3) st).2 = Cubic1.ev p0 p1 p2 p3 (l.foldl (Cubic1.minStep p0 p1 p2 p3) st).1 ∧
    (l.foldl (Cubic1.minStep p0 p1 p2 p3) st).2 ≤ st.2 ∧
    (∀ t ∈ l, (l.foldl (Cubic1.minStep p0 p1 p2 p3) st).2 ≤ Cubic1.ev p0 p1 p2 p3 t) ∧
    ((l.foldl (Cubic1.minStep p0 p1 p2 p3) st).1 = st.1 ∨ (l.foldl (Cubic1.minStep p0 p1 p2 p3) st).1 ∈ l) := by
  induction l with
  | nil => intro st h; exact ⟨h, le_refl _, fun t ht => by simp at ht, Or.inl rfl⟩
  | cons t r ih =>
    intro st h
    simp only [List.foldl_cons]
    have hstep : (Cubic1.minStep p0 p1 p2 p3 st t).2 = Cubic1.ev p0 p1 p2 p3 (Cubic1.minStep p0 p1 p2 p3 st t).1 ∧
        (Cubic1.minStep p0 p1 p2 p3 st t).2 ≤ st.2 ∧ (Cubic1.minStep p0 p1 p2 p3 st t).2 ≤ Cubic1.ev p0 p1 p2 p3 t ∧
        ((Cubic1.minStep p0 p1 p2 p3 st t).1 = st.1 ∨ (Cubic1.minStep p0 p1 p2 p3 st t).1 = t) := by
      unfold Cubic1.minStep
      split_ifs with hc
      · exact ⟨rfl, le_of_lt hc, le_refl _, Or.inr rfl⟩
      · exact ⟨h, le_refl _, not_lt.1 hc, Or.inl rfl⟩
    obtain ⟨i1, i2, i3, i4⟩ := ih _ hstep.1
    refine ⟨i1, le_trans i2 hstep.2.1, ?_, ?_⟩
    · intro x hx
      rcases List.mem_cons.1 hx with rfl | hx
      · exact le_trans i2 hstep.2.2.1
      · exact i3 x hx
    · rcases i4 with i4 | i4
      · rcases hstep.2.2.2 with e | e
        · left; rw [i4, e]
        · right; rw [i4, e]; exact List.mem_cons_self ..
      · right; exact List.mem_cons_of_mem _ i4


/-- one coordinate: the reported maximum/minimum parameters lie in `[0,1]`, the values there
bound both end values and the values at all reported critical parameters -/
theorem c1_range_partial (p0 p1 p2 p3 : K) :
    (0 ≤ Cubic1.maxT p0 p1 p2 p3 ∧ Cubic1.maxT p0 p1 p2 p3 ≤ 1) ∧
    (0 ≤ Cubic1.minT p0 p1 p2 p3 ∧ Cubic1.minT p0 p1 p2 p3 ≤ 1) ∧
    (∀ t, (t = 0 ∨ t = 1 ∨ t ∈ Cubic1.localExtrema p0 p1 p2 p3) →
      (Cubic1.range p0 p1 p2 p3).1 ≤ Cubic1.ev p0 p1 p2 p3 t ∧
      Cubic1.ev p0 p1 p2 p3 t ≤ (Cubic1.range p0 p1 p2 p3).2) := by
  have hmax0 : (Cubic1.maxInit p0 p3).2 = Cubic1.ev p0 p1 p2 p3 (Cubic1.maxInit p0 p3).1 ∧
      p0 ≤ (Cubic1.maxInit p0 p3).2 ∧ p3 ≤ (Cubic1.maxInit p0 p3).2 ∧
      ((Cubic1.maxInit p0 p3).1 = 0 ∨ (Cubic1.maxInit p0 p3).1 = 1) := by
    unfold Cubic1.maxInit
    simp only [Scalar.zero, Scalar.one, sc_zero, sc_one]
    split_ifs with h
    · exact ⟨(c1_ev1 ..).symm, le_of_lt h, le_refl _, Or.inr rfl⟩
    · exact ⟨(c1_ev0 ..).symm, le_refl _, not_lt.1 h, Or.inl rfl⟩
  have hmin0 : (Cubic1.minInit p0 p3).2 = Cubic1.ev p0 p1 p2 p3 (Cubic1.minInit p0 p3).1 ∧
      (Cubic1.minInit p0 p3).2 ≤ p0 ∧ (Cubic1.minInit p0 p3).2 ≤ p3 ∧
      ((Cubic1.minInit p0 p3).1 = 0 ∨ (Cubic1.minInit p0 p3).1 = 1) := by
    unfold Cubic1.minInit
    simp only [Scalar.zero, Scalar.one, sc_zero, sc_one]
    split_ifs with h
    · exact ⟨(c1_ev1 ..).symm, le_of_lt h, le_refl _, Or.inr rfl⟩
    · exact ⟨(c1_ev0 ..).symm, le_refl _, not_lt.1 h, Or.inl rfl⟩
  obtain ⟨a1, a2, a3, a4⟩ := foldl_maxStep_spec p0 p1 p2 p3 (Cubic1.localExtrema p0 p1 p2 p3) _ hmax0.1
  obtain ⟨b1, b2, b3, b4⟩ := foldl_minStep_spec p0 p1 p2 p3 (Cubic1.localExtrema p0 p1 p2 p3) _ hmin0.1
  have unit : ∀ s : K, (s = 0 ∨ s = 1) ∨ s ∈ Cubic1.localExtrema p0 p1 p2 p3 → 0 ≤ s ∧ s ≤ 1 := by
    intro s hs
    rcases hs with (rfl | rfl) | hs
    · exact ⟨le_refl _, by norm_num⟩
    · exact ⟨by norm_num, le_refl _⟩
    · have := c1_extremaOf_interior _ _ _ s hs; exact ⟨le_of_lt this.1, le_of_lt this.2⟩
  refine ⟨?_, ?_, ?_⟩
  · unfold Cubic1.maxT
    apply unit
    rcases a4 with e | e
    · left; rw [e]; exact hmax0.2.2.2
    · right; exact e
  · unfold Cubic1.minT
    apply unit
    rcases b4 with e | e
    · left; rw [e]; exact hmin0.2.2.2
    · right; exact e
  · intro t ht
    unfold Cubic1.range Cubic1.maxT Cubic1.minT
    simp only
    rw [← a1, ← b1]
    rcases ht with rfl | rfl | ht
    · rw [c1_ev0]; exact ⟨le_trans b2 hmin0.2.1, le_trans hmax0.2.1 a2⟩
    · rw [c1_ev1]; exact ⟨le_trans b2 hmin0.2.2.1, le_trans hmax0.2.2.1 a2⟩
    · exact ⟨b3 t ht, a3 t ht⟩




end cubicranges


/-! ### cubic: sign of the derivative between critical points, monotonicity, exact range -/

section cubicsign
variable [Transc K]

/-- the derivative polynomial `a x² + b x + c` -/
def cg (a b c x : K) : K := a * x^2 + b * x + c

theorem between_of_prod_neg {u v r : K} (huv : u < v) (h : (u - r) * (v - r) < 0) : u < r ∧ r < v := by
  rcases mul_neg_iff.1 h with ⟨h1, h2⟩ | ⟨h1, h2⟩
  · exfalso; linarith
  · exact ⟨by linarith, by linarith⟩

/-- intermediate value property of a quadratic, by the root formula (`sqrt d · sqrt d = d`) -/
theorem quad_ivt (hsq : ∀ d : K, 0 ≤ d → Transc.sqrt d * Transc.sqrt d = d)
    (a b c u v : K) (huv : u < v) (h : cg a b c u * cg a b c v < 0) :
    ∃ r, u < r ∧ r < v ∧ cg a b c r = 0 := by
  by_cases ha : a = 0
  · subst ha
    have e : ∀ x, cg 0 b c x = b * x + c := by intro x; unfold cg; ring
    rw [e, e] at h
    have hb : b ≠ 0 := by
      rintro rfl
      have : 0 ≤ (0 * u + c) * (0 * v + c) := by
        have : (0 * u + c) * (0 * v + c) = c * c := by ring
        rw [this]; exact mul_self_nonneg c
      linarith
    obtain ⟨r, er⟩ : ∃ r : K, b * r = -c := ⟨-c / b, by field_simp⟩
    refine ⟨r, ?_⟩
    have hp : (b * u + c) * (b * v + c) = (b * b) * ((u - r) * (v - r)) := by
      linear_combination (b * u + b * v - b * r + c) * er
    have hbb : 0 < b * b := mul_self_pos.2 hb
    have hneg : (u - r) * (v - r) < 0 := by
      by_contra hc
      have := mul_nonneg (le_of_lt hbb) (not_lt.1 hc)
      linarith
    obtain ⟨p, q⟩ := between_of_prod_neg huv hneg
    exact ⟨p, q, by rw [e]; linarith⟩
  · have h4a : 4 * a ≠ 0 := mul_ne_zero (by norm_num) ha
    have h2a : 2 * a ≠ 0 := mul_ne_zero (by norm_num) ha
    have sqr : ∀ x : K, 4 * a * cg a b c x = (2 * a * x + b)^2 - (b * b - 4 * a * c) := by
      intro x; unfold cg; ring
    have hd : 0 ≤ b * b - 4 * a * c := by
      by_contra hc
      have hc' : b * b - 4 * a * c < 0 := not_le.1 hc
      have p1 : 0 < 4 * a * cg a b c u := by rw [sqr]; nlinarith [sq_nonneg (2 * a * u + b)]
      have p2 : 0 < 4 * a * cg a b c v := by rw [sqr]; nlinarith [sq_nonneg (2 * a * v + b)]
      have : 0 < (4 * a * cg a b c u) * (4 * a * cg a b c v) := mul_pos p1 p2
      have e : (4 * a * cg a b c u) * (4 * a * cg a b c v) = (4 * a) * (4 * a) * (cg a b c u * cg a b c v) := by ring
      have : (4 * a) * (4 * a) * (cg a b c u * cg a b c v) < 0 :=
        mul_neg_of_pos_of_neg (mul_self_pos.2 h4a) h
      linarith
    have hs := hsq _ hd
    set s := Transc.sqrt (b * b - 4 * a * c) with hsdef
    obtain ⟨R1, hr1⟩ : ∃ R1 : K, 2 * a * R1 = -b - s := ⟨(-b - s) / (2 * a), by field_simp⟩
    obtain ⟨R2, hr2⟩ : ∃ R2 : K, 2 * a * R2 = -b + s := ⟨(-b + s) / (2 * a), by field_simp⟩
    have fac : ∀ x : K, 4 * a * cg a b c x = (2 * a) * (2 * a) * ((x - R1) * (x - R2)) := by
      intro x
      rw [sqr]
      linear_combination hs + (2 * a * x - 2 * a * R2) * hr1 + (2 * a * x + b + s) * hr2
    have root1 : cg a b c R1 = 0 := by
      have := fac R1; rw [sub_self, zero_mul, mul_zero] at this
      exact (mul_eq_zero.1 this).resolve_left h4a
    have root2 : cg a b c R2 = 0 := by
      have := fac R2; rw [sub_self, mul_zero, mul_zero] at this
      exact (mul_eq_zero.1 this).resolve_left h4a
    have hprod : ((u - R1) * (v - R1)) * ((u - R2) * (v - R2)) < 0 := by
      have e : (4 * a * cg a b c u) * (4 * a * cg a b c v) =
          ((2 * a) * (2 * a)) * ((2 * a) * (2 * a)) * (((u - R1) * (v - R1)) * ((u - R2) * (v - R2))) := by
        rw [fac u, fac v]; ring
      have e2 : (4 * a * cg a b c u) * (4 * a * cg a b c v) = (4 * a) * (4 * a) * (cg a b c u * cg a b c v) := by ring
      have neg : (4 * a * cg a b c u) * (4 * a * cg a b c v) < 0 := by
        rw [e2]; exact mul_neg_of_pos_of_neg (mul_self_pos.2 h4a) h
      have pos : 0 < ((2 * a) * (2 * a)) * ((2 * a) * (2 * a)) :=
        mul_pos (mul_self_pos.2 h2a) (mul_self_pos.2 h2a)
      by_contra hc
      have := mul_nonneg (le_of_lt pos) (not_lt.1 hc)
      rw [← e] at this
      linarith
    rcases mul_neg_iff.1 hprod with ⟨_, hn⟩ | ⟨hn, _⟩
    · obtain ⟨p, q⟩ := between_of_prod_neg huv hn
      exact ⟨_, p, q, root2⟩
    · obtain ⟨p, q⟩ := between_of_prod_neg huv hn
      exact ⟨_, p, q, root1⟩

/-- `g` keeps a weak sign on `[lo, hi]` -/
def SignConst (g : K → K) (lo hi : K) : Prop :=
  (∀ x, lo ≤ x → x ≤ hi → 0 ≤ g x) ∨ (∀ x, lo ≤ x → x ≤ hi → g x ≤ 0)

/-- between consecutive reported critical parameters the derivative keeps its sign -/
theorem cg_sign_const (hsq : ∀ d : K, 0 ≤ d → Transc.sqrt d * Transc.sqrt d = d)
    (hs0 : ∀ d : K, 0 ≤ d → 0 ≤ Transc.sqrt d)
    (a b c lo hi : K) (h0 : 0 ≤ lo) (h1 : hi ≤ 1)
    (h : ∀ t ∈ Cubic1.extremaOf a b c, t ≤ lo ∨ hi ≤ t) : SignConst (cg a b c) lo hi := by
  by_contra hn
  unfold SignConst at hn
  rw [not_or] at hn
  obtain ⟨hn1, hn2⟩ := hn
  simp only [not_forall, not_le] at hn1 hn2
  obtain ⟨x, hx0, hx1, gx⟩ := hn1
  obtain ⟨y, hy0, hy1, gy⟩ := hn2
  by_cases hnz : a ≠ 0 ∨ b ≠ 0
  · have root_in : ∀ r, lo < r → r < hi → cg a b c r = 0 → False := by
      intro r p q e
      have hm : r ∈ Cubic1.extremaOf a b c :=
        (c1_extremaOf_iff hsq hs0 a b c r hnz).2 ⟨by linarith, by linarith, e⟩
      rcases h r hm with k | k <;> linarith
    rcases lt_trichotomy x y with hxy | hxy | hxy
    · obtain ⟨r, p, q, e⟩ := quad_ivt hsq a b c x y hxy (mul_neg_of_neg_of_pos gx gy)
      exact root_in r (by linarith) (by linarith) e
    · rw [hxy] at gx; linarith
    · obtain ⟨r, p, q, e⟩ := quad_ivt hsq a b c y x hxy (mul_neg_of_pos_of_neg gy gx)
      exact root_in r (by linarith) (by linarith) e
  · rw [not_or, not_not, not_not] at hnz
    unfold cg at gx gy
    rw [hnz.1, hnz.2] at gx gy
    simp only [zero_mul, zero_add] at gx gy
    linarith

/-- Simpson's identity for one coordinate of a cubic: exact, because the derivative is quadratic -/
theorem c1_simpson (p0 p1 p2 p3 x y : K) :
    Cubic1.ev p0 p1 p2 p3 y - Cubic1.ev p0 p1 p2 p3 x =
      (y - x) / 6 * (cg (Cubic1.ca p0 p1 p2 p3) (Cubic1.cb p0 p1 p2) (Cubic1.cc p0 p1) x
        + 4 * cg (Cubic1.ca p0 p1 p2 p3) (Cubic1.cb p0 p1 p2) (Cubic1.cc p0 p1) ((x + y) / 2)
        + cg (Cubic1.ca p0 p1 p2 p3) (Cubic1.cb p0 p1 p2) (Cubic1.cc p0 p1) y) := by
  rw [c1_ev, c1_ev, c1_ca, c1_cb, c1_cc]; unfold cg; ring

theorem c1_mono_of_sign {p0 p1 p2 p3 lo hi : K}
    (h : SignConst (cg (Cubic1.ca p0 p1 p2 p3) (Cubic1.cb p0 p1 p2) (Cubic1.cc p0 p1)) lo hi) :
    MonoOn (Cubic1.ev p0 p1 p2 p3) lo hi := by
  rcases h with h | h
  · left; intro s u a1 a2 a3
    have e := c1_simpson p0 p1 p2 p3 s u
    have g1 := h s a1 (le_trans a2 a3)
    have g2 := h ((s + u) / 2) (by linarith) (by linarith)
    have g3 := h u (le_trans a1 a2) a3
    have : 0 ≤ (u - s) / 6 * (cg (Cubic1.ca p0 p1 p2 p3) (Cubic1.cb p0 p1 p2) (Cubic1.cc p0 p1) s
        + 4 * cg (Cubic1.ca p0 p1 p2 p3) (Cubic1.cb p0 p1 p2) (Cubic1.cc p0 p1) ((s + u) / 2)
        + cg (Cubic1.ca p0 p1 p2 p3) (Cubic1.cb p0 p1 p2) (Cubic1.cc p0 p1) u) :=
      mul_nonneg (by linarith) (by linarith)
    linarith
  · right; intro s u a1 a2 a3
    have e := c1_simpson p0 p1 p2 p3 s u
    have g1 := h s a1 (le_trans a2 a3)
    have g2 := h ((s + u) / 2) (by linarith) (by linarith)
    have g3 := h u (le_trans a1 a2) a3
    have : (u - s) / 6 * (cg (Cubic1.ca p0 p1 p2 p3) (Cubic1.cb p0 p1 p2) (Cubic1.cc p0 p1) s
        + 4 * cg (Cubic1.ca p0 p1 p2 p3) (Cubic1.cb p0 p1 p2) (Cubic1.cc p0 p1) ((s + u) / 2)
        + cg (Cubic1.ca p0 p1 p2 p3) (Cubic1.cb p0 p1 p2) (Cubic1.cc p0 p1) u) ≤ 0 :=
      mul_nonpos_of_nonneg_of_nonpos (by linarith) (by linarith)
    linarith

theorem c1_sign_const (hsq : ∀ d : K, 0 ≤ d → Transc.sqrt d * Transc.sqrt d = d)
    (hs0 : ∀ d : K, 0 ≤ d → 0 ≤ Transc.sqrt d)
    (p0 p1 p2 p3 lo hi : K) (h0 : 0 ≤ lo) (h1 : hi ≤ 1)
    (h : ∀ t ∈ Cubic1.localExtrema p0 p1 p2 p3, t ≤ lo ∨ hi ≤ t) :
    SignConst (cg (Cubic1.ca p0 p1 p2 p3) (Cubic1.cb p0 p1 p2) (Cubic1.cc p0 p1)) lo hi :=
  cg_sign_const hsq hs0 _ _ _ lo hi h0 h1 h

/-- one coordinate of a cubic is monotone on every sub-range of `[0,1]` without a reported
critical parameter in its interior -/
theorem c1_mono (hsq : ∀ d : K, 0 ≤ d → Transc.sqrt d * Transc.sqrt d = d)
    (hs0 : ∀ d : K, 0 ≤ d → 0 ≤ Transc.sqrt d)
    (p0 p1 p2 p3 lo hi : K) (h0 : 0 ≤ lo) (h1 : hi ≤ 1)
    (h : ∀ t ∈ Cubic1.localExtrema p0 p1 p2 p3, t ≤ lo ∨ hi ≤ t) :
    MonoOn (Cubic1.ev p0 p1 p2 p3) lo hi :=
  c1_mono_of_sign (c1_sign_const hsq hs0 p0 p1 p2 p3 lo hi h0 h1 h)

/-- the end-tangent clamp is the identity on a range where the derivative keeps its sign:
`ctrl1 = f(lo) + f'(lo)(hi−lo)/3`, `ctrl2 = f(hi) − f'(hi)(hi−lo)/3` -/
theorem c1_clamp_noop {p0 p1 p2 p3 lo hi : K} (hlh : lo ≤ hi)
    (h : SignConst (cg (Cubic1.ca p0 p1 p2 p3) (Cubic1.cb p0 p1 p2) (Cubic1.cc p0 p1)) lo hi) :
    Cubic.clampEnd1 (Cubic1.ev p0 p1 p2 p3 lo
        + cg (Cubic1.ca p0 p1 p2 p3) (Cubic1.cb p0 p1 p2) (Cubic1.cc p0 p1) lo / 3 * (hi - lo))
      (Cubic1.ev p0 p1 p2 p3 lo) (Cubic1.ev p0 p1 p2 p3 hi)
      = Cubic1.ev p0 p1 p2 p3 lo
        + cg (Cubic1.ca p0 p1 p2 p3) (Cubic1.cb p0 p1 p2) (Cubic1.cc p0 p1) lo / 3 * (hi - lo) ∧
    Cubic.clampEnd2 (Cubic1.ev p0 p1 p2 p3 hi
        - cg (Cubic1.ca p0 p1 p2 p3) (Cubic1.cb p0 p1 p2) (Cubic1.cc p0 p1) hi / 3 * (hi - lo))
      (Cubic1.ev p0 p1 p2 p3 lo) (Cubic1.ev p0 p1 p2 p3 hi)
      = Cubic1.ev p0 p1 p2 p3 hi
        - cg (Cubic1.ca p0 p1 p2 p3) (Cubic1.cb p0 p1 p2) (Cubic1.cc p0 p1) hi / 3 * (hi - lo) := by
  have e := c1_simpson p0 p1 p2 p3 lo hi
  set G := cg (Cubic1.ca p0 p1 p2 p3) (Cubic1.cb p0 p1 p2) (Cubic1.cc p0 p1) with hG
  set f := Cubic1.ev p0 p1 p2 p3 with hf
  have hd : 0 ≤ hi - lo := by linarith
  have hmid1 : lo ≤ (lo + hi) / 2 := by linarith
  have hmid2 : (lo + hi) / 2 ≤ hi := by linarith
  unfold Cubic.clampEnd1 Cubic.clampEnd2
  simp only [sc_min, sc_max, ge_iff_le]
  rcases h with h | h
  · have g1 := h lo (le_refl _) hlh
    have g2 := h _ hmid1 hmid2
    have g3 := h hi hlh (le_refl _)
    have t1 : 0 ≤ G lo / 3 * (hi - lo) := mul_nonneg (by linarith) hd
    have t3 : 0 ≤ G hi / 3 * (hi - lo) := mul_nonneg (by linarith) hd
    have up : f lo ≤ f hi := by
      have : 0 ≤ (hi - lo) / 6 * (G lo + 4 * G ((lo + hi) / 2) + G hi) := mul_nonneg (by linarith) (by linarith)
      linarith
    rw [if_pos up, if_pos up, max_eq_left (by linarith), min_eq_left (by linarith)]
    exact ⟨rfl, rfl⟩
  · have g1 := h lo (le_refl _) hlh
    have g2 := h _ hmid1 hmid2
    have g3 := h hi hlh (le_refl _)
    have t1 : G lo / 3 * (hi - lo) ≤ 0 := mul_nonpos_of_nonpos_of_nonneg (by linarith) hd
    have t3 : G hi / 3 * (hi - lo) ≤ 0 := mul_nonpos_of_nonpos_of_nonneg (by linarith) hd
    have m1 : (hi - lo) * G lo ≤ 0 := mul_nonpos_of_nonneg_of_nonpos hd g1
    have m2 : (hi - lo) * G ((lo + hi) / 2) ≤ 0 := mul_nonpos_of_nonneg_of_nonpos hd g2
    have m3 : (hi - lo) * G hi ≤ 0 := mul_nonpos_of_nonneg_of_nonpos hd g3
    have e' : f hi - f lo = ((hi - lo) * G lo + 4 * ((hi - lo) * G ((lo + hi) / 2)) + (hi - lo) * G hi) / 6 := by
      rw [e]; ring
    by_cases up : f lo ≤ f hi
    · -- then all three terms vanish
      have z1 : (hi - lo) * G lo = 0 := by linarith
      have z3 : (hi - lo) * G hi = 0 := by linarith
      have t1' : G lo / 3 * (hi - lo) = 0 := by linear_combination (1/3 : K) * z1
      have t3' : G hi / 3 * (hi - lo) = 0 := by linear_combination (1/3 : K) * z3
      have feq : f hi = f lo := by linarith
      rw [if_pos up, if_pos up, t1', t3', add_zero, sub_zero, max_self, min_self]
      exact ⟨rfl, rfl⟩
    · rw [if_neg up, if_neg up, min_eq_left (by linarith), max_eq_left (by linarith)]
      exact ⟨rfl, rfl⟩

/-- for `t ∈ [0,1]` there are neighbours `lo ≤ t ≤ hi` among `{0} ∪ L` resp. `L ∪ {1}` with no
element of `L` strictly between them -/
theorem exists_bracket (L : List K) (t : K) (h0 : 0 ≤ t) (h1 : t ≤ 1) :
    ∃ lo hi, (lo = 0 ∨ lo ∈ L) ∧ (hi = 1 ∨ hi ∈ L) ∧ lo ≤ t ∧ t ≤ hi ∧ ∀ r ∈ L, r ≤ lo ∨ hi ≤ r := by
  induction L with
  | nil => exact ⟨0, 1, Or.inl rfl, Or.inl rfl, h0, h1, fun r hr => by simp at hr⟩
  | cons x L ih =>
    obtain ⟨lo, hi, a1, a2, a3, a4, a5⟩ := ih
    by_cases hx : x ≤ t
    · refine ⟨max lo x, hi, ?_, ?_, max_le a3 hx, a4, ?_⟩
      · rcases le_total lo x with k | k
        · right; rw [max_eq_right k]; exact List.mem_cons_self ..
        · rw [max_eq_left k]; rcases a1 with a1 | a1
          · left; exact a1
          · right; exact List.mem_cons_of_mem _ a1
      · rcases a2 with a2 | a2
        · left; exact a2
        · right; exact List.mem_cons_of_mem _ a2
      · intro r hr
        rcases List.mem_cons.1 hr with rfl | hr
        · left; exact le_max_right _ _
        · rcases a5 r hr with k | k
          · left; exact le_trans k (le_max_left _ _)
          · right; exact k
    · have hx' : t ≤ x := le_of_lt (not_le.1 hx)
      refine ⟨lo, min hi x, ?_, ?_, a3, le_min a4 hx', ?_⟩
      · rcases a1 with a1 | a1
        · left; exact a1
        · right; exact List.mem_cons_of_mem _ a1
      · rcases le_total hi x with k | k
        · rw [min_eq_left k]; rcases a2 with a2 | a2
          · left; exact a2
          · right; exact List.mem_cons_of_mem _ a2
        · right; rw [min_eq_right k]; exact List.mem_cons_self ..
      · intro r hr
        rcases List.mem_cons.1 hr with rfl | hr
        · right; exact min_le_right _ _
        · rcases a5 r hr with k | k
          · left; exact k
          · right; exact le_trans (min_le_left _ _) k

/-- **exact range of one coordinate of a cubic contains the coordinate for every `t ∈ [0,1]`** -/
theorem c1_range_contains (hsq : ∀ d : K, 0 ≤ d → Transc.sqrt d * Transc.sqrt d = d)
    (hs0 : ∀ d : K, 0 ≤ d → 0 ≤ Transc.sqrt d)
    (p0 p1 p2 p3 t : K) (h0 : 0 ≤ t) (h1 : t ≤ 1) :
    (Cubic1.range p0 p1 p2 p3).1 ≤ Cubic1.ev p0 p1 p2 p3 t ∧
    Cubic1.ev p0 p1 p2 p3 t ≤ (Cubic1.range p0 p1 p2 p3).2 := by
  obtain ⟨lo, hi, a1, a2, a3, a4, a5⟩ := exists_bracket (Cubic1.localExtrema p0 p1 p2 p3) t h0 h1
  obtain ⟨_, _, hb⟩ := c1_range_partial p0 p1 p2 p3
  have lo0 : 0 ≤ lo := by
    rcases a1 with rfl | a1
    · exact le_refl _
    · exact le_of_lt (c1_extremaOf_interior _ _ _ lo a1).1
  have hi1 : hi ≤ 1 := by
    rcases a2 with rfl | a2
    · exact le_refl _
    · exact le_of_lt (c1_extremaOf_interior _ _ _ hi a2).2
  have blo := hb lo (by rcases a1 with a1 | a1; exact Or.inl a1; exact Or.inr (Or.inr a1))
  have bhi := hb hi (by rcases a2 with a2 | a2; exact Or.inr (Or.inl a2); exact Or.inr (Or.inr a2))
  rcases c1_mono hsq hs0 p0 p1 p2 p3 lo hi lo0 hi1 a5 with m | m
  · have m1 := m lo t (le_refl _) a3 a4
    have m2 := m t hi a3 a4 (le_refl _)
    exact ⟨le_trans blo.1 m1, le_trans m2 bhi.2⟩
  · have m1 := m lo t (le_refl _) a3 a4
    have m2 := m t hi a3 a4 (le_refl _)
    exact ⟨le_trans bhi.1 m2, le_trans m1 blo.2⟩

/-- ranges produced by `rangesSkip` from an increasing list: inside `[t0,1]`, of positive length,
with no list element strictly inside -/
theorem rangesSkip_good (l : List K) : ∀ t0 : K, (t0 :: l).Pairwise (· ≤ ·) → (∀ t ∈ t0 :: l, t < 1) →
    ∀ r ∈ Cubic.rangesSkip t0 l, t0 ≤ r.1 ∧ r.1 < r.2 ∧ r.2 ≤ 1 ∧ ∀ x ∈ l, x ≤ r.1 ∨ r.2 ≤ x := by
  induction l with
  | nil =>
    intro t0 _ h1 r hr
    simp only [Cubic.rangesSkip, Scalar.one, sc_one, List.mem_singleton] at hr
    subst hr
    exact ⟨le_refl _, h1 t0 (List.mem_singleton.2 rfl), le_refl _, fun x hx => by simp at hx⟩
  | cons t rest ih =>
    intro t0 hs h1 r hr
    rw [List.pairwise_cons] at hs
    have ht0t : t0 ≤ t := hs.1 t (List.mem_cons_self ..)
    have hs2 := List.pairwise_cons.1 hs.2
    simp only [Cubic.rangesSkip, bne_iff] at hr
    split_ifs at hr with hne
    · rcases List.mem_cons.1 hr with rfl | hr
      · refine ⟨le_refl _, lt_of_le_of_ne ht0t (Ne.symm hne), le_of_lt (h1 t (List.mem_cons_of_mem _ (List.mem_cons_self ..))), ?_⟩
        intro x hx
        rcases List.mem_cons.1 hx with rfl | hx
        · right; exact le_refl _
        · right; exact hs2.1 x hx
      · obtain ⟨b1, b2, b3, b4⟩ := ih t hs.2 (fun x hx => h1 x (List.mem_cons_of_mem _ hx)) r hr
        refine ⟨le_trans ht0t b1, b2, b3, ?_⟩
        intro x hx
        rcases List.mem_cons.1 hx with rfl | hx
        · left; exact b1
        · exact b4 x hx
    · have hte : t = t0 := not_not.1 hne
      have hp : (t0 :: rest).Pairwise (· ≤ ·) := by
        rw [List.pairwise_cons]
        exact ⟨fun x hx => hs.1 x (List.mem_cons_of_mem _ hx), hs2.2⟩
      obtain ⟨b1, b2, b3, b4⟩ := ih t0 hp (fun x hx => by
        rcases List.mem_cons.1 hx with rfl | hx
        · exact h1 _ (List.mem_cons_self ..)
        · exact h1 x (List.mem_cons_of_mem _ (List.mem_cons_of_mem _ hx))) r hr
      refine ⟨b1, b2, b3, ?_⟩
      intro x hx
      rcases List.mem_cons.1 hx with rfl | hx
      · left; rw [hte]; exact b1
      · exact b4 x hx

theorem rangesAll_good (l : List K) : ∀ t0 : K, (t0 :: l).Pairwise (· < ·) → (∀ t ∈ t0 :: l, t < 1) →
    ∀ r ∈ Cubic.rangesAll t0 l, t0 ≤ r.1 ∧ r.1 < r.2 ∧ r.2 ≤ 1 ∧ ∀ x ∈ l, x ≤ r.1 ∨ r.2 ≤ x := by
  induction l with
  | nil =>
    intro t0 _ h1 r hr
    simp only [Cubic.rangesAll, Scalar.one, sc_one, List.mem_singleton] at hr
    subst hr
    exact ⟨le_refl _, h1 t0 (List.mem_singleton.2 rfl), le_refl _, fun x hx => by simp at hx⟩
  | cons t rest ih =>
    intro t0 hs h1 r hr
    rw [List.pairwise_cons] at hs
    have ht0t : t0 < t := hs.1 t (List.mem_cons_self ..)
    have hs2 := List.pairwise_cons.1 hs.2
    simp only [Cubic.rangesAll] at hr
    rcases List.mem_cons.1 hr with rfl | hr
    · refine ⟨le_refl _, ht0t, le_of_lt (h1 t (List.mem_cons_of_mem _ (List.mem_cons_self ..))), ?_⟩
      intro x hx
      rcases List.mem_cons.1 hx with rfl | hx
      · right; exact le_refl _
      · right; exact le_of_lt (hs2.1 x hx)
    · obtain ⟨b1, b2, b3, b4⟩ := ih t hs.2 (fun x hx => h1 x (List.mem_cons_of_mem _ hx)) r hr
      refine ⟨le_trans (le_of_lt ht0t) b1, b2, b3, ?_⟩
      intro x hx
      rcases List.mem_cons.1 hx with rfl | hx
      · left; exact b1
      · exact b4 x hx

theorem cubic_ext {p q : Cubic K} (ha : p.a = q.a) (h1 : p.c1 = q.c1) (h2 : p.c2 = q.c2) (hb : p.b = q.b) :
    p = q := by
  cases p; cases q; simp_all

/-- control points of `split_range(lo..hi)` through the derivative polynomial -/
theorem cubic_splitRange_ctrl (c : Cubic K) (lo hi : K) :
    (c.splitRange lo hi).a = c.sample lo ∧ (c.splitRange lo hi).b = c.sample hi ∧
    (c.splitRange lo hi).c1.x = Cubic1.ev c.a.x c.c1.x c.c2.x c.b.x lo
      + cg (Cubic1.ca c.a.x c.c1.x c.c2.x c.b.x) (Cubic1.cb c.a.x c.c1.x c.c2.x) (Cubic1.cc c.a.x c.c1.x) lo / 3 * (hi - lo) ∧
    (c.splitRange lo hi).c2.x = Cubic1.ev c.a.x c.c1.x c.c2.x c.b.x hi
      - cg (Cubic1.ca c.a.x c.c1.x c.c2.x c.b.x) (Cubic1.cb c.a.x c.c1.x c.c2.x) (Cubic1.cc c.a.x c.c1.x) hi / 3 * (hi - lo) ∧
    (c.splitRange lo hi).c1.y = Cubic1.ev c.a.y c.c1.y c.c2.y c.b.y lo
      + cg (Cubic1.ca c.a.y c.c1.y c.c2.y c.b.y) (Cubic1.cb c.a.y c.c1.y c.c2.y) (Cubic1.cc c.a.y c.c1.y) lo / 3 * (hi - lo) ∧
    (c.splitRange lo hi).c2.y = Cubic1.ev c.a.y c.c1.y c.c2.y c.b.y hi
      - cg (Cubic1.ca c.a.y c.c1.y c.c2.y c.b.y) (Cubic1.cb c.a.y c.c1.y c.c2.y) (Cubic1.cc c.a.y c.c1.y) hi / 3 * (hi - lo) := by
  refine ⟨rfl, rfl, ?_, ?_, ?_, ?_⟩ <;> (simp only [cg, c1_ca, c1_cb, c1_cc, c1_ev]; geom_ring)

end cubicsign


/-! ### boxes from points, convex hull of four corners -/

section boxes
variable [Transc K]

theorem contains_mono {x b : Box K} {p : P K} (h1 : Box.Inside x b) (h2 : Box.Contains x p) :
    Box.Contains b p :=
  ⟨le_trans h1.1 h2.1, le_trans h2.2.1 h1.2.1, le_trans h1.2.2.1 h2.2.2.1, le_trans h2.2.2.2 h1.2.2.2⟩

theorem inside_refl (b : Box K) : Box.Inside b b := ⟨le_refl _, le_refl _, le_refl _, le_refl _⟩

theorem inside_trans' {a b c : Box K} (h1 : Box.Inside a b) (h2 : Box.Inside b c) : Box.Inside a c :=
  ⟨le_trans h2.1 h1.1, le_trans h1.2.1 h2.2.1, le_trans h2.2.2.1 h1.2.2.1, le_trans h1.2.2.2 h2.2.2.2⟩

/-- `Box2D::from_points`: the result contains the start box and every point -/
theorem foldl_grow_bounds (l : List (P K)) : ∀ b0 : Box K,
    Box.Inside b0 (l.foldl Box.grow b0) ∧ ∀ p ∈ l, Box.Contains (l.foldl Box.grow b0) p := by
  induction l with
  | nil => intro b0; exact ⟨inside_refl _, fun p hp => by simp at hp⟩
  | cons q r ih =>
    intro b0
    rw [List.foldl_cons]
    obtain ⟨i1, i2⟩ := ih (b0.grow q)
    have g1 : Box.Inside b0 (b0.grow q) := by
      rw [grow_eq]; exact ⟨min_le_right _ _, le_max_right _ _, min_le_right _ _, le_max_right _ _⟩
    have g2 : Box.Contains (b0.grow q) q := by
      rw [grow_eq]; exact ⟨min_le_left _ _, le_max_left _ _, min_le_left _ _, le_max_left _ _⟩
    refine ⟨inside_trans' g1 i1, fun p hp => ?_⟩
    rcases List.mem_cons.1 hp with rfl | hp
    · exact contains_mono i1 g2
    · exact i2 p hp

theorem fromPoints_contains (p0 : P K) (rest : List (P K)) :
    ∀ p ∈ p0 :: rest, Box.Contains (Box.fromPoints p0 rest) p := by
  intro p hp
  unfold Box.fromPoints
  obtain ⟨i1, i2⟩ := foldl_grow_bounds rest ⟨p0, p0⟩
  rcases List.mem_cons.1 hp with rfl | hp
  · exact contains_mono i1 ⟨le_refl _, le_refl _, le_refl _, le_refl _⟩
  · exact i2 p hp

/-- a value `u·A + v·B` with `|u|, |v| ≤ 1` lies between any bounds of the four corner values
`±A ± B` (bilinear interpolation weights `(1±u)(1±v)/4`) -/
theorem hull4 (u v A B m M : K) (hu : |u| ≤ 1) (hv : |v| ≤ 1)
    (h1 : m ≤ A + B ∧ A + B ≤ M) (h2 : m ≤ A - B ∧ A - B ≤ M)
    (h3 : m ≤ -A + B ∧ -A + B ≤ M) (h4 : m ≤ -A - B ∧ -A - B ≤ M) :
    m ≤ u * A + v * B ∧ u * A + v * B ≤ M := by
  obtain ⟨u0, u1⟩ := abs_le.1 hu
  obtain ⟨v0, v1⟩ := abs_le.1 hv
  have w1 : 0 ≤ (1 + u) * (1 + v) := mul_nonneg (by linarith) (by linarith)
  have w2 : 0 ≤ (1 + u) * (1 - v) := mul_nonneg (by linarith) (by linarith)
  have w3 : 0 ≤ (1 - u) * (1 + v) := mul_nonneg (by linarith) (by linarith)
  have w4 : 0 ≤ (1 - u) * (1 - v) := mul_nonneg (by linarith) (by linarith)
  constructor
  · have e : 4 * ((u * A + v * B) - m) = (1 + u) * (1 + v) * ((A + B) - m) + (1 + u) * (1 - v) * ((A - B) - m)
        + (1 - u) * (1 + v) * ((-A + B) - m) + (1 - u) * (1 - v) * ((-A - B) - m) := by ring
    have := mul_nonneg w1 (sub_nonneg.2 h1.1)
    have := mul_nonneg w2 (sub_nonneg.2 h2.1)
    have := mul_nonneg w3 (sub_nonneg.2 h3.1)
    have := mul_nonneg w4 (sub_nonneg.2 h4.1)
    linarith
  · have e : 4 * (M - (u * A + v * B)) = (1 + u) * (1 + v) * (M - (A + B)) + (1 + u) * (1 - v) * (M - (A - B))
        + (1 - u) * (1 + v) * (M - (-A + B)) + (1 - u) * (1 - v) * (M - (-A - B)) := by ring
    have := mul_nonneg w1 (sub_nonneg.2 h1.2)
    have := mul_nonneg w2 (sub_nonneg.2 h2.2)
    have := mul_nonneg w3 (sub_nonneg.2 h3.2)
    have := mul_nonneg w4 (sub_nonneg.2 h4.2)
    linarith


end boxes

theorem minMax_eq (a b : K) : minMax a b = (min a b, max a b) := by
  unfold minMax
  split_ifs with h
  · rw [min_eq_left (le_of_lt h), max_eq_right (le_of_lt h)]
  · rw [min_eq_right (not_lt.1 h), max_eq_left (not_lt.1 h)]


section aabb

variable [Transc K]


/-- smallest box containing both -/
def boxJoin (a b : Box K) : Box K :=
  ⟨⟨min a.min.x b.min.x, min a.min.y b.min.y⟩, ⟨max a.max.x b.max.x, max a.max.y b.max.y⟩⟩


/-- the box an event contributes to `aabb::bounding_box` -/
noncomputable def tightBox : PEv K → Option (Box K)
  | .begin p => some ⟨p, p⟩
  | .line _ p => some ⟨p, p⟩
  | .quad f c p => some (Quad.boundingBox ⟨f, c, p⟩)
  | .cubic f c1 c2 p => some (Cubic.boundingBox ⟨f, c1, c2, p⟩)
  | .end_ => none


theorem tightStep_eq (b : Box K) (e : PEv K) :
    Aabb.tightStep b e = match tightBox e with | none => b | some x => boxJoin b x := by
  cases e <;> simp only [Aabb.tightStep, tightBox, boxJoin, P.pmin, P.pmax, emin_eq, emax_eq]


theorem join_right_comm (b x y : Box K) : boxJoin (boxJoin b x) y = boxJoin (boxJoin b y) x := by
  simp only [boxJoin, Box.mk.injEq, P.mk.injEq]
  refine ⟨⟨?_, ?_⟩, ⟨?_, ?_⟩⟩ <;> first | exact min_right_comm _ _ _ | exact max_right_comm _ _ _


theorem join_inside_left (b x : Box K) : Box.Inside b (boxJoin b x) :=
  ⟨min_le_left _ _, le_max_left _ _, min_le_left _ _, le_max_left _ _⟩

theorem join_inside_right (b x : Box K) : Box.Inside x (boxJoin b x) :=
  ⟨min_le_right _ _, le_max_right _ _, min_le_right _ _, le_max_right _ _⟩

theorem inside_trans {a b c : Box K} (h1 : Box.Inside a b) (h2 : Box.Inside b c) : Box.Inside a c :=
  ⟨le_trans h2.1 h1.1, le_trans h1.2.1 h2.2.1, le_trans h2.2.2.1 h1.2.2.1, le_trans h1.2.2.2 h2.2.2.2⟩


theorem foldl_join_inside (l : List (Box K)) : ∀ b0 : Box K,
    Box.Inside b0 (l.foldl boxJoin b0) ∧ ∀ x ∈ l, Box.Inside x (l.foldl boxJoin b0) := by
  induction l with
  | nil => intro b0; exact ⟨⟨le_refl _, le_refl _, le_refl _, le_refl _⟩, fun x hx => by simp at hx⟩
  | cons y r ih =>
    intro b0
    rw [List.foldl_cons]
    obtain ⟨i1, i2⟩ := ih (boxJoin b0 y)
    refine ⟨inside_trans (join_inside_left b0 y) i1, fun x hx => ?_⟩
    rcases List.mem_cons.1 hx with rfl | hx
    · exact inside_trans (join_inside_right b0 x) i1
    · exact i2 x hx


/-- the event list as `Path::iter` yields it: inside a sub-path every segment starts at the
current point (`cur`), `begin` sets it -/
def WellFormed : Option (P K) → List (PEv K) → Prop
  | _, [] => True
  | _, PEv.begin p :: r => WellFormed (some p) r
  | some q, PEv.line f p :: r => f = q ∧ WellFormed (some p) r
  | some q, PEv.quad f _ p :: r => f = q ∧ WellFormed (some p) r
  | some q, PEv.cubic f _ _ p :: r => f = q ∧ WellFormed (some p) r
  | cur, PEv.end_ :: r => WellFormed cur r
  | none, PEv.line _ _ :: _ => False
  | none, PEv.quad _ _ _ :: _ => False
  | none, PEv.cubic _ _ _ _ :: _ => False

end aabb


/-- a toy `Transc ℚ` (π := 22/7, `fmod x y := x − y⌊x/y⌋`, every other function constant 0 except
`cos := 1`‑free placeholders): enough to show that `AngleLaws` and the `sqrt` law are satisfiable
together with the side conditions of the witnesses -/
def toyTransc : Transc ℚ where
  sqrt := fun x => if x = 4 then 2 else 0
  cbrt := fun _ => 0
  sin := fun _ => 0
  cos := fun x => if x = 0 then 1 else 0
  tan := fun _ => 0
  acos := fun _ => 0
  atan2 := fun _ _ => 0
  pow := fun _ _ => 0
  log2 := fun _ => 0
  ln := fun _ => 0
  floor := fun x => x
  ceil := fun x => x
  toNat := fun _ => 0
  fmod := fun x y => x - y * (⌊x / y⌋ : ℚ)
  eps := 0
  pi := 22/7
  isNaN := fun _ => false
  isFinite := fun _ => true


end Lyon.C11

