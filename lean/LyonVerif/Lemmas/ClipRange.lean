/-
  Range bookkeeping of the clipper model (`Model/Geom/Clip.lean`) over an ordered field: every
  parameter that any branch can report lies in [0,1] — roots are filtered to (0,1), extremal
  parameters are 0, 1 or filtered roots, sampled tenths and domain values are convex combinations
  of domain ends, clip values are interpolated between hull vertices with abscissae in [0,1].
  Helper lemmas only; the theorem for the whole recursion is in `Props/C12c.lean`.
-/
import LyonVerif.Lemmas.ClipHullCases

set_option linter.unusedSectionVars false
set_option linter.unusedVariables false
set_option linter.unusedSimpArgs false

namespace Lyon.Clip
open Lyon Scalar
variable {K : Type} [Field K] [LinearOrder K] [IsStrictOrderedRing K]

/-- `0 ≤ x ≤ 1` -/
def In01 (x : K) : Prop := 0 ≤ x ∧ x ≤ 1
/-- every pair of the list is in the unit square -/
def PairsIn01 (l : List (K × K)) : Prop := ∀ p ∈ l, In01 p.1 ∧ In01 p.2

theorem in01_zero : In01 (Scalar.zero : K) := by simp [In01, Scalar.zero]
theorem in01_one : In01 (Scalar.one : K) := by simp [In01, Scalar.one]
theorem pairsIn01_nil : PairsIn01 ([] : List (K × K)) := fun _ h => by cases h

theorem pairsIn01_append {l : List (K × K)} {a b : K} (hl : PairsIn01 l) (ha : In01 a) (hb : In01 b) :
    PairsIn01 (l ++ [(a, b)]) := by
  intro p hp
  rcases List.mem_append.mp hp with h | h
  · exact hl p h
  · rw [List.mem_singleton] at h; subst h; exact ⟨ha, hb⟩

/-! ### domains -/

theorem domainValueAtT_in01 {d : K × K} {t : K} (h1 : In01 d.1) (h2 : In01 d.2) (ht : In01 t) :
    In01 (domainValueAtT d t) := by
  unfold domainValueAtT In01 at *
  have e : d.1 + (d.2 - d.1) * t = (1 - t) * d.1 + t * d.2 := by ring
  rw [e]
  constructor
  · have := mul_nonneg (by linarith : 0 ≤ 1 - t) h1.1
    have := mul_nonneg ht.1 h2.1
    linarith
  · have := mul_le_mul_of_nonneg_left h1.2 (by linarith : 0 ≤ 1 - t)
    have := mul_le_mul_of_nonneg_left h2.2 ht.1
    linarith

theorem domMid_in01 {d : K × K} (h1 : In01 d.1) (h2 : In01 d.2) : In01 (domMid d) := by
  unfold domMid In01 at *
  have hh : (half : K) = 1 / 2 := sc_half
  rw [hh]
  constructor <;> linarith

/-! ### `add_intersection` -/

variable [Transc K] [Eps K]

theorem dedup_mem (t1 t2 : K) (o1 o2 : Cubic K) : ∀ (ixs l : List (K × K)),
    dedup t1 t2 o1 o2 ixs = some l → ∀ p ∈ l, p ∈ ixs ∨ p = (t1, t2)
  | [], l, h => by simp [dedup] at h
  | old :: rest, l, h => by
    rw [dedup] at h
    split_ifs at h with hc hd
    · cases h
      intro p hp
      rcases List.mem_cons.mp hp with h | h
      · exact Or.inr h
      · exact Or.inl (List.mem_cons_of_mem _ h)
    · cases h
      intro p hp; exact Or.inl hp
    · cases hr : dedup t1 t2 o1 o2 rest with
      | none => rw [hr] at h; cases h
      | some l' =>
        rw [hr] at h
        cases h
        intro p hp
        rcases List.mem_cons.mp hp with h | h
        · exact Or.inl (by rw [h]; exact List.mem_cons_self)
        · rcases dedup_mem t1 t2 o1 o2 rest l' hr p h with h' | h'
          · exact Or.inl (List.mem_cons_of_mem _ h')
          · exact Or.inr h'

theorem addIntersectionCore_in01 (t1 t2 : K) (o1 o2 : Cubic K) (ixs : List (K × K))
    (h1 : In01 t1) (h2 : In01 t2) (hl : PairsIn01 ixs) :
    PairsIn01 (addIntersectionCore t1 t2 o1 o2 ixs) := by
  unfold addIntersectionCore
  by_cases hc : (isEndpointParam t1 && isEndpointParam t2) = true
  · rw [if_pos hc]; exact hl
  · rw [if_neg hc]
    cases hd : dedup t1 t2 o1 o2 ixs with
    | some l =>
      intro p hp
      rcases dedup_mem t1 t2 o1 o2 ixs l hd p hp with h | h
      · exact hl p h
      · rw [h]; exact ⟨h1, h2⟩
    | none =>
      show PairsIn01 (if ixs.length < 9 then ixs ++ [(t1, t2)] else ixs)
      split_ifs
      · exact pairsIn01_append hl h1 h2
      · exact hl

theorem addIntersection_in01 (t1 : K) (o1 : Cubic K) (t2 : K) (o2 : Cubic K) (flip : Bool)
    (ixs : List (K × K)) (h1 : In01 t1) (h2 : In01 t2) (hl : PairsIn01 ixs) :
    PairsIn01 (addIntersection t1 o1 t2 o2 flip ixs) := by
  unfold addIntersection
  split_ifs
  · exact addIntersectionCore_in01 _ _ _ _ _ h2 h1 hl
  · exact addIntersectionCore_in01 _ _ _ _ _ h1 h2 hl

/-- folding `add_intersection` over a list of parameters in [0,1] -/
theorem foldl_addIntersection_in01 {β : Type} (f : β → K × K) (o1 o2 : Cubic K) (flip : Bool) :
    ∀ (ts : List β) (ixs : List (K × K)), (∀ t ∈ ts, In01 (f t).1 ∧ In01 (f t).2) → PairsIn01 ixs →
      PairsIn01 (ts.foldl (fun res t => addIntersection (f t).1 o1 (f t).2 o2 flip res) ixs)
  | [], ixs, _, hl => hl
  | t :: ts, ixs, ht, hl => by
    rw [List.foldl_cons]
    apply foldl_addIntersection_in01 f o1 o2 flip ts _ (fun t' h' => ht t' (List.mem_cons_of_mem _ h'))
    exact addIntersection_in01 _ _ _ _ _ _ (ht t List.mem_cons_self).1 (ht t List.mem_cons_self).2 hl

/-! ### roots, extrema, `point_curve_intersections` -/

theorem solveTFor_in01 (v p0 p1 p2 p3 : K) : ∀ t ∈ solveTFor v p0 p1 p2 p3, In01 t := by
  intro t ht
  unfold solveTFor at ht
  split_ifs at ht
  · cases ht
  · unfold parametersForXY at ht
    have := (List.mem_filter.mp ht).2
    simp only [Bool.and_eq_true, decide_eq_true_eq] at this
    have hz : (Scalar.zero : K) = 0 := by simp [Scalar.zero]
    have ho : (Scalar.one : K) = 1 := by simp [Scalar.one]
    rw [hz, ho] at this
    exact ⟨this.1.le, this.2.le⟩

theorem solveTForX_in01 (c : Cubic K) (x : K) : ∀ t ∈ solveTForX c x, In01 t := solveTFor_in01 _ _ _ _ _
theorem solveTForY_in01 (c : Cubic K) (y : K) : ∀ t ∈ solveTForY c y, In01 t := solveTFor_in01 _ _ _ _ _

theorem keep_in01 (t : K) : ∀ u ∈ C1.keep t, In01 u := by
  intro u hu
  unfold C1.keep at hu
  split_ifs at hu with h
  · rw [List.mem_singleton] at hu; subst hu
    have hz : (Scalar.zero : K) = 0 := by simp [Scalar.zero]
    have ho : (Scalar.one : K) = 1 := by simp [Scalar.one]
    rw [hz, ho] at h
    exact ⟨h.1.le, h.2.le⟩
  · cases hu

theorem localExtrema_in01 (p0 p1 p2 p3 : K) : ∀ t ∈ C1.localExtrema p0 p1 p2 p3, In01 t := by
  intro t ht
  unfold C1.localExtrema C1.extremaOf at ht
  split_ifs at ht
  · exact keep_in01 _ t ht
  · cases ht
  · cases ht
  · exact keep_in01 _ t ht
  · unfold C1.twoRoots at ht
    split_ifs at ht <;>
    · rcases List.mem_append.mp ht with h | h <;> exact keep_in01 _ t h

theorem foldl_step_fst {β : Type} (step : K × β → K → K × β)
    (hstep : ∀ st t, (step st t).1 = t ∨ step st t = st) :
    ∀ (l : List K) (init : K × β), (l.foldl step init).1 = init.1 ∨ (l.foldl step init).1 ∈ l
  | [], init => Or.inl rfl
  | t :: l, init => by
    rw [List.foldl_cons]
    rcases foldl_step_fst step hstep l (step init t) with h | h
    · rcases hstep init t with h' | h'
      · right; rw [h, h']; exact List.mem_cons_self
      · left; rw [h, h']
    · right; exact List.mem_cons_of_mem _ h

theorem minT_in01 (p0 p1 p2 p3 : K) : In01 (C1.minT p0 p1 p2 p3) := by
  unfold C1.minT
  rcases foldl_step_fst (C1.minStep p0 p1 p2 p3)
    (fun st t => by unfold C1.minStep; split_ifs <;> simp) (C1.localExtrema p0 p1 p2 p3)
    (C1.minInit p0 p3) with h | h
  · rw [h]; unfold C1.minInit; split_ifs
    · exact in01_one
    · exact in01_zero
  · exact localExtrema_in01 _ _ _ _ _ h

theorem maxT_in01 (p0 p1 p2 p3 : K) : In01 (C1.maxT p0 p1 p2 p3) := by
  unfold C1.maxT
  rcases foldl_step_fst (C1.maxStep p0 p1 p2 p3)
    (fun st t => by unfold C1.maxStep; split_ifs <;> simp) (C1.localExtrema p0 p1 p2 p3)
    (C1.maxInit p0 p3) with h | h
  · rw [h]; unfold C1.maxInit; split_ifs
    · exact in01_one
    · exact in01_zero
  · exact localExtrema_in01 _ _ _ _ _ h

theorem pciPush_mem (pt : P K) (c : Cubic K) (eps : K) (result : List K) (t : K) :
    ∀ u ∈ pciPush pt c eps result t, u ∈ result ∨ u = t := by
  intro u hu
  unfold pciPush at hu
  split_ifs at hu
  · exact Or.inl hu
  · exact Or.inl hu
  · rcases List.mem_append.mp hu with h | h
    · exact Or.inl h
    · exact Or.inr (List.mem_singleton.mp h)

theorem foldl_pciPush_mem (pt : P K) (c : Cubic K) (eps : K) : ∀ (ts result : List K),
    ∀ u ∈ ts.foldl (pciPush pt c eps) result, u ∈ result ∨ u ∈ ts
  | [], result, u, hu => Or.inl hu
  | t :: ts, result, u, hu => by
    rw [List.foldl_cons] at hu
    rcases foldl_pciPush_mem pt c eps ts _ u hu with h | h
    · rcases pciPush_mem pt c eps result t u h with h' | h'
      · exact Or.inl h'
      · exact Or.inr (by rw [h']; exact List.mem_cons_self)
    · exact Or.inr (List.mem_cons_of_mem _ h)

theorem pointCurveIntersections_in01 (pt : P K) (c : Cubic K) (eps : K) :
    ∀ t ∈ pointCurveIntersections pt c eps, In01 t := by
  intro t ht
  unfold pointCurveIntersections at ht
  split_ifs at ht
  · rw [List.mem_singleton] at ht; rw [ht]; exact in01_zero
  · rw [List.mem_singleton] at ht; rw [ht]; exact in01_one
  · unfold pciSolved at ht
    rcases foldl_pciPush_mem pt c eps _ _ t ht with h | h
    · rcases foldl_pciPush_mem pt c eps _ _ t h with h' | h'
      · cases h'
      · exact solveTForX_in01 c _ t h'
    · exact solveTForY_in01 c _ t h
  · unfold pciExtremal at ht
    split_ifs at ht
    · rw [List.mem_singleton] at ht; rw [ht]; exact minT_in01 _ _ _ _
    · rw [List.mem_singleton] at ht; rw [ht]; exact maxT_in01 _ _ _ _
    · rw [List.mem_singleton] at ht; rw [ht]; exact minT_in01 _ _ _ _
    · rw [List.mem_singleton] at ht; rw [ht]; exact maxT_in01 _ _ _ _
    · exact absurd ht List.not_mem_nil

/-! ### linear special cases, point cases -/

theorem lineIntersectionsT_in01 (c : Cubic K) (l : Line K) : ∀ t ∈ c.lineIntersectionsT l, In01 t := by
  intro t ht
  unfold Cubic.lineIntersectionsT at ht
  split_ifs at ht
  · cases ht
  · cases ht
  · unfold Cubic.lineRoots at ht
    have := (List.mem_filter.mp ht).2
    unfold inUnit at this
    simp only [Bool.and_eq_true, decide_eq_true_eq] at this
    have hz : (Scalar.zero : K) = 0 := by simp [Scalar.zero]
    have ho : (Scalar.one : K) = 1 := by simp [Scalar.one]
    rw [hz, ho] at this
    exact ⟨this.1, this.2⟩

theorem lineCurveIntersections_in01 (line curve : Cubic K) (flip : Bool) :
    PairsIn01 (lineCurveIntersections line curve flip) := by
  unfold lineCurveIntersections
  have key : ∀ (cts : List K) (ixs : List (K × K)), (∀ t ∈ cts, In01 t) → PairsIn01 ixs →
      PairsIn01 (cts.foldl (fun res curveT =>
        (lineParamsAt line curve curveT).foldl
          (fun res lineT => addIntersection lineT line curveT curve flip res) res) ixs) := by
    intro cts
    induction cts with
    | nil => intro ixs _ hl; exact hl
    | cons ct cts ih =>
      intro ixs hct hl
      rw [List.foldl_cons]
      apply ih _ (fun t h => hct t (List.mem_cons_of_mem _ h))
      have hc := hct ct List.mem_cons_self
      apply foldl_addIntersection_in01 (fun lineT => (lineT, ct)) line curve flip _ _ _ hl
      intro lt hlt
      refine ⟨?_, hc⟩
      unfold lineParamsAt at hlt
      split_ifs at hlt
      · exact solveTForY_in01 _ _ _ hlt
      · exact solveTForX_in01 _ _ _ hlt
  exact key _ _ (lineIntersectionsT_in01 _ _) pairsIn01_nil

theorem parametersForLinePoint_in01 (c : Cubic K) (pt : P K) : ∀ t ∈ parametersForLinePoint c pt, In01 t := by
  intro t ht
  unfold parametersForLinePoint at ht
  split_ifs at ht
  · exact solveTForY_in01 _ _ _ ht
  · exact solveTForX_in01 _ _ _ ht

theorem lineLinePairs_in01 (c1 c2 : Cubic K) (l1 l2 : List K) (h1 : ∀ t ∈ l1, In01 t)
    (h2 : ∀ t ∈ l2, In01 t) : PairsIn01 (lineLinePairs c1 c2 l1 l2) := by
  unfold lineLinePairs
  have key : ∀ (l1 : List K) (ixs : List (K × K)), (∀ t ∈ l1, In01 t) → PairsIn01 ixs →
      PairsIn01 (l1.foldl (fun res t1 => l2.foldl (fun res t2 => addIntersection t1 c1 t2 c2 false res) res) ixs) := by
    intro l1
    induction l1 with
    | nil => intro ixs _ hl; exact hl
    | cons a l1 ih =>
      intro ixs ha hl
      rw [List.foldl_cons]
      apply ih _ (fun t h => ha t (List.mem_cons_of_mem _ h))
      exact foldl_addIntersection_in01 (fun t2 => (a, t2)) c1 c2 false _ _
        (fun t ht => ⟨ha a List.mem_cons_self, h2 t ht⟩) hl
  exact key l1 [] h1 pairsIn01_nil

theorem lineLineIntersections_in01 (c1 c2 : Cubic K) : PairsIn01 (lineLineIntersections c1 c2) := by
  unfold lineLineIntersections
  split
  · exact pairsIn01_nil
  · split_ifs
    · exact pairsIn01_nil
    · exact pairsIn01_nil
    · exact lineLinePairs_in01 _ _ _ _ (parametersForLinePoint_in01 _ _) (parametersForLinePoint_in01 _ _)

theorem pointCases_in01 (c1 c2 : Cubic K) : PairsIn01 (pointCases c1 c2) := by
  unfold pointCases
  split_ifs
  · intro p hp
    obtain ⟨t, ht, rfl⟩ := List.mem_map.mp hp
    exact ⟨in01_zero, pointCurveIntersections_in01 _ _ _ t (List.mem_filter.mp ht).1⟩
  · intro p hp
    obtain ⟨t, ht, rfl⟩ := List.mem_map.mp hp
    exact ⟨pointCurveIntersections_in01 _ _ _ t (List.mem_filter.mp ht).1, in01_zero⟩
  · exact pairsIn01_nil

/-! ### `add_point_curve_intersection` -/

theorem tenths_in01 : ∀ t ∈ (tenths : List K), In01 t := by
  intro t ht
  simp only [tenths, lit, List.mem_cons, List.mem_nil_iff, or_false] at ht
  unfold In01
  rcases ht with h | h | h | h | h | h | h | h | h | h | h <;> (rw [h]; norm_num)

theorem sampleMin_fst_in01 (pt : P K) (c : Cubic K) (eps : K) : In01 (sampleMin pt c eps).1 := by
  unfold sampleMin
  rcases foldl_step_fst (sampleStep pt c)
    (fun st t => by unfold sampleStep; split_ifs <;> simp) tenths ((Scalar.zero : K), eps) with h | h
  · rw [h]; exact in01_zero
  · exact tenths_in01 _ h

theorem addPointCurveWith_in01 (eps : K) (ptCurve curve : Cubic K) (ptDomain curveDomain : K × K)
    (flip : Bool) (ixs : List (K × K)) (hp1 : In01 ptDomain.1) (hp2 : In01 ptDomain.2)
    (hc1 : In01 curveDomain.1) (hc2 : In01 curveDomain.2) (hl : PairsIn01 ixs) :
    PairsIn01 (addPointCurveWith eps ptCurve curve ptDomain curveDomain flip ixs) := by
  unfold addPointCurveWith
  have hm := domMid_in01 hp1 hp2
  split_ifs with h
  · apply addIntersection_in01 _ _ _ _ _ _ hm _ hl
    unfold sampledCurveT at h ⊢
    split_ifs at h ⊢ with h'
    · simp at h
    · exact domainValueAtT_in01 hc1 hc2 (sampleMin_fst_in01 _ _ _)
  · exact foldl_addIntersection_in01 (fun t => (domMid ptDomain, domainValueAtT curveDomain t))
      ptCurve curve flip _ _
      (fun t ht => ⟨hm, domainValueAtT_in01 hc1 hc2 (pointCurveIntersections_in01 _ _ _ t ht)⟩) hl

theorem addPointCurveIntersection_in01 (ptCurve : Cubic K) (b : Bool) (curve : Cubic K)
    (ptDomain curveDomain : K × K) (flip : Bool) (st : State K) (hp1 : In01 ptDomain.1)
    (hp2 : In01 ptDomain.2) (hc1 : In01 curveDomain.1) (hc2 : In01 curveDomain.2)
    (hl : PairsIn01 st.ixs) :
    PairsIn01 (addPointCurveIntersection ptCurve b curve ptDomain curveDomain flip st).ixs := by
  unfold addPointCurveIntersection
  split
  · exact hl
  · exact addPointCurveWith_in01 _ _ _ _ _ _ _ hp1 hp2 hc1 hc2 hl

/-! ### the clip values -/

theorem walk_top_in01 {thr : K} : ∀ (p : P K) (l : List (P K)), p.y < thr →
    (∀ v ∈ p :: l, In01 v.x) → ∀ x, walkEdges true thr (p :: l) = some x → In01 x
  | p, [], _, _, x, hw => by simp at hw
  | p, q :: rest, hp, hv, x, hw => by
    have hpx := hv p List.mem_cons_self
    have hqx := hv q (List.mem_cons_of_mem _ List.mem_cons_self)
    rcases lt_trichotomy q.y thr with h | h | h
    · rw [walkEdges_top_skip _ _ _ _ h] at hw
      exact walk_top_in01 q rest h (fun v hv' => hv v (List.mem_cons_of_mem _ hv')) x hw
    · rw [walkEdges_top_eq _ _ _ _ h] at hw
      rw [← Option.some.inj hw]; exact hqx
    · rw [walkEdges_top_gt _ _ _ _ h] at hw
      rw [← Option.some.inj hw]
      have hdy : 0 < q.y - p.y := by linarith
      set lam := (thr - p.y) / (q.y - p.y) with hlam
      have hl0 : 0 ≤ lam := div_nonneg (by linarith) hdy.le
      have hl1 : lam ≤ 1 := by rw [hlam, div_le_one hdy]; linarith
      have e : p.x + (thr - p.y) * (q.x - p.x) / (q.y - p.y) = (1 - lam) * p.x + lam * q.x := by
        rw [hlam]; field_simp; ring
      rw [e]
      unfold In01 at *
      constructor
      · have := mul_nonneg (by linarith : 0 ≤ 1 - lam) hpx.1
        have := mul_nonneg hl0 hqx.1
        linarith
      · have := mul_le_mul_of_nonneg_left hpx.2 (by linarith : 0 ≤ 1 - lam)
        have := mul_le_mul_of_nonneg_left hqx.2 hl0
        linarith

theorem walk_bot_in01 {thr : K} (p : P K) (l : List (P K)) (hp : thr < p.y)
    (hv : ∀ v ∈ p :: l, In01 v.x) (x : K) (hw : walkEdges false thr (p :: l) = some x) : In01 x := by
  rw [walkEdges_bot_eq, List.map_cons] at hw
  refine walk_top_in01 (thr := -thr) (negY p) (l.map negY) (by simp only [negY_y]; linarith) ?_ x hw
  intro v hv'
  rw [← List.map_cons] at hv'
  obtain ⟨w, hw', rfl⟩ := List.mem_map.mp hv'
  exact hv w hw'

theorem walkStart_in01 (top bottom : List (P K)) (dMin dMax : K)
    (ht : ∀ v ∈ top, In01 v.x) (hb : ∀ v ∈ bottom, In01 v.x)
    (hhead : ∀ s top', top = s :: top' → ∃ b', bottom = s :: b') (x : K)
    (hw : walkStart top bottom dMin dMax = some x) : In01 x := by
  cases top with
  | nil => simp [walkStart] at hw
  | cons s top' =>
    obtain ⟨b', hb'⟩ := hhead s top' rfl
    by_cases h1 : s.y < dMin
    · rw [walkStart_below _ _ _ _ _ h1] at hw
      exact walk_top_in01 s top' h1 ht x hw
    · by_cases h2 : s.y > dMax
      · rw [walkStart_above _ _ _ _ _ h1 h2, hb'] at hw
        exact walk_bot_in01 s b' h2 (by rw [← hb']; exact hb) x hw
      · rw [walkStart_inside _ _ _ _ _ h1 h2] at hw
        rw [← Option.some.inj hw]; exact ht s List.mem_cons_self

theorem clipHull_in01 {F : K → K} {top bottom : List (P K)} (h : HullOK F top bottom)
    (ht : ∀ v ∈ top, In01 v.x) (hb : ∀ v ∈ bottom, In01 v.x) (dMin dMax lo hi : K)
    (hc : clipHull top bottom dMin dMax = some (lo, hi)) : In01 lo ∧ In01 hi := by
  obtain ⟨s, e, mt, mb, htop, hbot, hs, he⟩ := h.shape
  unfold clipHull at hc
  cases h1 : walkStart top bottom dMin dMax with
  | none => rw [h1] at hc; cases hc
  | some a =>
    rw [h1] at hc
    cases h2 : walkStart top.reverse bottom.reverse dMin dMax with
    | none => rw [h2] at hc; cases hc
    | some b =>
      rw [h2] at hc
      have hab : (a, b) = (lo, hi) := Option.some.inj hc
      have ha : a = lo := congrArg Prod.fst hab
      have hb' : b = hi := congrArg Prod.snd hab
      subst ha hb'
      constructor
      · apply walkStart_in01 top bottom dMin dMax ht hb _ a h1
        intro s' top' hst
        rw [htop] at hst
        have : s = s' := by injection hst
        exact ⟨mb ++ [e], by rw [hbot, this]⟩
      · apply walkStart_in01 top.reverse bottom.reverse dMin dMax
          (fun v hv => ht v (List.mem_reverse.mp hv)) (fun v hv => hb v (List.mem_reverse.mp hv)) _ b h2
        intro s' top' hst
        rw [htop] at hst
        simp only [List.reverse_cons, List.reverse_append, List.reverse_nil, List.nil_append,
          List.singleton_append, List.cons_append] at hst
        have : e = s' := by injection hst
        refine ⟨mb.reverse ++ [s], ?_⟩
        rw [hbot, ← this]
        simp

theorem convexHull_xs (d0 d1 d2 d3 : K) :
    (∀ v ∈ (convexHull d0 d1 d2 d3).1, In01 v.x) ∧ (∀ v ∈ (convexHull d0 d1 d2 d3).2, In01 v.x) := by
  have key : (∀ v ∈ (hullUnflipped d0 d1 d2 d3).1, In01 v.x) ∧ (∀ v ∈ (hullUnflipped d0 d1 d2 d3).2, In01 v.x) := by
    rw [hullUnflipped_eq]
    unfold In01
    split_ifs <;> constructor <;>
      simp only [List.mem_cons, List.mem_nil_iff, or_false, forall_eq_or_imp, forall_eq] <;>
      norm_num
  unfold convexHull
  split_ifs
  · exact ⟨key.2, key.1⟩
  · exact key

theorem restrict_in01 (c1 c2 : Cubic K) (lo hi : K)
    (h : restrictCurveToFatLine c1 c2 = some (lo, hi)) : In01 lo ∧ In01 hi := by
  unfold restrictCurveToFatLine at h
  exact clipHull_in01 (convexHull_ok _ _ _ _) (convexHull_xs _ _ _ _).1 (convexHull_xs _ _ _ _).2 _ _ _ _ h

end Lyon.Clip
