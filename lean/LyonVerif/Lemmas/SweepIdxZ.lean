/-
  A small exact scalar type for kernel-evaluated examples of the sweep model (`Props/SweepIdx.lean`):
  integers with `Scalar` / `Sgn` / `Wide` instances.  No law is claimed (and none is needed by the
  index theorems); `isNaN` singles out one value so that an example can exercise the
  `PositionIsNaN` error path after some output has been emitted.
-/
import LyonVerif.Model.Tess.Sweep

namespace Lyon.SweepIdx
open Lyon Lyon.Scalar Lyon.Sweep

structure Z where
  v : Int
deriving DecidableEq, Repr

instance : Scalar Z where
  add a b := ⟨a.v + b.v⟩
  sub a b := ⟨a.v - b.v⟩
  mul a b := ⟨a.v * b.v⟩
  div a b := ⟨a.v / b.v⟩
  neg a := ⟨-a.v⟩
  lt a b := a.v < b.v
  le a b := a.v ≤ b.v
  beq a b := a.v == b.v
  ofNat n := ⟨n⟩
  ofSci m e := ⟨m / 10 ^ e⟩
  dlt := fun a b => inferInstanceAs (Decidable (a.v < b.v))
  dle := fun a b => inferInstanceAs (Decidable (a.v ≤ b.v))
  abs a := ⟨a.v.natAbs⟩
  min a b := if a.v ≤ b.v then a else b
  max a b := if a.v ≤ b.v then b else a

instance : Sgn Z where
  signum a := ⟨a.v.sign⟩

instance : Wide Z where
  W := Z
  scalarW := inferInstance
  sgnW := inferInstance
  widen := id
  narrow := id
  nextUp a := ⟨a.v + 1⟩
  fmin := ⟨-1000000⟩
  isNaN a := a.v == 777777
  sqrt a := ⟨a.v.toNat.sqrt⟩
  eps := ⟨0⟩

def pz (x y : Int) : P Z := ⟨⟨x⟩, ⟨y⟩⟩

/-- outcome of a run as a string: `ok` or the failure -/
def outcome (r : Option Fail × Array (Emit Z) × Nat) : String :=
  match r.1 with
  | none => "ok"
  | some (.err k) => k
  | some (.panic k) => "panic " ++ k
  | some (.unmodelled k) => "unmodelled " ++ k
  | some .fuel => "fuel"

end Lyon.SweepIdx
