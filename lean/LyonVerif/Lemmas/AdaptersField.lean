/-
  C16 helper lemmas over ordered fields: the attribute interpolation of the builder-side
  `Flattened` (`emitAttr`, `interp`) and the simulation between the adapter as it is and the
  reference flattening (`FlatB.run` vs `FlatB.specRun`).
-/
import LyonVerif.Lemmas.Adapters
import LyonVerif.Lemmas.Field

set_option linter.unusedSectionVars false
set_option linter.unusedVariables false

namespace Lyon.Adapt
open Lyon Lyon.Path

variable {π : Type} {K : Type} [Field K] [LinearOrder K] [IsStrictOrderedRing K]

theorem emitAttr_one (prev a : List K) : emitAttr prev a 1 = a := by
  have : ((1 : K) == Scalar.one) = true := by
    rw [sc_beq]; simp
  unfold emitAttr
  rw [if_pos this]

theorem interp_one (prev a : List K) (h : prev.length = a.length) : interp prev a 1 = a := by
  induction prev generalizing a with
  | nil => cases a <;> simp_all [interp]
  | cons x r ih =>
    cases a with
    | nil => simp at h
    | cons y s =>
      have h' : r.length = s.length := by simpa using h
      have := ih s h'
      simp only [interp] at this ⊢
      simp only [List.zipWith_cons_cons, this]
      congr 1
      show x * (((1 : ℕ) : K) - 1) + y * 1 = y
      push_cast; ring

theorem emitAttr_eq_interp (prev a : List K) (t : K) (h : prev.length = a.length) :
    emitAttr prev a t = interp prev a t := by
  by_cases ht : t = 1
  · subst ht; rw [emitAttr_one, interp_one prev a h]
  · have : (t == (Scalar.one : K)) = false := by
      rw [Bool.eq_false_iff]; intro hh; rw [sc_beq] at hh; exact ht (by simpa using hh)
    unfold emitAttr
    rw [if_neg (by rw [this]; simp)]

theorem emitLines_eq_specLines (segs : List (FSeg π K)) (prev a : List K)
    (h : prev.length = a.length) : emitLines segs prev a = specLines segs prev a := by
  simp [emitLines, specLines, emitAttr_eq_interp prev a _ h]

/-- the adapter and the reference flattening agree from every state whose `prev_attributes`
has the program's attribute count -/
theorem full_run (F : Flattener π K) (n : Nat) (s : FlatB π K) (prog : List (Call π (List K)))
    (hlen : attrsLen n prog = true) (hl : s.prev.length = n) :
    FlatB.run F s prog = FlatB.specRun F s prog := by
  induction prog generalizing s with
  | nil => rfl
  | cons c r ih =>
    cases c with
    | begin p a =>
      simp only [attrsLen, Bool.and_eq_true, beq_iff_eq] at hlen
      simp only [FlatB.run, FlatB.specRun, FlatB.step, FlatB.specStep]
      rw [ih ⟨p, a⟩ hlen.2 hlen.1]
    | line p a =>
      simp only [attrsLen, Bool.and_eq_true, beq_iff_eq] at hlen
      simp only [FlatB.run, FlatB.specRun, FlatB.step, FlatB.specStep]
      rw [ih ⟨p, a⟩ hlen.2 hlen.1]
    | quad k p a =>
      simp only [attrsLen, Bool.and_eq_true, beq_iff_eq] at hlen
      simp only [FlatB.run, FlatB.specRun, FlatB.step, FlatB.specStep]
      rw [ih ⟨p, a⟩ hlen.2 hlen.1, emitLines_eq_specLines _ _ _ (by rw [hl, hlen.1])]
    | cubic k1 k2 p a =>
      simp only [attrsLen, Bool.and_eq_true, beq_iff_eq] at hlen
      simp only [FlatB.run, FlatB.specRun, FlatB.step, FlatB.specStep]
      rw [ih ⟨p, a⟩ hlen.2 hlen.1, emitLines_eq_specLines _ _ _ (by rw [hl, hlen.1])]
    | end_ cl =>
      simp only [attrsLen] at hlen
      simp only [FlatB.run, FlatB.specRun, FlatB.step, FlatB.specStep]
      rw [ih s hlen hl]

/-! ### the reference flattening seen through `iter_with_attributes` -/

theorem interp_eq_interpI (fa ta : List K) (t : K) : interp fa ta t = interpI fa ta t := by
  simp only [interp, interpI]
  congr 1; funext f g
  show f * (((1 : ℕ) : K) - t) + g * t = (((1 : ℕ) : K) - t) * f + t * g
  ring

/-- the segments of one curve form a chain starting at `a`: each `line.from` is the previous
`line.to` (C09 `…/connected`) -/
def Chained (a : π) : List (FSeg π K) → Prop
  | [] => True
  | s :: r => s.a = a ∧ Chained s.b r

/-- the endpoint (with attributes) reached after the lines of one curve -/
noncomputable def endAP (fa ta : List K) : AP π K → List (FSeg π K) → AP π K
  | cur, [] => cur
  | _, s :: r => endAP fa ta (s.b, interp fa ta s.t) r

theorem endAP_snoc (fa ta : List K) (cur : AP π K) (l : List (FSeg π K)) (x : FSeg π K) :
    endAP fa ta cur (l ++ [x]) = (x.b, interp fa ta x.t) := by
  induction l generalizing cur with
  | nil => rfl
  | cons s r ih => simpa [endAP] using ih _

/-- the events (with attributes) denoted by the reference lines of one curve are exactly the
callbacks of `for_each_flattened` -/
theorem specFrom_specLines (f : AP π K) (a0 : π) (ca fa ta : List K) (segs : List (FSeg π K))
    (hch : Chained a0 segs) (rest : List (Call (AP π K) (List K))) :
    specFrom (some (f, (a0, ca))) ((specLines segs fa ta).map aCall ++ rest)
      = linesA fa ta ca segs ++ specFrom (some (f, endAP fa ta (a0, ca) segs)) rest := by
  induction segs generalizing a0 ca with
  | nil => simp [specLines, linesA, endAP]
  | cons s r ih =>
    obtain ⟨h1, h2⟩ := hch
    have := ih s.b (interp fa ta s.t) h2
    simp only [specLines, List.map_cons, aCall, List.cons_append, specFrom, linesA, endAP,
      ← interp_eq_interpI] at this ⊢
    rw [this, h1]

end Lyon.Adapt
