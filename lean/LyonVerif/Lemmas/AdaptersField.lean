/-
  C16 helper lemmas over ordered fields: the attribute interpolation of the builder-side
  `Flattened` (`emitAttr`, `interp`) and the simulation between the adapter as it is and the
  reference flattening (`FlatB.run` vs `FlatB.specRun`).
-/
import LyonVerif.Lemmas.Adapters
import LyonVerif.Lemmas.Field

set_option linter.unusedSectionVars false
set_option linter.unusedVariables false

namespace Lyon.Adapt
open Lyon Lyon.Path

variable {π : Type} {K : Type} [Field K] [LinearOrder K] [IsStrictOrderedRing K]

theorem emitAttr_one (prev a : List K) : emitAttr prev a 1 = a := by
  have : ((1 : K) == Scalar.one) = true := by
    rw [sc_beq]; simp
  unfold emitAttr
  rw [if_pos this]

theorem interp_one (prev a : List K) (h : prev.length = a.length) : interp prev a 1 = a := by
  induction prev generalizing a with
  | nil => cases a <;> simp_all [interp]
  | cons x r ih =>
    cases a with
    | nil => simp at h
    | cons y s =>
      have h' : r.length = s.length := by simpa using h
      have := ih s h'
      simp only [interp] at this ⊢
      simp only [List.zipWith_cons_cons, this]
      congr 1
      show x * (((1 : ℕ) : K) - 1) + y * 1 = y
      push_cast; ring

theorem emitAttr_eq_interp (prev a : List K) (t : K) (h : prev.length = a.length) :
    emitAttr prev a t = interp prev a t := by
  by_cases ht : t = 1
  · subst ht; rw [emitAttr_one, interp_one prev a h]
  · have : (t == (Scalar.one : K)) = false := by
      rw [Bool.eq_false_iff]; intro hh; rw [sc_beq] at hh; exact ht (by simpa using hh)
    unfold emitAttr
    rw [if_neg (by rw [this]; simp)]

theorem emitLines_eq_specLines (segs : List (FSeg π K)) (prev a : List K)
    (h : prev.length = a.length) : emitLines segs prev a = specLines segs prev a := by
  simp [emitLines, specLines, emitAttr_eq_interp prev a _ h]

/-- the adapter and the reference flattening agree from every state whose `prev_attributes`
has the program's attribute count -/
theorem full_run (F : Flattener π K) (n : Nat) (s : FlatB π K) (prog : List (Call π (List K)))
    (hlen : attrsLen n prog = true) (hl : s.prev.length = n) :
    FlatB.run F s prog = FlatB.specRun F s prog := by
  induction prog generalizing s with
  | nil => rfl
  | cons c r ih =>
    cases c with
    | begin p a =>
      simp only [attrsLen, Bool.and_eq_true, beq_iff_eq] at hlen
      simp only [FlatB.run, FlatB.specRun, FlatB.step, FlatB.specStep]
      rw [ih ⟨p, a⟩ hlen.2 hlen.1]
    | line p a =>
      simp only [attrsLen, Bool.and_eq_true, beq_iff_eq] at hlen
      simp only [FlatB.run, FlatB.specRun, FlatB.step, FlatB.specStep]
      rw [ih ⟨p, a⟩ hlen.2 hlen.1]
    | quad k p a =>
      simp only [attrsLen, Bool.and_eq_true, beq_iff_eq] at hlen
      simp only [FlatB.run, FlatB.specRun, FlatB.step, FlatB.specStep]
      rw [ih ⟨p, a⟩ hlen.2 hlen.1, emitLines_eq_specLines _ _ _ (by rw [hl, hlen.1])]
    | cubic k1 k2 p a =>
      simp only [attrsLen, Bool.and_eq_true, beq_iff_eq] at hlen
      simp only [FlatB.run, FlatB.specRun, FlatB.step, FlatB.specStep]
      rw [ih ⟨p, a⟩ hlen.2 hlen.1, emitLines_eq_specLines _ _ _ (by rw [hl, hlen.1])]
    | end_ cl =>
      simp only [attrsLen] at hlen
      simp only [FlatB.run, FlatB.specRun, FlatB.step, FlatB.specStep]
      rw [ih s hlen hl]

end Lyon.Adapt
