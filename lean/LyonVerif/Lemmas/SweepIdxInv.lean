/-
  The index-validity invariant on the sweep state `Sweep.St` and the Hoare-triple vocabulary
  (`Std.Do`) in which the step functions of `Model/Tess/Sweep.lean` are shown to preserve it.

  `Inv n s`   : `s.nverts = n`; `s.out` is a valid emission sequence with `n` vertices
                (`OutOk`); every active edge's `fromId` is `< n`; every live span's monotone
                tessellator holds only ids `< n` (`AdvOk`).  Pooled tessellators and the queue are
                unconstrained (`begin` overwrites every id; the queue's endpoint ids never reach
                the output).
  `Inv1 n s`  : `Inv n s ∧ s.curVertex < n` (holds from `initialize_events` on).

  Failure states matter: `SM = ExceptT Fail (StateM St)` keeps the state reached when an error is
  thrown (the geometry builder saw that output), so every triple below has the invariant as its
  exception postcondition too (`post⟨…, …⟩`).
-/
import Std.Do
import Std.Tactic.Do
import Lean.Elab.Tactic
import LyonVerif.Lemmas.SweepIdxOut

set_option linter.unusedSectionVars false
set_option linter.unusedVariables false
set_option linter.unusedSimpArgs false

namespace Lyon.SweepIdx
open Lyon Lyon.Scalar Lyon.Mono Lyon.Sweep Lyon.EQ
open Std.Do

variable {α : Type} [Scalar α] [Wide α]

structure Inv (n : Nat) (s : St α) : Prop where
  nv : s.nverts = n
  out : OutOk s.out n
  active : ∀ e ∈ s.active, e.fromId < n
  spans : ∀ t, some t ∈ s.spans → AdvOk n t

def Inv1 (n : Nat) (s : St α) : Prop := Inv n s ∧ s.curVertex < n

/-- the postcondition shape of `SM` -/
abbrev SMps (α : Type) : PostShape := .except Fail (.arg (St α) .pure)

/-- "the invariant holds afterwards, whether the step returned or threw" -/
abbrev keeps {β : Type} (n : Nat) : PostCond β (SMps α) :=
  post⟨fun _ s => ⌜Inv1 n s⌝, fun _ s => ⌜Inv1 n s⌝⟩

/-- frame: a state that differs only in fields the invariant does not read, and whose active edges
still have valid `fromId`s -/
theorem Inv1.frame {n : Nat} {s s' : St α} (h : Inv1 n s) (h1 : s'.nverts = s.nverts) (h2 : s'.out = s.out)
    (h3 : s'.spans = s.spans) (h4 : s'.curVertex = s.curVertex) (h5 : ∀ e ∈ s'.active, e.fromId < n) :
    Inv1 n s' :=
  ⟨⟨h1 ▸ h.1.nv, h2 ▸ h.1.out, h5, h3 ▸ h.1.spans⟩, h4 ▸ h.2⟩

/-- frame, active edges untouched as well -/
theorem Inv1.frame' {n : Nat} {s s' : St α} (h : Inv1 n s) (h1 : s'.nverts = s.nverts) (h2 : s'.out = s.out)
    (h3 : s'.spans = s.spans) (h4 : s'.curVertex = s.curVertex) (h5 : s'.active = s.active) : Inv1 n s' :=
  h.frame h1 h2 h3 h4 (h5 ▸ h.1.active)

/-- new spans -/
theorem Inv1.withSpans {n : Nat} {s s' : St α} (h : Inv1 n s) (h1 : s'.nverts = s.nverts) (h2 : s'.out = s.out)
    (h3 : ∀ t, some t ∈ s'.spans → AdvOk n t) (h4 : s'.curVertex = s.curVertex) (h5 : s'.active = s.active) :
    Inv1 n s' :=
  ⟨⟨h1 ▸ h.1.nv, h2 ▸ h.1.out, h5 ▸ h.1.active, h3⟩, h4 ▸ h.2⟩

/-! ### array membership helpers -/

theorem mem_setIfInBounds {γ : Type} {a : Array γ} {i : Nat} {v x : γ} (h : x ∈ a.setIfInBounds i v) :
    x = v ∨ x ∈ a := by
  rcases Array.mem_iff_getElem.mp h with ⟨j, hj, e⟩
  have hj' : j < a.size := by simpa using hj
  rw [Array.getElem_setIfInBounds hj'] at e
  split at e
  · exact Or.inl e.symm
  · exact Or.inr (e ▸ Array.getElem_mem _)

theorem mem_of_getD_eq_some {γ : Type} {a : Array (Option γ)} {k : Nat} {t : γ} (h : a.getD k none = some t) :
    some t ∈ a := by
  by_cases hk : k < a.size
  · have : a.getD k none = a[k] := by simp [Array.getD, hk]
    rw [this] at h
    exact h ▸ Array.getElem_mem hk
  · have : a.getD k none = none := by simp [Array.getD, hk]
    rw [this] at h; cases h

theorem mem_of_getElem? {γ : Type} {a : Array γ} {k : Nat} {t : γ} (h : a[k]? = some t) : t ∈ a := by
  rcases Array.getElem?_eq_some_iff.mp h with ⟨hk, e⟩
  exact e ▸ Array.getElem_mem hk

theorem mem_of_mem_extract {γ : Type} {a : Array γ} {i j : Nat} {x : γ} (h : x ∈ a.extract i j) : x ∈ a := by
  rcases Array.mem_iff_getElem.mp h with ⟨k, hk, e⟩
  rw [Array.getElem_extract] at e
  exact e ▸ Array.getElem_mem _

/-! ### facts read off the invariant, and the tactics that close the verification conditions -/

theorem Inv1.cur {n : Nat} {s : St α} (h : Inv1 n s) : s.curVertex < n := h.2

theorem active_set_ok {n : Nat} {a : Array (ActiveEdge α)} (h : ∀ e ∈ a, e.fromId < n) (i : Nat)
    (v : ActiveEdge α) (hv : v.fromId < n) : ∀ e ∈ a.setIfInBounds i v, e.fromId < n := by
  intro e he
  rcases mem_setIfInBounds he with r | r
  · exact r ▸ hv
  · exact h e r

theorem Inv1.active' {n : Nat} {s : St α} (h : Inv1 n s) : ∀ e ∈ s.active, e.fromId < n := h.1.active

theorem splice_ok {n : Nat} {a : Array (ActiveEdge α)} (h : ∀ e ∈ a, e.fromId < n) {β : Type} (below : Array β)
    (f : β → ActiveEdge α) (hf : ∀ b, (f b).fromId < n) (i j k : Nat) :
    ∀ e ∈ a.extract 0 i ++ below.map f ++ a.extract j k, e.fromId < n := by
  intro e he
  simp only [Array.mem_append, Array.mem_map] at he
  rcases he with (he | ⟨b, _, rfl⟩) | he
  · exact h e (mem_of_mem_extract he)
  · exact hf b
  · exact h e (mem_of_mem_extract he)

/-- closes `Inv1 n s'` when `s'` differs from a state known to satisfy `Inv1 n` only in fields the
invariant does not read -/
macro "inv_frame" : tactic =>
  `(tactic| first
    | assumption
    | (apply Inv1.frame' <;> first | assumption | rfl))

theorem Inv1.active_get? {n : Nat} {s : St α} {i : Nat} {e : ActiveEdge α} (h : Inv1 n s)
    (he : s.active[i]? = some e) : e.fromId < n := h.1.active e (mem_of_getElem? he)

/-- closes `id < n` for an id taken from the current vertex or from an active edge -/
macro "inv_id" : tactic =>
  `(tactic| first
    | assumption
    | (apply Inv1.cur; assumption)
    | (apply Inv1.active_get?; rotate_left; assumption; assumption))

/-- closes the precondition `Inv1 n s ∧ id < n` of a span operation -/
macro "inv_pre" : tactic => `(tactic| (refine ⟨?_, ?_⟩ <;> first | inv_frame | inv_id))

/-- frame: one active edge replaced by a record with the same `fromId` -/
theorem Inv1.frame_set {n : Nat} {s s' : St α} {i : Nat} {ae0 v : ActiveEdge α} (h : Inv1 n s)
    (hget : s.active[i]? = some ae0) (h1 : s'.nverts = s.nverts) (h2 : s'.out = s.out)
    (h3 : s'.spans = s.spans) (h4 : s'.curVertex = s.curVertex)
    (h5 : s'.active = s.active.setIfInBounds i v) (h6 : v.fromId = ae0.fromId) : Inv1 n s' := by
  refine h.frame h1 h2 h3 h4 ?_
  rw [h5]
  exact active_set_ok h.1.active _ _ (h6 ▸ h.active_get? hget)

macro "inv_set" : tactic =>
  `(tactic| first
    | inv_frame
    | (apply Inv1.frame_set <;> first | assumption | rfl))


theorem Inv1.frame_to {n : Nat} {s : St α} (s' : St α) (h : Inv1 n s) (h1 : s'.nverts = s.nverts) (h2 : s'.out = s.out)
    (h3 : s'.spans = s.spans) (h4 : s'.curVertex = s.curVertex) (h5 : ∀ e ∈ s'.active, e.fromId < n) :
    Inv1 n s' := h.frame h1 h2 h3 h4 h5

open Lean Elab Tactic Meta in
/-- `split_inv_ands`: every hypothesis `h : A ∧ B` gets its two halves added to the context
(`mvcgen` leaves the pure preconditions of a step as one conjunction with an inaccessible name). -/
elab "split_inv_ands" : tactic => do
  let g ← getMainGoal
  let g' ← g.withContext do
    let mut g := g
    for d in (← getLCtx) do
      if d.isImplementationDetail then continue
      let ty ← whnfR (← instantiateMVars d.type)
      if ty.isAppOfArity ``And 2 then
        let g1 ← g.assert `hL (ty.getArg! 0) (mkProj ``And 0 d.toExpr)
        let (_, g2) ← g1.intro1P
        let g3 ← g2.assert `hR (ty.getArg! 1) (mkProj ``And 1 d.toExpr)
        let (_, g4) ← g3.intro1P
        g := g4
    pure g
  replaceMainGoal [g']

open Lean Elab Tactic Meta in
/-- `inv_from`: the goal is `Inv1 n s'`; finds a hypothesis `h : Inv1 n s` (or `h : Inv1 n s ∧ _`)
such that `s'` agrees with `s` on `nverts`, `out`, `spans`, `curVertex` by `rfl`
(`Inv1.frame`), closes the active-edge obligation when `s'.active` is `s.active`, and otherwise
leaves `∀ e ∈ s'.active, e.fromId < n` as the goal.  Tries the hypotheses from the most recent
one backwards. -/
elab "inv_from" : tactic => do
  let g ← getMainGoal
  g.withContext do
    let lctx ← getLCtx
    let decls := (lctx.decls.toList.filterMap id).reverse
    for d in decls do
      if d.isImplementationDetail then continue
      let ty ← whnfR (← instantiateMVars d.type)
      let cand : Option Expr :=
        if ty.isAppOf ``Inv1 then some d.toExpr
        else if ty.isAppOf ``And && (ty.getArg! 0).isAppOf ``Inv1 then some (mkProj ``And 0 d.toExpr)
        else none
      match cand with
      | none => continue
      | some h =>
        let s ← saveState
        try
          let tgt ← whnfR (← instantiateMVars (← g.getType))
          unless tgt.isAppOf ``Inv1 do throwError "inv_from: goal is not `Inv1 n s`"
          let e ← mkAppM ``Inv1.frame_to #[tgt.appArg!, h]
          let gs ← g.apply e
          match gs with
          | [g1, g2, g3, g4, g5] =>
            g1.refl; g2.refl; g3.refl; g4.refl
            let s2 ← saveState
            try
              let pf ← mkAppM ``Inv1.active' #[h]
              let t ← inferType pf
              unless (← isDefEq t (← g5.getType)) do throwError "no"
              g5.assign pf
              replaceMainGoal []
            catch _ =>
              s2.restore
              replaceMainGoal [g5]
            return
          | _ => throwError "unexpected"
        catch _ => s.restore
    throwError "inv_from: no hypothesis `Inv1 n s` frames the goal"

open Lean Elab Tactic Meta in
/-- `strip_mdata`: removes the `mdata` annotations that the `do` elaborator left inside an unfolded
model definition (`mvcgen` does not look through `mdata` when it splits `if`/`match`). -/
elab "strip_mdata" : tactic => do
  let g ← getMainGoal
  let mut t ← instantiateMVars (← g.getType)
  for _ in [0:64] do
    if (t.find? (·.isMData)).isNone then break
    t := t.replace fun e => match e with | .mdata _ b => some b | _ => none
  let g' ← g.replaceTargetDefEq t
  replaceMainGoal [g']

/-- the usual verification condition: `Inv1 n s'`, or `Inv1 n s' ∧ id < n` -/
macro "inv_vc" : tactic =>
  `(tactic| (split_inv_ands
             first
             | assumption
             | inv_from
             | (refine ⟨?_, ?_⟩ <;> first | assumption | inv_from | inv_id)))

end Lyon.SweepIdx
