/-
  C16 with the concrete flatteners — where is the tolerance applied?

  `Flattened<Transformed<_>>` flattens the ORIGINAL curve at `tol` and transforms the points;
  `Transformed<Flattened<_>>` flattens the TRANSFORMED curve at `tol` (in the target space).
  For an orientation-preserving similarity `m` of scale `s` (rotation, uniform scaling,
  translation) the two coincide exactly, in exact arithmetic, when the target-space tolerance is
  `s·tol`: lyon_geom's flattening parameters of the transformed quadratic at `s·tol` are THE SAME
  record as those of the original at `tol` (`flatParams_sim`), so the same `t`s are sampled, and
  Bézier evaluation commutes with affine maps.  Needs `sqrt (s·s·x) = s·sqrt x` (the only
  non-field step: `scale` divides by `sqrt(ddx² + ddy²)`).

  Quadratics: `quad_flatten_sim`; cubics: `cubic_flatten_sim` (`num_quadratics`, `split_range`,
  `to_quadratic` commute as well).
-/
import LyonVerif.Model.Path.AdaptersConcrete
import LyonVerif.Lemmas.AdaptersConcretePath
import LyonVerif.Lemmas.Flatten

set_option linter.unusedSectionVars false
set_option linter.unusedVariables false

namespace Lyon.Adapt
open Lyon Lyon.Path Scalar Lyon.Flat

section field
variable {K : Type} [Field K] [LinearOrder K] [IsStrictOrderedRing K]

/-- `m` is an orientation-preserving similarity of scale `s > 0`:
`m = [[a, b], [−b, a]] + translation`, `s² = a² + b²` -/
structure IsSim (m : Xf K) (s : K) : Prop where
  h22 : m.m22 = m.m11
  h21 : m.m21 = -m.m12
  spos : 0 < s
  ss : s * s = m.m11 * m.m11 + m.m12 * m.m12

/-- the linear part of `m` (acts on differences of points) -/
def Xf.lin (m : Xf K) (v : P K) : P K := ⟨v.x * m.m11 + v.y * m.m21, v.x * m.m12 + v.y * m.m22⟩

theorem apply_sub (m : Xf K) (p q : P K) : m.apply p - m.apply q = Xf.lin m (p - q) := by
  apply P.ext' <;> simp only [Xf.apply, Xf.lin, geom] <;> ring

theorem lin_dot (m : Xf K) (s : K) (h : IsSim m s) (v w : P K) :
    (Xf.lin m v).dot (Xf.lin m w) = s * s * v.dot w := by
  simp only [Xf.lin, P.dot, h.h22, h.h21, h.ss]; ring

theorem lin_sqLen (m : Xf K) (s : K) (h : IsSim m s) (v : P K) :
    (Xf.lin m v).sqLen = s * s * v.sqLen := by
  simp only [Xf.lin, P.sqLen, h.h22, h.h21, h.ss]; ring

theorem apply_add_lin_smul (m : Xf K) (a v : P K) (u : K) :
    m.apply a + (Xf.lin m v).smul u = m.apply (a + v.smul u) := by
  apply P.ext' <;> simp only [Xf.apply, Xf.lin, geom] <;> ring

theorem ss_pos (m : Xf K) (s : K) (h : IsSim m s) : 0 < s * s := mul_pos h.spos h.spos

/-! ### `is_linear` -/

theorem segSqDist_sim (m : Xf K) (s : K) (h : IsSim m s) (a b p : P K) :
    segSqDist (m.apply a) (m.apply b) (m.apply p) = s * s * segSqDist a b p := by
  have hne : s * s ≠ 0 := ne_of_gt (ss_pos m s h)
  simp only [segSqDist, segClosestPoint, apply_sub, lin_dot m s h, mul_div_mul_left _ _ hne,
    apply_add_lin_smul, lin_sqLen m s h]

theorem isLinear_sim (m : Xf K) (s : K) (h : IsSim m s) (q : Quad K) (tol : K) :
    (q.transformed m).isLinear (s * tol) = q.isLinear tol := by
  simp only [Quad.isLinear, Quad.transformed, segSqDist_sim m s h]
  have h1 : s * tol * (s * tol) * four = s * s * (tol * tol * four) := by ring
  rw [h1]
  congr 1
  exact propext (mul_le_mul_iff_of_pos_left (ss_pos m s h))

/-! ### the general branch of `FlatteningParameters::new` through four invariants -/

section transc
variable [Transc K] [FlatConst K]

/-- `generalCore` as a function of `n1 = (ctrl−from)·dd`, `n2 = (to−ctrl)·dd`, `cross`,
`d2 = |dd|²` (`dd = 2·ctrl − from − to`): same expression tree -/
noncomputable def coreOf (n1 n2 cross d2 tol : K) : FlatParams K :=
  let invCross := one / cross
  let parabolaFrom := n1 * invCross
  let parabolaTo := n2 * invCross
  let scale := Scalar.abs cross / (Transc.sqrt d2 * Scalar.abs (parabolaTo - parabolaFrom))
  let integralFrom := approxParabolaIntegral parabolaFrom
  let integralTo := approxParabolaIntegral parabolaTo
  let integralDiff := integralTo - integralFrom
  let invIntegralFrom := approxParabolaInvIntegral integralFrom
  let invIntegralTo := approxParabolaInvIntegral integralTo
  let divInvIntegralDiff := one / (invIntegralTo - invIntegralFrom)
  let count := FlatParams.fixCount (Transc.ceil (FlatParams.countEstimate parabolaFrom parabolaTo integralDiff scale tol))
  let integralStep := integralDiff / count
  ⟨count, integralFrom, integralStep, invIntegralFrom, divInvIntegralDiff⟩

noncomputable def ddOf (q : Quad K) : P K := ⟨two * q.c.x - q.a.x - q.b.x, two * q.c.y - q.a.y - q.b.y⟩

theorem generalCore_eq_coreOf (q : Quad K) (tol : K) :
    FlatParams.generalCore q tol
      = coreOf ((q.c.x - q.a.x) * (ddOf q).x + (q.c.y - q.a.y) * (ddOf q).y)
          ((q.b.x - q.c.x) * (ddOf q).x + (q.b.y - q.c.y) * (ddOf q).y)
          (FlatParams.flatCross q) ((ddOf q).x * (ddOf q).x + (ddOf q).y * (ddOf q).y) tol := rfl

/-- the law of `sqrt` the similarity statement needs -/
def SqrtScales (K : Type) [Field K] [LinearOrder K] [IsStrictOrderedRing K] [Transc K] : Prop :=
  ∀ s x : K, 0 ≤ s → 0 ≤ x → Transc.sqrt (s * s * x) = s * Transc.sqrt x

theorem coreOf_sim (hsq : SqrtScales K) (s : K) (hs : 0 < s) (n1 n2 cross d2 tol : K)
    (hd2 : 0 ≤ d2) :
    coreOf (s * s * n1) (s * s * n2) (s * s * cross) (s * s * d2) (s * tol)
      = coreOf n1 n2 cross d2 tol := by
  have hne : s ≠ 0 := ne_of_gt hs
  have hss : s * s ≠ 0 := mul_ne_zero hne hne
  have hp : ∀ n : K, s * s * n * (one / (s * s * cross)) = n * (one / cross) := by
    intro n
    rw [show (one : K) = 1 from sc_one, one_div, one_div, mul_inv]
    have : s * s * (s * s)⁻¹ = 1 := mul_inv_cancel₀ hss
    linear_combination (n * cross⁻¹) * this
  have habs : Scalar.abs (s * s * cross) = s * s * Scalar.abs cross := by
    simp only [sc_abs, abs_mul, abs_of_pos hs]
  unfold coreOf
  simp only [hp, habs, hsq s d2 (le_of_lt hs) hd2]
  -- `scale` of the transformed curve is `s ·` the original one
  set pF := n1 * (one / cross)
  set pT := n2 * (one / cross)
  have hscale : s * s * Scalar.abs cross / (s * Transc.sqrt d2 * Scalar.abs (pT - pF))
      = s * (Scalar.abs cross / (Transc.sqrt d2 * Scalar.abs (pT - pF))) := by
    rw [mul_assoc s (Transc.sqrt d2), mul_assoc s s, mul_div_mul_left _ _ hne, mul_div_assoc]
  rw [hscale]
  have hest : ∀ d sc : K, FlatParams.countEstimate pF pT d (s * sc) (s * tol)
      = FlatParams.countEstimate pF pT d sc tol := by
    intro d sc
    simp only [FlatParams.countEstimate, mul_div_mul_left _ _ hne]
  simp only [hest]

end transc

/-! ### invariants of the transformed quadratic -/

theorem ddOf_sim (m : Xf K) (q : Quad K) : ddOf (q.transformed m) = Xf.lin m (ddOf q) := by
  apply P.ext' <;> simp only [ddOf, Quad.transformed, Xf.apply, Xf.lin, geom] <;> push_cast <;> ring

theorem flatCross_sim (m : Xf K) (s : K) (h : IsSim m s) (q : Quad K) :
    FlatParams.flatCross (q.transformed m) = s * s * FlatParams.flatCross q := by
  simp only [FlatParams.flatCross, Quad.transformed, Xf.apply, h.h22, h.h21, h.ss, geom]
  push_cast; ring

theorem n1_sim (m : Xf K) (s : K) (h : IsSim m s) (q : Quad K) :
    ((q.transformed m).c.x - (q.transformed m).a.x) * (ddOf (q.transformed m)).x
      + ((q.transformed m).c.y - (q.transformed m).a.y) * (ddOf (q.transformed m)).y
      = s * s * ((q.c.x - q.a.x) * (ddOf q).x + (q.c.y - q.a.y) * (ddOf q).y) := by
  rw [ddOf_sim]
  simp only [Quad.transformed, Xf.apply, Xf.lin, h.h22, h.h21, h.ss]; ring

theorem n2_sim (m : Xf K) (s : K) (h : IsSim m s) (q : Quad K) :
    ((q.transformed m).b.x - (q.transformed m).c.x) * (ddOf (q.transformed m)).x
      + ((q.transformed m).b.y - (q.transformed m).c.y) * (ddOf (q.transformed m)).y
      = s * s * ((q.b.x - q.c.x) * (ddOf q).x + (q.b.y - q.c.y) * (ddOf q).y) := by
  rw [ddOf_sim]
  simp only [Quad.transformed, Xf.apply, Xf.lin, h.h22, h.h21, h.ss]; ring

theorem d2_sim (m : Xf K) (s : K) (h : IsSim m s) (q : Quad K) :
    (ddOf (q.transformed m)).x * (ddOf (q.transformed m)).x
      + (ddOf (q.transformed m)).y * (ddOf (q.transformed m)).y
      = s * s * ((ddOf q).x * (ddOf q).x + (ddOf q).y * (ddOf q).y) := by
  rw [ddOf_sim]
  simp only [Xf.lin, h.h22, h.h21, h.ss]; ring

section transc
variable [Transc K] [FlatConst K]

/-- **flatParams_sim**: the flattening parameters of the transformed quadratic at `s·tol` are
those of the original at `tol` — the same record -/
theorem flatParams_sim (hsq : SqrtScales K) (m : Xf K) (s : K) (h : IsSim m s) (q : Quad K)
    (tol : K) : FlatParams.new (q.transformed m) (s * tol) = FlatParams.new q tol := by
  have hss : s * s ≠ 0 := ne_of_gt (ss_pos m s h)
  unfold FlatParams.new
  rw [isLinear_sim m s h]
  split
  · rfl
  · unfold FlatParams.general
    have hz : (FlatParams.flatCross (q.transformed m) == (zero : K))
        = (FlatParams.flatCross q == (zero : K)) := by
      rw [flatCross_sim m s h]
      rw [Bool.eq_iff_iff, sc_beq, sc_beq, show (zero : K) = 0 from sc_zero]
      constructor
      · intro h0; exact (mul_eq_zero.mp h0).resolve_left hss
      · intro h0; rw [h0, mul_zero]
    rw [hz]
    split
    · rfl
    · rw [generalCore_eq_coreOf, generalCore_eq_coreOf, n1_sim m s h, n2_sim m s h,
        flatCross_sim m s h, d2_sim m s h]
      exact coreOf_sim hsq s h.spos _ _ _ _ tol
        (add_nonneg (mul_self_nonneg _) (mul_self_nonneg _))

/-! ### the callback flattener of a quadratic -/

/-- a callback moved by a point map (ranges unchanged) -/
noncomputable def mapFlat (m : Xf K) (sg : FlatSeg K) : FlatSeg K := ⟨m.apply sg.a, m.apply sg.b, sg.t0, sg.t1⟩

theorem quad_sample_xf (m : Xf K) (q : Quad K) (t : K) :
    (q.transformed m).sample t = m.apply (q.sample t) := by
  apply P.ext' <;> simp only [Quad.transformed, Quad.sample, Xf.apply, geom] <;> push_cast <;> ring

theorem quad_flatLoop_xf (m : Xf K) (q : Quad K) (p : FlatParams K) (n : ℕ) (i : K) (frm : P K)
    (tFrom : K) :
    (q.transformed m).flatLoop p n i (m.apply frm) tFrom
      = (q.flatLoop p n i frm tFrom).map (mapFlat m) := by
  induction n generalizing i frm tFrom with
  | zero => simp [Quad.flatLoop, mapFlat, Quad.transformed]
  | succ n ih =>
    simp only [Quad.flatLoop, List.map_cons, mapFlat, quad_sample_xf, ih]

/-- **quad_flatten_sim**: `for_each_flattened_with_t` of the transformed quadratic at `s·tol` =
the transformed callbacks of the original at `tol` (same count, same `t`s, panic iff panic) -/
theorem quad_flatten_sim (hsq : SqrtScales K) (m : Xf K) (s : K) (h : IsSim m s) (q : Quad K)
    (tol : K) :
    (q.transformed m).forEachFlattenedWithT (s * tol)
      = (q.forEachFlattenedWithT tol).map (List.map (mapFlat m)) := by
  simp only [Quad.forEachFlattenedWithT, flatParams_sim hsq m s h, Option.map_map]
  congr 1
  funext n
  simp only [Function.comp, Quad.flatWith]
  exact quad_flatLoop_xf m q _ _ _ _ _

end transc

/-! ### cubics: `num_quadratics`, `split_range`, `to_quadratic`, the nested loops -/

theorem cubic_sample_xf (m : Xf K) (c : Cubic K) (t : K) :
    (c.transformed m).sample t = m.apply (c.sample t) := by
  apply P.ext' <;> simp only [Cubic.transformed, Cubic.sample, Xf.apply, geom] <;> push_cast <;> ring

theorem cubic_splitRange_xf (m : Xf K) (c : Cubic K) (t0 t1 : K) :
    (c.transformed m).splitRange t0 t1 = (c.splitRange t0 t1).transformed m := by
  have e : ∀ a b : Cubic K, a.a = b.a → a.c1 = b.c1 → a.c2 = b.c2 → a.b = b.b → a = b := by
    intro a b h1 h2 h3 h4; cases a; cases b; simp_all
  apply e <;> apply P.ext' <;>
    simp only [Cubic.transformed, Cubic.splitRange, Cubic.sample, Quad.sample, Xf.apply, geom] <;>
    push_cast <;> ring

theorem toQuadratic_xf (m : Xf K) (c : Cubic K) :
    (c.transformed m).toQuadratic = c.toQuadratic.transformed m := by
  have e : ∀ a b : Quad K, a.a = b.a → a.c = b.c → a.b = b.b → a = b := by
    intro a b h1 h2 h3; cases a; cases b; simp_all
  apply e <;> apply P.ext' <;>
    simp only [Cubic.transformed, Quad.transformed, Cubic.toQuadratic, Xf.apply, geom] <;>
    push_cast <;> ring

section transc
variable [Transc K] [FlatConst K]

theorem numQuadraticsImpl_sim (m : Xf K) (s : K) (h : IsSim m s) (c : Cubic K) (tol : K) :
    (c.transformed m).numQuadraticsImpl (s * tol) = c.numQuadraticsImpl tol := by
  have hss : s * s ≠ 0 := ne_of_gt (ss_pos m s h)
  have key : ∀ x y x' y' : K, x' = x * m.m11 - y * m.m12 → y' = x * m.m12 + y * m.m11 →
      (x' * x' + y' * y') / (ofNat 432 * (s * tol) * (s * tol))
        = (x * x + y * y) / (ofNat 432 * tol * tol) := by
    intro x y x' y' hx hy
    rw [hx, hy, show (x * m.m11 - y * m.m12) * (x * m.m11 - y * m.m12)
        + (x * m.m12 + y * m.m11) * (x * m.m12 + y * m.m11) = s * s * (x * x + y * y) by
          rw [h.ss]; ring,
      show (ofNat 432 : K) * (s * tol) * (s * tol) = s * s * (ofNat 432 * tol * tol) by ring,
      mul_div_mul_left _ _ hss]
  unfold Cubic.numQuadraticsImpl
  simp only []
  rw [key (c.a.x - three * c.c1.x + three * c.c2.x - c.b.x)
    (c.a.y - three * c.c1.y + three * c.c2.y - c.b.y)]
  · simp only [Cubic.transformed, Xf.apply, h.h22, h.h21, geom]; push_cast; ring
  · simp only [Cubic.transformed, Xf.apply, h.h22, h.h21, geom]; push_cast; ring

/-- a quadratic with its range, moved -/
noncomputable def mapQR (m : Xf K) (x : Quad K × K × K) : Quad K × K × K := (x.1.transformed m, x.2)

theorem quadsLoop_xf (m : Xf K) (c : Cubic K) (step : K) (n : ℕ) (t0 : K) :
    (c.transformed m).quadsLoop step n t0 = (c.quadsLoop step n t0).map (mapQR m) := by
  induction n generalizing t0 with
  | zero => simp [Cubic.quadsLoop, mapQR, cubic_splitRange_xf, toQuadratic_xf]
  | succ n ih => simp [Cubic.quadsLoop, mapQR, cubic_splitRange_xf, toQuadratic_xf, ih]

theorem rerange_xf (m : Xf K) (r0 len : K) (lq : Bool) (l : List (FlatSeg K)) (tFrom : K) :
    Cubic.rerange r0 len lq (l.map (mapFlat m)) tFrom
      = ((Cubic.rerange r0 len lq l tFrom).1.map (mapFlat m), (Cubic.rerange r0 len lq l tFrom).2) := by
  induction l generalizing tFrom with
  | nil => rfl
  | cons sg r ih =>
    simp only [List.map_cons, Cubic.rerange, mapFlat, ih]

theorem flatQuadsT_sim (hsq : SqrtScales K) (m : Xf K) (s : K) (h : IsSim m s) (tol : K)
    (qs : List (Quad K × K × K)) (tFrom : K) :
    Cubic.flatQuadsT (s * tol) (qs.map (mapQR m)) tFrom
      = (Cubic.flatQuadsT tol qs tFrom).map (List.map (mapFlat m)) := by
  induction qs generalizing tFrom with
  | nil => rfl
  | cons x rest ih =>
    obtain ⟨q, r0, r1⟩ := x
    simp only [List.map_cons, mapQR, Cubic.flatQuadsT, quad_flatten_sim hsq m s h]
    cases hq : q.forEachFlattenedWithT tol with
    | none => rfl
    | some l =>
      simp only [Option.map_some, rerange_xf, ih]
      cases hr : Cubic.flatQuadsT tol rest (Cubic.rerange r0 (r1 - r0) (r1 == one) l tFrom).2 with
      | none => rfl
      | some r => simp

/-- **cubic_flatten_sim**: the same for a cubic (its quadratic approximations, their number and
their flattening all commute with the similarity) -/
theorem cubic_flatten_sim (hsq : SqrtScales K) (m : Xf K) (s : K) (h : IsSim m s) (c : Cubic K)
    (tol : K) :
    (c.transformed m).forEachFlattenedWithT (s * tol)
      = (c.forEachFlattenedWithT tol).map (List.map (mapFlat m)) := by
  simp only [Cubic.forEachFlattenedWithT, Cubic.forEachQuadraticWithT, mul_assoc s tol,
    numQuadraticsImpl_sim m s h, quadsLoop_xf, flatQuadsT_sim hsq m s h]

end transc

end field

end Lyon.Adapt
