/-
  C02 growth 3 (`Props/C02f.lean`), part 11: a buffered chain of the advanced monotone tessellator
  as a list of vertex ids of the sweep sequence (`SideChain`), the CHORD-CLEAR condition under
  which `flush_side`'s fan of the chain is an ear sequence of the remaining polygon (`ChordClear`),
  and the invariant `Y3` that ties the inner tessellator to the two chains.

  * `SideChain seq l k s` — `s.events` are, in increasing order, the chain's head (the vertex it
    hangs from: the apex or a vertex of side `l` that was already forwarded) followed by ALL
    vertices of side `l` fed after the head (ids `< k`).
  * `ChordClear seq l s` — if the chain holds ≥ 3 ids, every vertex of the OTHER side that was fed
    between the chain's head and its last vertex lies weakly on its own side of the chord
    `head → last`.  (For a chain of 2 ids the chord is an edge of the polygon and `SweepValid`
    gives this: `chord_of_chain`.)
-/
import LyonVerif.Lemmas.MonotoneTileAdvFwd

set_option linter.unusedSectionVars false
set_option linter.unusedVariables false
set_option linter.unusedSimpArgs false

namespace Lyon.C02f
open Lyon Lyon.Mono Lyon.C02 Lyon.C02c

section Geometry
variable {K : Type} [Field K] [LinearOrder K] [IsStrictOrderedRing K]

theorem isAfter_iff (a b : P K) : isAfter a b = true ↔ After a b := by
  unfold isAfter After
  simp only [Bool.or_eq_true, Bool.and_eq_true, decide_eq_true_eq, sc_beq]

variable (seq : List (P K × Bool))

/-- on a valid sequence the sweep order of two fed positions is the order of their ids -/
theorem id_lt_of_after (hval : SweepValid seq) {i j : Nat} (hi : i < seq.length) (hj : j < seq.length)
    (h : After (posOf seq i) (posOf seq j)) : j < i := by
  by_contra hn
  rcases Nat.lt_or_ge i j with g | g
  · exact after_asymm h (valid_after hval g hj)
  · have : i = j := by omega
    rw [this] at h; exact after_irrefl _ h

theorem id_le_of_not_after (hval : SweepValid seq) {i j : Nat} (hi : i < seq.length) (hj : j < seq.length)
    (h : ¬ After (posOf seq i) (posOf seq j)) : i ≤ j := by
  by_contra hn
  exact h (valid_after hval (by omega) hi)

/-- id of the vertex the chain hangs from -/
def headId (s : SideEv K) : Nat := s.events.headD 0

structure SideChain (l : Bool) (k : Nat) (s : SideEv K) : Prop where
  ne : s.events ≠ []
  last : s.events.getLast? = some s.last.id
  good : Good (posOf seq) s.last
  inc : s.events.Pairwise (· < ·)
  lt : ∀ x ∈ s.events, x < k
  side : ∀ x ∈ s.events.tail, sideAt seq x = l
  hside : headId s = 0 ∨ sideAt seq (headId s) = l
  complete : ∀ j, headId s < j → j < k → sideAt seq j = l → j ∈ s.events

theorem SideChain.congr {l : Bool} {k : Nat} {s s' : SideEv K} (h : SideChain seq l k s)
    (he : s'.events = s.events) (hl : s'.last = s.last) : SideChain seq l k s' :=
  { ne := he ▸ h.ne, last := by rw [he, hl]; exact h.last, good := hl ▸ h.good, inc := he ▸ h.inc,
    lt := he ▸ h.lt, side := he ▸ h.side, hside := by simp only [headId, he]; exact h.hside,
    complete := by simp only [headId, he]; exact h.complete }

theorem SideChain.head_mem {l : Bool} {k : Nat} {s : SideEv K} (h : SideChain seq l k s) :
    s.events = headId s :: s.events.tail := by
  cases hs : s.events with
  | nil => exact absurd hs h.ne
  | cons a r => simp [headId, hs]

theorem SideChain.last_mem {l : Bool} {k : Nat} {s : SideEv K} (h : SideChain seq l k s) :
    s.last.id ∈ s.events := List.mem_of_getLast? h.last

/-- the last id is the largest -/
theorem SideChain.le_last {l : Bool} {k : Nat} {s : SideEv K} (h : SideChain seq l k s) :
    ∀ x ∈ s.events, x ≤ s.last.id := by
  have key : ∀ (ev : List Nat) (z : Nat), ev.Pairwise (· < ·) → ev.getLast? = some z → ∀ x ∈ ev, x ≤ z := by
    intro ev z
    induction ev with
    | nil => intro _ _ x hx; cases hx
    | cons a r ih =>
      intro hp hl x hx
      cases r with
      | nil =>
        simp only [List.getLast?_singleton, Option.some.injEq] at hl
        simp only [List.mem_singleton] at hx
        omega
      | cons b r' =>
        rw [List.getLast?_cons_cons] at hl
        rcases List.mem_cons.mp hx with e | e
        · have := List.rel_of_pairwise_cons hp (List.mem_of_getLast? hl)
          omega
        · exact ih (List.Pairwise.of_cons hp) hl x e
  exact key s.events s.last.id h.inc h.last

/-- with ≥ 2 ids the last one is in the tail, hence a side-`l` vertex after the head -/
theorem SideChain.last_tail {l : Bool} {k : Nat} {s : SideEv K} (h : SideChain seq l k s)
    (h2 : 2 ≤ s.events.length) : s.last.id ∈ s.events.tail ∧ headId s < s.last.id := by
  have hm := getLast_mem_tail s.events s.last.id h.last h2
  refine ⟨hm, ?_⟩
  have := h.inc
  rw [h.head_mem seq] at this
  exact List.rel_of_pairwise_cons this hm

/-- a chain of one id: head = last -/
theorem SideChain.single_head {l : Bool} {k : Nat} {s : SideEv K} (h : SideChain seq l k s)
    (h1 : s.events.length < 2) : s.events = [s.last.id] ∧ headId s = s.last.id := by
  have e := singleton_of_short s.events s.last.id h.ne h1 h.last
  exact ⟨e, by simp [headId, e]⟩

/-- the chain restarted from its last vertex (after a flush) -/
theorem SideChain.restart {l : Bool} {k : Nat} {s s' : SideEv K} (h : SideChain seq l k s)
    (h2 : 2 ≤ s.events.length) (he : s'.events = [s.last.id]) (hl : s'.last = s.last) : SideChain seq l k s' := by
  obtain ⟨hm, hlt⟩ := h.last_tail seq h2
  have hh : headId s' = s.last.id := by simp [headId, he]
  refine { ne := by rw [he]; simp, last := by rw [he, hl]; rfl, good := hl ▸ h.good, inc := by rw [he]; simp,
           lt := ?_, side := by rw [he]; simp, hside := ?_, complete := ?_ }
  · intro x hx
    rw [he, List.mem_singleton] at hx
    rw [hx]; exact h.lt _ (h.last_mem seq)
  · rw [hh]; exact Or.inr (h.side _ hm)
  · intro j hj1 hj2 hjs
    rw [hh] at hj1
    have := h.le_last seq j (h.complete j (by omega) hj2 hjs)
    omega

/-- buffering the next vertex -/
theorem SideChain.push {l : Bool} {k : Nat} {s : SideEv K} (h : SideChain seq l k s) (p : P K)
    (hp : posOf seq k = p) (hs : sideAt seq k = l) : SideChain seq l (k + 1) (s.push ⟨p, k, l⟩) := by
  have hhead : headId (s.push ⟨p, k, l⟩) = headId s := by
    simp only [headId, SideEv.push]
    cases hs' : s.events with
    | nil => exact absurd hs' h.ne
    | cons a r => simp
  have htail : (s.push ⟨p, k, l⟩).events.tail = s.events.tail ++ [k] := by
    simp only [SideEv.push]
    exact List.tail_append_of_ne_nil h.ne
  refine { ne := by simp [SideEv.push], last := by simp [SideEv.push], good := hp.symm, inc := ?_, lt := ?_,
           side := ?_, hside := by rw [hhead]; exact h.hside, complete := ?_ }
  · simp only [SideEv.push]
    rw [List.pairwise_append]
    refine ⟨h.inc, by simp, ?_⟩
    intro a ha b hb
    simp only [List.mem_singleton] at hb
    rw [hb]; exact h.lt a ha
  · intro x hx
    simp only [SideEv.push, List.mem_append, List.mem_singleton] at hx
    rcases hx with g | g
    · have := h.lt x g; omega
    · omega
  · intro x hx
    rw [htail, List.mem_append, List.mem_singleton] at hx
    rcases hx with g | g
    · exact h.side x g
    · rw [g]; exact hs
  · intro j hj1 hj2 hjs
    rw [hhead] at hj1
    simp only [SideEv.push, List.mem_append, List.mem_singleton]
    by_cases e : j = k
    · exact Or.inr e
    · exact Or.inl (h.complete j hj1 (by omega) hjs)

/-- more vertices fed on the other side -/
theorem SideChain.mono {l : Bool} {k : Nat} {s : SideEv K} (h : SideChain seq l k s)
    (hs : sideAt seq k ≠ l) : SideChain seq l (k + 1) s :=
  { h with
    lt := fun x hx => by have := h.lt x hx; omega
    complete := fun j hj1 hj2 hjs => by
      by_cases e : j = k
      · rw [e] at hjs; exact absurd hjs hs
      · exact h.complete j hj1 (by omega) hjs }

/-! ## the chord of a chain -/

/-- **the condition under which `flush_side`'s fan is an ear sequence**: no vertex of the other
side that lies between the chain's first and last vertex in sweep order is strictly beyond the
chord `first → last` -/
def ChordClear (l : Bool) (s : SideEv K) : Prop :=
  3 ≤ s.events.length → ∀ j, headId s < j → j < s.last.id → sideAt seq j = !l →
    0 ≤ sg (!l) * wind (posOf seq (headId s)) (posOf seq j) s.last.pos

theorem ChordClear.congr {l : Bool} {s s' : SideEv K} (h : ChordClear seq l s)
    (he : s'.events = s.events) (hl : s'.last = s.last) : ChordClear seq l s' := by
  unfold ChordClear at h ⊢
  simp only [headId, he, hl] at h ⊢
  exact h

theorem ChordClear.short {l : Bool} {s : SideEv K} (h : s.events.length < 3) : ChordClear seq l s := by
  intro h3; omega

/-- for a chain of ≥ 2 ids: every vertex of the other side between head and last is weakly on its
own side of the chord — from `ChordClear` (≥ 3 ids) or from `SweepValid` (2 ids: the chord is an
edge of the polygon) -/
theorem chord_of_chain (hval : SweepValid seq) {l : Bool} {k : Nat} {s : SideEv K} (h : SideChain seq l k s)
    (hk : k ≤ seq.length) (h2 : 2 ≤ s.events.length) (hc : ChordClear seq l s) :
    ∀ j, headId s < j → j < s.last.id → sideAt seq j = !l →
      0 ≤ sg (!l) * wind (posOf seq (headId s)) (posOf seq j) s.last.pos := by
  by_cases h3 : 3 ≤ s.events.length
  · exact hc h3
  · intro j hj1 hj2 hjs
    obtain ⟨hm, hlt⟩ := h.last_tail seq h2
    have hev : s.events = [headId s, s.last.id] := by
      have e := h.head_mem seq
      have hl := h.last
      match hs : s.events, h2, (not_le.mp h3) with
      | [a, b], _, _ =>
        rw [hs] at e hl
        simp only [List.tail_cons, List.cons.injEq, and_true] at e
        simp only [List.getLast?_cons_cons, List.getLast?_singleton, Option.some.injEq] at hl
        rw [← e, hl]
    have hln : s.last.id < seq.length := by have := h.lt _ (h.last_mem seq); omega
    have hrb : RunBetween seq (!l) (headId s) s.last.id := by
      refine ⟨?_, ?_, ?_⟩
      · intro i hi1 hi2
        by_contra hne
        have hsl : sideAt seq i = l := by revert hne; cases sideAt seq i <;> cases l <;> simp
        have := h.complete i hi2 (by have := h.lt _ (h.last_mem seq); omega) hsl
        rw [hev] at this
        simp only [List.mem_cons, List.not_mem_nil, or_false] at this
        omega
      · rcases h.hside with e | e
        · exact Or.inl e
        · right; rw [e, Bool.not_not]
      · right; rw [h.side _ hm, Bool.not_not]
    have := hval.2 s.last.id hln (headId s) hlt (!l) hrb j hj2 hj1
    rw [onSide_iff] at this
    rw [h.good]
    exact this.le

end Geometry

end Lyon.C02f
