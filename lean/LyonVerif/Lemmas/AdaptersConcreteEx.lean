/-
  C16 with the concrete flatteners — concrete instances used by the non-vacuity examples of
  `Props/C16b.lean` / `Props/C16c.lean`: a program over `ℚ` with a quadratic that `is_linear`
  accepts (flattened without a panic whatever `sqrt`/`ceil`/`to_u32` are), and `ℚ` with the
  genuine `ceil`/`floor` (`ratCeilTransc`) as a model of the laws `CountLaws`, `CeilLaws`,
  `SqrtLaws`.
-/
import LyonVerif.Model.Path.AdaptersConcrete
import LyonVerif.Lemmas.AdaptersConcreteAgree
import LyonVerif.Lemmas.AdaptersConcreteT
import LyonVerif.Lemmas.Flatten

set_option linter.unusedSectionVars false
set_option linter.unusedVariables false

namespace Lyon.Adapt
open Lyon Lyon.Path Scalar Lyon.Flat

section field
variable {K : Type} [Field K] [LinearOrder K] [IsStrictOrderedRing K] [Transc K] [FlatConst K]

/-- a quadratic `is_linear` accepts is flattened without a panic whatever `ceil`, `sqrt`,
`to_u32` are (count 0): used for the non-vacuity examples -/
theorem cbOkQuad_of_isLinear (tol : K) (a c b : P K)
    (h : (⟨a, c, b⟩ : Quad K).isLinear tol = true) : cbOkQuad tol a c b = true := by
  simp [cbOkQuad, Quad.forEachFlattenedWithT, FlatParams.new, h, FlatParams.linear, toU32,
    show (zero : K) = 0 from sc_zero, show (one : K) = 1 from sc_one, ofNat_eq]

end field

section ExamplesK
variable {K : Type} [Field K] [LinearOrder K] [IsStrictOrderedRing K]

noncomputable def exProg : List (Call (P K) (List K)) :=
  [.begin ⟨0, 0⟩ [1], .quad ⟨1, 1 / 8⟩ ⟨2, 0⟩ [3], .line ⟨3, 0⟩ [4], .end_ true]

theorem exLinear : (⟨⟨0, 0⟩, ⟨1, 1 / 8⟩, ⟨2, 0⟩⟩ : Quad K).isLinear (1 / 10) = true := by
  simp only [Quad.isLinear, segSqDist, segClosestPoint, geom]
  norm_num

theorem exLinear2 : (⟨⟨1, 1⟩, ⟨3, 5 / 4⟩, ⟨5, 1⟩⟩ : Quad K).isLinear (1 / 5) = true := by
  simp only [Quad.isLinear, segSqDist, segClosestPoint, geom]
  norm_num

theorem exOne : (((one : K)) == one) = true := (sc_beq _ _).mpr rfl

/-- the builder-side adapter does not panic on `exProg`, whatever the non-field functions are -/
theorem exBuilderOk (T : Transc K) (C : FlatConst K) :
    ∃ out, flatBuilderC (1 / 10 : K) ⟨0, 0⟩ 1 exProg = some out := by
  refine ⟨_, if_pos ?_⟩
  simp only [exProg, cbOkRun, Bool.and_eq_true, and_true]
  exact cbOkQuad_of_isLinear _ _ _ _ exLinear

/-- the iterator-side adapter finishes on the events of `exProg` (fuel 2), given `−EPSILON ≤ 1` -/
theorem exIterOk (T : Transc K) (C : FlatConst K) (he : (0 : K) - C.epsilon ≤ 1) :
    ∃ out, flatIterC 2 (1 / 10 : K) (specEvents exProg) = some out := by
  refine ⟨_, if_pos ?_⟩
  have hq : itOkQuad 2 (1 / 10 : K) ⟨0, 0⟩ ⟨1, 1 / 8⟩ ⟨2, 0⟩ = true := by
    have hat : (QuadIter.new (⟨⟨0, 0⟩, ⟨1, 1 / 8⟩, ⟨2, 0⟩⟩ : Quad K) (1 / 10)).atEnd = true := by
      simp only [QuadIter.atEnd, QuadIter.new, FlatParams.new, exLinear, if_true, FlatParams.linear,
        decide_eq_true_eq, show (zero : K) = 0 from sc_zero, show (one : K) = 1 from sc_one]
      exact he
    have hn : (QuadIter.new (⟨⟨0, 0⟩, ⟨1, 1 / 8⟩, ⟨2, 0⟩⟩ : Quad K) (1 / 10)).next
        = (some ⟨2, 0⟩, ⟨⟨⟨0, 0⟩, ⟨1, 1 / 8⟩, ⟨2, 0⟩⟩,
            FlatParams.new ⟨⟨0, 0⟩, ⟨1, 1 / 8⟩, ⟨2, 0⟩⟩ (1 / 10), one, true⟩) := by
      rw [QuadIter.next, if_neg (by simp [QuadIter.new]), if_pos hat]
      rfl
    have hn2 : (⟨⟨⟨0, 0⟩, ⟨1, 1 / 8⟩, ⟨2, 0⟩⟩,
            FlatParams.new ⟨⟨0, 0⟩, ⟨1, 1 / 8⟩, ⟨2, 0⟩⟩ (1 / 10), one, true⟩ : QuadIter K).next.1 = none := by
      rw [QuadIter.next, if_pos rfl]
    unfold itOkQuad
    rw [QuadIter.collectDone]
    simp only [hn]
    rw [QuadIter.collectDone]
    split
    · rfl
    · rename_i p s2 hp
      rw [hp] at hn2
      cases hn2
  simp only [exProg, specEvents, specFrom, itOkEvents, Bool.and_eq_true, and_true]
  exact hq

end ExamplesK

section Examples

/-- `CountLaws` holds of ℚ with the genuine `ceil`/`floor` -/
theorem ratCeil_countLaws : @CountLaws ℚ _ _ _ ratCeilTransc toyConst :=
  @CountLaws.mk ℚ _ _ _ ratCeilTransc toyConst (fun n => Nat.floor_natCast n) (fun x => ⟨⌈x⌉, rfl⟩)
    (by show (0 : ℚ) ≤ 1 / 10000; norm_num) (by show (1 / 10000 : ℚ) < 1; norm_num)


/-- … and `CeilLaws`, `SqrtLaws` (`sqrt := max · 0` is non-negative and monotone; `0.39 < 1`) -/
theorem ratCeil_ceilLaws : @CeilLaws ℚ _ _ _ ratCeilTransc toyConst :=
  @CeilLaws.mk ℚ _ _ _ ratCeilTransc toyConst ratCeil_countLaws (fun x => Int.ceil_lt_add_one x)

theorem ratCeil_sqrtLaws : @SqrtLaws ℚ _ _ _ ratCeilTransc toyConst :=
  @SqrtLaws.mk ℚ _ _ _ ratCeilTransc toyConst (fun x => le_max_right _ _)
    (fun x y _ h => max_le_max h le_rfl) (by show ((39 : ℕ) : ℚ) / 10 ^ 2 < 1; norm_num)

end Examples

end Lyon.Adapt
