/-
  C02 growth 3 (`Props/C02f.lean`), part 2b: the DEGENERATE ear.  Three collinear chain vertices
  `x, y, z` pass lyon's ear test (`cross ≥ 0`) and a zero-area triangle is emitted
  (`basic_collinear_zero_area_witness`).  As point sets nothing happens: the open triangle is empty
  and removing `y` from the chain does not change the region (`flat_chain`), so the step is still a
  `Tiles` step (`flat_tiles`) and the point-set theorems need no general-position hypothesis.
-/
import LyonVerif.Lemmas.MonotoneTileChain

set_option linter.unusedSectionVars false
set_option linter.unusedVariables false
set_option linter.unusedSimpArgs false

namespace Lyon.C02f
open Lyon Lyon.Mono Lyon.C02 Lyon.C02c

section Geometry
variable {K : Type} [Field K] [LinearOrder K] [IsStrictOrderedRing K]

/-- two parallel sweep directions see every vector on the same side -/
theorem par_sign {u v w : P K} (hu : Hv u) (hv : Hv v) (h0 : u.cross v = 0) :
    (0 < w.cross u ↔ 0 < w.cross v) ∧ (w.cross u < 0 ↔ w.cross v < 0) := by
  simp only [geom] at h0 ⊢
  have i1 : (w.x * v.y - w.y * v.x) * u.y = (w.x * u.y - w.y * u.x) * v.y := by linear_combination (w.y) * h0
  have i2 : (w.x * v.y - w.y * v.x) * u.x = (w.x * u.y - w.y * u.x) * v.x := by linear_combination (w.x) * h0
  rcases hu with huy | ⟨huy, hux⟩
  · have hvy : 0 < v.y := by
      rcases hv with g | ⟨g, gx⟩
      · exact g
      · exfalso
        rw [g] at h0
        have : u.y * v.x = 0 := by linarith
        rcases mul_eq_zero.mp this with e | e
        · linarith
        · linarith
    constructor
    · constructor
      · intro h
        have : 0 < (w.x * v.y - w.y * v.x) * u.y := by rw [i1]; exact mul_pos h hvy
        exact (pos_iff_pos_of_mul_pos this).mpr huy
      · intro h
        have : 0 < (w.x * u.y - w.y * u.x) * v.y := by rw [← i1]; exact mul_pos h huy
        exact (pos_iff_pos_of_mul_pos this).mpr hvy
    · constructor
      · intro h
        have : (w.x * v.y - w.y * v.x) * u.y < 0 := by rw [i1]; exact mul_neg_of_neg_of_pos h hvy
        by_contra hn
        have := mul_nonneg (not_lt.mp hn) huy.le
        linarith
      · intro h
        have : (w.x * u.y - w.y * u.x) * v.y < 0 := by rw [← i1]; exact mul_neg_of_neg_of_pos h huy
        by_contra hn
        have := mul_nonneg (not_lt.mp hn) hvy.le
        linarith
  · have hvy : v.y = 0 := by
      rw [huy] at h0
      have : u.x * v.y = 0 := by linarith
      rcases mul_eq_zero.mp this with e | e
      · linarith
      · exact e
    have hvx : 0 < v.x := by
      rcases hv with g | ⟨_, gx⟩
      · rw [hvy] at g; exact absurd g (lt_irrefl _)
      · exact gx
    constructor
    · constructor
      · intro h
        have : 0 < (w.x * v.y - w.y * v.x) * u.x := by rw [i2]; exact mul_pos h hvx
        exact (pos_iff_pos_of_mul_pos this).mpr hux
      · intro h
        have : 0 < (w.x * u.y - w.y * u.x) * v.x := by rw [← i2]; exact mul_pos h hux
        exact (pos_iff_pos_of_mul_pos this).mpr hvx
    · constructor
      · intro h
        have : (w.x * v.y - w.y * v.x) * u.x < 0 := by rw [i2]; exact mul_neg_of_neg_of_pos h hvx
        by_contra hn
        have := mul_nonneg (not_lt.mp hn) hux.le
        linarith
      · intro h
        have : (w.x * u.y - w.y * u.x) * v.x < 0 := by rw [← i2]; exact mul_neg_of_neg_of_pos h hux
        by_contra hn
        have := mul_nonneg (not_lt.mp hn) hvx.le
        linarith

theorem sg_pos_iff (c : Bool) {a b : K} (h : (0 < a ↔ 0 < b) ∧ (a < 0 ↔ b < 0)) :
    0 < sg c * a ↔ 0 < sg c * b := by
  cases c
  · simp only [sg, Bool.false_eq_true, if_false, neg_one_mul, Left.neg_pos_iff]; exact h.2
  · simp only [sg, if_true, one_mul]; exact h.1

/-- `y` on the segment `x z`: the half-plane tests of `x → y` and of `x → z` agree … -/
theorem flat_from_x (c : Bool) {x y z q : P K} (hyx : After y x) (hzx : After z x) (h0 : wind x y z = 0) :
    0 < sg c * wind x y q ↔ 0 < sg c * wind x z q := by
  rw [wind_cross_a x y q, wind_cross_a x z q]
  apply sg_pos_iff
  apply par_sign (after_hv hyx) (after_hv hzx)
  rw [wind_cross_a] at h0
  rw [cross_flip]; linarith

/-- … and so do those of `y → z` and of `x → z` -/
theorem flat_to_z (c : Bool) {x y z q : P K} (hzy : After z y) (hzx : After z x) (h0 : wind x y z = 0) :
    0 < sg c * wind y z q ↔ 0 < sg c * wind x z q := by
  have e1 : wind y z q = (z - q).cross (z - y) * (-1) := by simp only [wind]; geom_ring
  have e2 : wind x z q = (z - q).cross (z - x) * (-1) := by simp only [wind]; geom_ring
  have e0 : (z - y).cross (z - x) = 0 := by
    have : (z - y).cross (z - x) = wind x y z := by simp only [wind]; geom_ring
    rw [this, h0]
  have hp := par_sign (w := z - q) (after_hv hzy) (after_hv hzx) e0
  rw [e1, e2]
  cases c
  · simp only [sg, Bool.false_eq_true, if_false]
    constructor <;> intro h
    · have := hp.1.mp (by linarith); linarith
    · have := hp.1.mpr (by linarith); linarith
  · simp only [sg, if_true, one_mul]
    constructor <;> intro h
    · have := hp.2.mp (by linarith); linarith
    · have := hp.2.mpr (by linarith); linarith

variable (c : Bool) (A B : List (P K)) {x y z : P K}

/-- removing a collinear middle vertex does not change the side of the chain -/
theorem flat_chain (hyx : After y x) (hzy : After z y) (h0 : wind x y z = 0) (q : P K) :
    ChainIn c (A ++ x :: y :: z :: B) q ↔ ChainIn c (A ++ x :: z :: B) q := by
  have hzx := after_trans hzy hyx
  rw [chainIn_append c A x (y :: z :: B), chainIn_append c A x (z :: B)]
  constructor
  · rintro (h | ⟨⟨hqx, hyq⟩, hin⟩ | ⟨⟨hqy, hzq⟩, hin⟩ | h)
    · exact Or.inl h
    · exact Or.inr (Or.inl ⟨⟨hqx, after_trans hzy hyq⟩, (flat_from_x c hyx hzx h0).mp hin⟩)
    · exact Or.inr (Or.inl ⟨⟨Or.inr (afterEq_trans_after hqy hyx), hzq⟩, (flat_to_z c hzy hzx h0).mp hin⟩)
    · exact Or.inr (Or.inr h)
  · rintro (h | ⟨⟨hqx, hzq⟩, hin⟩ | h)
    · exact Or.inl h
    · right
      rcases after_total y q with g | g | g
      · exact Or.inl ⟨⟨hqx, g⟩, (flat_from_x c hyx hzx h0).mpr hin⟩
      · exact Or.inr (Or.inl ⟨⟨Or.inl g.symm, hzq⟩, (flat_to_z c hzy hzx h0).mpr hin⟩)
      · exact Or.inr (Or.inl ⟨⟨Or.inr g, hzq⟩, (flat_to_z c hzy hzx h0).mpr hin⟩)
    · exact Or.inr (Or.inr (Or.inr h))

/-- **a degenerate ear cut**: the (empty) open triangle and the unchanged region -/
theorem flat_tiles (O : List (P K)) (hyx : After y x) (hzy : After z y) (h0 : wind x y z = 0) :
    Tiles (InPoly c (A ++ x :: y :: z :: B) O) (fun (_ : Unit) => InTriS c x y z)
      (fun _ => InTriSC c x y z) [()] (InPoly c (A ++ x :: z :: B) O) := by
  have hempty : ∀ q, ¬ InTriS c x y z q := by
    intro q hq
    have := inTriS_pos hq
    rw [h0] at this; simp at this
  refine ⟨fun _ _ q hq => absurd hq (hempty q), ?_, fun _ _ q hq => absurd hq (hempty q), by simp, ?_⟩
  · rintro q ⟨h1, h2⟩
    exact ⟨(flat_chain c A B hyx hzy h0 q).mpr h1, h2⟩
  · rintro q ⟨h1, h2⟩
    exact Or.inl ⟨(flat_chain c A B hyx hzy h0 q).mp h1, h2⟩

end Geometry

end Lyon.C02f
