/-
  C02 growth 5 (`Props/C02h.lean`), part 4: the run of the advanced tessellator as `Tiles` steps on
  the fine remaining polygon WITHOUT general position (`adv_run_tilesW`): the proofs of
  `MonotoneTileAdvSetCov3.lean` over `ff_tilesW`.
-/
import LyonVerif.Lemmas.MonotoneTileAdvAllFF

set_option linter.unusedSectionVars false
set_option linter.unusedVariables false
set_option linter.unusedSimpArgs false

namespace Lyon.C02f
open Lyon Lyon.Mono Lyon.C02 Lyon.C02c

section Geometry
variable {K : Type} [Field K] [LinearOrder K] [IsStrictOrderedRing K]

variable (seq : List (P K × Bool))


/-- `flushOpp` as a `Tiles` step, with the invariants of the result -/
theorem flushOpp_tW (hval : SweepValid seq) (h2 : 2 ≤ seq.length) (tess : Basic K)
    (a b : SideEv K) (l : Bool) (k : Nat) (hk : k + 1 ≤ seq.length) (hk1 : 1 ≤ k) (w : W3 seq l k tess a b)
    (haft : After a.last.pos b.last.pos) :
    W3 seq l k (flushOpp tess a b l).1 (flushOpp tess a b l).2.1 (flushOpp tess a b l).2.2 ∧
    (flushOpp tess a b l).2.1.events = a.events ∧ (flushOpp tess a b l).2.1.last = a.last ∧
    (flushOpp tess a b l).2.2.events.length < 2 ∧
    ∃ nt, (flushOpp tess a b l).1.tris = tess.tris ++ nt ∧
      Tiles (Rg3 seq l tess a b k) (TriIn (posOf seq)) (TriInC (posOf seq)) nt
        (Rg3 seq l (flushOpp tess a b l).1 (flushOpp tess a b l).2.1 (flushOpp tess a b l).2.2 k) := by
  obtain ⟨y1, _, y3, y4, y5, y6⟩ := flushOpp_y seq hval tess a b l k (by omega) w.y w.hb haft
  refine ⟨⟨y1, w.ha.congr seq y3 y4, ChordClear.short seq (by omega), w.na.congr y3 ?_ y4, ?_⟩, y3, y4, y6, ?_⟩
  · unfold flushOpp; split <;> rfl
  · -- the other chain after the flush
    unfold flushOpp
    rcases flushSide_cases b l with ⟨hl, e⟩ | ⟨hl, e1, e2, e3, e4⟩
    · rw [e]; exact w.nb
    · rw [e4]
      exact CInv.single (by rw [e1, e2]) (e2 ▸ w.nb.good)
  · unfold flushOpp
    rcases flushSide_cases b l with ⟨hl, e⟩ | ⟨hl, e1, e2, e3, e4⟩
    · rw [e]; exact ⟨[], by simp, Tiles.refl _ _ _⟩
    · rw [e4]
      have hlt : 2 ≤ a.events.length → b.last.id < a.last.id := by
        intro _
        have ha := w.y.ca.good
        have hb := w.y.cb.good
        unfold Good at ha hb
        rw [ha, hb] at haft
        exact id_lt_of_after seq hval (by have := w.y.ca.lt _ (w.y.ca.last_mem seq); omega)
          (by have := w.y.cb.lt _ (w.y.cb.last_mem seq); omega) haft
      obtain ⟨nt, e, t⟩ := ff_tilesW seq hval h2 (W3.symm seq w) hk hk1 hl hlt (flushSide b l).1 e1
      rw [Bool.not_not] at e t
      rw [Rg3_symm, Rg3_symm] at t
      refine ⟨(flushSide b l).2.1 ++ nt, ?_, ?_⟩
      · show ((tess.pushTris (flushSide b l).2.1).vertex b.last).tris = _
        rw [e3, e, List.append_assoc]
      · show Tiles _ _ _ _ (Rg3 seq l ((tess.pushTris (flushSide b l).2.1).vertex b.last)
          { a with consRefX := a.refPt.x } (flushSide b l).1 k)
        have eq : Rg3 seq l ((tess.pushTris (flushSide b l).2.1).vertex b.last)
            ({ a with consRefX := a.refPt.x } : SideEv K) (flushSide b l).1 k =
            Rg3 seq l ((tess.pushTris (flushSide b l).2.1).vertex b.last) a (flushSide b l).1 k :=
          Rg3_congr seq l _ k rfl rfl
        rw [eq, e3]
        exact t

/-- `flushOwn` as a `Tiles` step -/
theorem flushOwn_tW (hval : SweepValid seq) (h2 : 2 ≤ seq.length) (tess : Basic K)
    (a b : SideEv K) (p : P K) (l : Bool) (k : Nat) (hk : k + 1 ≤ seq.length) (hk1 : 1 ≤ k) (w : W3 seq l k tess a b)
    (hord : 2 ≤ b.events.length → a.last.id < b.last.id) :
    (flushOwn tess a b p l).2.1.events ≠ [] ∧
    ∃ nt, (flushOwn tess a b p l).1.tris = tess.tris ++ nt ∧
      Tiles (Rg3 seq l tess a b k) (TriIn (posOf seq)) (TriInC (posOf seq)) nt
        (Rg3 seq l (flushOwn tess a b p l).1 (flushOwn tess a b p l).2.1 (flushOwn tess a b p l).2.2 k) := by
  unfold flushOwn
  rcases flushSide_cases a (!l) with ⟨hl, e⟩ | ⟨hl, e1, e2, e3, e4⟩
  · rw [e]; exact ⟨w.y.ca.ne, [], by simp, Tiles.refl _ _ _⟩
  · rw [e4]
    have r1 : (reRef (flushSide a !l).1 p l).events = [a.last.id] := e1
    obtain ⟨nt, e, t⟩ := ff_tilesW seq hval h2 w hk hk1 hl hord (reRef (flushSide a !l).1 p l) r1
    refine ⟨by show (reRef (flushSide a !l).1 p l).events ≠ []; rw [r1]; simp, (flushSide a !l).2.1 ++ nt, ?_, ?_⟩
    · show ((tess.pushTris (flushSide a !l).2.1).vertex a.last).tris = _
      rw [e3, e, List.append_assoc]
    · show Tiles _ _ _ _ (Rg3 seq l ((tess.pushTris (flushSide a !l).2.1).vertex a.last)
        (reRef (flushSide a !l).1 p l) { b with consRefX := b.refPt.x } k)
      have eq : Rg3 seq l ((tess.pushTris (flushSide a !l).2.1).vertex a.last) (reRef (flushSide a !l).1 p l)
          ({ b with consRefX := b.refPt.x } : SideEv K) k =
          Rg3 seq l ((tess.pushTris (flushSide a !l).2.1).vertex a.last) (reRef (flushSide a !l).1 p l) b k :=
        Rg3_congr seq l _ k rfl rfl
      rw [eq, e3]
      exact t

/-- **one `vertex` call on the triple** as a `Tiles` step on the fine remaining polygon -/
theorem stepSides_tW (hval : SweepValid seq) (h2 : 2 ≤ seq.length) (tess : Basic K)
    (a b : SideEv K) (dx : K) (p : P K) (l : Bool) (k : Nat) (hk : k + 1 < seq.length) (hk1 : 1 ≤ k)
    (w : W3 seq l k tess a b) (hp : posOf seq k = p) (hs : sideAt seq k = l) :
    ∃ nt, (stepSides tess a b dx p k l).1.tris = tess.tris ++ nt ∧
      Tiles (Rg3 seq l tess a b k) (TriIn (posOf seq)) (TriInC (posOf seq)) nt
        (Rg3 seq l (stepSides tess a b dx p k l).1 (stepSides tess a b dx p k l).2.1 (stepSides tess a b dx p k l).2.2
          (k + 1)) := by
  dsimp only [stepSides]
  by_cases hcond : (outwardTurn a p l (decide (dx < (p.y - a.refPt.y) * Scalar.ofSci 1 1)) ||
        decide (dx < (p.y - a.refPt.y) * Scalar.ofSci 1 1)) = true
  · rw [if_pos hcond]
    have han : a.last.id < seq.length := by have := w.y.ca.lt _ (w.y.ca.last_mem seq); omega
    have hbn : b.last.id < seq.length := by have := w.y.cb.lt _ (w.y.cb.last_mem seq); omega
    have h1 : W3 seq l k (if isAfter a.last.pos b.last.pos then flushOpp tess a b l else (tess, a, b)).1
          (if isAfter a.last.pos b.last.pos then flushOpp tess a b l else (tess, a, b)).2.1
          (if isAfter a.last.pos b.last.pos then flushOpp tess a b l else (tess, a, b)).2.2 ∧
        (2 ≤ (if isAfter a.last.pos b.last.pos then flushOpp tess a b l else (tess, a, b)).2.2.events.length →
          (if isAfter a.last.pos b.last.pos then flushOpp tess a b l else (tess, a, b)).2.1.last.id <
            (if isAfter a.last.pos b.last.pos then flushOpp tess a b l else (tess, a, b)).2.2.last.id) ∧
        ∃ nt, (if isAfter a.last.pos b.last.pos then flushOpp tess a b l else (tess, a, b)).1.tris = tess.tris ++ nt ∧
          Tiles (Rg3 seq l tess a b k) (TriIn (posOf seq)) (TriInC (posOf seq)) nt
            (Rg3 seq l (if isAfter a.last.pos b.last.pos then flushOpp tess a b l else (tess, a, b)).1
              (if isAfter a.last.pos b.last.pos then flushOpp tess a b l else (tess, a, b)).2.1
              (if isAfter a.last.pos b.last.pos then flushOpp tess a b l else (tess, a, b)).2.2 k) := by
      split
      · rename_i hia
        obtain ⟨g1, _, _, g4, g5⟩ := flushOpp_tW seq hval h2 tess a b l k (by omega) hk1 w ((isAfter_iff _ _).mp hia)
        exact ⟨g1, fun g => by omega, g5⟩
      · rename_i hia
        refine ⟨w, ?_, [], by simp, Tiles.refl _ _ _⟩
        intro h2'
        have h2'' : 2 ≤ b.events.length := h2'
        have hna : ¬ After a.last.pos b.last.pos := fun g => hia ((isAfter_iff _ _).mpr g)
        have ha := w.y.ca.good
        have hb := w.y.cb.good
        unfold Good at ha hb
        rw [ha, hb] at hna
        have := id_le_of_not_after seq hval han hbn hna
        have := w.y.ends_ne seq h2''
        show a.last.id < b.last.id
        omega
    generalize (if isAfter a.last.pos b.last.pos then flushOpp tess a b l else (tess, a, b)) = r1 at h1 ⊢
    obtain ⟨r1t, r1a, r1b⟩ := r1
    obtain ⟨w1, ho1, nt1, e1, t1⟩ := h1
    have w1' : W3 seq l k r1t r1a r1b := w1
    have ho1' : 2 ≤ r1b.events.length → r1a.last.id < r1b.last.id := ho1
    have e1' : r1t.tris = tess.tris ++ nt1 := e1
    have t1' : Tiles (Rg3 seq l tess a b k) (TriIn (posOf seq)) (TriInC (posOf seq)) nt1 (Rg3 seq l r1t r1a r1b k) := t1
    obtain ⟨hne, nt2, e2, t2⟩ := flushOwn_tW seq hval h2 r1t r1a r1b p l k (by omega) hk1 w1' ho1'
    show ∃ nt, (flushOwn r1t r1a r1b p l).1.tris = tess.tris ++ nt ∧
      Tiles _ _ _ nt (Rg3 seq l (flushOwn r1t r1a r1b p l).1 ((flushOwn r1t r1a r1b p l).2.1.push ⟨p, k, l⟩)
        (flushOwn r1t r1a r1b p l).2.2 (k + 1))
    rw [rg_push seq l _ _ _ p k hk hp hs hne]
    exact ⟨nt1 ++ nt2, by rw [e2, e1', List.append_assoc], t1'.trans t2⟩
  · rw [if_neg hcond]
    show ∃ nt, tess.tris = tess.tris ++ nt ∧ Tiles _ _ _ nt (Rg3 seq l tess (a.push ⟨p, k, l⟩) b (k + 1))
    rw [rg_push seq l _ _ _ p k hk hp hs w.y.ca.ne]
    exact ⟨[], by simp, Tiles.refl _ _ _⟩


/-- flush and forward without touching the triangle list: the fan is accounted for separately -/
theorem ff_tiles_anyW (hval : SweepValid seq) (h2 : 2 ≤ seq.length) {l : Bool} {k : Nat}
    {tess : Basic K} {a b : SideEv K} (w : W3 seq l k tess a b) (hk : k + 1 ≤ seq.length) (hk1 : 1 ≤ k)
    (hl2 : 2 ≤ a.events.length) (hord : 2 ≤ b.events.length → a.last.id < b.last.id)
    (a' : SideEv K) (he : a'.events = [a.last.id]) :
    ∃ nt, (tess.vertex a.last).tris = tess.tris ++ nt ∧
      Tiles (Rg3 seq l tess a b k) (TriIn (posOf seq)) (TriInC (posOf seq))
        (flushLevels a.events.toArray a.events.length (!l) (a.events.length + 1) 1 ++ nt)
        (Rg3 seq l (tess.vertex a.last) a' b k) := by
  obtain ⟨nt0, e0, t0⟩ := ff_tilesW seq hval h2 w hk hk1 hl2 hord a' he
  obtain ⟨c1, c2, nt, e1, e2⟩ := vertex_congr_tris
    (tess.pushTris (flushLevels a.events.toArray a.events.length (!l) (a.events.length + 1) 1)) tess a.last rfl rfl
  have : nt = nt0 := by
    rw [e0] at e1
    simp only [Basic.pushTris] at e1
    exact (List.append_cancel_left e1).symm
  subst this
  refine ⟨nt, e2, ?_⟩
  rw [← Rg3_tess_congr seq l a' b k c1 c2]
  exact t0


/-- **`Adv.vertex`** as a `Tiles` step -/
theorem vertex_tW (hval : SweepValid seq) (h2 : 2 ≤ seq.length) (st : Adv K) (p : P K)
    (k : Nat) (l : Bool) (hk : k + 1 < seq.length) (hk1 : 1 ≤ k) (h : WA seq k st) (hp : posOf seq k = p)
    (hs : sideAt seq k = l) :
    ∃ nt, (st.vertex p k l).tess.tris = st.tess.tris ++ nt ∧
      Tiles (RgA seq st k) (TriIn (posOf seq)) (TriInC (posOf seq)) nt (RgA seq (st.vertex p k l) (k + 1)) := by
  have w := h.w3 seq
  rw [vertex_eq]
  cases l
  · have wu : W3 seq false k (updRef st p false).tess (updRef st p false).right (updRef st p false).left :=
      ⟨(Y3.symm seq w.y).congr seq rfl rfl rfl rfl, w.hb.congr seq rfl rfl,
        by rw [Bool.not_false]; exact w.ha.congr seq rfl rfl, w.nb.congr rfl rfl rfl,
        by rw [Bool.not_false]; exact w.na.congr rfl rfl rfl⟩
    obtain ⟨nt, e, t⟩ := stepSides_tW seq hval h2 _ _ _
      ((updRef st p false).right.consRefX - (updRef st p false).left.consRefX) p false k hk hk1 wu hp hs
    refine ⟨nt, ?_, ?_⟩
    · simp only [vertex', Bool.false_eq_true, if_false]; exact e
    · have e1 : RgA seq st k = Rg3 seq false (updRef st p false).tess (updRef st p false).right (updRef st p false).left k := by
        unfold RgA
        rw [← Rg3_symm seq false]
        exact (Rg3_congr seq (!false) st.tess k rfl rfl).symm
      rw [e1]
      simp only [vertex', Bool.false_eq_true, if_false, RgA]
      have e2 := Rg3_symm seq false
        (stepSides (updRef st p false).tess (updRef st p false).right (updRef st p false).left
          ((updRef st p false).right.consRefX - (updRef st p false).left.consRefX) p k false).1
        (stepSides (updRef st p false).tess (updRef st p false).right (updRef st p false).left
          ((updRef st p false).right.consRefX - (updRef st p false).left.consRefX) p k false).2.1
        (stepSides (updRef st p false).tess (updRef st p false).right (updRef st p false).left
          ((updRef st p false).right.consRefX - (updRef st p false).left.consRefX) p k false).2.2 (k + 1)
      simp only [Bool.not_false] at e2
      rw [e2]
      exact t
  · have wu : W3 seq true k (updRef st p true).tess (updRef st p true).left (updRef st p true).right :=
      ⟨w.y.congr seq rfl rfl rfl rfl, w.ha.congr seq rfl rfl, w.hb.congr seq rfl rfl, w.na.congr rfl rfl rfl,
        w.nb.congr rfl rfl rfl⟩
    obtain ⟨nt, e, t⟩ := stepSides_tW seq hval h2 _ _ _
      ((updRef st p true).right.consRefX - (updRef st p true).left.consRefX) p true k hk hk1 wu hp hs
    refine ⟨nt, ?_, ?_⟩
    · simp only [vertex', if_true]; exact e
    · have e1 : RgA seq st k = Rg3 seq true (updRef st p true).tess (updRef st p true).left (updRef st p true).right k := by
        unfold RgA
        exact (Rg3_congr seq true st.tess k rfl rfl).symm
      rw [e1]
      simp only [vertex', if_true, RgA]
      exact t


/-- flush-and-forward of chain `a` with the invariants of the new state -/
theorem ff_end_stepW (hval : SweepValid seq) (h2 : 2 ≤ seq.length) {l : Bool} {k : Nat}
    {X : Basic K} {a b : SideEv K} (w : W3 seq l k X a b) (hk : k + 1 ≤ seq.length) (hk1 : 1 ≤ k)
    (hl2 : 2 ≤ a.events.length) (hord : 2 ≤ b.events.length → a.last.id < b.last.id)
    (a' : SideEv K) (he : a'.events = [a.last.id]) (hla : a'.last = a.last) :
    ∃ nt, (X.vertex a.last).tris = X.tris ++ nt ∧
      Tiles (Rg3 seq l X a b k) (TriIn (posOf seq)) (TriInC (posOf seq))
        (flushLevels a.events.toArray a.events.length (!l) (a.events.length + 1) 1 ++ nt)
        (Rg3 seq l (X.vertex a.last) a' b k) ∧
      W3 seq l k (X.vertex a.last) a' b := by
  obtain ⟨nt, e, t⟩ := ff_tiles_anyW seq hval h2 w hk hk1 hl2 hord a' he
  exact ⟨nt, e, t, w.fwd seq hval (by omega) hl2 hord a' he hla⟩

/-- **`Adv.end_`** -/
theorem end_tW (hval : SweepValid seq) (h2 : 2 ≤ seq.length) (st : Adv K) (k : Nat)
    (hk : k + 1 = seq.length) (hk1 : 1 ≤ k) (h : WA seq k st) :
    ∃ nt R', (st.end_ (posOf seq k) k).tris = st.tess.tris ++ nt ∧
      Tiles (RgA seq st k) (TriIn (posOf seq)) (TriInC (posOf seq)) nt R' ∧ ∀ q, ¬ R' q := by
  have w := h.w3 seq
  rw [end_eq]
  unfold endCore RgA
  have hgl := w.y.ca.good
  have hgr := w.y.cb.good
  unfold Good at hgl hgr
  have hln : st.left.last.id < seq.length := by have := w.y.ca.lt _ (w.y.ca.last_mem seq); omega
  have hrn : st.right.last.id < seq.length := by have := w.y.cb.lt _ (w.y.cb.last_mem seq); omega
  rcases flushSide_cases st.left false with ⟨ha, ea⟩ | ⟨ha, a1, a2, a3, a4⟩ <;>
  rcases flushSide_cases st.right true with ⟨hb, eb⟩ | ⟨hb, b1, b2, b3, b4⟩
  · simp only [ea, eb, Option.isSome_none, Bool.false_eq_true, if_false, pushTris_nil]
    exact end_vertex_tC seq hval w hk ha hb
  · -- only the right chain is flushed
    simp only [ea, b3, b4, Option.isSome_none, Option.isSome_some, Bool.false_eq_true, if_false, if_true, pushTris_nil]
    have w1 := W3.symm seq (w.pushTris seq (flushLevels st.right.events.toArray st.right.events.length true
      (st.right.events.length + 1) 1))
    obtain ⟨nR, e1, t1, w2⟩ := ff_end_stepW seq hval h2 w1 (by omega) hk1 hb (fun g => by omega)
      (flushSide st.right true).1 b1 b2
    obtain ⟨nE, R', e2, t2, hemp⟩ := end_vertex_tC seq hval w2 hk (by rw [b1]; simp) ha
    refine ⟨flushLevels st.right.events.toArray st.right.events.length true (st.right.events.length + 1) 1 ++ nR ++ nE,
      R', ?_, ?_, hemp⟩
    · rw [e2, e1]; simp [Basic.pushTris, List.append_assoc]
    · have e0 : Rg3 seq true st.tess st.left st.right k = Rg3 seq (!true)
          (st.tess.pushTris (flushLevels st.right.events.toArray st.right.events.length true (st.right.events.length + 1) 1))
          st.right st.left k := by
        rw [Rg3_symm]; exact Rg3_tess_congr seq true _ _ k rfl rfl
      rw [e0]
      simp only [Bool.not_true, Bool.not_false] at t1 t2 ⊢
      exact t1.trans t2
  · -- only the left chain is flushed
    simp only [eb, a3, a4, Option.isSome_none, Option.isSome_some, Bool.false_eq_true, if_false, if_true, pushTris_nil]
    have w1 := w.pushTris seq (flushLevels st.left.events.toArray st.left.events.length false
      (st.left.events.length + 1) 1)
    obtain ⟨nL, e1, t1, w2⟩ := ff_end_stepW seq hval h2 w1 (by omega) hk1 ha (fun g => by omega)
      (flushSide st.left false).1 a1 a2
    obtain ⟨nE, R', e2, t2, hemp⟩ := end_vertex_tC seq hval w2 hk (by rw [a1]; simp) hb
    refine ⟨flushLevels st.left.events.toArray st.left.events.length false (st.left.events.length + 1) 1 ++ nL ++ nE,
      R', ?_, ?_, hemp⟩
    · rw [e2, e1]; simp [Basic.pushTris, List.append_assoc]
    · have e0 : Rg3 seq true st.tess st.left st.right k = Rg3 seq true
          (st.tess.pushTris (flushLevels st.left.events.toArray st.left.events.length false (st.left.events.length + 1) 1))
          st.left st.right k := Rg3_tess_congr seq true _ _ k rfl rfl
      rw [e0]
      simp only [Bool.not_true, Bool.not_false] at t1 t2 ⊢
      exact t1.trans t2
  · -- both chains are flushed
    simp only [a3, a4, b3, b4, Option.isSome_some, if_true]
    have w0 := (w.pushTris seq (flushLevels st.left.events.toArray st.left.events.length false
      (st.left.events.length + 1) 1)).pushTris seq (flushLevels st.right.events.toArray st.right.events.length true
      (st.right.events.length + 1) 1)
    have e0 : Rg3 seq true st.tess st.left st.right k = Rg3 seq true
        ((st.tess.pushTris (flushLevels st.left.events.toArray st.left.events.length false (st.left.events.length + 1) 1)).pushTris
          (flushLevels st.right.events.toArray st.right.events.length true (st.right.events.length + 1) 1))
        st.left st.right k := Rg3_tess_congr seq true _ _ k rfl rfl
    rw [e0]
    have hT : ((st.tess.pushTris (flushLevels st.left.events.toArray st.left.events.length false (st.left.events.length + 1) 1)).pushTris
          (flushLevels st.right.events.toArray st.right.events.length true (st.right.events.length + 1) 1)).tris =
        st.tess.tris ++ flushLevels st.left.events.toArray st.left.events.length false (st.left.events.length + 1) 1 ++
          flushLevels st.right.events.toArray st.right.events.length true (st.right.events.length + 1) 1 := by
      simp [Basic.pushTris]
    generalize ((st.tess.pushTris (flushLevels st.left.events.toArray st.left.events.length false (st.left.events.length + 1) 1)).pushTris
          (flushLevels st.right.events.toArray st.right.events.length true (st.right.events.length + 1) 1)) = X0 at w0 hT ⊢
    split
    · -- the right end comes first
      rename_i hia
      have haft := (isAfter_iff _ _).mp hia
      rw [hgl, hgr] at haft
      have hlt := id_lt_of_after seq hval hln hrn haft
      obtain ⟨nR, e1, t1, w1⟩ := ff_end_stepW seq hval h2 (W3.symm seq w0) (by omega) hk1 hb (fun _ => hlt)
        (flushSide st.right true).1 b1 b2
      obtain ⟨nL, e2, t2, w2⟩ := ff_end_stepW seq hval h2 (W3.symm seq w1) (by omega) hk1 ha
        (fun g => by rw [b1] at g; simp at g) (flushSide st.left false).1 a1 a2
      obtain ⟨nE, R', e3, t3, hemp⟩ := end_vertex_tC seq hval w2 hk (by rw [a1]; simp) (by rw [b1]; simp)
      simp only [Bool.not_true, Bool.not_false] at t1 t2 t3 w1 w2
      have eqA : Rg3 seq false X0 st.right st.left k = Rg3 seq true X0 st.left st.right k := by
        have := Rg3_symm seq true X0 st.left st.right k
        simpa only [Bool.not_true] using this
      have eqB : Rg3 seq false (X0.vertex st.right.last) (flushSide st.right true).1 st.left k =
          Rg3 seq true (X0.vertex st.right.last) st.left (flushSide st.right true).1 k := by
        have := Rg3_symm seq true (X0.vertex st.right.last) st.left (flushSide st.right true).1 k
        simpa only [Bool.not_true] using this
      rw [eqA, eqB] at t1
      have t12 := (t1.trans t2).trans t3
      refine ⟨flushLevels st.left.events.toArray st.left.events.length false (st.left.events.length + 1) 1 ++
          flushLevels st.right.events.toArray st.right.events.length true (st.right.events.length + 1) 1 ++ nR ++ nL ++ nE,
        R', ?_, t12.perm (perm_move_front _ _ _ _ _), hemp⟩
      rw [e3, e2, e1, hT]; simp [List.append_assoc]
    · -- the left end comes first
      rename_i hia
      have hna : ¬ After st.left.last.pos st.right.last.pos := fun g => hia ((isAfter_iff _ _).mpr g)
      rw [hgl, hgr] at hna
      have hle := id_le_of_not_after seq hval hln hrn hna
      have hne := w.y.ends_ne seq hb
      obtain ⟨nL, e1, t1, w1⟩ := ff_end_stepW seq hval h2 w0 (by omega) hk1 ha (fun _ => by omega)
        (flushSide st.left false).1 a1 a2
      obtain ⟨nR, e2, t2, w2⟩ := ff_end_stepW seq hval h2 (W3.symm seq w1) (by omega) hk1 hb
        (fun g => by rw [a1] at g; simp at g) (flushSide st.right true).1 b1 b2
      obtain ⟨nE, R', e3, t3, hemp⟩ := end_vertex_tC seq hval w2 hk (by rw [b1]; simp) (by rw [a1]; simp)
      simp only [Bool.not_true, Bool.not_false] at t1 t2 t3 w1 w2
      have eqC : Rg3 seq false (X0.vertex st.left.last) st.right (flushSide st.left false).1 k =
          Rg3 seq true (X0.vertex st.left.last) (flushSide st.left false).1 st.right k := by
        have := Rg3_symm seq true (X0.vertex st.left.last) (flushSide st.left false).1 st.right k
        simpa only [Bool.not_true] using this
      have t2' := t2
      rw [eqC] at t2'
      have t12 := (t1.trans t2').trans t3
      refine ⟨flushLevels st.left.events.toArray st.left.events.length false (st.left.events.length + 1) 1 ++
          flushLevels st.right.events.toArray st.right.events.length true (st.right.events.length + 1) 1 ++ nL ++ nR ++ nE,
        R', ?_, t12.perm (perm_swap_mid _ _ _ _ _), hemp⟩
      rw [e3, e2, e1, hT]; simp [List.append_assoc]

/-! ## the whole run -/

theorem afeed_tW (hval : SweepValid seq) (h2 : 2 ≤ seq.length) (vs : List (P K × Bool))
    (st : Adv K) (k : Nat) (hvs : ∀ i (h : i < vs.length), seq[k + i]? = some vs[i])
    (hk : k + vs.length + 1 = seq.length) (hk1 : 1 ≤ k) (h : WA seq k st) :
    ∃ nt R', ((afeed st k vs).end_ (posOf seq (k + vs.length)) (k + vs.length)).tris = st.tess.tris ++ nt ∧
      Tiles (RgA seq st k) (TriIn (posOf seq)) (TriInC (posOf seq)) nt R' ∧ ∀ q, ¬ R' q := by
  induction vs generalizing st k with
  | nil =>
    simp only [List.length_nil, Nat.add_zero] at hk ⊢
    simpa [afeed] using end_tW seq hval h2 st k hk hk1 h
  | cons v r ih =>
    obtain ⟨p, l⟩ := v
    simp only [List.length_cons] at hk
    have h0 := hvs 0 (by simp)
    simp only [Nat.add_zero, List.getElem_cons_zero] at h0
    have hp : posOf seq k = p := by simp [posOf, h0]
    have hl : sideAt seq k = l := by simp [sideAt, h0]
    obtain ⟨nt1, e1, t1⟩ := vertex_tW seq hval h2 st p k l (by omega) hk1 h hp hl
    have hw := vertex_w seq hval st p k l (by omega) h hp hl
    obtain ⟨nt2, R', e2, t2, hemp⟩ := ih (st.vertex p k l) (k + 1) (by
      intro i hi
      have := hvs (i + 1) (by simp only [List.length_cons]; omega)
      simp only [List.getElem_cons_succ] at this
      rw [← this]; congr 1; omega) (by omega) (by omega) hw
    refine ⟨nt1 ++ nt2, R', ?_, t1.trans t2, hemp⟩
    simp only [afeed, List.length_cons]
    rw [show k + (r.length + 1) = k + 1 + r.length by omega, e2, e1, List.append_assoc]

/-- **the triangles of `Adv.run` lie inside the polygon and do not overlap** -/
theorem adv_run_tilesW (h2 : 2 ≤ seq.length) (hval : SweepValid seq) :
    ∃ R', Tiles (InsidePoly seq) (TriIn (posOf seq)) (TriInC (posOf seq)) (Adv.run seq) R' ∧ ∀ q, ¬ R' q := by
  match seq, h2, hval with
  | (p0, b0) :: v1 :: rest, _, hval =>
    have hlen : 0 + 1 + (List.take ((v1 :: rest).length - 1) (v1 :: rest)).length = (v1 :: rest).length := by
      simp only [List.length_take, List.length_cons]; omega
    have hpos : ∀ i (h : i < (List.take ((v1 :: rest).length - 1) (v1 :: rest)).length),
        ((p0, b0) :: v1 :: rest)[0 + 1 + i]? = some (List.take ((v1 :: rest).length - 1) (v1 :: rest))[i] := by
      intro i hi
      simp only [List.length_take, List.length_cons] at hi
      simp only [List.getElem_take]
      rw [show 0 + 1 + i = i + 1 by omega, List.getElem?_cons_succ,
        List.getElem?_eq_getElem (by simp only [List.length_cons]; omega)]
    have hpe : posOf ((p0, b0) :: v1 :: rest) (v1 :: rest).length = ((v1 :: rest).getLast?.map (·.1)).getD p0 := by
      simp only [posOf, List.length_cons, List.getElem?_cons_succ]
      rw [List.getLast?_eq_getElem?]
      simp only [List.length_cons, Nat.add_sub_cancel]
      rw [List.getElem?_eq_getElem (by simp only [List.length_cons]; omega)]
      rfl
    have h0 : posOf ((p0, b0) :: v1 :: rest) 0 = p0 := by simp [posOf]
    have hw : WA ((p0, b0) :: v1 :: rest) (0 + 1) (Adv.begin Adv.new p0 0) :=
      ⟨begin_y _ p0 h0 (by simp), begin_z _ p0 h0, begin_n _ Adv.new p0 h0⟩
    obtain ⟨nt, R', e, t, hemp⟩ := afeed_tW ((p0, b0) :: v1 :: rest) hval (by simp) (List.take ((v1 :: rest).length - 1) (v1 :: rest))
      (Adv.begin Adv.new p0 0) (0 + 1) hpos (by rw [hlen]; simp) (by omega) hw
    rw [hlen, hpe] at e
    have erun : Adv.run ((p0, b0) :: v1 :: rest) = nt := by
      simp only [Adv.run, foldl_zipIdx_eq_afeed]
      rw [e]; simp [Adv.begin, Basic.begin]
    have ereg : RgA ((p0, b0) :: v1 :: rest) (Adv.begin Adv.new p0 0) (0 + 1) = InsidePoly ((p0, b0) :: v1 :: rest) := by
      unfold RgA Rg3 RgC InsidePoly leftChain rightChain
      simp [Adv.begin, Basic.begin, C02c.botPos, posOf]
    rw [erun, ← ereg]
    exact ⟨R', t, hemp⟩



end Geometry

end Lyon.C02f
