/-
  Helper definitions and lemmas for `Props/C05b.lean`: the discrete polyline skeleton
  `Lyon.Stroke.Poly` of `Model/Tess/StrokeParts.lean` (fixed-width polylines, bevel joins, butt caps).

  * `Mesh.Ext` / `Mesh.Op` / `Mesh.Steps`: "the output grew, and every new triangle is proper and only
    references ids handed out so far", at the granularity of one operation (`Op`: at most 4 new
    vertices and 4 new triangles) and of a run of operations (`Steps`).
  * `WF`: well-formed `PointBuffer` (some list is represented, `Lemmas/StrokeParts.Rep`), with the
    observations of `push` / `replaceLast` through `last` / `lastTwo` / `count`.
  * `Inv`: the window invariant of `Poly.State` (which window entries carry ids that are read later).
  * the vertex count of an open, merge-free sub-path (`joinCost`, `NoMerge`, `NoFold`).
-/
import LyonVerif.Model.Tess.StrokeParts
import LyonVerif.Lemmas.StrokeParts
import LyonVerif.Lemmas.Field
import Mathlib.Tactic.SplitIfs
import Mathlib.Tactic.IntervalCases
import Mathlib.Algebra.Order.Field.Rat

set_option linter.unusedSectionVars false
set_option linter.unusedVariables false

namespace Lyon.C05b
open Lyon Scalar Lyon.Stroke Lyon.Stroke.Poly Lyon.C05

/-! ## meshes that grow -/

/-- `m` with the vertices `vs` (fresh consecutive ids) and the triangles `ts` appended -/
def grow (m : Mesh) (vs : List (Nat × Side)) (ts : List Tri) : Mesh :=
  ⟨m.nextId + vs.length, m.verts ++ vs, m.tris ++ ts⟩

theorem grow_nil (m : Mesh) : grow m [] [] = m := by
  cases m; simp [grow]

theorem grow_grow (m : Mesh) (a c : List (Nat × Side)) (b d : List Tri) :
    grow (grow m a b) c d = grow m (a ++ c) (b ++ d) := by
  simp [grow, Nat.add_assoc]

theorem add_eq_grow (m : Mesh) (s : Nat) (d : Side) : m.add s d = grow m [(s, d)] [] := by
  simp [Mesh.add, grow]

theorem addTris_eq_grow (m : Mesh) (t : List Tri) : m.addTris t = grow m [] t := by
  simp [Mesh.addTris, grow]

theorem addSide_eq_grow (m : Mesh) (s : Nat) (d : Side) (single : Bool) :
    m.addSide s d single = grow m (if single then [(s, d)] else [(s, d), (s, d)]) [] := by
  cases single <;> simp [Mesh.addSide, add_eq_grow, grow_grow]

/-- `m'` extends `m`: vertices and triangles are appended, the new vertices got consecutive fresh
ids, every NEW triangle has three pairwise distinct ids, all of them handed out when `m'` was
reached -/
def MeshExt (m m' : Mesh) : Prop :=
  ∃ vs ts, m' = grow m vs ts ∧ ∀ t ∈ ts, Tri.Distinct t ∧ Tri.Below t m'.nextId

/-- one operation: an extension by at most 4 vertices and at most 4 triangles -/
def MeshOp (m m' : Mesh) : Prop :=
  ∃ vs ts, m' = grow m vs ts ∧ vs.length ≤ 4 ∧ ts.length ≤ 4
    ∧ ∀ t ∈ ts, Tri.Distinct t ∧ Tri.Below t m'.nextId

/-- a run of operations -/
inductive MeshSteps : Mesh → Mesh → Prop
  | refl (m : Mesh) : MeshSteps m m
  | tail {m m' m'' : Mesh} : MeshSteps m m' → MeshOp m' m'' → MeshSteps m m''

theorem below_mono {t : Tri} {n k : Nat} (h : Tri.Below t n) (hnk : n ≤ k) : Tri.Below t k :=
  ⟨Nat.lt_of_lt_of_le h.1 hnk, Nat.lt_of_lt_of_le h.2.1 hnk, Nat.lt_of_lt_of_le h.2.2 hnk⟩

theorem MeshExt.refl (m : Mesh) : MeshExt m m := ⟨[], [], (grow_nil m).symm, by simp⟩

theorem MeshExt.next_le {m m' : Mesh} (h : MeshExt m m') : m.nextId ≤ m'.nextId := by
  obtain ⟨vs, ts, rfl, _⟩ := h; simp [grow]

theorem MeshExt.trans {a b c : Mesh} (h1 : MeshExt a b) (h2 : MeshExt b c) : MeshExt a c := by
  have hle := h2.next_le
  obtain ⟨vs1, ts1, rfl, ht1⟩ := h1
  obtain ⟨vs2, ts2, rfl, ht2⟩ := h2
  refine ⟨vs1 ++ vs2, ts1 ++ ts2, grow_grow _ _ _ _ _, ?_⟩
  intro t ht
  rcases List.mem_append.mp ht with h | h
  · exact ⟨(ht1 t h).1, below_mono (ht1 t h).2 hle⟩
  · exact ht2 t h

theorem MeshOp.ext {m m' : Mesh} (h : MeshOp m m') : MeshExt m m' := by
  obtain ⟨vs, ts, e, _, _, ht⟩ := h; exact ⟨vs, ts, e, ht⟩

theorem MeshSteps.ext {m m' : Mesh} (h : MeshSteps m m') : MeshExt m m' := by
  induction h with
  | refl => exact MeshExt.refl _
  | tail _ op ih => exact ih.trans op.ext

theorem MeshSteps.trans {a b c : Mesh} (h1 : MeshSteps a b) (h2 : MeshSteps b c) : MeshSteps a c := by
  induction h2 with
  | refl => exact h1
  | tail _ op ih => exact MeshSteps.tail ih op

theorem MeshOp.steps {m m' : Mesh} (h : MeshOp m m') : MeshSteps m m' :=
  MeshSteps.tail (MeshSteps.refl m) h

/-- what an extension of a consistent mesh gives: ids = positions, every triangle proper and over
existing vertices -/
def MeshOK (m : Mesh) : Prop :=
  m.nextId = m.verts.length ∧ ∀ t ∈ m.tris, Tri.Distinct t ∧ Tri.Below t m.nextId

theorem MeshExt.ok {m m' : Mesh} (h : MeshExt m m') (hm : MeshOK m) : MeshOK m' := by
  have hle := h.next_le
  obtain ⟨vs, ts, rfl, ht⟩ := h
  refine ⟨by simp [grow, hm.1], ?_⟩
  intro t htm
  rcases List.mem_append.mp (by simpa [grow] using htm) with h | h
  · exact ⟨(hm.2 t h).1, below_mono (hm.2 t h).2 hle⟩
  · exact ht t h

/-! ## ids of a join -/

/-- never a join: the fold flags are still `false` (the four ids are unset and not read) -/
def Raw (i : JoinIds) : Prop := i.foldPos = false ∧ i.foldNeg = false

/-- has been a join: the four ids have been handed out -/
def Good (n : Nat) (i : JoinIds) : Prop :=
  i.posPrev < n ∧ i.posNext < n ∧ i.negPrev < n ∧ i.negNext < n

theorem Good.mono {n k : Nat} {i : JoinIds} (h : Good n i) (hnk : n ≤ k) : Good k i :=
  ⟨by have := h.1; omega, by have := h.2.1; omega, by have := h.2.2.1; omega, by have := h.2.2.2; omega⟩

/-- the two ids `add_edge_triangles` reads from its first join are below `n` -/
def Out0 (n : Nat) (i : JoinIds) : Prop := edgeP0Neg i < n ∧ edgeP0Pos i < n
/-- the two ids `add_edge_triangles` reads from its second join are below `n` -/
def In1 (n : Nat) (i : JoinIds) : Prop := edgeP1Neg i < n ∧ edgeP1Pos i < n

theorem Good.out0 {n : Nat} {i : JoinIds} (h : Good n i) : Out0 n i := by
  obtain ⟨h1, h2, h3, h4⟩ := h
  unfold Out0 edgeP0Neg edgeP0Pos; split_ifs <;> exact ⟨by assumption, by assumption⟩

theorem Good.in1 {n : Nat} {i : JoinIds} (h : Good n i) : In1 n i := by
  obtain ⟨h1, h2, h3, h4⟩ := h
  unfold In1 edgeP1Neg edgeP1Pos; split_ifs <;> exact ⟨by assumption, by assumption⟩

/-- a point that was never a join, with the `next` ids just assigned (`tessellate_first_edge`) -/
theorem Raw.out0 {n : Nat} {i : JoinIds} (h : Raw i) (w : Nat) (hw : w + 1 < n) :
    Out0 n { i with posNext := w, negNext := w + 1 } := by
  simp [Out0, edgeP0Neg, edgeP0Pos, h.1, h.2]; omega

/-- a point that was never a join, with the `prev` ids just assigned (`tessellate_last_edge`) -/
theorem Raw.in1 {n : Nat} {i : JoinIds} (h : Raw i) (v : Nat) (hv : v + 1 < n) :
    In1 n { i with posPrev := v, negPrev := v + 1 } := by
  simp [In1, edgeP1Neg, edgeP1Pos, h.1, h.2]; omega

theorem Good.setNext {n : Nat} {i : JoinIds} (h : Good n i) (w : Nat) (hw : w + 1 < n) :
    Good n { i with posNext := w, negNext := w + 1 } :=
  ⟨h.1, by simp; omega, h.2.2.1, by simp; omega⟩

theorem Good.setPrev {n : Nat} {i : JoinIds} (h : Good n i) (v : Nat) (hv : v + 1 < n) :
    Good n { i with posPrev := v, negPrev := v + 1 } :=
  ⟨by simp; omega, h.2.1, by simp; omega, h.2.2.2⟩

theorem edge_tris_ok (p0 p1 : JoinIds) (n : Nat) (h0 : Out0 n p0) (h1 : In1 n p1) :
    ∀ t ∈ addEdgeTriangles p0 p1, Tri.Distinct t ∧ Tri.Below t n := by
  intro t ht
  obtain ⟨a, b⟩ := h0
  obtain ⟨c, d⟩ := h1
  unfold addEdgeTriangles edgeTri1 edgeTri2 at ht
  split_ifs at ht <;> simp at ht
  all_goals (rcases ht with rfl | rfl <;> simp only [Tri.Distinct, Tri.Below] <;>
    refine ⟨⟨?_, ?_, ?_⟩, ?_, ?_, ?_⟩ <;> first | assumption | tauto)

theorem edge_tris_len (p0 p1 : JoinIds) : (addEdgeTriangles p0 p1).length ≤ 2 := by
  unfold addEdgeTriangles edgeTri1 edgeTri2
  split_ifs <;> simp

/-! ## well-formed point buffers, observed through `count` / `last` / `lastTwo` -/

section Buffer
variable {β : Type}

/-- the buffer represents some list (`Rep`): `start`/`count` are in one of the six reachable shapes -/
def WF (b : PointBuffer β) : Prop := ∃ l, Rep b l

theorem WF.new (d : β) : WF (PointBuffer.new d) := ⟨[], Rep.c0 d d d⟩

theorem WF.count_le {b : PointBuffer β} (h : WF b) : b.count ≤ 3 := by
  obtain ⟨l, h⟩ := h; cases h <;> simp

theorem lastTwo_none {b : PointBuffer β} (hc : b.count < 2) : b.lastTwo = none := by
  unfold PointBuffer.lastTwo; rw [if_neg (by omega)]

theorem last_none {b : PointBuffer β} (hc : b.count = 0) : b.last = none := by
  unfold PointBuffer.last; rw [if_neg (by omega)]

theorem WF.last_some {b : PointBuffer β} (h : WF b) (hc : 0 < b.count) : ∃ y, b.last = some y := by
  obtain ⟨l, h⟩ := h
  cases h <;> simp [PointBuffer.last, PointBuffer.get, PointBuffer.slot] at hc ⊢

theorem WF.lastTwo_some {b : PointBuffer β} (h : WF b) (hc : 2 ≤ b.count) :
    ∃ x y, b.lastTwo = some (x, y) := by
  obtain ⟨l, h⟩ := h
  cases h <;> simp [PointBuffer.lastTwo, PointBuffer.slot] at hc ⊢

theorem WF.lastTwo_last {b : PointBuffer β} (h : WF b) (x y : β) (hl : b.lastTwo = some (x, y)) :
    b.last = some y := by
  obtain ⟨l, h⟩ := h
  cases h <;> simp [PointBuffer.lastTwo, PointBuffer.slot, PointBuffer.last, PointBuffer.get] at hl ⊢ <;>
    exact hl.2

theorem WF.lastTwo_count {b : PointBuffer β} (x y : β) (hl : b.lastTwo = some (x, y)) :
    2 ≤ b.count := by
  by_contra hc
  rw [lastTwo_none (by omega)] at hl; cases hl

theorem WF.push {b : PointBuffer β} (h : WF b) (p : β) :
    ∃ b', b.push p = some b' ∧ WF b' ∧ b'.count = min 3 (b.count + 1) ∧ b'.last = some p
      ∧ (∀ y, b.last = some y → b'.lastTwo = some (y, p)) := by
  obtain ⟨l, h⟩ := h
  obtain ⟨b', hb, hr⟩ := h.push p
  refine ⟨b', hb, ⟨_, hr⟩, ?_⟩
  cases h <;>
    (simp [PointBuffer.push, PointBuffer.setSlot, PointBuffer.bumpCount, PointBuffer.bumpStart] at hb
     subst hb
     simp [PointBuffer.last, PointBuffer.get, PointBuffer.slot, PointBuffer.lastTwo])

theorem WF.replaceLast {b : PointBuffer β} (h : WF b) (hc : 0 < b.count) (p : β) :
    ∃ b', b.replaceLast p = some b' ∧ WF b' ∧ b'.count = b.count ∧ b'.last = some p
      ∧ (∀ x y, b.lastTwo = some (x, y) → b'.lastTwo = some (x, p)) := by
  obtain ⟨l, h⟩ := h
  have hl : l ≠ [] := by
    intro e; subst e
    have := h.observe.1
    simp at this; omega
  obtain ⟨b', hb, hr⟩ := (h.replaceLast p).2 hl
  refine ⟨b', hb, ⟨_, hr⟩, ?_⟩
  cases h <;> first
    | (simp at hc; done)
    | (simp [PointBuffer.replaceLast, PointBuffer.setSlot] at hb
       subst hb
       simp [PointBuffer.last, PointBuffer.get, PointBuffer.slot, PointBuffer.lastTwo])

end Buffer

/-! ## `joinAt` -/

section Join
variable {α : Type} [Scalar α] [Transc α]

/-- vertices added by one join: 4 if it folds, else 3 -/
def joinVerts (hw : α) (prev join next : P α) : Nat :=
  if (joinShape prev join next hw).fold then 4 else 3

/-- `joinAt`: 3 or 4 fresh vertices, the join's four ids are among them, the interior triangles
(at most 2) are proper and only use these ids -/
theorem joinAt_spec (hw : α) (prev join : Pt α) (nextPos : P α) (m : Mesh) :
    let r := joinAt hw prev join nextPos m
    (∃ vs, r.2.1 = grow m vs [] ∧ vs.length = joinVerts hw prev.pos join.pos nextPos ∧ vs.length ≤ 4)
    ∧ Good r.2.1.nextId r.1.ids ∧ r.1.pos = join.pos ∧ r.1.src = join.src
    ∧ r.2.2.length ≤ 2
    ∧ ∀ t ∈ r.2.2, Tri.Distinct t ∧ Tri.Below t r.2.1.nextId := by
  rcases join with ⟨jp, js, ⟨a, b, c, d, fp, fn⟩⟩
  simp only [joinAt, joinVerts, addSide_eq_grow, grow_grow]
  generalize joinShape prev.pos jp nextPos hw = sh
  rcases sh with ⟨frontNeg, fold⟩
  cases frontNeg <;> cases fold <;> cases fp <;> cases fn <;>
    (simp [grow, Good, joinInterior, Tri.Distinct, Tri.Below]; try omega)

end Join

/-! ## the window invariant -/

section State
variable {α : Type} [Scalar α] [Transc α]

/-- Which entries of the window carry ids that are read later, with `n = st.mesh.nextId`:
* `count ≤ 2`: every point in the window is `Raw` (was never a join; its unset ids are never read,
  see `Raw.out0` / `Raw.in1`), and the two points of a full pair are not too close;
* `count = 3`: the second-newest point has been a join (`Good n`), the newest is `Raw` or `Good n`
  (the latter happens in `close`, which feeds the stored second endpoint again);
  `firsts = [f0, f1]` holds the first endpoint (`Raw`) and the second one after its join (`Good n`),
  and these two are not too close (`close` relies on that: its second step is never merged). -/
structure Inv (thr : α) (st : State α) : Prop where
  wf : WF st.buf
  one : st.buf.count ≤ 1 → ∀ y, st.buf.last = some y → Raw y.ids
  two : st.buf.count = 2 → ∀ x y, st.buf.lastTwo = some (x, y) →
    Raw x.ids ∧ Raw y.ids ∧ pointsAreTooClose thr x.pos y.pos = false
  three : 3 ≤ st.buf.count → ∀ x y, st.buf.lastTwo = some (x, y) →
    Good st.mesh.nextId x.ids ∧ (Raw y.ids ∨ Good st.mesh.nextId y.ids)
  firsts : 3 ≤ st.buf.count → ∃ f0 f1, st.firsts = [f0, f1] ∧ Raw f0.ids
    ∧ Good st.mesh.nextId f1.ids ∧ pointsAreTooClose thr f0.pos f1.pos = false
  nofirsts : st.buf.count ≤ 2 → st.firsts = []

theorem Inv.new (thr : α) (m : Mesh) : Inv thr (State.new m) := by
  refine ⟨WF.new _, ?_, ?_, ?_, ?_, ?_⟩ <;> simp [State.new, PointBuffer.new, PointBuffer.last]

theorem stepJoin_eq {st : State α} {x y : Pt α} (h : st.buf.lastTwo = some (x, y)) (hw : α) (next : Pt α) :
    stepJoin hw st next =
      { buf := (st.buf.replaceLast (joinAt hw x y next.pos st.mesh).1).getD st.buf
        firsts := if st.buf.count == 2 then [x, (joinAt hw x y next.pos st.mesh).1] else st.firsts
        mesh := ((if st.buf.count > 2 then
            (joinAt hw x y next.pos st.mesh).2.1.addTris
              (addEdgeTriangles x.ids (joinAt hw x y next.pos st.mesh).1.ids)
          else (joinAt hw x y next.pos st.mesh).2.1).addTris (joinAt hw x y next.pos st.mesh).2.2) } := by
  unfold stepJoin; rw [h]

/-- one join: an operation on the mesh (≤ 4 vertices, ≤ 4 triangles, all triangles proper and
below the `nextId` reached at the end of this join); the newest window entry becomes `Good` -/
theorem stepJoin_spec {thr : α} {st : State α} (hI : Inv thr st) {x y : Pt α}
    (h : st.buf.lastTwo = some (x, y)) (hw : α) (next : Pt α) :
    let st' := stepJoin hw st next
    MeshOp st.mesh st'.mesh
    ∧ st'.mesh.verts.length = st.mesh.verts.length + joinVerts hw x.pos y.pos next.pos
    ∧ WF st'.buf ∧ st'.buf.count = st.buf.count
    ∧ (∃ q, st'.buf.last = some q ∧ st'.buf.lastTwo = some (x, q) ∧ q.pos = y.pos ∧ q.src = y.src
        ∧ Good st'.mesh.nextId q.ids
        ∧ (st.buf.count = 2 → st'.firsts = [x, q]))
    ∧ (3 ≤ st.buf.count → st'.firsts = st.firsts) := by
  have hc : 2 ≤ st.buf.count := WF.lastTwo_count x y h
  have hj := joinAt_spec hw x y next.pos st.mesh
  simp only [stepJoin_eq h]
  generalize joinAt hw x y next.pos st.mesh = r at hj ⊢
  obtain ⟨q, m1, inter⟩ := r
  obtain ⟨⟨vs, hm1, hvl, hv4⟩, hq, hqp, hqs, hil, hit⟩ := hj
  simp only at hm1 hq hqp hqs hil hit ⊢
  subst hm1
  obtain ⟨b', hb, hwf', hcnt', hlast', hlt'⟩ := hI.wf.replaceLast (by omega) q
  simp only [hb, Option.getD_some]
  have hn1 : (grow st.mesh vs []).nextId = st.mesh.nextId + vs.length := rfl
  refine ⟨?_, ?_, hwf', hcnt', ⟨q, hlast', hlt' x y h, hqp, hqs, ?_, ?_⟩, ?_⟩
  · by_cases h3 : st.buf.count > 2
    · rw [if_pos h3]
      have hx : Good st.mesh.nextId x.ids := (hI.three (by omega) x y h).1
      refine ⟨vs, addEdgeTriangles x.ids q.ids ++ inter, ?_, hv4, ?_, ?_⟩
      · simp [addTris_eq_grow, grow_grow]
      · have := edge_tris_len x.ids q.ids
        simp; omega
      · intro t ht
        have hnid : ((grow st.mesh vs []).addTris (addEdgeTriangles x.ids q.ids) |>.addTris inter).nextId
            = st.mesh.nextId + vs.length := rfl
        rw [hnid]
        rcases List.mem_append.mp ht with ht | ht
        · exact edge_tris_ok _ _ _ (hx.mono (by omega)).out0 (by simpa [hn1] using hq.in1) t ht
        · simpa [hn1] using hit t ht
    · rw [if_neg h3]
      refine ⟨vs, inter, ?_, hv4, by omega, ?_⟩
      · simp [addTris_eq_grow, grow_grow]
      · intro t ht
        simpa [Mesh.addTris] using hit t ht
  · split_ifs <;> simp [Mesh.addTris, grow, hvl]
  · split_ifs <;> simpa [Mesh.addTris] using hq
  · intro h2; simp [h2]
  · intro h3
    have : ¬ st.buf.count = 2 := by omega
    simp [this]

theorem isTooClose_eq {thr : α} {st : State α} {y : Pt α} (h : st.buf.last = some y) (p : P α) :
    isTooClose thr st p = pointsAreTooClose thr y.pos p := by
  simp [isTooClose, h]

/-- `fixed_width_step_impl`: keeps the invariant; a run of (at most one) operations on the mesh.
`next` is a fresh point (`Raw`), or — in `close` — a point that has been a join before. -/
theorem step_spec {thr : α} {st : State α} (hI : Inv thr st) (hw : α) (next : Pt α)
    (hn : Raw next.ids ∨ (2 ≤ st.buf.count ∧ Good st.mesh.nextId next.ids)) :
    let r := step thr hw st next
    Inv thr r.1 ∧ MeshSteps st.mesh r.1.mesh
    ∧ (r.2 = false → r.1 = st ∧ isTooClose thr st next.pos = true)
    ∧ (r.2 = true → isTooClose thr st next.pos = false
        ∧ r.1.buf.count = min 3 (st.buf.count + 1) ∧ r.1.buf.last = some next
        ∧ (3 ≤ st.buf.count → r.1.firsts = st.firsts)
        ∧ (st.buf.count < 2 → r.1.mesh = st.mesh
            ∧ ∀ y, st.buf.last = some y → r.1.buf.lastTwo = some (y, next))
        ∧ (∀ x y, st.buf.lastTwo = some (x, y) → ∃ q, r.1.buf.lastTwo = some (q, next)
            ∧ q.pos = y.pos ∧ Good r.1.mesh.nextId q.ids
            ∧ r.1.mesh.verts.length = st.mesh.verts.length + joinVerts hw x.pos y.pos next.pos)) := by
  unfold step
  by_cases hclose : isTooClose thr st next.pos = true
  · rw [if_pos hclose]
    exact ⟨hI, MeshSteps.refl _, fun _ => ⟨rfl, hclose⟩, fun h => by simp at h⟩
  rw [if_neg hclose]
  have hclose' : isTooClose thr st next.pos = false := by simpa using hclose
  by_cases hc : st.buf.count > 1
  · -- a join happens
    rw [if_pos hc]
    obtain ⟨x, y, hxy⟩ := hI.wf.lastTwo_some (by omega)
    obtain ⟨hop, hvl, hwf1, hcnt1, ⟨q, hq1, hq2, hqp, hqs, hqg, hqf⟩, hf3⟩ := stepJoin_spec hI hxy hw next
    generalize stepJoin hw st next = st1 at hop hvl hwf1 hcnt1 hq1 hq2 hqg hqf hf3 ⊢
    obtain ⟨b', hb, hwf', hcnt', hlast', hlt'⟩ := hwf1.push next
    have hle : st.mesh.nextId ≤ st1.mesh.nextId := hop.ext.next_le
    have hc3 : b'.count = 3 := by rw [hcnt', hcnt1]; omega
    simp only [hb, Option.getD_some]
    refine ⟨⟨hwf', ?_, ?_, ?_, ?_, ?_⟩, hop.steps, fun h => by simp at h, fun _ => ⟨hclose', ?_, hlast', ?_, ?_, ?_⟩⟩
    · intro h; simp only at h; omega
    · intro h; simp only at h; omega
    · intro _ a b hab
      simp only at hab ⊢
      rw [hlt' q hq1] at hab
      simp only [Option.some.injEq, Prod.mk.injEq] at hab
      obtain ⟨rfl, rfl⟩ := hab
      refine ⟨hqg, ?_⟩
      rcases hn with hn | ⟨_, hn⟩
      · exact Or.inl hn
      · exact Or.inr (hn.mono hle)
    · intro _
      simp only
      by_cases h2 : st.buf.count = 2
      · obtain ⟨rx, ry, rc⟩ := hI.two h2 x y hxy
        exact ⟨x, q, hqf h2, rx, hqg, by rw [hqp]; exact rc⟩
      · obtain ⟨f0, f1, e, r0, g1, c⟩ := hI.firsts (by omega)
        exact ⟨f0, f1, by rw [hf3 (by omega)]; exact e, r0, g1.mono hle, c⟩
    · intro h; simp only at h; omega
    · rw [hcnt', hcnt1]
    · intro h3; exact hf3 h3
    · intro h; omega
    · intro a b hab
      rw [hxy] at hab
      simp only [Option.some.injEq, Prod.mk.injEq] at hab
      obtain ⟨rfl, rfl⟩ := hab
      exact ⟨q, hlt' q hq1, hqp, hqg, hvl⟩
  · -- the first or the second point of the sub-path
    rw [if_neg hc]
    obtain ⟨b', hb, hwf', hcnt', hlast', hlt'⟩ := hI.wf.push next
    have hraw : Raw next.ids := by
      rcases hn with hn | ⟨h2, _⟩
      · exact hn
      · omega
    simp only [hb, Option.getD_some]
    refine ⟨⟨hwf', ?_, ?_, ?_, ?_, ?_⟩, MeshSteps.refl _, fun h => by simp at h, fun _ => ⟨hclose', hcnt', hlast', ?_, ?_, ?_⟩⟩
    · intro _ y hy
      simp only at hy
      rw [hlast'] at hy
      simp only [Option.some.injEq] at hy
      subst hy; exact hraw
    · intro h2 a b hab
      simp only at h2 hab
      have h1 : st.buf.count = 1 := by rw [hcnt'] at h2; omega
      obtain ⟨y, hy⟩ := hI.wf.last_some (by omega)
      rw [hlt' y hy] at hab
      simp only [Option.some.injEq, Prod.mk.injEq] at hab
      obtain ⟨rfl, rfl⟩ := hab
      refine ⟨hI.one (by omega) y hy, hraw, ?_⟩
      rw [← isTooClose_eq hy]; exact hclose'
    · intro h3; simp only at h3; rw [hcnt'] at h3; omega
    · intro h3; simp only at h3; rw [hcnt'] at h3; omega
    · intro _; exact hI.nofirsts (by omega)
    · intro h3; omega
    · intro _; exact ⟨trivial, fun y hy => hlt' y hy⟩
    · intro a b hab
      rw [lastTwo_none (by omega)] at hab; cases hab

@[simp] theorem grow_nextId (m : Mesh) (vs : List (Nat × Side)) (ts : List Tri) :
    (grow m vs ts).nextId = m.nextId + vs.length := rfl
@[simp] theorem add_nextId (m : Mesh) (s : Nat) (d : Side) : (m.add s d).nextId = m.nextId + 1 := rfl
@[simp] theorem addTris_nextId (m : Mesh) (t : List Tri) : (m.addTris t).nextId = m.nextId := rfl

/-- two fresh vertices and the triangles of the edge they end / start (`tessellate_last_edge`,
`tessellate_first_edge`, the last edge of `close`): one operation -/
theorem edge_op (m : Mesh) (s : Nat) (p0 p1 : JoinIds) (h0 : Out0 (m.nextId + 2) p0)
    (h1 : In1 (m.nextId + 2) p1) :
    MeshOp m (((m.add s .positive).add s .negative).addTris (addEdgeTriangles p0 p1)) := by
  refine ⟨[(s, .positive), (s, .negative)], addEdgeTriangles p0 p1, ?_, by simp, ?_, ?_⟩
  · simp [add_eq_grow, addTris_eq_grow, grow_grow]
  · have := edge_tris_len p0 p1; omega
  · intro t ht
    exact edge_tris_ok p0 p1 _ h0 h1 t ht

theorem pair_op (m : Mesh) (s : Nat) : MeshOp m ((m.add s .positive).add s .negative) := by
  refine ⟨[(s, .positive), (s, .negative)], [], ?_, by simp, by simp, by simp⟩
  simp [add_eq_grow, grow_grow]

theorem MeshOp.verts {m m' : Mesh} (h : MeshOp m m') : m.nextId ≤ m'.nextId := h.ext.next_le

/-- `end_with_caps` (butt caps): two operations (last edge, first edge); 4 vertices -/
theorem endWithCaps_spec {thr : α} {st : State α} (hI : Inv thr st) :
    MeshSteps st.mesh (endWithCaps st)
    ∧ (2 ≤ st.buf.count → (endWithCaps st).verts.length = st.mesh.verts.length + 4)
    ∧ (st.buf.count < 2 → endWithCaps st = st.mesh) := by
  by_cases hc : st.buf.count < 2
  · have : endWithCaps st = st.mesh := by unfold endWithCaps; rw [lastTwo_none hc]
    rw [this]
    exact ⟨MeshSteps.refl _, fun h => by omega, fun _ => rfl⟩
  obtain ⟨p0, p1, h⟩ := hI.wf.lastTwo_some (by omega)
  have hle := hI.wf.count_le
  refine ⟨?_, fun _ => ?_, fun h => absurd h hc⟩
  · unfold endWithCaps; rw [h]; simp only
    by_cases h3 : st.buf.count > 2
    · have hne : (st.buf.count == 2) = false := by simp; omega
      obtain ⟨f0, f1, hf, r0, g1, _⟩ := hI.firsts (by omega)
      obtain ⟨g0, g⟩ := hI.three (by omega) p0 p1 h
      simp only [hne, if_pos h3, hf, List.headD_cons, List.drop_succ_cons, List.drop_zero,
        Bool.false_eq_true, if_false]
      refine MeshSteps.tail (MeshOp.steps (edge_op _ _ _ _ ?_ ?_)) (edge_op _ _ _ _ ?_ ?_)
      · exact (g0.mono (by omega)).out0
      · rcases g with g | g
        · exact g.in1 _ (by omega)
        · exact ((g.mono (by omega : st.mesh.nextId ≤ st.mesh.nextId + 2)).setPrev _ (by omega)).in1
      · exact r0.out0 _ (by omega)
      · exact (g1.mono (by simp; omega)).in1
    · have he : (st.buf.count == 2) = true := by simp; omega
      obtain ⟨r0, r1, _⟩ := hI.two (by omega) p0 p1 h
      simp only [he, if_neg h3, if_true]
      refine MeshSteps.tail (pair_op st.mesh p1.src).steps (edge_op _ _ _ _ ?_ ?_)
      · exact r0.out0 _ (by omega)
      · exact r1.in1 _ (by simp)
  · unfold endWithCaps; rw [h]; simp only
    split_ifs <;> simp [Mesh.add, Mesh.addTris]

/-- the last edge of `close` as a function of the state after its two steps -/
def closeTail (st3 : State α) : Mesh :=
  match st3.buf.lastTwo with
  | some (q0, q1) =>
    ((st3.mesh.add q0.src .positive).add q0.src .negative).addTris
      (addEdgeTriangles { q0.ids with posNext := st3.mesh.nextId, negNext := st3.mesh.nextId + 1 } q1.ids)
  | none => st3.mesh

theorem close_eq {thr hw : α} {st : State α} {p p2 : Pt α} {rest : List (Pt α)}
    (h : st.firsts = p :: p2 :: rest) :
    close thr hw st = closeTail (step thr hw
      (if (step thr hw st p).2 then (step thr hw st p).1 else fixUp (step thr hw st p).1 p.pos) p2).1 := by
  unfold close closeTail; rw [h]; rfl

theorem fixUp_spec {thr : α} {st : State α} (hI : Inv thr st) (h3 : 3 ≤ st.buf.count) (pos : P α) :
    let st' := fixUp st pos
    Inv thr st' ∧ st'.mesh = st.mesh ∧ st'.firsts = st.firsts ∧ st'.buf.count = st.buf.count
    ∧ ∃ l, st'.buf.last = some l ∧ l.pos = pos := by
  obtain ⟨l, hl⟩ := hI.wf.last_some (by omega)
  obtain ⟨b', hb, hwf', hcnt', hlast', hlt'⟩ := hI.wf.replaceLast (by omega) { l with pos := pos }
  have e : fixUp st pos = { st with buf := b' } := by simp [fixUp, hl, hb]
  show Inv thr (fixUp st pos) ∧ (fixUp st pos).mesh = st.mesh ∧ (fixUp st pos).firsts = st.firsts
    ∧ (fixUp st pos).buf.count = st.buf.count ∧ ∃ l, (fixUp st pos).buf.last = some l ∧ l.pos = pos
  rw [e]
  refine ⟨⟨hwf', ?_, ?_, ?_, ?_, ?_⟩, rfl, rfl, hcnt', _, hlast', rfl⟩
  · intro h; simp only at h; omega
  · intro h; simp only at h; omega
  · intro _ a b hab
    simp only at hab ⊢
    obtain ⟨x, y, hxy⟩ := hI.wf.lastTwo_some (by omega)
    have hy := hI.wf.lastTwo_last x y hxy
    rw [hl] at hy
    simp only [Option.some.injEq] at hy
    subst hy
    rw [hlt' x l hxy] at hab
    simp only [Option.some.injEq, Prod.mk.injEq] at hab
    obtain ⟨rfl, rfl⟩ := hab
    exact hI.three h3 x l hxy
  · intro _; exact hI.firsts h3
  · intro h; simp only at h; omega

/-- `close` (window full): up to two joins and the closing edge -/
theorem close_spec {thr : α} {st : State α} (hI : Inv thr st) (hw : α) :
    MeshSteps st.mesh (close thr hw st) := by
  by_cases h3 : 3 ≤ st.buf.count
  swap
  · have : close thr hw st = st.mesh := by
      unfold close; rw [hI.nofirsts (by omega)]
    rw [this]; exact MeshSteps.refl _
  obtain ⟨f0, f1, hf, r0, g1, hfar⟩ := hI.firsts h3
  have hle := hI.wf.count_le
  rw [close_eq hf]
  -- first step
  obtain ⟨hI1, hs1, hfalse1, htrue1⟩ := step_spec hI hw f0 (Or.inl r0)
  have key : ∃ st2 : State α, st2 = (if (step thr hw st f0).2 then (step thr hw st f0).1
        else fixUp (step thr hw st f0).1 f0.pos)
      ∧ Inv thr st2 ∧ MeshSteps st.mesh st2.mesh ∧ st2.firsts = [f0, f1] ∧ st2.buf.count = 3
      ∧ ∃ l, st2.buf.last = some l ∧ l.pos = f0.pos := by
    refine ⟨_, rfl, ?_⟩
    cases hr : (step thr hw st f0).2
    · obtain ⟨e, _⟩ := hfalse1 hr
      obtain ⟨a, b, c, d, l, hl, hp⟩ := fixUp_spec hI h3 f0.pos
      simp only [e, Bool.false_eq_true, if_false]
      exact ⟨a, by rw [b]; exact MeshSteps.refl _, by rw [c]; exact hf, by rw [d]; omega, l, hl, hp⟩
    · obtain ⟨_, hcnt, hlast, hfirst, _, _⟩ := htrue1 hr
      simp only [if_true]
      exact ⟨hI1, hs1, by rw [hfirst h3]; exact hf, by rw [hcnt]; omega, f0, hlast, rfl⟩
  obtain ⟨st2, he, hI2, hs2, hf2, hc2, l, hl, hlp⟩ := key
  rw [← he]
  -- second step: never merged
  obtain ⟨f0', f1', hf2', _, g1', _⟩ := hI2.firsts (by omega)
  rw [hf2] at hf2'
  simp only [List.cons.injEq, and_true] at hf2'
  obtain ⟨rfl, rfl⟩ := hf2'
  obtain ⟨hI3, hs3, hfalse3, htrue3⟩ := step_spec hI2 hw f1 (Or.inr ⟨by omega, g1'⟩)
  have hnot : isTooClose thr st2 f1.pos = false := by
    rw [isTooClose_eq hl, hlp]; exact hfar
  have hr3 : (step thr hw st2 f1).2 = true := by
    cases hr : (step thr hw st2 f1).2
    · have := (hfalse3 hr).2
      rw [hnot] at this; cases this
    · rfl
  obtain ⟨_, hcnt3, _, hfirst3, _, hjoin3⟩ := htrue3 hr3
  obtain ⟨x, y, hxy⟩ := hI2.wf.lastTwo_some (by omega)
  obtain ⟨q, hq, _, gq, _⟩ := hjoin3 x y hxy
  generalize (step thr hw st2 f1).1 = st3 at hI3 hs3 hcnt3 hfirst3 hq gq ⊢
  obtain ⟨f0'', f1'', hf3', _, g1'', _⟩ := hI3.firsts (by rw [hcnt3]; omega)
  rw [hfirst3 (by omega), hf2] at hf3'
  simp only [List.cons.injEq, and_true] at hf3'
  obtain ⟨rfl, rfl⟩ := hf3'
  refine (hs2.trans hs3).trans (MeshOp.steps ?_)
  unfold closeTail; rw [hq]; simp only
  apply edge_op
  · exact ((gq.mono (by omega : st3.mesh.nextId ≤ st3.mesh.nextId + 2)).setNext _ (by omega)).out0
  · exact (g1''.mono (by omega)).in1

theorem finish_spec {thr : α} {st : State α} (hI : Inv thr st) (hw : α) (closed : Bool) :
    MeshSteps st.mesh (finish thr hw st closed) := by
  unfold finish
  split_ifs
  · exact close_spec hI hw
  · exact (endWithCaps_spec hI).1

/-- the `line_to` loop of one sub-path -/
def feedPts (thr hw : α) (st : State α) (src : Nat) (pts : List (P α)) : State α × Nat :=
  pts.foldl (fun (acc : State α × Nat) p => ((step thr hw acc.1 (Pt.new p acc.2)).1, acc.2 + 1)) (st, src)

theorem raw_new (p : P α) (src : Nat) : Raw (Pt.new p src).ids := ⟨rfl, rfl⟩

theorem feedPts_spec (thr hw : α) (pts : List (P α)) : ∀ (st : State α) (src : Nat), Inv thr st →
    Inv thr (feedPts thr hw st src pts).1 ∧ MeshSteps st.mesh (feedPts thr hw st src pts).1.mesh := by
  induction pts with
  | nil => intro st src hI; exact ⟨hI, MeshSteps.refl _⟩
  | cons p ps ih =>
    intro st src hI
    obtain ⟨hI1, hs1, _, _⟩ := step_spec hI hw (Pt.new p src) (Or.inl (raw_new p src))
    obtain ⟨hI2, hs2⟩ := ih _ (src + 1) hI1
    exact ⟨hI2, hs1.trans hs2⟩

theorem subPath_eq (thr hw : α) (m : Mesh) (src : Nat) (pts : List (P α)) (closed : Bool) :
    subPath thr hw m src pts closed = finish thr hw (feedPts thr hw (State.new m) src pts).1 closed := rfl

theorem subPath_spec (thr hw : α) (m : Mesh) (src : Nat) (pts : List (P α)) (closed : Bool) :
    MeshSteps m (subPath thr hw m src pts closed) := by
  rw [subPath_eq]
  obtain ⟨hI, hs⟩ := feedPts_spec thr hw pts (State.new m) src (Inv.new thr m)
  exact hs.trans (finish_spec hI hw closed)

theorem path_spec (tolerance lineWidth : α) (subs : List (List (P α) × Bool)) :
    MeshSteps ⟨0, [], []⟩ (path tolerance lineWidth subs) := by
  unfold path
  simp only
  generalize squareMergeThreshold tolerance lineWidth = thr
  generalize lineWidth * half = hw
  suffices h : ∀ (acc : Mesh × Nat) (m0 : Mesh), MeshSteps m0 acc.1 →
      MeshSteps m0 (subs.foldl (fun (acc : Mesh × Nat) s =>
        (subPath thr hw acc.1 acc.2 s.1 s.2, acc.2 + s.1.length)) acc).1 from
    h _ _ (MeshSteps.refl _)
  induction subs with
  | nil => intro acc m0 h; exact h
  | cons s ss ih =>
    intro acc m0 h
    exact ih _ m0 (h.trans (subPath_spec thr hw acc.1 acc.2 s.1 s.2))

/-! ## vertex count of an open sub-path without merged points -/

/-- vertices contributed by the interior joins of the polyline `pts`: 3 per join, 4 if it folds -/
def joinCost (hw : α) : List (P α) → Nat
  | a :: b :: c :: rest => joinVerts hw a b c + joinCost hw (b :: c :: rest)
  | _ => 0

/-- number of interior joins that fold -/
def foldCount (hw : α) : List (P α) → Nat
  | a :: b :: c :: rest => (if (joinShape a b c hw).fold then 1 else 0) + foldCount hw (b :: c :: rest)
  | _ => 0

/-- every `points_are_too_close` test along the run answers `false` (without merges the last kept
point is always the previous input point) -/
def NoMerge (thr : α) : List (P α) → Prop
  | a :: b :: rest => pointsAreTooClose thr a b = false ∧ NoMerge thr (b :: rest)
  | _ => True

/-- no interior join folds -/
def NoFold (hw : α) : List (P α) → Prop
  | a :: b :: c :: rest => (joinShape a b c hw).fold = false ∧ NoFold hw (b :: c :: rest)
  | _ => True

theorem joinCost_eq (hw : α) : ∀ (pts : List (P α)),
    joinCost hw pts = 3 * (pts.length - 2) + foldCount hw pts
  | [] => rfl
  | [_] => rfl
  | [_, _] => rfl
  | a :: b :: c :: rest => by
    have ih := joinCost_eq hw (b :: c :: rest)
    simp only [joinCost, foldCount, joinVerts, ih, List.length_cons]
    split_ifs <;> omega

theorem foldCount_noFold (hw : α) : ∀ (pts : List (P α)), NoFold hw pts → foldCount hw pts = 0
  | [], _ => rfl
  | [_], _ => rfl
  | [_, _], _ => rfl
  | a :: b :: c :: rest, h => by
    have ih := foldCount_noFold hw (b :: c :: rest) h.2
    simp [foldCount, h.1, ih]

theorem step_added {thr : α} {st : State α} (hw : α) (next : Pt α)
    (h : isTooClose thr st next.pos = false) : (step thr hw st next).2 = true := by
  unfold step; rw [if_neg (by simp [h])]

theorem feedPts_cons (thr hw : α) (st : State α) (src : Nat) (p : P α) (ps : List (P α)) :
    feedPts thr hw st src (p :: ps) = feedPts thr hw (step thr hw st (Pt.new p src)).1 (src + 1) ps := rfl

theorem feedPts_verts (thr hw : α) (rest : List (P α)) : ∀ (st : State α) (src : Nat) (a b : Pt α),
    Inv thr st → st.buf.lastTwo = some (a, b) → NoMerge thr (b.pos :: rest) →
    2 ≤ (feedPts thr hw st src rest).1.buf.count
    ∧ (feedPts thr hw st src rest).1.mesh.verts.length
        = st.mesh.verts.length + joinCost hw (a.pos :: b.pos :: rest) := by
  induction rest with
  | nil =>
    intro st src a b hI hab _
    exact ⟨WF.lastTwo_count a b hab, rfl⟩
  | cons c rest ih =>
    intro st src a b hI hab hm
    obtain ⟨hfar, hm'⟩ := hm
    have hlast := hI.wf.lastTwo_last a b hab
    have hnot : isTooClose thr st (Pt.new c src).pos = false := by
      rw [isTooClose_eq hlast]; exact hfar
    obtain ⟨hI1, _, _, htrue⟩ := step_spec hI hw (Pt.new c src) (Or.inl (raw_new c src))
    obtain ⟨_, _, _, _, _, hjoin⟩ := htrue (step_added hw _ hnot)
    obtain ⟨q, hq, hqp, _, hv⟩ := hjoin a b hab
    obtain ⟨h2, hlen⟩ := ih _ (src + 1) q (Pt.new c src) hI1 hq hm'
    rw [feedPts_cons]
    refine ⟨h2, ?_⟩
    rw [hlen, hv, hqp]
    simp only [joinCost, Pt.new]
    omega

theorem isTooClose_new (thr : α) (m : Mesh) (p : P α) : isTooClose thr (State.new m) p = false := by
  simp [isTooClose, State.new, PointBuffer.new, PointBuffer.last]

/-- one open sub-path with at least two points, none of them merged: 4 cap vertices and
`joinCost` join vertices -/
theorem subPath_open_verts (thr hw : α) (m : Mesh) (src : Nat) (pts : List (P α))
    (h2 : 2 ≤ pts.length) (hm : NoMerge thr pts) :
    (subPath thr hw m src pts false).verts.length = m.verts.length + 4 + joinCost hw pts := by
  match pts, h2, hm with
  | a :: b :: rest, _, hm =>
    obtain ⟨hfar, hm'⟩ := hm
    rw [subPath_eq, feedPts_cons, feedPts_cons]
    -- first point
    obtain ⟨hI1, _, _, htrue1⟩ := step_spec (Inv.new thr m) hw (Pt.new a src) (Or.inl (raw_new a src))
    obtain ⟨_, hc1, hl1, _, hlow1, _⟩ := htrue1 (step_added hw _ (isTooClose_new thr m a))
    have hm1 := (hlow1 (by simp [State.new, PointBuffer.new])).1
    have hc1' : (step thr hw (State.new m) (Pt.new a src)).1.buf.count = 1 := by
      rw [hc1]; simp [State.new, PointBuffer.new]
    generalize (step thr hw (State.new m) (Pt.new a src)).1 = st1 at hI1 hc1' hl1 hm1 ⊢
    -- second point
    have hnot : isTooClose thr st1 (Pt.new b (src + 1)).pos = false := by
      rw [isTooClose_eq hl1]; exact hfar
    obtain ⟨hI2, _, _, htrue2⟩ := step_spec hI1 hw (Pt.new b (src + 1)) (Or.inl (raw_new b _))
    obtain ⟨_, _, _, _, hlow2, _⟩ := htrue2 (step_added hw _ hnot)
    obtain ⟨hm2, hl2⟩ := hlow2 (by omega)
    have hab := hl2 _ hl1
    generalize (step thr hw st1 (Pt.new b (src + 1))).1 = st2 at hI2 hm2 hab ⊢
    -- the rest, then the caps
    obtain ⟨hcnt, hlen⟩ := feedPts_verts thr hw rest st2 (src + 1 + 1) _ _ hI2 hab hm'
    obtain ⟨hI3, _⟩ := feedPts_spec thr hw rest st2 (src + 1 + 1) hI2
    have hfin : ∀ st : State α, finish thr hw st false = endWithCaps st := by
      intro st; simp [finish]
    rw [hfin, (endWithCaps_spec hI3).2.1 hcnt, hlen, hm2, hm1]
    show m.verts.length + joinCost hw (a :: b :: rest) + 4 = _
    omega

end State

/-! ## the trace form of `MeshSteps` -/

/-- vertices / triangles of a list of blocks (one block per operation) -/
def vertsOf (bs : List (List (Nat × Side) × List Tri)) : List (Nat × Side) := (bs.map (·.1)).flatten
def trisOf (bs : List (List (Nat × Side) × List Tri)) : List Tri := (bs.map (·.2)).flatten

/-- A run of operations, spelled out: the output splits into consecutive blocks (at most 4
vertices and 4 triangles each) such that every triangle of a block is proper and only references
ids handed out up to the end of the vertices of the SAME block. -/
theorem MeshSteps.trace {m0 m : Mesh} (h : MeshSteps m0 m) :
    ∃ bs : List (List (Nat × Side) × List Tri), m = grow m0 (vertsOf bs) (trisOf bs)
      ∧ ∀ pre b post, bs = pre ++ b :: post → b.1.length ≤ 4 ∧ b.2.length ≤ 4
        ∧ ∀ t ∈ b.2, Tri.Distinct t ∧ Tri.Below t (m0.nextId + (vertsOf pre).length + b.1.length) := by
  induction h with
  | refl => exact ⟨[], by simp [vertsOf, trisOf, grow_nil], by simp⟩
  | tail _ op ih =>
    obtain ⟨bs, rfl, hb⟩ := ih
    obtain ⟨vs, ts, rfl, hv, ht, hok⟩ := op
    refine ⟨bs ++ [(vs, ts)], by simp [vertsOf, trisOf, grow_grow], ?_⟩
    intro pre b post e
    rcases List.eq_nil_or_concat post with rfl | ⟨post', x, rfl⟩
    · have e' : bs ++ [(vs, ts)] = pre ++ [b] := e
      obtain ⟨rfl, hbx⟩ := List.append_inj' e' rfl
      simp only [List.cons.injEq, and_true] at hbx
      subst hbx
      refine ⟨hv, ht, ?_⟩
      simpa [Nat.add_assoc] using hok
    · have e' : bs ++ [(vs, ts)] = (pre ++ b :: post') ++ [x] := by simpa using e
      obtain ⟨rfl, _⟩ := List.append_inj' e' rfl
      exact hb pre b post' rfl

/-! ## a kernel-evaluable instance for concrete examples -/

/-- A `Transc ℚ` for the concrete `example`s of `Props/C05b.lean` (evaluated by kernel reduction):
`sqrt` is exact on the squares of `0..64` and `1` elsewhere; the other functions are not used by
`Poly`.  The theorems hold for every instance, so for this one too. -/
@[instance_reducible] def toyTransc : Transc ℚ where
  sqrt q := (((List.range 65).find? (fun k => decide ((k : ℚ) * k = q))).map (fun k => (k : ℚ))).getD 1
  cbrt := id
  sin := id
  cos := id
  tan := id
  acos := id
  atan2 := fun a _ => a
  pow := fun a _ => a
  log2 := id
  ln := id
  floor := id
  ceil := id
  toNat := fun _ => 0
  fmod := fun a _ => a
  eps := 0
  pi := 3
  isNaN := fun _ => false
  isFinite := fun _ => true

end Lyon.C05b
