/-
  C08 on the sweep model, curved input and custom attributes — part 1: the attribute buffer.

  `Reset.interp` (the model of `FillVertex::interpolated_attributes` that scribbles on the object's
  `attrib_buffer`) on a buffer of the right length computes, for a store whose slices have the
  right length, exactly the buffer-free `SweepCurves.vertexAttrs` (= `Sources.interpAttr` per
  component, the model family `sweepc:32` ties on fresh objects): every slot is assigned from the
  first source before the other sources are added to it, so what the buffer held — zeros of a new
  tessellator, the attributes of the previous vertex, the leftovers of an earlier call with another
  attribute count — never reaches the result.
-/
import LyonVerif.Model.Tess.ResetSweepCurves
import LyonVerif.Lemmas.Reset

set_option linter.unusedSectionVars false
set_option linter.unusedVariables false
set_option linter.unusedSimpArgs false

namespace Lyon.C08
open Lyon Lyon.Scalar Lyon.EQ Lyon.Sweep Lyon.SweepCurves Lyon.Reset

variable {α : Type} [Scalar α]

/-! ### one source -/

theorem storeL_length (ids : Array Nat) (values : Array (Array α)) (n id : Nat) :
    (storeL ids values n id).length = n := by
  simp [storeL]

theorem lenOk_toSrc (ids : Array Nat) (values : Array (Array α)) (n : Nat) (s : Sources.Source α) :
    (toSrc s).lenOk (storeL ids values n) n = true := by
  cases s <;> simp [toSrc, Src.lenOk, storeL_length]

/-- the slice a source contributes = its `srcAttr`, component by component -/
theorem val_toSrc (ids : Array Nat) (values : Array (Array α)) (n : Nat) (s : Sources.Source α) :
    (toSrc s).val (storeL ids values n) = (List.range n).map (fun i => Sources.srcAttr (storeOf ids values) i s) := by
  cases s with
  | endpoint id => rfl
  | edge f t u =>
    simp only [toSrc, Src.val, storeL, List.zipWith_map, List.zipWith_self, Sources.srcAttr]

/-! ### the accumulation loop -/

theorem accumulate_storeL (ids : Array Nat) (values : Array (Array α)) (n : Nat) (rest : List (Sources.Source α)) :
    ∀ (g : Nat → α) (div : α),
      accumulate (storeL ids values n) n (rest.map toSrc) ((List.range n).map g) div =
        some ((List.range n).map (fun i => rest.foldl (fun b s => b + Sources.srcAttr (storeOf ids values) i s) (g i)),
              rest.foldl (fun d _ => d + one) div) := by
  induction rest with
  | nil => intro g div; rfl
  | cons s r ih =>
    intro g div
    simp only [List.map_cons, accumulate, lenOk_toSrc, List.length_map, List.length_range, beq_self_eq_true,
      Bool.and_self, if_true, val_toSrc, List.zipWith_map, List.zipWith_self, List.foldl_cons]
    exact ih _ _

/-- the general path on a buffer of length `n` -/
theorem interpMain_storeL (ids : Array Nat) (values : Array (Array α)) (n : Nat) (first : Sources.Source α)
    (rest : List (Sources.Source α)) (buf : List α) (hb : buf.length = n) :
    let acc := fun i => rest.foldl (fun b s => b + Sources.srcAttr (storeOf ids values) i s)
      (Sources.srcAttr (storeOf ids values) i first)
    let div := rest.foldl (fun d _ => d + one) (one : α)
    let res := (List.range n).map (fun i => if one < div then acc i / div else acc i)
    interpMain (storeL ids values n) n (toSrc first) (rest.map toSrc) buf = (.slice res, res) := by
  intro acc div res
  have hd : buf.drop n = [] := by rw [← hb]; exact List.drop_length
  have ht : ((toSrc first).val (storeL ids values n)).take n = (toSrc first).val (storeL ids values n) := by
    apply List.take_of_length_le
    rw [val_toSrc]; simp
  unfold interpMain
  simp only [lenOk_toSrc, hb, beq_self_eq_true, Bool.and_self, Bool.not_true, Bool.false_eq_true, if_false, hd, ht,
    List.append_nil]
  rw [val_toSrc, accumulate_storeL]
  by_cases h : one < div
  · simp only [res, div, h, if_true, List.map_map]
    rfl
  · simp only [res, div, h, if_false]
    rfl

/-! ### one vertex -/

theorem sources_ne_nil (rs : List (Sources.EdgeRec α)) (h : rs ≠ []) : Sources.sources rs ≠ [] := by
  cases rs with
  | nil => exact absurd rfl h
  | cons r rs => simp [Sources.sources, Sources.sourcesFrom]

/-- `interpAttr`, all components, in the shape of the general path -/
theorem interpAttr_general (S : Nat → Nat → α) (rs : List (Sources.EdgeRec α)) (first : Sources.Source α)
    (rest : List (Sources.Source α)) (h : Sources.sources rs = first :: rest)
    (hfast : ∀ id, first = .endpoint id → rest ≠ []) (i : Nat) :
    Sources.interpAttr S rs i =
      (if one < rest.foldl (fun d _ => d + one) (one : α)
        then rest.foldl (fun b s => b + Sources.srcAttr S i s) (Sources.srcAttr S i first) / rest.foldl (fun d _ => d + one) (one : α)
        else rest.foldl (fun b s => b + Sources.srcAttr S i s) (Sources.srcAttr S i first)) := by
  unfold Sources.interpAttr
  rw [h]
  cases first with
  | edge f t u => rfl
  | endpoint id =>
    cases rest with
    | nil => exact absurd rfl (hfast id rfl)
    | cons s r => rfl

/-- **`interpolated_attributes` on the object's buffer = the buffer-free `vertexAttrs`**, for every
buffer of the length `tessellate_impl` has just given it, whatever it holds -/
theorem interpVertex_storeL (ids : Array Nat) (values : Array (Array α)) (n : Nat) (recs : List (P α × EQ.EdgeData α))
    (buf : List α) (hb : buf.length = n) (hr : recs ≠ []) :
    (interpVertex (some (storeL ids values n)) n recs buf).1 = .slice (vertexAttrs ids values n recs) ∧
    (interpVertex (some (storeL ids values n)) n recs buf).2.length = n := by
  have hne : Sources.sources (recs.map recOf) ≠ [] := sources_ne_nil _ (by simpa using hr)
  unfold interpVertex vertexAttrs
  cases hs : Sources.sources (recs.map recOf) with
  | nil => exact absurd hs hne
  | cons first rest =>
    cases first with
    | endpoint id =>
      cases rest with
      | nil =>
        refine ⟨?_, hb⟩
        show IRes.slice (storeL ids values n id) = _
        congr 1
        apply List.map_congr_left
        intro i _
        unfold Sources.interpAttr
        rw [hs]
      | cons s r =>
        have e := interpMain_storeL ids values n (.endpoint id) (s :: r) buf hb
        have e' : interp (some (storeL ids values n)) n (List.map toSrc (.endpoint id :: s :: r)) buf =
            interpMain (storeL ids values n) n (toSrc (.endpoint id)) ((s :: r).map toSrc) buf := rfl
        rw [e', e]
        refine ⟨?_, by simp⟩
        show IRes.slice _ = IRes.slice _
        congr 1
        apply List.map_congr_left
        intro i _
        rw [interpAttr_general _ _ _ _ hs (fun _ _ => List.cons_ne_nil _ _)]
    | edge f t u =>
      have e := interpMain_storeL ids values n (.edge f t u) rest buf hb
      have e' : interp (some (storeL ids values n)) n (List.map toSrc (.edge f t u :: rest)) buf =
          interpMain (storeL ids values n) n (toSrc (.edge f t u)) (rest.map toSrc) buf := by
        cases rest <;> rfl
      rw [e', e]
      refine ⟨?_, by simp⟩
      show IRes.slice _ = IRes.slice _
      congr 1
      apply List.map_congr_left
      intro i _
      rw [interpAttr_general _ _ _ _ hs (fun _ h => by cases h)]

/-! ### all vertices of a call -/

/-- the attributes handed to the vertex constructors of one call depend on the LENGTH of the
buffer only (which `resize` / `clear` fix), for every store -/
theorem withAttrs_fresh (store : Option (Nat → List α)) (n : Nat) (es : List (Emit α)) :
    ∀ (buf buf' : List α), buf.length = buf'.length →
      (withAttrs store n es buf).1 = (withAttrs store n es buf').1 ∧
      (withAttrs store n es buf).2.length = (withAttrs store n es buf').2.length := by
  induction es with
  | nil => intro buf buf' h; exact ⟨rfl, h⟩
  | cons e r ih =>
    intro buf buf' h
    cases e with
    | vertex pos recs =>
      obtain ⟨e1, e2⟩ := interp_fresh store n ((Sources.sources (recs.map recOf)).map toSrc) buf buf' h
      obtain ⟨i1, i2⟩ := ih _ _ e2
      simp only [withAttrs, interpVertex]
      exact ⟨by rw [e1, i1], i2⟩
    | tri a b c =>
      obtain ⟨i1, i2⟩ := ih _ _ h
      simp only [withAttrs]
      exact ⟨by rw [i1], i2⟩

/-- without a store every vertex gets `NO_ATTRIBUTES` and the buffer is not touched -/
theorem withAttrs_none (n : Nat) (ids : Array Nat) (values : Array (Array α)) (k : Nat) (es : List (Emit α)) (buf : List α) :
    (withAttrs none n es buf).1 = es.map (annotate false ids values k) := by
  induction es generalizing buf with
  | nil => rfl
  | cons e r ih =>
    cases e with
    | vertex pos recs =>
      simp only [withAttrs, List.map_cons, annotate, vertexAttrsR, interpVertex, interp, Bool.not_false, if_true]
      rw [ih]
    | tri a b c => simp only [withAttrs, List.map_cons, annotate]; rw [ih]

/-- **with a store: every vertex of the call gets `vertexAttrs`**, whatever the buffer held when
the call started (zeros or stale values), the buffer being threaded through all the vertices -/
theorem withAttrs_storeL (ids : Array Nat) (values : Array (Array α)) (n : Nat) (es : List (Emit α)) :
    ∀ (buf : List α), buf.length = n →
      (withAttrs (some (storeL ids values n)) n es buf).1 = es.map (annotate true ids values n) := by
  induction es with
  | nil => intro _ _; rfl
  | cons e r ih =>
    intro buf hb
    cases e with
    | vertex pos recs =>
      simp only [withAttrs, List.map_cons, annotate, vertexAttrsR, Bool.not_true, Bool.false_eq_true, if_false]
      cases recs with
      | nil =>
        simp only [List.isEmpty_nil, if_true]
        have e0 : interpVertex (some (storeL ids values n)) n ([] : List (P α × EQ.EdgeData α)) buf = (.panic, buf) := rfl
        rw [e0, ih buf hb]
      | cons x xs =>
        obtain ⟨h1, h2⟩ := interpVertex_storeL ids values n (x :: xs) buf hb (List.cons_ne_nil _ _)
        simp only [List.isEmpty_cons, Bool.false_eq_true, if_false]
        rw [h1, ih _ h2]
    | tri a b c => simp only [withAttrs, List.map_cons, annotate]; rw [ih buf hb]

end Lyon.C08
