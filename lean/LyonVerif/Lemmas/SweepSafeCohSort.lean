/-
  SPAN / WINDING COHERENCE, recovery, part 1: sums over arrays are invariant under the insertion sort
  (`siftLeft`, `insertionSort`) - all that "the re-sorted active list is a permutation of the old one"
  is needed for.
-/
import LyonVerif.Lemmas.SweepSafeCohLoop

set_option linter.unusedSectionVars false
set_option linter.unusedVariables false
set_option linter.unusedSimpArgs false

namespace Lyon.SweepCoh
open Lyon Lyon.Scalar Lyon.Mono Lyon.Sweep Lyon.EQ Lyon.SweepSafe

/-- sum of `h` over a list -/
def lsum {γ : Type} (h : γ → Int) (l : List γ) : Int := (l.map h).sum

theorem lsum_nil {γ : Type} (h : γ → Int) : lsum h [] = 0 := rfl
theorem lsum_cons {γ : Type} (h : γ → Int) (x : γ) (l : List γ) : lsum h (x :: l) = h x + lsum h l := by
  simp [lsum]
theorem lsum_append {γ : Type} (h : γ → Int) (l m : List γ) : lsum h (l ++ m) = lsum h l + lsum h m := by
  simp [lsum, List.sum_append]

theorem lsum_set {γ : Type} (h : γ → Int) : ∀ (l : List γ) (i : Nat) (v : γ) (hi : i < l.length),
    lsum h (l.set i v) = lsum h l - h l[i] + h v
  | [], i, v, hi => by simp at hi
  | x :: l, 0, v, _ => by simp [lsum_cons]; omega
  | x :: l, i+1, v, hi => by
    have := lsum_set h l i v (by simpa using hi)
    simp only [List.set_cons_succ, lsum_cons, List.getElem_cons_succ, this]
    omega

/-- sum of `h` over an array -/
def asum {γ : Type} (h : γ → Int) (a : Array γ) : Int := lsum h a.toList

theorem asum_set {γ : Type} (h : γ → Int) (a : Array γ) (i : Nat) (v : γ) (hi : i < a.size) :
    asum h (a.setIfInBounds i v) = asum h a - h a[i] + h v := by
  unfold asum
  rw [Array.toList_setIfInBounds, lsum_set h _ i v (by simpa using hi)]
  simp

theorem siftLeft_size {γ : Type} (less : γ → γ → Bool) (tmp : γ) : ∀ (j : Nat) (a : Array γ),
    (siftLeft less tmp j a).size = a.size
  | 0, a => by simp [siftLeft]
  | j+1, a => by
    simp only [siftLeft]
    split
    · rw [siftLeft_size less tmp j]; simp
    · simp

/-- `siftLeft` with the hole at position `j`: the sum loses the hole's content and gains `tmp` -/
theorem siftLeft_sum {γ : Type} (h : γ → Int) (less : γ → γ → Bool) (tmp : γ) : ∀ (j : Nat) (a : Array γ)
    (hj : j < a.size), asum h (siftLeft less tmp j a) = asum h a - h a[j] + h tmp
  | 0, a, hj => by simp only [siftLeft]; exact asum_set h a 0 tmp hj
  | j+1, a, hj => by
    simp only [siftLeft]
    have hj' : j < a.size := by omega
    have hg : a.getD j tmp = a[j] := by simp [Array.getD, hj']
    rw [hg]
    by_cases hl : less tmp a[j] = true
    · rw [if_pos hl]
      rw [siftLeft_sum h less tmp j _ (by simp; omega), asum_set h a (j + 1) a[j] hj]
      have : (a.setIfInBounds (j + 1) a[j])[j]'(by simp; omega) = a[j] := by
        rw [Array.getElem_setIfInBounds (by omega)]; simp
      rw [this]
      omega
    · rw [if_neg hl]
      exact asum_set h a (j + 1) tmp hj

theorem insertionSort_sum_size {γ : Type} (h : γ → Int) (less : γ → γ → Bool) (a : Array γ) :
    asum h (insertionSort less a) = asum h a ∧ (insertionSort less a).size = a.size := by
  unfold insertionSort
  have key : ∀ (l : List Nat) (b : Array γ),
      asum h (l.foldl (fun a i => match a[i]? with
        | some tmp => if i == 0 then a else siftLeft less tmp i a
        | none => a) b) = asum h b ∧
      (l.foldl (fun a i => match a[i]? with
        | some tmp => if i == 0 then a else siftLeft less tmp i a
        | none => a) b).size = b.size := by
    intro l
    induction l with
    | nil => intro b; exact ⟨rfl, rfl⟩
    | cons i l ih =>
      intro b
      simp only [List.foldl_cons]
      have step : asum h (match b[i]? with
          | some tmp => if i == 0 then b else siftLeft less tmp i b
          | none => b) = asum h b ∧
          (match b[i]? with
          | some tmp => if i == 0 then b else siftLeft less tmp i b
          | none => b).size = b.size := by
        cases hb : b[i]? with
        | none => exact ⟨rfl, rfl⟩
        | some tmp =>
          dsimp only
          split
          · exact ⟨rfl, rfl⟩
          · rcases Array.getElem?_eq_some_iff.mp hb with ⟨hi, e⟩
            refine ⟨?_, siftLeft_size less tmp i b⟩
            rw [siftLeft_sum h less tmp i b hi, e]
            omega
      have := ih (match b[i]? with
          | some tmp => if i == 0 then b else siftLeft less tmp i b
          | none => b)
      exact ⟨this.1.trans step.1, this.2.trans step.2⟩
  exact key _ a

end Lyon.SweepCoh
