/-
  Algebra of the exact arc checker (Model/Geom/FlattenCertArc.lean):
  * `unit_cone_sagitta`   a unit vector in the cone of two unit vectors `P0, P1` is within `τ` of the
                          chord `P0P1` when `|P1 − P0|² ≤ 4τ(2 − τ)`, `0 ≤ τ ≤ 1`
  * `frame_map_contract`  `A` scales distances by at most `R`
  * `frame_map_lerp`      `A` maps chords to chords
  * `unit_pt_on_circle`   the advice points are on the unit circle
-/
import LyonVerif.Model.Geom.FlattenCertArc
import LyonVerif.Lemmas.FlattenCertExactList

set_option linter.unusedSectionVars false
set_option linter.unusedVariables false

geom_all Lyon.ArcChk

namespace Lyon.ArcChk
open Lyon Scalar Lyon.Flat Lyon.FlatChk

variable {K : Type} [Field K] [LinearOrder K] [IsStrictOrderedRing K]

theorem unit_cone_sagitta (P0 P1 Q : P K) (lam mu nu τ : K) (h0 : P0.sqLen = 1) (h1 : P1.sqLen = 1)
    (hq : Q.sqLen = 1) (hl : 0 ≤ lam) (hm : 0 ≤ mu) (hn : 0 < nu)
    (hx : nu * Q.x = lam * P0.x + mu * P1.x) (hy : nu * Q.y = lam * P0.y + mu * P1.y)
    (ht0 : 0 ≤ τ) (ht1 : τ ≤ 1) (hL : (P1 - P0).sqLen ≤ 4 * τ * (2 - τ)) :
    ∃ s : K, 0 ≤ s ∧ s ≤ 1 ∧ (Q - P0.lerp P1 s).sqLen ≤ τ * τ := by
  simp only [P.sqLen] at h0 h1 hq
  obtain ⟨L2, hL2⟩ : ∃ x : K, x = (P1 - P0).sqLen := ⟨_, rfl⟩
  rw [← hL2] at hL
  have hdot : P0.x * P1.x + P0.y * P1.y = 1 - L2 / 2 := by
    rw [hL2]; simp only [geom]; linarith
  have hL0 : 0 ≤ L2 := by rw [hL2]; exact sqLen_nonneg _
  obtain ⟨σ, hσ⟩ : ∃ x : K, x = lam + mu := ⟨_, rfl⟩
  -- ν² = σ² − λμ·L²
  have hnu2 : nu * nu = σ * σ - lam * mu * L2 := by
    have e : nu * nu = (nu * Q.x) * (nu * Q.x) + (nu * Q.y) * (nu * Q.y) := by
      have : (nu * Q.x) * (nu * Q.x) + (nu * Q.y) * (nu * Q.y) = nu * nu * (Q.x * Q.x + Q.y * Q.y) := by ring
      rw [this, hq, mul_one]
    rw [e, hx, hy, hσ]
    have : (lam * P0.x + mu * P1.x) * (lam * P0.x + mu * P1.x) + (lam * P0.y + mu * P1.y) * (lam * P0.y + mu * P1.y)
        = lam * lam * (P0.x * P0.x + P0.y * P0.y) + mu * mu * (P1.x * P1.x + P1.y * P1.y)
          + 2 * lam * mu * (P0.x * P1.x + P0.y * P1.y) := by ring
    rw [this, h0, h1, hdot]; ring
  have hlm : 0 ≤ lam * mu := mul_nonneg hl hm
  have hσ0 : 0 ≤ σ := by rw [hσ]; exact add_nonneg hl hm
  have hnule : nu * nu ≤ σ * σ := by nlinarith [mul_nonneg hlm hL0]
  have hσpos : 0 < σ := by
    rcases eq_or_lt_of_le hσ0 with h | h
    · rw [← h] at hnule; nlinarith [mul_pos hn hn]
    · exact h
  have hnuσ : nu ≤ σ := by
    by_contra hc
    have : σ < nu := not_le.mp hc
    nlinarith
  -- ν² ≥ σ²(1−τ)²
  have h4 : 4 * (lam * mu) ≤ σ * σ := by rw [hσ]; nlinarith [sq_nonneg (lam - mu)]
  have hlow : σ * σ * ((1 - τ) * (1 - τ)) ≤ nu * nu := by
    have hτ2 : 4 * τ * (2 - τ) = 4 * (1 - (1 - τ) * (1 - τ)) := by ring
    rw [hτ2] at hL
    -- λμ·L² ≤ (σ²/4)·4(1 − (1−τ)²)
    have h5 : lam * mu * L2 ≤ (σ * σ / 4) * (4 * (1 - (1 - τ) * (1 - τ))) := by
      have hnn : 0 ≤ 4 * (1 - (1 - τ) * (1 - τ)) := le_trans hL0 hL
      calc lam * mu * L2 ≤ (σ * σ / 4) * L2 := mul_le_mul_of_nonneg_right (by linarith) hL0
        _ ≤ (σ * σ / 4) * (4 * (1 - (1 - τ) * (1 - τ))) := mul_le_mul_of_nonneg_left hL (by positivity)
    rw [hnu2]; nlinarith
  have hρ : σ * (1 - τ) ≤ nu := by
    by_contra hc
    have hlt : nu < σ * (1 - τ) := not_le.mp hc
    have : nu * nu < (σ * (1 - τ)) * (σ * (1 - τ)) := mul_self_lt_mul_self (le_of_lt hn) hlt
    have e : (σ * (1 - τ)) * (σ * (1 - τ)) = σ * σ * ((1 - τ) * (1 - τ)) := by ring
    rw [e] at this
    linarith
  refine ⟨mu / σ, div_nonneg hm hσ0, ?_, ?_⟩
  · rw [div_le_one hσpos, hσ]; linarith
  · -- Q − X = Q·(1 − ν/σ)
    have hs : σ ≠ 0 := ne_of_gt hσpos
    have hone : 1 - mu / σ = lam / σ := by
      field_simp
      rw [hσ]; ring
    have ex : (Q - P0.lerp P1 (mu / σ)).x = Q.x * (1 - nu / σ) := by
      simp only [geom, Nat.cast_one]
      rw [hone]
      have : lam / σ * P0.x + mu / σ * P1.x = (lam * P0.x + mu * P1.x) / σ := by ring
      rw [this, ← hx]; field_simp
    have ey : (Q - P0.lerp P1 (mu / σ)).y = Q.y * (1 - nu / σ) := by
      simp only [geom, Nat.cast_one]
      rw [hone]
      have : lam / σ * P0.y + mu / σ * P1.y = (lam * P0.y + mu * P1.y) / σ := by ring
      rw [this, ← hy]; field_simp
    have e : (Q - P0.lerp P1 (mu / σ)).sqLen = (1 - nu / σ) * (1 - nu / σ) := by
      simp only [P.sqLen]
      rw [ex, ey]
      have : Q.x * (1 - nu / σ) * (Q.x * (1 - nu / σ)) + Q.y * (1 - nu / σ) * (Q.y * (1 - nu / σ))
          = (Q.x * Q.x + Q.y * Q.y) * ((1 - nu / σ) * (1 - nu / σ)) := by ring
      rw [this, hq, one_mul]
    rw [e]
    have hr1 : 0 ≤ 1 - nu / σ := by rw [sub_nonneg, div_le_one hσpos]; exact hnuσ
    have hr2 : 1 - nu / σ ≤ τ := by
      have : 1 - τ ≤ nu / σ := by rw [le_div_iff₀ hσpos]; linarith
      linarith
    exact mul_self_le_mul_self hr1 hr2

theorem frame_map_contract (f : Frame K) (R : K) (hc : f.c * f.c + f.s * f.s = 1)
    (hrx : f.rx * f.rx ≤ R * R) (hry : f.ry * f.ry ≤ R * R) (p q : P K) :
    (f.map p - f.map q).sqLen ≤ R * R * (p - q).sqLen := by
  have e : (f.map p - f.map q).sqLen
      = (f.c * f.c + f.s * f.s) * (f.rx * f.rx * ((p.x - q.x) * (p.x - q.x)) + f.ry * f.ry * ((p.y - q.y) * (p.y - q.y))) := by
    simp only [geom]; ring
  rw [e, hc, one_mul]
  have a := mul_le_mul_of_nonneg_right hrx (mul_self_nonneg (p.x - q.x))
  have b := mul_le_mul_of_nonneg_right hry (mul_self_nonneg (p.y - q.y))
  simp only [geom]
  nlinarith

theorem frame_map_lerp (f : Frame K) (p q : P K) (s : K) :
    f.map (p.lerp q s) = (f.map p).lerp (f.map q) s := by
  geom_ring

theorem unit_pt_on_circle (u : K) (flip : Bool) : (unitPt u flip).sqLen = 1 := by
  have hd : (1 : K) + u * u ≠ 0 := by nlinarith [mul_self_nonneg u]
  cases flip <;> simp only [unitPt, geom, Nat.cast_one, Nat.cast_ofNat, if_true, if_false, Bool.false_eq_true] <;>
    field_simp <;> ring

/-- the image of a unit point satisfies the ellipse's implicit equation in the frame -/
theorem frame_map_on_ellipse (f : Frame K) (hc : f.c * f.c + f.s * f.s = 1) (hrx : f.rx ≠ 0) (hry : f.ry ≠ 0)
    (p : P K) (hp : p.sqLen = 1) :
    ((f.c * ((f.map p).x - f.center.x) + f.s * ((f.map p).y - f.center.y)) / f.rx) ^ 2
      + ((-f.s * ((f.map p).x - f.center.x) + f.c * ((f.map p).y - f.center.y)) / f.ry) ^ 2 = 1 := by
  have e1 : f.c * ((f.map p).x - f.center.x) + f.s * ((f.map p).y - f.center.y)
      = (f.c * f.c + f.s * f.s) * (f.rx * p.x) := by simp only [geom]; ring
  have e2 : -f.s * ((f.map p).x - f.center.x) + f.c * ((f.map p).y - f.center.y)
      = (f.c * f.c + f.s * f.s) * (f.ry * p.y) := by simp only [geom]; ring
  rw [e1, e2, hc, one_mul, one_mul, mul_div_cancel_left₀ _ hrx, mul_div_cancel_left₀ _ hry]
  simp only [P.sqLen] at hp
  rw [← hp]; ring

end Lyon.ArcChk
