/-
  C02 growth 4 (`Props/C02g.lean`), part 16: the whole run of the advanced monotone tessellator as
  `Tiles0` steps on the fine remaining polygon: `vertex_t` (one `Adv.vertex`), `end_t` (`Adv.end_`:
  both flushes, the two forwards in sweep order, the inner `end`), `afeed_t`, `adv_run_tiles0`:
  every triangle of `Adv.run` lies strictly inside the polygon and no two overlap.
-/
import LyonVerif.Lemmas.MonotoneTileAdvSetStep

set_option linter.unusedSectionVars false
set_option linter.unusedVariables false
set_option linter.unusedSimpArgs false

namespace Lyon.C02f
open Lyon Lyon.Mono Lyon.C02 Lyon.C02c

section Geometry
variable {K : Type} [Field K] [LinearOrder K] [IsStrictOrderedRing K]

/-- `vertex` does not look at the triangle list -/
theorem vertex_congr_tris {α : Type} [Scalar α] (s s' : Basic α) (v : MV α) (h1 : s.stack = s'.stack)
    (h2 : s.previous = s'.previous) :
    (s.vertex v).stack = (s'.vertex v).stack ∧ (s.vertex v).previous = (s'.vertex v).previous ∧
      ∃ nt, (s.vertex v).tris = s.tris ++ nt ∧ (s'.vertex v).tris = s'.tris ++ nt := by
  unfold Basic.vertex
  rw [h1, h2]
  split
  · exact ⟨rfl, rfl, _, rfl, rfl⟩
  · cases s'.stack with
    | nil => exact ⟨rfl, rfl, [], by simp, by simp⟩
    | cons top rest => exact ⟨rfl, rfl, _, rfl, rfl⟩

variable (seq : List (P K × Bool))

theorem RgC_tess_congr {tess tess' : Basic K} (sc so : SideEv K) (k : Nat) (h1 : tess.stack = tess'.stack)
    (h2 : tess.previous = tess'.previous) : RgC seq tess sc so k = RgC seq tess' sc so k := by
  unfold RgC C02c.botPos; rw [h1, h2]

theorem Rg3_tess_congr (l : Bool) {tess tess' : Basic K} (a b : SideEv K) (k : Nat) (h1 : tess.stack = tess'.stack)
    (h2 : tess.previous = tess'.previous) : Rg3 seq l tess a b k = Rg3 seq l tess' a b k := by
  unfold Rg3
  rw [RgC_tess_congr seq a b k h1 h2, RgC_tess_congr seq b a k h1 h2, h2]

/-- flush and forward without touching the triangle list: the fan is accounted for separately -/
theorem ff_tiles_any (hval : SweepValid seq) (hnc : NoCollinear seq) (h2 : 2 ≤ seq.length) {l : Bool} {k : Nat}
    {tess : Basic K} {a b : SideEv K} (w : W3 seq l k tess a b) (hk : k + 1 ≤ seq.length) (hk1 : 1 ≤ k)
    (hl2 : 2 ≤ a.events.length) (hord : 2 ≤ b.events.length → a.last.id < b.last.id)
    (a' : SideEv K) (he : a'.events = [a.last.id]) :
    ∃ nt, (tess.vertex a.last).tris = tess.tris ++ nt ∧
      Tiles0 (Rg3 seq l tess a b k) (TriIn (posOf seq))
        (flushLevels a.events.toArray a.events.length (!l) (a.events.length + 1) 1 ++ nt)
        (Rg3 seq l (tess.vertex a.last) a' b k) := by
  obtain ⟨nt0, e0, t0⟩ := ff_tiles seq hval hnc h2 w hk hk1 hl2 hord a' he
  obtain ⟨c1, c2, nt, e1, e2⟩ := vertex_congr_tris
    (tess.pushTris (flushLevels a.events.toArray a.events.length (!l) (a.events.length + 1) 1)) tess a.last rfl rfl
  have : nt = nt0 := by
    rw [e0] at e1
    simp only [Basic.pushTris] at e1
    exact (List.append_cancel_left e1).symm
  subst this
  refine ⟨nt, e2, ?_⟩
  rw [← Rg3_tess_congr seq l a' b k c1 c2]
  exact t0

/-- the state after forwarding the end of chain `a` -/
theorem W3.fwd (hval : SweepValid seq) {l : Bool} {k : Nat} {tess : Basic K} {a b : SideEv K}
    (w : W3 seq l k tess a b) (hk : k ≤ seq.length) (hl2 : 2 ≤ a.events.length)
    (hord : 2 ≤ b.events.length → a.last.id < b.last.id) (a' : SideEv K) (he : a'.events = [a.last.id])
    (hla : a'.last = a.last) : W3 seq l k (tess.vertex a.last) a' b :=
  ⟨(fwd_y seq hval hk w.y hl2 w.ha hord a' he hla).1, ChordClear.short seq (by rw [he]; simp), w.hb,
    CInv.single (by rw [he, hla]) (hla ▸ w.na.good), w.nb⟩

theorem W3.pushTris {l : Bool} {k : Nat} {tess : Basic K} {a b : SideEv K} (w : W3 seq l k tess a b) (tr : List Tri) :
    W3 seq l k (tess.pushTris tr) a b :=
  ⟨Y3.pushTris seq w.y tr, w.ha, w.hb, w.na, w.nb⟩

/-- **the inner `end`** once both chains are flushed -/
theorem end_vertex_t (hval : SweepValid seq) {l : Bool} {k : Nat} {tess : Basic K} {a b : SideEv K}
    (w : W3 seq l k tess a b) (hk : k + 1 = seq.length) (ha1 : a.events.length < 2) (hb1 : b.events.length < 2) :
    ∃ nt R', (tess.end_ (posOf seq k) k).tris = tess.tris ++ nt ∧
      Tiles0 (Rg3 seq l tess a b k) (TriIn (posOf seq)) nt R' := by
  -- by symmetry the inner stack's top is on side `l`
  suffices hmain : ∀ (l : Bool) (a b : SideEv K), W3 seq l k tess a b → a.events.length < 2 → b.events.length < 2 →
      tess.previous.left = l → ∃ nt R', (tess.end_ (posOf seq k) k).tris = tess.tris ++ nt ∧
        Tiles0 (RgC seq tess a b k) (TriIn (posOf seq)) nt R' by
    by_cases hcl : tess.previous.left = l
    · have eL : Rg3 seq l tess a b k = RgC seq tess a b k := by unfold Rg3; rw [if_pos hcl]
      rw [eL]; exact hmain l a b w ha1 hb1 hcl
    · have eL : Rg3 seq l tess a b k = RgC seq tess b a k := by unfold Rg3; rw [if_neg hcl]
      rw [eL]; exact hmain (!l) b a (W3.symm seq w) hb1 ha1 (bool_ne_not hcl)
  intro l a b w ha1 hb1 hcl
  have hy := w.y
  have ht := hy.tinv
  obtain ⟨rest, hst⟩ := ht.top
  have hne0 : tess.stack ≠ [] := by rw [hst]; simp
  have hb0 : tess.stack.getLast? = some (tess.stack.getLast hne0) := List.getLast?_eq_some_getLast hne0
  generalize tess.stack.getLast hne0 = bot at hb0
  have hbmem : bot ∈ tess.stack := List.mem_of_getLast? hb0
  obtain ⟨hpid, hbid⟩ := (ht.heads bot hb0).1 hcl
  have hbotpos : C02c.botPos tess = bot.pos := by simp [C02c.botPos, hb0]
  have hprevmem : tess.previous ∈ tess.stack := by rw [hst]; simp
  obtain ⟨hae, hah⟩ := hy.ca.single_head seq ha1
  obtain ⟨hbe, hbh⟩ := hy.cb.single_head seq hb1
  have hak : headId a < k := hy.ca.lt _ (by rw [hy.ca.head_mem seq]; simp)
  have hbk : headId b < k := hy.cb.lt _ (by rw [hy.cb.head_mem seq]; simp)
  have hle := ht.le_prev seq
  have hssort := ht.stack_sorted seq hval
  have hlo := pairwise_last tess.stack bot ht.dec hb0
  have hrb : RunBetween seq tess.previous.left bot.id k := by
    refine ⟨?_, ?_, Or.inl hk⟩
    · intro j hj1 hj2
      by_contra hne
      have hsl : sideAt seq j = !l := by rw [hcl] at hne; revert hne; cases sideAt seq j <;> cases l <;> simp
      have := hy.cb.complete j (by omega) hj1 hsl
      rw [hbe, List.mem_singleton] at this
      omega
    · rw [hbid, hcl]; exact hy.cb.hside
  set cur : MV K := ⟨posOf seq k, k, !tess.previous.left⟩ with hcur
  have hcl' : (cur.left != tess.previous.left) = true := by
    simp only [hcur]; cases tess.previous.left <;> rfl
  have hvx : tess.vertex cur = ⟨[cur, tess.previous], cur, tess.tris ++ fanTris cur tess.stack.reverse⟩ := by
    simp only [Basic.vertex, hcl', if_true]
  refine ⟨fanTris cur tess.stack.reverse,
    InPoly tess.previous.left (tess.previous.pos :: [cur.pos]) (tess.previous.pos :: cur.pos :: []),
    by simp only [Basic.end_]; rw [← hcur, hvx], ?_⟩
  have hsideS : ∀ v ∈ tess.stack, v.pos = bot.pos ∨ 0 < sg tess.previous.left * wind bot.pos v.pos cur.pos := by
    intro v hv
    rcases hlo v hv with e | e
    · left; rw [ht.good v hv, ht.good bot hbmem, e]
    · right
      have := (onSide_iff _ _ _ _).mp (hval.2 k (by omega) bot.id (by omega) tess.previous.left hrb v.id
        (by have := hle v hv; omega) e)
      rw [ht.good bot hbmem, ht.good v hv]
      exact this
  have hcs : ∀ v ∈ tess.stack, After cur.pos v.pos := by
    intro v hv
    rw [ht.good v hv]
    exact valid_after hval (by have := hle v hv; omega) (by omega)
  have hfanP : FanPosT tess.previous.left cur.pos (tess.stack.map (·.pos)) := by
    apply fanPos tess.previous.left cur.pos bot.pos
    · rw [List.getLast?_map, hb0]; rfl
    · intro y hy'
      obtain ⟨v, hv, rfl⟩ := List.mem_map.mp hy'
      exact hsideS v hv
    · exact hssort
    · intro y hy'
      obtain ⟨v, hv, rfl⟩ := List.mem_map.mp hy'
      exact hcs v hv
    · exact ht.reflex
  have eL : RgC seq tess a b k = InPoly tess.previous.left ((tess.stack.map (·.pos)).reverse ++ [cur.pos])
      (bot.pos :: cur.pos :: []) := by
    unfold RgC
    rw [hbotpos, hae, hbe]
    simp only [List.tail_cons, List.map_nil, List.nil_append, fut]
    rw [futIds_last seq _ hk, futIds_last seq _ hk]
    rfl
  rw [eL]
  have hgoodst : ∀ v ∈ tess.previous :: rest, Good (posOf seq) v := by rw [← hst]; exact ht.good
  rw [hst] at hfanP hsideS hcs hb0 hssort
  have t := fan_step_tiles0 (posOf seq) tess.previous.left cur bot tess.previous rest [cur.pos] [] hgoodst rfl hb0
    hssort hcs hsideS hfanP (by
      simp only [SortedP, List.pairwise_cons, List.mem_singleton, forall_eq, List.not_mem_nil, false_imp_iff,
        implies_true, List.Pairwise.nil, and_true]
      exact hcs _ (by simp)) (by simp [SortedP]) (fun q hsp hin => Or.inl ⟨hsp, hin⟩)
  rw [← hst] at t
  exact t

/-- the invariants of a whole `Adv` state -/
def WA (k : Nat) (st : Adv K) : Prop := YA seq k st ∧ ZA seq k st ∧ NInv (posOf seq) k st

theorem WA.w3 {k : Nat} {st : Adv K} (h : WA seq k st) : W3 seq true k st.tess st.left st.right :=
  ⟨h.1, h.2.1.ha, h.2.1.hb, h.2.2.1.2.1, h.2.2.1.2.2⟩

/-- fine remaining polygon of a whole state -/
def RgA (st : Adv K) (k : Nat) : P K → Prop := Rg3 seq true st.tess st.left st.right k

theorem vertex_w (hval : SweepValid seq) (st : Adv K) (p : P K) (k : Nat) (l : Bool) (hk : k + 1 < seq.length)
    (h : WA seq k st) (hp : posOf seq k = p) (hs : sideAt seq k = l) : WA seq (k + 1) (st.vertex p k l) := by
  have hcc : ChordClearA seq st := ⟨h.2.1.ha, by have := h.2.1.hb; rwa [Bool.not_true] at this⟩
  exact ⟨(vertex_y seq hval st p k l hk h.1 hp hs hcc).1, vertex_z seq hval st p k l hk h.2.1 hp hs,
    vertex_n (posOf seq) st p k l h.2.2 hp (fun j hj => valid_after hval hj (by omega))⟩

/-- **`Adv.vertex`** as a `Tiles0` step -/
theorem vertex_t (hval : SweepValid seq) (hnc : NoCollinear seq) (h2 : 2 ≤ seq.length) (st : Adv K) (p : P K)
    (k : Nat) (l : Bool) (hk : k + 1 < seq.length) (hk1 : 1 ≤ k) (h : WA seq k st) (hp : posOf seq k = p)
    (hs : sideAt seq k = l) :
    ∃ nt, (st.vertex p k l).tess.tris = st.tess.tris ++ nt ∧
      Tiles0 (RgA seq st k) (TriIn (posOf seq)) nt (RgA seq (st.vertex p k l) (k + 1)) := by
  have w := h.w3 seq
  rw [vertex_eq]
  cases l
  · have wu : W3 seq false k (updRef st p false).tess (updRef st p false).right (updRef st p false).left :=
      ⟨(Y3.symm seq w.y).congr seq rfl rfl rfl rfl, w.hb.congr seq rfl rfl,
        by rw [Bool.not_false]; exact w.ha.congr seq rfl rfl, w.nb.congr rfl rfl rfl,
        by rw [Bool.not_false]; exact w.na.congr rfl rfl rfl⟩
    obtain ⟨nt, e, t⟩ := stepSides_t seq hval hnc h2 _ _ _
      ((updRef st p false).right.consRefX - (updRef st p false).left.consRefX) p false k hk hk1 wu hp hs
    refine ⟨nt, ?_, ?_⟩
    · simp only [vertex', Bool.false_eq_true, if_false]; exact e
    · have e1 : RgA seq st k = Rg3 seq false (updRef st p false).tess (updRef st p false).right (updRef st p false).left k := by
        unfold RgA
        rw [← Rg3_symm seq false]
        exact (Rg3_congr seq (!false) st.tess k rfl rfl).symm
      rw [e1]
      simp only [vertex', Bool.false_eq_true, if_false, RgA]
      have e2 := Rg3_symm seq false
        (stepSides (updRef st p false).tess (updRef st p false).right (updRef st p false).left
          ((updRef st p false).right.consRefX - (updRef st p false).left.consRefX) p k false).1
        (stepSides (updRef st p false).tess (updRef st p false).right (updRef st p false).left
          ((updRef st p false).right.consRefX - (updRef st p false).left.consRefX) p k false).2.1
        (stepSides (updRef st p false).tess (updRef st p false).right (updRef st p false).left
          ((updRef st p false).right.consRefX - (updRef st p false).left.consRefX) p k false).2.2 (k + 1)
      simp only [Bool.not_false] at e2
      rw [e2]
      exact t
  · have wu : W3 seq true k (updRef st p true).tess (updRef st p true).left (updRef st p true).right :=
      ⟨w.y.congr seq rfl rfl rfl rfl, w.ha.congr seq rfl rfl, w.hb.congr seq rfl rfl, w.na.congr rfl rfl rfl,
        w.nb.congr rfl rfl rfl⟩
    obtain ⟨nt, e, t⟩ := stepSides_t seq hval hnc h2 _ _ _
      ((updRef st p true).right.consRefX - (updRef st p true).left.consRefX) p true k hk hk1 wu hp hs
    refine ⟨nt, ?_, ?_⟩
    · simp only [vertex', if_true]; exact e
    · have e1 : RgA seq st k = Rg3 seq true (updRef st p true).tess (updRef st p true).left (updRef st p true).right k := by
        unfold RgA
        exact (Rg3_congr seq true st.tess k rfl rfl).symm
      rw [e1]
      simp only [vertex', if_true, RgA]
      exact t

end Geometry

end Lyon.C02f
