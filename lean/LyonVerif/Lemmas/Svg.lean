/-
  Helper lemmas for C15: protocol state over concatenation, the nesting invariant of the
  `WithSvg` model, and the simulation relation between the model and the SVG reference
  semantics (`Model/Path/SvgSpec.lean`).  Mathlib-free.
-/
import LyonVerif.Model.Path.SvgSpec
import LyonVerif.Lemmas.Trace

namespace Lyon.Svg
open Lyon.Path



variable {α ρ : Type}

/-- The nesting invariant: "the wrapped builder is inside a sub-path" (`b`) ⇔ `¬need_moveto`
⇔ `last_cmd ≤ Begin`. -/
def Inv (s : St α) (b : Bool) : Prop :=
  s.needMoveTo = !b ∧ decide (s.lastCmd.code ≤ Verb.begin.code) = b

theorem inv_init (zero : α) : Inv (St.init zero) false := by
  simp [Inv, St.init, Verb.code]

theorem endIfNeeded_nest {s : St α} {b : Bool} (h : Inv s b) :
    nestState b (endIfNeeded s) = some false := by
  obtain ⟨_, h2⟩ := h
  cases b
  · have h3 : ¬ (s.lastCmd.code ≤ Verb.begin.code) := by simpa using h2
    simp [endIfNeeded, h3, nestState]
  · have h3 : s.lastCmd.code ≤ Verb.begin.code := by simpa using h2
    simp [endIfNeeded, h3, nestState]

theorem moveTo_nest {s : St α} {b : Bool} (to : Pt α) (h : Inv s b) :
    nestState b (moveTo s to).2 = some true ∧ Inv (moveTo s to).1 true := by
  refine ⟨?_, by simp [Inv, moveTo, Verb.code]⟩
  exact nestState_append_of (endIfNeeded_nest h) (by simp [nestState])

theorem beginIfNeeded_nest {s : St α} {b : Bool} (d : Pt α) (h : Inv s b) :
    nestState b (beginIfNeeded s d).2.1 = some true ∧ Inv (beginIfNeeded s d).1 true := by
  unfold beginIfNeeded
  by_cases hn : s.needMoveTo = true
  · by_cases he : s.isEmpty = true
    · simpa [hn, he] using moveTo_nest d h
    · simpa [hn, he] using moveTo_nest s.first h
  · obtain ⟨h1, h2⟩ := h
    have hb : b = true := by cases b <;> simp_all
    subst hb
    simp_all [nestState, Inv]

theorem lineTo_nest {s : St α} {b : Bool} (to : Pt α) (h : Inv s b) :
    nestState b (lineTo s to).2 = some true ∧ Inv (lineTo s to).1 true := by
  have hb := beginIfNeeded_nest to h
  unfold lineTo
  rcases hbi : beginIfNeeded s to with ⟨s1, c1, sk⟩
  rw [hbi] at hb
  cases sk
  · exact ⟨nestState_append_of hb.1 (by simp [nestState]),
      by simpa [Inv, Verb.code] using hb.2.1⟩
  · exact hb

theorem quadTo_nest {s : St α} {b : Bool} (c to : Pt α) (h : Inv s b) :
    nestState b (quadTo s c to).2 = some true ∧ Inv (quadTo s c to).1 true := by
  have hb := beginIfNeeded_nest to h
  unfold quadTo
  rcases hbi : beginIfNeeded s to with ⟨s1, c1, sk⟩
  rw [hbi] at hb
  cases sk
  · exact ⟨nestState_append_of hb.1 (by simp [nestState]),
      by simpa [Inv, Verb.code] using hb.2.1⟩
  · exact hb

theorem cubicTo_nest {s : St α} {b : Bool} (c1 c2 to : Pt α) (h : Inv s b) :
    nestState b (cubicTo s c1 c2 to).2 = some true ∧ Inv (cubicTo s c1 c2 to).1 true := by
  have hb := beginIfNeeded_nest to h
  unfold cubicTo
  rcases hbi : beginIfNeeded s to with ⟨s1, c1', sk⟩
  rw [hbi] at hb
  cases sk
  · exact ⟨nestState_append_of hb.1 (by simp [nestState]),
      by simpa [Inv, Verb.code] using hb.2.1⟩
  · exact hb

theorem close_nest {s : St α} {b : Bool} (h : Inv s b) :
    nestState b (close s).2 = some false ∧ Inv (close s).1 false := by
  obtain ⟨h1, h2⟩ := h
  cases b
  · have h1' : s.needMoveTo = true := by simpa using h1
    simp [close, h1', nestState, Inv, h2]
  · have h1' : s.needMoveTo = false := by simpa using h1
    simp [close, h1', nestState, Inv, Verb.code]

theorem emitQuads_nest (s : St α) (qs : List (Pt α × Pt α)) (h : Inv s true) :
    nestState true (emitQuads s qs).2 = some true ∧ Inv (emitQuads s qs).1 true := by
  induction qs generalizing s with
  | nil => simpa [emitQuads, nestState] using h
  | cons q r ih =>
    obtain ⟨c, t⟩ := q
    have := ih { s with cur := t } (by simpa [Inv] using h)
    simpa [emitQuads, nestState] using this

theorem arc_nest {s : St α} {b : Bool} (o : ArcOut α) (h : Inv s b) :
    ∃ b', nestState b (arc s o).2 = some b' ∧ Inv (arc s o).1 b' := by
  have h0 : Inv { s with lastCtrl := s.cur } b := by simpa [Inv] using h
  cases o with
  | skip => exact ⟨b, by simp [arc, nestState], by simpa [arc] using h0⟩
  | curve start near quads =>
    refine ⟨true, ?_⟩
    have key : nestState b (arcCurve { s with lastCtrl := s.cur } start near quads).2 = some true ∧
        Inv (arcCurve { s with lastCtrl := s.cur } start near quads).1 true := by
      simp only [arcCurve]
      by_cases hn : s.needMoveTo = true
      · have hm := moveTo_nest start h0
        have he := emitQuads_nest (moveTo { s with lastCtrl := s.cur } start).1 quads hm.2
        simp only [hn, if_true]
        exact ⟨nestState_append_of hm.1 he.1, he.2⟩
      · have hb : b = true := by
          obtain ⟨h1, _⟩ := h
          cases b <;> simp_all
        subst hb
        have he := emitQuads_nest _ quads h0
        have h0' : Inv { ({ s with lastCtrl := s.cur } : St α) with cur := start } true := by
          simpa [Inv] using h0
        have he' := emitQuads_nest _ quads h0'
        cases near <;> simp_all [nestState]
    refine ⟨by simpa [arc] using key.1, ?_⟩
    obtain ⟨k1, k2⟩ := key.2
    exact ⟨by simpa [arc] using k1, by simp only [arc]; exact k2⟩

theorem arcTo_nest {s : St α} {b : Bool} (to : Pt α) (o : SvgArcOut α) (h : Inv s b) :
    ∃ b', nestState b (arcTo s to o).2 = some b' ∧ Inv (arcTo s to o).1 b' := by
  cases o with
  | straight => exact ⟨true, lineTo_nest to h⟩
  | arc o => exact arc_nest o h

section
variable [Add α] [Sub α]

theorem step_nest (g : Geo α ρ) {s : St α} {b : Bool} (c : Cmd α ρ) (h : Inv s b) :
    ∃ b', nestState b (step g s c).2 = some b' ∧ Inv (step g s c).1 b' := by
  cases c with
  | close => exact ⟨false, close_nest h⟩
  | arcTo r to => exact arcTo_nest _ _ h
  | relArcTo r v => exact arcTo_nest _ _ h
  | arc r => exact arc_nest _ h
  | moveTo to => exact ⟨true, moveTo_nest _ h⟩
  | relMoveTo v => exact ⟨true, moveTo_nest _ h⟩
  | lineTo to => exact ⟨true, lineTo_nest _ h⟩
  | relLineTo v => exact ⟨true, lineTo_nest _ h⟩
  | hLineTo x => exact ⟨true, lineTo_nest _ h⟩
  | relHLineTo x => exact ⟨true, lineTo_nest _ h⟩
  | vLineTo x => exact ⟨true, lineTo_nest _ h⟩
  | relVLineTo x => exact ⟨true, lineTo_nest _ h⟩
  | quadTo c to => exact ⟨true, quadTo_nest _ _ h⟩
  | relQuadTo c v => exact ⟨true, quadTo_nest _ _ h⟩
  | smoothQuadTo to => exact ⟨true, quadTo_nest _ _ h⟩
  | smoothRelQuadTo v => exact ⟨true, quadTo_nest _ _ h⟩
  | cubicTo c1 c2 to => exact ⟨true, cubicTo_nest _ _ _ h⟩
  | relCubicTo c1 c2 v => exact ⟨true, cubicTo_nest _ _ _ h⟩
  | smoothCubicTo c2 to => exact ⟨true, cubicTo_nest _ _ _ h⟩
  | smoothRelCubicTo c2 v => exact ⟨true, cubicTo_nest _ _ _ h⟩

theorem run_nest (g : Geo α ρ) (cmds : List (Cmd α ρ)) {s : St α} {b : Bool} (h : Inv s b) :
    ∃ b', nestState b (run g s cmds).2 = some b' ∧ Inv (run g s cmds).1 b' := by
  induction cmds generalizing s b with
  | nil => exact ⟨b, by simp [run, nestState], by simpa [run] using h⟩
  | cons c r ih =>
    obtain ⟨b1, h1, i1⟩ := step_nest g c h
    obtain ⟨b2, h2, i2⟩ := ih i1
    exact ⟨b2, by simpa [run] using nestState_append_of h1 h2, by simpa [run] using i2⟩

end

end Lyon.Svg

/-! ### Simulation between the `WithSvg` model and the SVG reference semantics -/

namespace Lyon.Svg
open Lyon.Path

variable {α ρ : Type}

/-- what `last_cmd` / `last_ctrl` must say for the reference's "previous command".  After an arc
`last_cmd` may still name the curve that preceded the arc; what makes the next smooth command
reflect nothing is `last_ctrl = current_position` (lyon commit 059d9c0c). -/
def PrevRel (l : St α) : Prev α → Prop
  | .other => l.lastCmd ≠ .quadraticTo ∧ l.lastCmd ≠ .cubicTo
  | .quad c => l.lastCmd = .quadraticTo ∧ l.lastCtrl = c
  | .cubic c => l.lastCmd = .cubicTo ∧ l.lastCtrl = c
  | .arc => l.lastCtrl = l.cur

structure Sim (l : St α) (s : Spec α) : Prop where
  cur : l.cur = s.cur
  first : l.first = s.start
  nm : l.needMoveTo = !s.isOpen
  empty : l.isEmpty = s.fresh
  lc : decide (l.lastCmd.code ≤ Verb.begin.code) = s.isOpen
  prev : PrevRel l s.prev

theorem sim_init (zero : α) : Sim (St.init zero) (Spec.init zero) := by
  constructor <;> simp [St.init, Spec.init, Verb.code, PrevRel]

theorem sim_endIfNeeded {l : St α} {s : Spec α} (h : Sim l s) :
    endIfNeeded l = if s.isOpen then [.end_ false] else [] := by
  have := h.lc
  cases ho : s.isOpen
  · have h3 : ¬ (l.lastCmd.code ≤ Verb.begin.code) := by simpa [ho] using this
    simp [endIfNeeded, h3]
  · have h3 : l.lastCmd.code ≤ Verb.begin.code := by simpa [ho] using this
    simp [endIfNeeded, h3]

theorem sim_moveTo {l : St α} {s : Spec α} (p : Pt α) (h : Sim l s) :
    (moveTo l p).2 = (s.moveTo p).2 ∧ Sim (moveTo l p).1 (s.moveTo p).1 := by
  refine ⟨by simp [moveTo, Spec.moveTo, sim_endIfNeeded h], ?_⟩
  constructor <;> simp [moveTo, Spec.moveTo, Verb.code, PrevRel]

/-- the common shape of `line_to` / `quadratic_bezier_to` / `cubic_bezier_to` -/
theorem sim_draw {l : St α} {s : Spec α} (h : Sim l s) (to : Pt α) (e : Call (Pt α) Unit)
    (pv : Prev α) (v : Verb) (k : Pt α) (hv : v.code ≤ Verb.begin.code)
    (hp : ∀ (f : Pt α) (nm em : Bool), PrevRel ⟨f, to, k, v, nm, em⟩ pv) :
    let r := beginIfNeeded l to
    let out : St α × Calls α :=
      if r.2.2 then (r.1, r.2.1)
      else ({ r.1 with cur := to, lastCmd := v, lastCtrl := k }, r.2.1 ++ [e])
    out.2 = (s.draw to e pv).2 ∧ Sim out.1 (s.draw to e pv).1 := by
  intro r out
  have hnm := h.nm
  have hem := h.empty
  cases ho : s.isOpen
  · -- no open sub-path
    have hn : l.needMoveTo = true := by simpa [ho] using hnm
    cases hf : s.fresh
    · have he : l.isEmpty = false := by simpa [hf] using hem
      have hm := sim_moveTo l.first h
      have hend := sim_endIfNeeded h
      simp only [ho] at hend
      refine ⟨?_, ?_⟩
      · simp [out, r, beginIfNeeded, hn, he, Spec.draw, ho, hf, moveTo, hend, h.first]
      · constructor <;>
          (simp [out, r, beginIfNeeded, hn, he, Spec.draw, ho, hf, moveTo, h.first, hv]
           try exact hp _ _ _)
    · have he : l.isEmpty = true := by simpa [hf] using hem
      have hm := sim_moveTo to h
      refine ⟨?_, ?_⟩
      · simpa [out, r, beginIfNeeded, hn, he, Spec.draw, ho, hf] using hm.1
      · simpa [out, r, beginIfNeeded, hn, he, Spec.draw, ho, hf] using hm.2
  · have hn : l.needMoveTo = false := by simpa [ho] using hnm
    refine ⟨by simp [out, r, beginIfNeeded, hn, Spec.draw, ho], ?_⟩
    constructor <;>
      (simp [out, r, beginIfNeeded, hn, Spec.draw, ho, h.first, h.empty, hv]
       try exact hp _ _ _)

theorem beginIfNeeded_lastCtrl (l : St α) (d : Pt α) :
    (beginIfNeeded l d).1.lastCtrl = l.lastCtrl := by
  unfold beginIfNeeded
  cases l.needMoveTo <;> cases l.isEmpty <;> simp [moveTo]

theorem lineTo_eq (l : St α) (to : Pt α) :
    lineTo l to =
      if (beginIfNeeded l to).2.2 then ((beginIfNeeded l to).1, (beginIfNeeded l to).2.1)
      else ({ (beginIfNeeded l to).1 with cur := to, lastCmd := .lineTo, lastCtrl := l.lastCtrl },
            (beginIfNeeded l to).2.1 ++ [.line to ()]) := by
  have hc := beginIfNeeded_lastCtrl l to
  unfold lineTo
  rcases hb : beginIfNeeded l to with ⟨s1, c1, sk⟩
  rw [hb] at hc
  cases sk <;> simp_all

theorem quadTo_eq (l : St α) (c to : Pt α) :
    quadTo l c to =
      if (beginIfNeeded l to).2.2 then ((beginIfNeeded l to).1, (beginIfNeeded l to).2.1)
      else ({ (beginIfNeeded l to).1 with cur := to, lastCmd := .quadraticTo, lastCtrl := c },
            (beginIfNeeded l to).2.1 ++ [.quad c to ()]) := by
  unfold quadTo
  rcases hb : beginIfNeeded l to with ⟨s1, c1, sk⟩
  cases sk <;> simp

theorem cubicTo_eq (l : St α) (c1 c2 to : Pt α) :
    cubicTo l c1 c2 to =
      if (beginIfNeeded l to).2.2 then ((beginIfNeeded l to).1, (beginIfNeeded l to).2.1)
      else ({ (beginIfNeeded l to).1 with cur := to, lastCmd := .cubicTo, lastCtrl := c2 },
            (beginIfNeeded l to).2.1 ++ [.cubic c1 c2 to ()]) := by
  unfold cubicTo
  rcases hb : beginIfNeeded l to with ⟨s1, k1, sk⟩
  cases sk <;> simp

/-- `line_to` (also the straight-line case of `arc_to`) -/
theorem sim_lineTo {l : St α} {s : Spec α} (h : Sim l s) (to : Pt α) (pv : Prev α)
    (hpv : pv = .other ∨ pv = .other) :
    (lineTo l to).2 = (s.draw to (.line to ()) pv).2 ∧
      Sim (lineTo l to).1 (s.draw to (.line to ()) pv).1 := by
  rw [lineTo_eq]
  refine sim_draw h to _ pv .lineTo l.lastCtrl (by simp [Verb.code]) ?_
  intro f nm em
  rcases hpv with rfl | rfl <;> simp [PrevRel]

theorem sim_quadTo {l : St α} {s : Spec α} (h : Sim l s) (c to : Pt α) :
    (quadTo l c to).2 = (s.draw to (.quad c to ()) (.quad c)).2 ∧
      Sim (quadTo l c to).1 (s.draw to (.quad c to ()) (.quad c)).1 := by
  rw [quadTo_eq]
  exact sim_draw h to _ _ .quadraticTo c (by simp [Verb.code]) (by intros; simp [PrevRel])

theorem sim_cubicTo {l : St α} {s : Spec α} (h : Sim l s) (c1 c2 to : Pt α) :
    (cubicTo l c1 c2 to).2 = (s.draw to (.cubic c1 c2 to ()) (.cubic c2)).2 ∧
      Sim (cubicTo l c1 c2 to).1 (s.draw to (.cubic c1 c2 to ()) (.cubic c2)).1 := by
  rw [cubicTo_eq]
  exact sim_draw h to _ _ .cubicTo c2 (by simp [Verb.code]) (by intros; simp [PrevRel])

theorem sim_close {l : St α} {s : Spec α} (h : Sim l s) :
    (close l).2 = s.close.2 ∧ Sim (close l).1 s.close.1 := by
  have hnm := h.nm
  cases ho : s.isOpen
  · have hn : l.needMoveTo = true := by simpa [ho] using hnm
    refine ⟨by simp [close, Spec.close, hn, ho], ?_⟩
    have hlc := h.lc
    have hpo : PrevRel l .other := by
      rw [ho] at hlc
      cases hl : l.lastCmd <;> simp_all [Verb.code, PrevRel]
    constructor <;> simp [close, Spec.close, hn, ho, h.cur, h.first, h.empty, h.lc, hpo]
  · have hn : l.needMoveTo = false := by simpa [ho] using hnm
    refine ⟨by simp [close, Spec.close, hn, ho], ?_⟩
    constructor <;> simp [close, Spec.close, hn, ho, h.first, h.empty, Verb.code, PrevRel]

theorem emitQuads_eq (l : St α) (qs : List (Pt α × Pt α)) :
    emitQuads l qs = ({ l with cur := lastTo l.cur qs }, quadCalls qs) := by
  induction qs generalizing l with
  | nil => simp [emitQuads, lastTo, quadCalls]
  | cons q r ih =>
    obtain ⟨c, t⟩ := q
    simp [emitQuads, lastTo, quadCalls, ih]

theorem sim_arc {l : St α} {s : Spec α} (h : Sim l s) (o : ArcOut α) :
    (arc l o).2 = (s.arcOut o).2 ∧ Sim (arc l o).1 (s.arcOut o).1 := by
  have hnm := h.nm
  cases o with
  | skip =>
    refine ⟨by simp [arc, Spec.arcOut], ?_⟩
    constructor <;> simp [arc, Spec.arcOut, h.cur, h.first, h.nm, h.empty, h.lc, PrevRel]
  | curve start near quads =>
    cases ho : s.isOpen
    · have hn : l.needMoveTo = true := by simpa [ho] using hnm
      have hend := sim_endIfNeeded h
      simp only [ho] at hend
      have hend' : ∀ x : St α, x.lastCmd = l.lastCmd → endIfNeeded x = [] := by
        intro x hx
        simpa [endIfNeeded, hx] using hend
      refine ⟨?_, ?_⟩
      · simp [arc, arcCurve, Spec.arcOut, hn, ho, emitQuads_eq, moveTo]
        exact hend' _ rfl
      · constructor <;>
          simp [arc, arcCurve, Spec.arcOut, hn, ho, emitQuads_eq, moveTo, Verb.code, PrevRel]
    · have hn : l.needMoveTo = false := by simpa [ho] using hnm
      refine ⟨?_, ?_⟩
      · cases near <;> simp [arc, arcCurve, Spec.arcOut, hn, ho, emitQuads_eq]
      · have hlc := h.lc
        cases near <;> constructor <;>
          simp_all [arc, arcCurve, Spec.arcOut, emitQuads_eq, h.cur, h.first, h.empty, PrevRel]

theorem sim_arcTo {l : St α} {s : Spec α} (h : Sim l s) (to : Pt α) (o : SvgArcOut α) :
    (arcTo l to o).2 = (s.arcTo to o).2 ∧ Sim (arcTo l to o).1 (s.arcTo to o).1 := by
  cases o with
  | straight => exact sim_lineTo h to .other (Or.inl rfl)
  | arc o => exact sim_arc h o

section
variable [Add α] [Sub α]

/-- reflecting a point about itself: the only algebra the adapter relies on -/
theorem pt_refl (hα : ∀ a : α, a + (a - a) = a) (p : Pt α) : p + (p - p) = p := by
  obtain ⟨x, y⟩ := p
  show Pt.mk (x + (x - x)) (y + (y - y)) = Pt.mk x y
  rw [hα x, hα y]

theorem sim_smoothCubic (hα : ∀ a : α, a + (a - a) = a) {l : St α} {s : Spec α} (h : Sim l s) :
    smoothCubicCtrl l = s.smoothCubic := by
  have hpr := h.prev
  have hc := h.cur
  unfold smoothCubicCtrl Spec.smoothCubic
  cases hv : s.prev with
  | arc =>
    rw [hv] at hpr
    simp only [PrevRel] at hpr
    cases hl : l.lastCmd <;> simp [hpr, pt_refl hα, hc]
  | other =>
    rw [hv] at hpr
    obtain ⟨_, h2⟩ := hpr
    cases hl : l.lastCmd <;> simp_all
  | quad c =>
    rw [hv] at hpr
    obtain ⟨h1, _⟩ := hpr
    simp [h1, hc]
  | cubic c =>
    rw [hv] at hpr
    obtain ⟨h1, h2⟩ := hpr
    simp [h1, h2, hc]

theorem sim_smoothQuad (hα : ∀ a : α, a + (a - a) = a) {l : St α} {s : Spec α} (h : Sim l s) :
    smoothQuadCtrl l = s.smoothQuad := by
  have hpr := h.prev
  have hc := h.cur
  unfold smoothQuadCtrl Spec.smoothQuad
  cases hv : s.prev with
  | arc =>
    rw [hv] at hpr
    simp only [PrevRel] at hpr
    cases hl : l.lastCmd <;> simp [hpr, pt_refl hα, hc]
  | other =>
    rw [hv] at hpr
    obtain ⟨h1, _⟩ := hpr
    cases hl : l.lastCmd <;> simp_all
  | cubic c =>
    rw [hv] at hpr
    obtain ⟨h1, _⟩ := hpr
    simp [h1, hc]
  | quad c =>
    rw [hv] at hpr
    obtain ⟨h1, h2⟩ := hpr
    simp [h1, h2, hc]

/-- One command: same calls, relation preserved. -/
theorem sim_step (hα : ∀ a : α, a + (a - a) = a) (g : Geo α ρ) {l : St α} {s : Spec α}
    (h : Sim l s) (c : Cmd α ρ) :
    (step g l c).2 = (s.step g c).2 ∧ Sim (step g l c).1 (s.step g c).1 := by
  have hc := h.cur
  cases c with
  | moveTo p => exact sim_moveTo p h
  | relMoveTo v => simpa [step, Spec.step, relToAbs, hc] using sim_moveTo (s.cur + v) h
  | close => exact sim_close h
  | lineTo p => exact sim_lineTo h p .other (Or.inl rfl)
  | relLineTo v =>
    simpa [step, Spec.step, relToAbs, hc] using sim_lineTo h (s.cur + v) .other (Or.inl rfl)
  | hLineTo x =>
    simpa [step, Spec.step, hc] using sim_lineTo h ⟨x, s.cur.y⟩ .other (Or.inl rfl)
  | relHLineTo x =>
    simpa [step, Spec.step, hc] using sim_lineTo h ⟨s.cur.x + x, s.cur.y⟩ .other (Or.inl rfl)
  | vLineTo y =>
    simpa [step, Spec.step, hc] using sim_lineTo h ⟨s.cur.x, y⟩ .other (Or.inl rfl)
  | relVLineTo y =>
    simpa [step, Spec.step, hc] using sim_lineTo h ⟨s.cur.x, s.cur.y + y⟩ .other (Or.inl rfl)
  | quadTo k p => exact sim_quadTo h k p
  | relQuadTo k v =>
    simpa [step, Spec.step, relToAbs, hc] using sim_quadTo h (s.cur + k) (s.cur + v)
  | smoothQuadTo p =>
    have := sim_smoothQuad hα h
    simpa [step, Spec.step, this] using sim_quadTo h s.smoothQuad p
  | smoothRelQuadTo v =>
    have := sim_smoothQuad hα h
    simpa [step, Spec.step, relToAbs, hc, this] using sim_quadTo h s.smoothQuad (s.cur + v)
  | cubicTo k1 k2 p => exact sim_cubicTo h k1 k2 p
  | relCubicTo k1 k2 v =>
    simpa [step, Spec.step, relToAbs, hc] using
      sim_cubicTo h (s.cur + k1) (s.cur + k2) (s.cur + v)
  | smoothCubicTo k2 p =>
    have := sim_smoothCubic hα h
    simpa [step, Spec.step, this] using sim_cubicTo h s.smoothCubic k2 p
  | smoothRelCubicTo k2 v =>
    have := sim_smoothCubic hα h
    simpa [step, Spec.step, relToAbs, hc, this] using
      sim_cubicTo h s.smoothCubic (s.cur + k2) (s.cur + v)
  | arcTo r p => simpa [step, Spec.step, hc] using sim_arcTo h p (g.endpoint r s.cur p)
  | relArcTo r v =>
    simpa [step, Spec.step, relToAbs, hc] using
      sim_arcTo h (s.cur + v) (g.endpoint r s.cur (s.cur + v))
  | arc r => simpa [step, Spec.step, hc] using sim_arc h (g.center r s.cur)

theorem sim_run (hα : ∀ a : α, a + (a - a) = a) (g : Geo α ρ) (cmds : List (Cmd α ρ))
    {l : St α} {s : Spec α} (h : Sim l s) :
    (run g l cmds).2 = (Spec.run g s cmds).2 ∧ Sim (run g l cmds).1 (Spec.run g s cmds).1 := by
  induction cmds generalizing l s with
  | nil => exact ⟨rfl, h⟩
  | cons c r ih =>
    obtain ⟨e1, s1⟩ := sim_step hα g h c
    obtain ⟨e2, s2⟩ := ih s1
    exact ⟨by simp [run, Spec.run, e1, e2], by simpa [run, Spec.run] using s2⟩

end

end Lyon.Svg

namespace Lyon.Svg
open Lyon.Path

variable {α ρ : Type}

/-- after any arc command that went through `arc`, `last_ctrl = current_position` -/
theorem arc_lastCtrl (s : St α) (o : ArcOut α) : (arc s o).1.lastCtrl = (arc s o).1.cur := by
  cases o <;> simp [arc]

/-! ### "an open sub-path means the path is not empty" -/

def NE (s : St α) : Prop := s.needMoveTo = false → s.isEmpty = false

theorem ne_init (zero : α) : NE (St.init zero) := by simp [NE, St.init]

theorem moveTo_NE (s : St α) (p : Pt α) : NE (moveTo s p).1 := by simp [NE, moveTo]

theorem beginIfNeeded_NE {s : St α} (d : Pt α) (h : NE s) : NE (beginIfNeeded s d).1 := by
  unfold beginIfNeeded
  cases hn : s.needMoveTo <;> cases he : s.isEmpty <;> simp_all [NE, moveTo]

theorem lineTo_NE {s : St α} (p : Pt α) (h : NE s) : NE (lineTo s p).1 := by
  have := beginIfNeeded_NE p h
  rw [lineTo_eq]; split <;> simpa [NE] using this

theorem quadTo_NE {s : St α} (c p : Pt α) (h : NE s) : NE (quadTo s c p).1 := by
  have := beginIfNeeded_NE p h
  rw [quadTo_eq]; split <;> simpa [NE] using this

theorem cubicTo_NE {s : St α} (c1 c2 p : Pt α) (h : NE s) : NE (cubicTo s c1 c2 p).1 := by
  have := beginIfNeeded_NE p h
  rw [cubicTo_eq]; split <;> simpa [NE] using this

theorem close_NE {s : St α} (h : NE s) : NE (close s).1 := by
  unfold close
  cases hn : s.needMoveTo <;> simp_all [NE]

theorem arc_NE {s : St α} (o : ArcOut α) (h : NE s) : NE (arc s o).1 := by
  cases o with
  | skip => simpa [arc, NE] using h
  | curve start near quads =>
    cases hn : s.needMoveTo <;> cases near <;>
      simp_all [arc, arcCurve, emitQuads_eq, NE, moveTo]

theorem arcTo_NE {s : St α} (p : Pt α) (o : SvgArcOut α) (h : NE s) : NE (arcTo s p o).1 := by
  cases o with
  | straight => exact lineTo_NE p h
  | arc o => exact arc_NE o h

section
variable [Add α] [Sub α]

theorem step_NE (g : Geo α ρ) {s : St α} (c : Cmd α ρ) (h : NE s) : NE (step g s c).1 := by
  cases c <;> simp only [step] <;>
    first
    | exact moveTo_NE _ _
    | exact close_NE h
    | exact lineTo_NE _ h
    | exact quadTo_NE _ _ h
    | exact cubicTo_NE _ _ _ h
    | exact arcTo_NE _ _ h
    | exact arc_NE _ h

theorem run_NE (g : Geo α ρ) (cmds : List (Cmd α ρ)) {s : St α} (h : NE s) :
    NE (run g s cmds).1 := by
  induction cmds generalizing s with
  | nil => simpa [run] using h
  | cons c r ih => simpa [run] using ih (step_NE g c h)

end

end Lyon.Svg
