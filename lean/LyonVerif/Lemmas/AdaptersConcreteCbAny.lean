/-
  C16 with the concrete flatteners, callback side, EVERY scalar type: the callbacks of a CUBIC's
  `for_each_flattened_with_t` end with `(curve.sample(1), t = 1)` — the last quadratic is
  `split_range(t0..1).to_quadratic()`, whose `to` is `self.sample(1.0)`, its last callback has
  `t.end == 1.0`, and `t_range.end == 1.0` for it, so the literal `1.0` is reported.  Under the
  per-curve hypothesis `curve.sample(1) = curve.to` (a theorem in every field; true of finite
  floats: `from·0 + ctrl1·0 + ctrl2·0 + to·1`; false for NaN/inf coordinates) the builder-side
  adapter therefore keeps the end point of every cubic exactly, in the arithmetic it runs in.
-/
import LyonVerif.Lemmas.AdaptersConcreteCb

set_option linter.unusedSectionVars false
set_option linter.unusedVariables false

namespace Lyon.Adapt
open Lyon Lyon.Path Scalar Lyon.Flat

section any
variable {α : Type} [Scalar α] [Transc α] [FlatConst α]

theorem quadsLoop_last (c : Cubic α) (step : α) (n : Nat) (t0 : α) :
    ∃ init t', c.quadsLoop step n t0 = init ++ [((c.splitRange t' one).toQuadratic, t', one)] := by
  induction n generalizing t0 with
  | zero => exact ⟨[], t0, rfl⟩
  | succ n ih =>
    obtain ⟨init, t', h⟩ := ih (t0 + step)
    exact ⟨((c.splitRange t0 (t0 + step)).toQuadratic, t0, t0 + step) :: init, t',
      by simp only [Cubic.quadsLoop, h, List.cons_append]⟩

theorem flatQuadsT_cons_any (tol : α) (q : Quad α) (r0 r1 : α) (rest : List (Quad α × α × α))
    (tFrom : α) (l : List (FlatSeg α))
    (h : Cubic.flatQuadsT tol ((q, r0, r1) :: rest) tFrom = some l) :
    ∃ lq lr, q.forEachFlattenedWithT tol = some lq
      ∧ Cubic.flatQuadsT tol rest (Cubic.rerange r0 (r1 - r0) (r1 == one) lq tFrom).2 = some lr
      ∧ l = (Cubic.rerange r0 (r1 - r0) (r1 == one) lq tFrom).1 ++ lr := by
  unfold Cubic.flatQuadsT at h
  split at h
  · cases h
  · rename_i lq hq
    cases hr : Cubic.flatQuadsT tol rest (Cubic.rerange r0 (r1 - r0) (r1 == one) lq tFrom).2 with
    | none => simp only [hr] at h; cases h
    | some lr =>
      simp only [hr, Option.some.injEq] at h
      exact ⟨lq, lr, hq, hr, h.symm⟩

/-- the segments of the LAST quadratic come last -/
theorem flatQuadsT_snoc (tol : α) (qs : List (Quad α × α × α)) (q : Quad α) (r0 r1 : α)
    (tFrom : α) (l : List (FlatSeg α))
    (h : Cubic.flatQuadsT tol (qs ++ [(q, r0, r1)]) tFrom = some l) :
    ∃ l1 lq tF, q.forEachFlattenedWithT tol = some lq
      ∧ l = l1 ++ (Cubic.rerange r0 (r1 - r0) (r1 == one) lq tF).1 := by
  induction qs generalizing tFrom l with
  | nil =>
    obtain ⟨lq, lr, hq, hr, rfl⟩ := flatQuadsT_cons_any tol q r0 r1 [] tFrom l h
    simp only [Cubic.flatQuadsT, Option.some.injEq] at hr
    subst hr
    exact ⟨[], lq, tFrom, hq, by simp⟩
  | cons x rest ih =>
    obtain ⟨q', a0, a1⟩ := x
    obtain ⟨lq', lr, _, hr, rfl⟩ := flatQuadsT_cons_any tol q' a0 a1 _ tFrom l h
    obtain ⟨l1, lq, tF, hq, rfl⟩ := ih _ lr hr
    exact ⟨_ ++ l1, lq, tF, hq, by rw [List.append_assoc]⟩

/-- re-ranging the last quadratic's segments: the last one is reported with the literal `1` -/
theorem rerange_snoc_last (hone : ((one : α) == one) = true) (r0 len : α) (l' : List (FlatSeg α))
    (x : FlatSeg α) (hx : x.t1 = one) (tFrom : α) :
    ∃ l'' tF, (Cubic.rerange r0 len true (l' ++ [x]) tFrom).1 = l'' ++ [⟨x.a, x.b, tF, one⟩] := by
  induction l' generalizing tFrom with
  | nil =>
    refine ⟨[], tFrom, ?_⟩
    simp [Cubic.rerange, hx, hone]
  | cons s r ih =>
    obtain ⟨l'', tF, h⟩ := ih (if (true && (s.t1 == one)) = true then one else s.t1 * len + r0)
    exact ⟨⟨s.a, s.b, tFrom, if (true && (s.t1 == one)) = true then one else s.t1 * len + r0⟩ :: l'',
      tF, by simp only [List.cons_append, Cubic.rerange, h]⟩

/-- **cbModel_cubic_ends_any**: every scalar type with `1 == 1`: the callbacks of a cubic's
`for_each_flattened_with_t` end with `(sample 1, 1)`; with `sample 1 = to`: with `(to, 1)` -/
theorem cbModel_cubic_ends_any (hone : ((one : α) == one) = true) (tol : α) (a c1 c2 b : P α)
    (hS : (⟨a, c1, c2, b⟩ : Cubic α).sample one = b) (h : cbOkCubic tol a c1 c2 b = true) :
    ∃ l x, (cbModel tol).cubic a c1 c2 b = l ++ [⟨x, b, one⟩] := by
  simp only [cbOkCubic, Option.isSome_iff_exists] at h
  obtain ⟨l0, hl0⟩ := h
  have hl := hl0
  simp only [Cubic.forEachFlattenedWithT, Cubic.forEachQuadraticWithT] at hl
  obtain ⟨init, t', hq⟩ := quadsLoop_last (⟨a, c1, c2, b⟩ : Cubic α)
    (one / (⟨a, c1, c2, b⟩ : Cubic α).numQuadraticsImpl (tol * FlatConst.value 4 1))
    ((toU32 ((⟨a, c1, c2, b⟩ : Cubic α).numQuadraticsImpl (tol * FlatConst.value 4 1))).getD 1 - 1) zero
  rw [hq] at hl
  obtain ⟨l1, lq, tF, hlq, rfl⟩ := flatQuadsT_snoc _ _ _ _ _ _ _ hl
  obtain ⟨hne, _, hlast, ht, _⟩ := quad_flat_structure _ _ lq hlq
  obtain ⟨l', x, rfl, hxb, hxt⟩ := snoc_of_ne_nil _ zero lq hne
  rw [ht] at hxt
  rw [show ((one : α) == one) = true from hone] at hl0
  obtain ⟨l'', tF', hr⟩ := rerange_snoc_last hone t' (one - t') l' x hxt.symm tF
  have hb : x.b = b := by
    rw [← hxb, hlast]
    exact hS
  refine ⟨(l1 ++ l'').map segOf, x.a, ?_⟩
  simp only [cbModel, hl0, Option.getD_some, hr, ← List.append_assoc, List.map_append,
    List.map_cons, List.map_nil, segOf, hb]

/-! ### the builder-side adapter -/

/-- every cubic the builder-side adapter hands to lyon_geom (from its current position) has
`sample(1) = to` in the scalar type at hand -/
def cubicSampleOk {A : Type} : P α → List (Call (P α) A) → Prop
  | _, [] => True
  | _, .begin p _ :: r => cubicSampleOk p r
  | _, .line p _ :: r => cubicSampleOk p r
  | _, .quad _ p _ :: r => cubicSampleOk p r
  | cur, .cubic c1 c2 p _ :: r => (⟨cur, c1, c2, p⟩ : Cubic α).sample one = p ∧ cubicSampleOk p r
  | cur, .end_ _ :: r => cubicSampleOk cur r

open Classical in
/-- `cbModel` on the curves that are fine (no panic; cubics: `sample 1 = to`), the single
callback `(from → to, 1)` elsewhere -/
noncomputable def cbTotS (tol : α) : Flattener (P α) α where
  quad := (cbTot tol).quad
  cubic a c1 c2 b :=
    if cbOkCubic tol a c1 c2 b = true ∧ (⟨a, c1, c2, b⟩ : Cubic α).sample one = b
    then (cbModel tol).cubic a c1 c2 b else [⟨a, b, one⟩]

theorem cbTotS_cubic_ends (hone : ((one : α) == one) = true) (tol : α) (a c1 c2 b : P α) :
    ∃ l x, (cbTotS tol).cubic a c1 c2 b = l ++ [⟨x, b, one⟩] := by
  by_cases h : cbOkCubic tol a c1 c2 b = true ∧ (⟨a, c1, c2, b⟩ : Cubic α).sample one = b
  · simpa [cbTotS, h] using cbModel_cubic_ends_any hone tol a c1 c2 b h.2 h.1
  · exact ⟨[], a, by simp [cbTotS, h]⟩

theorem flatRun_cbTotS (tol : α) (s : FlatB (P α) α) (prog : List (Call (P α) (List α)))
    (h : cbOkRun tol s.cur prog = true) (hs : cubicSampleOk s.cur prog) :
    FlatB.run (cbModel tol) s prog = FlatB.run (cbTotS tol) s prog := by
  induction prog generalizing s with
  | nil => rfl
  | cons c r ih =>
    cases c with
    | begin p a =>
      simp only [cbOkRun] at h; simp only [cubicSampleOk] at hs
      simp only [FlatB.run, FlatB.step]; rw [ih ⟨p, a⟩ h hs]
    | line p a =>
      simp only [cbOkRun] at h; simp only [cubicSampleOk] at hs
      simp only [FlatB.run, FlatB.step]; rw [ih ⟨p, a⟩ h hs]
    | end_ cl =>
      simp only [cbOkRun] at h; simp only [cubicSampleOk] at hs
      simp only [FlatB.run, FlatB.step]; rw [ih s h hs]
    | quad k p a =>
      simp only [cbOkRun, Bool.and_eq_true] at h; simp only [cubicSampleOk] at hs
      simp only [FlatB.run, FlatB.step]
      rw [ih ⟨p, a⟩ h.2 hs]
      simp [cbTotS, cbTot, h.1]
    | cubic k1 k2 p a =>
      simp only [cbOkRun, Bool.and_eq_true] at h; simp only [cubicSampleOk] at hs
      simp only [FlatB.run, FlatB.step]
      rw [ih ⟨p, a⟩ h.2 hs.2]
      simp [cbTotS, h.1, hs.1]

end any

section field
variable {K : Type} [Field K] [LinearOrder K] [IsStrictOrderedRing K] [Transc K] [FlatConst K]

/-- in a field the per-curve hypothesis always holds (`cubic_sample_one`) -/
theorem cubicSampleOk_field {A : Type} (cur : P K) (prog : List (Call (P K) A)) :
    cubicSampleOk cur prog := by
  induction prog generalizing cur with
  | nil => trivial
  | cons c r ih =>
    cases c with
    | begin p a => exact ih p
    | line p a => exact ih p
    | quad k p a => exact ih p
    | end_ cl => exact ih cur
    | cubic k1 k2 p a =>
      refine ⟨?_, ih p⟩
      rw [show (one : K) = 1 from sc_one]
      exact cubic_sample_one _

end field

end Lyon.Adapt
