/-
  Helper lemmas for C20 (hatching): stable insertion sort, the sorted-list parity lemma, the
  `hatch_line` loop as pairing of consecutive crossings, and the sweep invariant of `hatch`.
-/
import LyonVerif.Model.Algo.Hatch
import LyonVerif.Model.Algo.HatchCurves
import LyonVerif.Lemmas.Field

set_option linter.unusedSectionVars false
set_option linter.unusedVariables false
set_option linter.unusedSimpArgs false

namespace Lyon.Hatch
open Lyon Scalar

/-! ## Stable insertion sort -/

section sort
variable {β : Type}

theorem insertBy_perm (lt : β → β → Bool) (x : β) (l : List β) :
    (insertBy lt x l).Perm (x :: l) := by
  induction l with
  | nil => exact List.Perm.refl _
  | cons y ys ih =>
    simp only [insertBy]
    split
    · exact (List.Perm.cons y ih).trans (List.Perm.swap x y ys)
    · exact List.Perm.refl _

theorem isort_perm (lt : β → β → Bool) (l : List β) : (isort lt l).Perm l := by
  induction l with
  | nil => exact List.Perm.refl _
  | cons x xs ih => exact (insertBy_perm lt x _).trans (List.Perm.cons x ih)

theorem insertBy_pairwise {R : β → β → Prop} (lt : β → β → Bool)
    (trans : ∀ a b c, R a b → R b c → R a c)
    (h1 : ∀ a b, lt a b = true → R a b) (h2 : ∀ a b, lt a b = false → R b a)
    (x : β) (l : List β) (hl : l.Pairwise R) : (insertBy lt x l).Pairwise R := by
  induction l with
  | nil => simp [insertBy]
  | cons y ys ih =>
    rw [List.pairwise_cons] at hl
    simp only [insertBy]
    cases hlt : lt y x with
    | true =>
      simp only [if_true]
      rw [List.pairwise_cons]
      refine ⟨?_, ih hl.2⟩
      intro z hz
      have hz' := (insertBy_perm lt x ys).mem_iff.mp hz
      rcases List.mem_cons.mp hz' with rfl | hz''
      · exact h1 _ _ hlt
      · exact hl.1 z hz''
    | false =>
      simp only [Bool.false_eq_true, if_false]
      rw [List.pairwise_cons, List.pairwise_cons]
      refine ⟨?_, hl⟩
      intro z hz
      rcases List.mem_cons.mp hz with rfl | hz'
      · exact h2 _ _ hlt
      · exact trans _ _ _ (h2 _ _ hlt) (hl.1 z hz')

theorem isort_pairwise {R : β → β → Prop} (lt : β → β → Bool)
    (trans : ∀ a b c, R a b → R b c → R a c)
    (h1 : ∀ a b, lt a b = true → R a b) (h2 : ∀ a b, lt a b = false → R b a)
    (l : List β) : (isort lt l).Pairwise R := by
  induction l with
  | nil => simp [isort]
  | cons x xs ih => exact insertBy_pairwise lt trans h1 h2 x _ ih

end sort

variable {K : Type} [Field K] [LinearOrder K] [IsStrictOrderedRing K]

/-! ## `compare_positions` -/

theorem cmpPos_lt_y {a b : P K} (h : cmpPos a b = .lt) : a.y ≤ b.y := by
  unfold cmpPos at h
  split at h
  · contradiction
  · rename_i h1
    exact not_lt.mp h1

theorem cmpPos_ne_lt_y {a b : P K} (h : cmpPos a b ≠ .lt) : b.y ≤ a.y := by
  unfold cmpPos at h
  split at h
  · rename_i h1
    exact le_of_lt h1
  · split at h
    · exact absurd rfl h
    · rename_i h1 h2
      exact not_lt.mp h2

theorem cmpPos_ne_gt_y {a b : P K} (h : cmpPos a b ≠ .gt) : a.y ≤ b.y := by
  unfold cmpPos at h
  split at h
  · exact absurd rfl h
  · rename_i h1
    exact not_lt.mp h1

theorem sortActive_perm (y : K) (l : List (Seg K)) : (sortActive y l).Perm l := isort_perm _ l

theorem sortActive_sorted (y : K) (l : List (Seg K)) :
    (sortActive y l).Pairwise (fun e f => solveX e y ≤ solveX f y) := by
  apply isort_pairwise
  · intro a b c h1 h2; exact le_trans h1 h2
  · intro a b h; exact le_of_lt (of_decide_eq_true h)
  · intro a b h; exact not_lt.mp (of_decide_eq_false h)

theorem events_sorted_aux (l : List (Seg K)) :
    (isort ltFrom l).Pairwise (fun e f => e.a.y ≤ f.a.y) := by
  apply isort_pairwise
  · intro a b c h1 h2; exact le_trans h1 h2
  · intro a b h
    apply cmpPos_lt_y
    simpa [ltFrom] using h
  · intro a b h
    apply cmpPos_ne_lt_y
    intro hc
    simp [ltFrom, hc] at h

/-! ## The sorted-list parity lemma -/

/-- `x` lies strictly inside one of the intervals `(l₀,l₁), (l₂,l₃), …` -/
noncomputable def inPairs : List K → K → Prop
  | a :: b :: rest, x => (a < x ∧ x < b) ∨ inPairs rest x
  | _, _ => False

/-- number of elements of the list strictly left of `x` -/
noncomputable def countLt (l : List K) (x : K) : Nat := (l.filter (fun a => decide (a < x))).length

theorem countLt_eq_zero {l : List K} {x : K} (h : ∀ a ∈ l, x ≤ a) : countLt l x = 0 := by
  unfold countLt
  rw [List.length_eq_zero_iff, List.filter_eq_nil_iff]
  intro a ha
  simp [not_lt.mpr (h a ha)]

theorem inPairs_parity (x : K) : ∀ (l : List K), l.Pairwise (· ≤ ·) → x ∉ l →
    (inPairs l x ↔ (countLt l x % 2 = 1 ∧ ∃ b ∈ l, x < b))
  | [], _, _ => by simp [inPairs, countLt]
  | [a], _, hx => by
    simp only [inPairs, false_iff, not_and]
    intro hodd
    rintro ⟨b, hb, hxb⟩
    rw [List.mem_singleton] at hb
    subst hb
    simp [countLt, not_lt.mpr (le_of_lt hxb)] at hodd
  | a :: b :: rest, hs, hx => by
    rw [List.pairwise_cons, List.pairwise_cons] at hs
    obtain ⟨ha, hb, hrest⟩ := hs
    have hab : a ≤ b := ha b (List.mem_cons_self ..)
    have hxa : x ≠ a := fun h => hx (h ▸ List.mem_cons_self ..)
    have hxb : x ≠ b := fun h => hx (h ▸ List.mem_cons_of_mem _ (List.mem_cons_self ..))
    have hxr : x ∉ rest := fun h => hx (List.mem_cons_of_mem _ (List.mem_cons_of_mem _ h))
    have ih := inPairs_parity x rest hrest hxr
    have hcount : countLt (a :: b :: rest) x =
        (if a < x then 1 else 0) + (if b < x then 1 else 0) + countLt rest x := by
      unfold countLt
      simp only [List.filter_cons]
      by_cases h1 : a < x <;> by_cases h2 : b < x <;> simp [h1, h2] <;> omega
    simp only [inPairs]
    rcases lt_trichotomy x a with hlt | heq | hgt
    · -- x < a ≤ b ≤ rest
      have h0 : countLt rest x = 0 :=
        countLt_eq_zero (fun c hc => le_of_lt (lt_of_lt_of_le (lt_of_lt_of_le hlt hab) (hb c hc)))
      have na : ¬ a < x := not_lt.mpr (le_of_lt hlt)
      have nb : ¬ b < x := not_lt.mpr (le_of_lt (lt_of_lt_of_le hlt hab))
      rw [hcount]
      simp [na, nb, h0, ih]
    · exact absurd heq hxa
    · rcases lt_trichotomy x b with hlt | heq | hgt2
      · have h0 : countLt rest x = 0 :=
          countLt_eq_zero (fun c hc => le_of_lt (lt_of_lt_of_le hlt (hb c hc)))
        have nb : ¬ b < x := not_lt.mpr (le_of_lt hlt)
        rw [hcount]
        simp only [hgt, nb, h0, if_true, if_false]
        constructor
        · intro _
          exact ⟨by norm_num, b, List.mem_cons_of_mem _ (List.mem_cons_self ..), hlt⟩
        · intro _
          exact Or.inl ⟨trivial, hlt⟩
      · exact absurd heq hxb
      · rw [hcount]
        simp only [hgt, hgt2, if_true]
        have nb : ¬ x < b := not_lt.mpr (le_of_lt hgt2)
        have na : ¬ x < a := not_lt.mpr (le_of_lt hgt)
        rw [ih]
        constructor
        · rintro (⟨_, h⟩ | ⟨hodd, c, hc, hxc⟩)
          · exact absurd h nb
          · exact ⟨by omega, c, List.mem_cons_of_mem _ (List.mem_cons_of_mem _ hc), hxc⟩
        · rintro ⟨hodd, c, hc, hxc⟩
          right
          refine ⟨by omega, c, ?_, hxc⟩
          rcases List.mem_cons.mp hc with rfl | hc
          · exact absurd hxc na
          · rcases List.mem_cons.mp hc with rfl | hc
            · exact absurd hxc nb
            · exact hc

/-- with an even number of crossings the last one closes the last interval -/
theorem inPairs_parity_even (x : K) (l : List K) (hs : l.Pairwise (· ≤ ·)) (hx : x ∉ l)
    (he : l.length % 2 = 0) : inPairs l x ↔ countLt l x % 2 = 1 := by
  rw [inPairs_parity x l hs hx]
  constructor
  · exact fun h => h.1
  · intro hodd
    refine ⟨hodd, ?_⟩
    -- otherwise every element is < x and countLt = length is even
    by_contra hne
    have hall : ∀ a ∈ l, a < x := by
      intro a ha
      rcases lt_trichotomy a x with h | h | h
      · exact h
      · exact absurd (h ▸ ha) hx
      · exact absurd ⟨a, ha, h⟩ hne
    have : countLt l x = l.length := by
      unfold countLt
      rw [List.filter_eq_self.mpr]
      intro a ha
      simp [hall a ha]
    omega

/-! ## `hatch_line` -/

variable [Transc K]

/-- the predicate of the edges `hatch_line` does not skip (`active_edge.to.y <= y` → `continue`) -/
noncomputable def cnt (y : K) (e : Seg K) : Bool := !decide (e.b.y ≤ y)

/-- the half-open spanning rule -/
noncomputable def spansB (y : K) (e : Seg K) : Bool := decide (e.a.y ≤ y ∧ y < e.b.y)

/-- crossings of the counted edges, in list order -/
noncomputable def crossings (y : K) (l : List (Seg K)) : List K := (l.filter (cnt y)).map (fun e => solveX e y)

theorem lineLoop_intervals (cfg : Cfg K) (y : K) (row : Nat) (x : K) :
    ∀ (l : List (Seg K)) (px : K) (pt : P K),
      ((∃ s ∈ lineLoop cfg y row l false px pt, s.xa < x ∧ x < s.xb) ↔ inPairs (crossings y l) x) ∧
      ((∃ s ∈ lineLoop cfg y row l true px pt, s.xa < x ∧ x < s.xb) ↔ inPairs (px :: crossings y l) x)
  | [], px, pt => by simp [lineLoop, crossings, inPairs]
  | e :: es, px, pt => by
    by_cases h : e.b.y ≤ y
    · have hc : crossings y (e :: es) = crossings y es := by
        simp [crossings, cnt, h]
      have ih := lineLoop_intervals cfg y row x es px pt
      simp only [lineLoop, h, if_true, hc]
      exact ih
    · have hc : crossings y (e :: es) = solveX e y :: crossings y es := by
        simp [crossings, cnt, h]
      have ih := lineLoop_intervals cfg y row x es (solveX e y) (tangentOf cfg e)
      simp only [lineLoop, h, if_false, hc, if_true, Bool.false_eq_true]
      refine ⟨ih.2, ?_⟩
      simp only [List.mem_cons, exists_eq_or_imp, inPairs, mkSeg]
      rw [ih.1]

/-- every emitted segment joins two crossings of counted edges -/
theorem lineLoop_ends (cfg : Cfg K) (y : K) (row : Nat) :
    ∀ (l : List (Seg K)) (inside : Bool) (px : K) (pt : P K) (s : HSeg K),
      s ∈ lineLoop cfg y row l inside px pt →
      (s.xa = px ∨ s.xa ∈ crossings y l) ∧ s.xb ∈ crossings y l ∧
      s = mkSeg cfg y row s.xa s.xb s.ta s.tb
  | [], inside, px, pt, s, hs => by simp [lineLoop] at hs
  | e :: es, inside, px, pt, s, hs => by
    by_cases h : e.b.y ≤ y
    · have hc : crossings y (e :: es) = crossings y es := by simp [crossings, cnt, h]
      simp only [lineLoop, h, if_true] at hs
      rw [hc]
      exact lineLoop_ends cfg y row es inside px pt s hs
    · have hc : crossings y (e :: es) = solveX e y :: crossings y es := by
        simp [crossings, cnt, h]
      rw [hc]
      cases inside with
      | false =>
        simp only [lineLoop, h, if_false, Bool.false_eq_true] at hs
        have := lineLoop_ends cfg y row es true _ _ s hs
        rcases this with ⟨h1, h2, h3⟩
        refine ⟨Or.inr ?_, List.mem_cons_of_mem _ h2, h3⟩
        rcases h1 with h1 | h1
        · rw [h1]; exact List.mem_cons_self ..
        · exact List.mem_cons_of_mem _ h1
      | true =>
        simp only [lineLoop, h, if_false, if_true, List.mem_cons] at hs
        rcases hs with rfl | hs
        · exact ⟨Or.inl rfl, List.mem_cons_self .., rfl⟩
        · have := lineLoop_ends cfg y row es false _ _ s hs
          rcases this with ⟨h1, h2, h3⟩
          refine ⟨Or.inr ?_, List.mem_cons_of_mem _ h2, h3⟩
          rcases h1 with h1 | h1
          · rw [h1]; exact List.mem_cons_self ..
          · exact List.mem_cons_of_mem _ h1

/-- on a list sorted by crossing abscissa every emitted segment has its left end first -/
theorem lineLoop_ordered (cfg : Cfg K) (y : K) (row : Nat) :
    ∀ (l : List (Seg K)) (inside : Bool) (px : K) (pt : P K),
      l.Pairwise (fun e f => solveX e y ≤ solveX f y) →
      (inside = true → ∀ e ∈ l, px ≤ solveX e y) →
      ∀ s ∈ lineLoop cfg y row l inside px pt, s.xa ≤ s.xb
  | [], inside, px, pt, _, _, s, hs => by simp [lineLoop] at hs
  | e :: es, inside, px, pt, hsort, hpx, s, hs => by
    rw [List.pairwise_cons] at hsort
    by_cases h : e.b.y ≤ y
    · simp only [lineLoop, h, if_true] at hs
      exact lineLoop_ordered cfg y row es inside px pt hsort.2
        (fun hi e' he' => hpx hi e' (List.mem_cons_of_mem _ he')) s hs
    · cases inside with
      | false =>
        simp only [lineLoop, h, if_false, Bool.false_eq_true] at hs
        exact lineLoop_ordered cfg y row es true _ _ hsort.2 (fun _ e' he' => hsort.1 e' he') s hs
      | true =>
        simp only [lineLoop, h, if_false, if_true, List.mem_cons] at hs
        rcases hs with rfl | hs
        · exact hpx rfl e (List.mem_cons_self ..)
        · exact lineLoop_ordered cfg y row es false _ _ hsort.2 (fun hi => by simp at hi) s hs

/-! ## The sweep invariant of `Hatcher::hatch` -/

variable {σ : Type}

/-- what holds of every row that `hatch` records -/
structure RowInv (cfg : Cfg K) (edges : List (Seg K)) (r : Row K) : Prop where
  segs_eq : r.segs = lineLoop cfg r.y r.idx r.active false cfg.nan.x cfg.nan
  sorted : r.active.Pairwise (fun e f => solveX e r.y ≤ solveX f r.y)
  perm : (r.active.filter (cnt r.y)).Perm (edges.filter (spansB r.y))

/-- `done` = the prefix of the sorted edge list already handed to `update_sweep_line` -/
structure Inv (cfg : Cfg K) (edges done : List (Seg K)) (st : St σ K) : Prop where
  rows : ∀ r ∈ st.rows, RowInv cfg edges r
  live : st.stop = false →
    (∀ e ∈ done, e.a.y ≤ st.y) ∧
    ∃ dropped, done.Perm (st.active ++ dropped) ∧ ∀ d ∈ dropped, d.b.y ≤ st.y

theorem filter_eq_nil_of {p : Seg K → Bool} {l : List (Seg K)} (h : ∀ e ∈ l, p e = false) :
    l.filter p = [] := by
  rw [List.filter_eq_nil_iff]
  intro e he
  simp [h e he]

theorem rowStep_inv (cfg : Cfg K) (B : Builder σ K) {edges done rest : List (Seg K)} {st : St σ K}
    (hsplit : edges = done ++ rest) (hrest : ∀ e ∈ rest, st.y < e.a.y)
    (h : Inv cfg edges done st) (hs : st.stop = false) :
    Inv cfg edges done (rowStep cfg B st) := by
  obtain ⟨hy, dropped, hperm, hdrop⟩ := h.live hs
  constructor
  · intro r hr
    simp only [rowStep, List.mem_cons] at hr
    rcases hr with rfl | hr
    · refine ⟨rfl, sortActive_sorted _ _, ?_⟩
      show ((sortActive st.y st.active).filter (cnt st.y)).Perm (edges.filter (spansB st.y))
      have hact : ∀ e ∈ st.active, e.a.y ≤ st.y := fun e he =>
        hy e (hperm.mem_iff.mpr (List.mem_append_left _ he))
      have h1 : ((sortActive st.y st.active).filter (cnt st.y)).Perm (st.active.filter (cnt st.y)) :=
        (sortActive_perm _ _).filter _
      have h2 : st.active.filter (cnt st.y) = st.active.filter (spansB st.y) := by
        apply List.filter_congr
        intro e he
        have := hact e he
        by_cases hb : e.b.y ≤ st.y
        · simp [cnt, spansB, this, hb, not_lt.mpr hb]
        · simp [cnt, spansB, this, hb, not_le.mp hb]
      have h3 : dropped.filter (spansB st.y) = [] := by
        apply filter_eq_nil_of
        intro e he
        have := hdrop e he
        simp [spansB, not_lt.mpr this]
      have h4 : rest.filter (spansB st.y) = [] := by
        apply filter_eq_nil_of
        intro e he
        have := hrest e he
        simp [spansB, not_le.mpr this]
      have h5 : (done.filter (spansB st.y)).Perm (st.active.filter (spansB st.y)) := by
        have := hperm.filter (spansB st.y)
        rwa [List.filter_append, h3, List.append_nil] at this
      rw [hsplit, List.filter_append, h4, List.append_nil]
      exact h1.trans (h2 ▸ h5.symm)
    · exact h.rows r hr
  · intro hstop
    simp only [rowStep, decide_eq_false_iff_not] at hstop
    have hpos : (0:K) < (B.nextOff ((lineLoop cfg st.y st.row (sortActive st.y st.active) false
        cfg.nan.x cfg.nan).foldl B.addSeg st.b) (st.row + 1)).1 := by
      have := not_le.mp hstop
      simpa using this
    have hmono : st.y ≤ (rowStep cfg B st).y := by
      simp only [rowStep]
      exact le_of_lt (lt_add_of_pos_right _ hpos)
    refine ⟨fun e he => le_trans (hy e he) hmono, dropped, ?_, fun d hd => le_trans (hdrop d hd) hmono⟩
    simp only [rowStep]
    exact hperm.trans ((sortActive_perm _ _).symm.append_right _)

theorem rowsWhile_inv (cfg : Cfg K) (B : Builder σ K) {edges done rest : List (Seg K)}
    (hsplit : edges = done ++ rest) (bound : K) (hrest : ∀ e ∈ rest, bound ≤ e.a.y) :
    ∀ (f : Nat) (st : St σ K), Inv cfg edges done st → st.stop = false →
      Inv cfg edges done (rowsWhile cfg B f bound st) ∧
      ((rowsWhile cfg B f bound st).stop = false → (rowsWhile cfg B f bound st).fuelOut = false →
        bound ≤ (rowsWhile cfg B f bound st).y)
  | 0, st, h, hs => by
    simp only [rowsWhile]
    split
    · exact ⟨⟨h.rows, h.live⟩, fun _ hf => by simp at hf⟩
    · rename_i hlt
      exact ⟨h, fun _ _ => not_lt.mp hlt⟩
  | f+1, st, h, hs => by
    simp only [rowsWhile]
    split
    · rename_i hlt
      have hstep := rowStep_inv cfg B hsplit (fun e he => lt_of_lt_of_le hlt (hrest e he)) h hs
      split
      · rename_i hstop
        exact ⟨hstep, fun hc => by simp [hstop] at hc⟩
      · rename_i hstop
        exact rowsWhile_inv cfg B hsplit bound hrest f _ hstep (by simpa using hstop)
    · rename_i hlt
      exact ⟨h, fun _ _ => not_lt.mp hlt⟩

theorem updateSweep_inv (cfg : Cfg K) {edges done : List (Seg K)} {st : St σ K} (e : Seg K) (m : K)
    (h : Inv cfg edges done st) (hy : st.stop = false → e.a.y ≤ st.y) :
    Inv cfg edges (done ++ [e]) { st with ymax := m, active := updateSweep st.active e } := by
  constructor
  · exact h.rows
  · intro hs
    obtain ⟨hdone, dropped, hperm, hdrop⟩ := h.live hs
    have hey := hy hs
    refine ⟨?_, dropped ++ st.active.filter (fun a => !(cmpPos a.b e.a != .lt)), ?_, ?_⟩
    · intro e' he'
      rcases List.mem_append.mp he' with h1 | h1
      · exact hdone e' h1
      · rw [List.mem_singleton] at h1; subst h1; exact hey
    · show (done ++ [e]).Perm (updateSweep st.active e ++ _)
      unfold updateSweep
      have hpart := List.filter_append_perm (fun a : Seg K => cmpPos a.b e.a != .lt) st.active
      -- done ++ [e] ~ (active ++ dropped) ++ [e] ~ (keep ++ drop') ++ dropped ++ [e] ~ …
      have h1 : (done ++ [e]).Perm ((st.active ++ dropped) ++ [e]) := hperm.append_right _
      have h2 : ((st.active ++ dropped) ++ [e]).Perm
          (((st.active.filter (fun a => cmpPos a.b e.a != .lt) ++
            st.active.filter (fun a => !(cmpPos a.b e.a != .lt))) ++ dropped) ++ [e]) :=
        ((hpart.symm.append_right _).append_right _)
      refine h1.trans (h2.trans ?_)
      -- pure rearrangement of four blocks
      generalize st.active.filter (fun a => cmpPos a.b e.a != .lt) = A
      generalize st.active.filter (fun a => !(cmpPos a.b e.a != .lt)) = D
      have : ((A ++ D) ++ dropped ++ [e]).Perm (A ++ [e] ++ (dropped ++ D)) := by
        simp only [List.append_assoc]
        apply List.Perm.append_left
        -- D ++ (dropped ++ [e]) ~ [e] ++ (dropped ++ D)
        have p1 : (D ++ (dropped ++ [e])).Perm ((dropped ++ [e]) ++ D) := List.perm_append_comm
        have p2 : ((dropped ++ [e]) ++ D).Perm (([e] ++ dropped) ++ D) :=
          List.perm_append_comm.append_right _
        simpa [List.append_assoc] using p1.trans p2
      exact this
    · intro d hd
      rcases List.mem_append.mp hd with h1 | h1
      · exact hdrop d h1
      · rw [List.mem_filter] at h1
        have hlt : cmpPos d.b e.a = .lt := by
          have := h1.2
          simpa using this
        exact le_trans (cmpPos_lt_y hlt) hey

theorem hatchEdges_inv (cfg : Cfg K) (B : Builder σ K) (fuel : Nat) {edges : List (Seg K)} :
    ∀ (rest done : List (Seg K)) (st : St σ K), edges = done ++ rest →
      rest.Pairwise (fun e f => e.a.y ≤ f.a.y) → Inv cfg edges done st → st.stop = false →
      ∃ done', Inv cfg edges done' (hatchEdges cfg B fuel rest st) ∧
        ((hatchEdges cfg B fuel rest st).stop = false →
          (hatchEdges cfg B fuel rest st).fuelOut = false → done' = edges)
  | [], done, st, hsplit, _, h, hs => by
    refine ⟨done, by simpa [hatchEdges] using h, fun _ _ => by simp [hsplit]⟩
  | e :: es, done, st, hsplit, hsorted, h, hs => by
    rw [List.pairwise_cons] at hsorted
    have hb : ∀ e' ∈ e :: es, e.a.y ≤ e'.a.y := by
      intro e' he'
      rcases List.mem_cons.mp he' with rfl | h1
      · exact le_refl _
      · exact hsorted.1 e' h1
    have hw := rowsWhile_inv cfg B hsplit e.a.y hb fuel st h hs
    simp only [hatchEdges]
    split
    · rename_i hstop
      refine ⟨done, hw.1, fun h1 h2 => ?_⟩
      simp [h1, h2] at hstop
    · rename_i hstop
      simp only [Bool.or_eq_true, not_or, Bool.not_eq_true] at hstop
      have hsplit' : edges = (done ++ [e]) ++ es := by simp [hsplit]
      have hinv := updateSweep_inv cfg e (Scalar.max (rowsWhile cfg B fuel e.a.y st).ymax e.b.y)
        hw.1 (fun hs' => hw.2 hs' hstop.2)
      exact hatchEdges_inv cfg B fuel es (done ++ [e]) _ hsplit' hsorted.2 hinv hstop.1

theorem initSt_inv (cfg : Cfg K) (edges : List (Seg K)) (b : σ) (y0 off0 : K) :
    Inv cfg edges [] (initSt b y0 off0) := by
  constructor
  · intro r hr; simp [initSt] at hr
  · intro _
    exact ⟨by simp, [], by simp [initSt], by simp⟩

theorem hatch_nil (cfg : Cfg K) (B : Builder σ K) (fuel : Nat) (b0 : σ) :
    hatch cfg B fuel [] b0 = some (emptySt b0) := rfl

theorem hatch_cons (cfg : Cfg K) (B : Builder σ K) (fuel : Nat) (e0 : Seg K) (es : List (Seg K))
    (b0 : σ) :
    hatch cfg B fuel (e0 :: es) b0 = some (finish cfg B fuel
      (hatchEdges cfg B fuel (e0 :: es)
        (initSt (B.nextOff b0 0).2 (e0.a.y + (B.nextOff b0 0).1) (B.nextOff b0 0).1))) := rfl

/-- every row recorded by `hatch` on a sorted edge list satisfies `RowInv` -/
theorem hatch_rows (cfg : Cfg K) (B : Builder σ K) (fuel : Nat) (edges : List (Seg K)) (b0 : σ)
    (hsorted : edges.Pairwise (fun e f => e.a.y ≤ f.a.y)) (st : St σ K)
    (h : hatch cfg B fuel edges b0 = some st) : ∀ r ∈ st.rows, RowInv cfg edges r := by
  cases edges with
  | nil =>
    rw [hatch_nil, Option.some.injEq] at h
    subst h
    simp [emptySt]
  | cons e0 es =>
    rw [hatch_cons, Option.some.injEq] at h
    subst h
    obtain ⟨done', hinv, hdone⟩ := hatchEdges_inv cfg B fuel (e0 :: es) [] _ (by simp) hsorted
      (initSt_inv cfg (e0 :: es) (B.nextOff b0 0).2 (e0.a.y + (B.nextOff b0 0).1) (B.nextOff b0 0).1)
      rfl
    simp only [finish]
    split
    · exact hinv.rows
    · rename_i hstop
      simp only [Bool.or_eq_true, not_or, Bool.not_eq_true] at hstop
      have hd := hdone hstop.1 hstop.2
      subst hd
      exact (rowsWhile_inv cfg B (rest := []) (by simp) _ (by simp) fuel _ hinv hstop.1).1.rows

/-! ## Crossing counts of the event list vs. the crossings of a recorded row -/

/-- number of edges of the event list that span row `y` (half-open rule) and cross it left of `x`:
the crossing count of the even-odd rule at the point `(x, y)` of the rotated frame -/
noncomputable def crossingsLeft (edges : List (Seg K)) (x y : K) : Nat :=
  (edges.filter (fun e => decide (e.a.y ≤ y ∧ y < e.b.y) && decide (solveX e y < x))).length

/-- number of edges that span row `y` -/
noncomputable def spanCount (edges : List (Seg K)) (y : K) : Nat :=
  (edges.filter (fun e => decide (e.a.y ≤ y ∧ y < e.b.y))).length

theorem row_core (cfg : Cfg K) (edges : List (Seg K)) (r : Row K) (hri : RowInv cfg edges r)
    (x : K) (hx : ∀ e ∈ edges, e.a.y ≤ r.y → r.y < e.b.y → solveX e r.y ≠ x) :
    (crossings r.y r.active).Pairwise (· ≤ ·) ∧ x ∉ crossings r.y r.active ∧
    countLt (crossings r.y r.active) x = crossingsLeft edges x r.y ∧
    (crossings r.y r.active).length = spanCount edges r.y ∧
    ((∃ b ∈ crossings r.y r.active, x < b) ↔
      ∃ e ∈ edges, e.a.y ≤ r.y ∧ r.y < e.b.y ∧ x < solveX e r.y) := by
  have hmem : ∀ e, e ∈ r.active.filter (cnt r.y) ↔ e ∈ edges.filter (spansB r.y) :=
    fun e => hri.perm.mem_iff
  refine ⟨?_, ?_, ?_, ?_, ?_⟩
  · unfold crossings
    rw [List.pairwise_map]
    exact hri.sorted.sublist List.filter_sublist
  · intro hin
    unfold crossings at hin
    rw [List.mem_map] at hin
    obtain ⟨e, he, hex⟩ := hin
    have := (hmem e).mp he
    rw [List.mem_filter] at this
    have hsp : e.a.y ≤ r.y ∧ r.y < e.b.y := by simpa [spansB] using this.2
    exact hx e this.1 hsp.1 hsp.2 hex
  · unfold countLt crossings crossingsLeft
    rw [List.filter_map, List.length_map]
    have := (hri.perm.filter (fun e => decide (solveX e r.y < x))).length_eq
    rw [List.filter_filter, List.filter_filter] at this
    rw [show ((fun a => decide (a < x)) ∘ fun e => solveX e r.y)
        = (fun e : Seg K => decide (solveX e r.y < x)) from rfl]
    rw [List.filter_filter]
    rw [this]
    congr 1
    apply List.filter_congr
    intro e _
    simp [spansB, Bool.and_comm]
  · unfold crossings spanCount
    rw [List.length_map]
    exact hri.perm.length_eq
  · unfold crossings
    constructor
    · rintro ⟨b, hb, hxb⟩
      rw [List.mem_map] at hb
      obtain ⟨e, he, rfl⟩ := hb
      have := (hmem e).mp he
      rw [List.mem_filter] at this
      have hsp : e.a.y ≤ r.y ∧ r.y < e.b.y := by simpa [spansB] using this.2
      exact ⟨e, this.1, hsp.1, hsp.2, hxb⟩
    · rintro ⟨e, he, h1, h2, hxb⟩
      refine ⟨solveX e r.y, ?_, hxb⟩
      rw [List.mem_map]
      refine ⟨e, (hmem e).mpr ?_, rfl⟩
      rw [List.mem_filter]
      exact ⟨he, by simp [spansB, h1, h2]⟩

/-! ## Closed outlines are crossed an even number of times -/

/-- the `PathBuilder` calls of one closed sub-path `p₀ p₁ … pₙ` -/
def subpathEvents {α : Type} (sp : P α × List (P α)) : List (PEv α) :=
  .begin sp.1 :: (sp.2.map PEv.line ++ [.close])

/-- a well-formed path: a sequence of closed sub-paths -/
def pathEvents {α : Type} (sps : List (P α × List (P α))) : List (PEv α) :=
  sps.flatMap subpathEvents

/-- parity of the number of edges spanning row `y` -/
noncomputable def spanPar (y : K) (l : List (Seg K)) : Bool :=
  decide ((l.filter (spansB y)).length % 2 = 1)

theorem spanPar_snoc (y : K) (l : List (Seg K)) (e : Seg K) :
    spanPar y (l ++ [e]) = xor (spanPar y l) (spansB y e) := by
  unfold spanPar
  rw [List.filter_append, List.length_append]
  cases h : spansB y e
  · simp [List.filter_cons, h]
  · simp only [List.filter_cons, h, if_true, List.filter_nil, List.length_cons, List.length_nil]
    by_cases h2 : (l.filter (spansB y)).length % 2 = 1
    · have : ¬ ((l.filter (spansB y)).length + (0 + 1)) % 2 = 1 := by omega
      simp [h2, this]
    · have : ((l.filter (spansB y)).length + (0 + 1)) % 2 = 1 := by omega
      simp [h2, this]

theorem cmpPos_gt_y {a b : P K} (h : cmpPos a b = .gt) : b.y ≤ a.y := by
  unfold cmpPos at h
  split at h
  · rename_i h1; exact le_of_lt h1
  · split at h
    · contradiction
    · rename_i h1 h2
      exact not_lt.mp h2

theorem spansB_orient (y : K) (a b : P K) :
    spansB y (orient a b) = xor (decide (a.y ≤ y)) (decide (b.y ≤ y)) := by
  unfold orient
  split
  · rename_i h
    have hba : b.y ≤ a.y := cmpPos_gt_y (by simpa using h)
    simp only [spansB]
    by_cases h1 : a.y ≤ y
    · have h2 : b.y ≤ y := le_trans hba h1
      simp [h1, h2, not_lt.mpr h1]
    · by_cases h2 : b.y ≤ y <;> simp [h1, h2, not_le.mp h1]
  · rename_i h
    have hab : a.y ≤ b.y := cmpPos_ne_gt_y (by simpa using h)
    simp only [spansB]
    by_cases h1 : b.y ≤ y
    · have h2 : a.y ≤ y := le_trans hab h1
      simp [h1, h2, not_lt.mpr h1]
    · by_cases h2 : a.y ≤ y <;> simp [h1, h2, not_le.mp h1]

/-- on which side of row `y` a path point falls after the rotation -/
noncomputable def side (c s y : K) (p : P K) : Bool := decide ((rot c s p).y ≤ y)

theorem spanPar_addEdge (c s y : K) (l : List (Seg K)) (a b : P K) :
    spanPar y (addEdge c s l a b) = xor (spanPar y l) (xor (side c s y a) (side c s y b)) := by
  unfold addEdge
  split
  · rename_i h
    have hab : a = b := by
      have h' : (a.x == b.x && a.y == b.y) = true := h
      rw [Bool.and_eq_true, sc_beq, sc_beq] at h'
      exact P.ext' h'.1 h'.2
    subst hab
    simp
  · rw [spanPar_snoc, spansB_orient]
    rfl

theorem lines_par (c s y : K) : ∀ (ps : List (P K)) (b : EB K),
    spanPar y ((ps.map PEv.line).foldl (EB.step c s) b).edges =
      xor (spanPar y b.edges) (xor (side c s y b.current)
        (side c s y ((ps.map PEv.line).foldl (EB.step c s) b).current)) ∧
    ((ps.map PEv.line).foldl (EB.step c s) b).first = b.first
  | [], b => by simp
  | p :: ps, b => by
    simp only [List.map_cons, List.foldl_cons]
    obtain ⟨ih1, ih2⟩ := lines_par c s y ps (EB.step c s b (.line p))
    refine ⟨?_, by rw [ih2]; rfl⟩
    rw [ih1]
    simp only [EB.step, spanPar_addEdge]
    generalize spanPar y b.edges = q
    generalize side c s y b.current = s1
    generalize side c s y p = s2
    generalize side c s y _ = s3
    cases q <;> cases s1 <;> cases s2 <;> cases s3 <;> rfl

theorem subpath_par (c s y : K) (sp : P K × List (P K)) (b : EB K) :
    spanPar y ((subpathEvents sp).foldl (EB.step c s) b).edges = spanPar y b.edges := by
  unfold subpathEvents
  simp only [List.foldl_cons, List.foldl_append, List.foldl_nil]
  obtain ⟨h1, h2⟩ := lines_par c s y sp.2 (EB.step c s b (.begin sp.1))
  simp only [EB.step] at h1 h2 ⊢
  rw [spanPar_addEdge, h1, h2]
  generalize spanPar y b.edges = q
  generalize side c s y sp.1 = s1
  generalize side c s y _ = s2
  cases q <;> cases s1 <;> cases s2 <;> rfl

theorem path_par (c s y : K) : ∀ (sps : List (P K × List (P K))) (b : EB K),
    spanPar y ((pathEvents sps).foldl (EB.step c s) b).edges = spanPar y b.edges
  | [], b => by simp [pathEvents]
  | sp :: sps, b => by
    have : pathEvents (sp :: sps) = subpathEvents sp ++ pathEvents sps := by
      simp [pathEvents]
    rw [this, List.foldl_append, path_par c s y sps, subpath_par]

/-- every row crosses the edge list of a well-formed (closed sub-paths) path an even number of times -/
theorem closed_even (c s y : K) (sps : List (P K × List (P K))) :
    spanCount (buildEvents c s (pathEvents sps)) y % 2 = 0 := by
  have hp := path_par c s y sps ⟨[], ⟨zero, zero⟩, ⟨zero, zero⟩⟩
  unfold spanPar at hp
  simp only [List.filter_nil, List.length_nil, Nat.zero_mod, zero_ne_one, decide_false,
    decide_eq_false_iff_not] at hp
  unfold spanCount buildEvents
  have := ((isort_perm ltFrom ((pathEvents sps).foldl (EB.step c s)
    ⟨[], ⟨zero, zero⟩, ⟨zero, zero⟩⟩).edges).filter (spansB y)).length_eq
  unfold spansB at this hp
  rw [this]
  omega

/-! ## Curved input: the flattened stream of closed sub-paths is a stream of closed sub-paths -/

/-- one edge command of a curved sub-path -/
inductive CSeg (α : Type) where
  | line (p : P α)
  | quad (c p : P α)
  | cubic (c1 c2 p : P α)

def CSeg.toEv {α : Type} : CSeg α → CEv α
  | .line p => .line p
  | .quad c p => .quad c p
  | .cubic c1 c2 p => .cubic c1 c2 p

/-- `begin p₀, (line_to | quadratic_bezier_to | cubic_bezier_to)*, end` -/
def csubpathEvents {α : Type} (sp : P α × List (CSeg α)) : List (CEv α) :=
  .begin sp.1 :: (sp.2.map CSeg.toEv ++ [.close])

def cpathEvents {α : Type} (sps : List (P α × List (CSeg α))) : List (CEv α) :=
  sps.flatMap csubpathEvents

section curved
variable [FlatConst K]

theorem flatten_segs (tol : K) (tail : List (CEv K)) :
    ∀ (segs : List (CSeg K)) (cur : P K) (pe : List (PEv K)),
      flattenEvents tol (segs.map CSeg.toEv ++ tail) cur = some pe →
      ∃ (ps : List (P K)) (cur' : P K) (pe' : List (PEv K)),
        pe = ps.map PEv.line ++ pe' ∧ flattenEvents tol tail cur' = some pe'
  | [], cur, pe, h => ⟨[], cur, pe, by simp, by simpa using h⟩
  | sg :: segs, cur, pe, h => by
    cases sg with
    | line p =>
      simp only [List.map_cons, List.cons_append, CSeg.toEv, flattenEvents, Option.map_eq_some_iff] at h
      obtain ⟨pe1, h1, rfl⟩ := h
      obtain ⟨ps, cur', pe', rfl, h3⟩ := flatten_segs tol tail segs p pe1 h1
      exact ⟨p :: ps, cur', pe', by simp, h3⟩
    | quad c p =>
      simp only [List.map_cons, List.cons_append, CSeg.toEv, flattenEvents] at h
      split at h
      · simp at h
      · rename_i fs _
        simp only [Option.map_eq_some_iff] at h
        obtain ⟨pe1, h1, rfl⟩ := h
        obtain ⟨ps, cur', pe', rfl, h3⟩ := flatten_segs tol tail segs _ pe1 h1
        exact ⟨FlatSeg.points fs ++ ps, cur', pe', by simp [curveLines], h3⟩
    | cubic c1 c2 p =>
      simp only [List.map_cons, List.cons_append, CSeg.toEv, flattenEvents] at h
      split at h
      · simp at h
      · rename_i fs _
        simp only [Option.map_eq_some_iff] at h
        obtain ⟨pe1, h1, rfl⟩ := h
        obtain ⟨ps, cur', pe', rfl, h3⟩ := flatten_segs tol tail segs _ pe1 h1
        exact ⟨FlatSeg.points fs ++ ps, cur', pe', by simp [curveLines], h3⟩

theorem flatten_closed (tol : K) :
    ∀ (csps : List (P K × List (CSeg K))) (cur : P K) (pe : List (PEv K)),
      flattenEvents tol (cpathEvents csps) cur = some pe → ∃ sps, pe = pathEvents sps
  | [], cur, pe, h => ⟨[], by simpa [cpathEvents, flattenEvents, pathEvents] using h.symm⟩
  | sp :: csps, cur, pe, h => by
    have hsplit : cpathEvents (sp :: csps) =
        .begin sp.1 :: (sp.2.map CSeg.toEv ++ (.close :: cpathEvents csps)) := by
      simp [cpathEvents, csubpathEvents]
    rw [hsplit] at h
    simp only [flattenEvents, Option.map_eq_some_iff] at h
    obtain ⟨pe1, h1, rfl⟩ := h
    obtain ⟨ps, cur', pe', rfl, h3⟩ := flatten_segs tol _ sp.2 sp.1 pe1 h1
    simp only [flattenEvents, Option.map_eq_some_iff] at h3
    obtain ⟨pe2, h4, rfl⟩ := h3
    obtain ⟨sps, rfl⟩ := flatten_closed tol csps cur' pe2 h4
    exact ⟨(sp.1, ps) :: sps, by simp [pathEvents, subpathEvents]⟩

end curved

/-! ## Row positions: `y` is the running sum of the offsets `next_offset` returned -/

/-- `y00` = `events.edges.first().from.y`; lists are newest first -/
structure OffInv (y00 : K) (st : St σ K) : Prop where
  len : st.offs.length = st.row + 1
  nrows : st.rows.length = st.row
  ysum : st.y = y00 + st.offs.sum
  rows : ∀ r ∈ st.rows, r.idx < st.row ∧ r.y = y00 + (st.offs.drop (st.row - r.idx)).sum
  /-- while the loop has not returned every offset but the very first is positive -/
  pos : st.stop = false → ∀ o ∈ st.offs.dropLast, 0 < o
  /-- after `return`: the newest offset is the first non-positive one -/
  stopped : st.stop = true →
    (∀ o ∈ st.offs.tail.dropLast, 0 < o) ∧ 1 < st.offs.length ∧ ∀ o ∈ st.offs.head?, o ≤ 0

theorem rowStep_off (cfg : Cfg K) (B : Builder σ K) (y00 : K) {st : St σ K}
    (h : OffInv y00 st) (hs : st.stop = false) : OffInv y00 (rowStep cfg B st) := by
  have hne : st.offs ≠ [] := by
    intro hnil
    have := h.len
    simp [hnil] at this
  constructor
  · simp [rowStep, h.len]
  · simp [rowStep, h.nrows]
  · simp only [rowStep, List.sum_cons]
    rw [h.ysum]
    ring
  · intro r hr
    simp only [rowStep, List.mem_cons] at hr
    rcases hr with rfl | hr
    · refine ⟨by simp [rowStep], ?_⟩
      simp only [rowStep]
      have : st.row + 1 - st.row = 1 := by omega
      rw [this]
      simpa using h.ysum
    · obtain ⟨h1, h2⟩ := h.rows r hr
      refine ⟨by simp only [rowStep]; omega, ?_⟩
      simp only [rowStep]
      have : st.row + 1 - r.idx = (st.row - r.idx) + 1 := by omega
      rw [this, List.drop_succ_cons]
      exact h2
  · intro hstop o ho
    simp only [rowStep, decide_eq_false_iff_not] at hstop
    simp only [rowStep] at ho
    rw [List.dropLast_cons_of_ne_nil hne, List.mem_cons] at ho
    rcases ho with rfl | ho
    · simpa using not_le.mp hstop
    · exact h.pos hs o ho
  · intro hstop
    simp only [rowStep, decide_eq_true_eq] at hstop
    refine ⟨?_, ?_, ?_⟩
    · simpa [rowStep] using h.pos hs
    · simp only [rowStep, List.length_cons]
      have := h.len
      omega
    · intro o ho
      simp only [rowStep, List.head?_cons, Option.mem_def, Option.some.injEq] at ho
      subst ho
      simpa using hstop

theorem rowsWhile_off (cfg : Cfg K) (B : Builder σ K) (y00 bound : K) :
    ∀ (f : Nat) (st : St σ K), OffInv y00 st → st.stop = false →
      OffInv y00 (rowsWhile cfg B f bound st)
  | 0, st, h, hs => by
    simp only [rowsWhile]
    split
    · exact ⟨h.len, h.nrows, h.ysum, h.rows, h.pos, h.stopped⟩
    · exact h
  | f+1, st, h, hs => by
    simp only [rowsWhile]
    split
    · split
      · exact rowStep_off cfg B y00 h hs
      · rename_i hstop
        exact rowsWhile_off cfg B y00 bound f _ (rowStep_off cfg B y00 h hs) (by simpa using hstop)
    · exact h

theorem hatchEdges_off (cfg : Cfg K) (B : Builder σ K) (fuel : Nat) (y00 : K) :
    ∀ (rest : List (Seg K)) (st : St σ K), OffInv y00 st → st.stop = false →
      OffInv y00 (hatchEdges cfg B fuel rest st)
  | [], st, h, hs => by simpa [hatchEdges] using h
  | e :: es, st, h, hs => by
    have hw := rowsWhile_off cfg B y00 e.a.y fuel st h hs
    simp only [hatchEdges]
    split
    · exact hw
    · rename_i hstop
      simp only [Bool.or_eq_true, not_or, Bool.not_eq_true] at hstop
      exact hatchEdges_off cfg B fuel y00 es _
        ⟨hw.len, hw.nrows, hw.ysum, hw.rows, hw.pos, hw.stopped⟩ hstop.1

theorem hatch_off (cfg : Cfg K) (B : Builder σ K) (fuel : Nat) (e0 : Seg K) (es : List (Seg K))
    (b0 : σ) (st : St σ K) (h : hatch cfg B fuel (e0 :: es) b0 = some st) : OffInv e0.a.y st := by
  rw [hatch_cons, Option.some.injEq] at h
  subst h
  have h0 : OffInv e0.a.y
      (initSt (B.nextOff b0 0).2 (e0.a.y + (B.nextOff b0 0).1) (B.nextOff b0 0).1 : St σ K) := by
    constructor <;> simp [initSt]
  have h1 := hatchEdges_off cfg B fuel e0.a.y (e0 :: es) _ h0 rfl
  simp only [finish]
  split
  · exact h1
  · rename_i hstop
    simp only [Bool.or_eq_true, not_or, Bool.not_eq_true] at hstop
    exact rowsWhile_off cfg B e0.a.y _ fuel _ h1 hstop.1

/-! ## The loop runs until `y` reaches `y_max` -/

theorem rowsWhile_ymax (cfg : Cfg K) (B : Builder σ K) (bound : K) :
    ∀ (f : Nat) (st : St σ K), (rowsWhile cfg B f bound st).ymax = st.ymax
  | 0, st => by simp only [rowsWhile]; split <;> rfl
  | f+1, st => by
    simp only [rowsWhile]
    split
    · split
      · rfl
      · rw [rowsWhile_ymax cfg B bound f]; rfl
    · rfl

theorem rowsWhile_post (cfg : Cfg K) (B : Builder σ K) (bound : K) :
    ∀ (f : Nat) (st : St σ K), (rowsWhile cfg B f bound st).stop = false →
      (rowsWhile cfg B f bound st).fuelOut = false → bound ≤ (rowsWhile cfg B f bound st).y
  | 0, st => by
    simp only [rowsWhile]
    split
    · intro _ hf; simp at hf
    · rename_i hlt; exact fun _ _ => not_lt.mp hlt
  | f+1, st => by
    simp only [rowsWhile]
    split
    · split
      · rename_i hstop; intro hc; simp [hstop] at hc
      · exact rowsWhile_post cfg B bound f _
    · rename_i hlt; exact fun _ _ => not_lt.mp hlt

theorem hatchEdges_ymax (cfg : Cfg K) (B : Builder σ K) (fuel : Nat) :
    ∀ (rest done : List (Seg K)) (st : St σ K), (∀ e ∈ done, e.b.y ≤ st.ymax) →
      (hatchEdges cfg B fuel rest st).stop = false → (hatchEdges cfg B fuel rest st).fuelOut = false →
      ∀ e ∈ done ++ rest, e.b.y ≤ (hatchEdges cfg B fuel rest st).ymax
  | [], done, st, h, _, _ => by simpa [hatchEdges] using h
  | e :: es, done, st, h, hs, hf => by
    simp only [hatchEdges] at hs hf ⊢
    split at hs
    · rename_i hstop
      simp only [hatchEdges, hstop, if_true] at hf
      simp [hs, hf] at hstop
    · rename_i hstop
      simp only [hstop, if_false] at hf ⊢
      have := hatchEdges_ymax cfg B fuel es (done ++ [e]) _ (by
        intro e' he'
        show e'.b.y ≤ Scalar.max (rowsWhile cfg B fuel e.a.y st).ymax e.b.y
        rw [rowsWhile_ymax]
        rcases List.mem_append.mp he' with h1 | h1
        · exact le_trans (h e' h1) (le_max_left _ _)
        · rw [List.mem_singleton] at h1; subst h1; exact le_max_right _ _) hs hf
      simpa [List.append_assoc] using this

/-- if `hatch` neither returned early nor ran out of fuel, the position of the next row is at or
below the lower end of every edge: every row above `y_max` has been hatched -/
theorem hatch_runs_to_ymax (cfg : Cfg K) (B : Builder σ K) (fuel : Nat) (edges : List (Seg K))
    (b0 : σ) (st : St σ K) (h : hatch cfg B fuel edges b0 = some st)
    (hs : st.stop = false) (hf : st.fuelOut = false) : ∀ e ∈ edges, e.b.y ≤ st.y := by
  cases edges with
  | nil =>
    rw [hatch_nil, Option.some.injEq] at h
    subst h
    simp [emptySt]
  | cons e0 es =>
    rw [hatch_cons, Option.some.injEq] at h
    subst h
    simp only [finish] at hs hf ⊢
    split at hs
    · rename_i hstop
      simp only [hstop, if_true] at hf
      simp [hs, hf] at hstop
    · rename_i hstop
      simp only [hstop, if_false] at hf ⊢
      simp only [Bool.or_eq_true, not_or, Bool.not_eq_true] at hstop
      have h1 := hatchEdges_ymax cfg B fuel (e0 :: es) [] _ (by simp) hstop.1 hstop.2
      have h2 := rowsWhile_post cfg B _ fuel _ hs hf
      intro e he
      exact le_trans (h1 e (by simpa using he)) h2

/-! ## Dots -/

theorem dotLoop_mem (pat : DotPat K) (s : HSeg K) (ab : P K) :
    ∀ (f col : Nat) (u0 : K) (d : Dot K), d ∈ dotLoop pat s ab f col u0 →
      ∃ u, u0 ≤ u ∧ s.ua + u < s.ub ∧ d.u = s.ua + u ∧ d.pos = s.pa + ab.smul u ∧
        d.v = s.v ∧ d.row = s.row ∧ col ≤ d.col
  | 0, col, u0, d, hd => by simp [dotLoop] at hd
  | f+1, col, u0, d, hd => by
    simp only [dotLoop] at hd
    split at hd
    · rename_i hlt
      rw [List.mem_cons] at hd
      rcases hd with rfl | hd
      · exact ⟨u0, le_refl _, hlt, rfl, rfl, rfl, rfl, le_refl _⟩
      · split at hd
        · simp at hd
        · rename_i hpos
          have hpos' : (0:K) < pat.colOff (col + 1) s.row := by simpa using not_le.mp hpos
          obtain ⟨u, h1, h2, h3, h4, h5, h6, h7⟩ := dotLoop_mem pat s ab f (col + 1) _ d hd
          refine ⟨u, le_trans (le_of_lt (lt_add_of_pos_right _ hpos')) h1, h2, h3, h4, h5, h6, by omega⟩
    · simp at hd

/-- the laws of C `fmod` that `modulo` relies on -/
def FmodLaws (K : Type) [Field K] [LinearOrder K] [Transc K] : Prop :=
  ∀ a m : K, 0 < m →
    (0 ≤ a → 0 ≤ Transc.fmod a m ∧ Transc.fmod a m < m) ∧
    (a < 0 → -m < Transc.fmod a m ∧ Transc.fmod a m ≤ 0)

theorem modulo_range (hf : FmodLaws K) (a m : K) (hm : 0 < m) : 0 ≤ modulo a m ∧ modulo a m ≤ m := by
  unfold modulo
  have := hf a m hm
  split
  · rename_i h
    have h' : (0:K) ≤ a := by simpa using h
    exact ⟨(this.1 h').1, le_of_lt (this.1 h').2⟩
  · rename_i h
    have h' : a < 0 := by simpa using not_le.mp h
    obtain ⟨h1, h2⟩ := this.2 h'
    constructor
    · have : (0:K) ≤ m + Transc.fmod a m := by linarith
      exact this
    · have : m + Transc.fmod a m ≤ m := by linarith
      exact this

theorem alignU_nonneg (hf : FmodLaws K) (u0 ua : K) (al : Option K) (h0 : 0 ≤ u0)
    (hal : ∀ d ∈ al, 0 < d) : 0 ≤ alignU u0 ua al := by
  cases al with
  | none => simpa [alignU] using h0
  | some d =>
    have hd := hal d rfl
    have := modulo_range hf ua d hd
    simp only [alignU]
    split
    · exact h0
    · have h2 : (0:K) ≤ u0 + (d - modulo ua d) := by linarith [this.2]
      exact h2

end Lyon.Hatch
