/-
  C08 on the sweep model, part 4: the loop, the flush of the spans left over, and the call as a
  whole — `tessellateImplFrom` from ANY two objects hands the geometry builder the same thing.
-/
import LyonVerif.Lemmas.ResetSweepOps2

set_option linter.unusedSectionVars false
set_option linter.unusedVariables false
set_option linter.unusedSimpArgs false

namespace Lyon.C08
open Lyon Lyon.Mono Lyon.Sweep Lyon.EQ

variable {α : Type} [Scalar α] [Wide α]

/-! ### `tessellator_loop` -/

theorem tessellatorLoopB_sim (limit : Option Nat) : ∀ f : Nat, Sim (tessellatorLoopB (α := α) limit f)
  | 0 => by
    rw [tessellatorLoopB]
    exact sim_throw _
  | f+1 => by
    have ih := tessellatorLoopB_sim limit f
    rw [tessellatorLoopB]
    sim_auto

/-! ### without a refusing builder the loop is `Sweep.tessellatorLoop` -/

theorem initializeEventsB_none : initializeEventsB (α := α) none = initializeEvents := by
  apply ExceptT.ext
  apply StateT.ext
  intro s
  rfl

theorem tessellatorLoopB_none : ∀ f : Nat, tessellatorLoopB (α := α) none f = tessellatorLoop f
  | 0 => by rw [tessellatorLoopB, tessellatorLoop]
  | f+1 => by
    rw [tessellatorLoopB, tessellatorLoop, initializeEventsB_none, tessellatorLoopB_none f]
    rfl

/-! ### the spans left over -/

theorem flushLeftover_sim {a b : Array (Option (Adv α))} (h : SpansSim a b) (out : Array (Emit α)) :
    flushLeftover a out = flushLeftover b out := by
  unfold flushLeftover
  rw [← Array.foldl_toList, ← Array.foldl_toList]
  unfold SpansSim at h
  generalize a.toList = la at h
  generalize b.toList = lb at h
  induction h generalizing out with
  | nil => rfl
  | @cons x y xs ys hx _ ih =>
    simp only [List.foldl_cons]
    cases x <;> cases y <;> first | exact ih _ | exact hx.elim | skip
    rename_i t t'
    have e : t.tess = t'.tess := hx.1
    simp only [e]
    exact ih _

/-! ### the call -/

/-- after the prologue two objects differ in their pools only -/
theorem prologue_sim (old old' : St α) (q : Queue α) (rule : Slab.Rule) (hz : Bool) (tol : α) (hi : Bool) :
    StSim (old.prologue q rule hz tol hi) (old'.prologue q rule hz tol hi) :=
  ⟨#[], old'.pool, 0, rfl, SpansSim.rfl' _⟩

/-- **`tessellate_impl` on any two used objects** (same rebuilt queue, same options, same geometry
builder behaviour): the same outcome and the same emission sequence; the objects left behind are
related again. -/
theorem tessellateImplFrom_sim (old old' : St α) (limit : Option Nat) (q : Queue α) (rule : Slab.Rule) (hz : Bool)
    (tol : α) (hi : Bool) :
    emission (tessellateImplFrom old limit q rule hz tol hi).1 = emission (tessellateImplFrom old' limit q rule hz tol hi).1 := by
  unfold tessellateImplFrom
  split
  · rfl
  · have h := (tessellatorLoopB_sim limit (4 * q.events.size * q.events.size + 1000)).out _ _
      (prologue_sim old old' q rule hz tol hi)
    unfold run at h
    obtain ⟨h1, sp, pl, c, h2, h3⟩ := h
    dsimp only
    rw [← h1, h2]
    split
    · rfl
    · simp only [emission, with3]
      rw [flushLeftover_sim h3]

end Lyon.C08
