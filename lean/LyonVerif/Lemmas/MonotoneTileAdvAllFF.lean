/-
  C02 growth 5 (`Props/C02h.lean`), part 3: flush-and-forward WITHOUT general position
  (`ff_popW`, `ff_fanW`, `ff_tilesW`): the proofs of `MonotoneTileAdvSetCov2.lean` with weak side
  conditions — stack vertices and the forwarded vertex may lie ON the chord of the other buffered
  chain; a non-degenerate ear is still strictly on its side (`inTriS_side_weak`).
-/
import LyonVerif.Lemmas.MonotoneTileAdvAllGen

set_option linter.unusedSectionVars false
set_option linter.unusedVariables false
set_option linter.unusedSimpArgs false

namespace Lyon.C02f
open Lyon Lyon.Mono Lyon.C02 Lyon.C02c

section Geometry
variable {K : Type} [Field K] [LinearOrder K] [IsStrictOrderedRing K]

theorem Tiles.weakenIc {T : Type} {R R' : P K → Prop} {I Ic Ic' : T → P K → Prop} {ts : List T}
    (h : Tiles R I Ic ts R') (hw : ∀ t q, Ic t q → Ic' t q) : Tiles R I Ic' ts R' :=
  ⟨h.inside, h.sub, h.apart, h.disj, fun q hq => (h.cover q hq).imp id (fun ⟨t, ht, g⟩ => ⟨t, ht, hw t q g⟩)⟩

variable (seq : List (P K × Bool))

theorem convexChainW_of_cinv {pos : Nat → P K} {c : Bool} {s : SideEv K} (h : CInv pos c s) :
    ConvexChainW (fun i => pos (s.events.toArray.getD i 0)) c s.events.length := by
  rw [toArray_getD]
  exact ⟨sorted_all _ _ h.sorted, fun a b d hab hbd hd =>
    convex_global c (evPos pos s.events) s.events.length h.sorted h.conv a b d (by omega) (by omega) hd⟩

/-- `flush_side` on a buffered chain tiles the chain polygon closed on its chord side — no general position -/
theorem flush_side_fan_tilesW {l : Bool} {k : Nat} {s : SideEv K} (hci : CInv (posOf seq) l s)
    (hc : SideChain seq l k s) :
    Tiles (fun x => ChainIn l (s.events.map (posOf seq)) x ∧ CSide l (posOf seq (headId s)) s.last.pos x)
      (TriIn (posOf seq)) (TriInCN (posOf seq))
      (flushLevels s.events.toArray s.events.length (!l) (s.events.length + 1) 1) (fun _ => False) := by
  have hl : 1 ≤ s.events.length := by
    cases hs : s.events with
    | nil => exact absurd hs hci.ne
    | cons a r => simp
  have hcc := convexChainW_of_cinv hci
  have := flush_fan_tilesW (posOf seq) s.events.toArray (!l) s.events.length hl (by rw [Bool.not_not]; exact hcc)
  rw [Bool.not_not, toArray_getD] at this
  have ge : ∀ i, posOf seq (s.events.toArray.getD i 0) = evPos (posOf seq) s.events i := by
    intro i; simp [evPos, List.getD_eq_getElem?_getD]
  rw [ge, ge, range_map_evPos, evPos_last (posOf seq) s.events s.last.id hc.last, ← hc.good] at this
  have e0 : evPos (posOf seq) s.events 0 = posOf seq (headId s) := by
    simp only [evPos, headId]
    cases hs : s.events with
    | nil => exact absurd hs hc.ne
    | cons a r => simp
  rw [e0] at this
  exact this

/-- the open fan triangles lie in the OPEN chain polygon (strictly beyond the chord) -/
theorem fan_open {l : Bool} {k : Nat} {s : SideEv K} (hci : CInv (posOf seq) l s) (hc : SideChain seq l k s) :
    ∀ t ∈ flushLevels s.events.toArray s.events.length (!l) (s.events.length + 1) 1, ∀ q, TriIn (posOf seq) t q →
      InPoly l (s.events.map (posOf seq)) [posOf seq (headId s), s.last.pos] q := by
  intro t ht q hq
  obtain ⟨h1, hsp, hw⟩ := (flush_side_fan_tilesW seq hci hc).inside t ht q hq
  refine ⟨h1, Or.inl ⟨hsp, ?_⟩⟩
  have hlh : After s.last.pos (posOf seq (headId s)) := after_trans_afterEq hsp.2 hsp.1
  have hv : ∀ p, p < s.events.length →
      0 ≤ sg (!l) * wind (posOf seq (headId s)) s.last.pos (posOf seq (s.events.toArray.getD p 0)) := by
    intro p hp
    have e : s.events.toArray.getD p 0 = s.events[p] := by simp [hp]
    have := chain_convex_mem seq hci s.events[p] (List.getElem_mem hp)
    rw [e, sg_not, wind_swap_bc]
    linarith
  obtain ⟨a, b, c, hab, hbc, hcl', hshape⟩ := flushLevels_ids s.events.toArray s.events.length (!l) t ht
  unfold TriIn at hq
  cases l
  · simp only [Bool.not_false, if_true] at hshape
    rcases hshape with e | e <;> rw [e] at hq
    · exact inTriS_side_weak hlh ((inTriS_true _ _ _ _).mpr hq) (hv b (by omega)) (hv a (by omega)) (hv c hcl')
    · exact inTriS_side_weak hlh ((inTriS_true _ _ _ _).mpr hq) (hv a (by omega)) (hv c hcl') (hv b (by omega))
  · simp only [Bool.not_true, Bool.false_eq_true, if_false] at hshape
    rw [hshape] at hq
    exact inTriS_side_weak hlh ((inTriS_true _ _ _ _).mpr hq) (hv a (by omega)) (hv b (by omega)) (hv c hcl')

/-- the chain polygon of a buffered chain lies inside BOTH chains of the polygon -/
theorem chain_poly_fullW (hval : SweepValid seq) (h2 : 2 ≤ seq.length) {l : Bool} {k : Nat}
    {s : SideEv K} (hc : SideChain seq l k s) (hk' : k + 1 ≤ seq.length) (hcc : ChordClear seq l s)
    (hci : CInv (posOf seq) l s) (hl2' : 2 ≤ s.events.length) (x : P K)
    (hx' : InPoly l (s.events.map (posOf seq)) [posOf seq (headId s), s.last.pos] x) :
    ChainIn l ((0 :: futIds seq l 1).map (posOf seq)) x ∧ ChainIn (!l) ((0 :: futIds seq (!l) 1).map (posOf seq)) x := by
  refine chain_poly_inside seq hval h2 hc hk' hcc hl2' x hx' ?_
  intro i' j hi hj hjn hf
  have hxc : ChainIn l (s.events.map (posOf seq)) x ∧ CSide l (posOf seq (headId s)) s.last.pos x := by
    refine ⟨hx'.1, ?_⟩
    rcases hx'.2 with g | g
    · exact ⟨g.1, g.2.le⟩
    · exact absurd g (chainIn_single _ _ x)
  have hcov := (flush_side_fan_tilesW seq hci hc).cover x hxc
  rcases hcov with g | ⟨t, ht, hin, hpos⟩
  · exact absurd g id
  have hge : ∀ v ∈ s.events, headId s ≤ v := by
    intro v hv
    have hinc := hc.inc
    rw [hc.head_mem seq] at hinc hv
    rcases List.mem_cons.mp hv with g | g
    · omega
    · exact Nat.le_of_lt (List.rel_of_pairwise_cons hinc g)
  have hid : ∀ p, p < s.events.length → i' < s.events.toArray.getD p 0 ∧ s.events.toArray.getD p 0 < j := by
    intro p hp
    have e : s.events.toArray.getD p 0 = s.events[p] := by simp [hp]
    have hm : s.events[p] ∈ s.events := List.getElem_mem hp
    have h1 := hc.le_last seq _ hm
    have h3 := hge _ hm
    rw [e]; omega
  obtain ⟨a, b, c, hab, hbc, hcl', hshape⟩ := flushLevels_ids s.events.toArray s.events.length (!l) t ht
  have fa := hf _ (hid a (by omega)).1 (hid a (by omega)).2
  have fb := hf _ (hid b (by omega)).1 (hid b (by omega)).2
  have fc := hf _ (hid c hcl').1 (hid c hcl').2
  unfold TriInC at hin
  unfold triW at hpos
  cases l
  · simp only [Bool.not_false, if_true] at hshape
    rcases hshape with e | e <;> rw [e] at hin hpos
    · exact inTriC_side hin hpos fb fa fc
    · exact inTriC_side hin hpos fa fc fb
  · simp only [Bool.not_true, Bool.false_eq_true, if_false] at hshape
    rw [hshape] at hin hpos
    exact inTriC_side hin hpos fa fb fc


/-- **flush and forward, the chain is on the side of the inner stack's top** -/
theorem ff_popW (hval : SweepValid seq) (h2 : 2 ≤ seq.length) {l : Bool} {k : Nat}
    {tess : Basic K} {a b : SideEv K} (w : W3 seq l k tess a b) (hk : k + 1 ≤ seq.length) (hk1 : 1 ≤ k)
    (hl2 : 2 ≤ a.events.length) (hord : 2 ≤ b.events.length → a.last.id < b.last.id)
    (hcl : tess.previous.left = l) (a' : SideEv K) (he : a'.events = [a.last.id]) :
    ∃ nt, ((tess.pushTris (flushLevels a.events.toArray a.events.length (!l) (a.events.length + 1) 1)).vertex a.last).tris =
        tess.tris ++ flushLevels a.events.toArray a.events.length (!l) (a.events.length + 1) 1 ++ nt ∧
      Tiles (RgC seq tess a b k) (TriIn (posOf seq)) (TriInC (posOf seq))
        (flushLevels a.events.toArray a.events.length (!l) (a.events.length + 1) 1 ++ nt)
        (RgC seq ((tess.pushTris (flushLevels a.events.toArray a.events.length (!l) (a.events.length + 1) 1)).vertex a.last)
          a' b k) := by
  have hy := w.y
  have ht := hy.tinv
  obtain ⟨rest, hst⟩ := ht.top
  have hne0 : tess.stack ≠ [] := by rw [hst]; simp
  have hb0 : tess.stack.getLast? = some (tess.stack.getLast hne0) := List.getLast?_eq_some_getLast hne0
  generalize tess.stack.getLast hne0 = bot at hb0
  have hbmem : bot ∈ tess.stack := List.mem_of_getLast? hb0
  obtain ⟨hpid, hbid⟩ := (ht.heads bot hb0).1 hcl
  have hbotpos : C02c.botPos tess = bot.pos := by simp [C02c.botPos, hb0]
  have hprevmem : tess.previous ∈ tess.stack := by rw [hst]; simp
  have hprevpos : tess.previous.pos = posOf seq (headId a) := by rw [ht.good _ hprevmem, hpid]
  have hbotp : bot.pos = posOf seq (headId b) := by rw [ht.good _ hbmem, hbid]
  obtain ⟨hm, hhl⟩ := hy.ca.last_tail seq hl2
  obtain ⟨esp, etl⟩ := hy.ca.split_last seq hl2
  have hlastpos : a.last.pos = posOf seq a.last.id := hy.ca.good
  have hlk : a.last.id < k := hy.ca.lt _ (hy.ca.last_mem seq)
  have hcurl : a.last.left = l := hy.p3.sidea
  have hle := ht.le_prev seq
  have hssort := ht.stack_sorted seq hval
  -- the new inner state
  have hcl' : a.last.left = tess.previous.left := by rw [hcurl, hcl]
  have hne : (a.last.left != tess.previous.left) = false := by rw [hcl']; cases tess.previous.left <;> rfl
  have hvx : (tess.pushTris (flushLevels a.events.toArray a.events.length (!l) (a.events.length + 1) 1)).vertex a.last =
      ⟨a.last :: (popLoop a.last tess.previous rest).1, a.last,
        tess.tris ++ flushLevels a.events.toArray a.events.length (!l) (a.events.length + 1) 1 ++
          (popLoop a.last tess.previous rest).2⟩ := by
    simp only [Basic.vertex, Basic.pushTris, hne, Bool.false_eq_true, if_false, hst]
  refine ⟨(popLoop a.last tess.previous rest).2, by rw [hvx], ?_⟩
  rw [hvx]
  -- the two regions as `chain ∧ Op`
  set Op : P K → Prop := ChainIn (!l) (bot.pos :: (b.events.tail.map (posOf seq) ++ fut seq (!l) k)) with hOp
  have eL : RgC seq tess a b k = fun q => ChainIn l ((rest.map (·.pos)).reverse ++ posOf seq (headId a) ::
      a.events.tail.dropLast.map (posOf seq) ++ a.last.pos :: fut seq l k) q ∧ Op q := by
    funext q
    unfold RgC InPoly
    rw [hbotpos, hcl, hst]
    conv_lhs => rw [etl]
    simp only [List.map_cons, List.reverse_cons, List.map_append, List.map_nil, List.append_assoc, List.singleton_append,
      List.cons_append, List.nil_append, hprevpos, hlastpos]
    rfl
  have hnn := popLoop_nonempty a.last tess.previous rest
  have hgl := popLoop_getLast a.last tess.previous rest
  have eR : RgC seq (⟨a.last :: (popLoop a.last tess.previous rest).1, a.last,
        tess.tris ++ flushLevels a.events.toArray a.events.length (!l) (a.events.length + 1) 1 ++
          (popLoop a.last tess.previous rest).2⟩ : Basic K) a' b k =
      fun q => ChainIn l (((popLoop a.last tess.previous rest).1.map (·.pos)).reverse ++ a.last.pos :: fut seq l k) q ∧ Op q := by
    funext q
    unfold RgC InPoly
    have e0 : C02c.botPos (⟨a.last :: (popLoop a.last tess.previous rest).1, a.last,
        tess.tris ++ flushLevels a.events.toArray a.events.length (!l) (a.events.length + 1) 1 ++
          (popLoop a.last tess.previous rest).2⟩ : Basic K) = bot.pos := by
      simp only [C02c.botPos]
      rw [List.getLast?_cons_of_ne_nil hnn, hgl, ← hst, hb0]; rfl
    rw [e0]
    simp only [he, List.tail_cons, List.map_nil, List.nil_append, hcurl, List.map_cons, List.reverse_cons,
      List.append_assoc, List.singleton_append]
    rfl
  rw [eL, eR]
  -- step 1: the chain polygon
  have hfanC := (flush_side_fan_tilesW seq w.na hy.ca).weakenIc (fun _ _ g => g.1)
  have hopen := fan_open seq w.na hy.ca
  have eE : a.events.map (posOf seq) =
      posOf seq (headId a) :: a.events.tail.dropLast.map (posOf seq) ++ [a.last.pos] := by
    conv_lhs => rw [esp]
    simp [hlastpos]
  rw [eE] at hfanC hopen
  have hhk : headId a < k := by omega
  have hE : SortedP (posOf seq (headId a) :: a.events.tail.dropLast.map (posOf seq) ++ [a.last.pos]) := by
    rw [← eE]
    exact sortedP_ids seq hval a.events hy.ca.inc (fun j hj => by have := hy.ca.lt j hj; omega)
  have hA : SortedP ((rest.map (·.pos)).reverse ++ [posOf seq (headId a)]) := by
    have := sortedP_reverse _ hssort
    rw [hst] at this
    simpa [hprevpos] using this
  have hB : SortedP (a.last.pos :: fut seq l k) := by
    rw [hlastpos]
    exact fut_sorted seq l hval a.last.id k hlk (by omega)
  have hlh : After a.last.pos (posOf seq (headId a)) := by
    rw [hlastpos]; exact valid_after hval hhl (by omega)
  have hconv : ∀ v ∈ posOf seq (headId a) :: a.events.tail.dropLast.map (posOf seq) ++ [a.last.pos],
      0 ≤ sg l * wind (posOf seq (headId a)) v a.last.pos := by
    rw [← eE]
    intro v hv
    obtain ⟨j, hj, rfl⟩ := List.mem_map.mp hv
    exact chain_convex_mem seq w.na j hj
  have hpb : AfterEq (posOf seq (headId a)) bot.pos := by
    rw [← hprevpos]
    exact last_le _ bot.pos hssort (by rw [List.getLast?_map, hb0]; rfl) _ (List.mem_map_of_mem hprevmem)
  have hebm : b.events.map (posOf seq) = bot.pos :: b.events.tail.map (posOf seq) := by
    conv_lhs => rw [hy.cb.head_mem seq]
    simp [hbotp]
  have hCP : ∀ q, InPoly l (posOf seq (headId a) :: a.events.tail.dropLast.map (posOf seq) ++ [a.last.pos])
      [posOf seq (headId a), a.last.pos] q → Op q := by
    intro q hq
    have hq' : InPoly l (a.events.map (posOf seq)) [posOf seq (headId a), a.last.pos] q := by rw [eE]; exact hq
    have hfull := (chain_poly_fullW seq hval h2 hy.ca hk w.ha w.na hl2 q hq').2
    have hqh : AfterEq q (posOf seq (headId a)) := by
      rcases hq.2 with g | g
      · exact g.1.1
      · exact absurd g (chainIn_single _ _ q)
    have := chainIn_from_head seq hval hy.cb hk h2 hk1 (!l) q hfull (by rw [← hbotp]; exact afterEq_trans hqh hpb)
    rw [hebm] at this
    simpa [hOp] using this
  have step1 := chain_fan_tilesW l ((rest.map (·.pos)).reverse) (a.events.tail.dropLast.map (posOf seq)) (fut seq l k)
    (posOf seq (headId a)) a.last.pos Op (TriIn (posOf seq)) (TriInC (posOf seq)) _ hfanC hopen hA hB hE hlh hconv hCP
  refine step1.trans ?_
  -- step 2: the inner tessellator pops ears
  have hgoodst : ∀ v ∈ tess.previous :: rest, Good (posOf seq) v := by rw [← hst]; exact ht.good
  have hcs : ∀ v ∈ tess.previous :: rest, After a.last.pos v.pos := by
    rw [← hst]
    intro v hv
    rw [ht.good v hv, hlastpos]
    exact valid_after hval (by have := hle v hv; omega) (by omega)
  have hOall : ∀ u ∈ tess.previous :: rest, ∀ v ∈ tess.previous :: rest, After v.pos u.pos →
      ∀ q, InTriS a.last.left u.pos v.pos a.last.pos q → Op q := by
    rw [← hst, hcurl]
    intro u hu v hv hvu q hq
    obtain ⟨hqu, hcq⟩ := inTriS_after hvu (by rw [ht.good v hv, hlastpos]; exact valid_after hval (by have := hle v hv; omega) (by omega)) hq
    have hlo := pairwise_last tess.stack bot ht.dec hb0
    have hub : AfterEq u.pos bot.pos := last_le _ bot.pos hssort (by rw [List.getLast?_map, hb0]; rfl) _ (List.mem_map_of_mem hu)
    have hqb : AfterEq q bot.pos := Or.inr (after_trans_afterEq hqu hub)
    have hvbid : bot.id < v.id := by
      rcases hlo v hv with e | e
      · exfalso
        have : v.pos = bot.pos := by rw [ht.good v hv, ht.good bot hbmem, e]
        rw [this] at hvu
        exact not_after_of_afterEq hub hvu
      · exact e
    have hsv : sideAt seq v.id = l := by rw [← hcl]; exact ht.sides bot hb0 v hv (by omega)
    by_cases hb2 : 2 ≤ b.events.length
    · -- the other chain is buffered: its chord separates
      obtain ⟨hmb, hhlb⟩ := hy.cb.last_tail seq hb2
      have hab := hord hb2
      have hblk : b.last.id < k := hy.cb.lt _ (hy.cb.last_mem seq)
      have hchord := chord_of_chain seq hval hy.cb (by omega) hb2 w.hb
      rw [Bool.not_not] at hchord
      have hblpos : b.last.pos = posOf seq b.last.id := hy.cb.good
      -- a vertex of side `l` between `bot` and the other chain's end is weakly on side `l` of the chord
      have hstrict : ∀ j, headId b < j → j < b.last.id → sideAt seq j = l →
          0 ≤ sg (!l) * wind bot.pos b.last.pos (posOf seq j) := by
        intro j h1 h2' h3
        have hw := hchord j h1 h2' h3
        have e : sg (!l) * wind bot.pos b.last.pos (posOf seq j) = sg l * wind (posOf seq (headId b)) (posOf seq j) b.last.pos := by
          rw [hbotp, sg_not, wind_swap_bc]; ring
        rw [e]; exact hw
      have huw : 0 ≤ sg (!l) * wind bot.pos b.last.pos u.pos := by
        rcases hlo u hu with e | e
        · have : u.pos = bot.pos := by rw [ht.good u hu, ht.good bot hbmem, e]
          rw [this, wind_self_left]; simp
        · have hsu : sideAt seq u.id = l := by rw [← hcl]; exact ht.sides bot hb0 u hu (by omega)
          rw [ht.good u hu]
          exact hstrict u.id (by omega) (by have := hle u hu; omega) hsu
      have hvw : 0 ≤ sg (!l) * wind bot.pos b.last.pos v.pos := by
        rw [ht.good v hv]
        exact hstrict v.id (by omega) (by have := hle v hv; omega) hsv
      have hcw : 0 ≤ sg (!l) * wind bot.pos b.last.pos a.last.pos := by
        rw [hlastpos]
        exact hstrict a.last.id (hy.oab hl2) hab (hy.ca.side _ hm)
      have hbb : After b.last.pos bot.pos := by
        rw [hblpos, hbotp]; exact valid_after hval hhlb (by omega)
      have hqside := inTriS_side_weak hbb hq huw hvw hcw
      have hbq : After b.last.pos q := by
        rw [hblpos]
        exact after_trans (by rw [hlastpos] at hcq ⊢; exact valid_after hval hab (by omega)) hcq
      have hLs : SortedP (b.events.map (posOf seq)) :=
        sortedP_ids seq hval b.events hy.cb.inc (fun j hj => by have := hy.cb.lt j hj; omega)
      have hcvb : ∀ v ∈ b.events.map (posOf seq), 0 ≤ sg (!l) * wind bot.pos v b.last.pos := by
        intro v hv'
        obtain ⟨j, hj, rfl⟩ := List.mem_map.mp hv'
        rw [hbotp]
        exact chain_convex_mem seq w.nb j hj
      have hin := chain_side (!l) hbb hqside (b.events.map (posOf seq)) bot.pos b.last.pos hLs
        (by rw [hebm]; rfl) (by rw [List.getLast?_map, hy.cb.last]; simp [hblpos]) hcvb hqb hbq
      rw [hebm] at hin
      rw [hOp]
      exact chainIn_prefix (!l) q _ (fut seq (!l) k) hin
    · -- the other chain is a single vertex: the opposite side is one polygon edge
      have hb1 : b.events.length < 2 := by omega
      obtain ⟨hbe, hbh⟩ := hy.cb.single_head seq hb1
      obtain ⟨f, restO, eO, f1, f2, f3, f4, _, _⟩ := futIds_head seq (!l) _ k (by omega) rfl
      rw [Bool.not_not] at f3
      have hrb : RunBetween seq l bot.id f := by
        refine ⟨?_, ?_, ?_⟩
        · intro j hj1 hj2
          by_cases g : j < k
          · by_contra hne'
            have hsl : sideAt seq j = !l := by revert hne'; cases sideAt seq j <;> cases l <;> simp
            have := hy.cb.complete j (by omega) g hsl
            rw [hbe, List.mem_singleton] at this
            omega
          · exact f3 j (by omega) hj1
        · rw [hbid]; exact hy.cb.hside
        · exact f4
      have hbk : bot.id < k := by rw [hbid]; exact hy.cb.lt _ (by rw [hy.cb.head_mem seq]; simp)
      have hside : ∀ j, bot.id < j → j < f → 0 < sg (!l) * wind bot.pos (posOf seq f) (posOf seq j) := by
        intro j h1 h2'
        have := hval.2 f f2 bot.id (by omega) l hrb j h2' h1
        rw [onSide_inner] at this
        rw [ht.good bot hbmem]; exact this
      have huw : 0 ≤ sg (!l) * wind bot.pos (posOf seq f) u.pos := by
        rcases hlo u hu with e | e
        · have : u.pos = bot.pos := by rw [ht.good u hu, ht.good bot hbmem, e]
          rw [this, wind_self_left]; simp
        · rw [ht.good u hu]
          exact (hside u.id e (by have := hle u hu; omega)).le
      have hvw : 0 < sg (!l) * wind bot.pos (posOf seq f) v.pos := by
        rw [ht.good v hv]
        exact hside v.id hvbid (by have := hle v hv; omega)
      have hcw : 0 < sg (!l) * wind bot.pos (posOf seq f) a.last.pos := by
        rw [hlastpos]
        exact hside a.last.id (by have := hy.oab hl2; omega) (by omega)
      have hqside := inTriS_side hq huw hvw hcw.le
      have hfq : After (posOf seq f) q := by
        refine after_trans ?_ hcq
        rw [hlastpos]; exact valid_after hval (by omega) f2
      rw [hOp, hbe]
      simp only [List.tail_cons, List.map_nil, List.nil_append, fut, eO, List.map_cons]
      exact Or.inl ⟨⟨hqb, hfq⟩, hqside⟩
  have hcur : Good (posOf seq) a.last := hy.ca.good
  have t2 := pop_tilesW (posOf seq) a.last (fut seq l k) Op hcur hB rest tess.previous hgoodst
    (by rw [← hst]; exact hssort) hcs hOall
  have e3 : ((tess.previous :: rest).map (·.pos)).reverse ++ a.last.pos :: fut seq l k =
      (rest.map (·.pos)).reverse ++ posOf seq (headId a) :: a.last.pos :: fut seq l k := by
    simp [hprevpos]
  rw [hcurl, e3] at t2
  exact t2



/-- **flush and forward, the chain is on the side opposite to the inner stack's top** -/
theorem ff_fanW (hval : SweepValid seq) (h2 : 2 ≤ seq.length) {l : Bool} {k : Nat}
    {tess : Basic K} {a b : SideEv K} (w : W3 seq l k tess a b) (hk : k + 1 ≤ seq.length) (hk1 : 1 ≤ k)
    (hl2 : 2 ≤ a.events.length) (hord : 2 ≤ b.events.length → a.last.id < b.last.id)
    (hcn : tess.previous.left ≠ l) (a' : SideEv K) (he : a'.events = [a.last.id]) :
    ∃ nt, ((tess.pushTris (flushLevels a.events.toArray a.events.length (!l) (a.events.length + 1) 1)).vertex a.last).tris =
        tess.tris ++ flushLevels a.events.toArray a.events.length (!l) (a.events.length + 1) 1 ++ nt ∧
      Tiles (RgC seq tess b a k) (TriIn (posOf seq)) (TriInC (posOf seq))
        (flushLevels a.events.toArray a.events.length (!l) (a.events.length + 1) 1 ++ nt)
        (RgC seq ((tess.pushTris (flushLevels a.events.toArray a.events.length (!l) (a.events.length + 1) 1)).vertex a.last)
          a' b k) := by
  have hy := w.y
  have ht := hy.tinv
  have hopp : tess.previous.left = !l := bool_ne_not hcn
  obtain ⟨rest, hst⟩ := ht.top
  have hne0 : tess.stack ≠ [] := by rw [hst]; simp
  have hb0 : tess.stack.getLast? = some (tess.stack.getLast hne0) := List.getLast?_eq_some_getLast hne0
  generalize tess.stack.getLast hne0 = bot at hb0
  have hbmem : bot ∈ tess.stack := List.mem_of_getLast? hb0
  obtain ⟨hpid, hbid⟩ := (ht.heads bot hb0).2 hcn
  have hbotpos : C02c.botPos tess = bot.pos := by simp [C02c.botPos, hb0]
  have hprevmem : tess.previous ∈ tess.stack := by rw [hst]; simp
  have hprevpos : tess.previous.pos = posOf seq (headId b) := by rw [ht.good _ hprevmem, hpid]
  have hbotp : bot.pos = posOf seq (headId a) := by rw [ht.good _ hbmem, hbid]
  obtain ⟨hm, hhl⟩ := hy.ca.last_tail seq hl2
  obtain ⟨esp, etl⟩ := hy.ca.split_last seq hl2
  have hlastpos : a.last.pos = posOf seq a.last.id := hy.ca.good
  have hlk : a.last.id < k := hy.ca.lt _ (hy.ca.last_mem seq)
  have hcurl : a.last.left = l := hy.p3.sidea
  have hle := ht.le_prev seq
  have hssort := ht.stack_sorted seq hval
  have hoab := hy.oab hl2
  have hlo := pairwise_last tess.stack bot ht.dec hb0
  -- the new inner state
  have hcl' : a.last.left ≠ tess.previous.left := by rw [hcurl]; exact fun e => hcn e.symm
  have hne : (a.last.left != tess.previous.left) = true := by
    revert hcl'; cases a.last.left <;> cases tess.previous.left <;> simp
  have hvx : (tess.pushTris (flushLevels a.events.toArray a.events.length (!l) (a.events.length + 1) 1)).vertex a.last =
      ⟨[a.last, tess.previous], a.last,
        tess.tris ++ flushLevels a.events.toArray a.events.length (!l) (a.events.length + 1) 1 ++
          fanTris a.last tess.stack.reverse⟩ := by
    simp only [Basic.vertex, Basic.pushTris, hne, if_true]
  refine ⟨fanTris a.last tess.stack.reverse, by rw [hvx], ?_⟩
  rw [hvx]
  set Fc : List (P K) := b.events.tail.map (posOf seq) ++ fut seq (!l) k with hFcdef
  set OpC : P K → Prop := ChainIn (!l) ((tess.stack.map (·.pos)).reverse ++ Fc) with hOpC
  have hebm : b.events.map (posOf seq) = tess.previous.pos :: b.events.tail.map (posOf seq) := by
    conv_lhs => rw [hy.cb.head_mem seq]
    simp [hprevpos]
  have eL : RgC seq tess b a k = fun q => ChainIn l ([] ++ bot.pos ::
      a.events.tail.dropLast.map (posOf seq) ++ a.last.pos :: fut seq l k) q ∧ OpC q := by
    funext q
    unfold RgC InPoly
    rw [hbotpos, hopp, Bool.not_not]
    conv_lhs => rw [etl]
    apply propext
    simp only [List.map_append, List.map_cons, List.map_nil, List.append_assoc, List.singleton_append,
      List.cons_append, List.nil_append, hlastpos]
    exact and_comm
  have eR : RgC seq (⟨[a.last, tess.previous], a.last,
        tess.tris ++ flushLevels a.events.toArray a.events.length (!l) (a.events.length + 1) 1 ++
          fanTris a.last tess.stack.reverse⟩ : Basic K) a' b k =
      fun q => InPoly (!l) (tess.previous.pos :: Fc) (tess.previous.pos :: a.last.pos :: fut seq l k) q := by
    funext q
    unfold RgC InPoly
    have e0 : C02c.botPos (⟨[a.last, tess.previous], a.last,
        tess.tris ++ flushLevels a.events.toArray a.events.length (!l) (a.events.length + 1) 1 ++
          fanTris a.last tess.stack.reverse⟩ : Basic K) = tess.previous.pos := by
      simp [C02c.botPos]
    rw [e0]
    apply propext
    simp only [he, List.tail_cons, List.map_nil, List.nil_append, hcurl, List.map_cons, List.reverse_cons,
      List.reverse_nil, List.append_assoc, List.singleton_append, List.cons_append, Bool.not_not]
    exact and_comm
  rw [eL, eR]
  -- step 1: the chain polygon is cut off the opposite chain
  have hfanC := (flush_side_fan_tilesW seq w.na hy.ca).weakenIc (fun _ _ g => g.1)
  have hopen := fan_open seq w.na hy.ca
  have eE : a.events.map (posOf seq) = bot.pos :: a.events.tail.dropLast.map (posOf seq) ++ [a.last.pos] := by
    conv_lhs => rw [esp]
    simp [hlastpos, hbotp]
  rw [eE, ← hbotp] at hfanC hopen
  have hhk : headId a < k := by omega
  have hE : SortedP (bot.pos :: a.events.tail.dropLast.map (posOf seq) ++ [a.last.pos]) := by
    rw [← eE]
    exact sortedP_ids seq hval a.events hy.ca.inc (fun j hj => by have := hy.ca.lt j hj; omega)
  have hB : SortedP (a.last.pos :: fut seq l k) := by
    rw [hlastpos]
    exact fut_sorted seq l hval a.last.id k hlk (by omega)
  have hlh : After a.last.pos bot.pos := by
    rw [hlastpos, hbotp]; exact valid_after hval hhl (by omega)
  have hconv : ∀ v ∈ bot.pos :: a.events.tail.dropLast.map (posOf seq) ++ [a.last.pos],
      0 ≤ sg l * wind bot.pos v a.last.pos := by
    rw [← eE]
    intro v hv
    obtain ⟨j, hj, rfl⟩ := List.mem_map.mp hv
    rw [hbotp]
    exact chain_convex_mem seq w.na j hj
  have hchord := chord_of_chain seq hval hy.ca (by omega) hl2 w.ha
  -- a stack vertex above the bottom is weakly on the stack's side of the chord `bot → cur`
  have hstack : ∀ v ∈ tess.stack, bot.id < v.id → 0 ≤ sg (!l) * wind bot.pos v.pos a.last.pos := by
    intro v hv hlt
    have hsv : sideAt seq v.id = !l := by rw [← hopp]; exact ht.sides bot hb0 v hv (by omega)
    have hw := hchord v.id (by omega) (by have := hle v hv; omega) hsv
    rw [hbotp, ht.good v hv]
    exact hw
  have hFcs : SortedP (tess.previous.pos :: Fc) := by
    have := chain_fut_sorted seq hval hy.cb hk
    rw [hebm] at this
    simpa [hFcdef] using this
  have hSlast : ((tess.stack.map (·.pos)).reverse).getLast? = some tess.previous.pos := by
    rw [hst]; simp
  have hShead : ((tess.stack.map (·.pos)).reverse).head? = some bot.pos := by
    rw [List.head?_reverse, List.getLast?_map, hb0]; rfl
  have hCP : ∀ q, InPoly l (bot.pos :: a.events.tail.dropLast.map (posOf seq) ++ [a.last.pos])
      [bot.pos, a.last.pos] q → OpC q := by
    intro q hq
    have hq' : InPoly l (a.events.map (posOf seq)) [posOf seq (headId a), a.last.pos] q := by
      rw [eE, ← hbotp]; exact hq
    obtain ⟨⟨hqb, hlq⟩, hqin⟩ : Span bot.pos a.last.pos q ∧ 0 < sg (!l) * wind bot.pos a.last.pos q := by
      rcases hq.2 with g | g
      · exact g
      · exact absurd g (chainIn_single _ _ q)
    rw [hOpC]
    rcases after_total tess.previous.pos q with g | g | g
    · -- before the stack's top: the stack chain lies on its own side of the chord
      apply chainIn_prefix
      refine chain_side (!l) hlh hqin _ bot.pos tess.previous.pos (sortedP_reverse _ hssort) hShead hSlast ?_ hqb g
      intro v hv
      rw [List.mem_reverse] at hv
      obtain ⟨x, hx, rfl⟩ := List.mem_map.mp hv
      rcases hlo x hx with e | e
      · have : x.pos = bot.pos := by rw [ht.good x hx, ht.good bot hbmem, e]
        rw [this, wind_self_mid]; simp
      · exact hstack x hx e
    all_goals
      have hqp : AfterEq q tess.previous.pos := by
        first
        | exact Or.inl g.symm
        | exact Or.inr g
      have hfull := (chain_poly_fullW seq hval h2 hy.ca hk w.ha w.na hl2 q hq').2
      have := chainIn_from_head seq hval hy.cb hk h2 hk1 (!l) q hfull (by rw [← hprevpos]; exact hqp)
      rw [hebm] at this
      rw [hst]
      simp only [List.map_cons, List.reverse_cons, List.append_assoc, List.singleton_append]
      exact (chainIn_append (!l) _ _ _ q).mpr (Or.inr (by simpa [hFcdef] using this))
  have step1 := chain_fan_tilesW l [] (a.events.tail.dropLast.map (posOf seq)) (fut seq l k)
    bot.pos a.last.pos OpC (TriIn (posOf seq)) (TriInC (posOf seq)) _ hfanC hopen (by simp [SortedP]) hB hE hlh hconv hCP
  refine step1.trans ?_
  -- step 2: the inner tessellator fans over its stack
  have hgoodst : ∀ v ∈ tess.previous :: rest, Good (posOf seq) v := by rw [← hst]; exact ht.good
  have hcur : Good (posOf seq) a.last := hy.ca.good
  have hcs : ∀ v ∈ tess.stack, After a.last.pos v.pos := by
    intro v hv
    rw [ht.good v hv, hlastpos]
    exact valid_after hval (by have := hle v hv; omega) (by omega)
  have hsideS : ∀ v ∈ tess.stack, v.pos = bot.pos ∨ 0 ≤ sg (!l) * wind bot.pos v.pos a.last.pos := by
    intro v hv
    rcases hlo v hv with e | e
    · left; rw [ht.good v hv, ht.good bot hbmem, e]
    · exact Or.inr (hstack v hv e)
  have hfanP : FanLeT (!l) a.last.pos (tess.stack.map (·.pos)) := by
    apply fanPos_le (!l) a.last.pos bot.pos
    · rw [List.getLast?_map, hb0]; rfl
    · intro y hy'
      obtain ⟨v, hv, rfl⟩ := List.mem_map.mp hy'
      exact hsideS v hv
    · exact hssort
    · intro y hy'
      obtain ⟨v, hv, rfl⟩ := List.mem_map.mp hy'
      exact hcs v hv
    · have := ht.reflex; rw [hopp] at this; exact this
  have hcp : After a.last.pos tess.previous.pos := hcs _ hprevmem
  have hU : ∀ q, Span tess.previous.pos a.last.pos q → 0 < sg (!l) * wind tess.previous.pos a.last.pos q →
      ChainIn (!l) (tess.previous.pos :: Fc) q := by
    intro q hsp hin
    by_cases hb2 : 2 ≤ b.events.length
    · -- buffered vertices follow the stack's top: they are on its side of the diagonal
      obtain ⟨hmb, hhlb⟩ := hy.cb.last_tail seq hb2
      have hab := hord hb2
      have hblk : b.last.id < k := hy.cb.lt _ (hy.cb.last_mem seq)
      have hblpos : b.last.pos = posOf seq b.last.id := hy.cb.good
      have hchb := chord_of_chain seq hval hy.cb (by omega) hb2 w.hb
      rw [Bool.not_not] at hchb
      have hcurw : 0 ≤ sg (!(!l)) * wind tess.previous.pos a.last.pos b.last.pos := by
        rw [Bool.not_not, hprevpos, hlastpos]
        exact hchb a.last.id hoab hab (hy.ca.side _ hm)
      have hbp : After b.last.pos tess.previous.pos := by
        rw [hblpos, hprevpos]; exact valid_after hval hhlb (by omega)
      have hLs : SortedP (b.events.map (posOf seq)) :=
        sortedP_ids seq hval b.events hy.cb.inc (fun j hj => by have := hy.cb.lt j hj; omega)
      have hcv : ∀ v ∈ b.events.map (posOf seq), 0 ≤ sg (!l) * wind tess.previous.pos v a.last.pos := by
        intro v hv
        obtain ⟨j, hj, rfl⟩ := List.mem_map.mp hv
        by_cases ej : j = headId b
        · rw [ej, ← hprevpos, wind_self_mid]; simp
        · have hjh : headId b < j := by
            have hinc := hy.cb.inc
            rw [hy.cb.head_mem seq] at hinc hj
            rcases List.mem_cons.mp hj with g | g
            · exact absurd g ej
            · exact List.rel_of_pairwise_cons hinc g
          have hcm := chain_convex_mem seq w.nb j hj
          rw [← hprevpos] at hcm
          refine turn_fan_le (!l) ?_ hbp hcp hcm hcurw
          rw [hprevpos]; exact valid_after hval hjh (by have := hy.cb.lt j hj; omega)
      have hbq : After b.last.pos q := by
        refine after_trans ?_ hsp.2
        rw [hblpos, hlastpos]; exact valid_after hval hab (by omega)
      have hin' := chain_side (!l) hcp hin (b.events.map (posOf seq)) tess.previous.pos b.last.pos hLs
        (by rw [hebm]; rfl) (by rw [List.getLast?_map, hy.cb.last]; simp [hblpos]) hcv hsp.1 hbq
      rw [hebm] at hin'
      have := chainIn_prefix (!l) q _ (fut seq (!l) k) hin'
      simpa [hFcdef] using this
    · -- the stack's top is followed by the not yet fed part: one polygon edge
      have hb1 : b.events.length < 2 := by omega
      obtain ⟨hbe, hbh⟩ := hy.cb.single_head seq hb1
      obtain ⟨f, restC, eC, f1, f2, f3, f4, _, _⟩ := futIds_head seq (!l) _ k (by omega) rfl
      have hrb : RunBetween seq l tess.previous.id f := by
        refine ⟨?_, ?_, ?_⟩
        · intro j hj1 hj2
          by_cases g : j < k
          · by_contra hne'
            have hsl : sideAt seq j = !l := by revert hne'; cases sideAt seq j <;> cases l <;> simp
            have := hy.cb.complete j (by omega) g hsl
            rw [hbe, List.mem_singleton] at this
            omega
          · have := f3 j (by omega) hj1
            rwa [Bool.not_not] at this
        · rw [hpid]; exact hy.cb.hside
        · exact f4
      have hpk : tess.previous.id < k := by rw [hpid]; exact hy.cb.lt _ (by rw [hy.cb.head_mem seq]; simp)
      have hcin := hval.2 f f2 tess.previous.id (by omega) l hrb a.last.id (by omega) (by omega)
      rw [onSide_inner] at hcin
      rw [← ht.good _ hprevmem, ← hlastpos] at hcin
      have hfc : After (posOf seq f) a.last.pos := by rw [hlastpos]; exact valid_after hval (by omega) f2
      have hfp : After (posOf seq f) tess.previous.pos := after_trans hfc hcp
      have := turn_from_x (!l) hfp hcp hsp.1 hcin hin
      rw [hFcdef, hbe]
      simp only [List.tail_cons, List.map_nil, List.nil_append, fut, eC, List.map_cons]
      exact Or.inl ⟨⟨hsp.1, after_trans hfc hsp.2⟩, this⟩
  have hO : SortedP (a.last.pos :: fut seq l k) := hB
  rw [hst] at hfanP hsideS hcs hb0 hssort
  have t2 := fan_step_tilesW (posOf seq) (!l) a.last bot tess.previous rest Fc (fut seq l k) hgoodst hcur hb0
    hssort hcs hsideS hfanP hFcs hO hU
  rw [← hst] at t2
  have eqS : (fun q => ChainIn l ([] ++ bot.pos :: a.last.pos :: fut seq l k) q ∧ OpC q) =
      InPoly (!l) ((tess.stack.map (·.pos)).reverse ++ Fc) (bot.pos :: a.last.pos :: fut seq l k) := by
    funext q
    apply propext
    unfold InPoly
    rw [Bool.not_not, hOpC]
    simp only [List.nil_append]
    exact and_comm
  rw [eqS]
  exact t2



/-- **flush and forward** in terms of `Rg3` -/
theorem ff_tilesW (hval : SweepValid seq) (h2 : 2 ≤ seq.length) {l : Bool} {k : Nat}
    {tess : Basic K} {a b : SideEv K} (w : W3 seq l k tess a b) (hk : k + 1 ≤ seq.length) (hk1 : 1 ≤ k)
    (hl2 : 2 ≤ a.events.length) (hord : 2 ≤ b.events.length → a.last.id < b.last.id)
    (a' : SideEv K) (he : a'.events = [a.last.id]) :
    ∃ nt, ((tess.pushTris (flushLevels a.events.toArray a.events.length (!l) (a.events.length + 1) 1)).vertex a.last).tris =
        tess.tris ++ flushLevels a.events.toArray a.events.length (!l) (a.events.length + 1) 1 ++ nt ∧
      Tiles (Rg3 seq l tess a b k) (TriIn (posOf seq)) (TriInC (posOf seq))
        (flushLevels a.events.toArray a.events.length (!l) (a.events.length + 1) 1 ++ nt)
        (Rg3 seq l ((tess.pushTris (flushLevels a.events.toArray a.events.length (!l) (a.events.length + 1) 1)).vertex a.last)
          a' b k) := by
  have hprev : ((tess.pushTris (flushLevels a.events.toArray a.events.length (!l) (a.events.length + 1) 1)).vertex
      a.last).previous.left = l := by rw [vertex_previous]; exact w.y.p3.sidea
  have eR : Rg3 seq l ((tess.pushTris (flushLevels a.events.toArray a.events.length (!l) (a.events.length + 1) 1)).vertex
      a.last) a' b k = RgC seq ((tess.pushTris (flushLevels a.events.toArray a.events.length (!l) (a.events.length + 1)
      1)).vertex a.last) a' b k := by
    unfold Rg3; rw [if_pos hprev]
  rw [eR]
  by_cases hcl : tess.previous.left = l
  · have eL : Rg3 seq l tess a b k = RgC seq tess a b k := by unfold Rg3; rw [if_pos hcl]
    rw [eL]
    exact ff_popW seq hval h2 w hk hk1 hl2 hord hcl a' he
  · have eL : Rg3 seq l tess a b k = RgC seq tess b a k := by unfold Rg3; rw [if_neg hcl]
    rw [eL]
    exact ff_fanW seq hval h2 w hk hk1 hl2 hord hcl a' he



end Geometry

end Lyon.C02f
