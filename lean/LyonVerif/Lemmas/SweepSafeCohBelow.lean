/-
  SPAN / WINDING COHERENCE, part 5: `process_edges_below` on the state left by `process_edges_above`
  of a coherent scanned state: no failure; the number of spans begun is the number of `in` gaps
  strictly inside the sorted pending edges (+1 for a split event).
-/
import Lean.Elab.Tactic
import LyonVerif.Lemmas.SweepSafeCohAbove

set_option linter.unusedSectionVars false
set_option linter.unusedVariables false
set_option linter.unusedSimpArgs false
set_option mvcgen.warning false

namespace Lyon.SweepCoh
open Lyon Lyon.Scalar Lyon.Mono Lyon.Sweep Lyon.EQ Lyon.SweepSafe
open Std.Do

variable {α : Type} [Scalar α] [Wide α]
variable {A : List String}

/-- a state predicate that reads only the spans, the active list, the rule and the tolerance -/
def FrameP (P : St α → Prop) : Prop :=
  ∀ s s' : St α, s'.spans = s.spans → s'.active = s.active → s'.rule = s.rule → s'.tolerance = s.tolerance →
    P s → P s'

theorem FrameP.apply {P : St α → Prop} (hP : FrameP P) {s : St α} (h : P s) (s' : St α)
    (h1 : s'.spans = s.spans) (h2 : s'.active = s.active) (h3 : s'.rule = s.rule)
    (h4 : s'.tolerance = s.tolerance) : P s' := hP s s' h1 h2 h3 h4 h

open Lean Elab Tactic Meta in
/-- `frame_apply hP`: the goal is `P s'`; finds the most recent hypothesis `h : P s` (same head, or the
left part of a conjunction) and closes the goal with `FrameP.apply hP h s' rfl rfl rfl rfl` -/
elab "frame_apply " hP:term : tactic => do
  let g ← getMainGoal
  g.withContext do
    let tgt ← whnfR (← instantiateMVars (← g.getType))
    let head := tgt.getAppFn
    let lctx ← getLCtx
    let decls := (lctx.decls.toList.filterMap id).reverse
    for d in decls do
      if d.isImplementationDetail then continue
      let ty ← whnfR (← instantiateMVars d.type)
      let cand : Option Expr :=
        if ty.getAppFn == head && ty.getAppNumArgs == tgt.getAppNumArgs then some d.toExpr
        else if ty.isAppOf ``And && (ty.getArg! 0).getAppFn == head then some (mkProj ``And 0 d.toExpr)
        else none
      match cand with
      | none => continue
      | some h =>
        let s ← saveState
        try
          let hPe ← elabTerm hP none
          let e ← mkAppM ``FrameP.apply #[hPe, h, tgt.appArg!]
          let gs ← g.apply e
          for g' in gs do g'.refl
          replaceMainGoal []
          return
        catch _ => s.restore
    throwError "frame_apply: no hypothesis found"

theorem sortEdgesBelow_fr {P : St α → Prop} (hP : FrameP P) :
    ⦃fun s => ⌜P s⌝⦄ (sortEdgesBelow : SM α Unit) ⦃safePost A fun _ s => P s⦄ := by
  unfold sortEdgesBelow
  strip_mdata
  mvcgen
  all_goals first
    | exact allowed_unmodelled _
    | frame_apply hP

theorem mergeCoincidentEdges_fr {P : St α → Prop} (hP : FrameP P) (a b : Nat) (hab : a < b) :
    ⦃fun s => ⌜P s ∧ b + 1 ≤ s.below.size⌝⦄ (mergeCoincidentEdges a b : SM α Unit)
    ⦃safePost A fun _ s => P s ∧ b ≤ s.below.size⦄ := by
  unfold mergeCoincidentEdges
  mvcgen
  case vc3 =>
    rename_i s h x4 x3 hx hb ha
    exfalso
    have hb' : b < s.below.size := h.2
    have ha' : a < s.below.size := by omega
    exact hx s.below[a] s.below[b] (by rw [← ha]; simp [ha']) (by rw [← hb]; simp [hb'])
  all_goals
    have h := ‹P _ ∧ b + 1 ≤ _›
    refine ⟨by frame_apply hP, ?_⟩
    refine Nat.le_trans ?_ (size_erase_ge _ _)
    have := h.2
    show b ≤ (Array.setIfInBounds _ _ _).size - 1
    rw [Array.size_setIfInBounds]
    omega

theorem handleCoincidentEdgesBelow_fr {P : St α → Prop} (hP : FrameP P) :
    ⦃fun s => ⌜P s⌝⦄ (handleCoincidentEdgesBelow : SM α Unit) ⦃safePost A fun _ s => P s⦄ := by
  unfold handleCoincidentEdgesBelow
  have h1 := fun (a b : Nat) (hab : a < b) => mergeCoincidentEdges_fr (α := α) (A := A) hP a b hab
  mvcgen [h1] invariants
  · post⟨fun r s => ⌜P s ∧ r.1.suffix.length + 1 ≤ s.below.size⌝, fun f _ => ⌜Allowed A f⌝⟩
  with skip
  case vc2 => omega
  case vc3 =>
    rename_i s0 _ m hm pref cur suff hr _ idx s h a b _ _ _ _ _ _ _ _ _ _ _ _ _
    have := range_split hr
    refine ⟨h.1, ?_⟩
    have := h.2
    simp only [List.length_cons] at this
    show m - 2 - cur + 1 + 1 ≤ _
    omega
  case vc4 =>
    rename_i s0 _ m hm pref cur suff hr _ idx s1 _ a b _ _ _ _ _ _ _ _ _ _ _ _ _ _ s h
    have := range_split hr
    refine ⟨h.1, ?_⟩
    have h2 : m - 2 - cur + 1 ≤ s.below.size := h.2
    omega
  case vc6 =>
    have h := ‹P _ ∧ _ ≤ _›
    refine ⟨h.1, ?_⟩
    have := h.2
    simp only [List.length_cons] at this
    omega
  case vc7 =>
    rename_i s0 _ m hm pref cur suff hr _ idx s h x4 x3 hx hb ha
    exfalso
    have hr' := range_split hr
    have hsz := h.2
    simp only [List.length_cons] at hsz
    have e : idx = m - 2 - cur := rfl
    have hb' : idx + 1 < s.below.size := by omega
    have ha' : idx < s.below.size := by omega
    exact hx s.below[idx] s.below[idx + 1] (by rw [← ha]; simp [ha']) (by rw [← hb]; simp [hb'])
  case vc8 =>
    rename_i s h m hm
    refine ⟨h, ?_⟩
    rw [range_length]
    show m - 1 + 1 ≤ m
    omega
  case vc9 => exact (‹P _ ∧ _ ≤ _›).1
  all_goals first | (intro _ h; exact h) | assumption


/-- `RelA` with the number of spans made explicit -/
structure RelZ (s0 : St α) (scan : Scan) (Z : Nat) (s : St α) : Prop where
  live : SomeExcept [] s.spans
  size : s.spans.size = Z
  asize : s.active.size = s0.active.size
  sig : ∀ k, (scan.mergeEvent = true → k ≠ scan.aboveStart) →
    (s.active[k]?).map sigOf = (s0.active[k]?).map sigOf
  merged : scan.mergeEvent = true → (s.active[scan.aboveStart]?).map sigOf = some (true, 0)
  rule : s.rule = s0.rule
  tol : s.tolerance = s0.tolerance

theorem relZ_frame (s0 : St α) (scan : Scan) (Z : Nat) : FrameP (RelZ s0 scan Z) := by
  intro s s' h1 h2 h3 h4 h
  exact ⟨h1 ▸ h.live, by rw [h1]; exact h.size, by rw [h2]; exact h.asize, by rw [h2]; exact h.sig,
    by rw [h2]; exact h.merged, by rw [h3]; exact h.rule, by rw [h4]; exact h.tol⟩

theorem RelA.toZ {s0 : St α} {scan : Scan} {s : St α} (h : RelA s0 scan s) :
    RelZ s0 scan (s0.spans.size - cntIn s0 scan.aboveStart scan.aboveEnd) s :=
  ⟨h.live, by have := h.size; omega, h.asize, h.sig, h.merged, h.rule, h.tol⟩

theorem spanVertex_z (s0 : St α) (scan : Scan) (Z : Nat) (i : Int) (h0 : 0 ≤ i) (h1 : i < (Z : Int))
    (pos : P α) (id : Nat) (l : Bool) :
    ⦃fun s => ⌜RelZ s0 scan Z s⌝⦄ (spanVertex i pos id l : SM α Unit)
    ⦃safePost A fun _ s => RelZ s0 scan Z s⦄ := by
  unfold spanVertex
  mvcgen
  · rename_i s h hk
    exfalso
    rw [h.size, spanIdx_some h0 h1] at hk
    cases hk
  · rename_i s h k hk hd
    have hk' := spanIdx_lt hk
    exfalso
    rw [getD_eq hk'.1] at hd
    have := h.live k hk'.1 hd
    simp at this
  · rename_i s h k hk t ht
    exact ⟨someExcept_set h.live k _, by simp [h.size], h.asize, h.sig, h.merged, h.rule, h.tol⟩

theorem beginSpan_z (s0 : St α) (scan : Scan) (Z : Nat) (i : Int) (h0 : 0 ≤ i) (h1 : i ≤ (Z : Int))
    (pos : P α) (id : Nat) :
    ⦃fun s => ⌜RelZ s0 scan Z s⌝⦄ (beginSpan i pos id : SM α Unit)
    ⦃safePost A fun _ s => RelZ s0 scan (Z + 1) s⦄ := by
  unfold beginSpan
  mvcgen
  · rename_i s h _ _
    refine ⟨someExcept_insert h.live _ _, ?_, h.asize, h.sig, h.merged, h.rule, h.tol⟩
    have := h.size
    simp
    omega
  · rename_i s h hn
    exfalso
    have := h.size
    omega

/-- the number of `begin_span` calls of the loop of `process_edges_below` over the pending windings
`l`, entered with winding state `w` and flag `first` -/
def gapsFrom (rule : Slab.Rule) : WindingState → Bool → List Int → Nat
  | _, _, [] => 0
  | w, first, k :: l => bi (!first && w.isIn) + gapsFrom rule (w.update rule k) false l

theorem pfold_nil (rule : Slab.Rule) (w : WindingState) : pfold rule w [] = w := rfl

theorem pfold_cons (rule : Slab.Rule) (w : WindingState) (k : Int) (l : List Int) :
    pfold rule w (k :: l) = pfold rule (w.update rule k) l := by
  simp [pfold, sfold, sstep]

theorem update_si (rule : Slab.Rule) (w : WindingState) (k : Int) :
    (w.update rule k).spanIndex = w.spanIndex + (bi (w.update rule k).isIn : Int) := by
  unfold WindingState.update bi
  by_cases h : rule.isIn (w.number + k) = true <;> simp [h]

theorem gaps_false (rule : Slab.Rule) : ∀ (l : List Int) (w : WindingState), l ≠ [] →
    (pfold rule w l).spanIndex - w.spanIndex + (bi w.isIn : Int) =
      (gapsFrom rule w false l : Int) + (bi (pfold rule w l).isIn : Int)
  | [], _, h => absurd rfl h
  | [k], w, _ => by
    have := update_si rule w k
    simp only [pfold_cons, pfold_nil, gapsFrom, Bool.not_false, Bool.true_and]
    push_cast
    omega
  | k :: k' :: l, w, _ => by
    have ih := gaps_false rule (k' :: l) (w.update rule k) (by simp)
    have := update_si rule w k
    rw [pfold_cons]
    rw [show gapsFrom rule w false (k :: k' :: l) =
      bi (!false && w.isIn) + gapsFrom rule (w.update rule k) false (k' :: l) from rfl]
    simp only [Bool.not_false, Bool.true_and]
    push_cast
    omega

theorem gaps_true (rule : Slab.Rule) (w : WindingState) (l : List Int) :
    (pfold rule w l).spanIndex - w.spanIndex =
      (gapsFrom rule w true l : Int) + (bi (!l.isEmpty && (pfold rule w l).isIn) : Int) := by
  cases l with
  | nil => simp [pfold_nil, gapsFrom, bi]
  | cons k l =>
    cases l with
    | nil =>
      have := update_si rule w k
      simp only [pfold_cons, pfold_nil, gapsFrom, Bool.not_true, Bool.false_and, List.isEmpty_cons,
        Bool.not_false, Bool.true_and]
      simp only [bi, Bool.false_eq_true, if_false] at this ⊢
      push_cast
      omega
    | cons k' l =>
      have h := gaps_false rule (k' :: l) (w.update rule k) (by simp)
      have := update_si rule w k
      rw [pfold_cons]
      rw [show gapsFrom rule w true (k :: k' :: l) =
        bi (!true && w.isIn) + gapsFrom rule (w.update rule k) false (k' :: l) from rfl]
      simp only [Bool.not_true, Bool.false_and, List.isEmpty_cons, Bool.not_false, Bool.true_and]
      have hz : bi false = 0 := rfl
      rw [hz]
      push_cast
      omega


theorem splitEvent_rel (s0 : St α) (scan : Scan) (Z : Nat) (leftEdge : Nat) (leftSpan : Int)
    (hle : leftEdge + 1 < s0.active.size) (h0 : 0 ≤ leftSpan) (h1 : leftSpan + 1 ≤ (Z : Int)) :
    ⦃fun s => ⌜RelZ s0 scan Z s⌝⦄ (splitEvent leftEdge leftSpan : SM α Unit)
    ⦃safePost A fun _ s => RelZ s0 scan (Z + 1) s⦄ := by
  unfold splitEvent
  have h2 := fun (i : Int) (h0 : 0 ≤ i) (h1 : i ≤ (Z : Int)) =>
    beginSpan_z (α := α) (A := A) s0 scan Z i h0 h1
  have h3 := fun (i : Int) (h0 : 0 ≤ i) (h1 : i < ((Z + 1 : Nat) : Int)) =>
    spanVertex_z (α := α) (A := A) s0 scan (Z + 1) i h0 h1
  mvcgen [h2, h3]
  all_goals first
    | assumption
    | (intro _ h; exact h)
    | omega
    | (push_cast; omega)
    | (rename_i s h x4 x3 hx hb ha
       exfalso
       have h1' : leftEdge < s.active.size := by rw [h.asize]; omega
       have h2' : leftEdge + 1 < s.active.size := by rw [h.asize]; omega
       exact hx s.active[leftEdge] s.active[leftEdge + 1] (by rw [← ha]; simp [h1']) (by rw [← hb]; simp [h2']))

/-- `begin_span` with every piece of state it does not touch made explicit -/
theorem beginSpan_zb (s0 : St α) (scan : Scan) (Z : Nat) (bl : Array (PendingEdge α)) (i : Int) (h0 : 0 ≤ i)
    (h1 : i ≤ (Z : Int)) (pos : P α) (id : Nat) :
    ⦃fun s => ⌜RelZ s0 scan Z s ∧ s.below = bl⌝⦄ (beginSpan i pos id : SM α Unit)
    ⦃safePost A fun _ s => RelZ s0 scan (Z + 1) s ∧ s.below = bl⦄ := by
  unfold beginSpan
  mvcgen
  · rename_i s h _ _
    refine ⟨⟨someExcept_insert h.1.live _ _, ?_, h.1.asize, h.1.sig, h.1.merged, h.1.rule, h.1.tol⟩, h.2⟩
    have := h.1.size
    simp
    omega
  · rename_i s h hn
    exfalso
    have := h.1.size
    omega

theorem pfold_snoc (rule : Slab.Rule) (w : WindingState) (l : List Int) (k : Int) :
    pfold rule w (l ++ [k]) = (pfold rule w l).update rule k := by
  simp [pfold, sfold, sstep, List.foldl_append]

theorem gapsFrom_snoc (rule : Slab.Rule) : ∀ (l : List Int) (w : WindingState) (f : Bool) (k : Int),
    gapsFrom rule w f (l ++ [k]) = gapsFrom rule w f l + bi (!(f && l.isEmpty) && (pfold rule w l).isIn)
  | [], w, f, k => by simp [gapsFrom, pfold_nil]
  | x :: l, w, f, k => by
    have ih := gapsFrom_snoc rule l (w.update rule x) false k
    simp only [List.cons_append, gapsFrom, ih, pfold_cons, List.isEmpty_cons, Bool.and_false, Bool.not_false,
      Bool.true_and, Bool.false_and]
    omega

theorem good_pfold {rule : Slab.Rule} {w : WindingState} (h : Good rule w) (l : List Int) :
    Good rule (pfold rule w l) := good_sfold h _

section event
variable {s0 : St α} {scan : Scan}

/-- the spans left after `process_edges_above` still cover the region left of the vertex -/
theorem Z1_ge (hok : ScanOk s0 scan) (hc : Coh s0) :
    cntIn s0 scan.aboveStart scan.aboveEnd ≤ s0.spans.size ∧
    (Wat s0 scan.aboveStart).spanIndex + 1 + (cntIn s0 scan.aboveStart scan.aboveEnd : Int) ≤ (s0.spans.size : Int) := by
  have hle := hok.start_le
  have hn := hok.end_le
  obtain ⟨d, hd⟩ : ∃ d, scan.aboveEnd = scan.aboveStart + d := ⟨scan.aboveEnd - scan.aboveStart, by omega⟩
  have h1 := incr_eq_cnt s0 scan.aboveStart d (by omega) (fun k e _ _ hk hm => hc.merges k e hk hm)
  rw [← hd] at h1
  have h2 := cntIn_succ s0 scan.aboveStart scan.aboveEnd
  have h3 := Wat_le_tot s0 scan.aboveEnd
  have h4 := hc.size
  have h5 := (Wat_good s0 scan.aboveStart).ge
  constructor
  · have : (cntIn s0 scan.aboveStart scan.aboveEnd : Int) ≤ (s0.spans.size : Int) := by
      rw [h2] at h1; push_cast at h1; omega
    exact_mod_cast this
  · rw [h2] at h1; push_cast at h1; omega

/-- a split vertex has a right neighbour: the total winding is `out` -/
theorem split_lt (hc : Coh s0) (hin : (Wat s0 scan.aboveStart).isIn = true) :
    scan.aboveStart < s0.active.size := by
  by_cases h : scan.aboveStart < s0.active.size
  · exact h
  · exfalso
    rw [Wat_ge_size s0 (by omega), hc.out] at hin
    cases hin

end event

/-- windings of the pending edges -/
def bwOf (bl : Array (PendingEdge α)) : List Int := bl.toList.map (·.winding)

/-- the loop invariant of the `begin_span` loop of `process_edges_below` -/
def InvB (s0 : St α) (scan : Scan) (Z2 : Nat) (pref suff : List (PendingEdge α)) (b : WindingState × Bool)
    (s : St α) : Prop :=
  RelZ s0 scan (Z2 + gapsFrom s0.rule (Wat s0 scan.aboveStart) true (pref.map (·.winding))) s ∧
  s.below.toList = pref ++ suff ∧
  b.1 = pfold s0.rule (Wat s0 scan.aboveStart) (pref.map (·.winding)) ∧ b.2 = pref.isEmpty

theorem ar_split (scan : Scan) : (aboveResult scan).splitEvent = scan.splitEvent := by
  unfold aboveResult; split <;> rfl
theorem ar_wb (scan : Scan) : (aboveResult scan).windingBefore = scan.windingBefore := by
  unfold aboveResult; split <;> rfl
theorem ar_end (scan : Scan) : (aboveResult scan).aboveEnd = scan.aboveEnd := by
  unfold aboveResult; split <;> rfl

theorem split_facts {s0 : St α} {scan : Scan} (hok : ScanOk s0 scan) (hsem : ScanSem s0 scan) (hc : Coh s0)
    (hG : ScanAgree s0 scan) (hsp : scan.splitEvent = true) :
    (aboveResult scan).aboveStart = scan.aboveStart ∧ 1 ≤ scan.aboveStart ∧
    scan.aboveStart < s0.active.size ∧ 0 ≤ scan.windingBefore.spanIndex ∧
    scan.windingBefore.spanIndex + 1 ≤
      ((s0.spans.size - cntIn s0 scan.aboveStart scan.aboveEnd : Nat) : Int) := by
  obtain ⟨hab, hin, _⟩ := hsem.split hsp
  have hme : scan.mergeEvent = false := by
    cases hm : scan.mergeEvent
    · rfl
    · have := hG.1 hm; omega
  have hZ := Z1_ge hok hc
  refine ⟨by simp [aboveResult, hme], hok.split_pos hsp, split_lt hc hin, ?_, ?_⟩
  · rw [hsem.wb]; exact (Wat_good s0 _).inn hin
  · rw [hsem.wb]; omega

theorem InvB_init {s0 : St α} {scan : Scan} {Z2 : Nat} {s : St α} {wb : WindingState}
    (h : RelZ s0 scan Z2 s) (hwb : wb = Wat s0 scan.aboveStart) :
    InvB s0 scan Z2 [] s.below.toList (wb, true) s := by
  refine ⟨by simpa [gapsFrom] using h, by simp, ?_, rfl⟩
  simp [pfold_nil, hwb]

theorem InvB_skip {s0 : St α} {scan : Scan} {Z2 : Nat} {s : St α} {pref suff : List (PendingEdge α)}
    {cur : PendingEdge α} {b : WindingState × Bool} (rule : Slab.Rule) (hrule : rule = s0.rule)
    (hI : InvB s0 scan Z2 pref (cur :: suff) b s) (hn : ¬(!b.2 && b.1.isIn) = true) :
    InvB s0 scan Z2 (pref ++ [cur]) suff (b.1.update rule cur.winding, false) s := by
  obtain ⟨h1, h2, h3, h4⟩ := hI
  refine ⟨?_, by simp [h2], ?_, by simp⟩
  · rw [List.map_append, List.map_singleton, gapsFrom_snoc]
    have : bi (!(true && (pref.map (·.winding)).isEmpty) && (pfold s0.rule (Wat s0 scan.aboveStart)
        (pref.map (·.winding))).isIn) = 0 := by
      rw [← h3]
      have : (pref.map (·.winding)).isEmpty = pref.isEmpty := by cases pref <;> rfl
      rw [Bool.true_and, this, ← h4]
      unfold bi
      simp only [hn, if_false]
      cases hb : (!b.2 && b.1.isIn) <;> simp_all
    rw [this]
    exact h1
  · rw [List.map_append, List.map_singleton, pfold_snoc, ← h3, hrule]

theorem InvB_begin_pre {s0 : St α} {scan : Scan} {Z2 : Nat} {s : St α} {pref suff : List (PendingEdge α)}
    {b : WindingState × Bool} (hZ2 : (Wat s0 scan.aboveStart).spanIndex + 1 ≤ (Z2 : Int))
    (hI : InvB s0 scan Z2 pref suff b s) (hp : (!b.2 && b.1.isIn) = true) :
    0 ≤ b.1.spanIndex ∧ b.1.spanIndex ≤ ((Z2 + gapsFrom s0.rule (Wat s0 scan.aboveStart) true
      (pref.map (·.winding)) : Nat) : Int) := by
  obtain ⟨h1, h2, h3, h4⟩ := hI
  have hin : b.1.isIn = true := and2_right hp
  have hne : b.2 = false := by cases hb : b.2 <;> simp [hb] at hp ⊢
  have hg := gaps_true s0.rule (Wat s0 scan.aboveStart) (pref.map (·.winding))
  have hgood := good_pfold (Wat_good s0 scan.aboveStart) (pref.map (·.winding))
  rw [← h3] at hg hgood
  have he : (pref.map (·.winding)).isEmpty = false := by
    have : (pref.map (·.winding)).isEmpty = pref.isEmpty := by cases pref <;> rfl
    rw [this, ← h4, hne]
  rw [he, hin] at hg
  simp only [Bool.not_false, Bool.and_self, bi, if_true] at hg
  constructor
  · exact hgood.inn hin
  · push_cast at hg ⊢; omega

theorem InvB_begin_post {s0 : St α} {scan : Scan} {Z2 : Nat} {s s' : St α} {pref suff : List (PendingEdge α)}
    {cur : PendingEdge α} {b : WindingState × Bool} (rule : Slab.Rule) (hrule : rule = s0.rule)
    (hI : InvB s0 scan Z2 pref (cur :: suff) b s) (hp : (!b.2 && b.1.isIn) = true)
    (hs' : RelZ s0 scan (Z2 + gapsFrom s0.rule (Wat s0 scan.aboveStart) true (pref.map (·.winding)) + 1) s' ∧
      s'.below = s.below) :
    InvB s0 scan Z2 (pref ++ [cur]) suff (b.1.update rule cur.winding, false) s' := by
  obtain ⟨h1, h2, h3, h4⟩ := hI
  refine ⟨?_, by rw [hs'.2, h2]; simp, ?_, by simp⟩
  · rw [List.map_append, List.map_singleton, gapsFrom_snoc]
    have : bi (!(true && (pref.map (·.winding)).isEmpty) && (pfold s0.rule (Wat s0 scan.aboveStart)
        (pref.map (·.winding))).isIn) = 1 := by
      rw [← h3]
      have : (pref.map (·.winding)).isEmpty = pref.isEmpty := by cases pref <;> rfl
      rw [Bool.true_and, this, ← h4, hp]
      rfl
    rw [this]
    exact hs'.1
  · rw [List.map_append, List.map_singleton, pfold_snoc, ← h3, hrule]

theorem InvB_final {s0 : St α} {scan : Scan} {Z2 : Nat} {s : St α} {L : List (PendingEdge α)}
    {b : WindingState × Bool} (hI : InvB s0 scan Z2 L [] b s) :
    RelZ s0 scan (Z2 + gapsFrom s0.rule (Wat s0 scan.aboveStart) true (bwOf s.below)) s := by
  have : bwOf s.below = L.map (·.winding) := by
    unfold bwOf; rw [hI.2.1]; simp
  rw [this]; exact hI.1

/-- `process_edges_below` after `process_edges_above` of a coherent scanned state: no failure; the
spans begun are the `in` gaps strictly inside the (sorted, merged) pending edges, plus one for a
split event -/
theorem processEdgesBelow_rel (s0 : St α) (scan : Scan) (hok : ScanOk s0 scan) (hsem : ScanSem s0 scan)
    (hc : Coh s0) (hG : ScanAgree s0 scan) (sc : Scan) :
    ⦃fun s => ⌜sc = aboveResult scan ∧ RelA s0 scan s⌝⦄ (processEdgesBelow sc : SM α Unit)
    ⦃safePost A fun _ s => RelZ s0 scan
      (s0.spans.size - cntIn s0 scan.aboveStart scan.aboveEnd + bi scan.splitEvent +
        gapsFrom s0.rule (Wat s0 scan.aboveStart) true (bwOf s.below)) s⦄ := by
  unfold processEdgesBelow
  have hZ := Z1_ge hok hc
  have h1 := sortEdgesBelow_fr (α := α) (A := A)
    (relZ_frame s0 scan (s0.spans.size - cntIn s0 scan.aboveStart scan.aboveEnd))
  have h2 := handleCoincidentEdgesBelow_fr (α := α) (A := A)
    (relZ_frame s0 scan (s0.spans.size - cntIn s0 scan.aboveStart scan.aboveEnd))
  have h3 := fun le ls hle h0 h1 => splitEvent_rel (α := α) (A := A) s0 scan
    (s0.spans.size - cntIn s0 scan.aboveStart scan.aboveEnd) le ls hle h0 h1
  mvcgen [h1, h2, h3] invariants
  · post⟨fun r s => ⌜InvB s0 scan (s0.spans.size - cntIn s0 scan.aboveStart scan.aboveEnd + bi scan.splitEvent)
      r.1.prefix r.1.suffix r.2 s⌝, fun f _ => ⌜Allowed A f⌝⟩
  · post⟨fun r s => ⌜InvB s0 scan (s0.spans.size - cntIn s0 scan.aboveStart scan.aboveEnd + bi scan.splitEvent)
      r.1.prefix r.1.suffix r.2 s⌝, fun f _ => ⌜Allowed A f⌝⟩
  with skip
  case vc1 => exact (‹_ ∧ RelA s0 scan _›).2.toZ
  case vc3 =>
    exfalso
    have hsc := (‹sc = aboveResult scan ∧ RelA s0 scan _›).1
    have hsp := ‹sc.splitEvent = true›
    have h0 := ‹(sc.aboveStart == 0) = true›
    rw [hsc, ar_split] at hsp
    have := split_facts hok hsem hc hG hsp
    rw [hsc, this.1] at h0
    simp at h0
    omega
  case vc4 =>
    have hsc := (‹sc = aboveResult scan ∧ RelA s0 scan _›).1
    have hsp := ‹sc.splitEvent = true›
    rw [hsc, ar_split] at hsp
    have := split_facts hok hsem hc hG hsp
    rw [hsc, this.1]
    omega
  case vc5 =>
    have hsc := (‹sc = aboveResult scan ∧ RelA s0 scan _›).1
    have hsp := ‹sc.splitEvent = true›
    rw [hsc, ar_split] at hsp
    have := split_facts hok hsem hc hG hsp
    rw [hsc, ar_wb]
    exact this.2.2.2.1
  case vc6 =>
    have hsc := (‹sc = aboveResult scan ∧ RelA s0 scan _›).1
    have hsp := ‹sc.splitEvent = true›
    rw [hsc, ar_split] at hsp
    have := split_facts hok hsem hc hG hsp
    rw [hsc, ar_wb]
    exact this.2.2.2.2
  case vc10 =>
    have hsc := (‹sc = aboveResult scan ∧ RelA s0 scan _›).1
    have hsp := ‹sc.splitEvent = true›
    rw [hsc, ar_split] at hsp
    rw [hsp]
    exact InvB_init (by assumption) (by rw [hsc, ar_wb]; exact hsem.wb)
  case vc15 =>
    have hsc := (‹sc = aboveResult scan ∧ RelA s0 scan _›).1
    have hsp := ‹¬sc.splitEvent = true›
    rw [hsc, ar_split] at hsp
    have : scan.splitEvent = false := by simpa using hsp
    rw [this]
    exact InvB_init (by assumption) (by rw [hsc, ar_wb]; exact hsem.wb)
  case vc11 => exact InvB_final (by assumption)
  case vc16 => exact InvB_final (by assumption)
  case vc9 =>
    rename_i sb hsb pref cur suff hl b _ _ _ hcond s hI
    exact InvB_skip sb.rule hsb.rule hI hcond
  case vc14 =>
    rename_i sb hsb pref cur suff hl b _ _ _ hcond s hI
    exact InvB_skip sb.rule hsb.rule hI hcond
  all_goals
    rename_i sb hsb pref cur suff hl b _ _ _ hcond s hI
    have hZ2 : (Wat s0 scan.aboveStart).spanIndex + 1 ≤
        ((s0.spans.size - cntIn s0 scan.aboveStart scan.aboveEnd + bi scan.splitEvent : Nat) : Int) := by
      have := hZ.2; have := hZ.1; push_cast; omega
    have hpre := InvB_begin_pre hZ2 hI hcond
    have hspec := beginSpan_zb (A := A) s0 scan _ s.below b.1.spanIndex hpre.1 hpre.2 s.curPos s.curVertex
    have hwp := hspec s ⟨hI.1, rfl⟩
    refine (wp (beginSpan b.1.spanIndex s.curPos s.curVertex : SM α Unit)).mono _ _ ?_ s hwp
    refine ⟨fun a s' hs' => ?_, fun e s' hs' => hs', trivial⟩
    show (wp⟦(pure (ForInStep.yield (_, false)) : SM α (ForInStep (WindingState × Bool)))⟧ _ s').down
    simp only [WP.pure]
    exact InvB_begin_post sb.rule hsb.rule hI hcond hs'

end Lyon.SweepCoh
