/-
  C02 growth 4 (`Props/C02g.lean`), part 17: `Adv.end_` as a `Tiles0` step (`end_t`; the emitted order
  — both fans first, then the forwards — is a permutation of the cutting order), the whole feed
  (`afeed_t`) and the run: `adv_run_tiles0` — on a valid sweep sequence in general position every
  triangle of `Adv.run` lies strictly inside the monotone polygon and no two of them overlap.
-/
import LyonVerif.Lemmas.MonotoneTileAdvSetAll

set_option linter.unusedSectionVars false
set_option linter.unusedVariables false
set_option linter.unusedSimpArgs false

namespace Lyon.C02f
open Lyon Lyon.Mono Lyon.C02 Lyon.C02c

section Geometry
variable {K : Type} [Field K] [LinearOrder K] [IsStrictOrderedRing K]

theorem perm_swap_mid {T : Type} (a b c d e : List T) : (a ++ c ++ (b ++ d) ++ e).Perm (a ++ b ++ c ++ d ++ e) := by
  simp only [List.append_assoc]
  exact List.Perm.append_left a (List.perm_append_comm_assoc c b (d ++ e))

theorem perm_move_front {T : Type} (a b c d e : List T) : (b ++ d ++ (a ++ c) ++ e).Perm (a ++ b ++ d ++ c ++ e) := by
  have := List.perm_append_comm_assoc (b ++ d) a (c ++ e)
  simpa only [List.append_assoc] using this

variable (seq : List (P K × Bool))

/-- flush-and-forward of chain `a` with the invariants of the new state -/
theorem ff_end_step (hval : SweepValid seq) (hnc : NoCollinear seq) (h2 : 2 ≤ seq.length) {l : Bool} {k : Nat}
    {X : Basic K} {a b : SideEv K} (w : W3 seq l k X a b) (hk : k + 1 ≤ seq.length) (hk1 : 1 ≤ k)
    (hl2 : 2 ≤ a.events.length) (hord : 2 ≤ b.events.length → a.last.id < b.last.id)
    (a' : SideEv K) (he : a'.events = [a.last.id]) (hla : a'.last = a.last) :
    ∃ nt, (X.vertex a.last).tris = X.tris ++ nt ∧
      Tiles0 (Rg3 seq l X a b k) (TriIn (posOf seq))
        (flushLevels a.events.toArray a.events.length (!l) (a.events.length + 1) 1 ++ nt)
        (Rg3 seq l (X.vertex a.last) a' b k) ∧
      W3 seq l k (X.vertex a.last) a' b := by
  obtain ⟨nt, e, t⟩ := ff_tiles_any seq hval hnc h2 w hk hk1 hl2 hord a' he
  exact ⟨nt, e, t, w.fwd seq hval (by omega) hl2 hord a' he hla⟩

/-- **`Adv.end_`** -/
theorem end_t (hval : SweepValid seq) (hnc : NoCollinear seq) (h2 : 2 ≤ seq.length) (st : Adv K) (k : Nat)
    (hk : k + 1 = seq.length) (hk1 : 1 ≤ k) (h : WA seq k st) :
    ∃ nt R', (st.end_ (posOf seq k) k).tris = st.tess.tris ++ nt ∧
      Tiles0 (RgA seq st k) (TriIn (posOf seq)) nt R' := by
  have w := h.w3 seq
  rw [end_eq]
  unfold endCore RgA
  have hgl := w.y.ca.good
  have hgr := w.y.cb.good
  unfold Good at hgl hgr
  have hln : st.left.last.id < seq.length := by have := w.y.ca.lt _ (w.y.ca.last_mem seq); omega
  have hrn : st.right.last.id < seq.length := by have := w.y.cb.lt _ (w.y.cb.last_mem seq); omega
  rcases flushSide_cases st.left false with ⟨ha, ea⟩ | ⟨ha, a1, a2, a3, a4⟩ <;>
  rcases flushSide_cases st.right true with ⟨hb, eb⟩ | ⟨hb, b1, b2, b3, b4⟩
  · simp only [ea, eb, Option.isSome_none, Bool.false_eq_true, if_false, pushTris_nil]
    exact end_vertex_t seq hval w hk ha hb
  · -- only the right chain is flushed
    simp only [ea, b3, b4, Option.isSome_none, Option.isSome_some, Bool.false_eq_true, if_false, if_true, pushTris_nil]
    have w1 := W3.symm seq (w.pushTris seq (flushLevels st.right.events.toArray st.right.events.length true
      (st.right.events.length + 1) 1))
    obtain ⟨nR, e1, t1, w2⟩ := ff_end_step seq hval hnc h2 w1 (by omega) hk1 hb (fun g => by omega)
      (flushSide st.right true).1 b1 b2
    obtain ⟨nE, R', e2, t2⟩ := end_vertex_t seq hval w2 hk (by rw [b1]; simp) ha
    refine ⟨flushLevels st.right.events.toArray st.right.events.length true (st.right.events.length + 1) 1 ++ nR ++ nE,
      R', ?_, ?_⟩
    · rw [e2, e1]; simp [Basic.pushTris, List.append_assoc]
    · have e0 : Rg3 seq true st.tess st.left st.right k = Rg3 seq (!true)
          (st.tess.pushTris (flushLevels st.right.events.toArray st.right.events.length true (st.right.events.length + 1) 1))
          st.right st.left k := by
        rw [Rg3_symm]; exact Rg3_tess_congr seq true _ _ k rfl rfl
      rw [e0]
      simp only [Bool.not_true, Bool.not_false] at t1 t2 ⊢
      exact t1.trans t2
  · -- only the left chain is flushed
    simp only [eb, a3, a4, Option.isSome_none, Option.isSome_some, Bool.false_eq_true, if_false, if_true, pushTris_nil]
    have w1 := w.pushTris seq (flushLevels st.left.events.toArray st.left.events.length false
      (st.left.events.length + 1) 1)
    obtain ⟨nL, e1, t1, w2⟩ := ff_end_step seq hval hnc h2 w1 (by omega) hk1 ha (fun g => by omega)
      (flushSide st.left false).1 a1 a2
    obtain ⟨nE, R', e2, t2⟩ := end_vertex_t seq hval w2 hk (by rw [a1]; simp) hb
    refine ⟨flushLevels st.left.events.toArray st.left.events.length false (st.left.events.length + 1) 1 ++ nL ++ nE,
      R', ?_, ?_⟩
    · rw [e2, e1]; simp [Basic.pushTris, List.append_assoc]
    · have e0 : Rg3 seq true st.tess st.left st.right k = Rg3 seq true
          (st.tess.pushTris (flushLevels st.left.events.toArray st.left.events.length false (st.left.events.length + 1) 1))
          st.left st.right k := Rg3_tess_congr seq true _ _ k rfl rfl
      rw [e0]
      simp only [Bool.not_true, Bool.not_false] at t1 t2 ⊢
      exact t1.trans t2
  · -- both chains are flushed
    simp only [a3, a4, b3, b4, Option.isSome_some, if_true]
    have w0 := (w.pushTris seq (flushLevels st.left.events.toArray st.left.events.length false
      (st.left.events.length + 1) 1)).pushTris seq (flushLevels st.right.events.toArray st.right.events.length true
      (st.right.events.length + 1) 1)
    have e0 : Rg3 seq true st.tess st.left st.right k = Rg3 seq true
        ((st.tess.pushTris (flushLevels st.left.events.toArray st.left.events.length false (st.left.events.length + 1) 1)).pushTris
          (flushLevels st.right.events.toArray st.right.events.length true (st.right.events.length + 1) 1))
        st.left st.right k := Rg3_tess_congr seq true _ _ k rfl rfl
    rw [e0]
    have hT : ((st.tess.pushTris (flushLevels st.left.events.toArray st.left.events.length false (st.left.events.length + 1) 1)).pushTris
          (flushLevels st.right.events.toArray st.right.events.length true (st.right.events.length + 1) 1)).tris =
        st.tess.tris ++ flushLevels st.left.events.toArray st.left.events.length false (st.left.events.length + 1) 1 ++
          flushLevels st.right.events.toArray st.right.events.length true (st.right.events.length + 1) 1 := by
      simp [Basic.pushTris]
    generalize ((st.tess.pushTris (flushLevels st.left.events.toArray st.left.events.length false (st.left.events.length + 1) 1)).pushTris
          (flushLevels st.right.events.toArray st.right.events.length true (st.right.events.length + 1) 1)) = X0 at w0 hT ⊢
    split
    · -- the right end comes first
      rename_i hia
      have haft := (isAfter_iff _ _).mp hia
      rw [hgl, hgr] at haft
      have hlt := id_lt_of_after seq hval hln hrn haft
      obtain ⟨nR, e1, t1, w1⟩ := ff_end_step seq hval hnc h2 (W3.symm seq w0) (by omega) hk1 hb (fun _ => hlt)
        (flushSide st.right true).1 b1 b2
      obtain ⟨nL, e2, t2, w2⟩ := ff_end_step seq hval hnc h2 (W3.symm seq w1) (by omega) hk1 ha
        (fun g => by rw [b1] at g; simp at g) (flushSide st.left false).1 a1 a2
      obtain ⟨nE, R', e3, t3⟩ := end_vertex_t seq hval w2 hk (by rw [a1]; simp) (by rw [b1]; simp)
      simp only [Bool.not_true, Bool.not_false] at t1 t2 t3 w1 w2
      have eqA : Rg3 seq false X0 st.right st.left k = Rg3 seq true X0 st.left st.right k := by
        have := Rg3_symm seq true X0 st.left st.right k
        simpa only [Bool.not_true] using this
      have eqB : Rg3 seq false (X0.vertex st.right.last) (flushSide st.right true).1 st.left k =
          Rg3 seq true (X0.vertex st.right.last) st.left (flushSide st.right true).1 k := by
        have := Rg3_symm seq true (X0.vertex st.right.last) st.left (flushSide st.right true).1 k
        simpa only [Bool.not_true] using this
      rw [eqA, eqB] at t1
      have t12 := (t1.trans t2).trans t3
      refine ⟨flushLevels st.left.events.toArray st.left.events.length false (st.left.events.length + 1) 1 ++
          flushLevels st.right.events.toArray st.right.events.length true (st.right.events.length + 1) 1 ++ nR ++ nL ++ nE,
        R', ?_, t12.perm (perm_move_front _ _ _ _ _)⟩
      rw [e3, e2, e1, hT]; simp [List.append_assoc]
    · -- the left end comes first
      rename_i hia
      have hna : ¬ After st.left.last.pos st.right.last.pos := fun g => hia ((isAfter_iff _ _).mpr g)
      rw [hgl, hgr] at hna
      have hle := id_le_of_not_after seq hval hln hrn hna
      have hne := w.y.ends_ne seq hb
      obtain ⟨nL, e1, t1, w1⟩ := ff_end_step seq hval hnc h2 w0 (by omega) hk1 ha (fun _ => by omega)
        (flushSide st.left false).1 a1 a2
      obtain ⟨nR, e2, t2, w2⟩ := ff_end_step seq hval hnc h2 (W3.symm seq w1) (by omega) hk1 hb
        (fun g => by rw [a1] at g; simp at g) (flushSide st.right true).1 b1 b2
      obtain ⟨nE, R', e3, t3⟩ := end_vertex_t seq hval w2 hk (by rw [b1]; simp) (by rw [a1]; simp)
      simp only [Bool.not_true, Bool.not_false] at t1 t2 t3 w1 w2
      have eqC : Rg3 seq false (X0.vertex st.left.last) st.right (flushSide st.left false).1 k =
          Rg3 seq true (X0.vertex st.left.last) (flushSide st.left false).1 st.right k := by
        have := Rg3_symm seq true (X0.vertex st.left.last) (flushSide st.left false).1 st.right k
        simpa only [Bool.not_true] using this
      have t2' := t2
      rw [eqC] at t2'
      have t12 := (t1.trans t2').trans t3
      refine ⟨flushLevels st.left.events.toArray st.left.events.length false (st.left.events.length + 1) 1 ++
          flushLevels st.right.events.toArray st.right.events.length true (st.right.events.length + 1) 1 ++ nL ++ nR ++ nE,
        R', ?_, t12.perm (perm_swap_mid _ _ _ _ _)⟩
      rw [e3, e2, e1, hT]; simp [List.append_assoc]

/-! ## the whole run -/

theorem afeed_t (hval : SweepValid seq) (hnc : NoCollinear seq) (h2 : 2 ≤ seq.length) (vs : List (P K × Bool))
    (st : Adv K) (k : Nat) (hvs : ∀ i (h : i < vs.length), seq[k + i]? = some vs[i])
    (hk : k + vs.length + 1 = seq.length) (hk1 : 1 ≤ k) (h : WA seq k st) :
    ∃ nt R', ((afeed st k vs).end_ (posOf seq (k + vs.length)) (k + vs.length)).tris = st.tess.tris ++ nt ∧
      Tiles0 (RgA seq st k) (TriIn (posOf seq)) nt R' := by
  induction vs generalizing st k with
  | nil =>
    simp only [List.length_nil, Nat.add_zero] at hk ⊢
    simpa [afeed] using end_t seq hval hnc h2 st k hk hk1 h
  | cons v r ih =>
    obtain ⟨p, l⟩ := v
    simp only [List.length_cons] at hk
    have h0 := hvs 0 (by simp)
    simp only [Nat.add_zero, List.getElem_cons_zero] at h0
    have hp : posOf seq k = p := by simp [posOf, h0]
    have hl : sideAt seq k = l := by simp [sideAt, h0]
    obtain ⟨nt1, e1, t1⟩ := vertex_t seq hval hnc h2 st p k l (by omega) hk1 h hp hl
    have hw := vertex_w seq hval st p k l (by omega) h hp hl
    obtain ⟨nt2, R', e2, t2⟩ := ih (st.vertex p k l) (k + 1) (by
      intro i hi
      have := hvs (i + 1) (by simp only [List.length_cons]; omega)
      simp only [List.getElem_cons_succ] at this
      rw [← this]; congr 1; omega) (by omega) (by omega) hw
    refine ⟨nt1 ++ nt2, R', ?_, t1.trans t2⟩
    simp only [afeed, List.length_cons]
    rw [show k + (r.length + 1) = k + 1 + r.length by omega, e2, e1, List.append_assoc]

/-- **the triangles of `Adv.run` lie inside the polygon and do not overlap** -/
theorem adv_run_tiles0 (h2 : 2 ≤ seq.length) (hval : SweepValid seq) (hnc : NoCollinear seq) :
    ∃ R', Tiles0 (InsidePoly seq) (TriIn (posOf seq)) (Adv.run seq) R' := by
  match seq, h2, hval, hnc with
  | (p0, b0) :: v1 :: rest, _, hval, hnc =>
    have hlen : 0 + 1 + (List.take ((v1 :: rest).length - 1) (v1 :: rest)).length = (v1 :: rest).length := by
      simp only [List.length_take, List.length_cons]; omega
    have hpos : ∀ i (h : i < (List.take ((v1 :: rest).length - 1) (v1 :: rest)).length),
        ((p0, b0) :: v1 :: rest)[0 + 1 + i]? = some (List.take ((v1 :: rest).length - 1) (v1 :: rest))[i] := by
      intro i hi
      simp only [List.length_take, List.length_cons] at hi
      simp only [List.getElem_take]
      rw [show 0 + 1 + i = i + 1 by omega, List.getElem?_cons_succ,
        List.getElem?_eq_getElem (by simp only [List.length_cons]; omega)]
    have hpe : posOf ((p0, b0) :: v1 :: rest) (v1 :: rest).length = ((v1 :: rest).getLast?.map (·.1)).getD p0 := by
      simp only [posOf, List.length_cons, List.getElem?_cons_succ]
      rw [List.getLast?_eq_getElem?]
      simp only [List.length_cons, Nat.add_sub_cancel]
      rw [List.getElem?_eq_getElem (by simp only [List.length_cons]; omega)]
      rfl
    have h0 : posOf ((p0, b0) :: v1 :: rest) 0 = p0 := by simp [posOf]
    have hw : WA ((p0, b0) :: v1 :: rest) (0 + 1) (Adv.begin Adv.new p0 0) :=
      ⟨begin_y _ p0 h0 (by simp), begin_z _ p0 h0, begin_n _ Adv.new p0 h0⟩
    obtain ⟨nt, R', e, t⟩ := afeed_t ((p0, b0) :: v1 :: rest) hval hnc (by simp) (List.take ((v1 :: rest).length - 1) (v1 :: rest))
      (Adv.begin Adv.new p0 0) (0 + 1) hpos (by rw [hlen]; simp) (by omega) hw
    rw [hlen, hpe] at e
    have erun : Adv.run ((p0, b0) :: v1 :: rest) = nt := by
      simp only [Adv.run, foldl_zipIdx_eq_afeed]
      rw [e]; simp [Adv.begin, Basic.begin]
    have ereg : RgA ((p0, b0) :: v1 :: rest) (Adv.begin Adv.new p0 0) (0 + 1) = InsidePoly ((p0, b0) :: v1 :: rest) := by
      unfold RgA Rg3 RgC InsidePoly leftChain rightChain
      simp [Adv.begin, Basic.begin, C02c.botPos, posOf]
    rw [erun, ← ereg]
    exact ⟨R', t⟩

end Geometry

end Lyon.C02f
