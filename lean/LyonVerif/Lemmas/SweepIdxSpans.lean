/-
  Index validity, span management and `process_edges_above`:
  `mark`, `emitTris`, `spanVertex`, `Spans::begin_span`, `Spans::end_span`, `splitEdge` (the
  vertex-on-edge split) and `process_edges_above` preserve `Inv1 n` — on success and on failure.

  Spec lemmas carry the bound `n` as an explicit argument and are passed to `mvcgen` as local
  hypotheses instantiated at `n` (a schematic `n` would be instantiated by `assumption` with
  whatever `Nat` is in scope).
-/
import LyonVerif.Lemmas.SweepIdxInv

set_option linter.unusedSectionVars false
set_option linter.unusedVariables false
set_option linter.unusedSimpArgs false
set_option mvcgen.warning false

namespace Lyon.SweepIdx
open Lyon Lyon.Scalar Lyon.Mono Lyon.Sweep Lyon.EQ
open Std.Do

variable {α : Type} [Scalar α] [Wide α]

theorem mark_spec (n b : Nat) : ⦃fun s => ⌜Inv1 n s⌝⦄ (mark b : SM α Unit) ⦃keeps n⦄ := by
  unfold mark
  mvcgen
  rename_i s h t
  exact h.frame' rfl rfl rfl rfl rfl

theorem emitTris_spec (n : Nat) (tris : List Mono.Tri) :
    ⦃fun s => ⌜Inv1 n s ∧ TrisLt n tris⌝⦄ (emitTris tris : SM α Unit) ⦃keeps n⦄ := by
  unfold emitTris
  mvcgen
  rename_i s h _
  exact ⟨⟨h.1.1.nv, outOk_push_tris h.1.1.out tris h.2, h.1.1.active, h.1.1.spans⟩, h.1.2⟩

theorem spans_set_ok {n : Nat} {spans : Array (Option (Adv α))} (h : ∀ t, some t ∈ spans → AdvOk n t)
    (k : Nat) (v : Option (Adv α)) (hv : ∀ t, v = some t → AdvOk n t) :
    ∀ t, some t ∈ spans.setIfInBounds k v → AdvOk n t := by
  intro t ht
  rcases mem_setIfInBounds ht with e | e
  · exact hv t e.symm
  · exact h t e

theorem spanVertex_spec (n : Nat) (i : Int) (pos : P α) (id : Nat) (l : Bool) :
    ⦃fun s => ⌜Inv1 n s ∧ id < n⌝⦄ (spanVertex i pos id l : SM α Unit) ⦃keeps n⦄ := by
  unfold spanVertex
  mvcgen
  · exact (‹Inv1 n _ ∧ _›).1
  · exact (‹Inv1 n _ ∧ _›).1
  · rename_i s h k _ t ht
    refine h.1.withSpans rfl rfl ?_ rfl rfl
    apply spans_set_ok h.1.1.spans
    intro t' e
    cases e
    exact adv_vertex_ok (h.1.1.spans t (mem_of_getD_eq_some ht)) pos id l h.2

theorem beginSpan_spec (n : Nat) (i : Int) (pos : P α) (id : Nat) :
    ⦃fun s => ⌜Inv1 n s ∧ id < n⌝⦄ (beginSpan i pos id : SM α Unit) ⦃keeps n⦄ := by
  unfold beginSpan
  mvcgen
  · rename_i s h _ _
    refine h.1.withSpans rfl rfl ?_ rfl rfl
    intro t ht
    simp only [Array.mem_append, Array.mem_push] at ht
    rcases ht with (ht | ht) | ht
    · exact h.1.1.spans t (mem_of_mem_extract ht)
    · cases ht
      exact adv_begin_ok _ pos id h.2
    · exact h.1.1.spans t (mem_of_mem_extract ht)
  · exact (‹Inv1 n _ ∧ _›).1

theorem endSpan_spec (n : Nat) (i : Int) (pos : P α) (id : Nat) :
    ⦃fun s => ⌜Inv1 n s ∧ id < n⌝⦄ (endSpan i pos id : SM α Unit) ⦃keeps n⦄ := by
  unfold endSpan
  have h1 := emitTris_spec (α := α) n
  mvcgen [h1]
  · exact (‹Inv1 n _ ∧ _›).1
  · exact (‹Inv1 n _ ∧ _›).1
  · rename_i s h k _ t ht b pooled
    have hb := adv_end_ok (h.1.1.spans t (mem_of_getD_eq_some ht)) pos id h.2
    refine ⟨h.1.withSpans rfl rfl ?_ rfl rfl, hb.tris⟩
    apply spans_set_ok h.1.1.spans
    intro t' e
    cases e

theorem splitEdge_spec (n : Nat) (ei : Nat) :
    ⦃fun s => ⌜Inv1 n s⌝⦄ (splitEdge ei : SM α Unit) ⦃keeps n⦄ := by
  unfold splitEdge
  mvcgen
  rename_i s h hlt _ _ _ _ _ _ _
  refine h.frame rfl rfl rfl rfl ?_
  exact active_set_ok h.1.active _ _ (h.1.active s.active[ei] (Array.getElem_mem hlt))

theorem processEdgesAbove_spec (n : Nat) (scan : Scan) :
    ⦃fun s => ⌜Inv1 n s⌝⦄ (processEdgesAbove scan : SM α Scan) ⦃keeps n⦄ := by
  unfold processEdgesAbove
  have h1 := spanVertex_spec (α := α) n
  have h2 := endSpan_spec (α := α) n
  have h3 := splitEdge_spec (α := α) n
  mvcgen [h1, h2, h3] invariants
  · post⟨fun _ s => ⌜Inv1 n s⌝, fun _ s => ⌜Inv1 n s⌝⟩
  · post⟨fun _ s => ⌜Inv1 n s⌝, fun _ s => ⌜Inv1 n s⌝⟩
  · post⟨fun _ s => ⌜Inv1 n s⌝, fun _ s => ⌜Inv1 n s⌝⟩
  with skip
  · exact ⟨by assumption, Inv1.cur (by assumption)⟩
  · exact ⟨by assumption, Inv1.cur (by assumption)⟩
  · rename_i s h t
    refine h.withSpans rfl rfl ?_ rfl rfl
    intro t' ht'
    exact h.1.spans t' (Array.mem_filter.mp ht').1
  · rename_i s h hlt e e'
    refine h.frame rfl rfl rfl rfl ?_
    exact active_set_ok h.1.active _ _ h.2
