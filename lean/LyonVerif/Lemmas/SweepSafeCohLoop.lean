/-
  SPAN / WINDING COHERENCE, part 8: `process_events` and the loop: a run without scan error in which
  the winding is conserved at every event never panics.
-/
import LyonVerif.Lemmas.SweepSafeCohEvent

set_option linter.unusedSectionVars false
set_option linter.unusedVariables false
set_option linter.unusedSimpArgs false
set_option mvcgen.warning false

namespace Lyon.SweepCoh
open Lyon Lyon.Scalar Lyon.Mono Lyon.Sweep Lyon.EQ Lyon.SweepSafe
open Std.Do

variable {α : Type} [Scalar α] [Wide α]
variable {A : List String}

/-- the number of spans after an event with outgoing windings `W` -/
def Zf (s0 : St α) (scan : Scan) (W : List Int) : Nat :=
  s0.spans.size - cntIn s0 scan.aboveStart scan.aboveEnd + bi scan.splitEvent +
    gapsFrom s0.rule (Wat s0 scan.aboveStart) true W

/-- `update_active_edges` with the pending windings read off the state -/
theorem updateActiveEdges_relS (s0 : St α) (scan : Scan) (hok : ScanOk s0 scan) (hG : ScanAgree s0 scan)
    (hUp : NextUpOk α ∨ mAssert ∈ A) (sc : Scan) :
    ⦃fun s => ⌜sc = aboveResult scan ∧ RelZ s0 scan (Zf s0 scan (bwOf s.below)) s⌝⦄
    (updateActiveEdges sc : SM α Unit)
    ⦃safePost A fun _ s' => ∃ W, NewSt s0 scan (Zf s0 scan W) W s'⦄ := by
  intro s hs
  have h := updateActiveEdges_relU (A := A) s0 scan hok hG (Zf s0 scan (bwOf s.below)) (bwOf s.below) hUp sc
  have h1 := h s ⟨hs.1, ⟨hs.2, rfl⟩⟩
  refine (wp (updateActiveEdges sc : SM α Unit)).mono _ _ ?_ s h1
  exact ⟨fun _ s' hs' => ⟨_, hs'⟩, fun e s' hs' => hs', trivial⟩

/-- the three steps of `process_events` after the scan -/
def evBody (scan : Scan) : SM α (Option IErr) := do
  let scan ← processEdgesAbove scan
  processEdgesBelow scan
  updateActiveEdges scan
  return none

theorem ite_bind_unit {β : Type} (c : Prop) [Decidable c] (m : SM α Unit) (f : Unit → SM α β) :
    (if c then (do let r ← m; f r) else f ()) = (do (if c then m else pure ()); f ()) := by
  split <;> simp

theorem processEvents_eq : (processEvents : SM α (Option IErr)) = (do
    let s ← get
    match scanActiveEdges s with
    | .error e => return some e
    | .ok scan => do
      if scan.mergeEvent then mark 2
      if scan.splitEvent then mark 3
      if scan.mergeSplitEvent then mark 4
      if s.active.any (·.isMerge) then
        if (s.active.extract 0 scan.aboveStart).any (·.isMerge) then mark 17
        if (s.active.extract scan.aboveStart scan.aboveEnd).any (·.isMerge) then mark 18
      evBody scan) := by
  unfold processEvents evBody
  rfl


theorem evBody_rel (s0 : St α) (scan : Scan) (hok : ScanOk s0 scan) (hsem : ScanSem s0 scan) (hc : Coh s0)
    (hG : ScanAgree s0 scan) (hUp : NextUpOk α ∨ mAssert ∈ A) :
    ⦃fun s => ⌜Rel0 s0 s⌝⦄ (evBody scan : SM α (Option IErr))
    ⦃safePost A fun r s' => r = none ∧ ∃ W, NewSt s0 scan (Zf s0 scan W) W s'⦄ := by
  unfold evBody
  have h1 := processEdgesAbove_rel (α := α) (A := A) s0 scan hok hsem hc
  have h2 := processEdgesBelow_rel (α := α) (A := A) s0 scan hok hsem hc hG
  have h3 := updateActiveEdges_relS (α := α) (A := A) s0 scan hok hG hUp
  mvcgen [h1, h2, h3]
  all_goals first
    | assumption
    | (intro _ h; exact h)
    | exact ⟨(‹_ = aboveResult scan ∧ _›).1, ‹RelZ s0 scan _ _›⟩
    | exact ⟨rfl, by assumption⟩

theorem of_scan_both {s : St α} {scan : Scan} (h : scanActiveEdges s = .ok scan) :
    ScanOk s scan ∧ ScanSem s scan := by
  have h1 := scanActiveEdges_sem s
  rw [h] at h1
  have h2 : (Except.ok scan : Except IErr Scan) = pure scan := rfl
  rw [h2] at h1
  simpa [Triple, WP.pure] using h1

/-- what `process_events` does to a coherent state `s1` -/
def EvPost (s1 : St α) (r : Option IErr) (s' : St α) : Prop :=
  match scanActiveEdges s1 with
  | .ok scan => r = none ∧ ∃ W, NewSt s1 scan (Zf s1 scan W) W s'
  | .error e => r = some e ∧ s'.spans = s1.spans ∧ s'.active = s1.active ∧ s'.rule = s1.rule ∧
      s'.tolerance = s1.tolerance

set_option maxHeartbeats 1000000 in
theorem processEvents_coh_at (s1 : St α) (hc : Coh s1)
    (hG : ∀ scan, scanActiveEdges s1 = .ok scan → ScanAgree s1 scan)
    (hUp : NextUpOk α ∨ mAssert ∈ A) :
    ⦃fun s => ⌜s = s1⌝⦄ (processEvents : SM α (Option IErr)) ⦃safePost A fun r s' => EvPost s1 r s'⦄ := by
  rw [processEvents_eq]
  have hb := fun scan hok hsem hg => evBody_rel (α := α) (A := A) s1 scan hok hsem hc hg hUp
  mvcgen [mark, hb]
  all_goals
    have heq := ‹(_ : St α) = s1›
    subst heq
    first
    | (have hx := ‹scanActiveEdges _ = Except.error _›
       unfold EvPost; rw [hx]; exact ⟨rfl, rfl, rfl, rfl, rfl⟩)
    | exact (of_scan_both ‹scanActiveEdges _ = Except.ok _›).1
    | exact (of_scan_both ‹scanActiveEdges _ = Except.ok _›).2
    | exact hG _ ‹scanActiveEdges _ = Except.ok _›
    | exact ⟨rfl, rfl, rfl, rfl⟩
    | (have hx := ‹scanActiveEdges _ = Except.ok _›
       intro hr hW
       unfold EvPost; rw [hx]; exact ⟨hr, hW⟩)


/-- the weakest precondition of an `SM` program at a state is its postcondition at the result of the run -/
theorem wp_iff_run {β : Type} (x : SM α β) (Q : β → St α → Prop) (E : Fail → St α → Prop) (s : St α) :
    (wp⟦x⟧ (post⟨fun r s => ⌜Q r s⌝, fun f s => ⌜E f s⌝⟩) s).down ↔
    (match (x.run.run s : Except Fail β × St α) with
      | (.ok r, s') => Q r s'
      | (.error f, s') => E f s') := by
  have h2 : (wp⟦(x.run.run s : Id (Except Fail β × St α))⟧ (PostCond.noThrow fun r =>
      ⌜match r with
        | (.ok r, s') => Q r s'
        | (.error f, s') => E f s'⌝)).down ↔ (wp⟦x⟧ (post⟨fun r s => ⌜Q r s⌝, fun f s => ⌜E f s⌝⟩) s).down := by
    rw [WP.StateT_run, WP.ExceptT_run]
    rfl
  rw [← h2]
  rfl

end Lyon.SweepCoh
