/-
  C07b - error recovery preserves the record invariant: `sort_active_edges` (the new active list
  holds edges of the old one only) and `recover_from_error`; neither touches the queue.

  The active edges travel through local variables of these two functions while the state changes
  (coverage marks, spans), so the specs are first proved relative to two logical variables fixed at
  entry - a parameter predicate `W` below the current `Uc U cov` and a lower bound `n0` of the number
  of stored records (`SInvW`) - in which "this edge is fine" (`AOk W n0 e`) does not mention the state.
-/
import LyonVerif.Lemmas.SweepRepActive

set_option linter.unusedSectionVars false
set_option linter.unusedVariables false
set_option linter.unusedSimpArgs false
set_option mvcgen.warning false

namespace Lyon.SweepRep
open Lyon Lyon.Scalar Lyon.Mono Lyon.Sweep Lyon.EQ
open Std.Do

variable {α : Type} [Scalar α] [Wide α]

theorem swapBack_all {P : ActiveEdge α → Prop} (rule : Slab.Rule) : ∀ (f : Nat) (a : Array (ActiveEdge α)) (idx : Nat) (w : Int)
    (a' : Array (ActiveEdge α)), (∀ e ∈ a, P e) → swapBack rule f a idx w = .ok a' → ∀ e ∈ a', P e
  | 0, a, idx, w, a', h, e => by simp [swapBack] at e
  | f+1, a, idx, w, a', h, e => by
    simp only [swapBack] at e
    split at e
    · cases e
    · split at e
      · rename_i x y hx hy
        have h' : ∀ e ∈ (a.setIfInBounds idx y).setIfInBounds (idx-1) x, P e :=
          all_set (all_set h _ _ (h y (SweepIdx.mem_of_getElem? hy))) _ _ (h x (SweepIdx.mem_of_getElem? hx))
        split at e
        · cases e; exact h'
        · exact swapBack_all rule f _ _ _ a' h' e
      · cases e

theorem swapBack_all' {P : ActiveEdge α → Prop} {rule : Slab.Rule} {f : Nat} {a a' : Array (ActiveEdge α)} {idx : Nat} {w : Int}
    (he : swapBack rule f a idx w = .ok a') (h : ∀ e ∈ a, P e) : ∀ e ∈ a', P e :=
  swapBack_all rule f a idx w a' h he

variable (IdP : Nat → Nat → Prop) (U : α → Prop)

/-- the invariant, plus: `W` is below the current `Uc U cov`, at least `n0` records are stored -/
structure SInvW (W : α → Prop) (n0 : Nat) (s : St α) : Prop where
  inv : SInv IdP U s
  w : ∀ t, W t → Uc U s.cov t
  n : n0 ≤ s.q.edgeData.size
  act : ∀ e ∈ s.active, AOk W n0 e

variable {IdP U}

theorem SInvW.frame0 {W : α → Prop} {n0 : Nat} {s s' : St α} (h : SInvW IdP U W n0 s) (hq : s'.q = s.q)
    (hc : s'.curEvent = s.curEvent) (hcov : CovLe s.cov s'.cov) (ha : s'.active = s.active) (hb : s'.below = s.below)
    (ho : ∀ pos recs, Emit.vertex pos recs ∈ s'.out → Emit.vertex pos recs ∈ s.out) : SInvW IdP U W n0 s' :=
  ⟨h.inv.frame hq hc hcov (ha ▸ h.inv.active) (hb ▸ h.inv.below) ho, fun t ht => Uc.mono hcov (h.w t ht), hq ▸ h.n,
    ha ▸ h.act⟩

theorem SInvW.aok {W : α → Prop} {n0 : Nat} {s : St α} (h : SInvW IdP U W n0 s) {e : ActiveEdge α} (he : AOk W n0 e) :
    AOk (Uc U s.cov) s.q.edgeData.size e := he.mono h.w h.n

/-- the active list is replaced by edges that were fine at entry -/
theorem SInvW.setActive {W : α → Prop} {n0 : Nat} {s s' : St α} (h : SInvW IdP U W n0 s) {act : Array (ActiveEdge α)}
    (hact : ∀ e ∈ act, AOk W n0 e) (hq : s'.q = s.q) (hc : s'.curEvent = s.curEvent) (hcov : CovLe s.cov s'.cov)
    (ha : s'.active = act) (hb : s'.below = s.below) (ho : s'.out = s.out) : SInvW IdP U W n0 s' :=
  ⟨h.inv.frame hq hc hcov (ha ▸ fun e he => h.aok (hact e he)) (hb ▸ h.inv.below) (fun _ _ x => ho ▸ x),
    fun t ht => Uc.mono hcov (h.w t ht), hq ▸ h.n, ha ▸ hact⟩

theorem swapLast_all {P : ActiveEdge α → Prop} (a : Array (ActiveEdge α)) (len : Nat) (h : ∀ e ∈ a, P e) :
    ∀ e ∈ (match a[len-1]?, a[len-2]? with
      | some l, some p =>
        if (decide (len > 1) && l.isMerge) = true then (a.setIfInBounds (len-1) p).setIfInBounds (len-2) l else a
      | _, _ => a), P e := by
  split
  · rename_i l p hl hp
    split
    · exact all_set (all_set h _ _ (h p (SweepIdx.mem_of_getElem? hp))) _ _ (h l (SweepIdx.mem_of_getElem? hl))
    · exact h
  · exact h

variable (IdP U)

abbrev keepsW {β : Type} (W : α → Prop) (n0 : Nat) : PostCond β (SMps α) :=
  post⟨fun _ s => ⌜SInvW IdP U W n0 s⌝, fun _ s => ⌜SInvW IdP U W n0 s⌝⟩

/-- a step that keeps `SInvW W n0` for all `W`, `n0` keeps `SInv` -/
theorem lift_specW {β : Type} {x : SM α β}
    (h : ∀ W n0, ⦃fun s => ⌜SInvW IdP U W n0 s⌝⦄ x ⦃keepsW IdP U W n0⦄) :
    ⦃fun s => ⌜SInv IdP U s⌝⦄ x ⦃keepsR IdP U⦄ := by
  intro s hs
  have h1 := h (Uc U s.cov) s.q.edgeData.size s ⟨hs, fun _ x => x, Nat.le_refl _, hs.active⟩
  refine (wp x).mono _ _ ?_ s h1
  exact ⟨fun a s' hs' => hs'.inv, fun e s' hs' => hs'.inv, trivial⟩

open Lean Elab Tactic Meta in
/-- `try_w tac`: as `try_sinv`, for hypotheses `h : SInvW IdP U W n0 s` or `h : SInvW IdP U W n0 s ∧ _`; the
hypothesis itself is available as `hW` -/
elab "try_w " t:tacticSeq : tactic => do
  let g ← getMainGoal
  let rest := (← getGoals).drop 1
  let decls ← g.withContext do
    let lctx ← getLCtx
    pure ((lctx.decls.toList.filterMap id).reverse)
  for d in decls do
    if d.isImplementationDetail then continue
    let ty ← g.withContext do whnfR (← instantiateMVars d.type)
    let ok : Bool :=
      ty.isAppOf ``SInvW || (ty.isAppOf ``And && (ty.getArg! 0).isAppOf ``SInvW)
    if !ok then continue
    let s ← saveState
    try
      let g1 ← g.assert `hW ty d.toExpr
      let (_, g2) ← g1.intro1P
      setGoals [g2]
      Term.withoutErrToSorry (withoutRecover (evalTactic t))
      unless (← getGoals).isEmpty do throwError "try_w: goals remain"
      setGoals rest
      return
    catch _ => s.restore
  throwError "try_w: no hypothesis `SInvW IdP U W n0 s` works"

theorem mark_specW (W : α → Prop) (n0 b : Nat) :
    ⦃fun s => ⌜SInvW IdP U W n0 s⌝⦄ (mark b : SM α Unit) ⦃keepsW IdP U W n0⦄ := by
  unfold mark
  mvcgen
  have h := ‹SInvW IdP U W n0 _›
  exact h.frame0 rfl rfl (by cov_le) rfl rfl (fun _ _ x => x)

theorem emitTris_specW (W : α → Prop) (n0 : Nat) (tris : List Mono.Tri) :
    ⦃fun s => ⌜SInvW IdP U W n0 s⌝⦄ (emitTris tris : SM α Unit) ⦃keepsW IdP U W n0⦄ := by
  unfold emitTris
  mvcgen
  have h := ‹SInvW IdP U W n0 _›
  exact h.frame0 rfl rfl (by cov_le) rfl rfl (fun _ _ hm => tris_vertex_mem tris hm)

theorem beginSpan_specW (W : α → Prop) (n0 : Nat) (i : Int) (pos : P α) (id : Nat) :
    ⦃fun s => ⌜SInvW IdP U W n0 s⌝⦄ (beginSpan i pos id : SM α Unit) ⦃keepsW IdP U W n0⦄ := by
  unfold beginSpan
  mvcgen
  all_goals first
    | assumption
    | (have h := ‹SInvW IdP U W n0 _›
       exact h.frame0 rfl rfl (by cov_le) rfl rfl (fun _ _ x => x))

theorem sortActiveEdges_specW (W : α → Prop) (n0 : Nat) :
    ⦃fun s => ⌜SInvW IdP U W n0 s⌝⦄ (sortActiveEdges : SM α Unit) ⦃keepsW IdP U W n0⦄ := by
  unfold sortActiveEdges
  strip_mdata
  have h1 := mark_specW (α := α) IdP U W n0
  mvcgen [h1] invariants
  · post⟨fun _ s => ⌜SInvW IdP U W n0 s⌝, fun _ s => ⌜SInvW IdP U W n0 s⌝⟩
  · post⟨fun r s => ⌜SInvW IdP U W n0 s ∧ ∀ e ∈ r.2, AOk W n0 e⌝, fun _ s => ⌜SInvW IdP U W n0 s⌝⟩
  · post⟨fun r s => ⌜SInvW IdP U W n0 s ∧ ∀ e ∈ r.2.1, AOk W n0 e⌝, fun _ s => ⌜SInvW IdP U W n0 s⌝⟩
  with skip
  all_goals first
    | assumption
    | set_option hygiene false in try_w (exact hW.1)
    | set_option hygiene false in try_w (exact ⟨hW, all_empty⟩)
    | set_option hygiene false in try_w (
        refine ⟨hW.1, all_push hW.2 _ ?_⟩
        set_option hygiene false in try_w (exact all_getElem? hW.act ‹_[_]? = some _›))
    | set_option hygiene false in try_w (
        refine ⟨hW, swapBack_all' ‹swapBack _ _ _ _ _ = Except.ok _› ?_⟩
        exact (‹SInvW IdP U W n0 _ ∧ ∀ e ∈ (Prod.fst _), AOk W n0 e›).2)
    | set_option hygiene false in try_w (
        exact hW.1.setActive hW.2 rfl rfl (by cov_le) rfl rfl rfl)

theorem recoverFromError_specW (W : α → Prop) (n0 : Nat) :
    ⦃fun s => ⌜SInvW IdP U W n0 s⌝⦄ (recoverFromError : SM α Unit) ⦃keepsW IdP U W n0⦄ := by
  unfold recoverFromError
  strip_mdata
  have h1 := mark_specW (α := α) IdP U W n0
  have h2 := sortActiveEdges_specW (α := α) IdP U W n0
  have h3 := beginSpan_specW (α := α) IdP U W n0
  have h4 := emitTris_specW (α := α) IdP U W n0
  mvcgen [h1, h2, h3, h4] invariants
  · post⟨fun _ s => ⌜SInvW IdP U W n0 s⌝, fun _ s => ⌜SInvW IdP U W n0 s⌝⟩
  · post⟨fun _ s => ⌜SInvW IdP U W n0 s⌝, fun _ s => ⌜SInvW IdP U W n0 s⌝⟩
  · post⟨fun _ s => ⌜SInvW IdP U W n0 s⌝, fun _ s => ⌜SInvW IdP U W n0 s⌝⟩
  · post⟨fun _ s => ⌜SInvW IdP U W n0 s⌝, fun _ s => ⌜SInvW IdP U W n0 s⌝⟩
  with skip
  all_goals first
    | assumption
    | (have h := ‹SInvW IdP U W n0 _›
       exact h.frame0 rfl rfl (by cov_le) rfl rfl (fun _ _ x => x))
    | set_option hygiene false in try_w (
        refine hW.setActive ?_ rfl rfl (by cov_le) rfl rfl rfl
        set_option hygiene false in try_w (exact swapLast_all _ _ hW.act))

theorem sortActiveEdges_spec :
    ⦃fun s => ⌜SInv IdP U s⌝⦄ (sortActiveEdges : SM α Unit) ⦃keepsR IdP U⦄ :=
  lift_specW IdP U (sortActiveEdges_specW IdP U)

theorem recoverFromError_spec :
    ⦃fun s => ⌜SInv IdP U s⌝⦄ (recoverFromError : SM α Unit) ⦃keepsR IdP U⦄ :=
  lift_specW IdP U (recoverFromError_specW IdP U)

end Lyon.SweepRep
