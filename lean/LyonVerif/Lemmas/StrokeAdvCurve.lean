/-
  Advancement bookkeeping of the window for ARBITRARY endpoints (flattened curve points included),
  fixed width: whichever branch `fixed_width_step_impl` takes (`flattened_step` on the fast path of a
  flattened curve, `compute_join_side_positions_fixed_width` otherwise), the join gets
  `prev.advancement + |chord|` when its advancement is still NaN.  Fed with endpoints that wait for
  their advancement (what `begin` / `line_to` / `quadratic_bezier_to` / `cubic_bezier_to` create) and
  are not merged, the window therefore accumulates the chord lengths: `chordSum`.
-/
import LyonVerif.Lemmas.StrokeAdvMerge
import LyonVerif.Lemmas.StrokeIdxClipRun

set_option linter.unusedSectionVars false
set_option linter.unusedVariables false

namespace Lyon.C05c
open Lyon Scalar Lyon.Stroke Lyon.Stroke.Full Lyon.C05 Lyon.C05b

section
variable {α : Type} [Scalar α] [Transc α]

/-- the advancement of the last point of the polyline `p, q₁, q₂, …` when `p` has advancement `a` -/
def chordSum (a : α) : P α → List (P α) → α
  | _, [] => a
  | p, q :: r => chordSum (a + len (q - p)) q r

/-- consecutive points are not within the merge threshold -/
def ApartL (thr : α) : P α → List (P α) → Prop
  | _, [] => True
  | p, q :: r => pointsAreTooClose thr p q = false ∧ ApartL thr q r

/-- the advancement part of the join of `fixed_width_step_impl`, both branches -/
theorem fwJoin_adv_any (e : Env α) (st : St α) (prev join next : EP α) :
    ∃ j' n' o', fwJoin e st prev join next = (commitSt st prev j' o', n')
      ∧ j'.advancement = joinAdv prev join ∧ j'.position = join.position ∧ n'.position = next.position
      ∧ (n'.advancement = next.advancement
         ∨ n'.advancement = (if Transc.isNaN next.advancement then joinAdv prev join + len (next.position - join.position)
              else next.advancement)) := by
  by_cases hfp : fastPath prev join next = true
  · refine ⟨_, _, _, by unfold fwJoin; simp only []; rw [if_pos hfp]; rfl, ?_, ?_, ?_, Or.inr ?_⟩
    · unfold joinAdv flattenedStep; simp only []; split_ifs <;> rfl
    · unfold flattenedStep; simp only []; split_ifs <;> rfl
    · unfold flattenedStep; simp only []; split_ifs <;> rfl
    · unfold joinAdv flattenedStep; simp only []; split_ifs <;> rfl
  · obtain ⟨a1, _⟩ := joinSidesFw_adv e.ix prev join next e.o.miterLimit join.halfWidth
    have u1 := joinSidesFw_upd e.ix prev join next e.o.miterLimit join.halfWidth
    generalize hj1 : joinSidesFw e.ix prev join next e.o.miterLimit join.halfWidth = j1 at a1 u1
    have hdd : ∃ dd : VData α, dd = { baseVertex join.src join.position join.halfWidth nan with
        advancement := j1.advancement } := ⟨_, rfl⟩
    obtain ⟨dd, edd⟩ := hdd
    obtain ⟨_, b2, _⟩ := baseVertices_verts j1 dd st.out
    obtain ⟨_, c2, _⟩ := baseVertices_emits j1 dd st.out
    refine ⟨(baseVertices j1 dd st.out).1, next,
      edgeAndJoin e.o.tolerance st.buf.count prev (baseVertices j1 dd st.out).1 dd (baseVertices j1 dd st.out).2,
      ?_, by rw [c2, a1]; rfl, by rw [b2, u1.pos], rfl, Or.inl rfl⟩
    unfold fwJoin; simp only []; rw [if_neg hfp]
    show _ = _
    simp only [show (baseVertex join.src join.position join.halfWidth nan : VData α).halfWidth = join.halfWidth from rfl, hj1]
    rw [edd]; rfl

/-- one kept point: the window's pending advancement grows by the chord -/
theorem fwStep_adv_any {e : Env α} (hnan : Transc.isNaN (nan : α) = true) {st : St α} (hwf : WF st.buf) {a b : EP α}
    (hab : st.buf.lastTwo = some (a, b))
    (hadv : b.advancement = nan ∨ b.advancement = a.advancement + len (b.position - a.position))
    (next : EP α) (hn : next.advancement = nan)
    (hfar : pointsAreTooClose e.thr b.position next.position = false) :
    ∃ b' n', (fwStep e st next).1.buf.lastTwo = some (b', n') ∧ WF (fwStep e st next).1.buf
      ∧ b'.position = b.position ∧ n'.position = next.position
      ∧ b'.advancement = a.advancement + len (b.position - a.position)
      ∧ (n'.advancement = nan ∨ n'.advancement = b'.advancement + len (n'.position - b'.position)) := by
  have hlast := hwf.lastTwo_last _ _ hab
  have hclose : st.tooClose e.thr next.position = false := by rw [tooClose_eq hlast]; exact hfar
  obtain ⟨j', n', o', ej, h1, h2, h3, h4⟩ := fwJoin_adv_any e st a b next
  rw [fwStep_eq_join hclose hab, ej]
  have hc2 := WF.lastTwo_count _ _ hab
  obtain ⟨b1, hb1, hwf1, _, hl1, _⟩ := hwf.replaceLast (by omega) j'
  obtain ⟨b2, hb2, hwf2, _, _, hlt2⟩ := hwf1.push n'
  have e2 : ((commitSt st a j' o').push n').buf = b2 := by simp [commitSt, St.push, St.setLast, hb1, hb2]
  have hA := joinAdv_eq hnan hadv
  refine ⟨j', n', by rw [e2]; exact hlt2 _ hl1, by rw [e2]; exact hwf2, h2, h3, by rw [h1, hA], ?_⟩
  rcases h4 with h4 | h4
  · left; rw [h4, hn]
  · right
    rw [h4, hn, hnan, h1, h3, h2]; rfl

/-- **the window accumulates the chord lengths**: endpoints that wait for their advancement and are
not merged (in particular the points a flattened curve contributes) leave the window with
`a'.advancement + |b' − a'| = chordSum …`: the advancement the last point fed gets as soon as it is
the middle of a join or the end of the sub-path -/
theorem feed_adv_any {e : Env α} (hnan : Transc.isNaN (nan : α) = true) (l : List (EP α)) :
    ∀ (st : St α) (a b : EP α), WF st.buf → st.buf.lastTwo = some (a, b) →
      (b.advancement = nan ∨ b.advancement = a.advancement + len (b.position - a.position)) →
      (∀ q ∈ l, q.advancement = nan) → ApartL e.thr b.position (l.map (·.position)) →
      ∃ a' b', (l.foldl (fun s q => (fwStep e s q).1) st).buf.lastTwo = some (a', b')
        ∧ WF (l.foldl (fun s q => (fwStep e s q).1) st).buf
        ∧ (b'.advancement = nan ∨ b'.advancement = a'.advancement + len (b'.position - a'.position))
        ∧ b'.position = (b.position :: l.map (·.position)).getLast (by simp)
        ∧ a'.advancement + len (b'.position - a'.position)
            = chordSum (a.advancement + len (b.position - a.position)) b.position (l.map (·.position)) := by
  induction l with
  | nil => intro st a b hwf hab hadv _ _; exact ⟨a, b, hab, hwf, hadv, rfl, rfl⟩
  | cons q r ih =>
    intro st a b hwf hab hadv hq hap
    obtain ⟨hfar, hap'⟩ := hap
    obtain ⟨b1, n1, h1, h2, h3, h4, h5, h6⟩ := fwStep_adv_any hnan hwf hab hadv q (hq q (by simp)) hfar
    have hap'' : ApartL e.thr n1.position (r.map (·.position)) := by rw [h4]; exact hap'
    obtain ⟨a', b', g1, g2, g3, g4, g5⟩ := ih _ b1 n1 h2 h1 h6 (fun x hx => hq x (by simp [hx])) hap''
    refine ⟨a', b', g1, g2, g3, ?_, ?_⟩
    · rw [g4]; simp [h4]
    · rw [g5, h5, h4, h3]; rfl

end
end Lyon.C05c
