/-
  C06b, part 7: assembly.  The regime predicate, the corner shifts of every edge quad as functions of the
  edge index, and `edge_quads`: in the regime the run emits, for every edge `k`, the two triangles
  over `pt k ∓ n + t·hw·a`, `pt (k+1) ± n + t·hw·b` with the shifts `sA0 sA1 sB0 sB1`.
-/
import LyonVerif.Lemmas.StrokeCoverJoin
import LyonVerif.Lemmas.StrokeCoverEdge

set_option linter.unusedSectionVars false
set_option linter.unusedVariables false

namespace Lyon.C06b
open Lyon Scalar Lyon.Stroke Lyon.Stroke.Full Lyon.C05 Lyon.C05b Lyon.C05c Lyon.C06
open Lyon.StrokeQuad (lineIntersection)

section
variable {K : Type} [Field K] [LinearOrder K] [IsStrictOrderedRing K] [Transc K]

/-- how far a cap moves the side points along the edge, in half widths: 1 (square), 0 (butt) -/
def capU (cap : LineCap) : K :=
  match cap with
  | .square => 1
  | _ => 0

theorem capShift_eq (cap : LineCap) (hw : K) : capShift cap hw = hw * capU cap := by
  cases cap <;> simp [capShift, capU]

theorem capU_nonneg (cap : LineCap) : (0 : K) ≤ capU cap := by
  cases cap <;> simp [capU]

/-- the positive / negative side of the join at `pt i` has a single vertex -/
noncomputable def psAt (e : Env K) (pt : Nat → P K) (i : Nat) : Bool := (jEP e pt i).pos.single.isSome
noncomputable def nsAt (e : Env K) (pt : Nat → P K) (i : Nat) : Bool := (jEP e pt i).neg.single.isSome

/-- shift (in half widths, along the edge) of the start corners of edge `k`: negative / positive side -/
noncomputable def sA0 (e : Env K) (pt : Nat → P K) (k : Nat) : K :=
  if k = 0 then -capU e.o.startCap else (if nsAt e pt k then -jtau pt (k - 1) else -lamAt e pt k)
noncomputable def sA1 (e : Env K) (pt : Nat → P K) (k : Nat) : K :=
  if k = 0 then -capU e.o.startCap else (if psAt e pt k then jtau pt (k - 1) else -lamAt e pt k)
/-- shift of the end corners of edge `k` of a polyline with `n` edges -/
noncomputable def sB0 (e : Env K) (pt : Nat → P K) (n k : Nat) : K :=
  if k + 1 = n then capU e.o.endCap else (if nsAt e pt (k + 1) then jtau pt k else lamAt e pt (k + 1))
noncomputable def sB1 (e : Env K) (pt : Nat → P K) (n k : Nat) : K :=
  if k + 1 = n then capU e.o.endCap else (if psAt e pt (k + 1) then -jtau pt k else lamAt e pt (k + 1))

/-- `|tan(turn/2)|` at the point `i` of a polyline with `n` edges; `0` at the two ends -/
noncomputable def tauAbs (pt : Nat → P K) (n i : Nat) : K := if i = 0 ∨ n ≤ i then 0 else |jtau pt (i - 1)|

/-- **the no-fold regime** of the open polyline `pt 0 … pt n` (`n` edges) for the stroke environment `e`
(line width `2·e.hwFw`, `Line::intersection` guard `eps`): a conjunction of finitely many comparisons
of numbers the model computes from the input —
* no point is merged with its predecessor (`points_are_too_close`, the model's own test);
* every edge is longer than the determinant guard `eps` of `Line::intersection`;
* at every interior point the first guard of `compute_normal` is not taken (`|t0 + t1|² ≥ 1e-4`: no U-turn)
  and the fold test of `compute_join_side_positions_fixed_width` (the model's own) answers "no fold";
* every edge is at least `w/2 · (|tan(θ_a/2)| + |tan(θ_b/2)| + 1)` long, `θ_a`, `θ_b` the turn angles at
  its two ends (`0` at a cap): neighbouring joins do not interact. -/
def Regime (e : Env K) (eps : K) (pt : Nat → P K) (n : Nat) : Prop :=
  (∀ i, i < n → pointsAreTooClose e.thr (pt i) (pt (i + 1)) = false)
  ∧ (∀ i, i < n → eps < eL pt i)
  ∧ (∀ i, i < n - 1 → ¬ (eT pt i + eT pt (i + 1)).sqLen < normalEpsilon)
  ∧ (∀ i, i < n - 1 → noFoldAt e (pt i) (pt (i + 1)) (pt (i + 1 + 1)))
  ∧ (∀ i, i < n → e.hwFw * (tauAbs pt n i + tauAbs pt n (i + 1) + 1) ≤ eL pt i)

noncomputable instance (e : Env K) (eps : K) (pt : Nat → P K) (n : Nat) : Decidable (Regime e eps pt n) := by
  unfold Regime noFoldAt; infer_instance

/-- a turn of at most 90° never folds: the model's fold test needs `next_tangent · prev_tangent < 0` -/
theorem noFoldAt_of_dot_nonneg (e : Env K) (p j n : P K)
    (h : ¬ ((n - j).sdiv (len (n - j))).dot ((j - p).sdiv (len (j - p))) < 0) : noFoldAt e p j n := by
  have h' : ¬ ((n - j).sdiv (len (n - j))).dot ((j - p).sdiv (len (j - p))) < Scalar.zero := by simpa [geom] using h
  unfold noFoldAt fwGeo
  simp [EP.mk']
  intro _ hlt
  exact absurd hlt h

/-- the two triangles of the quad of edge `k` -/
def EdgeQuad (E : P K × P K × P K → Prop) (e : Env K) (pt : Nat → P K) (n k : Nat) : Prop :=
  E (pt k - (perp (eT pt k)).smul e.hwFw + (eT pt k).smul (e.hwFw * sA0 e pt k),
     pt k + (perp (eT pt k)).smul e.hwFw + (eT pt k).smul (e.hwFw * sA1 e pt k),
     pt (k + 1) + (perp (eT pt k)).smul e.hwFw + (eT pt k).smul (e.hwFw * sB1 e pt n k))
  ∧ E (pt k - (perp (eT pt k)).smul e.hwFw + (eT pt k).smul (e.hwFw * sA0 e pt k),
     pt (k + 1) + (perp (eT pt k)).smul e.hwFw + (eT pt k).smul (e.hwFw * sB1 e pt n k),
     pt (k + 1) - (perp (eT pt k)).smul e.hwFw + (eT pt k).smul (e.hwFw * sB0 e pt n k))

/-- the standing hypotheses on the environment: exact arithmetic with the `sqrt` laws, the exact
`Line::intersection` with guard `eps`, fixed positive width, Bevel, Miter or MiterClip join (any miter limit `≥ 1`)
or Round join, butt, square or round caps (Round join / cap: with the law `cos² + sin² = 1`) -/
structure CoverHyp (e : Env K) (eps : K) : Prop where
  sqrt_nonneg : ∀ x : K, 0 ≤ x → 0 ≤ Transc.sqrt x
  sqrt_sq : ∀ x : K, 0 ≤ x → Transc.sqrt x * Transc.sqrt x = x
  ix_eq : e.ix = lineIntersection eps
  eps_nonneg : 0 ≤ eps
  fw : e.o.varWidth = false
  join : e.o.join = .bevel ∨ e.o.join = .miter ∨ e.o.join = .miterClip
    ∨ (e.o.join = .round ∧ ∀ x : K, Transc.cos x * Transc.cos x + Transc.sin x * Transc.sin x = 1)
  /-- only for `MiterClip`: `miter_limit ≥ 1` (lyon's `with_miter_limit` asserts it) and the intersection guard below `w/2` -/
  clip : e.o.join = .miterClip → 1 ≤ e.o.miterLimit ∧ eps < e.hwFw
  /-- a round cap needs the law `cos² + sin² = 1` (it places the arc vertices on the circle) -/
  scap : e.o.startCap ≠ .round ∨ ∀ x : K, Transc.cos x * Transc.cos x + Transc.sin x * Transc.sin x = 1
  ecap : e.o.endCap ≠ .round ∨ ∀ x : K, Transc.cos x * Transc.cos x + Transc.sin x * Transc.sin x = 1
  hw : 0 < e.hwFw

theorem CoverHyp.join4 {e : Env K} {eps : K} (h : CoverHyp e eps) :
    e.o.join = .bevel ∨ e.o.join = .miter ∨ e.o.join = .miterClip ∨ e.o.join = .round := by
  rcases h.join with a | a | a | ⟨a, _⟩
  · exact Or.inl a
  · exact Or.inr (Or.inl a)
  · exact Or.inr (Or.inr (Or.inl a))
  · exact Or.inr (Or.inr (Or.inr a))

theorem CoverHyp.roundOK {e : Env K} {eps : K} (h : CoverHyp e eps) : RoundOK e := by
  rcases h.join with a | a | a | ⟨_, a⟩
  · exact Or.inl (by rw [a]; decide)
  · exact Or.inl (by rw [a]; decide)
  · exact Or.inl (by rw [a]; decide)
  · exact Or.inr a

theorem regime_sq {e : Env K} {eps : K} (h : CoverHyp e eps) {pt : Nat → P K} {n : Nat} (hr : Regime e eps pt n)
    (i : Nat) (hi : i < n) : 0 < (pt (i + 1) - pt i).sqLen := by
  have h1 : eps < eL pt i := hr.2.1 i hi
  have hnn : (0 : K) ≤ (pt (i + 1) - pt i).sqLen := by
    simp only [geom]; exact add_nonneg (mul_self_nonneg _) (mul_self_nonneg _)
  have h2 := h.sqrt_sq _ hnn
  have hpos : 0 < eL pt i := lt_of_le_of_lt h.eps_nonneg h1
  have : eL pt i * eL pt i = (pt (i + 1) - pt i).sqLen := h2
  rw [← this]; exact mul_pos hpos hpos

theorem regime_jclosed {e : Env K} {eps : K} (h : CoverHyp e eps) {pt : Nat → P K} {n : Nat} (hr : Regime e eps pt n)
    (k : Nat) (hk : k + 1 < n) : JClosed e pt k (psAt e pt (k + 1)) (nsAt e pt (k + 1)) (lamAt e pt (k + 1)) :=
  jEP_closed e eps h.ix_eq h.eps_nonneg h.sqrt_nonneg h.sqrt_sq pt k h.join4 h.clip h.hw
    (regime_sq h hr k (by omega)) (regime_sq h hr (k + 1) hk)
    (hr.2.2.1 k (by omega)) (hr.2.2.2.1 k (by omega))

theorem smul_zero_r (a v : P K) (w : K) : a + v.smul (w * 0) = a := by
  apply P.ext' <;> simp only [geom] <;> ring

/-- **every edge quad is emitted with the stated corners** -/
theorem edge_quads {e : Env K} {eps : K} (h : CoverHyp e eps) {pt : Nat → P K} {n : Nat} (hr : Regime e eps pt n)
    {o : Out K} (hE : Emitted e pt n o) (k : Nat) (hk : k < n) : EdgeQuad (EmTri o) e pt n k := by
  have hJC := regime_jclosed h hr
  have hsq := regime_sq h hr
  unfold EdgeQuad
  by_cases hn1 : n = 1
  · -- a single segment
    subst hn1
    have hk0 : k = 0 := by omega
    subst hk0
    obtain ⟨q1, q2⟩ := hE.single rfl
    have hprev : prevNext e pt (0 + 1) = (pt 0 + (perp (eT pt 0)).smul e.hwFw, pt 0 - (perp (eT pt 0)).smul e.hwFw) := rfl
    obtain ⟨c1, c2⟩ := endCap_closed e eps h.ix_eq h.eps_nonneg h.sqrt_nonneg h.sqrt_sq pt 0 (hsq 0 hk)
      (hr.2.1 0 hk) hprev
    have hμ : (0 : K) ≤ capShift e.o.endCap e.hwFw := by
      rw [capShift_eq]; exact mul_nonneg (le_of_lt h.hw) (capU_nonneg _)
    have hsec : secondPrev e pt 1 = (pt 1 + (perp (eT pt 0)).smul e.hwFw + (eT pt 0).smul (capShift e.o.endCap e.hwFw),
        pt 1 - (perp (eT pt 0)).smul e.hwFw + (eT pt 0).smul (capShift e.o.endCap e.hwFw)) := by
      unfold secondPrev; rw [if_pos rfl, c1, c2]
    obtain ⟨d1, d2⟩ := startCap_closed e eps h.ix_eq h.eps_nonneg h.sqrt_nonneg h.sqrt_sq pt 1 (hsq 0 hk)
      (hr.2.1 0 hk) _ hμ hsec
    rw [d1, d2, c1] at q1
    rw [d2, c1, c2] at q2
    simp only [sA0, sA1, sB0, sB1, if_true]
    rw [capShift_eq] at q1 q2
    rw [capShift_eq] at q1 q2
    have e1 : e.hwFw * -capU e.o.startCap = -(e.hwFw * capU e.o.startCap) := by ring
    rw [e1]
    exact ⟨q1, q2⟩
  · have hn2 : 2 ≤ n := by omega
    rcases Nat.eq_zero_or_pos k with hk0 | hkpos
    · -- the first edge
      subst hk0
      obtain ⟨q1, q2⟩ := hE.first hn2
      have J := hJC 0 (by omega)
      have hnn : ∀ b : Bool, (0 : K) ≤ e.hwFw * (if b then 0 else lamAt e pt (0 + 1)) := by
        intro b; apply mul_nonneg (le_of_lt h.hw); split_ifs
        · exact le_refl _
        · exact lamAt_nonneg _ _ _
      have hsec : secondPrev e pt n = (pt 1 + (perp (eT pt 0)).smul e.hwFw
            + (eT pt 0).smul (e.hwFw * (if psAt e pt (0 + 1) then 0 else lamAt e pt (0 + 1))),
          pt 1 - (perp (eT pt 0)).smul e.hwFw
            + (eT pt 0).smul (e.hwFw * (if nsAt e pt (0 + 1) then 0 else lamAt e pt (0 + 1)))) := by
        unfold secondPrev; rw [if_neg hn1, J.posPrev, J.negPrev]
      obtain ⟨d1, d2⟩ := startCap_closedG e eps h.ix_eq h.eps_nonneg h.sqrt_nonneg h.sqrt_sq pt n (hsq 0 hk)
        (hr.2.1 0 hk) _ _ (hnn _) (hnn _) hsec
      rw [d1, d2, J.sPosPrev] at q1
      rw [d2, J.sPosPrev, J.sNegPrev] at q2
      have hb : ¬ (0 + 1 = n) := by omega
      simp only [sA0, sA1, sB0, sB1, if_true, if_neg hb]
      rw [capShift_eq] at q1 q2
      have e1 : e.hwFw * -capU e.o.startCap = -(e.hwFw * capU e.o.startCap) := by ring
      rw [e1]
      exact ⟨q1, q2⟩
    · obtain ⟨k', rfl⟩ : ∃ k', k = k' + 1 := ⟨k - 1, by omega⟩
      have Ja := hJC k' (by omega)
      have ha : ¬ (k' + 1 = 0) := by omega
      by_cases hlast : k' + 1 + 1 = n
      · -- the last edge
        subst hlast
        obtain ⟨q1, q2⟩ := hE.last hn2
        have hidx : k' + 1 + 1 - 1 = k' + 1 := rfl
        rw [hidx] at q1 q2
        have hnp : ∀ b : Bool, e.hwFw * (if b then 0 else -lamAt e pt (k' + 1)) ≤ 0 := by
          intro b
          have : (if b then (0 : K) else -lamAt e pt (k' + 1)) ≤ 0 := by
            split_ifs
            · exact le_refl _
            · have := lamAt_nonneg e pt (k' + 1); linarith
          exact mul_nonpos_of_nonneg_of_nonpos (le_of_lt h.hw) this
        have hprev : prevNext e pt (k' + 1 + 1)
            = (pt (k' + 1) + (perp (eT pt (k' + 1))).smul e.hwFw
                + (eT pt (k' + 1)).smul (e.hwFw * (if psAt e pt (k' + 1) then 0 else -lamAt e pt (k' + 1))),
               pt (k' + 1) - (perp (eT pt (k' + 1))).smul e.hwFw
                + (eT pt (k' + 1)).smul (e.hwFw * (if nsAt e pt (k' + 1) then 0 else -lamAt e pt (k' + 1)))) := by
          unfold prevNext; rw [if_neg (by omega)]
          show ((jEP e pt (k' + 1)).pos.next, (jEP e pt (k' + 1)).neg.next) = _
          rw [Ja.posNext, Ja.negNext]
        obtain ⟨c1, c2⟩ := endCap_closedG e eps h.ix_eq h.eps_nonneg h.sqrt_nonneg h.sqrt_sq pt (k' + 1)
          (hsq _ hk) (hr.2.1 _ hk) _ _ (hnp _) (hnp _) hprev
        rw [Ja.sNegNext, Ja.sPosNext, c1] at q1
        rw [Ja.sNegNext, c1, c2] at q2
        simp only [sA0, sA1, sB0, sB1, if_true, if_neg ha, Nat.add_sub_cancel]
        rw [capShift_eq] at q1 q2
        exact ⟨q1, q2⟩
      · -- an inner edge
        have hk2 : k' + 1 + 1 < n := by omega
        have Jb := hJC (k' + 1) hk2
        obtain ⟨q1, q2⟩ := hE.quads (k' + 1) (by omega) hk2
        rw [Ja.sNegNext, Ja.sPosNext, Jb.sPosPrev] at q1
        rw [Ja.sNegNext, Jb.sPosPrev, Jb.sNegPrev] at q2
        simp only [sA0, sA1, sB0, sB1, if_neg ha, if_neg hlast, Nat.add_sub_cancel]
        exact ⟨q1, q2⟩

/-- what the cover argument needs to know about the join at `pt (k+1)`: the side `ε` of the inside of
the turn, `c = cos`, `σ = |sin|`, `τ = |tan(θ/2)|`, `κ = 1` iff the miter is kept; the start line of the
next trapezoid and the end line of the previous one in these terms; the join triangle is covered -/
structure JointData (E : P K × P K × P K → Prop) (e : Env K) (pt : Nat → P K) (k : Nat) (ε c σ τ κ : K) : Prop where
  eps : ε * ε = 1
  hτ : σ = τ * (1 + c)
  hcs : c * c + σ * σ = 1
  hc : 0 < 1 + c
  hσ : 0 ≤ σ
  hκ : 0 ≤ κ ∧ κ ≤ 1
  hrot : eT pt (k + 1) = (eT pt k).smul c + (perp (eT pt k)).smul (ε * σ)
  tabs : τ = |jtau pt k|
  loNext : ∀ y, ((1 - ε * y) * (if nsAt e pt (k + 1) then -jtau pt k else -lamAt e pt (k + 1))
      + (1 + ε * y) * (if psAt e pt (k + 1) then jtau pt k else -lamAt e pt (k + 1))) / 2 = τ * ((1 + y) - κ * (1 - y)) / 2
  hiPrev : ∀ y, ((1 - ε * y) * (if nsAt e pt (k + 1) then jtau pt k else lamAt e pt (k + 1))
      + (1 + ε * y) * (if psAt e pt (k + 1) then -jtau pt k else lamAt e pt (k + 1))) / 2 = -(τ * ((1 + y) - κ * (1 - y)) / 2)
  tri : κ < 1 → ∀ q, InTri q (pt (k + 1) - (perp (eT pt k)).smul (ε * e.hwFw) + (eT pt k).smul (κ * τ * e.hwFw),
      pt (k + 1) + (perp (eT pt k)).smul (ε * e.hwFw) - (eT pt k).smul (τ * e.hwFw),
      pt (k + 1) - (perp (eT pt (k + 1))).smul (ε * e.hwFw) - (eT pt (k + 1)).smul (κ * τ * e.hwFw)) → Cov E q

/-- `κ = L/τ` with `0 ≤ L ≤ τ`: `κ ∈ [0,1]`, `κ·τ = L` (also for `τ = 0`) -/
theorem kappa_div (L τ : K) (h0 : 0 ≤ L) (h1 : L ≤ τ) : 0 ≤ L / τ ∧ L / τ ≤ 1 ∧ L / τ * τ = L := by
  have hτ0 : 0 ≤ τ := le_trans h0 h1
  rcases eq_or_lt_of_le hτ0 with hz | hpos
  · have hL : L = 0 := le_antisymm (by rw [hz]; exact h1) h0
    rw [← hz, hL]; simp
  · exact ⟨div_nonneg h0 hτ0, (div_le_one hpos).mpr h1, div_mul_cancel₀ _ (ne_of_gt hpos)⟩

/-- `JointData` from the closed form of the join, the unit tangents and the emitted join triangle -/
theorem joint_data_of {e : Env K} {pt : Nat → P K} {o : Out K} (k : Nat)
    (J : JClosed e pt k (psAt e pt (k + 1)) (nsAt e pt (k + 1)) (lamAt e pt (k + 1)))
    (hu0 : (eT pt k).sqLen = 1) (hu1 : (eT pt (k + 1)).sqLen = 1) (hjoin : EmJoin o (jEP e pt (k + 1))) :
    ∃ ε c σ τ κ : K, JointData (EmTri o) e pt k ε c σ τ κ := by
  have hrot := rot_of_unit (eT pt k) (eT pt (k + 1)) hu0
  have hcs := cs_unit (eT pt k) (eT pt (k + 1)) hu0 hu1
  have hc := J.cpos
  have hcne : 1 + (eT pt k).dot (eT pt (k + 1)) ≠ 0 := ne_of_gt hc
  have htau : jtau pt k * (1 + (eT pt k).dot (eT pt (k + 1))) = (eT pt k).cross (eT pt (k + 1)) := by
    unfold jtau; exact div_mul_cancel₀ _ hcne
  obtain ⟨j1, j2⟩ := hjoin
  have hL0 := lamAt_nonneg e pt (k + 1)
  have hL1 := lamAt_le e pt k
  generalize hLdef : lamAt e pt (k + 1) = L at J hL0 hL1
  generalize hps : psAt e pt (k + 1) = ps at J
  generalize hns : nsAt e pt (k + 1) = ns at J
  have hps' : (jEP e pt (k + 1)).pos.single.isSome = ps := hps
  have hns' : (jEP e pt (k + 1)).neg.single.isSome = ns := hns
  by_cases hx : 0 ≤ (eT pt k).cross (eT pt (k + 1))
  · -- a left turn: the inside is the positive side
    have hpt : ps = true := J.inner_pos hx
    subst hpt
    have htau0 : 0 ≤ jtau pt k := by unfold jtau; exact div_nonneg hx (le_of_lt hc)
    rw [abs_of_nonneg htau0] at hL1
    obtain ⟨k0, k1, k2⟩ := kappa_div L (jtau pt k) hL0 hL1
    refine ⟨1, (eT pt k).dot (eT pt (k + 1)), (eT pt k).cross (eT pt (k + 1)), jtau pt k, if ns then 1 else L / jtau pt k,
      by ring, htau.symm, hcs, hc, hx, by cases ns <;> simp [k0, k1], by rw [one_mul]; exact hrot,
      (abs_of_nonneg htau0).symm, ?_, ?_, ?_⟩
    · intro y; rw [hps, hns, hLdef]; cases ns
      · simp only [Bool.false_eq_true, if_false, if_true]; linear_combination ((1 - y) / 2) * k2
      · simp only [if_true]; ring
    · intro y; rw [hps, hns, hLdef]; cases ns
      · simp only [Bool.false_eq_true, if_false, if_true]; linear_combination (-(1 - y) / 2) * k2
      · simp only [if_true]; ring
    · intro hk0 q hq
      have hnf : ns = false := by
        cases ns
        · rfl
        · simp at hk0
      subst hnf
      simp only [Bool.false_eq_true, if_false] at hq
      have hnone : (jEP e pt (k + 1)).neg.single = none := by
        cases hh : (jEP e pt (k + 1)).neg.single with
        | none => rfl
        | some v => rw [hh] at hns'; simp at hns'
      have ht := j1 hps' hnone
      rw [J.negPrev, J.sPosPrev, J.negNext] at ht
      refine ⟨_, ht, ?_⟩
      have e1 : pt (k + 1) - (perp (eT pt k)).smul (1 * e.hwFw) + (eT pt k).smul (L / jtau pt k * jtau pt k * e.hwFw)
          = pt (k + 1) - (perp (eT pt k)).smul e.hwFw + (eT pt k).smul (e.hwFw * (if false = true then 0 else L)) := by
        rw [k2]; apply P.ext' <;> simp only [geom, Bool.false_eq_true, if_false] <;> ring
      have e2 : pt (k + 1) + (perp (eT pt k)).smul (1 * e.hwFw) - (eT pt k).smul (jtau pt k * e.hwFw)
          = pt (k + 1) + (perp (eT pt k)).smul e.hwFw + (eT pt k).smul (e.hwFw * (if true = true then -jtau pt k else L)) := by
        apply P.ext' <;> simp only [geom, if_true] <;> ring
      have e3 : pt (k + 1) - (perp (eT pt (k + 1))).smul (1 * e.hwFw) - (eT pt (k + 1)).smul (L / jtau pt k * jtau pt k * e.hwFw)
          = pt (k + 1) - (perp (eT pt (k + 1))).smul e.hwFw + (eT pt (k + 1)).smul (e.hwFw * (if false = true then 0 else -L)) := by
        rw [k2]; apply P.ext' <;> simp only [geom, Bool.false_eq_true, if_false] <;> ring
      rw [e1, e2, e3] at hq
      exact hq
  · -- a right turn: the inside is the negative side
    have hx' : (eT pt k).cross (eT pt (k + 1)) < 0 := lt_of_not_ge hx
    have hnt : ns = true := J.inner_neg hx'
    subst hnt
    have htau0 : jtau pt k < 0 := by unfold jtau; exact div_neg_of_neg_of_pos hx' hc
    rw [abs_of_neg htau0] at hL1
    obtain ⟨k0, k1, k2⟩ := kappa_div L (-jtau pt k) hL0 hL1
    refine ⟨-1, (eT pt k).dot (eT pt (k + 1)), -(eT pt k).cross (eT pt (k + 1)), -jtau pt k, if ps then 1 else L / -jtau pt k,
      by ring, by linear_combination htau, by linear_combination hcs, hc, by linarith, by cases ps <;> simp [k0, k1],
      by rw [show (-1 : K) * -(eT pt k).cross (eT pt (k + 1)) = (eT pt k).cross (eT pt (k + 1)) by ring]; exact hrot,
      (abs_of_neg htau0).symm, ?_, ?_, ?_⟩
    · intro y; rw [hps, hns, hLdef]; cases ps
      · simp only [Bool.false_eq_true, if_false, if_true]; linear_combination ((1 - y) / 2) * k2
      · simp only [if_true]; ring
    · intro y; rw [hps, hns, hLdef]; cases ps
      · simp only [Bool.false_eq_true, if_false, if_true]; linear_combination (-(1 - y) / 2) * k2
      · simp only [if_true]; ring
    · intro hk0 q hq
      have hpf : ps = false := by
        cases ps
        · rfl
        · simp at hk0
      subst hpf
      simp only [Bool.false_eq_true, if_false] at hq
      have hnone : (jEP e pt (k + 1)).pos.single = none := by
        cases hh : (jEP e pt (k + 1)).pos.single with
        | none => rfl
        | some v => rw [hh] at hps'; simp at hps'
      have ht := j2 hns' hnone
      rw [J.sNegPrev, J.posPrev, J.posNext] at ht
      refine ⟨_, ht, ?_⟩
      have e1 : pt (k + 1) - (perp (eT pt k)).smul (-1 * e.hwFw) + (eT pt k).smul (L / -jtau pt k * -jtau pt k * e.hwFw)
          = pt (k + 1) + (perp (eT pt k)).smul e.hwFw + (eT pt k).smul (e.hwFw * (if false = true then 0 else L)) := by
        rw [k2]; apply P.ext' <;> simp only [geom, Bool.false_eq_true, if_false] <;> ring
      have e2 : pt (k + 1) + (perp (eT pt k)).smul (-1 * e.hwFw) - (eT pt k).smul (-jtau pt k * e.hwFw)
          = pt (k + 1) - (perp (eT pt k)).smul e.hwFw + (eT pt k).smul (e.hwFw * (if true = true then jtau pt k else L)) := by
        apply P.ext' <;> simp only [geom, if_true] <;> ring
      have e3 : pt (k + 1) - (perp (eT pt (k + 1))).smul (-1 * e.hwFw) - (eT pt (k + 1)).smul (L / -jtau pt k * -jtau pt k * e.hwFw)
          = pt (k + 1) + (perp (eT pt (k + 1))).smul e.hwFw + (eT pt (k + 1)).smul (e.hwFw * (if false = true then 0 else -L)) := by
        rw [k2]; apply P.ext' <;> simp only [geom, Bool.false_eq_true, if_false] <;> ring
      rw [e1, e2, e3] at hq
      exact inTri_swap12 hq

theorem joint_data {e : Env K} {eps : K} (h : CoverHyp e eps) {pt : Nat → P K} {n : Nat} (hr : Regime e eps pt n)
    {o : Out K} (hE : Emitted e pt n o) (k : Nat) (hk : k + 1 < n) :
    ∃ ε c σ τ κ : K, JointData (EmTri o) e pt k ε c σ τ κ :=
  joint_data_of k (regime_jclosed h hr k hk)
    (edge_eq h.sqrt_nonneg h.sqrt_sq pt k (regime_sq h hr k (by omega))).2.1
    (edge_eq h.sqrt_nonneg h.sqrt_sq pt (k + 1) (regime_sq h hr (k + 1) hk)).2.1
    (hE.joins (k + 1) (by omega) hk)

theorem tauAbs_nonneg (pt : Nat → P K) (n i : Nat) : 0 ≤ tauAbs pt n i := by
  unfold tauAbs; split_ifs
  · exact le_refl _
  · exact abs_nonneg _

theorem tauAbs_mid (pt : Nat → P K) (n k : Nat) (hk : k + 1 < n) : tauAbs pt n (k + 1) = |jtau pt k| := by
  unfold tauAbs; rw [if_neg (by omega)]; rfl

/-- the shifts stay within the half-turn tangents -/
theorem shift_bounds (e : Env K) (pt : Nat → P K) (n k : Nat) (hk : k < n) :
    sA0 e pt k ≤ tauAbs pt n k ∧ sA1 e pt k ≤ tauAbs pt n k
    ∧ -tauAbs pt n (k + 1) ≤ sB0 e pt n k ∧ -tauAbs pt n (k + 1) ≤ sB1 e pt n k := by
  have hA : sA0 e pt k ≤ tauAbs pt n k ∧ sA1 e pt k ≤ tauAbs pt n k := by
    rcases Nat.eq_zero_or_pos k with h0 | hpos
    · subst h0
      have : (0 : K) ≤ capU e.o.startCap := capU_nonneg _
      simp only [sA0, sA1, tauAbs, if_true, true_or]
      constructor <;> linarith
    · obtain ⟨k', rfl⟩ : ∃ k', k = k' + 1 := ⟨k - 1, by omega⟩
      rw [tauAbs_mid pt n k' hk]
      simp only [sA0, sA1, if_neg (Nat.succ_ne_zero k'), Nat.add_sub_cancel]
      have hl := lamAt_nonneg e pt (k' + 1)
      have ha := abs_nonneg (jtau pt k')
      constructor <;> split_ifs <;> first | exact neg_le_abs _ | exact le_abs_self _ | linarith
  have hB : -tauAbs pt n (k + 1) ≤ sB0 e pt n k ∧ -tauAbs pt n (k + 1) ≤ sB1 e pt n k := by
    by_cases hl : k + 1 = n
    · have : (0 : K) ≤ capU e.o.endCap := capU_nonneg _
      have ht : tauAbs pt n (k + 1) = 0 := by unfold tauAbs; rw [if_pos (Or.inr (by omega))]
      simp only [sB0, sB1, if_pos hl, ht]
      constructor <;> linarith
    · rw [tauAbs_mid pt n k (by omega)]
      simp only [sB0, sB1, if_neg hl]
      have hl := lamAt_nonneg e pt (k + 1)
      constructor <;> split_ifs <;>
        first | exact neg_abs_le _ | (exact neg_le_neg (le_abs_self _)) | (have := abs_nonneg (jtau pt k); linarith)
  exact ⟨hA.1, hA.2, hB.1, hB.2⟩

theorem mix_le (v a0 a1 T : K) (hv : -1 ≤ v) (hv1 : v ≤ 1) (h0 : a0 ≤ T) (h1 : a1 ≤ T) :
    ((1 - v) * a0 + (1 + v) * a1) / 2 ≤ T := by
  have := mul_le_mul_of_nonneg_left h0 (by linarith : (0 : K) ≤ 1 - v)
  have := mul_le_mul_of_nonneg_left h1 (by linarith : (0 : K) ≤ 1 + v)
  linarith

theorem mix_ge (v b0 b1 T : K) (hv : -1 ≤ v) (hv1 : v ≤ 1) (h0 : -T ≤ b0) (h1 : -T ≤ b1) :
    -T ≤ ((1 - v) * b0 + (1 + v) * b1) / 2 := by
  have := mul_le_mul_of_nonneg_left h0 (by linarith : (0 : K) ≤ 1 - v)
  have := mul_le_mul_of_nonneg_left h1 (by linarith : (0 : K) ≤ 1 + v)
  linarith

/-- the quad of edge `k` covers its trapezoid -/
theorem trapK {e : Env K} {eps : K} (h : CoverHyp e eps) {pt : Nat → P K} {n : Nat} (hr : Regime e eps pt n)
    {o : Out K} (hE : Emitted e pt n o) (k : Nat) (hk : k < n) (x y : K) (hy : -1 ≤ y) (hy1 : y ≤ 1)
    (hlo : e.hwFw * ((1 - y) * sA0 e pt k + (1 + y) * sA1 e pt k) / 2 ≤ x)
    (hhi : x ≤ eL pt k + e.hwFw * ((1 - y) * sB0 e pt n k + (1 + y) * sB1 e pt n k) / 2) :
    Cov (EmTri o) (pt k + (eT pt k).smul x + (perp (eT pt k)).smul (e.hwFw * y)) := by
  obtain ⟨hL, _, hd⟩ := edge_eq h.sqrt_nonneg h.sqrt_sq pt k (regime_sq h hr k hk)
  obtain ⟨q1, q2⟩ := edge_quads h hr hE k hk
  obtain ⟨b1, b2, b3, b4⟩ := shift_bounds e pt n k hk
  have hreg := hr.2.2.2.2 k hk
  have hw := h.hw
  have t0 := tauAbs_nonneg pt n k
  have t1 := tauAbs_nonneg pt n (k + 1)
  refine trap_cov (EmTri o) (pt k) (pt (k + 1)) (eT pt k) (eL pt k) e.hwFw _ _ _ _ x y hL hd q1 q2 ?_ ?_ hy hy1 hlo hhi
  · have := mul_le_mul_of_nonneg_left b1 (le_of_lt hw)
    have := mul_le_mul_of_nonneg_left b3 (le_of_lt hw)
    nlinarith
  · have := mul_le_mul_of_nonneg_left b2 (le_of_lt hw)
    have := mul_le_mul_of_nonneg_left b4 (le_of_lt hw)
    nlinarith

theorem eps_cases {ε : K} (h : ε * ε = 1) : ε = 1 ∨ ε = -1 := mul_self_eq_one_iff.mp h

theorem eps_band {ε u : K} (h : ε * ε = 1) (hu : -1 ≤ u) (hu1 : u ≤ 1) : -1 ≤ ε * u ∧ ε * u ≤ 1 := by
  rcases eps_cases h with rfl | rfl <;> constructor <;> linarith

/-- **every point of every edge's rectangle lies in an emitted triangle** -/
theorem edge_cover {e : Env K} {eps : K} (h : CoverHyp e eps) {pt : Nat → P K} {n : Nat} (hr : Regime e eps pt n)
    {o : Out K} (hE : Emitted e pt n o) (k : Nat) (hk : k < n) (s u : K)
    (hs : 0 ≤ s) (hs1 : s ≤ 1) (hu : -1 ≤ u) (hu1 : u ≤ 1) :
    Cov (EmTri o) (bandPoint (pt k) (pt (k + 1)) ((perp (eT pt k)).smul e.hwFw) s u) := by
  obtain ⟨hL, _, hd⟩ := edge_eq h.sqrt_nonneg h.sqrt_sq pt k (regime_sq h hr k hk)
  have hw := h.hw
  have hwne : e.hwFw ≠ 0 := ne_of_gt hw
  have hpt : bandPoint (pt k) (pt (k + 1)) ((perp (eT pt k)).smul e.hwFw) s u
      = pt k + (eT pt k).smul (eL pt k * s) + (perp (eT pt k)).smul (e.hwFw * u) := by
    unfold bandPoint; rw [hd]; apply P.ext' <;> simp only [geom] <;> ring
  rw [hpt]
  have hx0 : 0 ≤ eL pt k * s := mul_nonneg (le_of_lt hL) hs
  have hxL : eL pt k * s ≤ eL pt k := by nlinarith
  generalize eL pt k * s = x at hx0 hxL
  by_cases hlo : e.hwFw * ((1 - u) * sA0 e pt k + (1 + u) * sA1 e pt k) / 2 ≤ x
  · by_cases hhi : x ≤ eL pt k + e.hwFw * ((1 - u) * sB0 e pt n k + (1 + u) * sB1 e pt n k) / 2
    · exact trapK h hr hE k hk x u hu hu1 hlo hhi
    · -- beyond the end line: the join at `pt (k+1)`
      have hhi' := lt_of_not_ge hhi
      have hnl : ¬ (k + 1 = n) := by
        intro hl
        have : (0 : K) ≤ capU e.o.endCap := capU_nonneg _
        simp only [sB0, sB1, if_pos hl] at hhi'
        have : 0 ≤ e.hwFw * capU e.o.endCap := mul_nonneg (le_of_lt hw) this
        nlinarith
      have hk1 : k + 1 < n := by omega
      obtain ⟨ε, c, σ, τ, κ, D⟩ := joint_data h hr hE k hk1
      obtain ⟨hyb, hyb1⟩ := eps_band D.eps hu hu1
      have hεy : ε * (ε * u) = u := by rw [← mul_assoc, D.eps, one_mul]
      have hj : pt (k + 1) = pt k + (eT pt k).smul (eL pt k) := by
        rw [← hd]; apply P.ext' <;> simp only [geom] <;> ring
      have hgoal : pt (k + 1) + (eT pt k).smul (e.hwFw * ((x - eL pt k) / e.hwFw)) + (perp (eT pt k)).smul (ε * e.hwFw * (ε * u))
          = pt k + (eT pt k).smul x + (perp (eT pt k)).smul (e.hwFw * u) := by
        rw [hj]
        have e1 : e.hwFw * ((x - eL pt k) / e.hwFw) = x - eL pt k := by field_simp
        have e2 : ε * e.hwFw * (ε * u) = e.hwFw * u := by linear_combination (e.hwFw * u) * D.eps
        rw [e1, e2]; apply P.ext' <;> simp only [geom] <;> ring
      rw [← hgoal]
      have hhiP := D.hiPrev (ε * u)
      rw [hεy] at hhiP
      simp only [sB0, sB1, if_neg hnl] at hhi'
      refine end_corner (EmTri o) (pt (k + 1)) (eT pt k) (eT pt (k + 1)) e.hwFw ε c σ τ κ D.eps D.hτ D.hcs D.hc D.hσ D.hκ
        D.hrot D.tri ?_ ((x - eL pt k) / e.hwFw) (ε * u) hyb hyb1 ?_ ?_
      · -- the near part of the next trapezoid
        intro x' y' h1 h2 h3 h4
        obtain ⟨hzb, hzb1⟩ := eps_band D.eps h1 h2
        have hpt2 : pt (k + 1) + (eT pt (k + 1)).smul (e.hwFw * x') + (perp (eT pt (k + 1))).smul (ε * e.hwFw * y')
            = pt (k + 1) + (eT pt (k + 1)).smul (e.hwFw * x') + (perp (eT pt (k + 1))).smul (e.hwFw * (ε * y')) := by
          apply P.ext' <;> simp only [geom] <;> ring
        rw [hpt2]
        have hloN := D.loNext y'
        obtain ⟨b1, b2, b3, b4⟩ := shift_bounds e pt n (k + 1) hk1
        have hreg := hr.2.2.2.2 (k + 1) hk1
        rw [tauAbs_mid pt n k hk1, ← D.tabs] at hreg
        have hT2 := tauAbs_nonneg pt n (k + 1 + 1)
        refine trapK h hr hE (k + 1) hk1 (e.hwFw * x') (ε * y') hzb hzb1 ?_ ?_
        · simp only [sA0, sA1, if_neg (Nat.succ_ne_zero k), Nat.add_sub_cancel]
          have : e.hwFw * ((1 - ε * y') * (if nsAt e pt (k + 1) = true then -jtau pt k else -lamAt e pt (k + 1))
              + (1 + ε * y') * (if psAt e pt (k + 1) = true then jtau pt k else -lamAt e pt (k + 1))) / 2
              = e.hwFw * (τ * ((1 + y') - κ * (1 - y')) / 2) := by rw [← hloN]; ring
          rw [this]
          exact mul_le_mul_of_nonneg_left h3 (le_of_lt hw)
        · have hm := mix_ge (ε * y') _ _ _ hzb hzb1 b3 b4
          have := mul_le_mul_of_nonneg_left hm (le_of_lt hw)
          have := mul_le_mul_of_nonneg_left h4 (le_of_lt hw)
          nlinarith
      · rw [div_le_iff₀ hw]; linarith
      · rw [le_div_iff₀ hw]
        have : e.hwFw * ((1 - u) * (if nsAt e pt (k + 1) = true then jtau pt k else lamAt e pt (k + 1))
            + (1 + u) * (if psAt e pt (k + 1) = true then -jtau pt k else lamAt e pt (k + 1))) / 2
            = -(τ * ((1 + ε * u) - κ * (1 - ε * u)) / 2) * e.hwFw := by rw [← hhiP]; ring
        rw [this] at hhi'
        linarith
  · -- before the start line: the join at `pt k`
    have hlo' := lt_of_not_ge hlo
    have hk0 : k ≠ 0 := by
      intro h0
      subst h0
      have : (0 : K) ≤ capU e.o.startCap := capU_nonneg _
      simp only [sA0, sA1, if_true] at hlo'
      have : 0 ≤ e.hwFw * capU e.o.startCap := mul_nonneg (le_of_lt hw) this
      nlinarith
    obtain ⟨k', rfl⟩ : ∃ k', k = k' + 1 := ⟨k - 1, by omega⟩
    have hk1 : k' + 1 < n := hk
    obtain ⟨ε, c, σ, τ, κ, D⟩ := joint_data h hr hE k' hk1
    obtain ⟨hyb, hyb1⟩ := eps_band D.eps hu hu1
    have hεy : ε * (ε * u) = u := by rw [← mul_assoc, D.eps, one_mul]
    obtain ⟨hL', _, hd'⟩ := edge_eq h.sqrt_nonneg h.sqrt_sq pt k' (regime_sq h hr k' (by omega))
    have hj : pt (k' + 1) = pt k' + (eT pt k').smul (eL pt k') := by
      rw [← hd']; apply P.ext' <;> simp only [geom] <;> ring
    have hgoal : pt (k' + 1) + (eT pt (k' + 1)).smul (e.hwFw * (x / e.hwFw)) + (perp (eT pt (k' + 1))).smul (ε * e.hwFw * (ε * u))
        = pt (k' + 1) + (eT pt (k' + 1)).smul x + (perp (eT pt (k' + 1))).smul (e.hwFw * u) := by
      have e1 : e.hwFw * (x / e.hwFw) = x := by field_simp
      have e2 : ε * e.hwFw * (ε * u) = e.hwFw * u := by linear_combination (e.hwFw * u) * D.eps
      rw [e1, e2]
    rw [← hgoal]
    have hloN := D.loNext (ε * u)
    rw [hεy] at hloN
    simp only [sA0, sA1, if_neg (Nat.succ_ne_zero k'), Nat.add_sub_cancel] at hlo'
    refine start_corner (EmTri o) (pt (k' + 1)) (eT pt k') (eT pt (k' + 1)) e.hwFw ε c σ τ κ D.eps D.hτ D.hcs D.hc D.hσ D.hκ
      D.hrot D.tri ?_ (x / e.hwFw) (ε * u) hyb hyb1 (div_nonneg hx0 (le_of_lt hw)) ?_
    · -- the far part of the previous trapezoid
      intro x' y' h1 h2 h3 h4
      obtain ⟨hzb, hzb1⟩ := eps_band D.eps h1 h2
      have hpt2 : pt (k' + 1) - (eT pt k').smul (e.hwFw * x') + (perp (eT pt k')).smul (ε * e.hwFw * y')
          = pt k' + (eT pt k').smul (eL pt k' - e.hwFw * x') + (perp (eT pt k')).smul (e.hwFw * (ε * y')) := by
        rw [hj]; apply P.ext' <;> simp only [geom] <;> ring
      rw [hpt2]
      have hhiP := D.hiPrev y'
      obtain ⟨b1, b2, b3, b4⟩ := shift_bounds e pt n k' (by omega)
      have hreg := hr.2.2.2.2 k' (by omega)
      rw [tauAbs_mid pt n k' hk1, ← D.tabs] at hreg
      have hT0 := tauAbs_nonneg pt n k'
      have hnl : ¬ (k' + 1 = n) := by omega
      refine trapK h hr hE k' (by omega) (eL pt k' - e.hwFw * x') (ε * y') hzb hzb1 ?_ ?_
      · have hm := mix_le (ε * y') _ _ _ hzb hzb1 b1 b2
        have := mul_le_mul_of_nonneg_left hm (le_of_lt hw)
        have := mul_le_mul_of_nonneg_left h4 (le_of_lt hw)
        nlinarith
      · simp only [sB0, sB1, if_neg hnl]
        have : e.hwFw * ((1 - ε * y') * (if nsAt e pt (k' + 1) = true then jtau pt k' else lamAt e pt (k' + 1))
            + (1 + ε * y') * (if psAt e pt (k' + 1) = true then -jtau pt k' else lamAt e pt (k' + 1))) / 2
            = -(e.hwFw * (τ * ((1 + y') - κ * (1 - y')) / 2)) := by
          linear_combination e.hwFw * hhiP
        rw [this]
        have := mul_le_mul_of_nonneg_left h3 (le_of_lt hw)
        linarith
    · rw [div_le_iff₀ hw]
      have : e.hwFw * ((1 - u) * (if nsAt e pt (k' + 1) = true then -jtau pt k' else -lamAt e pt (k' + 1))
          + (1 + u) * (if psAt e pt (k' + 1) = true then jtau pt k' else -lamAt e pt (k' + 1))) / 2
          = τ * ((1 + ε * u) - κ * (1 - ε * u)) / 2 * e.hwFw := by rw [← hloN]; ring
      rw [this] at hlo'
      linarith

end

section Run
variable {K : Type} [Field K] [LinearOrder K] [IsStrictOrderedRing K] [Transc K] [Asin K] [FlatConst K]

/-- in the regime the run has the emission shape of `run_emitted` -/
theorem regime_emitted {e : Env K} {eps : K} (h : CoverHyp e eps) (store : Nat → List K) {pt : Nat → P K} {n : Nat}
    (hn : 1 ≤ n) (hr : Regime e eps pt n) : Emitted e pt n (runEvents e store (polyEvs pt n)).st.out := by
  have hu0 : (normalize (pt 0 - pt 1)).sqLen = 1 := by
    obtain ⟨_, hunit, _⟩ := edge_eq h.sqrt_nonneg h.sqrt_sq pt 0 (regime_sq h hr 0 (by omega))
    have ht : normalize (pt (0 + 1) - pt 0) = eT pt 0 := rfl
    have hswap : normalize (pt 0 - pt (0 + 1)) = (eT pt 0).smul (-1) := by rw [normalize_swap, ht]
    show (normalize (pt 0 - pt (0 + 1))).sqLen = 1
    rw [hswap]; simp only [geom] at hunit ⊢; linear_combination hunit
  have hun : (normalize (pt n - pt (n - 1))).sqLen = 1 := by
    obtain ⟨n', rfl⟩ : ∃ n', n = n' + 1 := ⟨n - 1, by omega⟩
    obtain ⟨_, hunit, _⟩ := edge_eq h.sqrt_nonneg h.sqrt_sq pt n' (regime_sq h hr n' (by omega))
    exact hunit
  have hs : CapOK e.o.startCap (pt 0 - pt 1) := by
    rcases h.scap with a | a
    · exact Or.inl a
    · exact Or.inr ⟨a, hu0⟩
  have he : CapOK e.o.endCap (pt n - pt (n - 1)) := by
    rcases h.ecap with a | a
    · exact Or.inl a
    · exact Or.inr ⟨a, hun⟩
  refine run_emittedG e store h.fw h.roundOK (ne_of_gt h.hw) pt n hn hs he hr.1 ?_
  · intro i h1 h2
    obtain ⟨i', rfl⟩ : ∃ i', i = i' + 1 := ⟨i - 1, by omega⟩
    exact hr.2.2.2.1 i' (by omega)

/-- the path `begin (pt 0), line_to (pt 1), …, line_to (pt n), end(false)` as `StrokeTessellator::tessellate` sees it -/
def polyPath (pt : Nat → P K) (n : Nat) : List (PathEv K) :=
  PathEv.begin (pt 0) :: ((List.range' 1 n).map (fun i => PathEv.line (pt i)) ++ [PathEv.end_ false])

theorem assignIds_lines (pt : Nat → P K) (m : Nat) : ∀ k : Nat,
    assignIds ((List.range' k m).map (fun i => PathEv.line (pt i)) ++ [PathEv.end_ false]) k
      = lineEvs (restPts pt k m) ++ [IdEv.end_ false] := by
  induction m with
  | zero => intro k; simp [assignIds, lineEvs, restPts]
  | succ m ih =>
    intro k
    rw [List.range'_succ, restPts_succ]
    simp only [List.map_cons, List.cons_append, assignIds, lineEvs]
    rw [ih (k + 1)]
    rfl

/-- `tessellate_fw` numbers the endpoints of that path `0 … n` -/
theorem assignIds_polyPath (pt : Nat → P K) (n : Nat) (hn : 1 ≤ n) : assignIds (polyPath pt n) 0 = polyEvs pt n := by
  obtain ⟨m, rfl⟩ : ∃ m, n = m + 1 := ⟨n - 1, by omega⟩
  unfold polyPath polyEvs
  rw [List.range'_succ]
  simp only [List.map_cons, List.cons_append, assignIds, Nat.add_sub_cancel]
  rw [assignIds_lines pt m 2]

theorem tessellateIds_out2 {e : Env K} {store : Nat → List K} {evs : List (IdEv K)} {out : Out K}
    (h : tessellateIds e store evs = some out) : out = (runEvents e store evs).st.out := by
  unfold tessellateIds at h
  simp only [] at h
  split_ifs at h
  simp only [Option.some.injEq] at h
  exact h.symm

end Run


end Lyon.C06b
