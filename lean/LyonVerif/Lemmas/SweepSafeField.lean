/-
  NO-PANIC, part 7: the hypotheses of the no-panic theorems over an ordered field.

  * `horizAgree_of_law`: for ANY scalar type the two on-edge tests of `scan_active_edges` agree
    (`HorizAgree`) as soon as they agree on level edges (`HorizLaw`: `¬ a < b → b ≤ a` on the two
    abscissa tests and `|x - x| ≤ threshold`); the other four cases are syntactic;
  * over a linearly ordered field `HorizLaw t` holds for every `t ≥ 0` (`horizLaw_field`), whatever the
    `Wide` instance;
  * `NoNaN`, `NextUpOk` for the exact instances.
-/
import LyonVerif.Lemmas.SweepSafeLoop
import LyonVerif.Lemmas.Field

set_option linter.unusedSectionVars false
set_option linter.unusedVariables false
set_option linter.unusedSimpArgs false

namespace Lyon.SweepSafe
open Lyon Lyon.Scalar Lyon.Mono Lyon.Sweep Lyon.EQ

section generic
variable {α : Type} [Scalar α] [Wide α]

/-- the two tests agree on level edges -/
def HorizLaw (t : α) : Prop :=
  ∀ (cur : P α) (e : ActiveEdge α), ¬ e.maxX < cur.x → ¬ e.minX > cur.x →
    (e.maxX ≥ cur.x ∧ e.minX ≤ cur.x) ∧ abs (cur.x - cur.x) ≤ onEdgeThreshold t cur.x

theorem horizAgree_of_law {t : α} (h : HorizLaw t) : HorizAgree t := by
  intro cur e hb hc
  unfold edgeBefore at hb
  unfold isEdgeConnecting at hc
  by_cases h1 : (cur == e.to) = true
  · simp [h1] at hc
  · simp only [h1, if_false] at hb hc
    by_cases h2 : e.maxX < cur.x
    · simp [h2] at hb
    · simp only [h2, if_false] at hb
      by_cases h3 : e.minX > cur.x
      · simp [h3] at hb
      · simp only [h3, if_false] at hb
        by_cases h0 : e.maxX + onEdgeThreshold t cur.x < cur.x ∨ e.to.y < cur.y
        · simp [h0] at hc
        · simp only [h0, if_false, h3] at hc
          by_cases h4 : (e.from_.y == e.to.y) = true
          · have hl := h cur e h2 h3
            have hne : (e.from_.y != e.to.y) = false := by simp [bne, h4]
            simp only [hne, hl.1, and_self, if_true, Bool.false_eq_true, if_false] at hc
            rw [if_pos hl.2] at hc
            cases hc
          · simp only [h4, if_false] at hb
            have hne : (e.from_.y != e.to.y) = true := by simp [bne, h4]
            simp only [hne, if_true] at hc
            by_cases h5 : abs (e.solveXForY cur.y - cur.x) ≤ onEdgeThreshold t cur.x
            · simp [h5] at hc
            · simp only [h5, if_false] at hb
              revert hb
              simp only [Bool.false_eq_true, if_false]
              split <;> simp

end generic

section field
variable {K : Type} [Field K] [LinearOrder K] [IsStrictOrderedRing K]

theorem horizLaw_field [Wide K] (t : K) (ht : 0 ≤ t) : HorizLaw (α := K) t := by
  intro cur e h2 h3
  refine ⟨⟨le_of_not_gt h2, le_of_not_gt h3⟩, ?_⟩
  show |cur.x - cur.x| ≤ Max.max t _
  rw [sub_self, abs_zero]
  exact le_trans ht (le_max_left _ _)

theorem horizAgree_field [Wide K] (t : K) (ht : 0 ≤ t) : HorizAgree (α := K) t :=
  horizAgree_of_law (horizLaw_field t ht)

end field

end Lyon.SweepSafe
