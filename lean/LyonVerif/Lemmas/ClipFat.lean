/-
  Field-side lemmas for the fat line of `Model/Geom/Clip.lean`:
  * the signed distance of a cubic's points to any line equation is the cubic Bernstein polynomial
    of the four control points' distances;
  * the baseline equation of a cubic vanishes at `from` and `to` whatever the normalisation factor;
  * the curve lies inside its own fat line `[d_min, d_max]` (`fat_line_min_max`, factors 3/4, 4/9).
-/
import LyonVerif.Lemmas.ClipHullCases

set_option linter.unusedSectionVars false
set_option linter.unusedVariables false
set_option linter.unusedSimpArgs false

namespace Lyon.Clip
open Lyon Scalar
variable {K : Type} [Field K] [LinearOrder K] [IsStrictOrderedRing K]

/-- the distance function of a cubic to a line is a cubic Bernstein polynomial -/
theorem signedDistance_sample (e : LineEq K) (c : Cubic K) (t : K) :
    LineEq.signedDistance e (c.sample t)
      = bern (LineEq.signedDistance e c.a) (LineEq.signedDistance e c.c1)
          (LineEq.signedDistance e c.c2) (LineEq.signedDistance e c.b) t := by
  simp only [Cubic.sample, LineEq.signedDistance, bern, geom, Nat.cast_ofNat, Nat.cast_one]
  ring

variable [Transc K]

/-- the baseline's equation vanishes at `from` (whatever `1 / sqrt(a² + b²)` evaluates to) -/
theorem baselineEq_from (c : Cubic K) : LineEq.signedDistance (baselineEq c) c.a = 0 := by
  simp only [baselineEq, Line.equation, LineEq.new, Seg.toLine, Cubic.baseline, LineEq.signedDistance,
    geom, Nat.cast_one]
  ring

/-- the baseline's equation vanishes at `to` -/
theorem baselineEq_to (c : Cubic K) : LineEq.signedDistance (baselineEq c) c.b = 0 := by
  simp only [baselineEq, Line.equation, LineEq.new, Seg.toLine, Cubic.baseline, LineEq.signedDistance,
    geom, Nat.cast_one]
  ring

/-- `3u(1-u)² ≤ 4/9` on [0,1] -/
theorem w1_le (u : K) (h0 : 0 ≤ u) (h1 : u ≤ 1) : 3 * (1 - u) ^ 2 * u ≤ 4 / 9 := by
  have : 0 ≤ (1 - 3 * u) ^ 2 * (4 - 3 * u) := mul_nonneg (sq_nonneg _) (by linarith)
  nlinarith
/-- `3u²(1-u) ≤ 4/9` on [0,1] -/
theorem w2_le (u : K) (h0 : 0 ≤ u) (h1 : u ≤ 1) : 3 * (1 - u) * u ^ 2 ≤ 4 / 9 := by
  have : 0 ≤ (3 * u - 2) ^ 2 * (1 + 3 * u) := mul_nonneg (sq_nonneg _) (by linarith)
  nlinarith
/-- `3u(1-u) ≤ 3/4` -/
theorem w12_le (u : K) : 3 * (1 - u) ^ 2 * u + 3 * (1 - u) * u ^ 2 ≤ 3 / 4 := by
  nlinarith [sq_nonneg (2 * u - 1)]

/-- the Bernstein polynomial with end coefficients 0 stays inside the fat-line bounds computed
from the two inner coefficients (`lo ≤ hi` are the two in increasing order) -/
theorem fat_bound (e1 e2 lo hi u : K) (h0 : 0 ≤ u) (h1 : u ≤ 1)
    (hlh : (lo = e1 ∧ hi = e2) ∨ (lo = e2 ∧ hi = e1)) (hle : lo ≤ hi) :
    (if lo * hi > 0 then 3 / 4 else 4 / 9) * Min.min lo 0 ≤ bern 0 e1 e2 0 u
    ∧ bern 0 e1 e2 0 u ≤ (if lo * hi > 0 then 3 / 4 else 4 / 9) * Max.max hi 0 := by
  have hw1 : 0 ≤ 3 * (1 - u) ^ 2 * u := by have : 0 ≤ 1 - u := by linarith
                                           positivity
  have hw2 : 0 ≤ 3 * (1 - u) * u ^ 2 := by have : 0 ≤ 1 - u := by linarith
                                           positivity
  have hb : bern 0 e1 e2 0 u = 3 * (1 - u) ^ 2 * u * e1 + 3 * (1 - u) * u ^ 2 * e2 := by
    unfold bern; ring
  rw [hb]
  have a1 := w1_le u h0 h1
  have a2 := w2_le u h0 h1
  have a12 := w12_le u
  set w1 := 3 * (1 - u) ^ 2 * u
  set w2 := 3 * (1 - u) * u ^ 2
  by_cases hp : lo * hi > 0
  · rw [if_pos hp]
    rcases lt_or_ge 0 lo with hl | hl
    · -- both positive
      have hh : 0 < hi := by linarith
      rw [min_eq_right hl.le, max_eq_left hh.le]
      rcases hlh with ⟨rfl, rfl⟩ | ⟨rfl, rfl⟩ <;> constructor <;> nlinarith
    · -- lo ≤ 0, product positive: both negative
      have hl' : lo < 0 := by
        rcases eq_or_lt_of_le hl with h | h
        · rw [h] at hp; simp at hp
        · exact h
      have hh : hi < 0 := by
        by_contra hc
        have : 0 ≤ hi := not_lt.mp hc
        nlinarith
      rw [min_eq_left hl'.le, max_eq_right hh.le]
      rcases hlh with ⟨rfl, rfl⟩ | ⟨rfl, rfl⟩ <;> constructor <;> nlinarith
  · rw [if_neg hp]
    have hp' : lo * hi ≤ 0 := not_lt.mp hp
    have hl : lo ≤ 0 := by
      by_contra hc
      have : 0 < lo := not_le.mp hc
      have : 0 < hi := by linarith
      nlinarith
    have hh : 0 ≤ hi := by
      by_contra hc
      have : hi < 0 := not_le.mp hc
      have : lo < 0 := by linarith
      nlinarith
    rw [min_eq_left hl, max_eq_left hh]
    rcases hlh with ⟨rfl, rfl⟩ | ⟨rfl, rfl⟩ <;> constructor <;> nlinarith

/-- **fat-line property**: every point of a cubic has its signed distance to the cubic's own
baseline inside `fat_line_min_max` -/
theorem fatLine_contains (c : Cubic K) (u : K) (h0 : 0 ≤ u) (h1 : u ≤ 1) :
    (fatLineMinMax c).1 ≤ LineEq.signedDistance (baselineEq c) (c.sample u)
    ∧ LineEq.signedDistance (baselineEq c) (c.sample u) ≤ (fatLineMinMax c).2 := by
  rw [signedDistance_sample, baselineEq_from, baselineEq_to]
  set e1 := LineEq.signedDistance (baselineEq c) c.c1
  set e2 := LineEq.signedDistance (baselineEq c) c.c2
  have hmm : (fatD c).1 ≤ (fatD c).2 ∧
      (((fatD c).1 = e1 ∧ (fatD c).2 = e2) ∨ ((fatD c).1 = e2 ∧ (fatD c).2 = e1)) := by
    unfold fatD ixMinMax
    by_cases h : e1 < e2
    · rw [if_pos h]; exact ⟨h.le, Or.inl ⟨rfl, rfl⟩⟩
    · rw [if_neg h]; exact ⟨not_lt.mp h, Or.inr ⟨rfl, rfl⟩⟩
  have := fat_bound e1 e2 (fatD c).1 (fatD c).2 u h0 h1 hmm.2 hmm.1
  simp only [fatLineMinMax, fatFactor, ofNat_eq, Nat.cast_ofNat, Nat.cast_zero, sc_min, sc_max]
  exact this

end Lyon.Clip
