/-
  C02 growth (`Props/C02c.lean`), part 8: the signed area of `flush_side`'s triangles.

  `flush_area` — for EVERY input the `wind`s of the triangles `flush_side` emits for a buffered chain
  `e_0 … e_{len−1}` add up exactly to the `wind`-area of the closed polygon `e_0 … e_{len−1}`
  (left side; its negative on the right side): each level of the doubling loop removes the odd
  multiples of `step` from the closed polygon over the multiples of `step` (the left-over triangle
  `(0, last, last+step)` removes the final odd one across the closing edge), until two positions
  are left.  `flush_side` never re-orients a triangle, so this sum is exact — a chain triangle with
  negative `wind` is a triangle outside the chain polygon.
-/
import LyonVerif.Lemmas.MonotoneGeomArea
import LyonVerif.Lemmas.MonotoneAdv

set_option linter.unusedSectionVars false
set_option linter.unusedVariables false
set_option linter.unusedSimpArgs false

namespace Lyon.C02c
open Lyon Lyon.Mono Lyon.C02

section Geometry
variable {K : Type} [Field K] [LinearOrder K] [IsStrictOrderedRing K]

/-- `Σ_{j<m} E(q(j·s), q((j+1)·s))`: the path over the first `m+1` multiples of `s` -/
noncomputable def pathE (q : Nat → P K) (s : Nat) : Nat → K
  | 0 => 0
  | m + 1 => pathE q s m + E (q (m * s)) (q ((m + 1) * s))

/-- the closed polygon over the multiples of `s` below `len` -/
noncomputable def closedE (q : Nat → P K) (s len : Nat) : K :=
  pathE q s ((len - 1) / s) + E (q ((len - 1) / s * s)) (q 0)

theorem wind_swap23 (a b c : P K) : wind a c b = -wind a b c := by
  rw [wind_eq, wind_eq, E_anti c a, E_anti b c, E_anti a b]; ring

theorem sum_map_neg_list {ι : Type} (l : List ι) (f : ι → K) : (l.map (fun x => -f x)).sum = -(l.map f).sum := by
  induction l with
  | nil => simp
  | cons a r ih => simp only [List.map_cons, List.sum_cons, ih]; ring

/-- the main loop of one level: ears at the odd multiples -/
theorem level_main (q : Nat → P K) (s n : Nat) :
    ((List.range n).map (fun i => wind (q (i * 2 * s)) (q (i * 2 * s + s)) (q (i * 2 * s + s + s)))).sum =
      pathE q s (2 * n) - pathE q (2 * s) n := by
  induction n with
  | zero => simp [pathE]
  | succ n ih =>
    rw [List.range_succ, List.map_append, List.sum_append, ih]
    simp only [List.map_cons, List.map_nil, List.sum_cons, List.sum_nil, add_zero]
    rw [show 2 * (n + 1) = 2 * n + 1 + 1 by ring]
    simp only [pathE]
    rw [show 2 * n * s = n * 2 * s by ring, show (2 * n + 1) * s = n * 2 * s + s by ring,
      show (2 * n + 1 + 1) * s = n * 2 * s + s + s by ring, show n * (2 * s) = n * 2 * s by ring,
      show (n + 1) * (2 * s) = n * 2 * s + s + s by ring, wind_eq,
      E_anti (q (n * 2 * s)) (q (n * 2 * s + s + s))]
    ring

/-- sign of the emitted order: `+` on the left, `−` on the right -/
def sgF (right : Bool) : K := if right then -1 else 1

theorem flushLevel_area (pos : Nat → P K) (ev : Array Nat) (len step : Nat) (right : Bool) (hs : 1 ≤ step)
    (hlt : step * 2 < len) :
    sumW pos (flushLevel ev len step right) =
      sgF right * (closedE (fun i => pos (ev.getD i 0)) step len - closedE (fun i => pos (ev.getD i 0)) (2 * step) len) := by
  have hq2 : (len - 1) / (2 * step) = (len - 1) / step / 2 := by
    rw [Nat.div_div_eq_div_mul, Nat.mul_comm]
  have hm1 : 1 ≤ (len - 1) / (2 * step) := by
    rw [Nat.le_div_iff_mul_le (by omega)]; omega
  generalize hq : (fun i => pos (ev.getD i 0)) = q
  have hqa : ∀ i, pos (ev.getD i 0) = q i := fun i => by rw [← hq]
  -- the main part
  have hmain : sumW pos ((List.range ((len - 1) / (2 * step))).map (fun i =>
        if right then (ev.getD (i * 2 * step + step) 0, ev.getD (i * 2 * step) 0, ev.getD (i * 2 * step + step + step) 0)
        else (ev.getD (i * 2 * step) 0, ev.getD (i * 2 * step + step) 0, ev.getD (i * 2 * step + step + step) 0))) =
      sgF right * (pathE q step (2 * ((len - 1) / (2 * step))) - pathE q (2 * step) ((len - 1) / (2 * step))) := by
    rw [← level_main]
    simp only [sumW, List.map_map]
    cases right
    · simp only [sgF, Bool.false_eq_true, if_false, one_mul]
      congr 1
      apply List.map_congr_left
      intro i _
      simp only [Function.comp, triW, hqa]
    · simp only [sgF, if_true, neg_one_mul]
      rw [← sum_map_neg_list]
      congr 1
      apply List.map_congr_left
      intro i _
      simp only [Function.comp, triW, hqa]
      rw [wind_swap]
  obtain ⟨m', hm'⟩ : ∃ m', (len - 1) / (2 * step) = m' + 1 := ⟨(len - 1) / (2 * step) - 1, by omega⟩
  have hmul : (len - 1) / step * step ≤ len - 1 := Nat.div_mul_le_self _ _
  have hmul2 : (len - 1) / (2 * step) * (2 * step) ≤ len - 1 := Nat.div_mul_le_self _ _
  unfold flushLevel
  simp only [sumW_append]
  rw [hmain]
  rw [hm']
  have h0 : (m' + 1 == 0) = false := by simp
  simp only [h0, Bool.false_eq_true, if_false, Nat.add_sub_cancel]
  -- parity of the number of live steps
  have hm2 : (len - 1) / step = 2 * (m' + 1) ∨ (len - 1) / step = 2 * (m' + 1) + 1 := by omega
  have e1 : m' * 2 * step + step + step = (m' + 1) * (2 * step) := by ring
  simp only [closedE, hm']
  rcases hm2 with hm2 | hm2
  · -- even: no left-over triangle
    have hno : ¬ (m' * 2 * step + step + step + step < len) := by
      intro hh
      have : (2 * (m' + 1) + 1) * step ≤ len - 1 := by
        have : (2 * (m' + 1) + 1) * step = m' * 2 * step + step + step + step := by ring
        omega
      have := (Nat.le_div_iff_mul_le (by omega : 0 < step)).mpr this
      omega
    rw [if_neg hno, hm2]
    simp only [sumW_nil, add_zero]
    rw [show 2 * (m' + 1) * step = (m' + 1) * (2 * step) by ring]
    ring
  · -- odd: the left-over triangle removes the last odd multiple across the closing edge
    have hyes : m' * 2 * step + step + step + step < len := by
      have h1 : (2 * (m' + 1) + 1) * step ≤ len - 1 := by rw [← hm2]; exact hmul
      have : (2 * (m' + 1) + 1) * step = m' * 2 * step + step + step + step := by ring
      omega
    rw [if_pos hyes, hm2]
    simp only [sumW_cons, sumW_nil, add_zero]
    rw [show 2 * (m' + 1) + 1 = 2 * (m' + 1) + 1 from rfl]
    simp only [pathE]
    rw [show 2 * (m' + 1) * step = (m' + 1) * (2 * step) by ring,
      show (2 * (m' + 1) + 1) * step = (m' + 1) * (2 * step) + step by ring]
    rw [e1]
    cases right
    · simp only [sgF, Bool.false_eq_true, if_false, one_mul, triW, hqa, wind_eq]
      rw [E_anti (q 0) (q ((m' + 1) * (2 * step)))]
      ring
    · simp only [sgF, if_true, neg_one_mul, triW, hqa]
      rw [wind_swap23, wind_eq, E_anti (q 0) (q ((m' + 1) * (2 * step)))]
      ring

theorem flushLevels_area (pos : Nat → P K) (ev : Array Nat) (len : Nat) (right : Bool) (fuel step : Nat)
    (hs : 1 ≤ step) (hf : len ≤ step + fuel) :
    sumW pos (flushLevels ev len right fuel step) = sgF right * closedE (fun i => pos (ev.getD i 0)) step len := by
  induction fuel generalizing step with
  | zero =>
    have : (len - 1) / step = 0 := Nat.div_eq_of_lt (by omega)
    simp [flushLevels, closedE, this, pathE, E_self]
  | succ fuel ih =>
    simp only [flushLevels]
    split
    · rename_i hlt
      rw [sumW_append, flushLevel_area pos ev len step right hs hlt, ih (step * 2) (by omega) (by omega),
        Nat.mul_comm step 2]
      ring
    · rename_i hge
      have hlt2 : (len - 1) / step < 2 := by
        rw [Nat.div_lt_iff_lt_mul (by omega)]; omega
      have : (len - 1) / step = 0 ∨ (len - 1) / step = 1 := by
        generalize (len - 1) / step = m at hlt2 ⊢; omega
      rcases this with e | e
      · simp [closedE, e, pathE, E_self]
      · simp only [sumW_nil, closedE, e, pathE, Nat.zero_mul, Nat.one_mul, zero_add]
        rw [E_anti (pos (ev.getD 0 0)) (pos (ev.getD step 0))]; ring

/-- **signed area of `flush_side`'s triangles** = `±` the `wind`-area of the closed chain polygon -/
theorem flush_area (pos : Nat → P K) (ev : Array Nat) (len : Nat) (right : Bool) :
    sumW pos (flushLevels ev len right (len + 1) 1) = sgF right * closedE (fun i => pos (ev.getD i 0)) 1 len :=
  flushLevels_area pos ev len right (len + 1) 1 (by omega) (by omega)

end Geometry

end Lyon.C02c
