/-
  C02 growth 3 (`Props/C02f.lean`), part 14: `Adv.end_` and the whole run of the advanced monotone
  tessellator under the invariant `Y3`: if every buffered chain of every reached state is
  chord-clear (`ChordClearRun`), the area sum of `Adv.run` is AT MOST the polygon's shoelace area
  (`adv_run_area_le`), hence equal to it (`adv_run_area` of `Lemmas/MonotoneAdvRun.lean`).
-/
import LyonVerif.Lemmas.MonotoneTileAdvEnd

set_option linter.unusedSectionVars false
set_option linter.unusedVariables false
set_option linter.unusedSimpArgs false

namespace Lyon.C02f
open Lyon Lyon.Mono Lyon.C02 Lyon.C02c

section Geometry
variable {K : Type} [Field K] [LinearOrder K] [IsStrictOrderedRing K]

variable (seq : List (P K × Bool))

/-- **`Adv.end_`** -/
theorem end_y (hval : SweepValid seq) (st : Adv K) (k : Nat) (hk : k + 1 = seq.length) (h : YA seq k st)
    (hc : ChordClearA seq st) (pe : P K) (hpe : posOf seq k = pe) :
    sumW (posOf seq) (st.end_ pe k).tris ≤
      PhiA (posOf seq) st + wind st.left.last.pos pe st.right.last.pos := by
  rw [end_eq]
  unfold endCore
  have h0 : Y3 seq true k st.tess st.left st.right := h
  have hPhi : PhiA (posOf seq) st =
      Phi (posOf seq) st.tess true st.left.events st.left.last.pos st.right.events st.right.last.pos := rfl
  rw [hPhi]
  subst hpe
  have hkn : k ≤ seq.length := by omega
  rcases flushSide_cases st.left false with ⟨ha, ea⟩ | ⟨ha, a1, a2, a3, a4⟩ <;>
  rcases flushSide_cases st.right true with ⟨hb, eb⟩ | ⟨hb, b1, b2, b3, b4⟩
  · simp only [ea, eb, Option.isSome_none, Bool.false_eq_true, if_false, pushTris_nil]
    exact finish_le h0.p3 ha hb _ k rfl (end_noflip seq hval hk h0 ha hb)
  · -- only the right chain is flushed
    simp only [ea, b3, b4, Option.isSome_none, Option.isSome_some, Bool.false_eq_true, if_false, if_true, pushTris_nil]
    obtain ⟨p1, q1⟩ := pushTris_pot h0.p3 (flushLevels st.right.events.toArray st.right.events.length true
      (st.right.events.length + 1) 1)
    rw [flush_area, ← chainPoly_eq] at q1
    simp only [sgF, if_true, neg_one_mul] at q1
    have hy2 := Y3.symm seq (Y3.pushTris seq h0 (flushLevels st.right.events.toArray st.right.events.length true
      (st.right.events.length + 1) 1))
    obtain ⟨f1, f2⟩ := fwd_y seq hval hkn hy2 hb hc.2 (fun g => by omega) (flushSide st.right true).1 b1 b2
    have f1' := Y3.symm seq f1
    simp only [Bool.not_true, Bool.not_false] at f1'
    have fin := finish_le f1'.p3 ha (by rw [b1]; simp) (posOf seq k) k rfl
      (end_noflip seq hval hk f1' ha (by rw [b1]; simp))
    rw [b1, b2] at fin
    generalize (st.tess.pushTris (flushLevels st.right.events.toArray st.right.events.length true
      (st.right.events.length + 1) 1)) = T1 at q1 f2 fin ⊢
    have s1 := Phi_symm (posOf seq) T1 true st.left.events st.right.events st.left.last.pos st.right.last.pos
    have s2 := Phi_symm (posOf seq) (T1.vertex st.right.last) true st.left.events [st.right.last.id]
      st.left.last.pos st.right.last.pos
    simp only [Bool.not_true] at s1 s2
    simp only [sg, Bool.not_true, Bool.false_eq_true, if_false, neg_one_mul] at f2
    linarith
  · -- only the left chain is flushed
    simp only [eb, a3, a4, Option.isSome_none, Option.isSome_some, Bool.false_eq_true, if_false, if_true, pushTris_nil]
    obtain ⟨p1, q1⟩ := pushTris_pot h0.p3 (flushLevels st.left.events.toArray st.left.events.length false
      (st.left.events.length + 1) 1)
    rw [flush_area, ← chainPoly_eq] at q1
    simp only [sgF, Bool.false_eq_true, if_false, one_mul] at q1
    have hy1 := Y3.pushTris seq h0 (flushLevels st.left.events.toArray st.left.events.length false
      (st.left.events.length + 1) 1)
    obtain ⟨f1, f2⟩ := fwd_y seq hval hkn hy1 ha hc.1 (fun g => by omega) (flushSide st.left false).1 a1 a2
    have fin := finish_le f1.p3 (by rw [a1]; simp) hb (posOf seq k) k rfl
      (end_noflip seq hval hk f1 (by rw [a1]; simp) hb)
    rw [a1, a2] at fin
    simp only [sg, if_true, one_mul] at f2
    linarith
  · -- both chains are flushed
    simp only [a3, a4, b3, b4, Option.isSome_some, if_true]
    obtain ⟨p1, q1⟩ := pushTris_pot h0.p3 (flushLevels st.left.events.toArray st.left.events.length false
      (st.left.events.length + 1) 1)
    obtain ⟨p2, q2⟩ := pushTris_pot p1 (flushLevels st.right.events.toArray st.right.events.length true
      (st.right.events.length + 1) 1)
    rw [flush_area, ← chainPoly_eq] at q1 q2
    simp only [sgF, Bool.false_eq_true, if_false, if_true, one_mul, neg_one_mul] at q1 q2
    have hy2 := Y3.pushTris seq (Y3.pushTris seq h0 (flushLevels st.left.events.toArray st.left.events.length false
      (st.left.events.length + 1) 1)) (flushLevels st.right.events.toArray st.right.events.length true
      (st.right.events.length + 1) 1)
    generalize ((st.tess.pushTris (flushLevels st.left.events.toArray st.left.events.length false
      (st.left.events.length + 1) 1)).pushTris (flushLevels st.right.events.toArray st.right.events.length true
      (st.right.events.length + 1) 1)) = T2 at p2 q2 hy2 ⊢
    have hgl := h0.ca.good
    have hgr := h0.cb.good
    unfold Good at hgl hgr
    have hln : st.left.last.id < seq.length := by have := h0.ca.lt _ (h0.ca.last_mem seq); omega
    have hrn : st.right.last.id < seq.length := by have := h0.cb.lt _ (h0.cb.last_mem seq); omega
    split
    · -- right forwarded first (the left end comes after the right end)
      rename_i hia
      have haft := (isAfter_iff _ _).mp hia
      rw [hgl, hgr] at haft
      have hlt := id_lt_of_after seq hval hln hrn haft
      obtain ⟨f1, f2⟩ := fwd_y seq hval hkn (Y3.symm seq hy2) hb hc.2 (fun _ => hlt) (flushSide st.right true).1 b1 b2
      have f1' := Y3.symm seq f1
      simp only [Bool.not_true, Bool.not_false] at f1'
      obtain ⟨g1, g2⟩ := fwd_y seq hval hkn f1' ha hc.1 (fun g => by rw [b1] at g; simp at g)
        (flushSide st.left false).1 a1 a2
      have fin := finish_le g1.p3 (by rw [a1]; simp) (by rw [b1]; simp) (posOf seq k) k rfl
        (end_noflip seq hval hk g1 (by rw [a1]; simp) (by rw [b1]; simp))
      rw [a1, a2, b1, b2] at fin
      rw [b1, b2] at g2
      have s1 := Phi_symm (posOf seq) T2 true st.left.events st.right.events st.left.last.pos st.right.last.pos
      have s2 := Phi_symm (posOf seq) (T2.vertex st.right.last) true st.left.events [st.right.last.id]
        st.left.last.pos st.right.last.pos
      simp only [Bool.not_true] at s1 s2
      simp only [sg, Bool.not_true, Bool.not_false, Bool.false_eq_true, if_false, if_true, one_mul, neg_one_mul] at f2 g2
      linarith
    · -- left forwarded first
      rename_i hia
      have hna : ¬ After st.left.last.pos st.right.last.pos := fun g => hia ((isAfter_iff _ _).mpr g)
      rw [hgl, hgr] at hna
      have hle := id_le_of_not_after seq hval hln hrn hna
      have hne := h0.ends_ne seq hb
      obtain ⟨f1, f2⟩ := fwd_y seq hval hkn hy2 ha hc.1 (fun _ => by omega) (flushSide st.left false).1 a1 a2
      obtain ⟨g1, g2⟩ := fwd_y seq hval hkn (Y3.symm seq f1) hb hc.2 (fun g => by rw [a1] at g; simp at g)
        (flushSide st.right true).1 b1 b2
      have g1' := Y3.symm seq g1
      simp only [Bool.not_true, Bool.not_false] at g1'
      have fin := finish_le g1'.p3 (by rw [a1]; simp) (by rw [b1]; simp) (posOf seq k) k rfl
        (end_noflip seq hval hk g1' (by rw [a1]; simp) (by rw [b1]; simp))
      rw [a1, a2, b1, b2] at fin
      rw [a1, a2] at g2
      have s1 := Phi_symm (posOf seq) (T2.vertex st.left.last) true [st.left.last.id] st.right.events
        st.left.last.pos st.right.last.pos
      have s2 := Phi_symm (posOf seq) ((T2.vertex st.left.last).vertex st.right.last) true [st.left.last.id]
        [st.right.last.id] st.left.last.pos st.right.last.pos
      simp only [Bool.not_true] at s1 s2
      simp only [sg, Bool.not_true, Bool.not_false, Bool.false_eq_true, if_false, if_true, one_mul, neg_one_mul] at f2 g2
      linarith

/-! ## the whole run -/

theorem afeed_y (hval : SweepValid seq) (vs : List (P K × Bool)) (st : Adv K) (k : Nat)
    (hvs : ∀ i (h : i < vs.length), seq[k + i]? = some vs[i]) (hk : k + vs.length + 1 = seq.length)
    (h : YA seq k st) (hc : ∀ i, ChordClearA seq (afeed st k (vs.take i))) :
    sumW (posOf seq) ((afeed st k vs).end_ (posOf seq (k + vs.length)) (k + vs.length)).tris ≤
      PhiA (posOf seq) st + polyAcc st.left.last.pos st.right.last.pos vs (posOf seq (k + vs.length)) := by
  induction vs generalizing st k with
  | nil =>
    simp only [List.length_nil, Nat.add_zero] at hk ⊢
    have := hc 0
    simp only [List.take_nil, afeed] at this
    simpa [afeed, polyAcc] using end_y seq hval st k hk h this _ rfl
  | cons v r ih =>
    obtain ⟨p, l⟩ := v
    simp only [List.length_cons] at hk
    have h0 := hvs 0 (by simp)
    simp only [Nat.add_zero, List.getElem_cons_zero] at h0
    have hp : posOf seq k = p := by simp [posOf, h0]
    have hl : sideAt seq k = l := by simp [sideAt, h0]
    have hc0 := hc 0
    simp only [List.take_zero, afeed] at hc0
    obtain ⟨v1, v2⟩ := vertex_y seq hval st p k l (by omega) h hp hl hc0
    obtain ⟨_, _, v3, v4⟩ := vertex_pa (posOf seq) st p k l h.p3 hp
    have ih' := ih (st.vertex p k l) (k + 1) (by
      intro i hi
      have := hvs (i + 1) (by simp only [List.length_cons]; omega)
      simp only [List.getElem_cons_succ] at this
      rw [← this]; congr 1; omega) (by omega) v1 (by
      intro i
      have := hc (i + 1)
      simpa [afeed] using this)
    simp only [afeed, polyAcc, List.length_cons]
    rw [show k + (r.length + 1) = k + 1 + r.length by omega]
    rw [v3, v4] at ih'
    linarith

/-- the middle vertices of a sweep sequence (everything but the apex and the bottom vertex) -/
def midsOf (seq : List (P K × Bool)) : List (P K × Bool) := seq.tail.take (seq.tail.length - 1)

/-- **the chord-clear condition of a run**: in every state the advanced tessellator reaches while
the middle vertices are fed, both buffered chains are chord-clear (`ChordClear`) -/
def ChordClearRun : Prop :=
  ∀ i, ChordClearA seq (afeed (Adv.begin Adv.new (posOf seq 0) 0) 1 ((midsOf seq).take i))

/-- **area, advanced tessellator, upper bound**: on a valid sweep sequence whose run is
chord-clear the `wind`s of the triangles of `Adv.run` add up to at most the shoelace area — with
`adv_run_area`: exactly the shoelace area -/
theorem adv_run_area_le (h2 : 2 ≤ seq.length) (hval : SweepValid seq) (hcc : ChordClearRun seq) :
    sumW (posOf seq) (Adv.run seq) ≤ shoelaceW (polygonOf seq) := by
  match seq, h2, hval, hcc with
  | (p0, b0) :: v1 :: rest, _, hval, hcc =>
    have hlen : 0 + 1 + (List.take ((v1 :: rest).length - 1) (v1 :: rest)).length = (v1 :: rest).length := by
      simp only [List.length_take, List.length_cons]; omega
    have hpos : ∀ i (h : i < (List.take ((v1 :: rest).length - 1) (v1 :: rest)).length),
        ((p0, b0) :: v1 :: rest)[0 + 1 + i]? = some (List.take ((v1 :: rest).length - 1) (v1 :: rest))[i] := by
      intro i hi
      simp only [List.length_take, List.length_cons] at hi
      simp only [List.getElem_take]
      rw [show 0 + 1 + i = i + 1 by omega, List.getElem?_cons_succ,
        List.getElem?_eq_getElem (by simp only [List.length_cons]; omega)]
    have hpe : posOf ((p0, b0) :: v1 :: rest) (v1 :: rest).length = ((v1 :: rest).getLast?.map (·.1)).getD p0 := by
      simp only [posOf, List.length_cons, List.getElem?_cons_succ]
      rw [List.getLast?_eq_getElem?]
      simp only [List.length_cons, Nat.add_sub_cancel]
      rw [List.getElem?_eq_getElem (by simp only [List.length_cons]; omega)]
      rfl
    have hb := begin_y ((p0, b0) :: v1 :: rest) p0 (by simp [posOf]) (by simp)
    obtain ⟨_, b2⟩ := begin_pa (posOf ((p0, b0) :: v1 :: rest)) (Adv.new (α := K)) p0 (by simp [posOf])
    have hfa := afeed_y ((p0, b0) :: v1 :: rest) hval (List.take ((v1 :: rest).length - 1) (v1 :: rest))
      (Adv.begin Adv.new p0 0) (0 + 1) hpos (by rw [hlen]; simp) hb (by
        intro i
        have := hcc i
        simpa [midsOf, posOf] using this)
    rw [hlen, hpe, b2] at hfa
    have e : polyAcc (Adv.begin (Adv.new (α := K)) p0 0).left.last.pos (Adv.begin (Adv.new (α := K)) p0 0).right.last.pos
        (List.take ((v1 :: rest).length - 1) (v1 :: rest)) (((v1 :: rest).getLast?.map (·.1)).getD p0) =
        shoelaceW (polygonOf ((p0, b0) :: v1 :: rest)) := polyAcc_eq_shoelace p0 b0 v1 rest
    rw [e] at hfa
    simp only [Adv.run, foldl_zipIdx_eq_afeed]
    linarith

end Geometry

end Lyon.C02f
