/-
  C02 growth 4 (`Props/C02g.lean`), part 3: `flush_side`'s doubling loop (`flushLevel`,
  `flushLevels` of `Model/Tess/Monotone.lean`) as an ear sequence of the chain polygon:
  `level_tiles` (one level, in lyon's emission order: the ears at the odd multiples, then the
  left-over triangle across the chord), `levels_tiles`, `flush_fan_tiles` (the whole loop tiles the
  region between the buffered chain and its chord: every fan triangle lies in it, the triangles are
  pairwise interior-disjoint, their closures cover it).
-/
import LyonVerif.Lemmas.MonotoneTileAdvSetFan

set_option linter.unusedSectionVars false
set_option linter.unusedVariables false
set_option linter.unusedSimpArgs false

namespace Lyon.C02f
open Lyon Lyon.Mono Lyon.C02 Lyon.C02c

section Geometry
variable {K : Type} [Field K] [LinearOrder K] [IsStrictOrderedRing K]

theorem inTri_rot (a b c q : P K) : InTri a b c q ↔ InTri b c a q := by
  unfold InTri; constructor <;> rintro ⟨h1, h2, h3⟩ <;> exact ⟨by assumption, by assumption, by assumption⟩

theorem inTriC_rot (a b c q : P K) : InTriC a b c q ↔ InTriC b c a q := by
  unfold InTriC; constructor <;> rintro ⟨h1, h2, h3⟩ <;> exact ⟨by assumption, by assumption, by assumption⟩

/-- the emitted id triple of an ear at positions `(a, b, d)` -/
def posTri (ev : Array Nat) (right : Bool) (t : Nat × Nat × Nat) : Tri :=
  if right then (ev.getD t.2.1 0, ev.getD t.1 0, ev.getD t.2.2 0) else (ev.getD t.1 0, ev.getD t.2.1 0, ev.getD t.2.2 0)

/-- the emitted id triple of the left-over triangle at positions `(0, b, d)` -/
def posTriX (ev : Array Nat) (right : Bool) (t : Nat × Nat × Nat) : Tri :=
  if right then (ev.getD t.1 0, ev.getD t.2.2 0, ev.getD t.2.1 0) else (ev.getD t.1 0, ev.getD t.2.1 0, ev.getD t.2.2 0)

variable (pos : Nat → P K) (ev : Array Nat)

theorem posTri_in (right : Bool) (t : Nat × Nat × Nat) (x : P K) :
    (TriIn pos (posTri ev right t) x ↔
      InTriS (!right) (pos (ev.getD t.1 0)) (pos (ev.getD t.2.1 0)) (pos (ev.getD t.2.2 0)) x) ∧
    (InTriSC (!right) (pos (ev.getD t.1 0)) (pos (ev.getD t.2.1 0)) (pos (ev.getD t.2.2 0)) x →
      TriInC pos (posTri ev right t) x) := by
  cases right
  · simp [posTri, TriIn, TriInC, inTriS_true, inTriSC_true]
  · simp [posTri, TriIn, TriInC, inTriS_false, inTriSC_false]

theorem posTriX_in (right : Bool) (t : Nat × Nat × Nat) (x : P K) :
    (TriIn pos (posTriX ev right t) x ↔
      InTriS (!right) (pos (ev.getD t.1 0)) (pos (ev.getD t.2.1 0)) (pos (ev.getD t.2.2 0)) x) ∧
    (InTriSC (!right) (pos (ev.getD t.1 0)) (pos (ev.getD t.2.1 0)) (pos (ev.getD t.2.2 0)) x →
      TriInC pos (posTriX ev right t) x) := by
  cases right
  · simp [posTriX, TriIn, TriInC, inTriS_true, inTriSC_true]
  · simp only [posTriX, if_true, Bool.not_true, TriIn, TriInC, inTriS_false, inTriSC_false]
    exact ⟨(inTri_rot _ _ _ _).symm, fun g => (inTriC_rot _ _ _ _).mp g⟩

theorem ConvexChain.mid_side {q : Nat → P K} {c : Bool} {len : Nat} (h : ConvexChain q c len) {p t : Nat}
    (hp : p ≤ t) (ht : t < len) : 0 ≤ sg c * wind (q 0) (q p) (q t) := by
  have := (h.chord_side hp ht).1
  rw [sg_not, wind_swap_bc] at this
  linarith

/-- **one level of the doubling loop** -/
theorem level_tiles (right : Bool) (len step : Nat)
    (h : ConvexChain (fun i => pos (ev.getD i 0)) (!right) len) (hs : 1 ≤ step) (hlt : step * 2 < len) :
    Tiles (polyAt (fun i => pos (ev.getD i 0)) (!right) len step) (TriIn pos) (TriInC pos)
      (flushLevel ev len step right) (polyAt (fun i => pos (ev.getD i 0)) (!right) len (2 * step)) := by
  generalize hq : (fun i => pos (ev.getD i 0)) = q at h ⊢
  have hqa : ∀ i, pos (ev.getD i 0) = q i := fun i => by rw [← hq]
  have hq2 : (len - 1) / (2 * step) = (len - 1) / step / 2 := by
    rw [Nat.div_div_eq_div_mul, Nat.mul_comm]
  have hm1 : 1 ≤ (len - 1) / (2 * step) := by
    rw [Nat.le_div_iff_mul_le (by omega)]; omega
  have hmul : (len - 1) / step * step ≤ len - 1 := Nat.div_mul_le_self _ _
  have hm : (len - 1) / step * step < len := by omega
  obtain ⟨m', hm'⟩ : ∃ m', (len - 1) / (2 * step) = m' + 1 := ⟨(len - 1) / (2 * step) - 1, by omega⟩
  have hm2 : (len - 1) / step = 2 * (m' + 1) ∨ (len - 1) / step = 2 * (m' + 1) + 1 := by omega
  -- the ears at the odd multiples
  have T1 := (mains_tiles h step ((len - 1) / step) hs hm (m' + 1) (by omega)).map (posTri ev right)
    (fun t _ x => by have := (posTri_in pos ev right t x).1; simpa only [hqa] using this)
    (fun t _ x => by have := (posTri_in pos ev right t x).2; simpa only [hqa] using this)
  have hmain : ((List.range (m' + 1)).map (triS step)).map (posTri ev right) =
      (List.range (m' + 1)).map (fun i =>
        if right then (ev.getD (i * 2 * step + step) 0, ev.getD (i * 2 * step) 0, ev.getD (i * 2 * step + step + step) 0)
        else (ev.getD (i * 2 * step) 0, ev.getD (i * 2 * step + step) 0, ev.getD (i * 2 * step + step + step) 0)) := by
    rw [List.map_map]
    apply List.map_congr_left
    intro i _
    simp only [Function.comp, triS, posTri]
  rw [hmain] at T1
  unfold flushLevel
  simp only [hm']
  have h0 : (m' + 1 == 0) = false := by simp
  simp only [h0, Bool.false_eq_true, if_false, Nat.add_sub_cancel]
  have e1 : m' * 2 * step + step + step = (m' + 1) * (2 * step) := by ring
  unfold polyAt
  rw [hm']
  rcases hm2 with hm2 | hm2
  · -- even number of live steps: no left-over triangle
    have hno : ¬ (m' * 2 * step + step + step + step < len) := by
      intro hh
      have : (2 * (m' + 1) + 1) * step ≤ len - 1 := by
        have : (2 * (m' + 1) + 1) * step = m' * 2 * step + step + step + step := by ring
        omega
      have := (Nat.le_div_iff_mul_le (by omega : 0 < step)).mpr this
      omega
    rw [if_neg hno, List.append_nil]
    have ec : chainN q step ((len - 1) / step) (m' + 1) = pts q (2 * step) (List.range (m' + 1 + 1)) := by
      simp only [chainN, hm2, Nat.sub_self, List.range'_zero, pts, List.map_nil, List.append_nil]
    have et : (len - 1) / step * step = (m' + 1) * (2 * step) := by rw [hm2]; ring
    rw [ec, et] at T1
    rw [et]
    exact T1
  · -- odd: the left-over triangle cuts the last live vertex off across the chord
    have hyes : m' * 2 * step + step + step + step < len := by
      have h1 : (2 * (m' + 1) + 1) * step ≤ len - 1 := by rw [← hm2]; exact hmul
      have : (2 * (m' + 1) + 1) * step = m' * 2 * step + step + step + step := by ring
      omega
    rw [if_pos hyes]
    have et : (len - 1) / step * step = (m' + 1) * (2 * step) + step := by rw [hm2]; ring
    have ec : chainN q step ((len - 1) / step) (m' + 1) =
        pts q (2 * step) (List.range (m' + 1)) ++ [q ((m' + 1) * (2 * step)), q ((m' + 1) * (2 * step) + step)] := by
      simp only [chainN, hm2, pts]
      rw [show 2 * (m' + 1) + 1 - 2 * (m' + 1) = 1 by omega, List.range_succ (n := m' + 1), List.map_append]
      simp only [List.range'_one, List.map_cons, List.map_nil, List.append_assoc, List.singleton_append]
      congr 3
      ring_nf
    rw [ec, et] at T1
    rw [et]
    refine T1.trans ?_
    have hb : (m' + 1) * (2 * step) < len := by omega
    have hz : (m' + 1) * (2 * step) + step < len := by omega
    have hCb : pts q (2 * step) (List.range (m' + 1)) ++ [q ((m' + 1) * (2 * step))] =
        pts q (2 * step) (List.range (m' + 1 + 1)) := by
      simp only [pts]
      rw [List.range_succ (n := m' + 1), List.map_append]
      rfl
    have hsort : SortedP (pts q (2 * step) (List.range (m' + 1 + 1))) :=
      h.sorted_pts (2 * step) (by omega) _ (by rw [List.range_eq_range']; exact List.pairwise_lt_range') (by
        intro j hj
        have : j ≤ m' + 1 := by have := List.mem_range.mp hj; omega
        have : j * (2 * step) ≤ (m' + 1) * (2 * step) := Nat.mul_le_mul_right _ this
        omega)
    have tail := tail_ear_tiles (!right) (pts q (2 * step) (List.range (m' + 1))) (o := q 0)
      (b := q ((m' + 1) * (2 * step))) (z := q ((m' + 1) * (2 * step) + step))
      (by rw [hCb]; simp [pts, List.range_succ_eq_map])
      (by rw [hCb]; exact hsort)
      (h.sort _ _ (by
        have : 0 < (m' + 1) * (2 * step) := Nat.mul_pos (by omega) (by omega)
        exact this) hb)
      (h.sort _ _ (by omega) hz)
      (h.conv 0 _ _ (Nat.mul_pos (by omega) (by omega)) (by omega) hz)
      (by
        rw [hCb]
        intro v hv
        simp only [pts, List.mem_map, List.mem_range] at hv
        obtain ⟨j, hj, rfl⟩ := hv
        exact h.mid_side (Nat.mul_le_mul_right _ (by omega)) hb)
    have tail' := tail.map (fun _ => posTriX ev right (0, (m' + 1) * (2 * step), (m' + 1) * (2 * step) + step))
      (fun _ _ x => by have := (posTriX_in pos ev right (0, (m' + 1) * (2 * step), (m' + 1) * (2 * step) + step) x).1
                       simpa only [hqa] using this)
      (fun _ _ x => by have := (posTriX_in pos ev right (0, (m' + 1) * (2 * step), (m' + 1) * (2 * step) + step) x).2
                       simpa only [hqa] using this)
    rw [hCb] at tail'
    have ex : [()].map (fun _ => posTriX ev right (0, (m' + 1) * (2 * step), (m' + 1) * (2 * step) + step)) =
        [if right = true then (ev.getD 0 0, ev.getD (m' * 2 * step + step + step + step) 0, ev.getD (m' * 2 * step + step + step) 0)
         else (ev.getD 0 0, ev.getD (m' * 2 * step + step + step) 0, ev.getD (m' * 2 * step + step + step + step) 0)] := by
      simp only [List.map_cons, List.map_nil, posTriX, e1]
    rw [ex] at tail'
    exact tail'

theorem polyAt_empty (q : Nat → P K) (c : Bool) (len step : Nat) (hm : (len - 1) / step ≤ 1) (x : P K) :
    ¬ polyAt q c len step x := by
  unfold polyAt
  have : (len - 1) / step = 0 ∨ (len - 1) / step = 1 := by
    generalize (len - 1) / step = m at hm ⊢; omega
  rcases this with e | e
  · rw [e]
    rintro ⟨h1, _⟩
    simp only [pts, List.range_one, List.map_cons, List.map_nil] at h1
    exact chainIn_single _ _ x h1
  · rw [e]
    simp only [pts, List.range_succ, List.range_zero, List.nil_append, List.cons_append, List.map_cons, List.map_nil,
      Nat.zero_mul, Nat.one_mul]
    exact fan_rest_empty c [] (by simp [SortedP]) x

/-- **the whole doubling loop** from level `step` on -/
theorem levels_tiles (right : Bool) (len : Nat) (h : ConvexChain (fun i => pos (ev.getD i 0)) (!right) len)
    (fuel step : Nat) (hs : 1 ≤ step) (hf : len ≤ step + fuel) :
    Tiles (polyAt (fun i => pos (ev.getD i 0)) (!right) len step) (TriIn pos) (TriInC pos)
      (flushLevels ev len right fuel step) (fun _ => False) := by
  induction fuel generalizing step with
  | zero =>
    have hm : (len - 1) / step = 0 := Nat.div_eq_of_lt (by omega)
    simp only [flushLevels]
    exact (Tiles.refl _ _ _).rebase (fun _ g => g) (fun _ g => Or.inl g)
      (fun x => ⟨False.elim, fun g => polyAt_empty _ _ len step (by omega) x g⟩)
  | succ fuel ih =>
    simp only [flushLevels]
    split
    · rename_i hlt
      have t1 := level_tiles pos ev right len step h hs hlt
      have t2 := ih (step * 2) (by omega) (by omega)
      rw [Nat.mul_comm 2 step] at t1
      exact t1.trans t2
    · rename_i hge
      have hlt2 : (len - 1) / step < 2 := by
        rw [Nat.div_lt_iff_lt_mul (by omega)]; omega
      exact (Tiles.refl _ _ _).rebase (fun _ g => g) (fun _ g => Or.inl g)
        (fun x => ⟨False.elim, fun g => polyAt_empty _ _ len step (by omega) x g⟩)

theorem polyAt_one (q : Nat → P K) (c : Bool) (len : Nat) (hl : 1 ≤ len) :
    polyAt q c len 1 = InPoly c ((List.range len).map q) [q 0, q (len - 1)] := by
  unfold polyAt pts
  simp only [Nat.div_one, Nat.mul_one]
  rw [show len - 1 + 1 = len by omega]

/-- **`flush_side`'s fan is a triangulation of the chain polygon**: for a chain of `len` ids
(`ev`), strictly sorted and strictly convex to its side, the triangles of the doubling loop lie in
the region between the chain and its chord `first → last`, are pairwise interior-disjoint, and
their closures cover that region. -/
theorem flush_fan_tiles (right : Bool) (len : Nat) (hl : 1 ≤ len)
    (h : ConvexChain (fun i => pos (ev.getD i 0)) (!right) len) :
    Tiles (InPoly (!right) ((List.range len).map (fun i => pos (ev.getD i 0)))
        [pos (ev.getD 0 0), pos (ev.getD (len - 1) 0)])
      (TriIn pos) (TriInC pos) (flushLevels ev len right (len + 1) 1) (fun _ => False) := by
  have := levels_tiles pos ev right len h (len + 1) 1 (by omega) (by omega)
  rw [polyAt_one _ _ _ hl] at this
  exact this

end Geometry

end Lyon.C02f
