/-
  Helper definitions and lemmas for C14 about `Model/Path/Store.lean`:
  what a builder program stores (`emitPts`, `emitVerbs`), and the point-iterator primitives on
  exactly such storage.  Mathlib-free.
-/
import LyonVerif.Model.Path.Store

namespace Lyon.Path

variable {S : Type} [Inhabited S]
set_option linter.unusedSectionVars false

abbrev Prog (S : Type) := List (Call (Pt S) (List S))

/-! ### attribute packing -/

theorem packAttrs_length (a : List S) : (packAttrs a).length = attribStride a.length := by
  induction a using packAttrs.induct with
  | case1 => simp [packAttrs, attribStride]
  | case2 x => simp [packAttrs, attribStride]
  | case3 x y r ih => simp [packAttrs, attribStride] at *; omega

theorem flat_pack_take (a : List S) (rest : List (Pt S)) :
    (flatPts (packAttrs a ++ rest)).take a.length = a := by
  induction a using packAttrs.induct with
  | case1 => simp
  | case2 x => simp [packAttrs, flatPts]
  | case3 x y r ih => simp [packAttrs, flatPts, ih]

/-- the points stored for one endpoint: position, then its packed attributes -/
def endpointPts (p : Pt S) (a : List S) : List (Pt S) := p :: packAttrs a

theorem endpointPts_length (p : Pt S) (a : List S) :
    (endpointPts p a).length = attribStride a.length + 1 := by
  simp [endpointPts, packAttrs_length]

theorem advanceN_append (l rest : List (Pt S)) (k : Nat) (h : l.length = k) :
    advanceN k (l ++ rest) = some rest := by
  subst h; simp [advanceN]

theorem popSkip_endpoint (n : Nat) (p : Pt S) (a : List S) (rest : List (Pt S)) (h : a.length = n) :
    popSkip (attribStride n) (endpointPts p a ++ rest) = some (p, rest) := by
  subst h
  simp [popSkip, popPt, endpointPts, advanceN_append _ _ _ (packAttrs_length a)]

theorem popEndpoint_endpoint (n : Nat) (p : Pt S) (a : List S) (rest : List (Pt S)) (h : a.length = n) :
    popEndpoint n (endpointPts p a ++ rest) = some ((p, a), rest) := by
  subst h
  simp [popEndpoint, popPt, endpointPts, advanceN_append _ _ _ (packAttrs_length a), flat_pack_take]

/-! ### what a program stores -/

/-- every endpoint of the program carries exactly `n` attributes -/
def attrsOk (n : Nat) : Prog S → Bool
  | [] => true
  | .begin _ a :: r => a.length == n && attrsOk n r
  | .line _ a :: r => a.length == n && attrsOk n r
  | .quad _ _ a :: r => a.length == n && attrsOk n r
  | .cubic _ _ _ a :: r => a.length == n && attrsOk n r
  | .end_ _ :: r => attrsOk n r

/-- the points a program appends to the storage; `f`, `fa` = the builder's `first`,
`first_attributes` -/
def emitPts : Pt S → List S → Prog S → List (Pt S)
  | _, _, [] => []
  | _, _, .begin p a :: r => endpointPts p a ++ emitPts p a r
  | f, fa, .line p a :: r => endpointPts p a ++ emitPts f fa r
  | f, fa, .quad c p a :: r => c :: (endpointPts p a ++ emitPts f fa r)
  | f, fa, .cubic c1 c2 p a :: r => c1 :: c2 :: (endpointPts p a ++ emitPts f fa r)
  | f, fa, .end_ true :: r => endpointPts f fa ++ emitPts f fa r
  | f, fa, .end_ false :: r => emitPts f fa r

/-- the verbs a program appends -/
def emitVerbs : Prog S → List Verb
  | [] => []
  | .begin _ _ :: r => Verb.begin :: emitVerbs r
  | .line _ _ :: r => Verb.lineTo :: emitVerbs r
  | .quad _ _ _ :: r => Verb.quadraticTo :: emitVerbs r
  | .cubic _ _ _ _ :: r => Verb.cubicTo :: emitVerbs r
  | .end_ true :: r => Verb.close :: emitVerbs r
  | .end_ false :: r => Verb.end_ :: emitVerbs r

/-- the builder's `first` / `first_attributes` after a program -/
def firstAfter : Pt S → List S → Prog S → Pt S × List S
  | f, fa, [] => (f, fa)
  | _, _, .begin p a :: r => firstAfter p a r
  | f, fa, _ :: r => firstAfter f fa r

theorem firstAfter_length (n : Nat) (f : Pt S) (fa : List S) (prog : Prog S)
    (ha : attrsOk n prog = true) (hfa : fa.length = n) : (firstAfter f fa prog).2.length = n := by
  induction prog generalizing f fa with
  | nil => simpa [firstAfter]
  | cons c r ih =>
    cases c <;> simp_all [firstAfter, attrsOk]

theorem run_cons_fst (b : BuilderWithAttributes S) (c : Call (Pt S) (List S)) (r : Prog S) :
    (b.run (c :: r)).map (·.1) = (b.call c).bind fun s => (BuilderWithAttributes.run s.1 r).map (·.1) := by
  simp only [BuilderWithAttributes.run]
  cases b.call c with
  | none => rfl
  | some s =>
    simp only [Option.bind_some, Option.map_map]
    rfl

/-- `BuilderWithAttributes::run` appends exactly `emitPts` / `emitVerbs` and never fails on a
program whose endpoints all carry `num_attributes` attributes. -/
theorem run_emit (b : BuilderWithAttributes S) (prog : Prog S)
    (ha : attrsOk b.numAttributes prog = true) (hfa : b.firstAttributes.length = b.numAttributes) :
    (b.run prog).map (·.1) = some
      { builder := { points := b.builder.points ++ emitPts b.builder.first b.firstAttributes prog,
                     verbs := b.builder.verbs ++ emitVerbs prog,
                     first := (firstAfter b.builder.first b.firstAttributes prog).1 },
        numAttributes := b.numAttributes,
        firstAttributes := (firstAfter b.builder.first b.firstAttributes prog).2 } := by
  induction prog generalizing b with
  | nil => simp [BuilderWithAttributes.run, emitPts, emitVerbs, firstAfter]
  | cons c r ih =>
    obtain ⟨⟨pts, vs, f⟩, n, fa⟩ := b
    simp only at hfa ha
    rw [run_cons_fst]
    cases c with
    | begin p a =>
      simp only [attrsOk, Bool.and_eq_true, beq_iff_eq] at ha
      have h := ih ⟨⟨pts ++ [p] ++ packAttrs a, vs ++ [Verb.begin], p⟩, n, a⟩ ha.2 ha.1
      simpa [BuilderWithAttributes.call, BuilderWithAttributes.begin,
        BuilderImpl.begin, pushAttributesImpl, ha.1, emitPts, emitVerbs, firstAfter, endpointPts] using h
    | line p a =>
      simp only [attrsOk, Bool.and_eq_true, beq_iff_eq] at ha
      have h := ih ⟨⟨pts ++ [p] ++ packAttrs a, vs ++ [Verb.lineTo], f⟩, n, fa⟩ ha.2 hfa
      simpa [BuilderWithAttributes.call, BuilderWithAttributes.lineTo, BuilderWithAttributes.withPoints,
        BuilderImpl.lineTo, pushAttributesImpl, ha.1, emitPts, emitVerbs, firstAfter, endpointPts] using h
    | quad c p a =>
      simp only [attrsOk, Bool.and_eq_true, beq_iff_eq] at ha
      have h := ih ⟨⟨pts ++ [c] ++ [p] ++ packAttrs a, vs ++ [Verb.quadraticTo], f⟩, n, fa⟩ ha.2 hfa
      simpa [BuilderWithAttributes.call, BuilderWithAttributes.quadraticBezierTo,
        BuilderWithAttributes.withPoints, BuilderImpl.quadraticBezierTo, pushAttributesImpl, ha.1,
        emitPts, emitVerbs, firstAfter, endpointPts] using h
    | cubic c1 c2 p a =>
      simp only [attrsOk, Bool.and_eq_true, beq_iff_eq] at ha
      have h := ih ⟨⟨pts ++ [c1] ++ [c2] ++ [p] ++ packAttrs a, vs ++ [Verb.cubicTo], f⟩, n, fa⟩ ha.2 hfa
      simpa [BuilderWithAttributes.call, BuilderWithAttributes.cubicBezierTo,
        BuilderWithAttributes.withPoints, BuilderImpl.cubicBezierTo, pushAttributesImpl, ha.1,
        emitPts, emitVerbs, firstAfter, endpointPts] using h
    | end_ cl =>
      simp only [attrsOk] at ha
      cases cl with
      | true =>
        have h := ih ⟨⟨pts ++ [f] ++ packAttrs fa, vs ++ [Verb.close], f⟩, n, fa⟩ ha hfa
        simpa [BuilderWithAttributes.call, BuilderWithAttributes.end_, BuilderWithAttributes.withPoints,
          BuilderImpl.end_, pushAttributesImpl, hfa, emitPts, emitVerbs, firstAfter, endpointPts] using h
      | false =>
        have h := ih ⟨⟨pts, vs ++ [Verb.end_], f⟩, n, fa⟩ ha hfa
        simpa [BuilderWithAttributes.call, BuilderWithAttributes.end_, BuilderWithAttributes.withPoints,
          BuilderImpl.end_, emitPts, emitVerbs, firstAfter] using h

/-- the storage `Path::builder_with_attributes(n)` produces for a program -/
theorem buildWithAttributes_emit (n : Nat) (prog : Prog S) (ha : attrsOk n prog = true) :
    buildWithAttributes n prog =
      some ⟨emitPts zeroPt (List.replicate n default) prog, emitVerbs prog, n⟩ := by
  have h := run_emit (BuilderWithAttributes.new (S := S) n) prog
    (by simpa [BuilderWithAttributes.new] using ha) (by simp [BuilderWithAttributes.new])
  simp only [buildWithAttributes]
  cases hr : (BuilderWithAttributes.new (S := S) n).run prog with
  | none => simp [hr] at h
  | some r =>
    simp [hr] at h
    simp [h, BuilderWithAttributes.build, BuilderWithAttributes.new, BuilderImpl.new]

end Lyon.Path
