/-
  SPAN / WINDING COHERENCE, part 7: the coherence invariant after an event whose winding is conserved
  (`EventOkW`), and the event as a whole.
-/
import LyonVerif.Lemmas.SweepSafeCohUpdate

set_option linter.unusedSectionVars false
set_option linter.unusedVariables false
set_option linter.unusedSimpArgs false
set_option mvcgen.warning false

namespace Lyon.SweepCoh
open Lyon Lyon.Scalar Lyon.Mono Lyon.Sweep Lyon.EQ Lyon.SweepSafe
open Std.Do

variable {α : Type} [Scalar α] [Wide α]

/-- winding conservation at an event, in terms of the windings `W` of the edges that leave the vertex
(after splits and merges of coincident edges):
* `bal`: the winding number to the right of the new edges is the winding number to the right of the
  edges that ended (or were split) at the vertex;
* `stray`: a vertex without outgoing edges either ends edges or lies outside the filled region;
* `mergeW`: a merge event has no outgoing edges (a consequence of the scan; kept as a hypothesis) -/
structure EventOkW (s0 : St α) (scan : Scan) (W : List Int) : Prop where
  bal : (pfold s0.rule (Wat s0 scan.aboveStart) W).number = (Wat s0 scan.aboveEnd).number
  stray : W = [] → scan.mergeEvent = true ∨
    (scan.aboveStart < scan.aboveEnd ∧ scan.mergeSplitEvent = false ∧ (Wat s0 scan.aboveStart).isIn = false) ∨
    (scan.aboveStart = scan.aboveEnd ∧ (Wat s0 scan.aboveStart).isIn = false)
  mergeW : scan.mergeEvent = true → W = []

/-- the winding state left of position `k` of a signature list -/
def WatS (rule : Slab.Rule) (l : List (Bool × Int)) (k : Nat) : WindingState :=
  sfold rule WindingState.new (l.take k)

theorem Wat_eq_WatS (s : St α) (k : Nat) : Wat s k = WatS s.rule (sigs s) k := Wat_sfold s k

theorem WatS_append_left (rule : Slab.Rule) (l m : List (Bool × Int)) {k : Nat} (h : k ≤ l.length) :
    WatS rule (l ++ m) k = WatS rule l k := by
  unfold WatS
  rw [List.take_append_of_le_length h]

theorem WatS_append_right (rule : Slab.Rule) (l m : List (Bool × Int)) (j : Nat) :
    WatS rule (l ++ m) (l.length + j) = sfold rule (sfold rule WindingState.new l) (m.take j) := by
  unfold WatS
  rw [List.take_append, List.take_of_length_le (by omega), sfold_append]
  simp

theorem good_WatS (rule : Slab.Rule) (l : List (Bool × Int)) (k : Nat) : Good rule (WatS rule l k) :=
  good_sfold (good_new _) _


/-- merge vertices of a concatenated signature list lie in `in` regions -/
theorem merges_sig (rule : Slab.Rule) (P Ws S : List (Bool × Int)) (mg : Bool)
    (hP : ∀ k x, P[k]? = some x → x.1 = true → (WatS rule P k).isIn = true)
    (hM : mg = true → (sfold rule WindingState.new P).isIn = true)
    (hW : ∀ x ∈ Ws, x.1 = false)
    (hS : ∀ j x, S[j]? = some x → x.1 = true →
      (sfold rule (sfold rule WindingState.new (P ++ (if mg then [(true, (0 : Int))] else []) ++ Ws)) (S.take j)).isIn = true) :
    ∀ k x, (P ++ (if mg then [(true, (0 : Int))] else []) ++ Ws ++ S)[k]? = some x → x.1 = true →
      (WatS rule (P ++ (if mg then [(true, (0 : Int))] else []) ++ Ws ++ S) k).isIn = true := by
  intro k x hk hx
  by_cases h1 : k < P.length
  · rw [List.append_assoc, List.append_assoc, List.getElem?_append_left h1] at hk
    rw [List.append_assoc, List.append_assoc, WatS_append_left _ _ _ (by omega)]
    exact hP k x hk hx
  · by_cases h2 : k < (P ++ (if mg then [(true, (0 : Int))] else [])).length
    · -- the merge vertex of a merge event
      have hmg : mg = true := by
        cases mg
        · simp at h2; omega
        · rfl
      subst hmg
      simp only [if_true, List.length_append, List.length_cons, List.length_nil] at h2
      have hk' : k = P.length := by omega
      subst hk'
      rw [List.append_assoc, List.append_assoc, WatS_append_left _ _ _ (Nat.le_refl _)]
      unfold WatS
      rw [List.take_of_length_le (Nat.le_refl _)]
      exact hM rfl
    · by_cases h3 : k < (P ++ (if mg then [(true, (0 : Int))] else []) ++ Ws).length
      · exfalso
        rw [List.getElem?_append_left h3, List.getElem?_append_right (by omega)] at hk
        have := hW x (List.mem_of_getElem? hk)
        rw [this] at hx; cases hx
      · obtain ⟨j, hj⟩ : ∃ j, k = (P ++ (if mg then [(true, (0 : Int))] else []) ++ Ws).length + j :=
          ⟨k - (P ++ (if mg then [(true, (0 : Int))] else []) ++ Ws).length, by omega⟩
        subst hj
        rw [List.getElem?_append_right (by omega)] at hk
        simp only [Nat.add_sub_cancel_left] at hk
        rw [WatS_append_right]
        exact hS j x hk hx


theorem sigs_length (s : St α) : (sigs s).length = s.active.size := by simp [sigs]

theorem Wtot_sfold (s : St α) : Wtot s = sfold s.rule WindingState.new (sigs s) := by
  unfold Wtot
  rw [Wat_sfold, List.take_of_length_le (by rw [sigs_length]; exact Nat.le_refl _)]

theorem sigs_getElem? (s : St α) (k : Nat) : (sigs s)[k]? = (s.active[k]?).map sigOf := by
  simp [sigs]

theorem Coh.merges_sigs {s : St α} (h : Coh s) (k : Nat) (x : Bool × Int) (hk : (sigs s)[k]? = some x)
    (hx : x.1 = true) : (WatS s.rule (sigs s) k).isIn = true := by
  rw [sigs_getElem?] at hk
  cases he : s.active[k]? with
  | none => rw [he] at hk; cases hk
  | some e =>
    rw [he] at hk
    simp only [Option.map_some, Option.some.injEq] at hk
    rw [← Wat_eq_WatS]
    refine h.merges k e he ?_
    rw [← hk] at hx
    exact hx

theorem coh_of_sig {s : St α} (hl : SomeExcept [] s.spans) (hs : (s.spans.size : Int) = (Wtot s).spanIndex + 1)
    (ho : (Wtot s).isIn = false)
    (hm : ∀ k x, (sigs s)[k]? = some x → x.1 = true → (WatS s.rule (sigs s) k).isIn = true)
    (hz : ∀ x ∈ sigs s, x.1 = true → x.2 = 0) : Coh s := by
  refine ⟨hl, hs, ho, ?_, hz⟩
  intro k e he hme
  rw [Wat_eq_WatS]
  refine hm k (sigOf e) ?_ hme
  rw [sigs_getElem?, he]; rfl

/-- **the invariant after an event with conserved winding** -/
theorem coh_after {s0 s' : St α} {scan : Scan} {W : List Int} (hok : ScanOk s0 scan) (hsem : ScanSem s0 scan)
    (hc : Coh s0) (hG : ScanAgree s0 scan) (hev : EventOkW s0 scan W)
    (hN : NewSt s0 scan (s0.spans.size - cntIn s0 scan.aboveStart scan.aboveEnd + bi scan.splitEvent +
      gapsFrom s0.rule (Wat s0 scan.aboveStart) true W) W s') : Coh s' := by
  have hab := hok.start_le
  have hbn := hok.end_le
  have hlen := sigs_length s0
  have hrule := hN.rule
  -- the pieces of the new signature list
  have hsg : sigs s' = (sigs s0).take scan.aboveStart ++ (if scan.mergeEvent then [(true, (0 : Int))] else []) ++
      W.map (fun k => (false, k)) ++ (sigs s0).drop scan.aboveEnd := hN.sg
  have hw0 : Wat s0 scan.aboveStart = sfold s0.rule WindingState.new ((sigs s0).take scan.aboveStart) :=
    Wat_sfold s0 _
  have hT0 : Wtot s0 = sfold s0.rule (Wat s0 scan.aboveEnd) ((sigs s0).drop scan.aboveEnd) := by
    have := Wat_split s0 (k := scan.aboveEnd) (m := s0.active.size) hbn
    rw [List.take_of_length_le (by omega)] at this
    exact this
  -- the state after the merge vertex and after the new edges
  have hwM : ∃ wM, wM = sfold s0.rule (Wat s0 scan.aboveStart) (if scan.mergeEvent then [(true, (0 : Int))] else []) ∧
      wM.number = (Wat s0 scan.aboveStart).number ∧ wM.isIn = (Wat s0 scan.aboveStart).isIn ∧
      wM.spanIndex = (Wat s0 scan.aboveStart).spanIndex + (bi scan.mergeEvent : Int) := by
    refine ⟨_, rfl, ?_⟩
    cases scan.mergeEvent <;> simp [sfold, sstep, bi]
  obtain ⟨wM, hwMd, hwMn, hwMi, hwMs⟩ := hwM
  have hT' : Wtot s' = sfold s0.rule (pfold s0.rule wM W) ((sigs s0).drop scan.aboveEnd) := by
    rw [Wtot_sfold, hsg, hrule, sfold_append, sfold_append, sfold_append, ← hw0, ← hwMd]
    rfl
  have hgM : Good s0.rule wM := by rw [hwMd]; exact good_sfold (Wat_good s0 _) _
  have hnum : (pfold s0.rule wM W).number = (Wat s0 scan.aboveEnd).number := by
    have := (sfold_shift (rule := s0.rule) hwMn hwMi (W.map fun k => (false, k))).1
    rw [← hev.bal]; exact this
  have hg1' : Good s0.rule (pfold s0.rule wM W) := good_pfold hgM W
  have hg1 : Good s0.rule (Wat s0 scan.aboveEnd) := Wat_good s0 _
  have hisin : (pfold s0.rule wM W).isIn = (Wat s0 scan.aboveEnd).isIn := by
    rw [hg1'.canon, hg1.canon, hnum]
  obtain ⟨_, hTi, hTs⟩ := sfold_shift (rule := s0.rule) hnum hisin ((sigs s0).drop scan.aboveEnd)
  rw [← hT0, ← hT'] at hTi hTs
  -- span-index arithmetic
  obtain ⟨d, hd⟩ : ∃ d, scan.aboveEnd = scan.aboveStart + d := ⟨scan.aboveEnd - scan.aboveStart, by omega⟩
  have hmid := incr_eq_cnt s0 scan.aboveStart d (by omega) (fun k e _ _ hk hm => hc.merges k e hk hm)
  rw [← hd, cntIn_succ] at hmid
  have hnew := gaps_true s0.rule wM W
  have hZ := Z1_ge hok hc
  have hgap : gapsFrom s0.rule wM true W = gapsFrom s0.rule (Wat s0 scan.aboveStart) true W := by
    by_cases hm : scan.mergeEvent = true
    · rw [hev.mergeW hm]; rfl
    · have : wM = Wat s0 scan.aboveStart := by rw [hwMd]; simp [hm, sfold]
      rw [this]
  rw [hgap, hisin] at hnew
  have hsz0 := hc.size
  -- the case analysis
  have key : (bi scan.mergeEvent : Int) + (bi (!W.isEmpty && (Wat s0 scan.aboveEnd).isIn) : Int) -
      (if scan.aboveStart < scan.aboveEnd ∧ (Wat s0 scan.aboveEnd).isIn = true then (1 : Nat) else 0 : Nat) =
      (bi scan.splitEvent : Int) := by
    by_cases hm : scan.mergeEvent = true
    · have hlt := hG.1 hm
      have hin := (hsem.merge hm).2.1
      have hsp : scan.splitEvent = false := by
        cases h : scan.splitEvent
        · rfl
        · have := (hsem.split h).1; omega
      rw [hev.mergeW hm, hm, hsp, hin]
      simp [bi, hlt]
    · have hm' : scan.mergeEvent = false := by simpa using hm
      rw [hm']
      by_cases hW : W = []
      · rcases hev.stray hW with h | ⟨hlt, _, hout⟩ | ⟨heq, hout⟩
        · exact absurd h hm
        · have hb := hev.bal
          rw [hW, pfold_nil] at hb
          have hin : (Wat s0 scan.aboveEnd).isIn = false := by
            rw [hg1.canon, ← hb, ← (Wat_good s0 _).canon]; exact hout
          have hsp : scan.splitEvent = false := by
            cases h : scan.splitEvent
            · rfl
            · have := (hsem.split h).1; omega
          rw [hW, hin, hsp]; simp [bi]
        · have hsp : scan.splitEvent = false := by
            cases h : scan.splitEvent
            · rfl
            · have := (hsem.split h).2.1; rw [hout] at this; cases this
          rw [hW, hsp]; simp [bi, heq]
      · have hWe : W.isEmpty = false := by cases W <;> simp_all
        rw [hWe]
        by_cases hlt : scan.aboveStart < scan.aboveEnd
        · have hsp : scan.splitEvent = false := by
            cases h : scan.splitEvent
            · rfl
            · have := (hsem.split h).1; omega
          rw [hsp]
          cases (Wat s0 scan.aboveEnd).isIn <;> simp [bi, hlt]
        · have heq : scan.aboveStart = scan.aboveEnd := by omega
          have hsp : scan.splitEvent = (Wat s0 scan.aboveEnd).isIn := by
            cases hi : (Wat s0 scan.aboveEnd).isIn
            · cases h : scan.splitEvent
              · rfl
              · have := (hsem.split h).2.1; rw [heq, hi] at this; cases this
            · exact hG.2 heq (by rw [heq]; exact hi)
          rw [hsp]
          cases (Wat s0 scan.aboveEnd).isIn <;> simp [bi, hlt]
  -- assemble
  have hsize : (s'.spans.size : Int) = (Wtot s').spanIndex + 1 := by
    rw [hN.size]
    have h1 := hZ.1
    generalize (if scan.aboveStart < scan.aboveEnd ∧ (Wat s0 scan.aboveEnd).isIn = true then (1 : Nat) else 0) = δ1
      at hmid key
    generalize bi (!W.isEmpty && (Wat s0 scan.aboveEnd).isIn) = ε at hnew key
    generalize gapsFrom s0.rule (Wat s0 scan.aboveStart) true W = G at hnew ⊢
    generalize cntIn s0 scan.aboveStart scan.aboveEnd = cnt at hmid h1 ⊢
    push_cast [Int.ofNat_sub h1] at hmid ⊢
    omega
  refine coh_of_sig hN.live hsize (by rw [hTi]; exact hc.out) ?_ ?_
  rotate_left
  · rw [hsg]
    intro x hx hx1
    simp only [List.mem_append, List.mem_map] at hx
    rcases hx with ((hx | hx) | hx) | hx
    · exact hc.mz x (List.mem_of_mem_take hx) hx1
    · cases hme : scan.mergeEvent
      · rw [hme] at hx; simp at hx
      · rw [hme] at hx; simp at hx; rw [hx]
    · obtain ⟨k, _, rfl⟩ := hx; cases hx1
    · exact hc.mz x (List.mem_of_mem_drop hx) hx1
  rw [hrule, hsg]
  apply merges_sig
  · intro k x hk hx
    have hk' : k < scan.aboveStart := by
      have := (List.getElem?_eq_some_iff.mp hk).1
      simp at this; omega
    rw [List.getElem?_take_of_lt hk'] at hk
    have := hc.merges_sigs k x hk hx
    unfold WatS at this ⊢
    rw [List.take_take, Nat.min_eq_left (by omega)]
    exact this
  · intro hm
    rw [← hw0]
    exact (hsem.merge hm).1
  · intro x hx
    simp only [List.mem_map] at hx
    obtain ⟨_, _, rfl⟩ := hx
    rfl
  · intro j x hj hx
    rw [sfold_append, sfold_append, ← hw0, ← hwMd]
    show (sfold s0.rule (pfold s0.rule wM W) _).isIn = true
    have hj' : (sigs s0)[scan.aboveEnd + j]? = some x := by rw [List.getElem?_drop] at hj; exact hj
    have h1 := hc.merges_sigs (scan.aboveEnd + j) x hj' hx
    have h2 := Wat_split s0 (k := scan.aboveEnd) (m := scan.aboveEnd + j) (by omega)
    rw [← Wat_eq_WatS, h2] at h1
    have e : ((sigs s0).take (scan.aboveEnd + j)).drop scan.aboveEnd = ((sigs s0).drop scan.aboveEnd).take j := by
      rw [List.drop_take]; simp
    rw [e] at h1
    rw [(sfold_shift (rule := s0.rule) hnum hisin _).2.1]
    exact h1

end Lyon.SweepCoh
