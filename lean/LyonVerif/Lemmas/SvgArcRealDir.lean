/-
  C13 — direction of the Bézier pieces (helper lemmas for `Props/C13c.lean`), any ordered field.

  * `quad_cross_param`, `cubic_cross_param`: for a Bézier curve `B` with control points `P_i`,
        B(t₁) × B(t₂) = (t₂ − t₁) · Σ_{i<j} w_ij(t₁,t₂) · (P_i × P_j)
    with polynomial weights `w_ij ≥ 0` on `[0,1]²` (total positivity of the Bernstein basis): if every
    `P_i × P_j` (i < j) has one sign, the polar angle of `B(t)` about the origin is monotone in `t`.
  * the cross products of the control points of lyon's pieces of the unit circle
    (`quad_unit_cross`, `cubic_unit_cross`): `τ, sin δ, τ` resp.
    `α, sin δ − α cos δ, sin δ, sin δ − 2α cos δ − α² sin δ, sin δ − α cos δ, α`
  * their signs for a step of at most 90° (`quad_dir_nonneg`, `cubic_dir_nonneg`); the key fact for
    the cubic is `|α| ≤ |tan(δ/2)|` (from `3α² + 4scα = 4s²`): the inner control points do not pass
    the intersection of the end tangents.
  * `ellMap_cross`: the affine map to the ellipse multiplies cross products about the centre by
    `rx·ry`.
-/
import LyonVerif.Lemmas.SvgArcRealCubic

set_option linter.unusedSectionVars false
set_option linter.unusedVariables false
set_option linter.unusedSimpArgs false

namespace Lyon.C13
open Lyon Scalar ArcConv

variable {K : Type} [Field K] [LinearOrder K] [IsStrictOrderedRing K] [Transc K] [ArcConv.Eps K]

/-- weights of the quadratic: `B(t₁) × B(t₂) = (t₂ − t₁)·quadW …` -/
noncomputable def quadW (c01 c02 c12 t1 t2 : K) : K :=
  2 * (1 - t1) * (1 - t2) * c01 + ((1 - t1) * t2 + t1 * (1 - t2)) * c02 + 2 * t1 * t2 * c12

/-- weights of the cubic -/
noncomputable def cubicW (c01 c02 c03 c12 c13 c23 t1 t2 : K) : K :=
  3 * ((1 - t1) * (1 - t1)) * ((1 - t2) * (1 - t2)) * c01
  + 3 * (1 - t1) * (1 - t2) * ((1 - t1) * t2 + t1 * (1 - t2)) * c02
  + (((1 - t1) * t2) * ((1 - t1) * t2) + ((1 - t1) * t2) * (t1 * (1 - t2)) + (t1 * (1 - t2)) * (t1 * (1 - t2))) * c03
  + 9 * t1 * t2 * (1 - t1) * (1 - t2) * c12
  + 3 * t1 * t2 * ((1 - t1) * t2 + t1 * (1 - t2)) * c13
  + 3 * (t1 * t1) * (t2 * t2) * c23

theorem quad_cross_param (q : Quad K) (t1 t2 : K) :
    (q.sample t1).cross (q.sample t2)
      = (t2 - t1) * quadW (q.a.cross q.c) (q.a.cross q.b) (q.c.cross q.b) t1 t2 := by
  simp only [quadW, Quad.sample, geom, Nat.cast_ofNat, Nat.cast_one]
  ring

theorem cubic_cross_param (q : Cubic K) (t1 t2 : K) :
    (q.sample t1).cross (q.sample t2)
      = (t2 - t1) * cubicW (q.a.cross q.c1) (q.a.cross q.c2) (q.a.cross q.b)
          (q.c1.cross q.c2) (q.c1.cross q.b) (q.c2.cross q.b) t1 t2 := by
  simp only [cubicW, Cubic.sample, geom, Nat.cast_ofNat, Nat.cast_one]
  ring

theorem quadW_nonneg (c01 c02 c12 t1 t2 : K) (h01 : 0 ≤ c01) (h02 : 0 ≤ c02) (h12 : 0 ≤ c12)
    (a1 : 0 ≤ t1) (b1 : t1 ≤ 1) (a2 : 0 ≤ t2) (b2 : t2 ≤ 1) : 0 ≤ quadW c01 c02 c12 t1 t2 := by
  have u1 : 0 ≤ 1 - t1 := by linarith
  have u2 : 0 ≤ 1 - t2 := by linarith
  unfold quadW
  positivity

theorem cubicW_nonneg (c01 c02 c03 c12 c13 c23 t1 t2 : K) (h01 : 0 ≤ c01) (h02 : 0 ≤ c02)
    (h03 : 0 ≤ c03) (h12 : 0 ≤ c12) (h13 : 0 ≤ c13) (h23 : 0 ≤ c23)
    (a1 : 0 ≤ t1) (b1 : t1 ≤ 1) (a2 : 0 ≤ t2) (b2 : t2 ≤ 1) :
    0 ≤ cubicW c01 c02 c03 c12 c13 c23 t1 t2 := by
  have u1 : 0 ≤ 1 - t1 := by linarith
  have u2 : 0 ≤ 1 - t2 := by linarith
  unfold cubicW
  positivity

/-- `quadW`, `cubicW` are linear in the cross products -/
theorem quadW_smul (k c01 c02 c12 t1 t2 : K) :
    k * quadW c01 c02 c12 t1 t2 = quadW (k * c01) (k * c02) (k * c12) t1 t2 := by
  unfold quadW; ring

theorem cubicW_smul (k c01 c02 c03 c12 c13 c23 t1 t2 : K) :
    k * cubicW c01 c02 c03 c12 c13 c23 t1 t2
      = cubicW (k * c01) (k * c02) (k * c03) (k * c12) (k * c13) (k * c23) t1 t2 := by
  unfold cubicW; ring

/-! ### the pieces of the unit circle -/

/-- quadratic piece of the unit circle: `Q(t₁) × Q(t₂) = (t₂ − t₁)·quadW τ (sin δ) (sin δ − τ cos δ)` -/
theorem quad_unit_cross (arc : Arc K) (a1 d t1 t2 : K)
    (h0c : Transc.cos (0 : K) = 1) (h0s : Transc.sin (0 : K) = 0)
    (h1 : Transc.cos a1 * Transc.cos a1 + Transc.sin a1 * Transc.sin a1 = 1)
    (hc : Transc.cos (a1 + d) = Transc.cos a1 * Transc.cos d - Transc.sin a1 * Transc.sin d)
    (hs : Transc.sin (a1 + d) = Transc.sin a1 * Transc.cos d + Transc.cos a1 * Transc.sin d) :
    ((quadAt (unitArc arc) a1 d).sample t1).cross ((quadAt (unitArc arc) a1 d).sample t2)
      = (t2 - t1) * quadW (Transc.tan (d * Scalar.half)) (Transc.sin d)
          (Transc.sin d - Transc.tan (d * Scalar.half) * Transc.cos d) t1 t2 := by
  rw [quad_cross_param]
  simp only [quadAt, quadCtrl]
  generalize Transc.tan (d * Scalar.half) = τ
  simp only [quadW, pointAt, tangentAtAngle, unitArc, Arc.sampleEllipse, Arc.rotate, geom, h0c, h0s,
    hc, hs, Nat.cast_ofNat, Nat.cast_one]
  generalize Transc.cos a1 = c1 at h1 ⊢
  generalize Transc.sin a1 = s1 at h1 ⊢
  generalize Transc.cos d = cd
  generalize Transc.sin d = sd
  linear_combination ((t2 - t1) * (2 * (1 - t1) * (1 - t2) * τ + ((1 - t1) * t2 + t1 * (1 - t2)) * sd
    + 2 * t1 * t2 * (sd - τ * cd))) * h1

/-- cubic piece of the unit circle -/
theorem cubic_unit_cross (arc : Arc K) (a1 d t1 t2 : K)
    (h0c : Transc.cos (0 : K) = 1) (h0s : Transc.sin (0 : K) = 0)
    (h1 : Transc.cos a1 * Transc.cos a1 + Transc.sin a1 * Transc.sin a1 = 1)
    (hc : Transc.cos (a1 + d) = Transc.cos a1 * Transc.cos d - Transc.sin a1 * Transc.sin d)
    (hs : Transc.sin (a1 + d) = Transc.sin a1 * Transc.cos d + Transc.cos a1 * Transc.sin d)
    (hd : Transc.cos d * Transc.cos d + Transc.sin d * Transc.sin d = 1) :
    ((cubicAt (unitArc arc) a1 d).sample t1).cross ((cubicAt (unitArc arc) a1 d).sample t2)
      = (t2 - t1) * cubicW (cubicAlpha d) (Transc.sin d - cubicAlpha d * Transc.cos d) (Transc.sin d)
          (Transc.sin d - 2 * cubicAlpha d * Transc.cos d - cubicAlpha d * cubicAlpha d * Transc.sin d)
          (Transc.sin d - cubicAlpha d * Transc.cos d) (cubicAlpha d) t1 t2 := by
  rw [cubic_cross_param]
  simp only [cubicAt]
  generalize cubicAlpha d = al
  simp only [cubicW, pointAt, tangentAtAngle, unitArc, Arc.sampleEllipse, Arc.rotate, geom, h0c, h0s,
    hc, hs, Nat.cast_ofNat, Nat.cast_one]
  generalize Transc.cos a1 = c1 at h1 ⊢
  generalize Transc.sin a1 = s1 at h1 ⊢
  generalize Transc.cos d = cd at hd ⊢
  generalize Transc.sin d = sd at hd ⊢
  linear_combination (3 * al * (c1 * c1 + s1 * s1) * (t1 * t1) * (t2 * t2) * (t2 - t1)) * hd + ((t2 - t1) * (3 * ((1 - t1) * (1 - t1)) * ((1 - t2) * (1 - t2)) * al
      + 3 * (1 - t1) * (1 - t2) * ((1 - t1) * t2 + t1 * (1 - t2)) * (sd - al * cd)
      + (((1 - t1) * t2) * ((1 - t1) * t2) + ((1 - t1) * t2) * (t1 * (1 - t2)) + (t1 * (1 - t2)) * (t1 * (1 - t2))) * sd
      + 9 * t1 * t2 * (1 - t1) * (1 - t2) * (sd - 2 * al * cd - al * al * sd)
      + 3 * t1 * t2 * ((1 - t1) * t2 + t1 * (1 - t2)) * (sd - al * cd)
      + 3 * (t1 * t1) * (t2 * t2) * al)) * h1

/-! ### signs of the cross products for a step of at most 90° -/

/-- quadratic: with `σ = ±1` the direction of the step (`σ·sin(δ/2) ≥ 0`), `cos(δ/2) > 0`:
`σ·τ ≥ 0`, `σ·sin δ ≥ 0`, `σ·(sin δ − τ cos δ) = σ·τ ≥ 0` -/
theorem quad_dir_nonneg (c s σ τ cd sd t1 t2 : K) (hu : c * c + s * s = 1) (hcp : 0 < c)
    (hs : 0 ≤ σ * s) (hcos : cd = 1 - 2 * (s * s)) (hsin : sd = 2 * (s * c)) (htan : τ * c = s)
    (a1 : 0 ≤ t1) (b1 : t1 ≤ 1) (a2 : 0 ≤ t2) (b2 : t2 ≤ 1) :
    0 ≤ σ * quadW τ sd (sd - τ * cd) t1 t2 := by
  rw [quadW_smul]
  have hτ : 0 ≤ σ * τ := by
    have : (σ * τ) * c = σ * s := by rw [mul_assoc, htan]
    by_contra hneg
    rw [not_le] at hneg
    nlinarith [mul_neg_of_neg_of_pos hneg hcp]
  have e : sd - τ * cd = τ := by
    rw [hcos, hsin]
    linear_combination (-2 * c) * htan + (2 * τ) * hu
  apply quadW_nonneg _ _ _ _ _ hτ _ (by rw [e]; exact hτ) a1 b1 a2 b2
  rw [hsin]
  have : σ * (2 * (s * c)) = 2 * (σ * s) * c := by ring
  rw [this]; positivity

/-- **`|α| ≤ |tan(δ/2)|`**, in the form `σα ≤ σs/c`: the inner control points of the cubic do not
pass the intersection of the end tangents -/
theorem alpha_le_tan (c s σ al : K) (hσ : σ * σ = 1) (hu : c * c + s * s = 1) (hcp : 0 < c)
    (hs : 0 ≤ σ * s) (hal : 3 * (al * al) + 4 * (s * c) * al = 4 * (s * s)) (hal0 : 0 ≤ σ * al) :
    (σ * al) * c ≤ σ * s := by
  by_contra hlt
  rw [not_le] at hlt
  -- a = σ al > ŝ / c ≥ 0
  have h1 : 3 * ((σ * al) * (σ * al)) + 4 * ((σ * s) * c) * (σ * al) = 4 * ((σ * s) * (σ * s)) := by
    linear_combination (σ * σ) * hal
  have h2 : (σ * s) * (σ * s) < ((σ * al) * c) * ((σ * al) * c) := mul_self_lt_mul_self hs hlt
  have h3 : 0 ≤ (σ * s) * c := mul_nonneg hs (le_of_lt hcp)
  have h4 : (σ * s) * ((σ * s) * c) ≤ ((σ * al) * c) * ((σ * s) * c) :=
    mul_le_mul_of_nonneg_right (le_of_lt hlt) h3
  -- multiply the relation by c²: 3a²c² + 4ŝc·(a c)·… ; use c² ≤ 1
  have hc1 : c * c ≤ 1 := by nlinarith [mul_self_nonneg s]
  have hcc : 0 < c * c := mul_pos hcp hcp
  have : 3 * (((σ * al) * c) * ((σ * al) * c)) + 4 * ((σ * s) * c) * ((σ * al) * c) * c
      = 4 * ((σ * s) * (σ * s)) * (c * c) := by
    linear_combination (c * c) * h1
  nlinarith [mul_nonneg (mul_self_nonneg (σ * s)) (le_of_lt hcc), mul_le_mul_of_nonneg_right h4 (le_of_lt hcp)]

/-- cubic: all six cross products of the control points have the sign of the step -/
theorem cubic_dir_nonneg (c s σ al cd sd t1 t2 : K) (hσ : σ * σ = 1) (hu : c * c + s * s = 1)
    (hcp : 0 < c) (hs : 0 ≤ σ * s) (hcos : cd = 1 - 2 * (s * s)) (hsin : sd = 2 * (s * c))
    (hcd : 0 ≤ cd) (hal : 3 * (al * al) + 4 * (s * c) * al = 4 * (s * s)) (hal0 : 0 ≤ σ * al)
    (a1 : 0 ≤ t1) (b1 : t1 ≤ 1) (a2 : 0 ≤ t2) (b2 : t2 ≤ 1) :
    0 ≤ σ * cubicW al (sd - al * cd) sd (sd - 2 * al * cd - al * al * sd) (sd - al * cd) al t1 t2 := by
  rw [cubicW_smul]
  have hle := alpha_le_tan c s σ al hσ hu hcp hs hal hal0
  have hsd : 0 ≤ σ * sd := by
    rw [hsin]
    have : σ * (2 * (s * c)) = 2 * (σ * s) * c := by ring
    rw [this]; positivity
  -- with a = σ·al, ŝ = σ·s: a·c ≤ ŝ
  have h02 : 0 ≤ σ * (sd - al * cd) := by
    -- (σ sd − a cd)·c = 2ŝc² − (a c) cd ≥ 2ŝc² − ŝ cd = ŝ(2c² − 1 + 2s²) = ŝ
    have key : (σ * (sd - al * cd)) * c = 2 * (σ * s) * (c * c) - ((σ * al) * c) * cd := by
      rw [hsin]; ring
    have : 0 ≤ (σ * (sd - al * cd)) * c := by
      rw [key]
      have h1 : ((σ * al) * c) * cd ≤ (σ * s) * cd := mul_le_mul_of_nonneg_right hle hcd
      have h2 : 2 * (σ * s) * (c * c) - (σ * s) * cd = σ * s := by
        rw [hcos]; linear_combination (2 * (σ * s)) * hu
      linarith
    by_contra hneg
    rw [not_le] at hneg
    nlinarith [mul_neg_of_neg_of_pos hneg hcp]
  have h12 : 0 ≤ σ * (sd - 2 * al * cd - al * al * sd) := by
    -- times c²: 2ŝc(c² − (ac)²) − 2(ac)·c·cd ≥ its value at ac = ŝ, which is 0
    have key : (σ * (sd - 2 * al * cd - al * al * sd)) * (c * c)
        = 2 * ((σ * s) * c) * (c * c - ((σ * al) * c) * ((σ * al) * c)) - 2 * ((σ * al) * c) * c * cd := by
      rw [hsin]
      linear_combination (2 * σ * s * c * c * c * al * al) * hσ
    have hac0 : 0 ≤ (σ * al) * c := mul_nonneg hal0 (le_of_lt hcp)
    have hsq : ((σ * al) * c) * ((σ * al) * c) ≤ (σ * s) * (σ * s) := mul_self_le_mul_self hac0 hle
    have h3 : 0 ≤ (σ * s) * c := mul_nonneg hs (le_of_lt hcp)
    have zero : 2 * ((σ * s) * c) * (c * c - (σ * s) * (σ * s)) - 2 * (σ * s) * c * cd = 0 := by
      rw [hcos]
      linear_combination (2 * σ * s * c) * hu - (2 * σ * s * c * s * s) * hσ
    have : 0 ≤ (σ * (sd - 2 * al * cd - al * al * sd)) * (c * c) := by
      rw [key]
      have m1 : 2 * ((σ * s) * c) * (c * c - (σ * s) * (σ * s))
          ≤ 2 * ((σ * s) * c) * (c * c - ((σ * al) * c) * ((σ * al) * c)) := by
        apply mul_le_mul_of_nonneg_left _ (by positivity)
        linarith
      have m2 : 2 * ((σ * al) * c) * c * cd ≤ 2 * (σ * s) * c * cd := by
        have : ((σ * al) * c) * (c * cd) ≤ (σ * s) * (c * cd) :=
          mul_le_mul_of_nonneg_right hle (mul_nonneg (le_of_lt hcp) hcd)
        nlinarith
      linarith
    have hcc : 0 < c * c := mul_pos hcp hcp
    by_contra hneg
    rw [not_le] at hneg
    nlinarith [mul_neg_of_neg_of_pos hneg hcc]
  exact cubicW_nonneg _ _ _ _ _ _ _ _ hal0 h02 hsd h12 h02 hal0 a1 b1 a2 b2

/-! ### transfer to the ellipse -/

/-- the affine map to the ellipse multiplies cross products about the centre by `rx·ry` -/
theorem ellMap_cross (arc : Arc K) (p q : P K)
    (hx : Transc.cos arc.xrot * Transc.cos arc.xrot + Transc.sin arc.xrot * Transc.sin arc.xrot = 1) :
    (ellMap arc p - arc.center).cross (ellMap arc q - arc.center)
      = arc.radii.x * arc.radii.y * p.cross q := by
  simp only [ellMap, Arc.rotate, geom]
  linear_combination (arc.radii.x * arc.radii.y * (p.x * q.y - p.y * q.x)) * hx

end Lyon.C13
