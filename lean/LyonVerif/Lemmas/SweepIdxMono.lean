/-
  Index validity, monotone stage (`Model/Tess/Monotone.lean`): every vertex id stored in a
  `Basic` / `SideEv` / `Adv` tessellator and every triangle it has recorded is below a bound `n`
  (the number of vertices the sweep has emitted so far).  Established by `begin` (whatever the
  pooled tessellator it overwrites held), preserved by `vertex`, `flush_side`, `end`, monotone in
  `n`.  Purely discrete: no arithmetic law of the scalar type is used.

  Used by `Lemmas/SweepIdxSteps.lean` (the sweep's step functions) and `Props/SweepIdx.lean`.
-/
import LyonVerif.Model.Tess.Monotone

set_option linter.unusedSectionVars false
set_option linter.unusedVariables false
set_option linter.unusedSimpArgs false

namespace Lyon.SweepIdx
open Lyon Lyon.Scalar Lyon.Mono

variable {α : Type} [Scalar α]

/-- all three corner ids of a triangle are `< n` -/
def TriLt (n : Nat) (t : Tri) : Prop := t.1 < n ∧ t.2.1 < n ∧ t.2.2 < n

def TrisLt (n : Nat) (l : List Tri) : Prop := ∀ t ∈ l, TriLt n t

theorem TrisLt.nil (n : Nat) : TrisLt n [] := by intro t ht; cases ht

theorem TrisLt.append {n : Nat} {a b : List Tri} (ha : TrisLt n a) (hb : TrisLt n b) : TrisLt n (a ++ b) := by
  intro t ht
  rcases List.mem_append.mp ht with h | h
  · exact ha t h
  · exact hb t h

theorem TrisLt.cons {n : Nat} {t : Tri} {l : List Tri} (ht : TriLt n t) (hl : TrisLt n l) : TrisLt n (t :: l) := by
  intro u hu
  rcases List.mem_cons.mp hu with h | h
  · exact h ▸ ht
  · exact hl u h

theorem TrisLt.mono {n m : Nat} {l : List Tri} (h : TrisLt n l) (hnm : n ≤ m) : TrisLt m l := by
  intro t ht
  obtain ⟨a, b, c⟩ := h t ht
  exact ⟨by omega, by omega, by omega⟩

/-! ### `BasicMonotoneTessellator` -/

structure BasicOk (n : Nat) (b : Basic α) : Prop where
  stack : ∀ v ∈ b.stack, v.id < n
  prev : b.previous.id < n
  tris : TrisLt n b.tris

theorem BasicOk.mono {n m : Nat} {b : Basic α} (h : BasicOk n b) (hnm : n ≤ m) : BasicOk m b :=
  ⟨fun v hv => Nat.lt_of_lt_of_le (h.stack v hv) hnm, Nat.lt_of_lt_of_le h.prev hnm, h.tris.mono hnm⟩

theorem basic_begin_ok {n : Nat} (pos : P α) (id : Nat) (h : id < n) : BasicOk n (Basic.begin pos id) := by
  refine ⟨?_, h, TrisLt.nil n⟩
  intro v hv
  simp only [Basic.begin, List.mem_singleton] at hv
  subst hv; exact h

theorem fanTri_lt {n : Nat} (cur a b : MV α) (hc : cur.id < n) (ha : a.id < n) (hb : b.id < n) :
    TriLt n (fanTri cur a b) := by
  unfold fanTri
  split
  · exact ⟨ha, hb, hc⟩
  · exact ⟨hb, ha, hc⟩

theorem fanTris_lt {n : Nat} (cur : MV α) (hc : cur.id < n) :
    ∀ l : List (MV α), (∀ v ∈ l, v.id < n) → TrisLt n (fanTris cur l)
  | [], _ => TrisLt.nil n
  | [_], _ => TrisLt.nil n
  | a :: b :: r, h => by
    simp only [fanTris]
    refine TrisLt.cons (fanTri_lt cur a b hc (h a (by simp)) (h b (by simp))) ?_
    exact fanTris_lt cur hc (b :: r) (fun v hv => h v (List.mem_cons_of_mem _ hv))

theorem earTri_lt {n : Nat} (cur lp top : MV α) (hc : cur.id < n) (hl : lp.id < n) (ht : top.id < n) :
    TriLt n (earTri cur lp top) := by
  unfold earTri
  split
  · exact ⟨ht, hl, hc⟩
  · exact ⟨hl, ht, hc⟩

theorem popLoop_lt {n : Nat} (cur : MV α) (hc : cur.id < n) :
    ∀ (l : List (MV α)) (lp : MV α), lp.id < n → (∀ v ∈ l, v.id < n) →
      (∀ v ∈ (popLoop cur lp l).1, v.id < n) ∧ TrisLt n (popLoop cur lp l).2
  | [], lp, hl, _ => by
    simp only [popLoop]
    refine ⟨?_, TrisLt.nil n⟩
    intro v hv
    simp only [List.mem_singleton] at hv
    subst hv; exact hl
  | top :: rest, lp, hl, h => by
    have ht : top.id < n := h top (by simp)
    have hr : ∀ v ∈ rest, v.id < n := fun v hv => h v (List.mem_cons_of_mem _ hv)
    have ih := popLoop_lt cur hc rest top ht hr
    simp only [popLoop]
    split
    · exact ⟨ih.1, TrisLt.cons (earTri_lt cur lp top hc hl ht) ih.2⟩
    · refine ⟨?_, TrisLt.nil n⟩
      intro v hv
      rcases List.mem_cons.mp hv with e | e
      · exact e ▸ hl
      · exact h v e

theorem basic_vertex_ok {n : Nat} {b : Basic α} (h : BasicOk n b) (cur : MV α) (hc : cur.id < n) :
    BasicOk n (b.vertex cur) := by
  unfold Basic.vertex
  split
  · refine ⟨?_, hc, h.tris.append (fanTris_lt cur hc _ ?_)⟩
    · intro v hv
      simp only [List.mem_cons, List.not_mem_nil, or_false] at hv
      rcases hv with e | e
      · exact e ▸ hc
      · exact e ▸ h.prev
    · intro v hv
      exact h.stack v (List.mem_reverse.mp hv)
  · split
    · refine ⟨?_, hc, h.tris⟩
      intro v hv
      simp only [List.mem_singleton] at hv
      exact hv ▸ hc
    · rename_i top rest hs
      have hst := h.stack
      rw [hs] at hst
      have hp := popLoop_lt cur hc rest top (hst top (by simp)) (fun v hv => hst v (List.mem_cons_of_mem _ hv))
      refine ⟨?_, hc, h.tris.append hp.2⟩
      intro v hv
      rcases List.mem_cons.mp hv with e | e
      · exact e ▸ hc
      · exact hp.1 v e

theorem basic_end_ok {n : Nat} {b : Basic α} (h : BasicOk n b) (pos : P α) (id : Nat) (hi : id < n) :
    BasicOk n (b.end_ pos id) := by
  have hv := basic_vertex_ok h ⟨pos, id, !b.previous.left⟩ hi
  unfold Basic.end_
  exact ⟨(by intro v hv; cases hv), hv.prev, hv.tris⟩

theorem basic_pushTris_ok {n : Nat} {b : Basic α} (h : BasicOk n b) {t : List Tri} (ht : TrisLt n t) :
    BasicOk n (b.pushTris t) :=
  ⟨h.stack, h.prev, h.tris.append ht⟩

theorem basic_fwd_ok {n : Nat} {b : Basic α} (h : BasicOk n b) (v : Option (MV α))
    (hv : ∀ x, v = some x → x.id < n) : BasicOk n (b.fwd v) := by
  cases v with
  | none => exact h
  | some x => exact basic_vertex_ok h x (hv x rfl)

/-! ### `SideEvents` and `flush_side` -/

structure SideOk (n : Nat) (s : SideEv α) : Prop where
  events : ∀ i ∈ s.events, i < n
  last : s.last.id < n

theorem SideOk.mono {n m : Nat} {s : SideEv α} (h : SideOk n s) (hnm : n ≤ m) : SideOk m s :=
  ⟨fun i hi => Nat.lt_of_lt_of_le (h.events i hi) hnm, Nat.lt_of_lt_of_le h.last hnm⟩

theorem side_push_ok {n : Nat} {s : SideEv α} (h : SideOk n s) (v : MV α) (hv : v.id < n) :
    SideOk n (s.push v) := by
  refine ⟨?_, hv⟩
  intro i hi
  simp only [SideEv.push, List.mem_append, List.mem_singleton] at hi
  rcases hi with e | e
  · exact h.events i e
  · exact e ▸ hv

/-- `ev[i]` with the model's default `0`: below `n` as soon as every event is and `0 < n` -/
theorem getD_lt {n : Nat} (ev : List Nat) (h : ∀ i ∈ ev, i < n) (hn : 0 < n) (k : Nat) :
    ev.toArray.getD k 0 < n := by
  by_cases hk : k < ev.length
  · have : ev.toArray.getD k 0 = ev[k] := by
      simp [Array.getD, hk]
    rw [this]
    exact h _ (List.getElem_mem hk)
  · have : ev.toArray.getD k 0 = 0 := by
      simp [Array.getD, hk]
    rw [this]; exact hn

theorem mem_ite_singleton {c : Prop} [Decidable c] {x t : Tri} (h : t ∈ (if c then [x] else [])) : t = x := by
  split at h
  · simpa using h
  · cases h

theorem flushLevel_lt {n : Nat} (ev : List Nat) (h : ∀ i ∈ ev, i < n) (hn : 0 < n) (len step : Nat) (right : Bool) :
    TrisLt n (flushLevel ev.toArray len step right) := by
  have g := getD_lt ev h hn
  unfold flushLevel
  apply TrisLt.append
  · intro t ht
    simp only [List.mem_map, List.mem_range] at ht
    obtain ⟨i, _, rfl⟩ := ht
    split
    · exact ⟨g _, g _, g _⟩
    · exact ⟨g _, g _, g _⟩
  · intro t ht
    dsimp only at ht
    have e := mem_ite_singleton ht
    subst e
    split
    · exact ⟨g _, g _, g _⟩
    · exact ⟨g _, g _, g _⟩

theorem flushLevels_lt {n : Nat} (ev : List Nat) (h : ∀ i ∈ ev, i < n) (hn : 0 < n) (len : Nat) (right : Bool) :
    ∀ fuel step, TrisLt n (flushLevels ev.toArray len right fuel step)
  | 0, _ => TrisLt.nil n
  | fuel+1, step => by
    simp only [flushLevels]
    split
    · exact (flushLevel_lt ev h hn len step right).append (flushLevels_lt ev h hn len right fuel (step * 2))
    · exact TrisLt.nil n

theorem flushSide_ok {n : Nat} {s : SideEv α} (h : SideOk n s) (right : Bool) :
    SideOk n (flushSide s right).1 ∧ TrisLt n (flushSide s right).2.1 ∧
      ∀ v, (flushSide s right).2.2 = some v → v.id < n := by
  have hn : 0 < n := Nat.lt_of_le_of_lt (Nat.zero_le _) h.last
  by_cases hl : s.events.length < 2
  · simp only [flushSide, hl, if_true]
    exact ⟨h, TrisLt.nil n, by intro v hv; cases hv⟩
  · simp only [flushSide, hl, if_false]
    refine ⟨⟨?_, h.last⟩, flushLevels_lt s.events h.events hn _ right _ _, ?_⟩
    · intro i hi
      simp only [List.mem_singleton] at hi
      exact hi ▸ h.last
    · intro v hv
      simp only [Option.some.injEq] at hv
      exact hv ▸ h.last

/-! ### `AdvancedMonotoneTessellator` -/

structure AdvOk (n : Nat) (t : Adv α) : Prop where
  tess : BasicOk n t.tess
  left : SideOk n t.left
  right : SideOk n t.right

theorem AdvOk.mono {n m : Nat} {t : Adv α} (h : AdvOk n t) (hnm : n ≤ m) : AdvOk m t :=
  ⟨h.tess.mono hnm, h.left.mono hnm, h.right.mono hnm⟩

/-- `begin` overwrites every id of the pooled tessellator it reuses: no constraint on `old` -/
theorem adv_begin_ok {n : Nat} (old : Adv α) (pos : P α) (id : Nat) (h : id < n) :
    AdvOk n (Adv.begin old pos id) := by
  refine ⟨basic_begin_ok pos id h, ⟨?_, h⟩, ⟨?_, h⟩⟩ <;>
  · intro i hi
    simp only [Adv.begin, List.mem_singleton] at hi
    exact hi ▸ h

/-- a side state whose `refPt` / `consRefX` were changed -/
theorem SideOk.of_ids {n : Nat} {s s' : SideEv α} (h : SideOk n s) (he : s'.events = s.events)
    (hl : s'.last = s.last) : SideOk n s' :=
  ⟨he ▸ h.events, hl ▸ h.last⟩

/-- the flush block of `Adv.vertex` as a function (same expression as in the model) -/
def advFlush (tess : Basic α) (sideEv oppEv : SideEv α) (pos : P α) (isLeft : Bool) :
    Basic α × SideEv α × SideEv α :=
  let mustFlushOpp := isAfter sideEv.last.pos oppEv.last.pos
  let (tess, sideEv, oppEv) :=
    if mustFlushOpp then
      let (o', tr, v) := flushSide oppEv isLeft
      match v with
      | some mv => ((tess.pushTris tr).vertex mv, { sideEv with consRefX := sideEv.refPt.x }, o')
      | none => (tess, sideEv, oppEv)
    else (tess, sideEv, oppEv)
  let (s', tr, v) := flushSide sideEv (!isLeft)
  match v with
  | some mv =>
    let rx := if isLeft then Scalar.max s'.refPt.x pos.x else Scalar.min s'.refPt.x pos.x
    ((tess.pushTris tr).vertex mv, { s' with refPt := ⟨rx, s'.refPt.y⟩ }, { oppEv with consRefX := oppEv.refPt.x })
  | none => (tess, sideEv, oppEv)

theorem advFlush_ok {n : Nat} {tess : Basic α} {sideEv oppEv : SideEv α} (ht : BasicOk n tess)
    (hs : SideOk n sideEv) (ho : SideOk n oppEv) (pos : P α) (isLeft : Bool) :
    BasicOk n (advFlush tess sideEv oppEv pos isLeft).1 ∧ SideOk n (advFlush tess sideEv oppEv pos isLeft).2.1 ∧
      SideOk n (advFlush tess sideEv oppEv pos isLeft).2.2 := by
  unfold advFlush
  -- first stage
  have h1 : ∀ (r : Basic α × SideEv α × SideEv α),
      r = (if isAfter sideEv.last.pos oppEv.last.pos = true then
            (match flushSide oppEv isLeft with
             | (o', tr, v) =>
              match v with
              | some mv => ((tess.pushTris tr).vertex mv, { sideEv with consRefX := sideEv.refPt.x }, o')
              | none => (tess, sideEv, oppEv))
          else (tess, sideEv, oppEv)) →
      BasicOk n r.1 ∧ SideOk n r.2.1 ∧ SideOk n r.2.2 := by
    intro r hr
    subst hr
    split
    · have hf := flushSide_ok ho isLeft
      generalize flushSide oppEv isLeft = fo at hf
      obtain ⟨o', tr, v⟩ := fo
      cases v with
      | none => exact ⟨ht, hs, ho⟩
      | some mv =>
        exact ⟨basic_vertex_ok (basic_pushTris_ok ht hf.2.1) mv (hf.2.2 mv rfl), hs.of_ids rfl rfl, hf.1⟩
    · exact ⟨ht, hs, ho⟩
  dsimp only
  generalize hr : (if isAfter sideEv.last.pos oppEv.last.pos = true then
            (match flushSide oppEv isLeft with
             | (o', tr, v) =>
              match v with
              | some mv => ((tess.pushTris tr).vertex mv, { sideEv with consRefX := sideEv.refPt.x }, o')
              | none => (tess, sideEv, oppEv))
          else (tess, sideEv, oppEv)) = r
  have h1r := h1 r hr.symm
  obtain ⟨t1, s1, o1⟩ := r
  obtain ⟨ht1, hs1, ho1⟩ := h1r
  dsimp only at ht1 hs1 ho1 ⊢
  have hf := flushSide_ok hs1 (!isLeft)
  generalize flushSide s1 (!isLeft) = fs at hf
  obtain ⟨s', tr, v⟩ := fs
  cases v with
  | none => exact ⟨ht1, hs1, ho1⟩
  | some mv =>
    exact ⟨basic_vertex_ok (basic_pushTris_ok ht1 hf.2.1) mv (hf.2.2 mv rfl), hf.1.of_ids rfl rfl, ho1.of_ids rfl rfl⟩

/-! ### `vertex` and `end` of the advanced tessellator -/

def advRef (st : Adv α) (pos : P α) (isLeft : Bool) : Adv α :=
    if isLeft then
      let rx := Scalar.max st.left.refPt.x pos.x
      { st with left := { st.left with refPt := ⟨rx, st.left.refPt.y⟩, consRefX := Scalar.max st.left.consRefX rx } }
    else
      let rx := Scalar.min st.right.refPt.x pos.x
      { st with right := { st.right with refPt := ⟨rx, st.right.refPt.y⟩, consRefX := Scalar.min st.right.consRefX rx } }

theorem adv_vertex_eq (st : Adv α) (pos : P α) (id : Nat) (isLeft : Bool) :
    ∃ c : Bool,
    st.vertex pos id isLeft =
      (let st1 := advRef st pos isLeft
       let sideEv := if isLeft then st1.left else st1.right
       let oppEv := if isLeft then st1.right else st1.left
       let r := if c then advFlush st1.tess sideEv oppEv pos isLeft else (st1.tess, sideEv, oppEv)
       let sideEv' := r.2.1.push ⟨pos, id, isLeft⟩
       if isLeft then ⟨r.1, sideEv', r.2.2⟩ else ⟨r.1, r.2.2, sideEv'⟩) := ⟨_, rfl⟩

theorem advRef_ok {n : Nat} {st : Adv α} (h : AdvOk n st) (pos : P α) (isLeft : Bool) : AdvOk n (advRef st pos isLeft) := by
  unfold advRef
  split
  · exact ⟨h.tess, h.left.of_ids rfl rfl, h.right⟩
  · exact ⟨h.tess, h.left, h.right.of_ids rfl rfl⟩

theorem adv_vertex_ok {n : Nat} {st : Adv α} (h : AdvOk n st) (pos : P α) (id : Nat) (isLeft : Bool) (hi : id < n) :
    AdvOk n (st.vertex pos id isLeft) := by
  obtain ⟨c, e⟩ := adv_vertex_eq st pos id isLeft
  rw [e]
  have h1 := advRef_ok h pos isLeft
  generalize advRef st pos isLeft = st1 at h1
  dsimp only
  have hs : SideOk n (if isLeft = true then st1.left else st1.right) := by split; exact h1.left; exact h1.right
  have ho : SideOk n (if isLeft = true then st1.right else st1.left) := by split; exact h1.right; exact h1.left
  generalize (if isLeft = true then st1.left else st1.right) = sideEv at hs
  generalize (if isLeft = true then st1.right else st1.left) = oppEv at ho
  have hr : BasicOk n (if c = true then advFlush st1.tess sideEv oppEv pos isLeft else (st1.tess, sideEv, oppEv)).1 ∧
      SideOk n (if c = true then advFlush st1.tess sideEv oppEv pos isLeft else (st1.tess, sideEv, oppEv)).2.1 ∧
      SideOk n (if c = true then advFlush st1.tess sideEv oppEv pos isLeft else (st1.tess, sideEv, oppEv)).2.2 := by
    split
    · exact advFlush_ok h1.tess hs ho pos isLeft
    · exact ⟨h1.tess, hs, ho⟩
  generalize (if c = true then advFlush st1.tess sideEv oppEv pos isLeft else (st1.tess, sideEv, oppEv)) = r at hr
  obtain ⟨hr1, hr2, hr3⟩ := hr
  split
  · exact ⟨hr1, side_push_ok hr2 _ hi, hr3⟩
  · exact ⟨hr1, hr3, side_push_ok hr2 _ hi⟩

theorem adv_end_ok {n : Nat} {st : Adv α} (h : AdvOk n st) (pos : P α) (id : Nat) (hi : id < n) :
    BasicOk n (st.end_ pos id) := by
  unfold Adv.end_
  have hl := flushSide_ok h.left false
  have hr := flushSide_ok h.right true
  generalize flushSide st.left false = fl at hl
  generalize flushSide st.right true = fr at hr
  obtain ⟨_, ta, a⟩ := fl
  obtain ⟨_, tb, b⟩ := fr
  dsimp only at hl hr ⊢
  apply basic_end_ok _ pos id hi
  have hta : TrisLt n (if a.isSome then ta else []) := by split; exact hl.2.1; exact TrisLt.nil n
  have htb : TrisLt n (if b.isSome then tb else []) := by split; exact hr.2.1; exact TrisLt.nil n
  have h0 := basic_pushTris_ok (basic_pushTris_ok h.tess hta) htb
  generalize ((st.tess.pushTris (if a.isSome then ta else [])).pushTris (if b.isSome then tb else [])) = t0 at h0
  cases a with
  | none =>
    cases b with
    | none => exact h0
    | some v => exact basic_vertex_ok h0 v (hr.2.2 v rfl)
  | some v1 =>
    cases b with
    | none => exact basic_vertex_ok h0 v1 (hl.2.2 v1 rfl)
    | some v2 =>
      dsimp only
      split
      · exact basic_vertex_ok (basic_vertex_ok h0 v2 (hr.2.2 v2 rfl)) v1 (hl.2.2 v1 rfl)
      · exact basic_vertex_ok (basic_vertex_ok h0 v1 (hl.2.2 v1 rfl)) v2 (hr.2.2 v2 rfl)

end Lyon.SweepIdx
