/-
  C16 with the concrete flatteners — ORIENTATION-REVERSING similarities (reflections composed
  with rotation, uniform scaling, translation): `m = [[a, b], [b, −a]] + translation`,
  `s² = a² + b²`.

  Under such a map the parabola parameters change sign (`parabola_from ↦ −parabola_from`, …),
  the two approximation functions are odd, so the flattening parameters of the transformed
  quadratic at `s·tol` are the NEGATED record (`negParams`): same `count`, same
  `t_at_iteration` — PROVIDED the one asymmetric test of `FlatteningParameters::new`,
  `(parabola_from < 0) == (parabola_to < 0)`, gives the same answer for `(−pf, −pt)` as for
  `(pf, pt)`: it does unless exactly one of the two is `0` (`ParabolaGeneric`).  At `0` the test
  is NOT symmetric: `pf = 0 < pt` takes the "same sign" branch, its mirror image `−0 = 0`, `−pt < 0`
  the "cusp" branch, whose count estimate is different (`count_estimate_branches_differ`).
-/
import LyonVerif.Lemmas.AdaptersConcreteSim

set_option linter.unusedSectionVars false
set_option linter.unusedVariables false

namespace Lyon.Adapt
open Lyon Lyon.Path Scalar Lyon.Flat

section field
variable {K : Type} [Field K] [LinearOrder K] [IsStrictOrderedRing K]

structure IsSimNeg (m : Xf K) (s : K) : Prop where
  h22 : m.m22 = -m.m11
  h21 : m.m21 = m.m12
  spos : 0 < s
  ss : s * s = m.m11 * m.m11 + m.m12 * m.m12

theorem lin_dot_neg (m : Xf K) (s : K) (h : IsSimNeg m s) (v w : P K) :
    (Xf.lin m v).dot (Xf.lin m w) = s * s * v.dot w := by
  simp only [Xf.lin, P.dot, h.h22, h.h21, h.ss]; ring

theorem lin_sqLen_neg (m : Xf K) (s : K) (h : IsSimNeg m s) (v : P K) :
    (Xf.lin m v).sqLen = s * s * v.sqLen := by
  simp only [Xf.lin, P.sqLen, h.h22, h.h21, h.ss]; ring

theorem segSqDist_simneg (m : Xf K) (s : K) (h : IsSimNeg m s) (a b p : P K) :
    segSqDist (m.apply a) (m.apply b) (m.apply p) = s * s * segSqDist a b p := by
  have hne : s * s ≠ 0 := ne_of_gt (mul_pos h.spos h.spos)
  simp only [segSqDist, segClosestPoint, apply_sub, lin_dot_neg m s h, mul_div_mul_left _ _ hne,
    apply_add_lin_smul, lin_sqLen_neg m s h]

theorem isLinear_simneg (m : Xf K) (s : K) (h : IsSimNeg m s) (q : Quad K) (tol : K) :
    (q.transformed m).isLinear (s * tol) = q.isLinear tol := by
  simp only [Quad.isLinear, Quad.transformed, segSqDist_simneg m s h]
  have h1 : s * tol * (s * tol) * four = s * s * (tol * tol * four) := by ring
  rw [h1]
  congr 1
  exact propext (mul_le_mul_iff_of_pos_left (mul_pos h.spos h.spos))

theorem flatCross_simneg (m : Xf K) (s : K) (h : IsSimNeg m s) (q : Quad K) :
    FlatParams.flatCross (q.transformed m) = -(s * s * FlatParams.flatCross q) := by
  simp only [FlatParams.flatCross, Quad.transformed, Xf.apply, h.h22, h.h21, h.ss, geom]
  push_cast; ring

theorem n1_simneg (m : Xf K) (s : K) (h : IsSimNeg m s) (q : Quad K) :
    ((q.transformed m).c.x - (q.transformed m).a.x) * (ddOf (q.transformed m)).x
      + ((q.transformed m).c.y - (q.transformed m).a.y) * (ddOf (q.transformed m)).y
      = s * s * ((q.c.x - q.a.x) * (ddOf q).x + (q.c.y - q.a.y) * (ddOf q).y) := by
  rw [ddOf_sim]
  simp only [Quad.transformed, Xf.apply, Xf.lin, h.h22, h.h21, h.ss]; ring

theorem n2_simneg (m : Xf K) (s : K) (h : IsSimNeg m s) (q : Quad K) :
    ((q.transformed m).b.x - (q.transformed m).c.x) * (ddOf (q.transformed m)).x
      + ((q.transformed m).b.y - (q.transformed m).c.y) * (ddOf (q.transformed m)).y
      = s * s * ((q.b.x - q.c.x) * (ddOf q).x + (q.b.y - q.c.y) * (ddOf q).y) := by
  rw [ddOf_sim]
  simp only [Quad.transformed, Xf.apply, Xf.lin, h.h22, h.h21, h.ss]; ring

theorem d2_simneg (m : Xf K) (s : K) (h : IsSimNeg m s) (q : Quad K) :
    (ddOf (q.transformed m)).x * (ddOf (q.transformed m)).x
      + (ddOf (q.transformed m)).y * (ddOf (q.transformed m)).y
      = s * s * ((ddOf q).x * (ddOf q).x + (ddOf q).y * (ddOf q).y) := by
  rw [ddOf_sim]
  simp only [Xf.lin, h.h22, h.h21, h.ss]; ring

section transc
variable [Transc K] [FlatConst K]

/-! ### the approximation functions are odd -/

theorem api_neg (x : K) : approxParabolaIntegral (-x) = -approxParabolaIntegral x := by
  simp only [approxParabolaIntegral]
  rw [show half * half * -x * -x = half * half * x * x by ring, neg_div]

theorem apii_neg (x : K) : approxParabolaInvIntegral (-x) = -approxParabolaInvIntegral x := by
  simp only [approxParabolaInvIntegral]
  rw [show half * half * -x * -x = half * half * x * x by ring]
  ring

/-- the parameters with the four signed fields negated -/
def negParams (p : FlatParams K) : FlatParams K :=
  ⟨p.count, -p.integralFrom, -p.integralStep, -p.invIntegralFrom, -p.divInvIntegralDiff⟩

/-- … give the same `t_at_iteration` -/
theorem tAt_negParams (p : FlatParams K) (i : K) : (negParams p).tAt i = p.tAt i := by
  simp only [FlatParams.tAt, negParams]
  rw [show -p.integralFrom + -p.integralStep * i = -(p.integralFrom + p.integralStep * i) by ring,
    apii_neg]
  ring

/-- `coreOf` through the parabola parameters and the scale -/
noncomputable def coreOf2 (parabolaFrom parabolaTo scale tol : K) : FlatParams K :=
  let integralFrom := approxParabolaIntegral parabolaFrom
  let integralTo := approxParabolaIntegral parabolaTo
  let integralDiff := integralTo - integralFrom
  let invIntegralFrom := approxParabolaInvIntegral integralFrom
  let invIntegralTo := approxParabolaInvIntegral integralTo
  let divInvIntegralDiff := one / (invIntegralTo - invIntegralFrom)
  let count := FlatParams.fixCount (Transc.ceil (FlatParams.countEstimate parabolaFrom parabolaTo integralDiff scale tol))
  let integralStep := integralDiff / count
  ⟨count, integralFrom, integralStep, invIntegralFrom, divInvIntegralDiff⟩

theorem coreOf_eq_coreOf2 (n1 n2 cross d2 tol : K) :
    coreOf n1 n2 cross d2 tol
      = coreOf2 (n1 * (one / cross)) (n2 * (one / cross))
          (Scalar.abs cross / (Transc.sqrt d2 * Scalar.abs (n2 * (one / cross) - n1 * (one / cross)))) tol :=
  rfl

/-- the sign test of `FlatteningParameters::new` answers the same for `(pf, pt)` and `(−pf, −pt)` -/
def ParabolaGeneric (pf pt : K) : Prop :=
  (decide (-pf < 0) = decide (-pt < 0)) = (decide (pf < 0) = decide (pt < 0))

theorem parabolaGeneric_of_ne (pf pt : K) (h1 : pf ≠ 0) (h2 : pt ≠ 0) : ParabolaGeneric pf pt := by
  unfold ParabolaGeneric
  rcases lt_or_gt_of_ne h1 with a | a <;> rcases lt_or_gt_of_ne h2 with b | b <;>
    simp [a, b, not_lt.mpr (le_of_lt a), not_lt.mpr (le_of_lt b)]

theorem coreOf2_neg (s : K) (hs : 0 < s) (pf pt sc tol : K) (hg : ParabolaGeneric pf pt) :
    coreOf2 (-pf) (-pt) (s * sc) (s * tol) = negParams (coreOf2 pf pt sc tol) := by
  have hne : s ≠ 0 := ne_of_gt hs
  have hest : FlatParams.countEstimate (-pf) (-pt)
      (-(approxParabolaIntegral pt - approxParabolaIntegral pf)) (s * sc) (s * tol)
      = FlatParams.countEstimate pf pt (approxParabolaIntegral pt - approxParabolaIntegral pf) sc tol := by
    unfold ParabolaGeneric at hg
    simp only [FlatParams.countEstimate, mul_div_mul_left _ _ hne, sc_abs, abs_neg,
      show (zero : K) = 0 from sc_zero, hg]
  simp only [coreOf2, negParams, api_neg, apii_neg,
    show -approxParabolaIntegral pt - -approxParabolaIntegral pf
      = -(approxParabolaIntegral pt - approxParabolaIntegral pf) by ring, hest,
    show -approxParabolaInvIntegral (approxParabolaIntegral pt)
        - -approxParabolaInvIntegral (approxParabolaIntegral pf)
      = -(approxParabolaInvIntegral (approxParabolaIntegral pt)
        - approxParabolaInvIntegral (approxParabolaIntegral pf)) by ring,
    neg_div, div_neg]

/-- the general branch under an orientation-reversing similarity -/
theorem coreOf_simneg (hsq : SqrtScales K) (s : K) (hs : 0 < s) (n1 n2 cross d2 tol : K)
    (hd2 : 0 ≤ d2) (hg : ParabolaGeneric (n1 * (one / cross)) (n2 * (one / cross))) :
    coreOf (s * s * n1) (s * s * n2) (-(s * s * cross)) (s * s * d2) (s * tol)
      = negParams (coreOf n1 n2 cross d2 tol) := by
  have hne : s ≠ 0 := ne_of_gt hs
  have hss : s * s ≠ 0 := mul_ne_zero hne hne
  have hp : ∀ n : K, s * s * n * (one / -(s * s * cross)) = -(n * (one / cross)) := by
    intro n
    rw [show (one : K) = 1 from sc_one, one_div, one_div, inv_neg, mul_inv]
    have : s * s * (s * s)⁻¹ = 1 := mul_inv_cancel₀ hss
    linear_combination (-(n * cross⁻¹)) * this
  rw [coreOf_eq_coreOf2, coreOf_eq_coreOf2, hp, hp, hsq s d2 (le_of_lt hs) hd2]
  have habs : Scalar.abs (-(s * s * cross)) = s * s * Scalar.abs cross := by
    simp only [sc_abs, abs_neg, abs_mul, abs_of_pos hs]
  have hsub : Scalar.abs (-(n2 * (one / cross)) - -(n1 * (one / cross)))
      = Scalar.abs (n2 * (one / cross) - n1 * (one / cross)) := by
    rw [show -(n2 * (one / cross)) - -(n1 * (one / cross))
      = -(n2 * (one / cross) - n1 * (one / cross)) by ring]
    simp only [sc_abs, abs_neg]
  rw [habs, hsub]
  have hscale : s * s * Scalar.abs cross
        / (s * Transc.sqrt d2 * Scalar.abs (n2 * (one / cross) - n1 * (one / cross)))
      = s * (Scalar.abs cross / (Transc.sqrt d2 * Scalar.abs (n2 * (one / cross) - n1 * (one / cross)))) := by
    rw [mul_assoc s (Transc.sqrt d2), mul_assoc s s, mul_div_mul_left _ _ hne, mul_div_assoc]
  rw [hscale]
  exact coreOf2_neg s hs _ _ _ tol hg

/-! ### the flattening uses the parameters only through `count` and `t_at_iteration` -/

theorem flatLoop_congr_tAt (q : Quad K) (p p' : FlatParams K) (h : ∀ i, p'.tAt i = p.tAt i)
    (n : ℕ) (i : K) (frm : P K) (tFrom : K) :
    q.flatLoop p' n i frm tFrom = q.flatLoop p n i frm tFrom := by
  induction n generalizing i frm tFrom with
  | zero => rfl
  | succ n ih => simp only [Quad.flatLoop, h, ih]

/-- the parabola parameters of a quadratic (`parabola_from`, `parabola_to` of
`FlatteningParameters::new`) -/
noncomputable def parabolaFromOf (q : Quad K) : K :=
  ((q.c.x - q.a.x) * (ddOf q).x + (q.c.y - q.a.y) * (ddOf q).y) * (one / FlatParams.flatCross q)
noncomputable def parabolaToOf (q : Quad K) : K :=
  ((q.b.x - q.c.x) * (ddOf q).x + (q.b.y - q.c.y) * (ddOf q).y) * (one / FlatParams.flatCross q)

/-- **flatParams_simneg**: under an orientation-reversing similarity the parameters of the
transformed quadratic at `s·tol` are those of the original at `tol` or their negation — same
count, same `t_at_iteration` — when the sign test is symmetric for this curve -/
theorem flatParams_simneg (hsq : SqrtScales K) (m : Xf K) (s : K) (h : IsSimNeg m s) (q : Quad K)
    (tol : K) (hg : ParabolaGeneric (parabolaFromOf q) (parabolaToOf q)) :
    (FlatParams.new (q.transformed m) (s * tol)).count = (FlatParams.new q tol).count ∧
    ∀ i, (FlatParams.new (q.transformed m) (s * tol)).tAt i = (FlatParams.new q tol).tAt i := by
  have hss : s * s ≠ 0 := ne_of_gt (mul_pos h.spos h.spos)
  unfold FlatParams.new
  rw [isLinear_simneg m s h]
  split
  · exact ⟨rfl, fun _ => rfl⟩
  · unfold FlatParams.general
    have hz : (FlatParams.flatCross (q.transformed m) == (zero : K))
        = (FlatParams.flatCross q == (zero : K)) := by
      rw [flatCross_simneg m s h]
      rw [Bool.eq_iff_iff, sc_beq, sc_beq, show (zero : K) = 0 from sc_zero]
      constructor
      · intro h0
        have := neg_eq_zero.mp h0
        exact (mul_eq_zero.mp this).resolve_left hss
      · intro h0; rw [h0, mul_zero, neg_zero]
    rw [hz]
    split
    · exact ⟨rfl, fun _ => rfl⟩
    · rw [generalCore_eq_coreOf, generalCore_eq_coreOf, n1_simneg m s h, n2_simneg m s h,
        flatCross_simneg m s h, d2_simneg m s h,
        coreOf_simneg hsq s h.spos _ _ _ _ tol
          (add_nonneg (mul_self_nonneg _) (mul_self_nonneg _)) hg]
      exact ⟨rfl, fun i => tAt_negParams _ i⟩

/-- **quad_flatten_simneg**: `for_each_flattened_with_t` of the mirrored (reflected, rotated,
scaled, translated) quadratic at `s·tol` = the transformed callbacks of the original at `tol` -/
theorem quad_flatten_simneg (hsq : SqrtScales K) (m : Xf K) (s : K) (h : IsSimNeg m s) (q : Quad K)
    (tol : K) (hg : ParabolaGeneric (parabolaFromOf q) (parabolaToOf q)) :
    (q.transformed m).forEachFlattenedWithT (s * tol)
      = (q.forEachFlattenedWithT tol).map (List.map (mapFlat m)) := by
  obtain ⟨hc, ht⟩ := flatParams_simneg hsq m s h q tol hg
  simp only [Quad.forEachFlattenedWithT, hc, Option.map_map]
  congr 1
  funext n
  simp only [Function.comp, Quad.flatWith, flatLoop_congr_tAt _ _ _ ht]
  exact quad_flatLoop_xf m q _ _ _ _ _

/-! ### at 0 the sign test is not symmetric -/

/-- **count_estimate_asymmetric_at_zero**: for `parabola_from = 0 < parabola_to` (the curve
starts at the vertex of its parabola: `(ctrl − from) ⟂ (2·ctrl − from − to)`, e.g.
`from (0,0) ctrl (1,0) to (2,1)`) the count estimate is `½·|Δ|·sqrt(scale/tol)`; for the mirror
image (`−0 = 0`, `−parabola_to < 0`) the test `(0 < 0) == (−pt < 0)` fails and the estimate is the
cusp formula `½·|Δ| / approx_parabola_integral(sqrt(tol/scale))`. -/
theorem count_estimate_asymmetric_at_zero (pt d sc tol : K) (hpt : 0 < pt) :
    FlatParams.countEstimate 0 pt d sc tol = half * Scalar.abs d * Transc.sqrt (sc / tol) ∧
    FlatParams.countEstimate (-0) (-pt) (-d) sc tol
      = half * Scalar.abs d / approxParabolaIntegral (Transc.sqrt (tol / sc)) := by
  constructor
  · simp [FlatParams.countEstimate, show (zero : K) = 0 from sc_zero, not_lt.mpr (le_of_lt hpt)]
  · simp [FlatParams.countEstimate, show (zero : K) = 0 from sc_zero, hpt, sc_abs]

/-! ### cubics -/

theorem numQuadraticsImpl_simneg (m : Xf K) (s : K) (h : IsSimNeg m s) (c : Cubic K) (tol : K) :
    (c.transformed m).numQuadraticsImpl (s * tol) = c.numQuadraticsImpl tol := by
  have hss : s * s ≠ 0 := ne_of_gt (mul_pos h.spos h.spos)
  have key : ∀ x y x' y' : K, x' = x * m.m11 + y * m.m12 → y' = x * m.m12 - y * m.m11 →
      (x' * x' + y' * y') / (ofNat 432 * (s * tol) * (s * tol))
        = (x * x + y * y) / (ofNat 432 * tol * tol) := by
    intro x y x' y' hx hy
    rw [hx, hy, show (x * m.m11 + y * m.m12) * (x * m.m11 + y * m.m12)
        + (x * m.m12 - y * m.m11) * (x * m.m12 - y * m.m11) = s * s * (x * x + y * y) by
          rw [h.ss]; ring,
      show (ofNat 432 : K) * (s * tol) * (s * tol) = s * s * (ofNat 432 * tol * tol) by ring,
      mul_div_mul_left _ _ hss]
  unfold Cubic.numQuadraticsImpl
  simp only []
  rw [key (c.a.x - three * c.c1.x + three * c.c2.x - c.b.x)
    (c.a.y - three * c.c1.y + three * c.c2.y - c.b.y)]
  · simp only [Cubic.transformed, Xf.apply, h.h22, h.h21, geom]; push_cast; ring
  · simp only [Cubic.transformed, Xf.apply, h.h22, h.h21, geom]; push_cast; ring

/-- the sign test is symmetric for every quadratic approximation of the list -/
def QuadsGeneric (qs : List (Quad K × K × K)) : Prop :=
  ∀ x ∈ qs, ParabolaGeneric (parabolaFromOf x.1) (parabolaToOf x.1)

theorem flatQuadsT_simneg (hsq : SqrtScales K) (m : Xf K) (s : K) (h : IsSimNeg m s) (tol : K)
    (qs : List (Quad K × K × K)) (hg : QuadsGeneric qs) (tFrom : K) :
    Cubic.flatQuadsT (s * tol) (qs.map (mapQR m)) tFrom
      = (Cubic.flatQuadsT tol qs tFrom).map (List.map (mapFlat m)) := by
  induction qs generalizing tFrom with
  | nil => rfl
  | cons x rest ih =>
    obtain ⟨q, r0, r1⟩ := x
    have hq := hg (q, r0, r1) (by simp)
    have hrest : QuadsGeneric rest := fun y hy => hg y (List.mem_cons_of_mem _ hy)
    simp only [List.map_cons, mapQR, Cubic.flatQuadsT, quad_flatten_simneg hsq m s h q _ hq]
    cases hq' : q.forEachFlattenedWithT tol with
    | none => rfl
    | some l =>
      simp only [Option.map_some, rerange_xf, ih hrest]
      cases hr : Cubic.flatQuadsT tol rest (Cubic.rerange r0 (r1 - r0) (r1 == one) l tFrom).2 with
      | none => rfl
      | some r => simp

theorem cubic_flatten_simneg (hsq : SqrtScales K) (m : Xf K) (s : K) (h : IsSimNeg m s) (c : Cubic K)
    (tol : K) (hg : QuadsGeneric (c.forEachQuadraticWithT (tol * FlatConst.value 4 1))) :
    (c.transformed m).forEachFlattenedWithT (s * tol)
      = (c.forEachFlattenedWithT tol).map (List.map (mapFlat m)) := by
  simp only [Cubic.forEachQuadraticWithT] at hg
  simp only [Cubic.forEachFlattenedWithT, Cubic.forEachQuadraticWithT, mul_assoc s tol,
    numQuadraticsImpl_simneg m s h, quadsLoop_xf]
  exact flatQuadsT_simneg hsq m s h _ _ hg _

end transc

end field

end Lyon.Adapt
