/-
  C15b, real part: the concrete arc geometry of `WithSvg` (`Model/Path/SvgConcrete.lean`) over ℝ,
  with Mathlib's trigonometric functions (`exampleTransc` of `Props/C13.lean`), on top of the C13
  theorems over ℝ (`Props/C13Real.lean`).  No law of a transcendental function is assumed.

  * `quadsOf_run`            (any ordered field) the pieces of `arc_to_quadratic_beziers` form a
                             connected `Run` from the ellipse point at the start angle;
  * `quadsOf_run_real`       … over ℝ: it ends at `arc.sample 1` for `|sweep| ≤ 2π`, back at
                             `arc.sample 0` (8 pieces) beyond a turn; no piece iff `sweep = 0`;
  * `centerArc_of_svg_real`  the start angle `WithSvg::arc` recomputes with `atan2` from the current
                             position IS the start angle of `SvgArc::to_arc`: `arc` rebuilds exactly
                             the arc `arc_to` converted (repair 40e30eb0 / 20bcfb88);
  * `not_approxEq_center_real`  `arc_to` never takes `arc`'s early return: a point of an ellipse
                             with radii above `S::EPSILON ≥ 2e-6` is not `approx_eq` its centre;
  * `start_on_ellipse_real`  centre form: if the current position lies on the ellipse, the arc
                             starts exactly there.
-/
import LyonVerif.Props.C13Real
import LyonVerif.Lemmas.SvgGeoConcrete

set_option linter.unusedSectionVars false
set_option linter.unusedVariables false
set_option linter.unusedSimpArgs false

namespace Lyon.Svg
open Lyon Scalar ArcConv Lyon.C13 Lyon.Path

/-! ### any ordered field: the pieces are a connected run -/

section field
variable {K : Type} [Field K] [LinearOrder K] [IsStrictOrderedRing K] [Transc K] [ArcConv.Eps K]

theorem run_quadPieces (arc : Arc K) (step : K) (k i : Nat) :
    Run (quadPiece arc step i).a ((List.range' i k).map (quadPiece arc step))
      (pointAt arc (angleAt arc step (i + k))) := by
  induction k generalizing i with
  | zero => exact rfl
  | succ k ih =>
    rw [List.range'_succ, List.map_cons]
    have := ih (i + 1)
    rw [show i + 1 + k = i + (k + 1) by omega] at this
    exact ⟨rfl, this⟩

theorem quadsOf_closed_form (arc : Arc K) :
    quadsOf arc = (List.range' 0 (nQ arc)).map (quadPiece arc (stepQ arc)) := by
  unfold quadsOf
  rw [quads_closed_form, List.map_map]
  rfl

theorem quadPiece_zero_a (arc : Arc K) (step : K) : (quadPiece arc step 0).a = arc.sample 0 := by
  simp only [quadPiece, angleAt, pointAt, Arc.sample, Arc.getAngle, ofNat_eq, Nat.cast_zero, mul_zero,
    add_zero]

/-- **the pieces of an arc form a connected run** that starts at the ellipse point at the start
angle (`arc.from()`) — the same expressions, so this holds in floating point too -/
theorem quadsOf_run (arc : Arc K) :
    Run (arc.sample 0) (quadsOf arc) (pointAt arc (angleAt arc (stepQ arc) (nQ arc))) := by
  have := run_quadPieces arc (stepQ arc) (nQ arc) 0
  rw [quadPiece_zero_a, Nat.zero_add] at this
  rw [quadsOf_closed_form]
  exact this

theorem quadsOf_length (arc : Arc K) : (quadsOf arc).length = nQ arc := by
  rw [quadsOf_closed_form]; simp

end field

/-! ### over ℝ -/

/-- the end of the run: `arc.to()` within a turn, the start point again beyond -/
theorem quadsOf_run_real (arc : Arc ℝ) :
    ∃ e, Run (arc.sample 0) (quadsOf arc) e
      ∧ (|arc.sweep| ≤ 2 * Real.pi → e = arc.sample 1)
      ∧ (2 * Real.pi < |arc.sweep| → e = arc.sample 0 ∧ (quadsOf arc).length = 8)
      ∧ (quadsOf arc = [] ↔ arc.sweep = 0) := by
  have hpi := Real.pi_pos
  refine ⟨_, quadsOf_run arc, ?_, ?_, ?_⟩
  · intro hsw
    have hsw' : |arc.sweep| ≤ Transc.pi * 2 := by rw [transc_pi_real]; linarith
    obtain ⟨c1, _⟩ := cast_faithful_real arc
    by_cases h0 : arc.sweep = 0
    · obtain ⟨z, _⟩ := nSteps_zero_real arc h0
      rw [z]
      simp only [angleAt, pointAt, Arc.sample, Arc.getAngle, ofNat_eq, Nat.cast_zero, mul_zero, add_zero,
        h0, zero_mul]
    · obtain ⟨hq, _, nq, _⟩ := nSteps_pos_real arc h0
      show pointAt arc (angleAt arc (stepOf arc (nStepsQ arc)) (nQ arc)) = _
      rw [angleAt_eq_getAngle arc _ _ hsw', pointAt_getAngle, c1, div_self (ne_of_gt hq)]
  · intro hsw
    obtain ⟨l8, _, hj, _, _, _, h7, _, _⟩ := arc_beziers_beyond_turn_real arc hsw
    obtain ⟨_, _, _, n8, _⟩ := nSteps_full_turn_real arc (by linarith)
    refine ⟨?_, by rw [quadsOf_length, n8]⟩
    have e1 := hj 7 (by omega)
    rw [quads_get arc 7 (by omega)] at e1
    have e2 : quadPiece arc (stepQ arc) 7 = quadPiece arc (Real.pi / 4 * signum arc.sweep) 7 := by
      have := Option.some.inj e1
      exact congrArg Prod.fst this
    rw [n8]
    show (quadPiece arc (stepQ arc) 7).b = _
    rw [e2, h7]
  · rw [← List.length_eq_zero_iff, quadsOf_length]
    constructor
    · intro hn
      by_contra h0
      obtain ⟨_, _, nq, _⟩ := nSteps_pos_real arc h0
      omega
    · intro h0; exact (nSteps_zero_real arc h0).1

theorem rotate_neg_rotate_real (φ : ℝ) (u : P ℝ) : Arc.rotate (-φ) (Arc.rotate φ u) = u := by
  have h := Real.cos_sq_add_sin_sq φ
  apply P.ext'
  · simp only [Arc.rotate, transc_sin_real, transc_cos_real, Real.sin_neg, Real.cos_neg]
    linear_combination u.x * h
  · simp only [Arc.rotate, transc_sin_real, transc_cos_real, Real.sin_neg, Real.cos_neg]
    linear_combination u.y * h

/-- `Rotation::new(-x_rotation).transform_vector(p - center)` of a point of the ellipse -/
theorem startVec_on_ellipse_real (c r : P ℝ) (φ t : ℝ) :
    startVec c φ (c + Arc.sampleEllipse r φ t) = ⟨r.x * Real.cos t, r.y * Real.sin t⟩ := by
  have e : c + Arc.sampleEllipse r φ t - c = Arc.sampleEllipse r φ t := by
    apply P.ext' <;> simp only [geom] <;> ring
  unfold startVec
  rw [e]
  exact rotate_neg_rotate_real φ _

/-- the `atan2` of a point of the unit circle has the same cosine and sine -/
theorem atan2_unit_real (t : ℝ) :
    Real.cos (Transc.atan2 (Real.sin t) (Real.cos t) : ℝ) = Real.cos t
      ∧ Real.sin (Transc.atan2 (Real.sin t) (Real.cos t) : ℝ) = Real.sin t := by
  have h1 : Real.cos t * Real.cos t + Real.sin t * Real.sin t = 1 := by
    have := Real.cos_sq_add_sin_sq t; nlinarith
  have hne : Real.cos t ≠ 0 ∨ Real.sin t ≠ 0 := by
    by_contra h
    push Not at h
    rw [h.1, h.2] at h1; norm_num at h1
  obtain ⟨a, b⟩ := atan2_real_polar (Real.sin t) (Real.cos t) hne
  rw [h1, Real.sqrt_one, div_one] at a b
  exact ⟨a, b⟩

/-- for an angle in `(−π, π]` the `atan2` of its unit vector is the angle itself -/
theorem atan2_cos_sin_real (t : ℝ) (h1 : -Real.pi < t) (h2 : t ≤ Real.pi) :
    (Transc.atan2 (Real.sin t) (Real.cos t) : ℝ) = t := by
  rw [transc_atan2_real]
  have e : (⟨Real.cos t, Real.sin t⟩ : ℂ) = Complex.cos t + Complex.sin t * Complex.I := by
    apply Complex.ext <;> simp [Complex.cos_ofReal_re, Complex.sin_ofReal_re, Complex.cos_ofReal_im,
      Complex.sin_ofReal_im]
  rw [e]
  exact Complex.arg_cos_add_sin_mul_I ⟨h1, h2⟩

/-- **centre form, current position on the ellipse**: the arc starts exactly at the current position
(non-zero radii; any centre, rotation, sweep, parameter `t` of the point) -/
theorem start_on_ellipse_real (c r : P ℝ) (sw φ t : ℝ) (hx : r.x ≠ 0) (hy : r.y ≠ 0) :
    (centerArc c r sw φ (c + Arc.sampleEllipse r φ t)).sample 0 = c + Arc.sampleEllipse r φ t := by
  obtain ⟨hc, hs⟩ := atan2_unit_real t
  have hv := startVec_on_ellipse_real c r φ t
  have ha : startAngle c r φ (c + Arc.sampleEllipse r φ t)
      = Transc.atan2 (Real.sin t) (Real.cos t) := by
    unfold startAngle
    rw [hv]
    simp only [mul_div_cancel_left₀ _ hx, mul_div_cancel_left₀ _ hy]
  simp only [Arc.sample, Arc.getAngle, centerArc, ha, mul_zero, add_zero]
  simp only [Arc.sampleEllipse, transc_cos_real, transc_sin_real, hc, hs]

section svg
variable (a : SvgArc ℝ) (hrx : a.radii.x ≠ 0) (hry : a.radii.y ≠ 0) (hne : a.from_ ≠ a.to)
include hrx hry hne

/-- **`arc` rebuilds the arc `arc_to` converted**: with the centre, radii, sweep and rotation of
`SvgArc::to_arc`, the start angle `WithSvg::arc` computes from the current position `from` by
`atan2` of the un-rotated, un-scaled offset is `to_arc`'s own start angle. -/
theorem centerArc_of_svg_real :
    centerArc (fromSvgArc a).center (fromSvgArc a).radii (fromSvgArc a).sweep (fromSvgArc a).xrot a.from_
      = fromSvgArc a := by
  obtain ⟨e0, _⟩ := svg_arc_endpoints_real a hrx hry hne
  obtain ⟨_, _, px, py, _⟩ := svg_arc_radii_real a hrx hry hne
  have hstart : startAngle (fromSvgArc a).center (fromSvgArc a).radii (fromSvgArc a).xrot a.from_
      = (fromSvgArc a).start := by
    have hf : a.from_ = (fromSvgArc a).center
        + Arc.sampleEllipse (fromSvgArc a).radii (fromSvgArc a).xrot (fromSvgArc a).start := by
      rw [← e0]
      simp only [Arc.sample, Arc.getAngle, mul_zero, add_zero]
    have hr := atan2_real_range (startV a).y (startV a).x
    have hst : (fromSvgArc a).start = Transc.atan2 (startV a).y (startV a).x := rfl
    unfold startAngle
    rw [hf, startVec_on_ellipse_real]
    simp only [mul_div_cancel_left₀ _ (ne_of_gt px), mul_div_cancel_left₀ _ (ne_of_gt py)]
    exact atan2_cos_sin_real _ (by rw [hst]; exact hr.1) (by rw [hst]; exact hr.2)
  unfold centerArc
  rw [hstart]

/-- **`arc_to` never takes the early return of `arc`**: the current position is a point of an
ellipse whose radii exceed `S::EPSILON`; with `S::EPSILON ≥ 2·10⁻⁶` (lyon's f32 value is `10⁻⁴`) it
is not within euclid's `approx_eq` box (`10⁻⁶` per coordinate) of the centre. -/
theorem not_approxEq_center_real [Eps ℝ] (heps : 2 / 10 ^ 6 ≤ (Eps.eps : ℝ))
    (hs : ArcConv.isStraightLine a = false) :
    approxEqPt (ofP a.from_) (ofP (fromSvgArc a).center) = false := by
  obtain ⟨e0, _⟩ := svg_arc_endpoints_real a hrx hry hne
  obtain ⟨_, _, px, py, lx, ly, _⟩ := svg_arc_radii_real a hrx hry hne
  simp only [ArcConv.isStraightLine, Bool.or_eq_false_iff, decide_eq_false_iff_not, not_le, sc_abs] at hs
  obtain ⟨⟨s1, s2⟩, _⟩ := hs
  set rx := (fromSvgArc a).radii.x with hrxd
  set ry := (fromSvgArc a).radii.y with hryd
  set θ := (fromSvgArc a).start
  set φ := (fromSvgArc a).xrot
  have hf : a.from_ = (fromSvgArc a).center + Arc.sampleEllipse (fromSvgArc a).radii φ θ := by
    rw [← e0]
    simp only [Arc.sample, Arc.getAngle, mul_zero, add_zero]; rfl
  have h1 := Real.cos_sq_add_sin_sq θ
  have h2 := Real.cos_sq_add_sin_sq φ
  have ex : rx > 2 / 10 ^ 6 := by linarith
  have ey : ry > 2 / 10 ^ 6 := by linarith
  -- squared distance to the centre = rx² cos² + ry² sin² ≥ min(rx, ry)² > (2e-6)²
  have hdx : a.from_.x - (fromSvgArc a).center.x
      = rx * Real.cos θ * Real.cos φ - ry * Real.sin θ * Real.sin φ := by
    rw [hf]; simp only [Arc.sampleEllipse, Arc.rotate, transc_cos_real, transc_sin_real, geom]; ring
  have hdy : a.from_.y - (fromSvgArc a).center.y
      = ry * Real.sin θ * Real.cos φ + rx * Real.cos θ * Real.sin φ := by
    rw [hf]; simp only [Arc.sampleEllipse, Arc.rotate, transc_cos_real, transc_sin_real, geom]; ring
  have hsq : (a.from_.x - (fromSvgArc a).center.x) ^ 2 + (a.from_.y - (fromSvgArc a).center.y) ^ 2
      = rx ^ 2 * Real.cos θ ^ 2 + ry ^ 2 * Real.sin θ ^ 2 := by
    rw [hdx, hdy]
    have : Real.cos φ ^ 2 = 1 - Real.sin φ ^ 2 := by linarith
    ring_nf
    rw [this]; ring
  have hlow : (2 / 10 ^ 6 : ℝ) ^ 2 ≤ rx ^ 2 * Real.cos θ ^ 2 + ry ^ 2 * Real.sin θ ^ 2 := by
    have a1 : (2 / 10 ^ 6 : ℝ) ^ 2 ≤ rx ^ 2 := by
      apply pow_le_pow_left₀ (by norm_num) (le_of_lt ex)
    have a2 : (2 / 10 ^ 6 : ℝ) ^ 2 ≤ ry ^ 2 := by
      apply pow_le_pow_left₀ (by norm_num) (le_of_lt ey)
    have c2 := sq_nonneg (Real.cos θ)
    have s2 := sq_nonneg (Real.sin θ)
    nlinarith
  unfold approxEqPt
  simp only [ofP, sc_abs, ofSci_eq, Nat.cast_one, Bool.and_eq_false_iff, decide_eq_false_iff_not, not_lt]
  by_contra hcon
  push Not at hcon
  obtain ⟨b1, b2⟩ := hcon
  have q1 : (a.from_.x - (fromSvgArc a).center.x) ^ 2 < (1 / 10 ^ 6 : ℝ) ^ 2 := by
    rw [← sq_abs]; exact pow_lt_pow_left₀ b1 (abs_nonneg _) (by norm_num)
  have q2 : (a.from_.y - (fromSvgArc a).center.y) ^ 2 < (1 / 10 ^ 6 : ℝ) ^ 2 := by
    rw [← sq_abs]; exact pow_lt_pow_left₀ b2 (abs_nonneg _) (by norm_num)
  rw [← hsq] at hlow
  norm_num at hlow q1 q2
  linarith

end svg

end Lyon.Svg
