/-
  C16 with the concrete flatteners: the two lyon_geom entry points for a QUADRATIC — the callback
  form `for_each_flattened_with_t` (used by `builder::Flattened`) and the iterator `Flattened`
  (used by `iterator::Flattened`) — yield the same points, over ordered fields, given that the
  count `ceil(…)` is an integer that `to_u32` converts exactly and `0 ≤ EPSILON < 1`
  (`CountLaws`; the iterator's guard is `i >= count − EPSILON`, the callback's loop runs
  `for _ in 1..count`).

  For a CUBIC the two entry points do NOT yield the same points (the callback form flattens the
  quadratic approximations, the iterator samples the cubic itself at the corresponding
  parameters): `cubic_iter_vs_callback_point` is the exact difference.
-/
import LyonVerif.Model.Path.AdaptersConcrete
import LyonVerif.Lemmas.AdaptersConcreteIter
import LyonVerif.Lemmas.Flatten
import Mathlib.Data.Rat.Floor

set_option linter.unusedSectionVars false
set_option linter.unusedVariables false

namespace Lyon.Adapt
open Lyon Lyon.Path Scalar Lyon.Flat

section field
variable {K : Type} [Field K] [LinearOrder K] [IsStrictOrderedRing K] [Transc K] [FlatConst K]

/-- what the agreement of the two quadratic entry points needs of the non-field functions:
`to_u32` is exact on natural numbers, `ceil` is integer-valued, `0 ≤ S::EPSILON < 1` -/
structure CountLaws (K : Type) [Field K] [LinearOrder K] [IsStrictOrderedRing K] [Transc K]
    [FlatConst K] : Prop where
  toNat_natCast : ∀ n : ℕ, Transc.toNat ((n : ℕ) : K) = n
  ceil_int : ∀ x : K, ∃ z : ℤ, Transc.ceil x = (z : K)
  eps_nonneg : (0 : K) ≤ FlatConst.epsilon
  eps_lt_one : (FlatConst.epsilon : K) < 1

theorem flatParams_count_int (L : CountLaws K) (q : Quad K) (tol : K) :
    ∃ z : ℤ, (FlatParams.new q tol).count = (z : K) := by
  have hz : ∃ z : ℤ, (zero : K) = (z : K) := ⟨0, by simp⟩
  unfold FlatParams.new
  split
  · exact hz
  · unfold FlatParams.general
    split
    · exact hz
    · simp only [FlatParams.generalCore, FlatParams.fixCount]
      split
      · exact L.ceil_int _
      · exact hz

/-- when `to_u32` succeeds the count is the natural number it returns -/
theorem count_eq_of_toU32 (L : CountLaws K) (x : K) (hx : ∃ z : ℤ, x = (z : K)) (n : ℕ)
    (h : toU32 x = some n) : x = (n : K) := by
  obtain ⟨z, rfl⟩ := hx
  unfold toU32 at h
  split at h
  · rename_i hc
    have h1 : (-1 : K) < (z : K) := by
      have := hc.1
      simpa [show (one : K) = 1 from sc_one] using this
    have hz : (-1 : ℤ) < z := by exact_mod_cast h1
    obtain ⟨m, rfl⟩ : ∃ m : ℕ, z = m := ⟨z.toNat, by omega⟩
    have : Transc.toNat (((m : ℕ) : ℤ) : K) = m := by
      rw [Int.cast_natCast]; exact L.toNat_natCast m
    rw [this] at h
    cases Option.some.inj h
    simp
  · cases h

/-- the iterator, from iteration `k` on, yields the `line.to`s of the callback loop from
iteration `k` on -/
theorem quad_iter_loop (L : CountLaws K) (q : Quad K) (p : FlatParams K) (n : ℕ)
    (hc : p.count = (n : K)) (m : ℕ) (k : ℕ) (hk : 1 ≤ k) (hkm : k + m = max n 1) (f : ℕ)
    (frm : P K) (tFrom : K) (l : List (P K))
    (h : (⟨q, p, (k : K), false⟩ : QuadIter K).collectDone f = some l) :
    l = (q.flatLoop p m (k : K) frm tFrom).map (·.b) := by
  induction m generalizing k f frm tFrom l with
  | zero =>
    have hnk : (n : K) ≤ (k : K) := by
      have : n ≤ k := by omega
      exact_mod_cast this
    have he : (⟨q, p, (k : K), false⟩ : QuadIter K).atEnd = true := by
      simp only [QuadIter.atEnd, decide_eq_true_eq, hc]
      have := L.eps_nonneg
      linarith
    cases f with
    | zero => simp [QuadIter.collectDone] at h
    | succ f =>
      rw [QuadIter.collectDone] at h
      have hn : (⟨q, p, (k : K), false⟩ : QuadIter K).next
          = (some q.b, ⟨q, p, (k : K), true⟩) := by
        simp [QuadIter.next, he]
      simp only [hn, Option.map_eq_some_iff] at h
      obtain ⟨l', hl', rfl⟩ := h
      cases f with
      | zero => simp [QuadIter.collectDone] at hl'
      | succ f =>
        rw [QuadIter.collectDone] at hl'
        have hn' : (⟨q, p, (k : K), true⟩ : QuadIter K).next = (none, ⟨q, p, (k : K), true⟩) := by
          simp [QuadIter.next]
        simp only [hn'] at hl'
        cases Option.some.inj hl'
        simp [Quad.flatLoop]
  | succ m ih =>
    have hn2 : k + 1 ≤ n := by omega
    have he : (⟨q, p, (k : K), false⟩ : QuadIter K).atEnd = false := by
      simp only [QuadIter.atEnd, decide_eq_false_iff_not, hc, not_le]
      have h1 : ((k : K) + 1) ≤ (n : K) := by exact_mod_cast hn2
      have := L.eps_lt_one
      linarith
    cases f with
    | zero => simp [QuadIter.collectDone] at h
    | succ f =>
      rw [QuadIter.collectDone] at h
      have hi : (k : K) + one = ((k + 1 : ℕ) : K) := by
        rw [show (one : K) = 1 from sc_one]; push_cast; ring
      have hn : (⟨q, p, (k : K), false⟩ : QuadIter K).next
          = (some (q.sample (p.tAt (k : K))), ⟨q, p, ((k + 1 : ℕ) : K), false⟩) := by
        simp only [QuadIter.next, he, Bool.false_eq_true, if_false, hi]
      simp only [hn, Option.map_eq_some_iff] at h
      obtain ⟨l', hl', rfl⟩ := h
      have := ih (k + 1) (by omega) (by omega) f (q.sample (p.tAt (k : K))) (p.tAt (k : K)) l' hl'
      simp only [Quad.flatLoop, List.map_cons, hi, this]

/-- **the two quadratic entry points agree**: `flattened(tol)` (once finished) yields exactly the
`line.to`s of `for_each_flattened_with_t(tol)` (when that does not panic) -/
theorem quad_iter_eq_callback (L : CountLaws K) (fuel : ℕ) (tol : K) (a c b : P K)
    (hcb : cbOkQuad tol a c b = true) (hit : itOkQuad fuel tol a c b = true) :
    (itModel fuel tol).quad a c b = ((cbModel tol).quad a c b).map (·.b) := by
  simp only [cbOkQuad, Option.isSome_iff_exists] at hcb
  obtain ⟨l0, hl0⟩ := hcb
  simp only [itOkQuad, Option.isSome_iff_exists] at hit
  obtain ⟨l, hl⟩ := hit
  have hcol := quad_collect_of_done _ _ _ hl
  simp only [itModel, cbModel, hl0, Option.getD_some, hcol, List.map_map]
  simp only [Quad.forEachFlattenedWithT, Option.map_eq_some_iff] at hl0
  obtain ⟨n, hn, rfl⟩ := hl0
  have hc := count_eq_of_toU32 L _ (flatParams_count_int L ⟨a, c, b⟩ tol) n hn
  have h1 : (QuadIter.new (⟨a, c, b⟩ : Quad K) tol)
      = ⟨⟨a, c, b⟩, FlatParams.new ⟨a, c, b⟩ tol, ((1 : ℕ) : K), false⟩ := by
    simp [QuadIter.new, show (one : K) = 1 from sc_one]
  rw [h1] at hl
  have := quad_iter_loop L ⟨a, c, b⟩ (FlatParams.new ⟨a, c, b⟩ tol) n hc (n - 1) 1 (le_refl 1)
    (by omega) fuel a zero l hl
  rw [this, Quad.flatWith]
  simp [show (one : K) = 1 from sc_one, Function.comp_def, segOf]

end field

/-! ### cubic: the iterator's points are NOT the callback's points -/

section cubic
variable {K : Type} [Field K] [LinearOrder K] [IsStrictOrderedRing K]

/-- **cubic_iter_vs_callback_point** (exact identity): for the sub-range `[t0, t1]` of a cubic
and an inner parameter `t`, the point the cubic ITERATOR yields — `curve.sample(t0 + t·(t1−t0))`,
on the cubic — minus the point the CALLBACK form emits —
`curve.split_range(t0..t1).to_quadratic().sample(t)`, on the quadratic approximation — is
`½·t(1−t)(1−2t)·(t1−t0)³·(P3 − 3P2 + 3P1 − P0)`: zero only at `t ∈ {0, ½, 1}`, for an empty
range, or for a cubic that is a quadratic.  So builder-side and iterator-side flattening of a
path with a cubic emit different inserted points (same endpoints). -/
theorem cubic_iter_vs_callback_point (c : Cubic K) (t0 t1 t : K) :
    c.sample (t0 + t * (t1 - t0)) - (c.splitRange t0 t1).toQuadratic.sample t
      = (((c.b - c.c2.smul 3) + c.c1.smul 3) - c.a).smul
          (1 / 2 * (t * (1 - t) * (1 - 2 * t)) * ((t1 - t0) * (t1 - t0) * (t1 - t0))) := by
  geom_ring

/-- a concrete instance on the model: `from (0,0) ctrl1 (0,3) ctrl2 (3,3) to (3,0)` (third
difference `(−6, 0)`), whole range, `t = 1/4`: the iterator's point (on the cubic) minus the
callback's point (on the quadratic approximation) is `½·(3/32)·(−6, 0) = (−9/32, 0)` -/
theorem cubic_iter_vs_callback_witness :
    let c : Cubic ℚ := ⟨⟨0, 0⟩, ⟨0, 3⟩, ⟨3, 3⟩, ⟨3, 0⟩⟩
    c.sample (0 + 1 / 4 * (1 - 0)) - (c.splitRange 0 1).toQuadratic.sample (1 / 4)
      = ⟨-9 / 32, 0⟩ := by
  intro c
  rw [cubic_iter_vs_callback_point]
  apply P.ext' <;> simp only [geom, c] <;> norm_num

end cubic

/-! ### `CountLaws` is satisfiable: ℚ with the real `ceil` / `floor` -/

/-- ℚ with genuine `ceil`, `floor`, saturating `to_u32`-style cast (the other functions are
placeholders: none of them occurs in `CountLaws`) -/
@[instance_reducible] noncomputable def ratCeilTransc : Transc ℚ :=
  { toyTransc with
    ceil := fun x => ((⌈x⌉ : ℤ) : ℚ)
    floor := fun x => ((⌊x⌋ : ℤ) : ℚ)
    toNat := fun x => ⌊x⌋₊ }

example : @CountLaws ℚ _ _ _ ratCeilTransc toyConst :=
  @CountLaws.mk ℚ _ _ _ ratCeilTransc toyConst (fun n => Nat.floor_natCast n) (fun x => ⟨⌈x⌉, rfl⟩)
    (by show (0 : ℚ) ≤ 1 / 10000; norm_num) (by show (1 / 10000 : ℚ) < 1; norm_num)

end Lyon.Adapt
