/-
  C02 growth 3 (`Props/C02f.lean`), part 16: the separation invariant `Z3` through `stepSides`,
  `Adv.vertex` and the whole feed: on a valid sweep sequence every buffered chain of every reached
  state is chord-clear (`adv_chord_clear`).  With `adv_run_area_le`: the advanced monotone
  tessellator's area sum equals the polygon's area (`adv_run_area_eq`).
-/
import LyonVerif.Lemmas.MonotoneTileAdvSep

set_option linter.unusedSectionVars false
set_option linter.unusedVariables false
set_option linter.unusedSimpArgs false

namespace Lyon.C02f
open Lyon Lyon.Mono Lyon.C02 Lyon.C02c

section Geometry
variable {K : Type} [Field K] [LinearOrder K] [IsStrictOrderedRing K]

variable (seq : List (P K × Bool))

/-- one `vertex` call on the pair of chains (`p` already folded into `a.refPt`, `a.consRefX`) -/
theorem stepSides_z (hval : SweepValid seq) (tess : Basic K) (a b : SideEv K) (dx : K) (p : P K) (l : Bool) (k : Nat)
    (hk : k + 1 < seq.length) (h : Z3 seq l k a b) (hp : posOf seq k = p) (hs : sideAt seq k = l)
    (hpx : leS l p.x a.refPt.x) (hdx : 0 ≤ dx → leS l a.consRefX b.consRefX) :
    Z3 seq l (k + 1) (stepSides tess a b dx p k l).2.1 (stepSides tess a b dx p k l).2.2 := by
  dsimp only [stepSides]
  have han : a.last.id < seq.length := by have := h.ca.lt _ (h.ca.last_mem seq); omega
  have hbn : b.last.id < seq.length := by have := h.cb.lt _ (h.cb.last_mem seq); omega
  by_cases hcond : (outwardTurn a p l (decide (dx < (p.y - a.refPt.y) * Scalar.ofSci 1 1)) ||
        decide (dx < (p.y - a.refPt.y) * Scalar.ofSci 1 1)) = true
  · rw [if_pos hcond]
    have h1 : Z3 seq l k (if isAfter a.last.pos b.last.pos then flushOpp tess a b l else (tess, a, b)).2.1
          (if isAfter a.last.pos b.last.pos then flushOpp tess a b l else (tess, a, b)).2.2 ∧
        (if isAfter a.last.pos b.last.pos then flushOpp tess a b l else (tess, a, b)).2.1.last = a.last ∧
        (if isAfter a.last.pos b.last.pos then flushOpp tess a b l else (tess, a, b)).2.1.refPt = a.refPt ∧
        (if isAfter a.last.pos b.last.pos then flushOpp tess a b l else (tess, a, b)).2.2.last = b.last ∧
        (2 ≤ (if isAfter a.last.pos b.last.pos then flushOpp tess a b l else (tess, a, b)).2.2.events.length →
          a.last.id < b.last.id) := by
      split
      · rename_i hia
        obtain ⟨g1, _, g3, g4, g5, g6⟩ := flushOpp_z seq hval tess a b l k (by omega) h ((isAfter_iff _ _).mp hia)
        exact ⟨g1, g3, g4, g5, fun g => by omega⟩
      · rename_i hia
        refine ⟨h, rfl, rfl, rfl, ?_⟩
        intro h2
        have h2' : 2 ≤ b.events.length := h2
        have hna : ¬ After a.last.pos b.last.pos := fun g => hia ((isAfter_iff _ _).mpr g)
        have ha := h.ca.good
        have hb := h.cb.good
        unfold Good at ha hb
        rw [ha, hb] at hna
        have hle := id_le_of_not_after seq hval han hbn hna
        -- the two ends are different vertices
        obtain ⟨hm, hhl⟩ := h.cb.last_tail seq h2'
        have hsb := h.cb.side _ hm
        have hne : a.last.id ≠ b.last.id := by
          intro e
          by_cases ha2 : 2 ≤ a.events.length
          · have hsa := h.ca.side _ (h.ca.last_tail seq ha2).1
            rw [e, hsb] at hsa
            revert hsa; cases l <;> simp
          · obtain ⟨_, hh⟩ := h.ca.single_head seq (by omega)
            rcases h.ca.hside with g | g
            · rw [hh, e] at g; omega
            · rw [hh, e, hsb] at g
              revert g; cases l <;> simp
        omega
    generalize (if isAfter a.last.pos b.last.pos then flushOpp tess a b l else (tess, a, b)) = r1 at h1 ⊢
    obtain ⟨r1t, r1a, r1b⟩ := r1
    obtain ⟨h1a, h1c, h1r, h1d, h1o⟩ := h1
    have h1a' : Z3 seq l k r1a r1b := h1a
    have h1c' : r1a.last = a.last := h1c
    have h1r' : r1a.refPt = a.refPt := h1r
    have h1d' : r1b.last = b.last := h1d
    have h1o' : 2 ≤ r1b.events.length → a.last.id < b.last.id := h1o
    obtain ⟨g1, g2, g3, g4⟩ := flushOwn_z seq r1t r1a r1b p l k h1a' (by rw [h1r']; exact hpx)
      (fun g => by rw [h1c', h1d']; exact h1o' g)
    show Z3 seq l (k + 1) ((flushOwn r1t r1a r1b p l).2.1.push ⟨p, k, l⟩) (flushOwn r1t r1a r1b p l).2.2
    generalize flushOwn r1t r1a r1b p l = r at g1 g2 g3 g4 ⊢
    obtain ⟨rt, ra, rb⟩ := r
    have g1' : Z3 seq l k ra rb := g1
    have g2' : ra.events.length < 2 := g2
    have g4' : leS l p.x ra.refPt.x := g4
    exact push_z seq ra rb p l k g1' hp hs g4' (ChordClear.short seq (by
      simp only [SideEv.push, List.length_append, List.length_cons, List.length_nil]; omega))
  · rw [if_neg hcond]
    have hcl : decide (dx < (p.y - a.refPt.y) * Scalar.ofSci 1 1) = false := by
      cases hd : decide (dx < (p.y - a.refPt.y) * Scalar.ofSci 1 1)
      · rfl
      · rw [hd] at hcond; simp at hcond
    refine push_z seq a b p l k h hp hs hpx ?_
    intro h3 j hj1 hj2 hjs
    rw [headId_push a _ h.ca.ne] at hj1 ⊢
    have hj2' : j < k := hj2
    show 0 ≤ sg (!l) * wind (posOf seq (headId a)) (posOf seq j) p
    have hhk : headId a < k := h.ca.lt _ (by rw [h.ca.head_mem seq]; simp)
    have hhm : headId a ∈ a.events := by rw [h.ca.head_mem seq]; simp
    have hph : After p (posOf seq (headId a)) := by rw [← hp]; exact valid_after hval hhk (by omega)
    -- sides are not close: the conservative references are ordered
    have hnc : ¬ (dx < (p.y - a.refPt.y) * Scalar.ofSci 1 1) := by simpa using hcl
    have hdy : 0 ≤ p.y - a.refPt.y := by
      rw [h.g5a]
      rcases hph with g | ⟨g, _⟩
      · linarith
      · rw [g]; linarith
    have hdx0 : 0 ≤ dx := by
      have e : (Scalar.ofSci 1 1 : K) = 1 / 10 := by simp [geom]
      rw [e] at hnc
      have : 0 ≤ (p.y - a.refPt.y) * (1 / 10 : K) := by positivity
      linarith [not_lt.mp hnc]
    have hab := hdx hdx0
    refine chord_clear_of_sep l (M := a.consRefX) (valid_after hval hj1 (by omega)) ?_ ?_ ?_ ?_
    · rw [← hp]; exact valid_after hval hj2' (by omega)
    · exact leS_trans (h.g1a _ hhm) h.g1ac
    · exact leS_trans hpx h.g1ac
    · exact leS_trans hab (leS_not.mp (h.g2a j hj1 hj2' hjs))

/-- the separation invariant on a whole `Adv` state -/
def ZA (k : Nat) (st : Adv K) : Prop := Z3 seq true k st.left st.right

/-- folding the new vertex into the references (`updRef`) -/
theorem upd_z {l : Bool} {k : Nat} {a b a' : SideEv K} (h : Z3 seq l k a b) (p : P K)
    (he : a'.events = a.events) (hl : a'.last = a.last) (hrx : a'.refPt.x = mxS l a.refPt.x p.x)
    (hry : a'.refPt.y = a.refPt.y) (hc : a'.consRefX = mxS l a.consRefX (mxS l a.refPt.x p.x)) :
    Z3 seq l k a' b ∧ leS l p.x a'.refPt.x :=
  ⟨{ ca := h.ca.congr seq he hl
     cb := h.cb
     g1a := by rw [he, hrx]; exact fun x hx => leS_trans (h.g1a x hx) (leS_mx_left _ _ _)
     g1ac := by rw [hrx, hc]; exact leS_mx_right _ _ _
     g1b := h.g1b
     g1bc := h.g1bc
     g2a := by simp only [headId, he]; exact h.g2a
     g2b := by rw [hc]; exact fun j h1 h2 h3 => leS_trans (h.g2b j h1 h2 h3) (leS_mx_left _ _ _)
     g5a := by rw [hry]; simp only [headId, he]; exact h.g5a
     g5b := h.g5b
     d5a := by rw [he, hl]; exact h.d5a
     d5b := by rw [he]; exact h.d5b
     ha := h.ha.congr seq he hl
     hb := h.hb }, by rw [hrx]; exact leS_mx_right _ _ _⟩

theorem begin_z (p0 : P K) (h0 : posOf seq 0 = p0) : ZA seq 1 (Adv.begin Adv.new p0 0) := by
  have hc : ∀ l : Bool, SideChain seq l 1 (⟨p0, p0.x, [0], (Adv.new (α := K)).left.last.pos, ⟨p0, 0, l⟩⟩ : SideEv K) := by
    intro l
    exact { ne := by simp, last := rfl, good := h0.symm, inc := by simp, lt := by simp, side := by simp,
            hside := Or.inl rfl, complete := fun j h1 h2 _ => by simp only [headId, List.headD_cons] at h1; omega }
  exact
    { ca := hc true, cb := hc false
      g1a := by intro x hx; simp only [Adv.begin, List.mem_singleton] at hx; rw [hx, h0]; exact leS_refl _ _
      g1ac := leS_refl _ _
      g1b := by intro x hx; simp only [Adv.begin, List.mem_singleton] at hx; rw [hx, h0]; exact leS_refl _ _
      g1bc := leS_refl _ _
      g2a := fun j h1 h2 _ => by simp only [headId, Adv.begin, List.headD_cons] at h1; omega
      g2b := fun j h1 h2 _ => by simp only [headId, Adv.begin, List.headD_cons] at h1; omega
      g5a := by simp [Adv.begin, headId, h0]
      g5b := by simp [Adv.begin, headId, h0]
      d5a := fun h2 => by simp [Adv.begin] at h2
      d5b := fun h2 => by simp [Adv.begin] at h2
      ha := ChordClear.short seq (by simp [Adv.begin])
      hb := ChordClear.short seq (by simp [Adv.begin]) }

/-- **`Adv.vertex` keeps the separation invariant** -/
theorem vertex_z (hval : SweepValid seq) (st : Adv K) (p : P K) (k : Nat) (l : Bool) (hk : k + 1 < seq.length)
    (h : ZA seq k st) (hp : posOf seq k = p) (hs : sideAt seq k = l) : ZA seq (k + 1) (st.vertex p k l) := by
  rw [vertex_eq]
  cases l
  · obtain ⟨hu, hpx⟩ := upd_z seq (Z3.symm seq h) p (a' := (updRef st p false).right) rfl rfl
      (by simp [updRef, mxS, geom]) rfl (by simp [updRef, mxS, geom])
    have hz := stepSides_z seq hval (updRef st p false).tess (updRef st p false).right (updRef st p false).left
      ((updRef st p false).right.consRefX - (updRef st p false).left.consRefX) p false k hk hu hp hs hpx
      (by intro g; simp only [leS, Bool.false_eq_true, if_false]; linarith)
    have := Z3.symm seq hz
    simp only [Bool.not_false] at this
    exact this
  · obtain ⟨hu, hpx⟩ := upd_z seq h p (a' := (updRef st p true).left) rfl rfl
      (by simp [updRef, mxS, geom]) rfl (by simp [updRef, mxS, geom])
    exact stepSides_z seq hval (updRef st p true).tess (updRef st p true).left (updRef st p true).right
      ((updRef st p true).right.consRefX - (updRef st p true).left.consRefX) p true k hk hu hp hs hpx
      (by intro g; simp only [leS, if_true]; linarith)

theorem afeed_z (hval : SweepValid seq) (vs : List (P K × Bool)) (st : Adv K) (k : Nat)
    (hvs : ∀ i (h : i < vs.length), seq[k + i]? = some vs[i]) (hk : k + vs.length + 1 ≤ seq.length)
    (h : ZA seq k st) : ZA seq (k + vs.length) (afeed st k vs) := by
  induction vs generalizing st k with
  | nil => simpa [afeed] using h
  | cons v r ih =>
    obtain ⟨p, l⟩ := v
    simp only [List.length_cons] at hk
    have h0 := hvs 0 (by simp)
    simp only [Nat.add_zero, List.getElem_cons_zero] at h0
    have hp : posOf seq k = p := by simp [posOf, h0]
    have hl : sideAt seq k = l := by simp [sideAt, h0]
    have hv := vertex_z seq hval st p k l (by omega) h hp hl
    have := ih (st.vertex p k l) (k + 1) (by
      intro i hi
      have := hvs (i + 1) (by simp only [List.length_cons]; omega)
      simp only [List.getElem_cons_succ] at this
      rw [← this]; congr 1; omega) (by omega) hv
    simp only [afeed, List.length_cons]
    rwa [show k + (r.length + 1) = k + 1 + r.length by omega]

/-- **every state the advanced tessellator reaches on a valid sweep sequence is chord-clear** -/
theorem adv_chord_clear (hval : SweepValid seq) : ChordClearRun seq := by
  intro i
  by_cases hn : seq.length ≤ 1
  · have : (midsOf seq).take i = [] := by
      apply List.eq_nil_of_length_eq_zero
      simp only [midsOf, List.length_take, List.length_tail]
      omega
    rw [this]
    simp only [afeed]
    exact ⟨ChordClear.short _ (by simp [Adv.begin]), ChordClear.short _ (by simp [Adv.begin])⟩
  have hlen : ((midsOf seq).take i).length ≤ seq.length - 2 := by
    simp only [midsOf, List.length_take, List.length_tail]
    omega
  have hz := afeed_z seq hval ((midsOf seq).take i) (Adv.begin Adv.new (posOf seq 0) 0) 1 (by
      intro j hj
      simp only [midsOf, List.length_take, List.length_tail] at hj
      simp only [midsOf, List.getElem_take, List.getElem_tail]
      have hj' : j + 1 < seq.length := by omega
      rw [show 1 + j = j + 1 by omega]
      exact List.getElem?_eq_getElem hj') (by omega) (begin_z seq _ rfl)
  have ha := hz.ha
  have hb := hz.hb
  rw [Bool.not_true] at hb
  exact ⟨ha, hb⟩

/-- **area, advanced tessellator, valid sweep sequence**: the `wind`s of the triangles of
`Adv.run` add up EXACTLY to the polygon's shoelace area -/
theorem adv_run_area_eq (h2 : 2 ≤ seq.length) (hval : SweepValid seq) :
    sumW (posOf seq) (Adv.run seq) = shoelaceW (polygonOf seq) :=
  le_antisymm (adv_run_area_le seq h2 hval (adv_chord_clear seq hval)) (adv_run_area seq h2)

end Geometry

end Lyon.C02f
