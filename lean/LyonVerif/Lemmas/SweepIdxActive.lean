/-
  Index validity, `update_active_edges`: `process_intersection` (every path of it only replaces
  one active edge by a record with the same `fromId`, and edits the queue), `handle_intersections`
  and the splice of the pending edges into the active list (new edges get `fromId = current
  vertex`) preserve `Inv1 n` (success and failure).
-/
import LyonVerif.Lemmas.SweepIdxBelow

set_option linter.unusedSectionVars false
set_option linter.unusedVariables false
set_option linter.unusedSimpArgs false
set_option mvcgen.warning false

namespace Lyon.SweepIdx
open Lyon Lyon.Scalar Lyon.Mono Lyon.Sweep Lyon.EQ
open Std.Do

variable {α : Type} [Scalar α] [Wide α]

theorem processIntersection_spec (n : Nat) (ta tb : Wide.W α) (aei : Nat) (eb0 : PendingEdge α) (belowSeg : Seg (Wide.W α)) :
    ⦃fun s => ⌜Inv1 n s⌝⦄ (processIntersection ta tb aei eb0 belowSeg : SM α (PendingEdge α)) ⦃keeps n⦄ := by
  unfold processIntersection
  mvcgen
  all_goals inv_set

theorem handleIntersectionsStep_spec (n : Nat) (skipS skipE : Nat) :
    ⦃fun s => ⌜Inv1 n s⌝⦄ (handleIntersectionsStep skipS skipE : SM α Unit) ⦃keeps n⦄ := by
  unfold handleIntersectionsStep
  have h1 := processIntersection_spec (α := α) n
  mvcgen [h1] invariants
  · post⟨fun _ s => ⌜Inv1 n s⌝, fun _ s => ⌜Inv1 n s⌝⟩
  · post⟨fun _ s => ⌜Inv1 n s⌝, fun _ s => ⌜Inv1 n s⌝⟩
  with skip
  inv_frame

theorem updateActiveEdges_spec (n : Nat) (scan : Scan) :
    ⦃fun s => ⌜Inv1 n s⌝⦄ (updateActiveEdges scan : SM α Unit) ⦃keeps n⦄ := by
  unfold updateActiveEdges
  have h1 := handleIntersectionsStep_spec (α := α) n
  mvcgen [h1]
  all_goals
    apply Inv1.frame <;> first | assumption | rfl | skip
    apply splice_ok
    · apply Inv1.active'; assumption
    · intro b; apply Inv1.cur; assumption
