/-
  Index validity for the complete stroker model `Lyon.Stroke.Full`, part 4: `end_with_caps`,
  `close`, `end`, the event loop (`runEvent`, `runEvents`), lifted by induction over the event list.
-/
import LyonVerif.Lemmas.StrokeIdxStep

set_option linter.unusedSectionVars false
set_option linter.unusedVariables false

namespace Lyon.C05c
open Lyon Scalar Lyon.Stroke Lyon.Stroke.Full Lyon.C05 Lyon.C05b

section
variable {α : Type} [Scalar α] [Transc α] {c : Cls α} {G : P α → P α → P α → Prop}

theorem In1.mono {n m : Nat} {i : JoinIds} (h : In1 n i) (hnm : n ≤ m) : In1 m i :=
  ⟨Nat.lt_of_lt_of_le h.1 hnm, Nat.lt_of_lt_of_le h.2 hnm⟩

/-! ## `end_with_caps` -/

theorem lastSidesFw_spec (p0 p1 : EP α) : Upd p1 (lastSidesFw p0 p1) ∧ (lastSidesFw p0 p1).ids = p1.ids :=
  ⟨⟨rfl, rfl, rfl, rfl, Or.inl rfl⟩, rfl⟩

theorem endWithCaps_eq_cap {e : Env α} {st : St α} (h : (st.mayNeedEmptyCap && st.buf.count == 1) = true) :
    endWithCaps e st = { st with out := emptyCap e st } := by
  unfold endWithCaps; simp only []; rw [if_pos h]

theorem endWithCaps_eq_none {e : Env α} {st : St α} (h : (st.mayNeedEmptyCap && st.buf.count == 1) = false)
    (h2 : st.buf.lastTwo = none) : endWithCaps e st = st := by
  unfold endWithCaps; simp only []; rw [if_neg (by simp [h])]; simp only [h2]

/-- the two edges `end_with_caps` tessellates -/
def capsOut (e : Env α) (st : St α) (p0 p1 : EP α) : EP α × Out α :=
  lastEdge e p0 (if e.o.varWidth then p1 else lastSidesFw p0 p1) (st.buf.count == 2) st.out

theorem endWithCaps_eq_some {e : Env α} {st : St α} {p0 p1 : EP α}
    (h : (st.mayNeedEmptyCap && st.buf.count == 1) = false) (h2 : st.buf.lastTwo = some (p0, p1)) :
    endWithCaps e st = { st with
      subPathStartAdvancement := (capsOut e st p0 p1).1.advancement,
      out := firstEdge e (if st.buf.count > 2 then st.firsts.headD p0 else p0)
        (if st.buf.count > 2 then (st.firsts.drop 1).headD (capsOut e st p0 p1).1 else (capsOut e st p0 p1).1)
        (capsOut e st p0 p1).2 } := by
  unfold endWithCaps; simp only []; rw [if_neg (by simp [h])]; simp only [h2]; rfl

/-- `end_with_caps`: only valid output; the window is left alone -/
theorem endWithCaps_spec {thr : α} (e : Env α) {st : St α} (hI : Inv thr c G st) :
    VSteps c.C st.out (endWithCaps e st).out ∧ (endWithCaps e st).buf = st.buf := by
  by_cases hcap : (st.mayNeedEmptyCap && st.buf.count == 1) = true
  · rw [endWithCaps_eq_cap hcap]
    refine ⟨emptyCap_spec e st ?_, rfl⟩
    intro point hp
    have h1 : st.buf.count = 1 := by
      simp only [Bool.and_eq_true, beq_iff_eq] at hcap; exact hcap.2
    have : st.buf.last = some point := by
      simp only [PointBuffer.last, h1, Nat.sub_self]
      simpa using hp
    exact (hI.cls1 _ this).1
  have hcap' : (st.mayNeedEmptyCap && st.buf.count == 1) = false := by simpa using hcap
  by_cases hc2 : st.buf.count < 2
  · rw [endWithCaps_eq_none hcap' (lastTwo_none hc2)]
    exact ⟨VSteps.refl _, rfl⟩
  obtain ⟨p0, p1, hxy⟩ := hI.wf.lastTwo_some (by omega)
  have hle := hI.wf.count_le
  rw [endWithCaps_eq_some hcap' hxy]
  refine ⟨?_, rfl⟩
  have hF1 : c.F p1 := hI.cls1 _ (hI.wf.lastTwo_last _ _ hxy)
  have hF0 : c.F p0 := hI.cls2 _ _ hxy
  -- the last edge
  have ha : ∃ p1a, p1a = (if e.o.varWidth then p1 else lastSidesFw p0 p1) ∧ Upd p1 p1a ∧ p1a.ids = p1.ids := by
    refine ⟨_, rfl, ?_⟩
    split_ifs
    · exact ⟨Upd.refl _, rfl⟩
    · exact lastSidesFw_spec p0 p1
  obtain ⟨p1a, ea, ua, ida⟩ := ha
  have hlast := lastEdge_spec (C := c.C) e p0 p1a (st.buf.count == 2) st.out (Cls.F_upd hF1 ua).1
    (fun h => by
      have h3 : 3 ≤ st.buf.count := by
        have : st.buf.count ≠ 2 := by simpa using h
        omega
      exact ((hI.three h3 _ _ hxy).1.mono (by omega)).out0)
    (by
      rw [ida]
      by_cases h2 : st.buf.count = 2
      · exact Or.inl (hI.two h2 _ _ hxy).2.1
      · exact (hI.three (by omega) _ _ hxy).2)
  have ecaps : capsOut e st p0 p1 = lastEdge e p0 p1a (st.buf.count == 2) st.out := by rw [ea]; rfl
  rw [ecaps]
  obtain ⟨s1, u1, i1⟩ := hlast
  generalize lastEdge e p0 p1a (st.buf.count == 2) st.out = r at s1 u1 i1
  obtain ⟨p1b, o1⟩ := r
  simp only at s1 u1 i1 ⊢
  have hle1 := s1.next_le
  refine s1.trans ?_
  by_cases h3 : st.buf.count > 2
  · obtain ⟨f0, f1, ef, r0, g1, _⟩ := hI.firsts (by omega)
    simp only [if_pos h3, ef, List.headD_cons, List.drop_succ_cons, List.drop_zero]
    exact firstEdge_spec e f0 f1 o1 (hI.clsF f0 (by simp [ef])).1 r0 (g1.mono (by omega)).in1
  · simp only [if_neg h3]
    exact firstEdge_spec e p0 p1b o1 hF0.1 (hI.two (by omega) _ _ hxy).1 (In1.mono i1 (by omega))

/-! ## `close` -/

/-- the position fix-up of `close` after a merged first step -/
def closeFix (st1 : St α) (added : Bool) (pos : P α) : St α :=
  if added then st1 else
    match st1.buf.last with
    | some l => st1.setLast { l with position := pos }
    | none => st1

/-- the last edge of `close` -/
def closeTail (st3 : St α) (adv : α) : St α :=
  match st3.buf.lastTwo with
  | some (q0, q1) =>
    { st3 with out := ((closeVertices q0 adv st3.out).2.addTris
        (addEdgeTriangles (closeVertices q0 adv st3.out).1.ids q1.ids)) }
  | none => st3

theorem close_eq (step : StepFn α) {st : St α} {p p2 : EP α} {rest : List (EP α)}
    (h : st.firsts = p :: p2 :: rest) :
    close step st = closeTail (step (closeFix (step st { p with advancement := nan }).1
      (step st { p with advancement := nan }).2 p.position) p2).1 p.advancement := by
  unfold close closeTail closeFix; rw [h]; rfl

/-- `close` (window full): two steps and the closing edge; only valid output -/
theorem close_spec {thr : α} {step : StepFn α} (hstep : StepSpec thr c G step) {st : St α}
    (hI : Inv thr c G st) (h3 : 3 ≤ st.buf.count) :
    VSteps c.C st.out (close step st).out ∧ WF (close step st).buf := by
  obtain ⟨f0, f1, hf, r0, g1, hfar⟩ := hI.firsts h3
  have hle := hI.wf.count_le
  have hF0 : c.F f0 := hI.clsF f0 (by simp [hf])
  rw [close_eq step hf]
  -- first step
  have up : Upd f0 { f0 with advancement := nan } := ⟨rfl, rfl, rfl, rfl, Or.inl rfl⟩
  have r1 := hstep st { f0 with advancement := nan } hI (Cls.F_upd hF0 up) (Or.inl r0)
  have key : ∃ st2 : St α, st2 = closeFix (step st { f0 with advancement := nan }).1
        (step st { f0 with advancement := nan }).2 f0.position
      ∧ Inv thr c G st2 ∧ VSteps c.C st.out st2.out ∧ st2.firsts = [f0, f1] ∧ st2.buf.count = 3
      ∧ ∃ l, st2.buf.last = some l ∧ l.position = f0.position := by
    refine ⟨_, rfl, ?_⟩
    cases hr : (step st { f0 with advancement := nan }).2
    · obtain ⟨e1, e2, e3, _⟩ := r1.merged hr
      have hI1 := r1.inv
      generalize (step st { f0 with advancement := nan }).1 = st1 at e1 e2 e3 hI1
      obtain ⟨l, hl⟩ := hI1.wf.last_some (by rw [e1]; omega)
      have hFl : c.F ({ l with position := f0.position } : EP α) := by
        have := hI1.cls1 l hl; exact this
      obtain ⟨b', hb, hI2, hc2, hl2, _⟩ := InvC.setLast hI1 hl hFl rfl (fun h => by rw [e1] at h; omega)
      have e : closeFix st1 false f0.position = { st1 with buf := b' } := by
        simp [closeFix, hl, St.setLast, hb]
      rw [e]
      exact ⟨hI2, by rw [show ({ st1 with buf := b' } : St α).out = st.out from e3]; exact VSteps.refl _,
        by rw [show ({ st1 with buf := b' } : St α).firsts = st.firsts from e2]; exact hf,
        by show b'.count = 3; rw [hc2, e1]; omega, _, hl2, rfl⟩
    · obtain ⟨_, ⟨n', hl, un, _⟩, hcnt⟩ := r1.added hr
      obtain ⟨hc, hfs⟩ := hcnt h3
      have e : closeFix (step st { f0 with advancement := nan }).1 true f0.position
          = (step st { f0 with advancement := nan }).1 := by simp [closeFix]
      rw [e]
      exact ⟨r1.inv, r1.steps, by rw [hfs]; exact hf, hc, n', hl, un.pos⟩
  obtain ⟨st2, he, hI2, hs2, hf2, hc2, l, hl, hlp⟩ := key
  rw [← he]
  -- second step: never merged
  obtain ⟨f0', f1', hf2', _, g1', hfar'⟩ := hI2.firsts (by omega)
  rw [hf2] at hf2'
  simp only [List.cons.injEq, and_true] at hf2'
  obtain ⟨rfl, rfl⟩ := hf2'
  have hF1 : c.F f1 := hI2.clsF f1 (by simp [hf2])
  have r3 := hstep st2 f1 hI2 hF1 (Or.inr ⟨by omega, g1'⟩)
  have hnot : st2.tooClose thr f1.position = false := by
    rw [tooClose_eq hl, hlp]; exact hfar'
  have hr3 : (step st2 f1).2 = true := by
    cases hr : (step st2 f1).2
    · have := (r3.merged hr).2.2.2
      rw [hnot] at this; cases this
    · rfl
  obtain ⟨_, ⟨n3, hl3, _, id3⟩, hcnt3⟩ := r3.added hr3
  obtain ⟨hc3, _⟩ := hcnt3 (by omega)
  have hI3 := r3.inv
  have hs3 := r3.steps
  generalize (step st2 f1).1 = st3 at hI3 hs3 hl3 hc3
  obtain ⟨q0, q1, hq⟩ := hI3.wf.lastTwo_some (by omega)
  have hq1 : q1 = n3 := by
    have := hI3.wf.lastTwo_last _ _ hq
    rw [hl3] at this; simp only [Option.some.injEq] at this; exact this.symm
  subst hq1
  have e : closeTail st3 f0.advancement = { st3 with out := ((closeVertices q0 f0.advancement st3.out).2.addTris
      (addEdgeTriangles (closeVertices q0 f0.advancement st3.out).1.ids q1.ids)) } := by
    simp [closeTail, hq]
  rw [e]
  refine ⟨(hs2.trans hs3).trans ?_, hI3.wf⟩
  exact closeVertices_spec q0 q1 f0.advancement st3.out (hI3.cls2 _ _ hq).1 (hI3.three (by omega) _ _ hq).1
    (by rw [id3]; exact g1'.mono hs3.next_le)

/-! ## `end` -/

theorem endSub_core {thr : α} (e : Env α) {step : StepFn α} (hstep : StepSpec thr c G step) {st0 : St α}
    (hI0 : Inv thr c G st0) (b : Bool) :
    VSteps c.C st0.out (if b && st0.buf.count > 2 then close step st0 else endWithCaps e st0).out
    ∧ WF (if b && st0.buf.count > 2 then close step st0 else endWithCaps e st0).buf := by
  split_ifs with hc
  · have h3 : 3 ≤ st0.buf.count := by
      simp only [Bool.and_eq_true, decide_eq_true_eq] at hc; exact hc.2
    exact close_spec hstep hI0 h3
  · obtain ⟨s, w⟩ := endWithCaps_spec e hI0
    exact ⟨s, by rw [w]; exact hI0.wf⟩

/-- `end(close)`: only valid output; afterwards the window is empty -/
theorem endSub_spec {thr : α} (e : Env α) {step : StepFn α} (hstep : StepSpec thr c G step) {st : St α}
    (hI : Inv thr c G st) (closed : Bool) :
    VSteps c.C st.out (endSub e step st closed).out ∧ Inv thr c G (endSub e step st closed) := by
  have h := endSub_core e hstep
    (st0 := { st with mayNeedEmptyCap := st.mayNeedEmptyCap || (closed && st.buf.count == 1) }) hI closed
  exact ⟨h.1, InvC.cleared h.2 _⟩

end

/-! ## the event loop -/

section Events
variable {α : Type} [Scalar α] [Transc α] [Asin α] [FlatConst α] {c : Cls α} {G : P α → P α → P α → Prop}

theorem mk'_raw (p : P α) (hw adv : α) (lj : LineJoin) (src : Src α) (flat : Bool) :
    Raw (EP.mk' p hw adv lj src flat).ids := ⟨rfl, rfl⟩

theorem quadPoints_raw {q : Quad α} {tol : α} {a b : Nat} {hwAt : α → α} {lj : LineJoin} {l : List (EP α)}
    (h : quadPoints q tol a b hwAt lj = some l) : ∀ x ∈ l, Raw x.ids := by
  unfold quadPoints at h
  cases hf : flattenQuad q tol with
  | none => rw [hf] at h; simp at h
  | some l0 =>
    rw [hf] at h
    simp only [Option.map_some, Option.some.injEq] at h
    subst h
    intro x hx
    simp only [List.mem_map] at hx
    obtain ⟨f, _, rfl⟩ := hx
    exact mk'_raw _ _ _ _ _ _

theorem cubicPoints_raw {q : Cubic α} {tol : α} {a b : Nat} {hwAt : α → α} {lj : LineJoin} {l : List (EP α)}
    (h : cubicPoints q tol a b hwAt lj = some l) : ∀ x ∈ l, Raw x.ids := by
  unfold cubicPoints at h
  cases hf : q.forEachFlattenedWithT tol with
  | none => rw [hf] at h; simp at h
  | some l0 =>
    rw [hf] at h
    simp only [Option.map_some, Option.some.injEq] at h
    subst h
    intro x hx
    simp only [List.mem_map] at hx
    obtain ⟨f, _, rfl⟩ := hx
    exact mk'_raw _ _ _ _ _ _

/-- the endpoints an event feeds to the step function are of the class `c`; `K` holds of the
endpoint ids seen so far (`curId`: the `from` id of the next curve) -/
def EvOK (e : Env α) (store : Nat → List α) (c : Cls α) (K : Nat → Prop) : IdEv α → Prop
  | .begin id p => (∀ adv, c.F (EP.mk' p (e.hwOf store id) adv e.o.join (.endpoint id) false)) ∧ K id
  | .line id p => c.F (EP.mk' p (e.hwOf store id) nan e.o.join (.endpoint id) false) ∧ K id
  | .quad ctrl id p => (∀ cur curPos l, K cur →
      quadPoints ⟨curPos, ctrl, p⟩ e.o.tolerance cur id (e.hwAt store cur id) e.o.join = some l →
      ∀ q ∈ l, c.F q) ∧ K id
  | .cubic c1 c2 id p => (∀ cur curPos l, K cur →
      cubicPoints ⟨curPos, c1, c2, p⟩ e.o.tolerance cur id (e.hwAt store cur id) e.o.join = some l →
      ∀ q ∈ l, c.F q) ∧ K id
  | .end_ _ => True

/-- the invariant of the event loop -/
structure RInv (e : Env α) (c : Cls α) (G : P α → P α → P α → Prop) (K : Nat → Prop) (r : Run α) : Prop where
  inv : Inv e.thr c G r.st
  steps : VSteps c.C (Out.empty 0) r.st.out
  cur : K r.curId

theorem feedList_spec {thr : α} {step : StepFn α} (hstep : StepSpec thr c G step) :
    ∀ (l : List (EP α)) (st : St α), Inv thr c G st → (∀ q ∈ l, c.F q ∧ Raw q.ids) →
      Inv thr c G (l.foldl (fun s q => (step s q).1) st)
      ∧ VSteps c.C st.out (l.foldl (fun s q => (step s q).1) st).out := by
  intro l
  induction l with
  | nil => intro st hI _; exact ⟨hI, VSteps.refl _⟩
  | cons q qs ih =>
    intro st hI hq
    obtain ⟨hF, hr⟩ := hq q (by simp)
    have r1 := hstep st q hI hF (Or.inl hr)
    obtain ⟨a, b⟩ := ih (step st q).1 r1.inv (fun x hx => hq x (by simp [hx]))
    exact ⟨a, r1.steps.trans b⟩

theorem runEvent_spec {e : Env α} (hreg : Reg e c G) (store : Nat → List α) {K : Nat → Prop} {r : Run α}
    (hr : RInv e c G K r) {ev : IdEv α} (hev : EvOK e store c K ev) :
    RInv e c G K (runEvent e store r ev) := by
  have hstep := envStep_spec (α := α) hreg
  cases ev with
  | begin id p =>
    obtain ⟨hF, hk⟩ := hev
    have hI0 : Inv e.thr c G ({ r.st with mayNeedEmptyCap := false } : St α) := hr.inv
    have r1 := hstep _ _ hI0 (hF r.st.subPathStartAdvancement) (Or.inl (mk'_raw _ _ _ _ _ _))
    exact ⟨r1.inv, hr.steps.trans r1.steps, hk⟩
  | line id p =>
    obtain ⟨hF, hk⟩ := hev
    have r1 := hstep _ _ hr.inv hF (Or.inl (mk'_raw _ _ _ _ _ _))
    exact ⟨r1.inv, hr.steps.trans r1.steps, hk⟩
  | quad ctrl id p =>
    obtain ⟨hF, hk⟩ := hev
    show RInv e c G K (r.feed e (quadPoints ⟨r.curPos, ctrl, p⟩ e.o.tolerance r.curId id
      (e.hwAt store r.curId id) e.o.join) id p)
    cases hq : quadPoints ⟨r.curPos, ctrl, p⟩ e.o.tolerance r.curId id (e.hwAt store r.curId id) e.o.join with
    | none => exact ⟨hr.inv, hr.steps, hr.cur⟩
    | some l =>
      obtain ⟨a, b⟩ := feedList_spec hstep l r.st hr.inv
        (fun q hql => ⟨hF r.curId r.curPos l hr.cur hq q hql, quadPoints_raw hq q hql⟩)
      exact ⟨a, hr.steps.trans b, hk⟩
  | cubic c1 c2 id p =>
    obtain ⟨hF, hk⟩ := hev
    show RInv e c G K (r.feed e (cubicPoints ⟨r.curPos, c1, c2, p⟩ e.o.tolerance r.curId id
      (e.hwAt store r.curId id) e.o.join) id p)
    cases hq : cubicPoints ⟨r.curPos, c1, c2, p⟩ e.o.tolerance r.curId id (e.hwAt store r.curId id) e.o.join with
    | none => exact ⟨hr.inv, hr.steps, hr.cur⟩
    | some l =>
      obtain ⟨a, b⟩ := feedList_spec hstep l r.st hr.inv
        (fun q hql => ⟨hF r.curId r.curPos l hr.cur hq q hql, cubicPoints_raw hq q hql⟩)
      exact ⟨a, hr.steps.trans b, hk⟩
  | end_ cl =>
    obtain ⟨a, b⟩ := endSub_spec e hstep hr.inv cl
    exact ⟨b, hr.steps.trans a, hr.cur⟩

theorem RInv.new (e : Env α) {K : Nat → Prop} (hk : K unset) :
    RInv e c G K (⟨St.new, unset, nanP, false⟩ : Run α) :=
  ⟨InvC.new _ _, VSteps.refl _, hk⟩

/-- the whole run: every triangle emitted, at the moment it is emitted, refers to three distinct
vertices that have been emitted before; every vertex is of the class -/
theorem runEvents_spec {e : Env α} (hreg : Reg e c G) (store : Nat → List α) {K : Nat → Prop} (hk : K unset)
    (evs : List (IdEv α)) (hev : ∀ ev ∈ evs, EvOK e store c K ev) :
    RInv e c G K (runEvents e store evs) := by
  unfold runEvents
  suffices h : ∀ (evs : List (IdEv α)) (r : Run α), RInv e c G K r → (∀ ev ∈ evs, EvOK e store c K ev) →
      RInv e c G K (evs.foldl (fun r ev => if r.panicked then r else runEvent e store r ev) r) from
    h evs _ (RInv.new e hk) hev
  intro evs
  induction evs with
  | nil => intro r hr _; exact hr
  | cons ev evs ih =>
    intro r hr hev
    refine ih _ ?_ (fun x hx => hev x (by simp [hx]))
    show RInv e c G K (if r.panicked = true then r else runEvent e store r ev)
    split_ifs
    · exact hr
    · exact runEvent_spec hreg store hr (hev ev (by simp))

end Events

end Lyon.C05c
