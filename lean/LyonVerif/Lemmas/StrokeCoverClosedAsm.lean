/-
  C06c, part 3: closed polygons.  `pt` is continued periodically (`pt (i + N) = pt i`, `N = m + 1` points); the
  regime `RegimeC` is stated on one period; every quantity the argument uses is periodic, so the local
  hypotheses `Around` hold around every edge index `k ≥ 2`, and every edge of the polygon has such an index.
-/
import LyonVerif.Lemmas.StrokeCoverClosed
import LyonVerif.Lemmas.StrokeCoverInner

set_option linter.unusedSectionVars false
set_option linter.unusedVariables false

namespace Lyon.C06b
open Lyon Scalar Lyon.Stroke Lyon.Stroke.Full Lyon.C05 Lyon.C05b Lyon.C05c Lyon.C06
open Lyon.StrokeQuad (lineIntersection)

section
variable {K : Type} [Field K] [LinearOrder K] [IsStrictOrderedRing K] [Transc K]

/-- a predicate that is `N`-periodic and holds on one period holds everywhere -/
theorem per_all (N : Nat) (hN : 0 < N) (C : Nat → Prop) (hper : ∀ i, C (i + N) ↔ C i) (h : ∀ i, i < N → C i) :
    ∀ i, C i := by
  intro i
  induction i using Nat.strong_induction_on with
  | _ i ih =>
    by_cases hi : i < N
    · exact h i hi
    · obtain ⟨i', rfl⟩ : ∃ i', i = i' + N := ⟨i - N, by omega⟩
      exact (hper i').mpr (ih i' (by omega))

/-- **the no-fold regime of a closed polygon** with the `N = m + 1` points `pt 0 … pt m`, `pt` continued
`N`-periodically: on one period, no point is merged with its successor, every edge is longer than `eps`, no
U-turn at any point (first guard of `compute_normal`), the model's fold test answers "no fold" at every
point, every edge is at least `w/2·(|tan(θ_a/2)| + |tan(θ_b/2)| + 1)` long (`θ_a`, `θ_b` the turns at its ends) -/
def RegimeC (e : Env K) (eps : K) (pt : Nat → P K) (m : Nat) : Prop :=
  (∀ i, i < m + 1 → pointsAreTooClose e.thr (pt i) (pt (i + 1)) = false)
  ∧ (∀ i, i < m + 1 → eps < eL pt i)
  ∧ (∀ i, i < m + 1 → ¬ (eT pt i + eT pt (i + 1)).sqLen < normalEpsilon)
  ∧ (∀ i, i < m + 1 → noFoldAt e (pt i) (pt (i + 1)) (pt (i + 1 + 1)))
  ∧ (∀ i, i < m + 1 → e.hwFw * (|jtau pt i| + |jtau pt (i + 1)| + 1) ≤ eL pt (i + 1))

noncomputable instance (e : Env K) (eps : K) (pt : Nat → P K) (m : Nat) : Decidable (RegimeC e eps pt m) := by
  unfold RegimeC noFoldAt; infer_instance

section Periodic
variable {pt : Nat → P K} {N : Nat} (hper : ∀ i, pt (i + N) = pt i)
include hper

theorem pt_per1 (i : Nat) : pt (i + N + 1) = pt (i + 1) := by
  rw [show i + N + 1 = i + 1 + N by omega]; exact hper _
theorem pt_per2 (i : Nat) : pt (i + N + 1 + 1) = pt (i + 1 + 1) := by
  rw [show i + N + 1 + 1 = i + 1 + 1 + N by omega]; exact hper _

theorem eL_per (i : Nat) : eL pt (i + N) = eL pt i := by
  unfold eL; rw [pt_per1 hper, hper]
theorem eT_per (i : Nat) : eT pt (i + N) = eT pt i := by
  unfold eT; rw [pt_per1 hper, hper]
theorem eT_per1 (i : Nat) : eT pt (i + N + 1) = eT pt (i + 1) := by
  rw [show i + N + 1 = i + 1 + N by omega]; exact eT_per hper _
theorem jtau_per (i : Nat) : jtau pt (i + N) = jtau pt i := by
  unfold jtau; rw [eT_per1 hper, eT_per hper]
theorem jtau_per1 (i : Nat) : jtau pt (i + N + 1) = jtau pt (i + 1) := by
  rw [show i + N + 1 = i + 1 + N by omega]; exact jtau_per hper _
theorem eL_per1 (i : Nat) : eL pt (i + N + 1) = eL pt (i + 1) := by
  rw [show i + N + 1 = i + 1 + N by omega]; exact eL_per hper _

/-- the join records are periodic (their geometry depends on the three positions only) -/
theorem jEP_per (e : Env K) (i : Nat) : EP.geo (jEP e pt (i + 1 + N)) = EP.geo (jEP e pt (i + 1)) := by
  unfold jEP
  refine joinSidesFw_geo_congr e.ix _ _ ?_ ?_ rfl ?_ rfl rfl
  · show pt (i + 1 + N - 1) = pt (i + 1 - 1)
    rw [show i + 1 + N - 1 = i + N by omega, Nat.add_sub_cancel]; exact hper i
  · exact hper _
  · show pt (i + 1 + N + 1) = pt (i + 1 + 1)
    rw [show i + 1 + N + 1 = i + 1 + 1 + N by omega]; exact hper _

end Periodic

theorem emQuadJ_congr {o : Out K} {J J' G G' : EP K} (h : EP.geo J = EP.geo G) (h' : EP.geo J' = EP.geo G')
    (hq : EmQuadJ o G G') : EmQuadJ o J J' := by
  unfold EmQuadJ at hq ⊢
  rw [geo_sNext_neg h, geo_sNext_pos h, geo_sPrev_pos h', geo_sPrev_neg h']; exact hq

theorem emJoin_congr {o : Out K} {J G : EP K} (h : EP.geo J = EP.geo G) (hq : EmJoin o G) : EmJoin o J := by
  obtain ⟨g1, g2, g3⟩ := geo_pos h
  obtain ⟨g4, g5, g6⟩ := geo_neg h
  unfold EmJoin at hq ⊢
  rw [g1, g2, g3, g4, g5, g6, geo_sPrev_pos h, geo_sPrev_neg h]; exact hq

/-- the regime of one period holds at every index: edges are non-degenerate, every join has its closed form,
every edge satisfies the length condition -/
theorem regimeC_all {e : Env K} {eps : K} (h : CoverHyp e eps) {pt : Nat → P K} {m : Nat}
    (hper : ∀ i, pt (i + (m + 1)) = pt i) (hr : RegimeC e eps pt m) :
    (∀ i, 0 < (pt (i + 1) - pt i).sqLen)
    ∧ (∀ i, JClosed e pt i (psAt e pt (i + 1)) (nsAt e pt (i + 1)) (lamAt e pt (i + 1)))
    ∧ (∀ i, e.hwFw * (|jtau pt i| + |jtau pt (i + 1)| + 1) ≤ eL pt (i + 1)) := by
  obtain ⟨r1, r2, r3, r4, r5⟩ := hr
  have hN : 0 < m + 1 := by omega
  have a2 : ∀ i, eps < eL pt i :=
    per_all (m + 1) hN (fun i => eps < eL pt i) (fun i => by show eps < eL pt (i + (m + 1)) ↔ _; rw [eL_per hper]) r2
  have a3 : ∀ i, ¬ (eT pt i + eT pt (i + 1)).sqLen < normalEpsilon :=
    per_all (m + 1) hN (fun i => ¬ (eT pt i + eT pt (i + 1)).sqLen < normalEpsilon)
      (fun i => by show (¬ (eT pt (i + (m + 1)) + eT pt (i + (m + 1) + 1)).sqLen < normalEpsilon) ↔ _
                   rw [eT_per hper, eT_per1 hper]) r3
  have a4 : ∀ i, noFoldAt e (pt i) (pt (i + 1)) (pt (i + 1 + 1)) :=
    per_all (m + 1) hN (fun i => noFoldAt e (pt i) (pt (i + 1)) (pt (i + 1 + 1)))
      (fun i => by show noFoldAt e (pt (i + (m + 1))) (pt (i + (m + 1) + 1)) (pt (i + (m + 1) + 1 + 1)) ↔ _
                   rw [hper, pt_per1 hper, pt_per2 hper]) r4
  have a5 : ∀ i, e.hwFw * (|jtau pt i| + |jtau pt (i + 1)| + 1) ≤ eL pt (i + 1) :=
    per_all (m + 1) hN (fun i => e.hwFw * (|jtau pt i| + |jtau pt (i + 1)| + 1) ≤ eL pt (i + 1))
      (fun i => by show e.hwFw * (|jtau pt (i + (m + 1))| + |jtau pt (i + (m + 1) + 1)| + 1) ≤ eL pt (i + (m + 1) + 1) ↔ _
                   rw [jtau_per hper, jtau_per1 hper, eL_per1 hper]) r5
  have hsq : ∀ i, 0 < (pt (i + 1) - pt i).sqLen := by
    intro i
    have hnn : (0 : K) ≤ (pt (i + 1) - pt i).sqLen := by
      simp only [geom]; exact add_nonneg (mul_self_nonneg _) (mul_self_nonneg _)
    have h2 : eL pt i * eL pt i = (pt (i + 1) - pt i).sqLen := h.sqrt_sq _ hnn
    have hpos : 0 < eL pt i := lt_of_le_of_lt h.eps_nonneg (a2 i)
    rw [← h2]; exact mul_pos hpos hpos
  exact ⟨hsq, fun i => jEP_closed e eps h.ix_eq h.eps_nonneg h.sqrt_nonneg h.sqrt_sq pt i h.join4 h.clip h.hw (hsq i) (hsq (i + 1)) (a3 i) (a4 i), a5⟩

/-- around every edge index `≥ 2` of a closed polygon in the regime the local hypotheses hold -/
theorem around_closed {e : Env K} {eps : K} (h : CoverHyp e eps) {pt : Nat → P K} {m : Nat}
    (hper : ∀ i, pt (i + (m + 1)) = pt i) (hr : RegimeC e eps pt m) {o : Out K} (hE : EmittedC e pt m o)
    (hm : 2 ≤ m) (j : Nat) : Around e eps pt o (j + 2) := by
  obtain ⟨r1, r2, r3, r4, r5⟩ := hr
  have hN : 0 < m + 1 := by omega
  -- every condition holds at every index
  have a2 : ∀ i, eps < eL pt i :=
    per_all (m + 1) hN (fun i => eps < eL pt i) (fun i => by show eps < eL pt (i + (m + 1)) ↔ _; rw [eL_per hper]) r2
  have a3 : ∀ i, ¬ (eT pt i + eT pt (i + 1)).sqLen < normalEpsilon :=
    per_all (m + 1) hN (fun i => ¬ (eT pt i + eT pt (i + 1)).sqLen < normalEpsilon)
      (fun i => by show (¬ (eT pt (i + (m + 1)) + eT pt (i + (m + 1) + 1)).sqLen < normalEpsilon) ↔ _
                   rw [eT_per hper, eT_per1 hper]) r3
  have a4 : ∀ i, noFoldAt e (pt i) (pt (i + 1)) (pt (i + 1 + 1)) :=
    per_all (m + 1) hN (fun i => noFoldAt e (pt i) (pt (i + 1)) (pt (i + 1 + 1)))
      (fun i => by show noFoldAt e (pt (i + (m + 1))) (pt (i + (m + 1) + 1)) (pt (i + (m + 1) + 1 + 1)) ↔ _
                   rw [hper, pt_per1 hper, pt_per2 hper]) r4
  have a5 : ∀ i, e.hwFw * (|jtau pt i| + |jtau pt (i + 1)| + 1) ≤ eL pt (i + 1) :=
    per_all (m + 1) hN (fun i => e.hwFw * (|jtau pt i| + |jtau pt (i + 1)| + 1) ≤ eL pt (i + 1))
      (fun i => by show e.hwFw * (|jtau pt (i + (m + 1))| + |jtau pt (i + (m + 1) + 1)| + 1) ≤ eL pt (i + (m + 1) + 1) ↔ _
                   rw [jtau_per hper, jtau_per1 hper, eL_per1 hper]) r5
  have hsq : ∀ i, 0 < (pt (i + 1) - pt i).sqLen := by
    intro i
    have hnn : (0 : K) ≤ (pt (i + 1) - pt i).sqLen := by
      simp only [geom]; exact add_nonneg (mul_self_nonneg _) (mul_self_nonneg _)
    have h2 : eL pt i * eL pt i = (pt (i + 1) - pt i).sqLen := h.sqrt_sq _ hnn
    have hpos : 0 < eL pt i := lt_of_le_of_lt h.eps_nonneg (a2 i)
    rw [← h2]; exact mul_pos hpos hpos
  have hjc : ∀ i, JClosed e pt i (psAt e pt (i + 1)) (nsAt e pt (i + 1)) (lamAt e pt (i + 1)) := fun i =>
    jEP_closed e eps h.ix_eq h.eps_nonneg h.sqrt_nonneg h.sqrt_sq pt i h.join4 h.clip h.hw (hsq i) (hsq (i + 1)) (a3 i) (a4 i)
  -- every quad and every join triangle is emitted
  have hquads : ∀ i, EmQuadJ o (jEP e pt (i + 1)) (jEP e pt (i + 1 + 1)) := by
    refine per_all (m + 1) hN (fun i => EmQuadJ o (jEP e pt (i + 1)) (jEP e pt (i + 1 + 1))) ?_ ?_
    · intro i
      have g1 : EP.geo (jEP e pt (i + (m + 1) + 1)) = EP.geo (jEP e pt (i + 1)) := by
        rw [show i + (m + 1) + 1 = i + 1 + (m + 1) by omega]; exact jEP_per hper e i
      have g2 : EP.geo (jEP e pt (i + (m + 1) + 1 + 1)) = EP.geo (jEP e pt (i + 1 + 1)) := by
        rw [show i + (m + 1) + 1 + 1 = i + 1 + 1 + (m + 1) by omega]; exact jEP_per hper e (i + 1)
      exact ⟨emQuadJ_congr g1.symm g2.symm, emQuadJ_congr g1 g2⟩
    · intro i hi
      by_cases him : i + 1 ≤ m
      · exact hE.quads (i + 1) (by omega) him
      · have : i = m := by omega
        subst this
        have g2 : EP.geo (jEP e pt (i + 1 + 1)) = EP.geo (jEP e pt 1) := by
          rw [show i + 1 + 1 = 0 + 1 + (i + 1) by omega]; exact jEP_per hper e 0
        exact emQuadJ_congr rfl g2 hE.closing
  have hjoins : ∀ i, EmJoin o (jEP e pt (i + 1)) := by
    refine per_all (m + 1) hN (fun i => EmJoin o (jEP e pt (i + 1))) ?_ ?_
    · intro i
      have g1 : EP.geo (jEP e pt (i + (m + 1) + 1)) = EP.geo (jEP e pt (i + 1)) := by
        rw [show i + (m + 1) + 1 = i + 1 + (m + 1) by omega]; exact jEP_per hper e i
      exact ⟨emJoin_congr g1.symm, emJoin_congr g1⟩
    · intro i hi
      exact hE.joins (i + 1) (by omega) (by omega)
  refine ⟨h, by omega, fun i _ _ => hsq i, fun i _ _ => hjc i, ?_, ?_, ?_⟩
  · intro i h1 h2
    obtain ⟨i', rfl⟩ : ∃ i', i = i' + 1 := ⟨i - 1, by omega⟩
    exact hquads i'
  · intro i h1 h2
    obtain ⟨i', rfl⟩ : ∃ i', i = i' + 1 := ⟨i - 1, by omega⟩
    exact hjoins i'
  · intro i h1 h2
    obtain ⟨i', rfl⟩ : ∃ i', i = i' + 1 := ⟨i - 1, by omega⟩
    exact a5 i'

/-- **closed polygons: every point of every edge's rectangle lies in an emitted triangle** (every `k`: the
edge `pt k → pt (k+1)`, indices continued periodically) -/
theorem edge_cover_closed {e : Env K} {eps : K} (h : CoverHyp e eps) {pt : Nat → P K} {m : Nat}
    (hper : ∀ i, pt (i + (m + 1)) = pt i) (hr : RegimeC e eps pt m) {o : Out K} (hE : EmittedC e pt m o)
    (hm : 2 ≤ m) (k : Nat) (s u : K) (hs : 0 ≤ s) (hs1 : s ≤ 1) (hu : -1 ≤ u) (hu1 : u ≤ 1) :
    Cov (EmTri o) (bandPoint (pt k) (pt (k + 1)) ((perp (eT pt k)).smul e.hwFw) s u) := by
  -- move the index up by two periods: at least 2
  have e1 : pt k = pt (k + (m + 1) + (m + 1)) := by rw [hper, hper]
  have e2 : pt (k + 1) = pt (k + (m + 1) + (m + 1) + 1) := by
    rw [show k + (m + 1) + (m + 1) + 1 = k + 1 + (m + 1) + (m + 1) by omega, hper, hper]
  have e3 : eT pt k = eT pt (k + (m + 1) + (m + 1)) := by rw [eT_per hper, eT_per hper]
  rw [e1, e2, e3]
  obtain ⟨j, hj⟩ : ∃ j, k + (m + 1) + (m + 1) = j + 2 := ⟨k + (m + 1) + (m + 1) - 2, by omega⟩
  rw [hj]
  exact edge_cover_in j (around_closed h hper hr hE hm j) s u hs hs1 hu hu1

end

section Run
variable {K : Type} [Field K] [LinearOrder K] [IsStrictOrderedRing K] [Transc K] [Asin K] [FlatConst K]

/-- in the regime the closed run has the emission shape of `run_emitted_closed` -/
theorem regimeC_emitted {e : Env K} {eps : K} (h : CoverHyp e eps) (store : Nat → List K) {pt : Nat → P K} {m : Nat}
    (hper : ∀ i, pt (i + (m + 1)) = pt i) (hm : 2 ≤ m) (hr : RegimeC e eps pt m) :
    EmittedC e pt m (runEvents e store (polyEvsC pt m)).st.out := by
  obtain ⟨r1, r2, r3, r4, r5⟩ := hr
  have hN : 0 < m + 1 := by omega
  have a1 : ∀ i, pointsAreTooClose e.thr (pt i) (pt (i + 1)) = false :=
    per_all (m + 1) hN (fun i => pointsAreTooClose e.thr (pt i) (pt (i + 1)) = false)
      (fun i => by show pointsAreTooClose e.thr (pt (i + (m + 1))) (pt (i + (m + 1) + 1)) = false ↔ _
                   rw [hper, pt_per1 hper]) r1
  have a4 : ∀ i, noFoldAt e (pt i) (pt (i + 1)) (pt (i + 1 + 1)) :=
    per_all (m + 1) hN (fun i => noFoldAt e (pt i) (pt (i + 1)) (pt (i + 1 + 1)))
      (fun i => by show noFoldAt e (pt (i + (m + 1))) (pt (i + (m + 1) + 1)) (pt (i + (m + 1) + 1 + 1)) ↔ _
                   rw [hper, pt_per1 hper, pt_per2 hper]) r4
  refine run_emitted_closed e store h.fw h.roundOK (ne_of_gt h.hw) pt m hm ?_ ?_ (fun i _ => a1 i) ?_
  · have := hper 0; simpa using this
  · have := hper 1; rw [show 1 + (m + 1) = m + 1 + 1 by omega] at this; exact this
  · intro i h1 h2
    obtain ⟨i', rfl⟩ : ∃ i', i = i' + 1 := ⟨i - 1, by omega⟩
    exact a4 i'

end Run


end Lyon.C06b
